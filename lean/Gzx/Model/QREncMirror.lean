/-
  wp `qrenc` — Go-MIRRORING model of qrcode/encoder/*.go (encoder.go, matrix_util.go, mask_util.go,
  byte_matrix.go) as the code IS: control flow, early exits, index arithmetic, ignored errors.

  * `BitArray` = `List Bool` (size = length; the 32-bit word layout is property C16's business),
    `ByteMatrix` = rows of `Int` cells (-1 = empty) with the `width`/`height` fields of the Go struct.
  * Every Go operation that can panic (slice index, `make` with a negative length) is `.error (.panic _)`;
    checked errors are `.error .writer` / `.illegalArg`.  Loops whose termination is not structural
    (`embedDataBits`, `calculateBCHCode`) take fuel and return `.error .fuel` when it runs out.
  * Tables: the mirror reads the tables ISO/IEC 18004 prescribes (`Gzx.QRRef`); `Obligations/C07.lean`
    proves on every run that the tables regenerated from /repo equal them, and the correspondence suite
    `c07m` compares every layer with the real code, so a table edit is seen twice.
  * Kernels: the two small pure functions the translator regenerates on every run
    (`getNumDataBytesAndNumECBytesForBlockID`, `MaskUtil_getDataMaskBit`) are PARAMETERS (`Kernels`);
    the theorems of `Properties/C07Mirror.lean` hold for every `K` with `KernelsOK K`,
    `Obligations/QREnc.lean` proves `KernelsOK` of the regenerated kernels, `refKernels` (hand mirror) is
    what the driver runs.
  * Outside the model (parameters of `EncInput`): the character-set registry look-up and the
    golang.org/x/text encoders (`encoded`, `sjis`), `utf8.RuneCountInString` (`runeCount`).
  * Reed-Solomon: `Gzx.RS.encodeArr` (property C04's mirror of ReedSolomonEncoder.Encode) over `qrCode256`.

  Core Lean only.
-/
import Gzx.Util
import Gzx.Ref.QR
import Gzx.Model.RS
import Gzx.Model.QRVersionChoice
namespace Gzx.QREnc
open Gzx Gzx.QRRef

/-! ## helpers: slices, bit arrays -/

def panicIdx {α} : Res α := .error (.panic "index out of range")

/-- `l[i]` with Go's bounds check -/
def idx {α} (l : List α) (i : Int) : Res α :=
  if i < 0 then panicIdx
  else match l[i.toNat]? with
    | some a => .ok a
    | none => panicIdx

/-- `a[i]` on an array view of a slice (same function as `idx` on the list, constant time in the driver) -/
def idxA {α} (a : Array α) (i : Int) : Res α :=
  if i < 0 then panicIdx
  else match a[i.toNat]? with
    | some x => .ok x
    | none => panicIdx

/-- `for i := lo; i < hi; i++ { s = body(i, s) }` -/
def forRange {σ} (lo hi : Int) (body : Int → σ → Res σ) (s : σ) : Res σ :=
  (List.range (hi - lo).toNat).foldlM (fun s k => body (lo + (k : Nat)) s) s

abbrev Bits := List Bool

/-- bit `k` of a Go `int` (two's complement): `value & (1 << k) != 0` -/
def testBitI (v : Int) (k : Nat) : Bool := (v >>> k) % 2 == 1

/-- `BitArray.AppendBits(value, numBits)` -/
def appendBits (value numBits : Int) (bits : Bits) : Res Bits :=
  if numBits < 0 ∨ numBits > 32 then .error .illegalArg
  else .ok (bits ++ (List.range numBits.toNat).map (fun i => testBitI value (numBits.toNat - 1 - i)))

/-- `_ = bits.AppendBits(value, numBits)`: the error is dropped, the array unchanged -/
def appendBitsIgn (value numBits : Int) (bits : Bits) : Bits :=
  match appendBits value numBits bits with
  | .ok b => b
  | .error _ => bits

/-- `BitArray.Get(i)`.  (The Go method indexes 32-bit words, so an index between `size` and the
    capacity does not panic there; no caller in this package gets that far — `encode_total`.) -/
def getBit (bits : Bits) (i : Int) : Res Bool := idx bits i

def sizeInBytes (bits : Bits) : Int := ((bits.length + 7) / 8 : Nat)

/-- number of bits the word slice of a `BitArray` of this size holds when it was built from
    `NewEmptyBitArray()` by appends (`ensureCapacity` allocates `(size+31)/32` words, at least one) -/
def capacityOf (size : Nat) : Nat := 32 * max 1 ((size + 31) / 32)

/-- `Get(i)` as `ToBytes` sees it: indexes 32-bit words, so an index between `size` and the capacity
    reads a zero bit instead of panicking (only reachable with inconsistent block sizes) -/
def getBitCap (bits : Array Bool) (i : Int) : Res Bool :=
  if i < 0 then panicIdx
  else match bits[i.toNat]? with
    | some b => .ok b
    | none => if i.toNat < capacityOf bits.size then .ok false else panicIdx

/-- inner loop of `ToBytes`: eight `Get(bitOffset)`, most significant first -/
def toByte (bits : Array Bool) (bitOffset : Int) : Res Nat :=
  (List.range 8).foldlM (fun (b : Nat) j => do
    let g ← getBitCap bits (bitOffset + (j : Nat))
    pure (if g then b ||| (1 <<< (7 - j)) else b)) 0

/-- `BitArray.ToBytes(bitOffset, array, 0, numBytes)` into a fresh `make([]byte, numBytes)` -/
def toBytes (bits : Bits) (bitOffset : Int) (numBytes : Int) : Res (List Nat) :=
  if numBytes < 0 then .error (.panic "makeslice: len out of range")
  else
    let arr := bits.toArray
    (List.range numBytes.toNat).mapM (fun i => toByte arr (bitOffset + 8 * (i : Nat)))

/-- `BitArray.Xor(other)` -/
def xorBits (a b : Bits) : Res Bits :=
  if a.length ≠ b.length then .error .illegalArg else .ok (List.zipWith (· != ·) a b)

/-! ## kernels regenerated per run -/

structure Kernels where
  /-- `getNumDataBytesAndNumECBytesForBlockID(numTotalBytes, numDataBytes, numRSBlocks, blockID)`:
      (data bytes, ec bytes, error?) -/
  blockSizes : Int → Int → Int → Int → Int × Int × Bool
  /-- `MaskUtil_getDataMaskBit(maskPattern, x, y)`: (bit, error?) -/
  maskBit : Int → Int → Int → Bool × Bool

/-- hand mirror of `getNumDataBytesAndNumECBytesForBlockID` (Go `/` and `%` truncate) -/
def refBlockSizes (numTotalBytes numDataBytes numRSBlocks blockID : Int) : Int × Int × Bool :=
  if blockID ≥ numRSBlocks then (0, 0, true)
  else
    let numRsBlocksInGroup2 := Int.tmod numTotalBytes numRSBlocks
    let numRsBlocksInGroup1 := numRSBlocks - numRsBlocksInGroup2
    let numTotalBytesInGroup1 := Int.tdiv numTotalBytes numRSBlocks
    let numTotalBytesInGroup2 := numTotalBytesInGroup1 + 1
    let numDataBytesInGroup1 := Int.tdiv numDataBytes numRSBlocks
    let numDataBytesInGroup2 := numDataBytesInGroup1 + 1
    let numEcBytesInGroup1 := numTotalBytesInGroup1 - numDataBytesInGroup1
    let numEcBytesInGroup2 := numTotalBytesInGroup2 - numDataBytesInGroup2
    if numEcBytesInGroup1 ≠ numEcBytesInGroup2 then (0, 0, true)
    else if numRSBlocks ≠ numRsBlocksInGroup1 + numRsBlocksInGroup2 then (0, 0, true)
    else if numTotalBytes ≠
        (numDataBytesInGroup1 + numEcBytesInGroup1) * numRsBlocksInGroup1 +
        (numDataBytesInGroup2 + numEcBytesInGroup2) * numRsBlocksInGroup2 then (0, 0, true)
    else if blockID < numRsBlocksInGroup1 then (numDataBytesInGroup1, numEcBytesInGroup1, false)
    else (numDataBytesInGroup2, numEcBytesInGroup2, false)

/-- hand mirror of `MaskUtil_getDataMaskBit` (Go `%` truncates, `& 0x1` on two's complement) -/
def refMaskBit (maskPattern x y : Int) : Bool × Bool :=
  let and1 (a : Int) : Int := a % 2          -- a & 0x1 (floor mod 2 = lowest two's-complement bit)
  if maskPattern = 0 then (and1 (y + x) == 0, false)
  else if maskPattern = 1 then (and1 y == 0, false)
  else if maskPattern = 2 then (Int.tmod x 3 == 0, false)
  else if maskPattern = 3 then (Int.tmod (y + x) 3 == 0, false)
  else if maskPattern = 4 then (and1 (Int.tdiv y 2 + Int.tdiv x 3) == 0, false)
  else if maskPattern = 5 then (and1 (y * x) + Int.tmod (y * x) 3 == 0, false)
  else if maskPattern = 6 then (and1 (and1 (y * x) + Int.tmod (y * x) 3) == 0, false)
  else if maskPattern = 7 then (and1 (Int.tmod (y * x) 3 + and1 (y + x)) == 0, false)
  else (false, true)

def refKernels : Kernels := ⟨refBlockSizes, refMaskBit⟩

/-! ## tables (what the standard prescribes; `Obligations/C07` ties the Go tables to them) -/

def b2i (b : Bool) : Int := if b then 1 else 0

/-- `matrixUtil_POSITION_DETECTION_PATTERN` -/
def pdp : List (List Int) := (List.range 7).map (fun y => (List.range 7).map (fun x => b2i (finderDark 1 x y)))

/-- `matrixUtil_POSITION_ADJUSTMENT_PATTERN` -/
def pap : List (List Int) :=
  (List.range 5).map (fun y => (List.range 5).map (fun x => b2i (alignmentDark 2 (16 + x) (16 + y))))

/-- `matrixUtil_POSITION_ADJUSTMENT_PATTERN_COORDINATE_TABLE`: rows padded with -1 to seven entries -/
def alignTable : List (List Int) :=
  (List.range 40).map (fun i =>
    let cs := alignCentres (i + 1)
    cs.map Int.ofNat ++ List.replicate (7 - cs.length) (-1))

/-- `matrixUtil_TYPE_INFO_COORDINATES` -/
def typeInfoCoordinates : List (List Int) :=
  (List.range 15).map (fun i => [((formatPos1 i).1 : Int), ((formatPos1 i).2 : Int)])

/-- `alphanumericTable` (96 entries) -/
def alphanumericTable : List Int :=
  (List.range 96).map (fun c => match alnumCode c with | some k => (k : Int) | none => -1)

def tables : QRVersionChoice.QRTables := QRVersionChoice.refTables

/-- Go value of `decoder.ErrorCorrectionLevel` (= the two indicator bits) -/
def ecOfInt (e : Int) : Option EC :=
  if e = 1 then some .L else if e = 0 then some .M else if e = 3 then some .Q else if e = 2 then some .H else none

/-! ## ByteMatrix (byte_matrix.go) -/

structure ByteMatrix where
  bytes : List (List Int)
  width : Int
  height : Int
  deriving DecidableEq, Repr, Inhabited

/-- `NewByteMatrix(width, height)` -/
def newByteMatrix (width height : Int) : Res ByteMatrix :=
  if height < 0 ∨ (0 < height ∧ width < 0) then .error (.panic "makeslice: len out of range")
  else .ok ⟨List.replicate height.toNat (List.replicate width.toNat 0), width, height⟩

/-- `Get(x, y) = bytes[y][x]` -/
def ByteMatrix.get (m : ByteMatrix) (x y : Int) : Res Int := do
  let row ← idx m.bytes y
  idx row x

/-- `Set(x, y, value)`: `bytes[y][x] = value` -/
def ByteMatrix.set (m : ByteMatrix) (x y : Int) (value : Int) : Res ByteMatrix := do
  let row ← idx m.bytes y
  let _ ← idx row x
  pure { m with bytes := m.bytes.set y.toNat (row.set x.toNat value) }

/-- `SetBool(x, y, value)` -/
def ByteMatrix.setBool (m : ByteMatrix) (x y : Int) (value : Bool) : Res ByteMatrix :=
  m.set x y (b2i value)

/-- `Clear(value)` -/
def ByteMatrix.clear (m : ByteMatrix) (value : Int) : ByteMatrix :=
  { m with bytes := m.bytes.map (fun row => row.map (fun _ => value)) }

def isEmpty (value : Int) : Bool := value == -1

/-! ## encoder.go: mode choice and data bits -/

/-- `getAlphanumericCode(code)` -/
def getAlphanumericCode (code : Nat) : Res Int :=
  if (code : Int) < alphanumericTable.length then idx alphanumericTable code else .ok (-1)

/-- `isOnlyDoubleByteKanji(content)`; `sjis` = what the Shift_JIS encoder returns for the content -/
def isOnlyDoubleByteKanji (sjis : Option (List Nat)) : Res Bool :=
  match sjis with
  | none => .ok false
  | some bytes =>
    let length := bytes.length
    if length % 2 ≠ 0 then .ok false
    else
      -- for i := 0; i < length; i += 2
      (List.range (length / 2)).foldlM (fun (ok : Bool) k =>
        if !ok then pure false          -- already returned
        else do
          let byte1 ← idx bytes ((2 * k : Nat) : Int)
          pure (!((byte1 < 0x81 ∨ byte1 > 0x9F) ∧ (byte1 < 0xE0 ∨ byte1 > 0xEB)))) true

/-- the scan loop of `chooseMode`; `none` = `return Mode_BYTE` from inside the loop -/
def scanContent (content : List Nat) : Res (Option (Bool × Bool)) :=
  content.foldlM (fun (st : Option (Bool × Bool)) c =>
    match st with
    | none => pure none
    | some (hasNumeric, hasAlphanumeric) =>
      if c ≥ 48 ∧ c ≤ 57 then pure (some (true, hasAlphanumeric))
      else do
        let code ← getAlphanumericCode c
        if code ≠ -1 then pure (some (hasNumeric, true)) else pure none) (some (false, false))

/-- `chooseMode(content, encoding)`; `isSJIS` = `StringUtils_SHIFT_JIS_CHARSET == encoding` -/
def chooseMode (content : List Nat) (isSJIS : Bool) (sjis : Option (List Nat)) : Res Mode := do
  let kanji ← if isSJIS then isOnlyDoubleByteKanji sjis else pure false   -- && short-circuits
  if kanji then pure .kanji
  else
    match ← scanContent content with
    | none => pure .byte
    | some (hasNumeric, hasAlphanumeric) =>
      if hasAlphanumeric then pure .alnum
      else if hasNumeric then pure .numeric
      else pure .byte

/-- `appendModeInfo(mode, bits)` -/
def appendModeInfo (modeBits : Int) (bits : Bits) : Bits := appendBitsIgn modeBits 4 bits

/-- `appendECI(eci, bits)` -/
def appendECI (eciValue : Int) (bits : Bits) : Bits :=
  appendBitsIgn eciValue 8 (appendBitsIgn 7 4 bits)

/-- `appendNumericBytes`: loop state `i`; fuel = `length` iterations at most -/
def appendNumericLoop (content : List Nat) : Nat → Int → Bits → Res Bits
  | 0, _, bits => .ok bits
  | fuel + 1, i, bits =>
    let length : Int := content.length
    if i < length then do
      let c1 ← idx content i
      let num1 : Int := (c1 : Int) - 48
      if i + 2 < length then do
        let c2 ← idx content (i + 1)
        let c3 ← idx content (i + 2)
        let num2 : Int := (c2 : Int) - 48
        let num3 : Int := (c3 : Int) - 48
        appendNumericLoop content fuel (i + 3) (appendBitsIgn (num1 * 100 + num2 * 10 + num3) 10 bits)
      else if i + 1 < length then do
        let c2 ← idx content (i + 1)
        let num2 : Int := (c2 : Int) - 48
        appendNumericLoop content fuel (i + 2) (appendBitsIgn (num1 * 10 + num2) 7 bits)
      else
        appendNumericLoop content fuel (i + 1) (appendBitsIgn num1 4 bits)
    else .ok bits

def appendNumericBytes (content : List Nat) (bits : Bits) : Res Bits :=
  appendNumericLoop content (content.length + 1) 0 bits

/-- `appendAlphanumericBytes` -/
def appendAlphanumericLoop (content : List Nat) : Nat → Int → Bits → Res Bits
  | 0, _, bits => .ok bits
  | fuel + 1, i, bits =>
    let length : Int := content.length
    if i < length then do
      let c1 ← idx content i
      let code1 ← getAlphanumericCode c1
      if code1 = -1 then .error .writer
      else if i + 1 < length then do
        let c2 ← idx content (i + 1)
        let code2 ← getAlphanumericCode c2
        if code2 = -1 then .error .writer
        else appendAlphanumericLoop content fuel (i + 2) (appendBitsIgn (code1 * 45 + code2) 11 bits)
      else appendAlphanumericLoop content fuel (i + 1) (appendBitsIgn code1 6 bits)
    else .ok bits

def appendAlphanumericBytes (content : List Nat) (bits : Bits) : Res Bits :=
  appendAlphanumericLoop content (content.length + 1) 0 bits

/-- `append8BitBytes`; `encoded` = `encoding.NewEncoder().Bytes([]byte(content))` -/
def append8BitBytes (encoded : Option (List Nat)) (bits : Bits) : Res Bits :=
  match encoded with
  | none => .error .writer
  | some bytes => .ok (bytes.foldl (fun bits (b : Nat) => appendBitsIgn (b : Int) 8 bits) bits)

/-- `appendKanjiBytes`; `sjis` = result of the Shift_JIS encoder -/
def appendKanjiBytes (sjis : Option (List Nat)) (bits : Bits) : Res Bits :=
  match sjis with
  | none => .error .writer
  | some bytes =>
    if bytes.length % 2 ≠ 0 then .error .writer
    else
      let maxI : Int := (bytes.length : Int) - 1
      -- for i := 0; i < maxI; i += 2
      (List.range ((maxI + 1) / 2).toNat).foldlM (fun bits k => do
        let i : Int := ((2 * k : Nat) : Int)
        let byte1 ← idx bytes i
        let byte2 ← idx bytes (i + 1)
        let code : Nat := (byte1 % 256) <<< 8 ||| (byte2 % 256)
        let subtracted : Int :=
          if code ≥ 0x8140 ∧ code ≤ 0x9ffc then (code : Int) - 0x8140
          else if code ≥ 0xe040 ∧ code ≤ 0xebbf then (code : Int) - 0xc140
          else -1
        if subtracted = -1 then .error .writer
        else
          let encoded : Int := (subtracted >>> 8) * 0xc0 + subtracted % 256
          pure (appendBitsIgn encoded 13 bits)) bits

/-- `appendBytes(content, mode, bits, encoding)` (the four data modes; any other mode is refused) -/
def appendBytes (content : List Nat) (mode : Mode) (encoded sjis : Option (List Nat)) (bits : Bits) : Res Bits :=
  match mode with
  | .numeric => appendNumericBytes content bits
  | .alnum => appendAlphanumericBytes content bits
  | .byte => append8BitBytes encoded bits
  | .kanji => appendKanjiBytes sjis bits

/-- `appendLengthInfo(numLetters, version, mode, bits)` -/
def appendLengthInfo (numLetters : Int) (version : VersionInfo) (mode : Mode) (bits : Bits) : Res Bits := do
  let numBits ← QRVersionChoice.characterCountBits tables mode version
  if numLetters ≥ (2 ^ numBits : Nat) then .error .writer
  else pure (appendBitsIgn numLetters numBits bits)

/-! ## encoder.go: terminateBits -/

/-- `terminateBits(numDataBytes, bits)` -/
def terminateBits (numDataBytes : Int) (bits : Bits) : Res Bits := do
  let capacity := numDataBytes * 8
  if (bits.length : Int) > capacity then .error .writer
  -- for i := 0; i < 4 && bits.GetSize() < capacity; i++ { bits.AppendBit(false) }
  let bits := (List.range 4).foldl (fun (bits : Bits) _ => if (bits.length : Int) < capacity then bits ++ [false] else bits) bits
  let numBitsInLastByte := bits.length % 8          -- bits.GetSize() & 0x07
  let bits := if numBitsInLastByte > 0
    then (List.range (8 - numBitsInLastByte)).foldl (fun (bits : Bits) _ => bits ++ [false]) bits
    else bits
  let numPaddingBytes := numDataBytes - sizeInBytes bits
  let bits := (List.range numPaddingBytes.toNat).foldl (fun (bits : Bits) i =>
    appendBitsIgn (if i % 2 = 0 then 0xEC else 0x11) 8 bits) bits
  if (bits.length : Int) ≠ capacity then .error .writer
  pure bits

/-! ## encoder.go: Reed-Solomon blocks and interleaving -/

/-- `generateECBytes(dataBytes, numEcBytesInBlock)` -/
def generateECBytes (dataBytes : List Nat) (numEcBytesInBlock : Int) : Res (List Nat) :=
  let numDataBytes : Int := dataBytes.length
  if numDataBytes + numEcBytesInBlock < 0 then .error (.panic "makeslice: len out of range")
  else if numEcBytesInBlock < 0 then panicIdx    -- toEncode[i] with len(toEncode) < numDataBytes (the sum is >= 0, so data is not empty)
  else
    let toEncode := dataBytes.map (· % 256) ++ List.replicate numEcBytesInBlock.toNat 0
    if numEcBytesInBlock ≤ 0 then .error .writer         -- Encode: "No error correction bytes"
    else
      match RS.encodeArr GF.qrCode256 toEncode numEcBytesInBlock.toNat with
      | .error (.panic w) => .error (.panic w)
      | .error _ => .error .writer                       -- WrapWriterException
      | .ok arr =>
        (List.range numEcBytesInBlock.toNat).mapM (fun i => do
          let v ← idx arr (numDataBytes + (i : Nat))
          pure (v % 256))

/-- state of the first loop of `interleaveWithECBytes` -/
structure BlockState where
  dataBytesOffset : Int := 0
  maxNumDataBytes : Int := 0
  maxNumEcBytes : Int := 0
  blocks : List (List Nat × List Nat) := []

/-- `interleaveWithECBytes(bits, numTotalBytes, numDataBytes, numRSBlocks)`; also returns the block pairs -/
def interleaveBlocks (K : Kernels) (bits : Bits) (numTotalBytes numDataBytes numRSBlocks : Int) :
    Res (Bits × List (List Nat × List Nat)) := do
  if sizeInBytes bits ≠ numDataBytes then .error .writer
  let st ← forRange 0 numRSBlocks (fun i (st : BlockState) => do
    let (numDataBytesInBlock, numEcBytesInBlock, err) := K.blockSizes numTotalBytes numDataBytes numRSBlocks i
    if err then .error .writer
    let size := numDataBytesInBlock
    let dataBytes ← toBytes bits (8 * st.dataBytesOffset) size
    let ecBytes ← generateECBytes dataBytes numEcBytesInBlock
    pure { dataBytesOffset := st.dataBytesOffset + numDataBytesInBlock
           maxNumDataBytes := if st.maxNumDataBytes < size then size else st.maxNumDataBytes
           maxNumEcBytes := if st.maxNumEcBytes < (ecBytes.length : Int) then ecBytes.length else st.maxNumEcBytes
           blocks := st.blocks ++ [(dataBytes, ecBytes)] }) {}
  if numDataBytes ≠ st.dataBytesOffset then .error .writer
  -- First, place data blocks.
  let result : Bits := (List.range st.maxNumDataBytes.toNat).foldl (fun (result : Bits) i =>
    st.blocks.foldl (fun (result : Bits) block =>
      match block.1[i]? with
      | some (b : Nat) => appendBitsIgn (b : Int) 8 result
      | none => result) result) []
  -- Then, place error correction blocks.
  let result : Bits := (List.range st.maxNumEcBytes.toNat).foldl (fun (result : Bits) i =>
    st.blocks.foldl (fun (result : Bits) block =>
      match block.2[i]? with
      | some (b : Nat) => appendBitsIgn (b : Int) 8 result
      | none => result) result) result
  if numTotalBytes ≠ sizeInBytes result then .error .writer
  pure (result, st.blocks)

def interleaveWithECBytes (K : Kernels) (bits : Bits) (numTotalBytes numDataBytes numRSBlocks : Int) : Res Bits := do
  let r ← interleaveBlocks K bits numTotalBytes numDataBytes numRSBlocks
  pure r.1

/-! ## matrix_util.go: BCH codes, type and version information bits -/

/-- `findMSBSet(value) = 32 - bits.LeadingZeros32(uint32(value))` -/
def findMSBSet (value : Nat) : Nat :=
  (List.range 32).foldl (fun acc i => if (value % 4294967296).testBit i then i + 1 else acc) 0

/-- the division loop of `calculateBCHCode` -/
def bchLoop (poly msbSetInPoly : Nat) : Nat → Nat → Res Nat
  | 0, _ => .error .fuel
  | fuel + 1, value =>
    if findMSBSet value ≥ msbSetInPoly then
      bchLoop poly msbSetInPoly fuel (value ^^^ (poly <<< (findMSBSet value - msbSetInPoly)))
    else .ok value

/-- `calculateBCHCode(value, poly)` for non-negative arguments -/
def calculateBCHCode (value poly : Nat) : Res Nat :=
  if poly = 0 then .error .illegalArg
  else
    let msbSetInPoly := findMSBSet poly
    bchLoop poly msbSetInPoly 64 (value <<< (msbSetInPoly - 1))

def typeInfoPoly : Nat := 0x537
def typeInfoMaskPattern : Nat := 0x5412
def versionInfoPoly : Nat := 0x1f25

/-- `QRCode_IsValidMaskPattern` -/
def isValidMaskPattern (maskPattern : Int) : Bool := maskPattern ≥ 0 && maskPattern < 8

/-- `makeTypeInfoBits(ecLevel, maskPattern, bits)` on an empty `bits` -/
def makeTypeInfoBits (ec : EC) (maskPattern : Int) : Res Bits := do
  if !isValidMaskPattern maskPattern then .error .writer
  let typeInfo : Nat := (ec.bits <<< 3) ||| maskPattern.toNat
  let bits := appendBitsIgn typeInfo 5 []
  let bchCode ← match calculateBCHCode typeInfo typeInfoPoly with     -- error dropped (poly is a constant)
    | .ok c => pure c
    | .error (.panic w) => .error (.panic w)
    | .error .fuel => .error .fuel
    | .error _ => pure 0
  let bits := appendBitsIgn bchCode 10 bits
  let maskBits := appendBitsIgn typeInfoMaskPattern 15 []
  let bits := match xorBits bits maskBits with                         -- error dropped
    | .ok b => b
    | .error _ => bits
  if bits.length ≠ 15 then .error .writer
  pure bits

/-- `makeVersionInfoBits(version, bits)` on an empty `bits` -/
def makeVersionInfoBits (versionNumber : Nat) : Res Bits := do
  let bits := appendBitsIgn versionNumber 6 []
  let bchCode ← match calculateBCHCode versionNumber versionInfoPoly with
    | .ok c => pure c
    | .error (.panic w) => .error (.panic w)
    | .error .fuel => .error .fuel
    | .error _ => pure 0
  let bits := appendBitsIgn bchCode 12 bits
  if bits.length ≠ 18 then .error .writer
  pure bits

/-! ## matrix_util.go: function patterns -/

def embedPositionDetectionPattern (xStart yStart : Int) (m : ByteMatrix) : Res ByteMatrix :=
  forRange 0 7 (fun y m => do
    let patternY ← idx pdp y
    forRange 0 7 (fun x m => do
      let v ← idx patternY x
      m.set (xStart + x) (yStart + y) v) m) m

def embedPositionAdjustmentPattern (xStart yStart : Int) (m : ByteMatrix) : Res ByteMatrix :=
  forRange 0 5 (fun y m => do
    let patternY ← idx pap y
    forRange 0 5 (fun x m => do
      let v ← idx patternY x
      m.set (xStart + x) (yStart + y) v) m) m

def embedHorizontalSeparationPattern (xStart yStart : Int) (m : ByteMatrix) : Res ByteMatrix :=
  forRange 0 8 (fun x m => do
    if !isEmpty (← m.get (xStart + x) yStart) then .error .writer
    m.set (xStart + x) yStart 0) m

def embedVerticalSeparationPattern (xStart yStart : Int) (m : ByteMatrix) : Res ByteMatrix :=
  forRange 0 7 (fun y m => do
    if !isEmpty (← m.get xStart (yStart + y)) then .error .writer
    m.set xStart (yStart + y) 0) m

/-- `embedPositionDetectionPatternsAndSeparators` -/
def embedPositionDetectionPatternsAndSeparators (m : ByteMatrix) : Res ByteMatrix := do
  let pdpWidth : Int := 7         -- len(matrixUtil_POSITION_DETECTION_PATTERN[0])
  let m ← embedPositionDetectionPattern 0 0 m
  let m ← embedPositionDetectionPattern (m.width - pdpWidth) 0 m
  let m ← embedPositionDetectionPattern 0 (m.width - pdpWidth) m
  let hspWidth : Int := 8
  let m ← embedHorizontalSeparationPattern 0 (hspWidth - 1) m
  let m ← embedHorizontalSeparationPattern (m.width - hspWidth) (hspWidth - 1) m
  let m ← embedHorizontalSeparationPattern 0 (m.width - hspWidth) m
  let vspSize : Int := 7
  let m ← embedVerticalSeparationPattern vspSize 0 m
  let m ← embedVerticalSeparationPattern (m.height - vspSize - 1) 0 m
  embedVerticalSeparationPattern vspSize (m.height - vspSize) m

/-- `embedDarkDotAtLeftBottomCorner` -/
def embedDarkDotAtLeftBottomCorner (m : ByteMatrix) : Res ByteMatrix := do
  if (← m.get 8 (m.height - 8)) = 0 then .error .writer
  m.set 8 (m.height - 8) 1

/-- `maybeEmbedPositionAdjustmentPatterns(version, matrix)` -/
def maybeEmbedPositionAdjustmentPatterns (versionNumber : Int) (m : ByteMatrix) : Res ByteMatrix :=
  if versionNumber < 2 then .ok m
  else do
    let index := versionNumber - 1
    let coordinates ← idx alignTable index
    coordinates.foldlM (fun m y =>
      if y ≥ 0 then
        coordinates.foldlM (fun m x => do
          if x ≥ 0 then
            if isEmpty (← m.get x y) then embedPositionAdjustmentPattern (x - 2) (y - 2) m
            else pure m
          else pure m) m
      else pure m) m

/-- `embedTimingPatterns` -/
def embedTimingPatterns (m : ByteMatrix) : Res ByteMatrix :=
  forRange 8 (m.width - 8) (fun i m => do
    let bit : Int := Int.tmod (i + 1) 2
    let m ← if isEmpty (← m.get i 6) then m.set i 6 bit else pure m
    if isEmpty (← m.get 6 i) then m.set 6 i bit else pure m) m

/-- `embedBasicPatterns(version, matrix)` -/
def embedBasicPatterns (versionNumber : Int) (m : ByteMatrix) : Res ByteMatrix := do
  let m ← embedPositionDetectionPatternsAndSeparators m
  let m ← embedDarkDotAtLeftBottomCorner m
  let m ← maybeEmbedPositionAdjustmentPatterns versionNumber m
  embedTimingPatterns m

/-- the loop of `embedTypeInfo` for given type-info bits -/
def embedTypeInfoBits (typeInfoBits : Bits) (m : ByteMatrix) : Res ByteMatrix :=
  let size : Int := typeInfoBits.length
  forRange 0 size (fun i m => do
    let bit ← getBit typeInfoBits (size - 1 - i)
    let coordinates ← idx typeInfoCoordinates i
    let x1 ← idx coordinates 0
    let y1 ← idx coordinates 1
    let m ← m.setBool x1 y1 bit
    if i < 8 then
      m.setBool (m.width - i - 1) 8 bit
    else do
      let x2 : Int := 8
      let y2 : Int := m.height - 7 + (i - 8)
      let m ← m.setBool x2 y2 bit
      m.setBool x2 y2 bit) m

/-- `embedTypeInfo(ecLevel, maskPattern, matrix)` -/
def embedTypeInfo (ec : EC) (maskPattern : Int) (m : ByteMatrix) : Res ByteMatrix := do
  let typeInfoBits ← makeTypeInfoBits ec maskPattern
  embedTypeInfoBits typeInfoBits m

/-- the double loop of `maybeEmbedVersionInfo` for given version-info bits -/
def embedVersionInfoBits (versionInfoBits : Bits) (m : ByteMatrix) : Res ByteMatrix := do
  let r ← forRange 0 6 (fun i (st : ByteMatrix × Int) =>
    forRange 0 3 (fun j (st : ByteMatrix × Int) => do
      let (m, bitIndex) := st
      let bit ← getBit versionInfoBits bitIndex
      let m ← m.setBool i (m.height - 11 + j) bit
      let m ← m.setBool (m.height - 11 + j) i bit
      pure (m, bitIndex - 1)) st) (m, 6 * 3 - 1)
  pure r.1

/-- `maybeEmbedVersionInfo(version, matrix)` -/
def maybeEmbedVersionInfo (versionNumber : Nat) (m : ByteMatrix) : Res ByteMatrix :=
  if versionNumber < 7 then .ok m
  else do
    let versionInfoBits ← makeVersionInfoBits versionNumber
    embedVersionInfoBits versionInfoBits m

/-! ## matrix_util.go: embedDataBits — the zig-zag loop exactly as coded -/

/-- Skeleton of the three nested loops of `embedDataBits`, generic in what happens at a cell
    (`step xx y` is the body of `for i := 0; i < 2; i++` with `xx = x - i`). -/
def zigzagColumn {σ} (step : Int → Int → σ → Res σ) (height x direction : Int) : Nat → Int → σ → Res (σ × Int)
  | 0, _, _ => .error .fuel
  | fuel + 1, y, s =>
    if y ≥ 0 ∧ y < height then do          -- for y >= 0 && y < matrix.GetHeight()
      let s ← step x y s                    --   i = 0: xx = x
      let s ← step (x - 1) y s              --   i = 1: xx = x - 1
      zigzagColumn step height x direction fuel (y + direction) s
    else .ok (s, y)

def zigzagOuter {σ} (step : Int → Int → σ → Res σ) (height : Int) : Nat → Int → Int → Int → σ → Res σ
  | 0, _, _, _, _ => .error .fuel
  | fuel + 1, x, y, direction, s =>
    if x > 0 then do                        -- for x > 0
      let x := if x = 6 then x - 1 else x   --   skip the vertical timing pattern
      let (s, y) ← zigzagColumn step height x direction (height.toNat + 1) y s
      let direction := -direction           --   reverse the direction
      let y := y + direction
      zigzagOuter step height fuel (x - 2) y direction s
    else .ok s

/-- the whole traversal, started at the lower right cell going up -/
def zigzagLoop {σ} (step : Int → Int → σ → Res σ) (width height : Int) (s : σ) : Res σ :=
  zigzagOuter step height (width.toNat + 1) (width - 1) (height - 1) (-1) s

/-- body of the innermost loop of `embedDataBits` at cell (xx, y): state = (matrix, bitIndex) -/
def embedCell (K : Kernels) (dataBits : Array Bool) (maskPattern : Int) (xx y : Int) (st : ByteMatrix × Nat) :
    Res (ByteMatrix × Nat) := do
  let (m, bitIndex) := st
  if !isEmpty (← m.get xx y) then pure (m, bitIndex)          -- continue
  else
    let (bit, bitIndex) ← if bitIndex < dataBits.size then do
        let b ← idxA dataBits bitIndex
        pure (b, bitIndex + 1)
      else pure (false, bitIndex)
    let bit ← if maskPattern ≠ -1 then
        match K.maskBit maskPattern xx y with
        | (_, true) => .error .writer
        | (maskBit, false) => pure (if maskBit then !bit else bit)
      else pure bit
    let m ← m.setBool xx y bit
    pure (m, bitIndex)

/-- `embedDataBits(dataBits, maskPattern, matrix)` -/
def embedDataBits (K : Kernels) (dataBits : Bits) (maskPattern : Int) (m : ByteMatrix) : Res ByteMatrix := do
  let (m, bitIndex) ← zigzagLoop (embedCell K dataBits.toArray maskPattern) m.width m.height (m, 0)
  if bitIndex ≠ dataBits.length then .error .writer
  pure m

/-- `MatrixUtil_buildMatrix(dataBits, ecLevel, version, maskPattern, matrix)`: the matrix after the call -/
def buildMatrix (K : Kernels) (dataBits : Bits) (ec : EC) (versionNumber : Nat) (maskPattern : Int)
    (m : ByteMatrix) : Res ByteMatrix := do
  let m := m.clear (-1)
  let m ← embedBasicPatterns versionNumber m
  let m ← embedTypeInfo ec maskPattern m
  let m ← maybeEmbedVersionInfo versionNumber m
  embedDataBits K dataBits maskPattern m

/-! ## mask_util.go: penalty rules -/

/-- `applyMaskPenaltyRule1Internal(matrix, isHorizontal)` -/
def applyMaskPenaltyRule1Internal (m : ByteMatrix) (isHorizontal : Bool) : Res Int := do
  let (iLimit, jLimit) := if isHorizontal then (m.height, m.width) else (m.width, m.height)
  let array := m.bytes
  forRange 0 iLimit (fun i (penalty : Int) => do
    let (numSameBitCells, _, penalty) ← forRange 0 jLimit (fun j (st : Int × Int × Int) => do
      let (numSameBitCells, prevBit, penalty) := st
      let bit ← if isHorizontal then do idx (← idx array i) j else do idx (← idx array j) i
      if bit = prevBit then pure (numSameBitCells + 1, prevBit, penalty)
      else
        let penalty := if numSameBitCells ≥ 5 then penalty + (3 + (numSameBitCells - 5)) else penalty
        pure (1, bit, penalty)) (0, -1, penalty)
    pure (if numSameBitCells ≥ 5 then penalty + (3 + (numSameBitCells - 5)) else penalty)) 0

/-- `MaskUtil_applyMaskPenaltyRule1` -/
def applyMaskPenaltyRule1 (m : ByteMatrix) : Res Int := do
  let h ← applyMaskPenaltyRule1Internal m true
  let v ← applyMaskPenaltyRule1Internal m false
  pure (h + v)

/-- `MaskUtil_applyMaskPenaltyRule2` -/
def applyMaskPenaltyRule2 (m : ByteMatrix) : Res Int := do
  let array := m.bytes
  let penalty ← forRange 0 (m.height - 1) (fun y (penalty : Int) => do
    let arrayY ← idx array y
    forRange 0 (m.width - 1) (fun x (penalty : Int) => do
      let value ← idx arrayY x
      -- && short-circuits
      if value ≠ (← idx arrayY (x + 1)) then pure penalty
      else if value ≠ (← idx (← idx array (y + 1)) x) then pure penalty
      else if value ≠ (← idx (← idx array (y + 1)) (x + 1)) then pure penalty
      else pure (penalty + 1)) penalty) 0
  pure (3 * penalty)

/-- `isWhiteHorizontal(rowArray, from, to)` -/
def isWhiteHorizontal (rowArray : List Int) (from_ to : Int) : Res Bool := do
  let from_ := if from_ < 0 then 0 else from_
  let to := if to > rowArray.length then (rowArray.length : Int) else to
  forRange from_ to (fun i (white : Bool) => do
    if !white then pure false
    else pure (!((← idx rowArray i) = 1))) true

/-- `isWhiteVertical(array, col, from, to)` -/
def isWhiteVertical (array : List (List Int)) (col from_ to : Int) : Res Bool := do
  let from_ := if from_ < 0 then 0 else from_
  let to := if to > array.length then (array.length : Int) else to
  forRange from_ to (fun i (white : Bool) => do
    if !white then pure false
    else pure (!((← idx (← idx array i) col) = 1))) true

/-- evaluate `c₀ && c₁ && …` left to right, stopping at the first false one -/
def allSeq : List (Unit → Res Bool) → Res Bool
  | [] => .ok true
  | c :: cs => do
    if ← c () then allSeq cs else pure false

/-- `MaskUtil_applyMaskPenaltyRule3` -/
def applyMaskPenaltyRule3 (m : ByteMatrix) : Res Int := do
  let array := m.bytes
  let width := m.width
  let height := m.height
  let numPenalties ← forRange 0 height (fun y (n : Int) =>
    forRange 0 width (fun x (n : Int) => do
      let arrayY ← idx array y
      let at_ (k : Int) (want : Int) : Unit → Res Bool := fun _ => do pure ((← idx arrayY (x + k)) = want)
      let h ← allSeq [fun _ => pure (decide (x + 6 < width)),
        at_ 0 1, at_ 1 0, at_ 2 1, at_ 3 1, at_ 4 1, at_ 5 0, at_ 6 1,
        fun _ => do
          if ← isWhiteHorizontal arrayY (x - 4) x then pure true
          else isWhiteHorizontal arrayY (x + 7) (x + 11)]
      let n := if h then n + 1 else n
      let vat (k : Int) (want : Int) : Unit → Res Bool := fun _ => do pure ((← idx (← idx array (y + k)) x) = want)
      let v ← allSeq [fun _ => pure (decide (y + 6 < height)),
        vat 0 1, vat 1 0, vat 2 1, vat 3 1, vat 4 1, vat 5 0, vat 6 1,
        fun _ => do
          if ← isWhiteVertical array x (y - 4) y then pure true
          else isWhiteVertical array x (y + 7) (y + 11)]
      pure (if v then n + 1 else n)) n) 0
  pure (numPenalties * 40)

/-- `MaskUtil_applyMaskPenaltyRule4` -/
def applyMaskPenaltyRule4 (m : ByteMatrix) : Res Int := do
  let array := m.bytes
  let numDarkCells ← forRange 0 m.height (fun y (n : Int) => do
    let arrayY ← idx array y
    forRange 0 m.width (fun x (n : Int) => do
      pure (if (← idx arrayY x) = 1 then n + 1 else n)) n) 0
  let numTotalCells := m.height * m.width
  let distance := numDarkCells * 2 - numTotalCells
  let distance := if distance < 0 then -distance else distance
  if numTotalCells = 0 then .error (.panic "integer divide by zero")
  let fivePercentVariances := Int.tdiv (distance * 10) numTotalCells
  pure (fivePercentVariances * 10)

/-- `calculateMaskPenalty` -/
def calculateMaskPenalty (m : ByteMatrix) : Res Int := do
  let p1 ← applyMaskPenaltyRule1 m
  let p2 ← applyMaskPenaltyRule2 m
  let p3 ← applyMaskPenaltyRule3 m
  let p4 ← applyMaskPenaltyRule4 m
  pure (p1 + p2 + p3 + p4)

/-- `chooseMaskPattern(bits, ecLevel, version, matrix)`: (best pattern, the four-rule penalties seen, matrix) -/
def chooseMaskPattern (K : Kernels) (bits : Bits) (ec : EC) (versionNumber : Nat) (m : ByteMatrix) :
    Res (Int × List Int × ByteMatrix) := do
  let (_, best, pens, m) ← forRange 0 8 (fun maskPattern (st : Int × Int × List Int × ByteMatrix) => do
    let (minPenalty, bestMaskPattern, pens, m) := st
    let m ← match buildMatrix K bits ec versionNumber maskPattern m with
      | .ok m => pure m
      | .error (.panic w) => .error (.panic w)
      | .error .fuel => .error .fuel
      | .error _ => .error .writer
    let penalty ← calculateMaskPenalty m
    if penalty < minPenalty then pure (penalty, maskPattern, pens ++ [penalty], m)
    else pure (minPenalty, bestMaskPattern, pens ++ [penalty], m)) (2147483647, -1, [], m)
  pure (best, pens, m)

/-! ## encoder.go: Encoder_encode -/

/-- a hint value by dynamic type -/
inductive HintVal where
  | int (n : Int)
  | str (s : String)
  | bool (b : Bool)
  | other
  deriving Repr, DecidableEq

/-- `strconv.ParseBool`, value on failure false -/
def parseBool (s : String) : Bool :=
  s == "1" || s == "t" || s == "T" || s == "TRUE" || s == "true" || s == "True"

/-- `strconv.Atoi` with its error (`none`); values beyond the int range are not distinguished (they are
    invalid versions / mask patterns either way) -/
def atoi? (s : String) : Option Int :=
  let cs := s.toList
  let (neg, ds) := match cs with
    | '-' :: r => (true, r)
    | '+' :: r => (false, r)
    | r => (false, r)
  if ds.isEmpty ∨ ¬ ds.all Char.isDigit then none
  else
    let n : Nat := ds.foldl (fun a c => 10 * a + (c.toNat - 48)) 0
    some (if neg then - (n : Int) else n)

/-- what the CHARACTER_SET hint resolves to (registry and codecs are outside the model) -/
structure Charset where
  /-- `GetCharacterSetECIByName` found the name -/
  known : Bool
  /-- `eci.GetCharset() == StringUtils_SHIFT_JIS_CHARSET` -/
  isSJIS : Bool
  /-- `GetCharacterSetECI(encoding)`: value when `ok && eci != nil` -/
  eciValue : Option Nat
  deriving Repr, DecidableEq

structure EncInput where
  /-- bytes of the Go string -/
  content : List Nat
  /-- `utf8.RuneCountInString(content)` -/
  runeCount : Nat
  /-- Go value of the `ErrorCorrectionLevel` argument -/
  ecLevel : Int
  charset : Option Charset := none
  /-- `encoding.NewEncoder().Bytes([]byte(content))` for the encoding in force (UTF-8 without hint) -/
  encoded : Option (List Nat)
  /-- `StringUtils_SHIFT_JIS_CHARSET.NewEncoder().Bytes([]byte(content))` -/
  sjis : Option (List Nat) := none
  gs1 : Option HintVal := none
  version : Option HintVal := none
  mask : Option HintVal := none

/-- every layer of one `Encoder_encode` call -/
structure EncTrace where
  mode : Mode
  headerBits : Bits
  dataBits : Bits
  version : Nat
  headerAndDataBits : Bits      -- before termination
  terminated : Bits
  finalBits : Bits
  penalties : List Int          -- empty when the mask pattern was forced
  maskPattern : Int
  matrix : ByteMatrix

def nilVersion {α} : Res α → Res α
  | .ok v => .ok v
  | .error (.panic w) => .error (.panic w)
  | .error _ => .error (.panic "nil version")

/-- `Encoder_encode(content, ecLevel, hints)` -/
def encode (K : Kernels) (inp : EncInput) : Res EncTrace := do
  let ec ← match ecOfInt inp.ecLevel with
    | some ec => pure ec
    | none => .error .writer
  -- character set
  let hasEncodingHint := inp.charset.isSome
  let isSJIS ← match inp.charset with
    | some cs => if cs.known then pure cs.isSJIS else .error .writer
    | none => pure false
  let mode ← chooseMode inp.content isSJIS inp.sjis
  -- header
  let headerBits : Bits := []
  let headerBits := if mode = .byte ∧ hasEncodingHint then
      match inp.charset.bind (·.eciValue) with
      | some v => appendECI v headerBits
      | none => headerBits
    else headerBits
  let headerBits := match inp.gs1 with
    | some h =>
      let appendGS1 := match h with
        | .bool b => b
        | .str s => parseBool s
        | _ => false
      if appendGS1 then appendModeInfo 5 headerBits else headerBits
    | none => headerBits
  let headerBits := appendModeInfo mode.indicator headerBits
  let dataBits ← appendBytes inp.content mode inp.encoded inp.sjis []
  -- version
  let version ← match inp.version with
    | some h => do
      let versionNumber : Int := match h with
        | .int n => n
        | .str s => (atoi? s).getD 0
        | _ => 0
      let version ← match QRVersionChoice.getVersionForNumber tables versionNumber with
        | .ok v => pure v
        | .error (.panic w) => .error (.panic w)
        | .error _ => .error .writer
      let bitsNeeded ← QRVersionChoice.calculateBitsNeeded tables mode headerBits.length dataBits.length version
      if !(← QRVersionChoice.willFit bitsNeeded version ec) then .error .writer
      pure version
    | none => QRVersionChoice.recommendVersion tables ec mode headerBits.length dataBits.length
  let headerAndDataBits := headerBits
  let numLetters : Int := match mode with
    | .byte => sizeInBytes dataBits
    | .kanji => inp.runeCount
    | _ => inp.content.length
  let headerAndDataBits ← appendLengthInfo numLetters version mode headerAndDataBits
  let headerAndDataBits := headerAndDataBits ++ dataBits
  let ecBlocks ← QRVersionChoice.ecBlocksForLevel version ec
  let numDataBytes : Int := (version.total : Int) - (QRVersionChoice.totalECCodewords ecBlocks : Int)
  let terminated ← terminateBits numDataBytes headerAndDataBits
  let finalBits ← interleaveWithECBytes K terminated version.total numDataBytes (QRVersionChoice.numBlocksOf ecBlocks)
  let dimension : Int := 17 + 4 * (version.number : Int)
  let matrix ← newByteMatrix dimension dimension
  let maskPattern : Int := match inp.mask with
    | some h =>
      let mp : Int := match h with
        | .int n => n
        | .str s => (atoi? s).getD (-1)
        | _ => -1
      if isValidMaskPattern mp then mp else -1
    | none => -1
  let (maskPattern, pens, matrix) ← if maskPattern = -1 then
      chooseMaskPattern K finalBits ec version.number matrix
    else pure (maskPattern, [], matrix)
  -- `_ = MatrixUtil_buildMatrix(...)`: a (non-panic) error here would be dropped by the Go code and the
  -- half-built matrix returned; the model reports it as an error (never happens: `mirror_encode_eq_ref`)
  let matrix ← buildMatrix K finalBits ec version.number maskPattern matrix
  pure { mode := mode, headerBits := headerBits, dataBits := dataBits, version := version.number,
         headerAndDataBits := headerAndDataBits, terminated := terminated, finalBits := finalBits,
         penalties := pens, maskPattern := maskPattern, matrix := matrix }

end Gzx.QREnc
