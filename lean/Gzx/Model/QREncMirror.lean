/-
  wp `qrenc` — Go-MIRRORING model of qrcode/encoder, part 2: encoder.go (mode choice, data bits, terminateBits,
  Reed-Solomon blocks + interleaving, mask choice, Encoder_encode with its hint branches) and mask_util.go
  (penalty rules).  Part 1 (Model/QREncMatrix.lean) has the conventions, the BitArray / ByteMatrix operations and
  matrix_util.go.  Core Lean only.
-/
import Gzx.Model.QREncMatrix
import Gzx.Model.RS
namespace Gzx.QREnc
open Gzx Gzx.QRRef

/-! ## encoder.go: mode choice and data bits -/

/-- `getAlphanumericCode(code)` -/
def getAlphanumericCode (code : Nat) : Res Int :=
  if (code : Int) < alphanumericTable.length then idx alphanumericTable code else .ok (-1)

/-- `isOnlyDoubleByteKanji(content)`; `sjis` = what the Shift_JIS encoder returns for the content -/
def isOnlyDoubleByteKanji (sjis : Option (List Nat)) : Res Bool :=
  match sjis with
  | none => .ok false
  | some bytes =>
    let length := bytes.length
    if length % 2 ≠ 0 then .ok false
    else
      -- for i := 0; i < length; i += 2
      (List.range (length / 2)).foldlM (fun (ok : Bool) k =>
        if !ok then pure false          -- already returned
        else do
          let byte1 ← idx bytes ((2 * k : Nat) : Int)
          pure (!((byte1 < 0x81 ∨ byte1 > 0x9F) ∧ (byte1 < 0xE0 ∨ byte1 > 0xEB)))) true

/-- the scan loop of `chooseMode`; `none` = `return Mode_BYTE` from inside the loop -/
def scanContent (content : List Nat) : Res (Option (Bool × Bool)) :=
  content.foldlM (fun (st : Option (Bool × Bool)) c =>
    match st with
    | none => pure none
    | some (hasNumeric, hasAlphanumeric) =>
      if c ≥ 48 ∧ c ≤ 57 then pure (some (true, hasAlphanumeric))
      else do
        let code ← getAlphanumericCode c
        if code ≠ -1 then pure (some (hasNumeric, true)) else pure none) (some (false, false))

/-- `chooseMode(content, encoding)`; `isSJIS` = `StringUtils_SHIFT_JIS_CHARSET == encoding` -/
def chooseMode (content : List Nat) (isSJIS : Bool) (sjis : Option (List Nat)) : Res Mode := do
  let kanji ← if isSJIS then isOnlyDoubleByteKanji sjis else pure false   -- && short-circuits
  if kanji then pure .kanji
  else
    match ← scanContent content with
    | none => pure .byte
    | some (hasNumeric, hasAlphanumeric) =>
      if hasAlphanumeric then pure .alnum
      else if hasNumeric then pure .numeric
      else pure .byte

/-- `appendModeInfo(mode, bits)` -/
def appendModeInfo (modeBits : Int) (bits : Bits) : Bits := appendBitsIgn modeBits 4 bits

/-- `appendECI(eci, bits)` -/
def appendECI (eciValue : Int) (bits : Bits) : Bits :=
  appendBitsIgn eciValue 8 (appendBitsIgn 7 4 bits)

/-- `appendNumericBytes`: loop state `i`; fuel = `length` iterations at most -/
def appendNumericLoop (content : List Nat) : Nat → Int → Bits → Res Bits
  | 0, _, bits => .ok bits
  | fuel + 1, i, bits =>
    let length : Int := content.length
    if i < length then do
      let c1 ← idx content i
      let num1 : Int := (c1 : Int) - 48
      if i + 2 < length then do
        let c2 ← idx content (i + 1)
        let c3 ← idx content (i + 2)
        let num2 : Int := (c2 : Int) - 48
        let num3 : Int := (c3 : Int) - 48
        appendNumericLoop content fuel (i + 3) (appendBitsIgn (num1 * 100 + num2 * 10 + num3) 10 bits)
      else if i + 1 < length then do
        let c2 ← idx content (i + 1)
        let num2 : Int := (c2 : Int) - 48
        appendNumericLoop content fuel (i + 2) (appendBitsIgn (num1 * 10 + num2) 7 bits)
      else
        appendNumericLoop content fuel (i + 1) (appendBitsIgn num1 4 bits)
    else .ok bits

def appendNumericBytes (content : List Nat) (bits : Bits) : Res Bits :=
  appendNumericLoop content (content.length + 1) 0 bits

/-- `appendAlphanumericBytes` -/
def appendAlphanumericLoop (content : List Nat) : Nat → Int → Bits → Res Bits
  | 0, _, bits => .ok bits
  | fuel + 1, i, bits =>
    let length : Int := content.length
    if i < length then do
      let c1 ← idx content i
      let code1 ← getAlphanumericCode c1
      if code1 = -1 then .error .writer
      else if i + 1 < length then do
        let c2 ← idx content (i + 1)
        let code2 ← getAlphanumericCode c2
        if code2 = -1 then .error .writer
        else appendAlphanumericLoop content fuel (i + 2) (appendBitsIgn (code1 * 45 + code2) 11 bits)
      else appendAlphanumericLoop content fuel (i + 1) (appendBitsIgn code1 6 bits)
    else .ok bits

def appendAlphanumericBytes (content : List Nat) (bits : Bits) : Res Bits :=
  appendAlphanumericLoop content (content.length + 1) 0 bits

/-- `append8BitBytes`; `encoded` = `encoding.NewEncoder().Bytes([]byte(content))` -/
def append8BitBytes (encoded : Option (List Nat)) (bits : Bits) : Res Bits :=
  match encoded with
  | none => .error .writer
  | some bytes => .ok (bytes.foldl (fun bits (b : Nat) => appendBitsIgn (b : Int) 8 bits) bits)

/-- `appendKanjiBytes`; `sjis` = result of the Shift_JIS encoder -/
def appendKanjiBytes (sjis : Option (List Nat)) (bits : Bits) : Res Bits :=
  match sjis with
  | none => .error .writer
  | some bytes =>
    if bytes.length % 2 ≠ 0 then .error .writer
    else
      let maxI : Int := (bytes.length : Int) - 1
      -- for i := 0; i < maxI; i += 2
      (List.range ((maxI + 1) / 2).toNat).foldlM (fun bits k => do
        let i : Int := ((2 * k : Nat) : Int)
        let byte1 ← idx bytes i
        let byte2 ← idx bytes (i + 1)
        let code : Nat := (byte1 % 256) <<< 8 ||| (byte2 % 256)
        let subtracted : Int :=
          if code ≥ 0x8140 ∧ code ≤ 0x9ffc then (code : Int) - 0x8140
          else if code ≥ 0xe040 ∧ code ≤ 0xebbf then (code : Int) - 0xc140
          else -1
        if subtracted = -1 then .error .writer
        else
          let encoded : Int := (subtracted >>> 8) * 0xc0 + subtracted % 256
          pure (appendBitsIgn encoded 13 bits)) bits

/-- `appendBytes(content, mode, bits, encoding)` (the four data modes; any other mode is refused) -/
def appendBytes (content : List Nat) (mode : Mode) (encoded sjis : Option (List Nat)) (bits : Bits) : Res Bits :=
  match mode with
  | .numeric => appendNumericBytes content bits
  | .alnum => appendAlphanumericBytes content bits
  | .byte => append8BitBytes encoded bits
  | .kanji => appendKanjiBytes sjis bits

/-- `appendLengthInfo(numLetters, version, mode, bits)` -/
def appendLengthInfo (numLetters : Int) (version : VersionInfo) (mode : Mode) (bits : Bits) : Res Bits := do
  let numBits ← QRVersionChoice.characterCountBits tables mode version
  if numLetters ≥ (2 ^ numBits : Nat) then .error .writer
  else pure (appendBitsIgn numLetters numBits bits)

/-! ## encoder.go: terminateBits -/

/-- `terminateBits(numDataBytes, bits)` -/
def terminateBits (numDataBytes : Int) (bits : Bits) : Res Bits := do
  let capacity := numDataBytes * 8
  if (bits.length : Int) > capacity then .error .writer
  -- for i := 0; i < 4 && bits.GetSize() < capacity; i++ { bits.AppendBit(false) }
  let bits := (List.range 4).foldl (fun (bits : Bits) _ => if (bits.length : Int) < capacity then bits ++ [false] else bits) bits
  let numBitsInLastByte := bits.length % 8          -- bits.GetSize() & 0x07
  let bits := if numBitsInLastByte > 0
    then (List.range (8 - numBitsInLastByte)).foldl (fun (bits : Bits) _ => bits ++ [false]) bits
    else bits
  let numPaddingBytes := numDataBytes - sizeInBytes bits
  let bits := (List.range numPaddingBytes.toNat).foldl (fun (bits : Bits) i =>
    appendBitsIgn (if i % 2 = 0 then 0xEC else 0x11) 8 bits) bits
  if (bits.length : Int) ≠ capacity then .error .writer
  pure bits

/-! ## encoder.go: Reed-Solomon blocks and interleaving -/

/-- `generateECBytes(dataBytes, numEcBytesInBlock)` -/
def generateECBytes (dataBytes : List Nat) (numEcBytesInBlock : Int) : Res (List Nat) :=
  let numDataBytes : Int := dataBytes.length
  if numDataBytes + numEcBytesInBlock < 0 then .error (.panic "makeslice: len out of range")
  else if numEcBytesInBlock < 0 then panicIdx    -- toEncode[i] with len(toEncode) < numDataBytes (the sum is >= 0, so data is not empty)
  else
    let toEncode := dataBytes.map (· % 256) ++ List.replicate numEcBytesInBlock.toNat 0
    if numEcBytesInBlock ≤ 0 then .error .writer         -- Encode: "No error correction bytes"
    else
      match RS.encodeArr GF.qrCode256 toEncode numEcBytesInBlock.toNat with
      | .error (.panic w) => .error (.panic w)
      | .error _ => .error .writer                       -- WrapWriterException
      | .ok arr =>
        (List.range numEcBytesInBlock.toNat).mapM (fun i => do
          let v ← idx arr (numDataBytes + (i : Nat))
          pure (v % 256))

/-- state of the first loop of `interleaveWithECBytes` -/
structure BlockState where
  dataBytesOffset : Int := 0
  maxNumDataBytes : Int := 0
  maxNumEcBytes : Int := 0
  blocks : List (List Nat × List Nat) := []

/-- body of the first loop of `interleaveWithECBytes` (block `i`) -/
def blockStep (K : Kernels) (bits : Bits) (numTotalBytes numDataBytes numRSBlocks : Int) (i : Int) (st : BlockState) :
    Res BlockState := do
  let (numDataBytesInBlock, numEcBytesInBlock, err) := K.blockSizes numTotalBytes numDataBytes numRSBlocks i
  if err then .error .writer
  let size := numDataBytesInBlock
  let dataBytes ← toBytes bits (8 * st.dataBytesOffset) size
  let ecBytes ← generateECBytes dataBytes numEcBytesInBlock
  pure { dataBytesOffset := st.dataBytesOffset + numDataBytesInBlock
         maxNumDataBytes := if st.maxNumDataBytes < size then size else st.maxNumDataBytes
         maxNumEcBytes := if st.maxNumEcBytes < (ecBytes.length : Int) then ecBytes.length else st.maxNumEcBytes
         blocks := st.blocks ++ [(dataBytes, ecBytes)] }

/-- inner loop of the interleaving: `for _, block := range blocks { if i < len(sel block) { result.AppendBits(.., 8) } }` -/
def interleaveRow (sel : List Nat × List Nat → List Nat) (i : Nat) (blocks : List (List Nat × List Nat))
    (result : Bits) : Bits :=
  blocks.foldl (fun (result : Bits) block =>
    match (sel block)[i]? with
    | some (b : Nat) => appendBitsIgn (b : Int) 8 result
    | none => result) result

/-- one of the two interleaving double loops: `for i := 0; i < maxN; i++ { for _, block := range blocks {…} }` -/
def interleaveBytes (sel : List Nat × List Nat → List Nat) (maxN : Int) (blocks : List (List Nat × List Nat))
    (result : Bits) : Bits :=
  (List.range maxN.toNat).foldl (fun (result : Bits) i => interleaveRow sel i blocks result) result

/-- `interleaveWithECBytes(bits, numTotalBytes, numDataBytes, numRSBlocks)`; also returns the block pairs -/
def interleaveBlocks (K : Kernels) (bits : Bits) (numTotalBytes numDataBytes numRSBlocks : Int) :
    Res (Bits × List (List Nat × List Nat)) := do
  if sizeInBytes bits ≠ numDataBytes then .error .writer
  let st ← forRange 0 numRSBlocks (blockStep K bits numTotalBytes numDataBytes numRSBlocks) {}
  if numDataBytes ≠ st.dataBytesOffset then .error .writer
  -- First, place data blocks.
  let result := interleaveBytes (·.1) st.maxNumDataBytes st.blocks []
  -- Then, place error correction blocks.
  let result := interleaveBytes (·.2) st.maxNumEcBytes st.blocks result
  if numTotalBytes ≠ sizeInBytes result then .error .writer
  pure (result, st.blocks)

def interleaveWithECBytes (K : Kernels) (bits : Bits) (numTotalBytes numDataBytes numRSBlocks : Int) : Res Bits := do
  let r ← interleaveBlocks K bits numTotalBytes numDataBytes numRSBlocks
  pure r.1

/-! ## mask_util.go: penalty rules -/

/-- `applyMaskPenaltyRule1Internal(matrix, isHorizontal)` -/
def applyMaskPenaltyRule1Internal (m : ByteMatrix) (isHorizontal : Bool) : Res Int := do
  let (iLimit, jLimit) := if isHorizontal then (m.height, m.width) else (m.width, m.height)
  let array := m.bytes
  forRange 0 iLimit (fun i (penalty : Int) => do
    let (numSameBitCells, _, penalty) ← forRange 0 jLimit (fun j (st : Int × Int × Int) => do
      let (numSameBitCells, prevBit, penalty) := st
      let bit ← if isHorizontal then do idx (← idx array i) j else do idx (← idx array j) i
      if bit = prevBit then pure (numSameBitCells + 1, prevBit, penalty)
      else
        let penalty := if numSameBitCells ≥ 5 then penalty + (3 + (numSameBitCells - 5)) else penalty
        pure (1, bit, penalty)) (0, -1, penalty)
    pure (if numSameBitCells ≥ 5 then penalty + (3 + (numSameBitCells - 5)) else penalty)) 0

/-- `MaskUtil_applyMaskPenaltyRule1` -/
def applyMaskPenaltyRule1 (m : ByteMatrix) : Res Int := do
  let h ← applyMaskPenaltyRule1Internal m true
  let v ← applyMaskPenaltyRule1Internal m false
  pure (h + v)

/-- `MaskUtil_applyMaskPenaltyRule2` -/
def applyMaskPenaltyRule2 (m : ByteMatrix) : Res Int := do
  let array := m.bytes
  let penalty ← forRange 0 (m.height - 1) (fun y (penalty : Int) => do
    let arrayY ← idx array y
    forRange 0 (m.width - 1) (fun x (penalty : Int) => do
      let value ← idx arrayY x
      -- && short-circuits
      if value ≠ (← idx arrayY (x + 1)) then pure penalty
      else if value ≠ (← idx (← idx array (y + 1)) x) then pure penalty
      else if value ≠ (← idx (← idx array (y + 1)) (x + 1)) then pure penalty
      else pure (penalty + 1)) penalty) 0
  pure (3 * penalty)

/-- `isWhiteHorizontal(rowArray, from, to)` -/
def isWhiteHorizontal (rowArray : List Int) (from_ to : Int) : Res Bool := do
  let from_ := if from_ < 0 then 0 else from_
  let to := if to > rowArray.length then (rowArray.length : Int) else to
  forRange from_ to (fun i (white : Bool) => do
    if !white then pure false
    else pure (!((← idx rowArray i) = 1))) true

/-- `isWhiteVertical(array, col, from, to)` -/
def isWhiteVertical (array : List (List Int)) (col from_ to : Int) : Res Bool := do
  let from_ := if from_ < 0 then 0 else from_
  let to := if to > array.length then (array.length : Int) else to
  forRange from_ to (fun i (white : Bool) => do
    if !white then pure false
    else pure (!((← idx (← idx array i) col) = 1))) true

/-- evaluate `c₀ && c₁ && …` left to right, stopping at the first false one -/
def allSeq : List (Unit → Res Bool) → Res Bool
  | [] => .ok true
  | c :: cs => do
    if ← c () then allSeq cs else pure false

/-- the horizontal condition of `MaskUtil_applyMaskPenaltyRule3` at column `x` of row `arrayY`:
    `x+6 < width && arrayY[x] == 1 && … && arrayY[x+6] == 1 && (isWhiteHorizontal(arrayY, x-4, x) || isWhiteHorizontal(arrayY, x+7, x+11))` -/
def rule3Horizontal (arrayY : List Int) (width x : Int) : Res Bool :=
  let at_ (k : Int) (want : Int) : Unit → Res Bool := fun _ => do pure ((← idx arrayY (x + k)) = want)
  allSeq [fun _ => pure (decide (x + 6 < width)),
    at_ 0 1, at_ 1 0, at_ 2 1, at_ 3 1, at_ 4 1, at_ 5 0, at_ 6 1,
    fun _ => do
      if ← isWhiteHorizontal arrayY (x - 4) x then pure true
      else isWhiteHorizontal arrayY (x + 7) (x + 11)]

/-- the vertical condition at (x, y) -/
def rule3Vertical (array : List (List Int)) (height x y : Int) : Res Bool :=
  let vat (k : Int) (want : Int) : Unit → Res Bool := fun _ => do pure ((← idx (← idx array (y + k)) x) = want)
  allSeq [fun _ => pure (decide (y + 6 < height)),
    vat 0 1, vat 1 0, vat 2 1, vat 3 1, vat 4 1, vat 5 0, vat 6 1,
    fun _ => do
      if ← isWhiteVertical array x (y - 4) y then pure true
      else isWhiteVertical array x (y + 7) (y + 11)]

/-- `MaskUtil_applyMaskPenaltyRule3` -/
def applyMaskPenaltyRule3 (m : ByteMatrix) : Res Int := do
  let array := m.bytes
  let width := m.width
  let height := m.height
  let numPenalties ← forRange 0 height (fun y (n : Int) =>
    forRange 0 width (fun x (n : Int) => do
      let arrayY ← idx array y
      let h ← rule3Horizontal arrayY width x
      let n := if h then n + 1 else n
      let v ← rule3Vertical array height x y
      pure (if v then n + 1 else n)) n) 0
  pure (numPenalties * 40)

/-- `MaskUtil_applyMaskPenaltyRule4` -/
def applyMaskPenaltyRule4 (m : ByteMatrix) : Res Int := do
  let array := m.bytes
  let numDarkCells ← forRange 0 m.height (fun y (n : Int) => do
    let arrayY ← idx array y
    forRange 0 m.width (fun x (n : Int) => do
      pure (if (← idx arrayY x) = 1 then n + 1 else n)) n) 0
  let numTotalCells := m.height * m.width
  let distance := numDarkCells * 2 - numTotalCells
  let distance := if distance < 0 then -distance else distance
  if numTotalCells = 0 then .error (.panic "integer divide by zero")
  let fivePercentVariances := Int.tdiv (distance * 10) numTotalCells
  pure (fivePercentVariances * 10)

/-- `calculateMaskPenalty` -/
def calculateMaskPenalty (m : ByteMatrix) : Res Int := do
  let p1 ← applyMaskPenaltyRule1 m
  let p2 ← applyMaskPenaltyRule2 m
  let p3 ← applyMaskPenaltyRule3 m
  let p4 ← applyMaskPenaltyRule4 m
  pure (p1 + p2 + p3 + p4)

/-- `chooseMaskPattern(bits, ecLevel, version, matrix)`: (best pattern, the four-rule penalties seen, matrix) -/
def chooseMaskPattern (K : Kernels) (bits : Bits) (ec : EC) (versionNumber : Nat) (m : ByteMatrix) :
    Res (Int × List Int × ByteMatrix) := do
  let (_, best, pens, m) ← forRange 0 8 (fun maskPattern (st : Int × Int × List Int × ByteMatrix) => do
    let (minPenalty, bestMaskPattern, pens, m) := st
    let m ← match buildMatrix K bits ec versionNumber maskPattern m with
      | .ok m => pure m
      | .error (.panic w) => .error (.panic w)
      | .error .fuel => .error .fuel
      | .error _ => .error .writer
    let penalty ← calculateMaskPenalty m
    if penalty < minPenalty then pure (penalty, maskPattern, pens ++ [penalty], m)
    else pure (minPenalty, bestMaskPattern, pens ++ [penalty], m)) (2147483647, -1, [], m)
  pure (best, pens, m)

/-! ## encoder.go: Encoder_encode -/

/-- a hint value by dynamic type -/
inductive HintVal where
  | int (n : Int)
  | str (s : String)
  | bool (b : Bool)
  | other
  deriving Repr, DecidableEq

/-- `strconv.ParseBool`, value on failure false -/
def parseBool (s : String) : Bool :=
  s == "1" || s == "t" || s == "T" || s == "TRUE" || s == "true" || s == "True"

/-- `strconv.Atoi` with its error (`none`); values beyond the int range are not distinguished (they are
    invalid versions / mask patterns either way) -/
def atoi? (s : String) : Option Int :=
  let cs := s.toList
  let (neg, ds) := match cs with
    | '-' :: r => (true, r)
    | '+' :: r => (false, r)
    | r => (false, r)
  if ds.isEmpty ∨ ¬ ds.all Char.isDigit then none
  else
    let n : Nat := ds.foldl (fun a c => 10 * a + (c.toNat - 48)) 0
    some (if neg then - (n : Int) else n)

/-- what the CHARACTER_SET hint resolves to (registry and codecs are outside the model) -/
structure Charset where
  /-- `GetCharacterSetECIByName` found the name -/
  known : Bool
  /-- `eci.GetCharset() == StringUtils_SHIFT_JIS_CHARSET` -/
  isSJIS : Bool
  /-- `GetCharacterSetECI(encoding)`: value when `ok && eci != nil` -/
  eciValue : Option Nat
  deriving Repr, DecidableEq

structure EncInput where
  /-- bytes of the Go string -/
  content : List Nat
  /-- `utf8.RuneCountInString(content)` -/
  runeCount : Nat
  /-- Go value of the `ErrorCorrectionLevel` argument -/
  ecLevel : Int
  charset : Option Charset := none
  /-- `encoding.NewEncoder().Bytes([]byte(content))` for the encoding in force (UTF-8 without hint) -/
  encoded : Option (List Nat)
  /-- `StringUtils_SHIFT_JIS_CHARSET.NewEncoder().Bytes([]byte(content))` -/
  sjis : Option (List Nat) := none
  gs1 : Option HintVal := none
  version : Option HintVal := none
  mask : Option HintVal := none

/-- every layer of one `Encoder_encode` call -/
structure EncTrace where
  mode : Mode
  headerBits : Bits
  dataBits : Bits
  version : Nat
  headerAndDataBits : Bits      -- before termination
  terminated : Bits
  finalBits : Bits
  penalties : List Int          -- empty when the mask pattern was forced
  maskPattern : Int
  matrix : ByteMatrix

def nilVersion {α} : Res α → Res α
  | .ok v => .ok v
  | .error (.panic w) => .error (.panic w)
  | .error _ => .error (.panic "nil version")

/-- `versionHint.(int)`, else `strconv.Atoi(versionHint.(string))` (0 on error), else 0 -/
def versionHintInt (h : HintVal) : Int :=
  match h with
  | .int n => n
  | .str s => (atoi? s).getD 0
  | _ => 0

/-- the GS1_FORMAT hint: `gs1FormatHint.(bool)`, else `strconv.ParseBool(gs1FormatHint.(string))`, else false -/
def gs1OfHint (h : Option HintVal) : Bool :=
  match h with
  | some (.bool b) => b
  | some (.str s) => parseBool s
  | _ => false

/-- the CHARACTER_SET hint: unknown name -> WriterException; otherwise is the encoding Shift_JIS? -/
def charsetIsSJIS (inp : EncInput) : Res Bool :=
  match inp.charset with
  | some cs => if cs.known then pure cs.isSJIS else .error .writer
  | none => pure false

/-- `if mode == Mode_BYTE && hasEncodingHint { eci, ok := GetCharacterSetECI(encoding); if ok && eci != nil { appendECI } }` -/
def eciHeader (inp : EncInput) (mode : Mode) : Bits :=
  if mode = .byte ∧ inp.charset.isSome then
    match inp.charset.bind (·.eciValue) with
    | some v => appendECI v []
    | none => []
  else []

/-- the header segments `Encoder_encode` writes before the character count: ECI (byte mode with a CHARACTER_SET
    hint whose ECI is registered), FNC1 in first position (GS1_FORMAT), the mode indicator -/
def headerOf (inp : EncInput) (mode : Mode) : Bits :=
  let headerBits := eciHeader inp mode
  let headerBits := if gs1OfHint inp.gs1 then appendModeInfo 5 headerBits else headerBits
  appendModeInfo mode.indicator headerBits

/-- `numLetters`: `len(content)`, in byte mode `dataBits.GetSizeInBytes()`, in Kanji mode the rune count -/
def numLettersOf (inp : EncInput) (mode : Mode) (dataBits : Bits) : Int :=
  match mode with
  | .byte => sizeInBytes dataBits
  | .kanji => inp.runeCount
  | _ => inp.content.length

/-- what `Encoder_encode` has settled before it terminates the bit stream -/
structure FrontResult where
  ec : EC
  mode : Mode
  headerBits : Bits
  dataBits : Bits
  version : VersionInfo
  headerAndDataBits : Bits

/-- `Encoder_encode(content, ecLevel, hints)`, first half: level check, character set, mode, header segments,
    data bits, version (QR_VERSION hint or recommendVersion), character count -/
def encodeFront (inp : EncInput) : Res FrontResult := do
  let ec ← match ecOfInt inp.ecLevel with
    | some ec => pure ec
    | none => .error .writer
  -- character set
  let isSJIS ← charsetIsSJIS inp
  let mode ← chooseMode inp.content isSJIS inp.sjis
  let headerBits := headerOf inp mode
  let dataBits ← appendBytes inp.content mode inp.encoded inp.sjis []
  -- version
  let version ← match inp.version with
    | some h => do
      let versionNumber : Int := versionHintInt h
      let version ← match QRVersionChoice.getVersionForNumber tables versionNumber with
        | .ok v => pure v
        | .error (.panic w) => .error (.panic w)
        | .error _ => .error .writer
      let bitsNeeded ← QRVersionChoice.calculateBitsNeeded tables mode headerBits.length dataBits.length version
      if !(← QRVersionChoice.willFit bitsNeeded version ec) then .error .writer
      pure version
    | none => QRVersionChoice.recommendVersion tables ec mode headerBits.length dataBits.length
  let headerAndDataBits := headerBits
  let numLetters : Int := numLettersOf inp mode dataBits
  let headerAndDataBits ← appendLengthInfo numLetters version mode headerAndDataBits
  let headerAndDataBits := headerAndDataBits ++ dataBits
  pure { ec := ec, mode := mode, headerBits := headerBits, dataBits := dataBits, version := version,
         headerAndDataBits := headerAndDataBits }

/-- `switch mask := hintMaskPattern.(type)`: int, or a string `strconv.Atoi` accepts; otherwise -1 stays -/
def maskHintInt (h : HintVal) : Int :=
  match h with
  | .int n => n
  | .str s => (atoi? s).getD (-1)
  | _ => -1

/-- the QR_MASK_PATTERN hint: a valid pattern, or -1 (choose automatically) -/
def maskOfHint (h : Option HintVal) : Int :=
  match h with
  | some h => if isValidMaskPattern (maskHintInt h) then maskHintInt h else -1
  | none => -1

/-- second half: terminateBits, interleaveWithECBytes, mask pattern (hint or chooseMaskPattern), buildMatrix -/
def encodeBack (K : Kernels) (maskHint : Option HintVal) (f : FrontResult) : Res EncTrace := do
  let ecBlocks ← QRVersionChoice.ecBlocksForLevel f.version f.ec
  let numDataBytes : Int := (f.version.total : Int) - (QRVersionChoice.totalECCodewords ecBlocks : Int)
  let terminated ← terminateBits numDataBytes f.headerAndDataBits
  let finalBits ← interleaveWithECBytes K terminated f.version.total numDataBytes (QRVersionChoice.numBlocksOf ecBlocks)
  let dimension : Int := 17 + 4 * (f.version.number : Int)
  let matrix ← newByteMatrix dimension dimension
  let maskPattern := maskOfHint maskHint
  let (maskPattern, pens, matrix) ← if maskPattern = -1 then
      chooseMaskPattern K finalBits f.ec f.version.number matrix
    else pure (maskPattern, [], matrix)
  -- `_ = MatrixUtil_buildMatrix(...)`: a (non-panic) error here would be dropped by the Go code and the
  -- half-built matrix returned; the model reports it as an error (never happens: `mirror_encode_eq_ref`)
  let matrix ← buildMatrix K finalBits f.ec f.version.number maskPattern matrix
  pure { mode := f.mode, headerBits := f.headerBits, dataBits := f.dataBits, version := f.version.number,
         headerAndDataBits := f.headerAndDataBits, terminated := terminated, finalBits := finalBits,
         penalties := pens, maskPattern := maskPattern, matrix := matrix }

/-- `Encoder_encode(content, ecLevel, hints)` -/
def encode (K : Kernels) (inp : EncInput) : Res EncTrace := do
  let f ← encodeFront inp
  encodeBack K inp.mask f

end Gzx.QREnc
