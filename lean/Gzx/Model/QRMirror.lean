/-
  C09 — model of the retry state machine of qrcode/decoder/decoder.go : Decoder.Decode,
  parametric in the single-pass decoder.

    inner  m : what `this.decode(parser)` returns on matrix m (version + format + codewords + RS + bit stream)
    header m : do `ReadVersion` / `ReadFormatInformation` succeed on m
  Reading version/format "mirrored" from m is reading them from the transposed matrix, and
  `parser.Mirror()` transposes the matrix in place, so the second attempt is
  `header (mirror m)` followed by `inner (mirror m)`.  `mirror` is any function on matrices
  (instantiated with `Poses.transpose`; the theorems need only that it is an involution).

  Not modelled: `Remask()` (restores the matrix after the first attempt unmasked it in place) —
  the model passes values, so the first attempt cannot damage the input of the second.
-/
import Gzx.Util
namespace Gzx.QRMirror

structure Outcome (T : Type) where
  text : T
  mirrored : Bool
  deriving Repr, DecidableEq

def isFormatOrChecksum : Fault → Bool
  | .format => true
  | .checksum => true
  | _ => false

/-- the second attempt: version and format are read mirrored first, then the mirrored matrix is decoded -/
def secondPass {M T : Type} (mirror : M → M) (inner : M → Res T) (header : M → Res Unit) (m : M) : Res T :=
  match header (mirror m) with
  | .error e => .error e
  | .ok () => inner (mirror m)

/-- `Decoder.Decode(bits, hints)` after the parser was constructed.
    `.ok none` is Go's `(nil, nil)`: the code returns `nil, fece` where `fece` was only assigned if
    the FIRST error was a Format/Checksum exception — with any other first error it is a nil
    interface, i.e. neither a result nor an error (shown unreachable in Properties/C09 because
    every error of the single-pass decoder is Format or Checksum). -/
def decode {M T : Type} (mirror : M → M) (inner : M → Res T) (header : M → Res Unit) (m : M) :
    Res (Option (Outcome T)) :=
  match inner m with
  | .ok t => .ok (some ⟨t, false⟩)
  | .error e1 =>
    match secondPass mirror inner header m with
    | .ok t => .ok (some ⟨t, true⟩)
    | .error e2 =>
      if isFormatOrChecksum e2 then
        -- "Throw the exception from the original reading"
        (if isFormatOrChecksum e1 then .error e1 else .ok none)
      else .error e2

/-- relation between `Decode(m)` and `Decode(mirror m)` that the state machine implies
    (Properties/C09 `qr_pair_consistent`); evaluated by the driver on pairs observed on the real decoder -/
def pairConsistent {T : Type} [DecidableEq T] (a b : Res (Option (Outcome T))) : Bool :=
  match a, b with
  | .ok (some ⟨t, false⟩), .ok (some ⟨t', true⟩) => decide (t = t')
  | .ok (some ⟨_, false⟩), .ok (some ⟨_, false⟩) => true
  | .ok (some ⟨t, true⟩), .ok (some ⟨t', false⟩) => decide (t = t')
  | .error _, .error _ => true
  | _, _ => false

end Gzx.QRMirror
