/-
  NO LONGER USED BY ANY DRIVER OR THEOREM (kept as an independent second implementation): since the
  composition work package the drivers of C01/C05/C15 plug the C04 model `Gzx.RS.decode qrCode256` into the
  decoder model — the decoder the theorems `qr_roundtrip_*` / `qr_tolerates_block_errors` are about.
  Former role: executable stand-in for Reed-Solomon block decoding over GF(256)/0x11D, generator base 0
  (`reedsolomon.NewReedSolomonDecoder(GenericGF_QR_CODE_FIELD_256).Decode`).
  The decoder model (Model/QRDecoder.lean) takes RS decoding as a parameter and no theorem of
  C01/C05/C15 is about this file; the verified RS model is `Gzx.RS` of property C04.
  Same algorithm as the Go code (syndromes, Euclid until deg r < R/2, Chien search, Forney), same
  failure checks, so that miscorrections and refusals beyond the capacity agree as well.
-/
import Gzx.Util
namespace Gzx.QRRS
open Gzx

def xtime (a : Nat) : Nat := if 2 * a ≥ 256 then (2 * a) ^^^ 0x11D else 2 * a

def gfMulAux : Nat → Nat → Nat → Nat → Nat
  | 0, _, _, acc => acc
  | k + 1, a, b, acc => gfMulAux k (xtime a) (b / 2) (if b % 2 = 1 then acc ^^^ a else acc)

def gfMul (a b : Nat) : Nat := gfMulAux 8 a b 0

def gfPow (a : Nat) : Nat → Nat
  | 0 => 1
  | n + 1 => gfMul a (gfPow a n)

def gfInv (a : Nat) : Option Nat := if a = 0 then none else some (gfPow a 254)

def gfLogAux (a : Nat) : Nat → Nat → Nat → Option Nat
  | 0, _, _ => none
  | fuel + 1, i, x => if x = a then some i else gfLogAux a fuel (i + 1) (xtime x)

def gfLog (a : Nat) : Option Nat := if a = 0 then none else gfLogAux a 255 0 1

/-! polynomials: coefficient lists, highest degree first, normalised (no leading zeros, zero = [0]) -/
abbrev Poly := List Nat

def norm (p : Poly) : Poly :=
  match p.dropWhile (· = 0) with
  | [] => [0]
  | q => q

def deg (p : Poly) : Nat := p.length - 1
def isZero (p : Poly) : Bool := p.head? == some 0
def lead (p : Poly) : Nat := match p with | c :: _ => c | [] => 0
def coef0 (p : Poly) : Nat := match p.reverse with | c :: _ => c | [] => 0
def coefAt (p : Poly) (d : Nat) : Nat := match p.reverse[d]? with | some c => c | none => 0

def padTo (n : Nat) (p : Poly) : Poly := List.replicate (n - p.length) 0 ++ p

def add (p q : Poly) : Poly :=
  let n := max p.length q.length
  norm (List.zipWith (· ^^^ ·) (padTo n p) (padTo n q))

def scale (p : Poly) (c : Nat) : Poly := norm (p.map (gfMul c))

def mulMono (p : Poly) (d c : Nat) : Poly :=
  if c = 0 then [0] else norm (p.map (gfMul c) ++ List.replicate d 0)

def mul (p q : Poly) : Poly :=
  p.foldl (fun acc c => add (acc ++ [0]) (scale q c)) [0]

def evalAt (p : Poly) (a : Nat) : Nat := p.foldl (fun acc c => gfMul acc a ^^^ c) 0

/-- inner division loop of runEuclideanAlgorithm: returns (q, r) -/
def divLoop (rLast : Poly) (dltInv : Nat) : Nat → Poly → Poly → Poly × Poly
  | 0, q, r => (q, r)
  | fuel + 1, q, r =>
    if deg r ≥ deg rLast ∧ !isZero r then
      let dd := deg r - deg rLast
      let sc := gfMul (lead r) dltInv
      divLoop rLast dltInv fuel (add q (mulMono [1] dd sc)) (add r (mulMono rLast dd sc))
    else (q, r)

def euclid (R : Nat) : Nat → Poly → Poly → Poly → Poly → Option (Poly × Poly)
  | 0, _, _, _, _ => none
  | fuel + 1, rLast, r, tLast, t =>
    if 2 * deg r ≥ R then
      -- rLastLast = rLast, rLast = r
      if isZero r then none
      else match gfInv (lead r) with
        | none => none
        | some dltInv =>
          let (q, r') := divLoop r dltInv (rLast.length + 2) [0] rLast
          let t' := add (mul q t) tLast
          if deg r' ≥ deg r then none
          else euclid R fuel r r' t t'
    else
      let s0 := coef0 t
      match gfInv s0 with
      | none => none
      | some inv => some (scale t inv, scale r inv)

def chien (sigma : Poly) (numErrors : Nat) : Nat → Nat → List Nat → Option (List Nat)
  | 0, _, acc => if acc.length = numErrors then some acc else none
  | fuel + 1, i, acc =>
    if acc.length < numErrors then
      if evalAt sigma i = 0 then
        match gfInv i with
        | some x => chien sigma numErrors fuel (i + 1) (acc ++ [x])
        | none => none
      else chien sigma numErrors fuel (i + 1) acc
    else some acc

def errorLocations (sigma : Poly) : Option (List Nat) :=
  let ne := deg sigma
  if ne = 1 then some [coefAt sigma 1] else chien sigma ne 255 1 []

def magnitudes (omega : Poly) (locs : List Nat) : Option (List Nat) :=
  locs.zipIdx.mapM (fun (xi, i) => do
    let xiInv ← gfInv xi
    let den := locs.zipIdx.foldl (fun d (xj, j) =>
      if i ≠ j then gfMul d (gfMul xj xiInv ^^^ 1) else d) 1
    let inv ← gfInv den
    pure (gfMul (evalAt omega xiInv) inv))

def applyFix (n : Nat) : List (Nat × Nat) → List Nat → Option (List Nat)
  | [], w => some w
  | (x, m) :: rest, w => do
    let l ← gfLog x
    if n < 1 + l then none
    else
      let pos := n - 1 - l
      applyFix n rest (w.set pos ((match w[pos]? with | some c => c | none => 0) ^^^ m))

/-- `Decode(received, twoS)`: the corrected word, or checksum failure -/
def decode (received : List Nat) (twoS : Nat) : Res (List Nat) :=
  if received.isEmpty then .error .checksum
  else
    let poly := norm received
    let synd := (List.range twoS).map (fun i => evalAt poly (gfPow 2 i))
    if synd.all (· = 0) then .ok received
    else
      let S := norm synd.reverse
      let a := norm (1 :: List.replicate twoS 0)
      let (a, b) := if deg a < deg S then (S, a) else (a, S)
      match euclid twoS (twoS + 3) a b [0] [1] with
      | none => .error .checksum
      | some (sigma, omega) =>
        match errorLocations sigma with
        | none => .error .checksum
        | some locs =>
          match magnitudes omega locs with
          | none => .error .checksum
          | some mags =>
            match applyFix received.length (locs.zip mags) received with
            | none => .error .checksum
            | some w => .ok w

end Gzx.QRRS
