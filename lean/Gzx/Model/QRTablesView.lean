/-
  Typed views of the regenerated Go tables (`GoVal` trees emitted by the translator) used by C07/C13.
  This file does not import `Gzx.Gen`: the decoders take the tree as an argument, the per-run
  obligations apply them to `Gzx.Gen.*`.
-/
import Gzx.GoVal
import Gzx.Ref.QR
import Gzx.Model.QRVersionChoice
namespace Gzx.QRTablesView
open Gzx Gzx.GoVal Gzx.QRRef

/-- `ECB{count, dataCodewords}` (the translator names struct literals by their type) -/
def decodeECB (g : GoVal) : Option (Nat × Nat) :=
  match g.asApp? "ECB" with
  | some [c, d] =>
    match c.asNat?, d.asNat? with
    | some c, some d => some (c, d)
    | _, _ => none
  | _ => none

/-- `ECBlocks{ecCodewordsPerBlock, []ECB{...}}` -/
def decodeECBlocks (g : GoVal) : Option (Nat × List (Nat × Nat)) :=
  match g.asApp? "ECBlocks" with
  | some [e, bs] =>
    match e.asNat?, bs.asList? with
    | some e, some bs => (bs.mapM decodeECB).map (fun l => (e, l))
    | _, _ => none
  | _ => none

/-- `NewVersion(number, alignment, L, M, Q, H)`; the total is computed as `NewVersion` does, from
    the first (L) block list: Σ count·(data + ecPerBlock) -/
def decodeVersion (g : GoVal) : Option VersionInfo :=
  match g.asApp? "NewVersion" with
  | some (n :: al :: ecs) =>
    match n.asNat?, al.asNatList?, ecs.mapM decodeECBlocks with
    | some n, some al, some ecs =>
      match ecs with
      | [] => none
      | b0 :: _ =>
        some { number := n, align := al, ecBlocks := ecs,
               total := (b0.2.map (fun g => g.1 * (g.2 + b0.1))).foldl (· + ·) 0 }
    | _, _, _ => none
  | _ => none

def decodeVersions (g : GoVal) : Option (List VersionInfo) := g.asList?.bind (·.mapM decodeVersion)

/-- `NewMode([]int{a,b,c}, bits)` -/
def decodeMode (g : GoVal) : Option (List Nat × Nat) :=
  match g.asApp? "NewMode" with
  | some [cs, b] =>
    match cs.asNatList?, b.asNat? with
    | some cs, some b => some (cs, b)
    | _, _ => none
  | _ => none

/-- what the standard prescribes for a data mode: the three count widths and the indicator -/
def refMode (m : Mode) : List Nat × Nat := ([countBits m 1, countBits m 10, countBits m 27], m.indicator)

/-- the encoder's alignment table pads every row with -1 to seven entries -/
def padAlign (cs : List Nat) : List Int := cs.map Int.ofNat ++ List.replicate (7 - cs.length) (-1)

/-- `alphanumericTable[c]` as the standard's Table 5 prescribes, -1 = not encodable -/
def refAlnumEntry (c : Nat) : Int :=
  match alnumCode c with
  | some k => k
  | none => -1

/-- 0/1 bitmap rows -> Bool rows -/
def bitmapOf (rows : List (List Nat)) : List (List Bool) := rows.map (·.map (· != 0))

/-! ### Data Matrix symbol table -/

open Gzx.QRVersionChoice in
/-- rows of `datamatrix/encoder.symbols`: `NewSymbolInfo(rect, data, error, w, h, regions)`
    (RS block = whole symbol), `NewSymbolInfoRS(..., rsBlockData, rsBlockError)`, and
    `NewDataMatrixSymbolInfo144()` = `NewSymbolInfoRS(false, 1558, 620, 22, 22, 36, -1, 62)` (a function
    with a multi-statement body, not translatable; its fields are checked at run time by the
    `c13` suite through the exported getters). -/
def decodeSymbol (g : GoVal) : Option SymbolInfo :=
  match g with
  | .app "NewSymbolInfo" [r, d, e, w, h, n] =>
    match r.asBool?, d.asNat?, e.asNat?, w.asNat?, h.asNat?, n.asNat? with
    | some r, some d, some e, some w, some h, some n =>
      some { rectangular := r, dataCapacity := d, errorCodewords := e, matrixWidth := w, matrixHeight := h,
             dataRegions := n, rsBlockData := d, rsBlockError := e }
    | _, _, _, _, _, _ => none
  | .app "NewSymbolInfoRS" [r, d, e, w, h, n, bd, be] =>
    match r.asBool?, d.asNat?, e.asNat?, w.asNat?, h.asNat?, n.asNat?, bd.asInt?, be.asNat? with
    | some r, some d, some e, some w, some h, some n, some bd, some be =>
      some { rectangular := r, dataCapacity := d, errorCodewords := e, matrixWidth := w, matrixHeight := h,
             dataRegions := n, rsBlockData := bd, rsBlockError := be }
    | _, _, _, _, _, _, _, _ => none
  | .app "NewDataMatrixSymbolInfo144" [] =>
    some { rectangular := false, dataCapacity := 1558, errorCodewords := 620, matrixWidth := 22, matrixHeight := 22,
           dataRegions := 36, rsBlockData := -1, rsBlockError := 62 }
  | _ => none

open Gzx.QRVersionChoice in
def decodeSymbols (g : GoVal) : Option (List SymbolInfo) := g.asList?.bind (·.mapM decodeSymbol)

end Gzx.QRTablesView
