/-
  Model of the symbol-size decisions of the two matrix encoders (property C13):

  * qrcode/encoder/encoder.go : chooseMode, calculateBitsNeeded, willFit, chooseVersion,
    recommendVersion (two passes), the QR_VERSION hint branch of Encoder_encode,
    appendLengthInfo's guard, terminateBits' capacity guard;
    qrcode/decoder/version.go : Version_GetVersionForNumber, GetECBlocksForLevel,
    GetTotalECCodewords; qrcode/decoder/mode.go : GetCharacterCountBits.
  * datamatrix/encoder/symbol_info.go : SymbolInfo_Lookup (shape / min / max filters),
    encoder_context.go : UpdateSymbolInfoByLength.

  Hand-written mirror of the Go control flow, parametric in the library's tables
  (`QRTables`, `List SymbolInfo`); tied to /repo by the `c13` correspondence suite and, for the
  tables, by `Obligations/C13.lean`.  Go panics are `Fault.panic`.
-/
import Gzx.Util
import Gzx.Ref.QR
namespace Gzx.QRVersionChoice
open Gzx Gzx.QRRef

/-! ## QR Code -/

/-- the library's tables the decisions read: `VERSIONS` (typed rows as in `QRRef.VersionInfo`) and
    the `characterCountBitsForVersions` arrays of the four data modes -/
structure QRTables where
  versions : List VersionInfo
  counts : Mode → List Nat

/-- the tables the standard prescribes -/
def refTables : QRTables :=
  { versions := QRRef.versions
    counts := fun m => [countBits m 1, countBits m 10, countBits m 27] }

/-- `Version_GetVersionForNumber(n)`: IllegalArgument outside 1..40, else `VERSIONS[n-1]` -/
def getVersionForNumber (T : QRTables) (n : Int) : Res VersionInfo :=
  if n < 1 ∨ n > 40 then .error .illegalArg
  else match T.versions[(n - 1).toNat]? with
    | some v => .ok v
    | none => .error (.panic "VERSIONS index out of range")

/-- `v.GetECBlocksForLevel(ec)` : `&v.ecBlocks[idx]` -/
def ecBlocksForLevel (v : VersionInfo) (ec : EC) : Res (Nat × List (Nat × Nat)) :=
  match v.ecBlocks[ec.idx]? with
  | some b => .ok b
  | none => .error (.panic "ecBlocks index out of range")

/-- `ECBlocks.GetNumBlocks` -/
def numBlocksOf (b : Nat × List (Nat × Nat)) : Nat := (b.2.map (·.1)).foldl (· + ·) 0

/-- `ECBlocks.GetTotalECCodewords` -/
def totalECCodewords (b : Nat × List (Nat × Nat)) : Nat := b.1 * numBlocksOf b

/-- `mode.GetCharacterCountBits(version)` -/
def characterCountBits (T : QRTables) (m : Mode) (v : VersionInfo) : Res Nat :=
  let offset := if v.number ≤ 9 then 0 else if v.number ≤ 26 then 1 else 2
  match (T.counts m)[offset]? with
  | some c => .ok c
  | none => .error (.panic "characterCountBitsForVersions index out of range")

/-- `version.GetTotalCodewords() - ecBlocks.GetTotalECCodewords()` (Go `int` subtraction) -/
def numDataBytes (v : VersionInfo) (ec : EC) : Res Int := do
  let b ← ecBlocksForLevel v ec
  pure ((v.total : Int) - (totalECCodewords b : Int))

/-- `calculateBitsNeeded(mode, headerBits, dataBits, version)` on the two sizes -/
def calculateBitsNeeded (T : QRTables) (m : Mode) (hdrLen dataLen : Nat) (v : VersionInfo) : Res Nat := do
  let c ← characterCountBits T m v
  pure (hdrLen + c + dataLen)

/-- `willFit(numInputBits, version, ecLevel)` -/
def willFit (numInputBits : Nat) (v : VersionInfo) (ec : EC) : Res Bool := do
  let d ← numDataBytes v ec
  let totalInputBytes : Int := ((numInputBits + 7) / 8 : Nat)
  pure (decide (d ≥ totalInputBytes))

/-- the loop of `chooseVersion`: versionNum = `cur`, `fuel` iterations left -/
def chooseVersionLoop (T : QRTables) (numInputBits : Nat) (ec : EC) : Nat → Nat → Res VersionInfo
  | 0, _ => .error .writer                             -- "Data too big"
  | fuel + 1, cur => do
    let v ← match getVersionForNumber T cur with       -- error ignored by the Go code: nil version
      | .ok v => pure v
      | .error (.panic w) => .error (.panic w)
      | .error _ => .error (.panic "nil version")
    if (← willFit numInputBits v ec) then pure v
    else chooseVersionLoop T numInputBits ec fuel (cur + 1)

/-- `chooseVersion(numInputBits, ecLevel)`: versions 1..40 in order -/
def chooseVersion (T : QRTables) (numInputBits : Nat) (ec : EC) : Res VersionInfo :=
  chooseVersionLoop T numInputBits ec 40 1

/-- `recommendVersion(ecLevel, mode, headerBits, dataBits)`: provisional version from the
    version-1 count width, then the final choice with the provisional version's width -/
def recommendVersion (T : QRTables) (ec : EC) (m : Mode) (hdrLen dataLen : Nat) : Res VersionInfo := do
  let version1 ← match getVersionForNumber T 1 with
    | .ok v => pure v
    | .error (.panic w) => .error (.panic w)
    | .error _ => .error (.panic "nil version")
  let provisionalBitsNeeded ← calculateBitsNeeded T m hdrLen dataLen version1
  let provisionalVersion ← chooseVersion T provisionalBitsNeeded ec
  let bitsNeeded ← calculateBitsNeeded T m hdrLen dataLen provisionalVersion
  chooseVersion T bitsNeeded ec

/-- value of a hint of dynamic type -/
inductive HintVal where
  | int (n : Int)
  | str (s : String)
  | other
  deriving Repr, DecidableEq

/-- `strconv.Atoi`, value on failure 0 (overflowing values are outside every range tested here) -/
def atoi (s : String) : Int :=
  let cs := s.toList
  let (neg, ds) := match cs with
    | '-' :: r => (true, r)
    | '+' :: r => (false, r)
    | r => (false, r)
  if ds.isEmpty ∨ ¬ ds.all Char.isDigit then 0
  else
    let n : Nat := ds.foldl (fun a c => 10 * a + (c.toNat - 48)) 0
    if neg then - (n : Int) else n

/-- `versionHint.(int)`, else `strconv.Atoi(versionHint.(string))`, else 0 -/
def hintInt : HintVal → Int
  | .int n => n
  | .str s => atoi s
  | .other => 0

/-- The version decision of `Encoder_encode` together with the two guards that follow it:
    the QR_VERSION hint branch (exactly that version, or an error), otherwise `recommendVersion`;
    then `appendLengthInfo`'s guard and `terminateBits`' capacity guard.
    `numLetters` is the value written into the character count indicator. -/
def encodeVersion (T : QRTables) (ec : EC) (m : Mode) (hdrLen dataLen numLetters : Nat)
    (hint : Option HintVal) : Res VersionInfo := do
  let version ← match hint with
    | some h => do
      let version ← match getVersionForNumber T (hintInt h) with
        | .ok v => pure v
        | .error (.panic w) => .error (.panic w)
        | .error _ => .error .writer                    -- WrapWriterException
      let bitsNeeded ← calculateBitsNeeded T m hdrLen dataLen version
      if !(← willFit bitsNeeded version ec) then .error .writer   -- "Data too big for requested version"
      pure version
    | none => recommendVersion T ec m hdrLen dataLen
  -- appendLengthInfo
  let numBits ← characterCountBits T m version
  if numLetters ≥ 2 ^ numBits then .error .writer
  -- terminateBits
  let d ← numDataBytes version ec
  if ((hdrLen + numBits + dataLen : Nat) : Int) > d * 8 then .error .writer
  pure version

/-- `chooseMode(content, encoding)`: `content` = the bytes of the Go string; `sjis` = the Shift_JIS
    encoding of the content when that character set is requested (and the content is encodable) -/
def isOnlyDoubleByteKanji : List Nat → Bool
  | [] => true
  | [_] => false
  | b :: _ :: rest =>
    if (b < 0x81 ∨ b > 0x9F) ∧ (b < 0xE0 ∨ b > 0xEB) then false else isOnlyDoubleByteKanji rest

def scanMode : List Nat → Bool → Bool → Mode
  | [], hasNum, hasAlnum => if hasAlnum then .alnum else if hasNum then .numeric else .byte
  | c :: cs, hasNum, hasAlnum =>
    if 48 ≤ c ∧ c ≤ 57 then scanMode cs true hasAlnum
    else if (alnumCode c).isSome then scanMode cs hasNum true
    else .byte

def chooseMode (content : List Nat) (sjis : Option (List Nat)) : Mode :=
  match sjis with
  | some bs => if isOnlyDoubleByteKanji bs then .kanji else scanMode content false false
  | none => scanMode content false false

/-! ## Data Matrix -/

/-- one row of `symbols` -/
structure SymbolInfo where
  rectangular : Bool
  dataCapacity : Nat
  errorCodewords : Nat
  matrixWidth : Nat
  matrixHeight : Nat
  dataRegions : Nat
  rsBlockData : Int
  rsBlockError : Nat
  deriving DecidableEq, Repr, Inhabited

inductive Shape where
  | none | square | rectangle
  deriving DecidableEq, Repr, Inhabited

def horizontalDataRegions (s : SymbolInfo) : Nat :=
  match s.dataRegions with
  | 1 => 1 | 2 => 2 | 4 => 2 | 16 => 4 | 36 => 6 | _ => 0

def verticalDataRegions (s : SymbolInfo) : Nat :=
  match s.dataRegions with
  | 1 => 1 | 2 => 1 | 4 => 2 | 16 => 4 | 36 => 6 | _ => 0

def symbolWidth (s : SymbolInfo) : Nat := horizontalDataRegions s * s.matrixWidth + horizontalDataRegions s * 2
def symbolHeight (s : SymbolInfo) : Nat := verticalDataRegions s * s.matrixHeight + verticalDataRegions s * 2

/-- `minSize != nil && (width < minSize.width || height < minSize.height)` -/
def belowMin (minSize : Option (Nat × Nat)) (s : SymbolInfo) : Bool :=
  match minSize with
  | some (w, h) => symbolWidth s < w || symbolHeight s < h
  | none => false

/-- `maxSize != nil && (width > maxSize.width || height > maxSize.height)` -/
def aboveMax (maxSize : Option (Nat × Nat)) (s : SymbolInfo) : Bool :=
  match maxSize with
  | some (w, h) => symbolWidth s > w || symbolHeight s > h
  | none => false

/-- a row passes the three `continue` filters of `SymbolInfo_Lookup` -/
def admissible (shape : Shape) (minSize maxSize : Option (Nat × Nat)) (s : SymbolInfo) : Bool :=
  !(decide (shape = .square) && s.rectangular) &&
  !(decide (shape = .rectangle) && !s.rectangular) &&
  !belowMin minSize s && !aboveMax maxSize s

/-- the loop of `SymbolInfo_Lookup` -/
def lookupLoop (dataCodewords : Nat) (shape : Shape) (minSize maxSize : Option (Nat × Nat)) :
    List SymbolInfo → Option SymbolInfo
  | [] => none
  | s :: rest =>
    if shape = .square ∧ s.rectangular = true then lookupLoop dataCodewords shape minSize maxSize rest
    else if shape = .rectangle ∧ s.rectangular = false then lookupLoop dataCodewords shape minSize maxSize rest
    else if belowMin minSize s then lookupLoop dataCodewords shape minSize maxSize rest
    else if aboveMax maxSize s then lookupLoop dataCodewords shape minSize maxSize rest
    else if dataCodewords ≤ s.dataCapacity then some s
    else lookupLoop dataCodewords shape minSize maxSize rest

/-- `SymbolInfo_Lookup(dataCodewords, shape, minSize, maxSize, fail)` -/
def symbolLookup (T : List SymbolInfo) (dataCodewords : Nat) (shape : Shape)
    (minSize maxSize : Option (Nat × Nat)) (fail : Bool) : Res (Option SymbolInfo) :=
  match lookupLoop dataCodewords shape minSize maxSize T with
  | some s => .ok (some s)
  | none => if fail then .error .writer else .ok none

/-- `EncoderContext.UpdateSymbolInfoByLength(len)`: returns the new `symbolInfo` field -/
def updateSymbolInfoByLength (T : List SymbolInfo) (cur : Option SymbolInfo) (len : Nat) (shape : Shape)
    (minSize maxSize : Option (Nat × Nat)) : Res (Option SymbolInfo) :=
  match cur with
  | some s => if len > s.dataCapacity then symbolLookup T len shape minSize maxSize true else .ok (some s)
  | none => symbolLookup T len shape minSize maxSize true

/-- The symbol `DataMatrixWriter.Encode` renders for a message of `k` codewords:
    `EncodeHighLevel` settles on `SymbolInfo_Lookup(k, shape, min, max, fail=true)` and pads the
    codewords to that symbol's capacity; the writer then looks the padded length up AGAIN with the
    same shape and size constraints (error ignored: a nil symbol would be dereferenced). -/
def writerSymbol (T : List SymbolInfo) (k : Nat) (shape : Shape) (minSize maxSize : Option (Nat × Nat)) :
    Res SymbolInfo := do
  let first ← match ← symbolLookup T k shape minSize maxSize true with
    | some s => pure s
    | none => .error (.panic "nil symbol")
  match lookupLoop first.dataCapacity shape minSize maxSize T with
  | some s => pure s
  | none => .error (.panic "nil symbolInfo dereferenced")

end Gzx.QRVersionChoice
