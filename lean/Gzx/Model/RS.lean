/-
  Model of common/reedsolomon: GenericGFPoly (generic_gf_poly.go), ReedSolomonEncoder
  (reedsolomon_encoder.go) and ReedSolomonDecoder (reedsolomon_decoder.go).
  Hand-written mirror of the Go control flow; tied to /repo by the `c04` correspondence suite.
  Core Lean only.

  ## API for the other models (QR, Data Matrix, Aztec)

  * `Gzx.RS.encode F data ecLen : Res (List Nat)` — the `ecLen` parity symbols for `data`
    (what `ReedSolomonEncoder.Encode` writes behind the data); `Gzx.RS.encodeWord` = `data ++ parity`.
  * `Gzx.RS.decode F received twoS : Res (List Nat)` — `ReedSolomonDecoder.Decode`: the corrected
    word, `.error .checksum` for every `ReedSolomonException`, `.error (.panic _)` for a Go panic
    (e.g. a symbol `≥ F.size`).
  Fields: `Gzx.GF.qrCode256`, `dataMatrix256`, `aztecParam`, `aztecData6/8/10/12`.
-/
import Gzx.Model.GF
namespace Gzx.RS
open Gzx Gzx.GF

/-- coefficients, highest degree first (Go `GenericGFPoly.coefficients`); never empty when produced
    by `mkPoly` -/
abbrev Poly := List Nat

/-- leading-zero stripping of `NewGenericGFPoly` -/
def normalize (cs : List Nat) : Poly :=
  match cs.dropWhile (· == 0) with
  | [] => [0]
  | r => r

/-- `NewGenericGFPoly(field, coefficients)`; for a non-empty list this is `normalize`
    (Go only strips when `len > 1 && cs[0] == 0`, which is the same function) -/
def mkPoly (cs : List Nat) : Res Poly :=
  if cs.isEmpty then .error .illegalArg else .ok (normalize cs)

/-- `GetDegree` -/
def degree (p : Poly) : Nat := p.length - 1

/-- `IsZero`: `coefficients[0] == 0` (polynomials are never empty) -/
def isZero (p : Poly) : Bool := p.head? == some 0

/-- `GetCoefficient(degree) = coefficients[len-1-degree]` -/
def getCoefficient (p : Poly) (d : Nat) : Res Nat :=
  if d + 1 > p.length then .error (.panic "index out of range")
  else match p[p.length - 1 - d]? with
    | some v => .ok v
    | none => .error (.panic "index out of range")

/-- Horner loop of `EvaluateAt` (general case) -/
def evalLoop (F : GF) (a : Nat) : List Nat → Nat → Res Nat
  | [], r => .ok r
  | c :: cs, r => do
    let m ← F.mul a r
    evalLoop F a cs (m ^^^ c)

/-- `EvaluateAt(a)` with its `a == 0` and `a == 1` shortcuts -/
def evaluateAt (F : GF) (p : Poly) (a : Nat) : Res Nat :=
  if a = 0 then getCoefficient p 0
  else if a = 1 then .ok (p.foldl (· ^^^ ·) 0)
  else match p with
    | [] => .error (.panic "index out of range")
    | c0 :: cs => evalLoop F a cs c0

/-- `AddOrSubtract` -/
def addOrSubtract (p q : Poly) : Res Poly :=
  if isZero p then .ok q
  else if isZero q then .ok p
  else
    let (s, l) := if p.length > q.length then (q, p) else (p, q)
    let d := l.length - s.length
    mkPoly (l.take d ++ List.zipWith (· ^^^ ·) s (l.drop d))

/-- xor the (shorter) list `row` into the head of `acc`; `row ++ 0…0` xor `acc` when `row` is not longer -/
def addInto : List Nat → List Nat → List Nat
  | [], acc => acc
  | r :: rs, [] => r :: rs
  | r :: rs, x :: xs => (r ^^^ x) :: addInto rs xs

/-- the double loop of `Multiply`: `product[i+j] ^= a_i * b_j`, rows in the order of `i`;
    the product of `a0 :: as` is the row `a0·b` (at offset 0) xor-ed into the product of `as` at offset 1 -/
def mulRaw (F : GF) : List Nat → List Nat → Res (List Nat)
  | [], b => .ok (List.replicate (b.length - 1) 0)
  | a0 :: as, b => do
    let row ← b.mapM (fun bj => F.mul a0 bj)
    let rest ← mulRaw F as b
    .ok (addInto row (0 :: rest))

/-- `Multiply(other)` -/
def multiply (F : GF) (p q : Poly) : Res Poly :=
  if isZero p || isZero q then .ok [0]
  else do
    let prod ← mulRaw F p q
    mkPoly prod

/-- `MultiplyBy(scalar)` -/
def multiplyBy (F : GF) (p : Poly) (scalar : Nat) : Res Poly :=
  if scalar = 0 then .ok [0]
  else if scalar = 1 then .ok p
  else do
    let cs ← p.mapM (fun c => F.mul c scalar)
    mkPoly cs

/-- `MultiplyByMonomial(degree, coefficient)` (`degree ≥ 0`) -/
def multiplyByMonomial (F : GF) (p : Poly) (deg coeff : Nat) : Res Poly :=
  if coeff = 0 then .ok [0]
  else do
    let cs ← p.mapM (fun c => F.mul c coeff)
    mkPoly (cs ++ List.replicate deg 0)

/-- `GenericGF.BuildMonomial(degree, coefficient)` (`degree ≥ 0`) -/
def buildMonomial (deg coeff : Nat) : Res Poly :=
  if coeff = 0 then .ok [0] else mkPoly (coeff :: List.replicate deg 0)

/-- loop of `Divide`; fuel = iterations left -/
def divLoop (F : GF) (other : Poly) (invLead : Nat) : Nat → Poly → Poly → Res (Poly × Poly)
  | 0, _, _ => .error .fuel
  | fuel + 1, quotient, remainder =>
    if degree remainder ≥ degree other && !isZero remainder then do
      let dd := degree remainder - degree other
      let lead ← getCoefficient remainder (degree remainder)
      let scale ← F.mul lead invLead
      let term ← multiplyByMonomial F other dd scale
      let iq ← buildMonomial dd scale
      let q' ← addOrSubtract quotient iq
      let r' ← addOrSubtract remainder term
      divLoop F other invLead fuel q' r'
    else .ok (quotient, remainder)

/-- `Divide(other)`: (quotient, remainder).  Every iteration shortens the remainder, so
    `length + 1` iterations suffice (`Properties/C04.lean : divide_no_fuel`). -/
def divide (F : GF) (p other : Poly) : Res (Poly × Poly) :=
  if isZero other then .error .illegalArg
  else do
    let lead ← getCoefficient other (degree other)
    let invLead ← F.inv lead
    divLoop F other invLead (p.length + 1) [0] p

/-! ## encoder -/

/-- `buildGenerator(degree)`: `g_0 = 1`, `g_d = g_{d-1} · (x + α^(d-1+base))`.  The Go cache only
    memoises this recursion. -/
def buildGenerator (F : GF) : Nat → Res Poly
  | 0 => .ok [1]
  | d + 1 => do
    let g ← buildGenerator F d
    let e ← F.expAt (d + F.base)
    let f ← mkPoly [1, e]
    multiply F g f

/-- `Encode(toEncode, ecBytes)`: returns the array after the call -/
def encodeArr (F : GF) (toEncode : List Nat) (ecBytes : Nat) : Res (List Nat) :=
  if ecBytes = 0 then .error .illegalArg
  else if toEncode.length ≤ ecBytes then .error .illegalArg
  else do
    let k := toEncode.length - ecBytes
    let gen ← buildGenerator F ecBytes
    let info ← mkPoly (toEncode.take k)
    let info ← multiplyByMonomial F info ecBytes 1
    let (_, rem) ← divide F info gen
    -- numZeroCoefficients := ecBytes - len(rem); zero fill; copy(toEncode[k+numZero:], rem)
    if rem.length > toEncode.length then .error (.panic "slice bounds out of range")
    else
      let start := toEncode.length - rem.length
      .ok (toEncode.take (min k start) ++ List.replicate (start - k) 0 ++ rem)

/-- full code word `data ++ parity` (Go: `Encode(append(data, zeros(ecLen)...), ecLen)`) -/
def encodeWord (F : GF) (data : List Nat) (ecLen : Nat) : Res (List Nat) :=
  encodeArr F (data ++ List.replicate ecLen 0) ecLen

/-- the `ecLen` parity symbols of `data` -/
def encode (F : GF) (data : List Nat) (ecLen : Nat) : Res (List Nat) := do
  let w ← encodeWord F data ecLen
  .ok (w.drop data.length)

/-! ## decoder -/

/-- failure reasons of the decoder; `base` = propagated from field / polynomial operations -/
inductive DErr where
  | base (f : Fault)
  | rLastZero        -- "r_{i-1} was zero"
  | sigmaZero        -- "sigmaTilde(0) was zero"
  | rootCount        -- "Error locator degree does not match number of roots"
  | badLocation      -- "Bad error location"
  | illegalState     -- "Division algorithm failed to reduce polynomial?"
  deriving DecidableEq, Repr

abbrev DRes (α : Type) := Except DErr α

def liftD {α} : Res α → DRes α
  | .ok a => .ok a
  | .error e => .error (.base e)

instance : MonadLift (Except Fault) (Except DErr) := ⟨liftD⟩

/-- what `Decode`'s caller sees: a panic stays a panic, everything else is a
    `ReedSolomonException` (mapped to `ChecksumException` by every reader in the library) -/
def DErr.toFault : DErr → Fault
  | .base (.panic w) => .panic w
  | .base .fuel => .fuel
  | _ => .checksum

def DErr.tag : DErr → String
  | .base (.panic _) => "PANIC"
  | .base .fuel => "FUEL"
  | .base f => "rs:" ++ f.tag
  | .rLastZero => "rs:rlastzero"
  | .sigmaZero => "rs:sigmazero"
  | .rootCount => "rs:rootcount"
  | .badLocation => "rs:badlocation"
  | .illegalState => "rs:illegalstate"

/-- syndrome evaluations `S_i = poly(α^(i+base))`, `i = 0 … twoS-1` (in this order) -/
def syndromes (F : GF) (poly : Poly) : Nat → Nat → Res (List Nat)
  | 0, _ => .ok []
  | n + 1, i => do
    let x ← F.expAt (i + F.base)
    let ev ← evaluateAt F poly x
    let rest ← syndromes F poly n (i + 1)
    .ok (ev :: rest)

/-- inner division loop of `runEuclideanAlgorithm` -/
def euclidDivLoop (F : GF) (rLast : Poly) (dltInverse : Nat) : Nat → Poly → Poly → Res (Poly × Poly)
  | 0, _, _ => .error .fuel
  | fuel + 1, q, r =>
    if degree r ≥ degree rLast && !isZero r then do
      let degreeDiff := degree r - degree rLast
      let lead ← getCoefficient r (degree r)
      let scale ← F.mul lead dltInverse
      let monomial ← buildMonomial degreeDiff scale
      let q' ← addOrSubtract q monomial
      let polynomial ← multiplyByMonomial F rLast degreeDiff scale
      let r' ← addOrSubtract r polynomial
      euclidDivLoop F rLast dltInverse fuel q' r'
    else .ok (q, r)

/-- outer loop of `runEuclideanAlgorithm`; state (rLast, r, tLast, t) -/
def euclidLoop (F : GF) (R : Nat) : Nat → Poly → Poly → Poly → Poly → DRes (Poly × Poly)
  | 0, _, _, _, _ => .error (.base .fuel)
  | fuel + 1, rLast, r, tLast, t =>
    if 2 * degree r ≥ R then do
      let rLastLast := rLast
      let tLastLast := tLast
      let rLast := r
      let tLast := t
      if isZero rLast then throw DErr.rLastZero
      let dlt ← liftD (getCoefficient rLast (degree rLast))
      let dltInverse ← liftD (F.inv dlt)
      let (q, r) ← liftD (euclidDivLoop F rLast dltInverse (rLastLast.length + 1) [0] rLastLast)
      let q ← liftD (multiply F q tLast)
      let t ← liftD (addOrSubtract q tLastLast)
      if degree r ≥ degree rLast then throw DErr.illegalState
      euclidLoop F R fuel rLast r tLast t
    else .ok (t, r)

/-- `runEuclideanAlgorithm(a, b, R)`: (sigma, omega) -/
def runEuclideanAlgorithm (F : GF) (a b : Poly) (R : Nat) : DRes (Poly × Poly) := do
  let (a, b) := if degree a < degree b then (b, a) else (a, b)
  let (t, r) ← euclidLoop F R (b.length + 1) a b [0] [1]
  let sigmaTildeAtZero ← liftD (getCoefficient t 0)
  if sigmaTildeAtZero = 0 then throw DErr.sigmaZero
  let inverse ← liftD (F.inv sigmaTildeAtZero)
  let sigma ← liftD (multiplyBy F t inverse)
  let omega ← liftD (multiplyBy F r inverse)
  .ok (sigma, omega)

/-- Chien search loop `for i := 1; i < size && e < numErrors; i++` over the candidates `i` -/
def chien (F : GF) (sigma : Poly) (numErrors : Nat) : List Nat → List Nat → Res (List Nat)
  | [], acc => .ok acc
  | i :: is, acc =>
    if acc.length ≥ numErrors then .ok acc
    else do
      let v ← evaluateAt F sigma i
      if v = 0 then do
        let x ← F.inv i
        chien F sigma numErrors is (acc ++ [x])
      else chien F sigma numErrors is acc

/-- `findErrorLocations(errorLocator)` -/
def findErrorLocations (F : GF) (sigma : Poly) : DRes (List Nat) := do
  let numErrors := degree sigma
  if numErrors = 1 then
    let c ← liftD (getCoefficient sigma 1)
    .ok [c]
  else
    let found ← liftD (chien F sigma numErrors (List.range' 1 (F.size - 1)) [])
    if found.length ≠ numErrors then throw DErr.rootCount
    .ok found

/-- inner product of `findErrorMagnitudes`: `∏_{j≠i} (1 + X_j·X_i⁻¹)` with the bit-flip form of `+1` -/
def magDenominator (F : GF) (xiInverse : Nat) (i : Nat) : List Nat → Nat → Nat → Res Nat
  | [], _, den => .ok den
  | xj :: rest, j, den =>
    if i ≠ j then do
      let term ← F.mul xj xiInverse
      let termPlus1 := if term &&& 1 = 0 then term ||| 1 else term - 1
      let den' ← F.mul den termPlus1
      magDenominator F xiInverse i rest (j + 1) den'
    else magDenominator F xiInverse i rest (j + 1) den

/-- one magnitude (Forney), with the generator-base correction -/
def errorMagnitude (F : GF) (omega : Poly) (locs : List Nat) (i xi : Nat) : Res Nat := do
  let xiInverse ← F.inv xi
  let denominator ← magDenominator F xiInverse i locs 0 1
  let inverse ← F.inv denominator
  let ev ← evaluateAt F omega xiInverse
  let r ← F.mul ev inverse
  if F.base ≠ 0 then F.mul r xiInverse else .ok r

def magLoop (F : GF) (omega : Poly) (locs : List Nat) : List Nat → Nat → Res (List Nat)
  | [], _ => .ok []
  | xi :: rest, i => do
    let m ← errorMagnitude F omega locs i xi
    let ms ← magLoop F omega locs rest (i + 1)
    .ok (m :: ms)

/-- `findErrorMagnitudes(errorEvaluator, errorLocations)` -/
def findErrorMagnitudes (F : GF) (omega : Poly) (locs : List Nat) : Res (List Nat) :=
  magLoop F omega locs locs 0

/-- correction loop of `Decode` -/
def applyCorrections (F : GF) : List Nat → List Nat → List Nat → DRes (List Nat)
  | [], _, received => .ok received
  | _ :: _, [], _ => .error (.base (.panic "index out of range"))
  | loc :: locs, m :: ms, received => do
    let log ← liftD (F.logOf loc)
    if received.length < log + 1 then throw DErr.badLocation
    let position := received.length - 1 - log
    match received[position]? with
    | none => .error (.base (.panic "index out of range"))
    | some v => applyCorrections F locs ms (received.set position (v ^^^ m))

/-- `Decode(received, twoS)` with the failure reason -/
def decodeD (F : GF) (received : List Nat) (twoS : Nat) : DRes (List Nat) := do
  let poly ← liftD (mkPoly received)
  let synd ← liftD (syndromes F poly twoS 0)
  if synd.all (· == 0) then .ok received
  else do
    let syndrome ← liftD (mkPoly synd.reverse)
    let monomial ← liftD (buildMonomial twoS 1)
    let (sigma, omega) ← runEuclideanAlgorithm F monomial syndrome twoS
    let errorLocations ← findErrorLocations F sigma
    let errorMagnitudes ← liftD (findErrorMagnitudes F omega errorLocations)
    applyCorrections F errorLocations errorMagnitudes received

/-- `ReedSolomonDecoder.Decode(received, twoS)`: the corrected word -/
def decode (F : GF) (received : List Nat) (twoS : Nat) : Res (List Nat) :=
  match decodeD F received twoS with
  | .ok w => .ok w
  | .error e => .error e.toFault

end Gzx.RS
