/-
  wp rowsrest — RSS-14 (GS1 DataBar Omnidirectional) row reader, as coded in /repo/oned/rss:

    rss14_reader.go          DecodeRow, addOrTally, Reset, constructResult, checkChecksum, decodePair,
                             decodeDataCharacter, findFinderPattern, parseFoundFinderPattern, adjustOddEvenCounts
    abstract_rss_reader.go   RSSReader_parseFinderValue, RSSReader_increment / decrement, RSSReader_isFinderPattern
    rss_utils.go             RSSUtils_getRSSvalue, combins
    (oned_reader.go          RecordPattern / RecordPatternInReverse with their error result IGNORED, as decodeDataCharacter does)

  The reader keeps `possibleLeftPairs` / `possibleRightPairs` between rows: the state is explicit (`State`), `decodeRow`
  maps a state and a row to the new state, and `run` threads it through a sequence of `DecodeRow` / `Reset` calls.

  Floats (`elementWidth`, the rounding errors, the finder ratio, the finder variance) go through an arbitrary float
  interpretation `Gzx.Det.FOps` (DESIGN §5.4); the driver runs `FOps.float` (IEEE binary64).  Integers are unbounded `Int`
  (all values stay far below 2^63).  Panics are values: every index, every `row.Get(i)` outside `[0, size)` (Go would
  read the padding of the last word or panic), every division is checked.  Core Lean only.
-/
import Gzx.Model.OneDRowExt
namespace Gzx.RSS14
open Gzx Gzx.Det

structure Tables where
  outsideEvenTotalSubset : List Int
  insideOddTotalSubset : List Int
  outsideGsum : List Int
  insideGsum : List Int
  outsideOddWidest : List Int
  insideOddWidest : List Int
  finderPatterns : List (List Nat)

def refTables : Tables where
  outsideEvenTotalSubset := [1, 10, 34, 70, 126]
  insideOddTotalSubset := [4, 20, 48, 81]
  outsideGsum := [0, 161, 961, 2015, 2715]
  insideGsum := [0, 336, 1036, 1516]
  outsideOddWidest := [8, 6, 4, 3, 1]
  insideOddWidest := [2, 4, 6, 8]
  finderPatterns := [[3, 8, 2, 1], [3, 5, 5, 1], [3, 3, 7, 1], [3, 1, 9, 1], [2, 7, 4, 1], [2, 5, 6, 1], [2, 3, 8, 1],
                     [1, 5, 7, 1], [1, 3, 9, 1]]

def nth {α} (l : List α) (i : Nat) : Res α :=
  match l[i]? with
  | some x => .ok x
  | none => .error (.panic "index out of range")

/-- `l[i]` for a Go `int` index -/
def nthI {α} (l : List α) (i : Int) : Res α :=
  if i < 0 then .error (.panic "index out of range") else nth l i.toNat

/-- `row.Get(i)`; outside `[0, size)` the model refuses (Go reads the word padding or panics) -/
def getPx (row : List Bool) (i : Nat) : Res Bool :=
  match row[i]? with
  | some b => .ok b
  | none => .error (.panic "row.Get outside the row")

/-! ## RSSUtils -/

/-- first loop of `combins`: `for i := n; i > maxDenom; i-- { val *= i; if j <= minDenom { val /= j; j++ } }` -/
def combinsLoop1 (minDenom : Int) : Nat → Int → Int → Int → Res (Int × Int)
  | 0, _, val, j => .ok (val, j)
  | k + 1, i, val, j =>
    let val := val * i
    if j ≤ minDenom then
      if j = 0 then .error (.panic "integer divide by zero")
      else combinsLoop1 minDenom k (i - 1) (val.tdiv j) (j + 1)
    else combinsLoop1 minDenom k (i - 1) val j

/-- second loop: `for j <= minDenom { val /= j; j++ }` -/
def combinsLoop2 : Nat → Int → Int → Res Int
  | 0, val, _ => .ok val
  | k + 1, val, j =>
    if j = 0 then .error (.panic "integer divide by zero") else combinsLoop2 k (val.tdiv j) (j + 1)

/-- `combins(n, r)` (the Go port keeps `maxDenom = n-r`, `minDenom = r` on both branches) -/
def combins (n r : Int) : Res Int :=
  let maxDenom := n - r
  let minDenom := r
  let (minDenom, maxDenom) := if n - r > r then (r, n - r) else (minDenom, maxDenom)
  match combinsLoop1 minDenom (n - maxDenom).toNat n 1 1 with
  | .error e => .error e
  | .ok (val, j) => combinsLoop2 (minDenom + 1 - j).toNat val j

/-- `for mxwElement := hi; mxwElement > maxWidth; mxwElement-- { lessVal += combins(n-elmWidth-mxwElement-1, elements-bar-3) }` -/
def lessValLoop (base r : Int) : Nat → Int → Int → Res Int
  | 0, _, acc => .ok acc
  | k + 1, mxw, acc =>
    match combins (base - mxw - 1) r with
    | .error e => .error e
    | .ok c => lessValLoop base r k (mxw - 1) (acc + c)

/-- `x &^ (1 << bar)` -/
def clearBit (mask bar : Nat) : Nat := mask - (mask &&& 2 ^ bar)

/-- `if noNarrow && narrowMask == 0 && n-elmWidth-(elements-bar-1) >= elements-bar-1 { subVal -= combins(…) }`, `eb = elements-bar` -/
def narrowAdjust (n elmWidth eb : Int) (noNarrow : Bool) (mask : Nat) (sub0 : Int) : Res Int :=
  if noNarrow ∧ mask = 0 ∧ n - elmWidth - (eb - 1) ≥ eb - 1 then
    match combins (n - elmWidth - eb) (eb - 2) with
    | .error e => .error e
    | .ok c => .ok (sub0 - c)
  else .ok sub0

/-- `if elements-bar-1 > 1 { … subVal -= lessVal * (elements-1-bar) } else if n-elmWidth > maxWidth { subVal-- }` -/
def widthAdjust (n elmWidth eb maxWidth : Int) (sub1 : Int) : Res Int :=
  if eb - 1 > 1 then
    let hi := n - elmWidth - (eb - 2)
    match lessValLoop (n - elmWidth) (eb - 3) (hi - maxWidth).toNat hi 0 with
    | .error e => .error e
    | .ok lessVal => .ok (sub1 - lessVal * (eb - 1))
  else if n - elmWidth > maxWidth then .ok (sub1 - 1)
  else .ok sub1

/-- `subVal` of one iteration of the inner loop -/
def subValOf (n elmWidth eb maxWidth : Int) (noNarrow : Bool) (mask : Nat) : Res Int :=
  match combins (n - elmWidth - 1) (eb - 2) with
  | .error e => .error e
  | .ok sub0 =>
    match narrowAdjust n elmWidth eb noNarrow mask sub0 with
    | .error e => .error e
    | .ok sub1 => widthAdjust n elmWidth eb maxWidth sub1

/-- the inner loop of `RSSUtils_getRSSvalue` for one `bar`: `k` iterations left, returns (val, elmWidth, narrowMask) -/
def elmLoop (n : Int) (elements bar : Nat) (maxWidth : Int) (noNarrow : Bool) :
    Nat → Int → Nat → Int → Res (Int × Int × Nat)
  | 0, elmWidth, mask, val => .ok (val, elmWidth, mask)
  | k + 1, elmWidth, mask, val =>
    match subValOf n elmWidth ((elements : Int) - (bar : Int)) maxWidth noNarrow mask with
    | .error e => .error e
    | .ok sub => elmLoop n elements bar maxWidth noNarrow k (elmWidth + 1) (clearBit mask bar) (val + sub)

/-- the outer loop over `bar = 0 … elements-2`; `ws` = `widths[bar:]` -/
def barLoop (elements : Nat) (maxWidth : Int) (noNarrow : Bool) : List Int → Nat → Int → Nat → Int → Res Int
  | [], _, _, _, val => .ok val
  | [_], _, _, _, val => .ok val           -- the last element is not visited (`bar < elements-1`)
  | w :: ws, bar, n, mask, val =>
    let mask := mask ||| 2 ^ bar
    match elmLoop n elements bar maxWidth noNarrow (w - 1).toNat 1 mask val with
    | .error e => .error e
    | .ok (val, elmWidth, mask) => barLoop elements maxWidth noNarrow ws (bar + 1) (n - elmWidth) mask val

/-- `RSSUtils_getRSSvalue(widths, maxWidth, noNarrow)` -/
def getRSSvalue (widths : List Int) (maxWidth : Int) (noNarrow : Bool) : Res Int :=
  barLoop widths.length maxWidth noNarrow widths 0 (widths.foldl (· + ·) 0) 0 0

/-! ## finder pattern -/

section Float
variable {F : Type} (o : FOps F)

def sumN (xs : List Nat) : Nat := xs.foldl (· + ·) 0
def sumI (xs : List Int) : Int := xs.foldl (· + ·) 0

/-- `RSSReader_isFinderPattern(counters)` for the four counters -/
def isFinderPattern (c0 c1 c2 c3 : Nat) : Bool :=
  let firstTwoSum := c0 + c1
  let sum := firstTwoSum + c2 + c3
  let ratio := o.div (o.ofInt firstTwoSum) (o.ofInt sum)
  if o.ge ratio (o.lit 19 24) && o.le ratio (o.lit 25 28) then
    let minC := min (min c0 c1) (min c2 c3)
    let maxC := max (max c0 c1) (max c2 c3)
    decide (maxC < 10 * minC)
  else false

/-- the four finder counters -/
structure C4 where
  c0 : Nat
  c1 : Nat
  c2 : Nat
  c3 : Nat
  deriving Repr, DecidableEq

def C4.incr (c : C4) : Nat → Res C4
  | 0 => .ok { c with c0 := c.c0 + 1 }
  | 1 => .ok { c with c1 := c.c1 + 1 }
  | 2 => .ok { c with c2 := c.c2 + 1 }
  | 3 => .ok { c with c3 := c.c3 + 1 }
  | _ => .error (.panic "index out of range")

def C4.setOne (c : C4) : Nat → Res C4
  | 0 => .ok { c with c0 := 1 }
  | 1 => .ok { c with c1 := 1 }
  | 2 => .ok { c with c2 := 1 }
  | 3 => .ok { c with c3 := 1 }
  | _ => .error (.panic "index out of range")

/-- the second loop of `findFinderPattern` over the remaining pixels `x, x+1, …` -/
def finderLoop : List Bool → Nat → C4 → Nat → Nat → Bool → Res ((Nat × Nat) × C4)
  | [], _, _, _, _, _ => .error .notFound
  | b :: bs, x, cs, pos, ps, isWhite =>
    if b != isWhite then
      match cs.incr pos with
      | .error e => .error e
      | .ok cs => finderLoop bs (x + 1) cs pos ps isWhite
    else if pos = 3 then
      if isFinderPattern o cs.c0 cs.c1 cs.c2 cs.c3 then .ok ((ps, x), cs)
      else finderLoop bs (x + 1) ⟨cs.c2, cs.c3, 1, 0⟩ 2 (ps + cs.c0 + cs.c1) (!isWhite)
    else
      match cs.setOne (pos + 1) with
      | .error e => .error e
      | .ok cs => finderLoop bs (x + 1) cs (pos + 1) ps (!isWhite)

/-- the first loop: offset of the first pixel whose colour is `!right` (black for the left pattern) -/
def skipTo (right : Bool) : List Bool → Nat → Nat
  | [], off => off
  | b :: bs, off => if right = !b then off else skipTo right bs (off + 1)

/-- `findFinderPattern(row, rightFinderPattern)`: the range and the counters left in `decodeFinderCounters` -/
def findFinderPattern (row : List Bool) (right : Bool) : Res ((Nat × Nat) × C4) :=
  let off := skipTo right row 0
  -- after a `break` the colour being counted is `!right`; without one the second loop does not run
  finderLoop o (row.drop off) off ⟨0, 0, 0, 0⟩ 0 off right

/-- `for firstElementStart >= 0 && firstIsBlack != row.Get(firstElementStart) { firstElementStart-- }`,
    `k` = number of pixels left of the current position (`firstElementStart + 1`) -/
def backLoop (row : List Bool) (firstIsBlack : Bool) : Nat → Res Nat
  | 0 => .ok 0
  | k + 1 =>
    match getPx row k with
    | .error e => .error e
    | .ok b => if firstIsBlack != b then backLoop row firstIsBlack k else .ok (k + 1)

structure FinderPattern where
  value : Nat
  startEnd : Nat × Nat
  p0 : Int × Int       -- result points (x, rowNumber)
  p1 : Int × Int
  deriving Repr, DecidableEq

/-- `RSSReader_parseFinderValue(counters, finderPatterns)` -/
def parseFinderValue (counters : List Nat) : List (List Nat) → Nat → Res Nat
  | [], _ => .error .notFound
  | p :: ps, i =>
    if p.length < counters.length then .error (.panic "pattern[i] out of range")
    else if o.lt (OneDRowExt.pmvF o 45 100 counters p) (o.lit 1 5) then .ok i
    else parseFinderValue counters ps (i + 1)

/-- `parseFoundFinderPattern(row, rowNumber, right, startEnd)` with the finder counters as left by `findFinderPattern` -/
def parseFoundFinderPattern (T : Tables) (row : List Bool) (rn : Int) (right : Bool) (se : Nat × Nat) (cs : C4) :
    Res FinderPattern := do
  let firstIsBlack ← getPx row se.1
  let firstElementStart ← backLoop row firstIsBlack se.1
  let firstCounter := se.1 - firstElementStart
  let value ← parseFinderValue o [firstCounter, cs.c0, cs.c1, cs.c2] T.finderPatterns 0
  let size : Int := row.length
  let start : Int := if right then size - 1 - firstElementStart else firstElementStart
  let end_ : Int := if right then size - 1 - se.2 else se.2
  pure ⟨value, (firstElementStart, se.2), (start, rn), (end_, rn)⟩

/-! ## data characters -/

/-- the counters `RecordPattern(row, start, counters)` leaves behind, whatever it returns (`n = len(counters) ≥ 1`) -/
def recordPatternRaw (row : List Bool) (start n : Nat) : List Nat :=
  match row.drop start with
  | [] => List.replicate n 0
  | b :: bs =>
    let cs := (RunLength.rpLoop n bs b [] 1).1
    cs ++ List.replicate (n - cs.length) 0

/-- the counters `RecordPatternInReverse(row, start, counters)` leaves behind in counters that were all zero -/
def recordPatternInReverseRaw (row : List Bool) (start n : Nat) : Res (List Nat) :=
  match getPx row start with
  | .error e => .error e
  | .ok last =>
    let (s, left) := RunLength.revScan (RunLength.getBit row) (start + 1) start last (Int.ofNat n)
    if left ≥ 0 then .ok (List.replicate n 0) else .ok (recordPatternRaw row (s + 1) n)

/-- rounding of one counter: `value := float64(c) / elementWidth; count := int(value + 0.5)` clamped to 1..8;
    returns the count and `value - float64(count)` -/
def roundCount (elementWidth : F) (c : Nat) : Int × F :=
  let value := o.div (o.ofInt c) elementWidth
  let count := o.toInt (o.add value (o.lit 1 2))
  let count := if count < 1 then 1 else if count > 8 then 8 else count
  (count, o.sub value (o.ofInt count))

/-- even positions of the eight counters → odd counts, odd positions → even counts -/
def splitOddEven {α} : List α → List α × List α
  | a :: b :: rest => let r := splitOddEven rest; (a :: r.1, b :: r.2)
  | [a] => ([a], [])
  | [] => ([], [])

/-- index of the biggest error (`>`: first one wins) / of the smallest (`<`) -/
def argBest (better : F → F → Bool) : List F → Nat → Nat → F → Nat
  | [], _, idx, _ => idx
  | e :: es, i, idx, best => if better e best then argBest better es (i + 1) i e else argBest better es (i + 1) idx best

def bump (d : Int) : List Int → Nat → Res (List Int)
  | [], _ => .error (.panic "index out of range")
  | c :: cs, 0 => .ok ((c + d) :: cs)
  | c :: cs, i + 1 => (bump d cs i).map (c :: ·)

/-- `RSSReader_increment(array, errors)`: `errors[0]` panics on an empty slice -/
def increment (array : List Int) (errors : List F) : Res (List Int) :=
  match errors with
  | [] => .error (.panic "index out of range [0]")
  | e0 :: es =>
    if errors.length < array.length then .error (.panic "index out of range")
    else bump 1 array (argBest (fun e best => o.gt e best) (es.take (array.length - 1)) 1 0 e0)

/-- `RSSReader_decrement(array, errors)` -/
def decrement (array : List Int) (errors : List F) : Res (List Int) :=
  match errors with
  | [] => .error (.panic "index out of range [0]")
  | e0 :: es =>
    if errors.length < array.length then .error (.panic "index out of range")
    else bump (-1) array (argBest (fun e best => o.lt e best) (es.take (array.length - 1)) 1 0 e0)

/-- Go `x & 0x01` on an int -/
def lowBit (x : Int) : Int := x.emod 2

/-- the flag logic of `adjustOddEvenCounts`: (incrementOdd, decrementOdd, incrementEven, decrementEven) after the
    `switch mismatch`, or NotFound -/
def flagsOf (outside : Bool) (numModules oddSum evenSum : Int) : Res (Bool × Bool × Bool × Bool) :=
  let (decOdd0, incOdd0, decEven0, incEven0) : Bool × Bool × Bool × Bool :=
    if outside then
      (decide (oddSum > 12), decide (¬ oddSum > 12 ∧ oddSum < 4), decide (evenSum > 12), decide (¬ evenSum > 12 ∧ evenSum < 4))
    else
      (decide (oddSum > 11), decide (¬ oddSum > 11 ∧ oddSum < 5), decide (evenSum > 10), decide (¬ evenSum > 10 ∧ evenSum < 4))
  let mismatch := oddSum + evenSum - numModules
  let oddParityBad : Bool := if outside then lowBit oddSum = 1 else lowBit oddSum = 0
  let evenParityBad : Bool := lowBit evenSum = 1
  if mismatch = 1 then
    if oddParityBad then
      if evenParityBad then .error .notFound else .ok (incOdd0, true, incEven0, decEven0)
    else
      if !evenParityBad then .error .notFound else .ok (incOdd0, decOdd0, incEven0, true)
  else if mismatch = -1 then
    if oddParityBad then
      if evenParityBad then .error .notFound else .ok (true, decOdd0, incEven0, decEven0)
    else
      if !evenParityBad then .error .notFound else .ok (incOdd0, decOdd0, true, decEven0)
  else if mismatch = 0 then
    if oddParityBad then
      if !evenParityBad then .error .notFound
      else if oddSum < evenSum then .ok (true, decOdd0, incEven0, true)
      else .ok (incOdd0, true, true, decEven0)
    else
      if evenParityBad then .error .notFound else .ok (incOdd0, decOdd0, incEven0, decEven0)
  else .error .notFound

/-- `if increment { if decrement { return NotFound }; RSSReader_increment(array, errors) }` -/
def stepInc (inc dec : Bool) (array : List Int) (errors : List F) : Res (List Int) :=
  if inc then (if dec then .error .notFound else increment o array errors) else .ok array

/-- `if decrement { RSSReader_decrement(array, errors) }` -/
def stepDec (dec : Bool) (array : List Int) (errors : List F) : Res (List Int) :=
  if dec then decrement o array errors else .ok array

/-- the tail of `adjustOddEvenCounts`: odd counts first, then even counts -/
def applyFlags (odd even : List Int) (oddErr evenErr : List F) (incOdd decOdd incEven decEven : Bool) :
    Res (List Int × List Int) :=
  match stepInc o incOdd decOdd odd oddErr with
  | .error e => .error e
  | .ok odd1 =>
    match stepDec o decOdd odd1 oddErr with
    | .error e => .error e
    | .ok odd2 =>
      match stepInc o incEven decEven even evenErr with
      | .error e => .error e
      | .ok even1 =>
        match stepDec o decEven even1 evenErr with
        | .error e => .error e
        | .ok even2 => .ok (odd2, even2)

/-- `adjustOddEvenCounts(outsideChar, numModules)` on (oddCounts, evenCounts) with their rounding errors -/
def adjustOddEvenCounts (outside : Bool) (numModules : Int) (odd even : List Int) (oddErr evenErr : List F) :
    Res (List Int × List Int) :=
  match flagsOf outside numModules (sumI odd) (sumI even) with
  | .error e => .error e
  | .ok (incOdd, decOdd, incEven, decEven) => applyFlags o odd even oddErr evenErr incOdd decOdd incEven decEven

/-- `for i := len-1; i >= 0; i-- { portion *= 9; portion += counts[i] }` -/
def checksumPortionOf (counts : List Int) : Int := counts.reverse.foldl (fun acc c => acc * 9 + c) 0

structure DataCharacter where
  value : Int
  checksumPortion : Int
  deriving Repr, DecidableEq

/-- the second half of `decodeDataCharacter`: sums, group, the two RSS values, the character value -/
def charValue (T : Tables) (outside : Bool) (odd even : List Int) : Res DataCharacter :=
  let oddSum := sumI odd
  let evenSum := sumI even
  let checksumPortion := checksumPortionOf odd + 3 * checksumPortionOf even
  if outside then
    if lowBit oddSum ≠ 0 ∨ oddSum > 12 ∨ oddSum < 4 then .error .notFound
    else do
      let group := (12 - oddSum).tdiv 2
      let oddWidest ← nthI T.outsideOddWidest group
      let evenWidest := 9 - oddWidest
      let vOdd ← getRSSvalue odd oddWidest false
      let vEven ← getRSSvalue even evenWidest true
      let tEven ← nthI T.outsideEvenTotalSubset group
      let gSum ← nthI T.outsideGsum group
      pure ⟨vOdd * tEven + vEven + gSum, checksumPortion⟩
  else
    if lowBit evenSum ≠ 0 ∨ evenSum > 10 ∨ evenSum < 4 then .error .notFound
    else do
      let group := (10 - evenSum).tdiv 2
      let oddWidest ← nthI T.insideOddWidest group
      let evenWidest := 9 - oddWidest
      let vOdd ← getRSSvalue odd oddWidest true
      let vEven ← getRSSvalue even evenWidest false
      let tOdd ← nthI T.insideOddTotalSubset group
      let gSum ← nthI T.insideGsum group
      pure ⟨vEven * tOdd + vOdd + gSum, checksumPortion⟩

/-- the eight counters of a data character: outside = `RecordPatternInReverse` from the pattern start, inside =
    `RecordPattern` from the pattern end, reversed; the error results of both are ignored by the code -/
def charCounters (row : List Bool) (fp : FinderPattern) (outside : Bool) : Res (List Nat) :=
  if outside then recordPatternInReverseRaw row fp.startEnd.1 8
  else .ok (recordPatternRaw row fp.startEnd.2 8).reverse

/-- `decodeDataCharacter(row, pattern, outsideChar)` -/
def decodeDataCharacter (T : Tables) (row : List Bool) (fp : FinderPattern) (outside : Bool) : Res DataCharacter :=
  match charCounters row fp outside with
  | .error e => .error e
  | .ok counters =>
    let numModules : Int := if outside then 16 else 15
    let elementWidth := o.div (o.ofInt (sumN counters)) (o.ofInt numModules)
    let rounded := counters.map (roundCount o elementWidth)
    let oddR := (splitOddEven rounded).1
    let evenR := (splitOddEven rounded).2
    match adjustOddEvenCounts o outside numModules (oddR.map (·.1)) (evenR.map (·.1)) (oddR.map (·.2)) (evenR.map (·.2)) with
    | .error e => .error e
    | .ok (odd, even) => charValue T outside odd even

/-! ## pairs, history, result -/

structure Pair where
  value : Int
  checksumPortion : Int
  finder : FinderPattern
  count : Nat
  deriving Repr, DecidableEq

/-- a result point handed to the callback: TWICE the x coordinate, row number -/
abbrev Trace := List (Int × Int)

/-- the errors `decodePair` swallows (`return nil // ignore NotFoundException`): every returned error -/
def swallow {α} : Res α → Res (Option α)
  | .ok a => .ok (some a)
  | .error (.panic w) => .error (.panic w)
  | .error .fuel => .error .fuel
  | .error _ => .ok none

/-- `decodePair(row, right, rowNumber, hints)`; `cb` = the hint holds a non-nil ResultPointCallback -/
def decodePair (T : Tables) (row : List Bool) (right : Bool) (rn : Int) (cb : Bool) : Trace × Res (Option Pair) :=
  match swallow (findFinderPattern o row right) with
  | .error e => ([], .error e)
  | .ok none => ([], .ok none)
  | .ok (some (se, cs)) =>
    match swallow (parseFoundFinderPattern o T row rn right se cs) with
    | .error e => ([], .error e)
    | .ok none => ([], .ok none)
    | .ok (some fp) =>
      let c2 : Int := (fp.startEnd.1 + fp.startEnd.2 : Nat) - 1
      let c2 : Int := if right then 2 * (row.length : Int) - 2 - c2 else c2
      let t : Trace := if cb then [(c2, rn)] else []
      match swallow (decodeDataCharacter o T row fp true) with
      | .error e => (t, .error e)
      | .ok none => (t, .ok none)
      | .ok (some outside) =>
        match swallow (decodeDataCharacter o T row fp false) with
        | .error e => (t, .error e)
        | .ok none => (t, .ok none)
        | .ok (some inside) =>
          (t, .ok (some ⟨1597 * outside.value + inside.value, outside.checksumPortion + 4 * inside.checksumPortion, fp, 0⟩))
end Float

/-- `addOrTally(possiblePairs, pair)` -/
def tally (v : Int) : List Pair → Option (List Pair)
  | [] => none
  | p :: ps => if p.value = v then some ({ p with count := p.count + 1 } :: ps) else (tally v ps).map (p :: ·)

def addOrTally (pairs : List Pair) : Option Pair → List Pair
  | none => pairs
  | some p => match tally p.value pairs with
    | some ps => ps
    | none => pairs ++ [p]

/-- `checkChecksum(leftPair, rightPair)` -/
def checkChecksum (l r : Pair) : Bool :=
  let checkValue := (l.checksumPortion + 16 * r.checksumPortion).tmod 79
  let t : Int := 9 * l.finder.value + r.finder.value
  let t := if t > 72 then t - 1 else t
  let t := if t > 8 then t - 1 else t
  checkValue = t

/-- `strconv.Itoa` -/
def itoa (n : Int) : List Nat :=
  if n < 0 then 45 :: OneDRowExt.natDec n.natAbs else OneDRowExt.natDec n.toNat

structure RSSResult where
  text : List Nat
  points : List (Int × Int)
  deriving Repr, DecidableEq

/-- the check digit loop of `constructResult`: byte arithmetic (mod 256) over `buffer[0..12]` -/
def checkDigitLoop (buffer : List Nat) : Nat → Nat → Nat → Res Nat
  | 0, _, acc => .ok acc
  | k + 1, i, acc =>
    match nth buffer i with
    | .error e => .error e
    | .ok b =>
      let digit := CheckDigit.byteMinus0 b
      checkDigitLoop buffer k (i + 1) ((acc + (if i % 2 = 0 then 3 * digit else digit)) % 256)

/-- `constructResult(leftPair, rightPair)` -/
def constructResult (l r : Pair) : Res RSSResult := do
  let symbolValue := 4537077 * l.value + r.value
  let text := itoa symbolValue
  let buffer := List.replicate (13 - text.length) 48 ++ text
  let cd ← checkDigitLoop buffer 13 0 0
  let cd := 10 - cd % 10
  let cd := if cd = 10 then 0 else cd
  pure ⟨buffer ++ [(cd + 48) % 256], [l.finder.p0, l.finder.p1, r.finder.p0, r.finder.p1]⟩

structure State where
  left : List Pair
  right : List Pair
  deriving Repr, DecidableEq

def State.empty : State := ⟨[], []⟩

/-- the double loop at the end of `DecodeRow` -/
def findRight (l : Pair) : List Pair → Option Pair
  | [] => none
  | r :: rs => if r.count > 1 ∧ checkChecksum l r then some r else findRight l rs

def findMatch (rights : List Pair) : List Pair → Option (Pair × Pair)
  | [] => none
  | l :: ls =>
    if l.count > 1 then
      match findRight l rights with
      | some r => some (l, r)
      | none => findMatch rights ls
    else findMatch rights ls

/-- `rss14Reader.DecodeRow(rowNumber, row, hints)`: new state, callback trace, result -/
def decodeRow {F : Type} (o : FOps F) (T : Tables) (st : State) (rn : Int) (row : List Bool) (cb : Bool) :
    State × Trace × Res RSSResult :=
  let lp := decodePair o T row false rn cb
  match lp.2 with
  | .error e => (st, lp.1, .error e)
  | .ok leftPair =>
    let st1 : State := { st with left := addOrTally st.left leftPair }
    let rp := decodePair o T row.reverse true rn cb
    match rp.2 with
    | .error e => (st1, lp.1 ++ rp.1, .error e)
    | .ok rightPair =>
      let st2 : State := { st1 with right := addOrTally st1.right rightPair }
      let res : Res RSSResult :=
        match findMatch st2.right st2.left with
        | some (l, r) => constructResult l r
        | none => .error .notFound
      (st2, lp.1 ++ rp.1, res)

/-- one call on a reader instance -/
inductive Op where
  | row (rn : Int) (px : List Bool) (cb : Bool)
  | reset

/-- a sequence of calls on one instance: the outcome of every `DecodeRow`, and the final state -/
def run {F : Type} (o : FOps F) (T : Tables) : State → List Op → List (Trace × Res RSSResult) × State
  | st, [] => ([], st)
  | _, .reset :: ops => run o T State.empty ops
  | st, .row rn px cb :: ops =>
    let r := decodeRow o T st rn px cb
    let rest := run o T r.1 ops
    ((r.2.1, r.2.2) :: rest.1, rest.2)

end Gzx.RSS14
