/-
  Models of reader glue code (C06, work package detrest):

  * the hint prologue of `upceanReader.decodeRowWithStartRange` (oned/upcean_reader.go): the value under
    NEED_RESULT_POINT_CALLBACK is type-asserted to `gozxing.ResultPointCallback` — unchecked in the tree as
    found (`hint.(T)`: a panic for any other dynamic type), comma-ok after the repair;
  * the control flow of `AztecReader.Decode` (aztec/aztec_reader.go): two detection attempts (normal, then
    mirrored), which error is reported, and the `WrapReaderException` fall-back.
-/
import Gzx.Util
namespace Gzx.Glue
open Gzx

/-- the dynamic type of a hint value, as far as the readers distinguish -/
inductive HintVal where
  | callback (isNil : Bool)     -- gozxing.ResultPointCallback (possibly a typed nil)
  | other (tag : String)        -- any other dynamic type, including untyped nil
  deriving Repr, DecidableEq

/-- `hint.(gozxing.ResultPointCallback)` -/
def assertCallback : HintVal → Res Bool
  | .callback isNil => .ok isNil
  | .other t => .error (.panic ("interface conversion: interface {} is " ++ t ++ ", not gozxing.ResultPointCallback"))

/-- `cb, _ := hint.(gozxing.ResultPointCallback)`: the zero value (nil) when the type differs -/
def assertCallbackOk : HintVal → Bool
  | .callback isNil => isNil
  | .other _ => true

/-- prologue of `decodeRowWithStartRange` AS FOUND: `true` = the callback is invoked with the start-guard point -/
def upceanCallbackOrig (hint : Option HintVal) : Res Bool :=
  match hint with
  | none => .ok false                      -- key absent: resultPointCallback stays nil
  | some v => do
    let isNil ← assertCallback v
    return !isNil                          -- if resultPointCallback != nil { resultPointCallback(…) }

/-- the same prologue after the repair (comma-ok) -/
def upceanCallback (hint : Option HintVal) : Res Bool :=
  match hint with
  | none => .ok false
  | some v => .ok (!assertCallbackOk v)

/-! ## AztecReader.Decode -/

inductive AzOut (R : Type) where
  | ok (r : R)
  | notFound          -- gozxing.WrapNotFoundException(…)
  | format            -- gozxing.WrapFormatException(…)
  | reader            -- gozxing.WrapReaderException(…): not one of the documented kinds
  deriving Repr, DecidableEq

/-- `AztecReader.Decode` after `GetBlackMatrix`: `detect isMirror` and `decode` are the detector and the
    decoder (`none` = they returned an error) -/
def aztecRead {D R : Type} (detect : Bool → Option D) (decode : D → Option R) : AzOut R :=
  -- first attempt
  let (notFoundException, formatException, decoderResult) : Bool × Bool × Option R :=
    match detect false with
    | none => (true, false, none)
    | some d =>
      match decode d with
      | none => (false, true, none)
      | some r => (false, false, some r)
  -- second attempt, mirrored, only `if decoderResult == nil`
  let (err, decoderResult) : Bool × Option R :=
    match decoderResult with
    | some r => (false, some r)
    | none =>
      match detect true with
      | none => (true, none)
      | some d =>
        match decode d with
        | none => (true, none)
        | some r => (false, some r)
  if err then
    if notFoundException then .notFound
    else if formatException then .format
    else .reader
  else
    match decoderResult with
    | some r => .ok r
    | none => .reader   -- would be a nil dereference of decoderResult; see `aztec_read_result`

end Gzx.Glue
