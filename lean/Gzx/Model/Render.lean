/-
  Model of the three rendering functions (module matrix -> BitMatrix):
    qrcode/qrcode_writer.go            renderResult
    datamatrix/datamatrix_writer.go    convertByteMatrixToBitMatrix
    oned/one_dimensional_code_writer.go onedWriter_renderResult
  Hand-written mirror of the Go integer arithmetic and loops; tied to /repo by the `c14`
  correspondence suite.  Core Lean only.

  Conventions
  * Go `int` is unbounded `Int`; Go `/` truncates toward zero: `Int.tdiv`; division by zero panics.
  * The module matrix is an abstract grid `m : Nat → Nat → Bool` (column, row) with its dimensions
    `mw mh : Nat`; the Go loops read `input.Get(inputX, inputY)` only for `inputX < mw`, `inputY < mh`,
    so no index fault exists in these functions.  1-D codes are `List Bool`, walked structurally.
  * The output is the list of `SetRegion` calls in program order.  `BitMatrix.SetRegion` has its
    spec-level meaning (C16 proves it for the real BitMatrix): the call is *rejected* (an `error` that all
    three renderers ignore) unless `Rect.accepted`; an accepted call blackens exactly `Rect.covers`.
    A fresh BitMatrix is all white.
-/
import Gzx.Util
namespace Gzx.Render

/-- one `SetRegion(left, top, width, height)` call -/
structure Rect where
  l : Int
  t : Int
  w : Int
  h : Int
  deriving Repr, DecidableEq

/-- the three argument checks of `BitMatrix.SetRegion` on a `W x H` matrix (negated: call accepted) -/
def Rect.accepted (W H : Int) (r : Rect) : Bool :=
  !(decide (r.t < 0) || decide (r.l < 0)) &&
  !(decide (r.h < 1) || decide (r.w < 1)) &&
  !(decide (r.t + r.h > H) || decide (r.l + r.w > W))

/-- the pixels an accepted call sets -/
def Rect.covers (r : Rect) (x y : Int) : Bool :=
  decide (r.l ≤ x) && decide (x < r.l + r.w) && decide (r.t ≤ y) && decide (y < r.t + r.h)

/-- a rendered BitMatrix: dimensions and the SetRegion calls issued on the fresh (white) matrix -/
structure Image where
  w : Int
  h : Int
  calls : List Rect
  deriving Repr, DecidableEq

/-- `BitMatrix.Get(x, y)` of the result (black = true); outside the matrix: false -/
def Image.px (img : Image) (x y : Int) : Bool :=
  decide (0 ≤ x) && decide (x < img.w) && decide (0 ≤ y) && decide (y < img.h) &&
  img.calls.any (fun r => r.accepted img.w img.h && r.covers x y)

/-- row `y` of the result, evaluated band-wise (used by the driver; `row_getElem?` ties it to `px`) -/
def Image.row (img : Image) (y : Int) : List Bool :=
  let rs := img.calls.filter (fun r => r.accepted img.w img.h && (decide (r.t ≤ y) && decide (y < r.t + r.h)))
  (List.range img.w.toNat).map (fun (x : Nat) => rs.any (fun r => decide (r.l ≤ (x : Int)) && decide ((x : Int) < r.l + r.w)))

def Image.rows (img : Image) : List (List Bool) :=
  (List.range img.h.toNat).map (fun (y : Nat) => img.row (y : Int))

/-- Go integer division: panics on a zero divisor, truncates toward zero -/
def goDiv (a b : Int) : Res Int :=
  if b = 0 then .error (.panic "integer divide by zero") else .ok (a.tdiv b)

/-- inner loop `for inputX, outputX := 0, leftPadding; inputX < inputWidth; inputX, outputX = inputX+1, outputX+multiple`
    with body `if get(inputX) { SetRegion(outputX, top, cw, ch) }`;
    arguments: remaining iterations, inputX, outputX -/
def colLoop (get : Nat → Bool) (top cw ch step : Int) : Nat → Nat → Int → List Rect
  | 0, _, _ => []
  | k + 1, ix, ox =>
    (if get ix then [⟨ox, top, cw, ch⟩] else []) ++ colLoop get top cw ch step k (ix + 1) (ox + step)

/-- outer loop `for inputY, outputY := 0, topPadding; inputY < inputHeight; inputY, outputY = inputY+1, outputY+multiple` -/
def rowLoop (get : Nat → Nat → Bool) (mw : Nat) (left cw ch step : Int) : Nat → Nat → Int → List Rect
  | 0, _, _ => []
  | k + 1, iy, oy =>
    colLoop (fun ix => get ix iy) oy cw ch step mw 0 left ++ rowLoop get mw left cw ch step k (iy + 1) (oy + step)

/-- `renderResult(code, width, height, quietZone)` of qrcode_writer.go; `mw x mh` = input ByteMatrix size.
    (`input == nil` → IllegalStateException is not modelled: `Encoder_encode` always sets the matrix.) -/
def renderQR (mw mh : Nat) (m : Nat → Nat → Bool) (quiet reqW reqH : Int) : Res Image := do
  let qrWidth := (mw : Int) + quiet * 2
  let qrHeight := (mh : Int) + quiet * 2
  let outputWidth := if qrWidth < reqW then reqW else qrWidth
  let outputHeight := if qrHeight < reqH then reqH else qrHeight
  let m1 ← goDiv outputWidth qrWidth
  let m2 ← goDiv outputHeight qrHeight
  let multiple := if m1 > m2 then m2 else m1
  let leftPadding := (outputWidth - (mw : Int) * multiple).tdiv 2
  let topPadding := (outputHeight - (mh : Int) * multiple).tdiv 2
  -- NewBitMatrix(outputWidth, outputHeight): error is wrapped into a WriterException
  if outputWidth < 1 ∨ outputHeight < 1 then .error .writer
  else .ok ⟨outputWidth, outputHeight, rowLoop m mw leftPadding multiple multiple multiple mh 0 topPadding⟩

/-- `convertByteMatrixToBitMatrix(matrix, reqWidth, reqHeight)` of datamatrix_writer.go.
    `NewBitMatrix`'s error is discarded there (`output, _ =`): a nil matrix would fault in `output.Clear()`. -/
def renderDM (mw mh : Nat) (m : Nat → Nat → Bool) (reqW reqH : Int) : Res Image := do
  let matrixWidth := (mw : Int)
  let matrixHeight := (mh : Int)
  let outputWidth := if reqW < matrixWidth then matrixWidth else reqW
  let outputHeight := if reqH < matrixHeight then matrixHeight else reqH
  let m1 ← goDiv outputWidth matrixWidth
  let m2 ← goDiv outputHeight matrixHeight
  let multiple := if m2 < m1 then m2 else m1
  let small := decide (reqH < matrixHeight) || decide (reqW < matrixWidth)
  let leftPadding := if small then 0 else (outputWidth - matrixWidth * multiple).tdiv 2
  let topPadding := if small then 0 else (outputHeight - matrixHeight * multiple).tdiv 2
  let W := if small then matrixWidth else reqW
  let H := if small then matrixHeight else reqH
  if W < 1 ∨ H < 1 then .error (.panic "nil BitMatrix: Clear") else
  .ok ⟨W, H, rowLoop m mw leftPadding multiple multiple multiple mh 0 topPadding⟩

/-- the 1-D loop `for inputX, outputX := 0, leftPadding; inputX < inputWidth; …` with body
    `if code[inputX] { SetRegion(outputX, 0, multiple, outputHeight) }`, walking `code` structurally -/
def barLoop (cw ch step : Int) : List Bool → Int → List Rect
  | [], _ => []
  | b :: bs, ox => (if b then [⟨ox, 0, cw, ch⟩] else []) ++ barLoop cw ch step bs (ox + step)

/-- `onedWriter_renderResult(code, width, height, sidesMargin)` -/
def render1D (code : List Bool) (reqW reqH margin : Int) : Res Image := do
  let inputWidth := (code.length : Int)
  let fullWidth := inputWidth + margin
  let outputWidth := if reqW ≥ fullWidth then reqW else fullWidth       -- max(width, fullWidth)
  let outputHeight := if (1 : Int) ≥ reqH then 1 else reqH              -- max(1, height)
  let multiple ← goDiv outputWidth fullWidth
  let leftPadding := (outputWidth - inputWidth * multiple).tdiv 2
  if outputWidth < 1 ∨ outputHeight < 1 then .error .writer
  else .ok ⟨outputWidth, outputHeight, barLoop multiple outputHeight multiple code leftPadding⟩

/-! ## canonical text form shared with the harness -/

/-- FNV-1a style 64-bit hash over the pixels in row-major order -/
def hashRows (rows : List (List Bool)) : UInt64 :=
  rows.foldl (fun h row =>
    let h := row.foldl (fun h b => (h ^^^ (if b then 1 else 0)) * 1099511628211) h
    (h ^^^ 255) * 1099511628211) 14695981039346656037

def showImage (img : Image) : String :=
  let rows := img.rows
  let body :=
    if img.w * img.h ≤ 4096 then "/".intercalate (rows.map showBits)
    else s!"h={(hashRows rows).toNat}"
  s!"ok {img.w}x{img.h} {body}"

end Gzx.Render
