/-
  Model of oned/oned_reader.go : RecordPattern, RecordPatternInReverse, PatternMatchVariance.
  Hand-written mirror of the Go control flow; tied to /repo by the `c20` correspondence suite.
-/
import Gzx.Util
namespace Gzx.RunLength

/-! ## RecordPattern

Go keeps `counters []int`, `counterPosition`, `isWhite` and walks `i` from `start` to `end`.
The mirror walks the remaining pixels; `cur` is the colour being counted (`cur = !isWhite`),
`done` the already completed counters (in order), `cnt` the counter under construction.
Returns the counters and whether the loop left through `break` (`counterPosition == numCounters`).
-/
def rpLoop (n : Nat) : List Bool → Bool → List Nat → Nat → (List Nat × Bool)
  | [], _, done, cnt => (done ++ [cnt], false)
  | b :: bs, cur, done, cnt =>
    if b = cur then rpLoop n bs cur done (cnt + 1)
    else if done.length + 1 = n then (done ++ [cnt], true)
    else rpLoop n bs b (done ++ [cnt]) 1

/-- `RecordPattern(row, start, counters)` with `len(counters) = n`.
    `n = 0` panics in Go (`counters[0]++`), `start ≥ size` is NotFound. -/
def recordPattern (row : List Bool) (start n : Nat) : Res (List Nat) :=
  if n = 0 then (if start ≥ row.length then .error .notFound else .error (.panic "counters[0] on empty slice"))
  else
  match row.drop start with
  | [] => .error .notFound
  | b :: bs =>
    -- the first pixel is counted by the loop itself: counters[0] starts at 0, first iteration increments
    let (cs, broke) := rpLoop n bs b [] 1
    if broke then .ok cs
    else if cs.length = n then .ok cs        -- counterPosition == n-1 && i == end
    else .error .notFound

/-! ## RecordPatternInReverse -/

/-- the backwards scan: returns the new `start` and `numTransitionsLeft` (as Int, may reach -1) -/
def revScan (get : Nat → Bool) : Nat → Nat → Bool → Int → (Nat × Int)
  | 0, start, _, left => (start, left)
  | fuel + 1, start, last, left =>
    if start > 0 ∧ left ≥ 0 then
      let start' := start - 1
      if get start' != last then revScan get fuel start' (!last) (left - 1)
      else revScan get fuel start' last left
    else (start, left)

def getBit (row : List Bool) (i : Nat) : Bool := row.getD i false

/-- `RecordPatternInReverse(row, start, counters)`; requires `start < size` as the callers guarantee
    (Go's `row.Get(start)` reads the backing word array otherwise). -/
def recordPatternInReverse (row : List Bool) (start n : Nat) : Res (List Nat) :=
  if start ≥ row.length then .error (.panic "Get out of range")
  else
    let (s, left) := revScan (getBit row) (start + 1) start (getBit row start) (Int.ofNat n)
    if left ≥ 0 then .error .notFound
    else recordPattern row (s + 1) n

/-! ## PatternMatchVariance, exact arithmetic

`maxIndividualVariance` is the rational `mvNum / mvDen` (`mvDen > 0`).
With `T = Σ counters`, `P = Σ pattern`, `d_i = |c_i·P − p_i·T|`:
  * Go's `variance_i = d_i / P`, `maxIndividualVariance·unit = mvNum·T / (mvDen·P)`,
    so `variance_i > max` iff `mvDen·d_i > mvNum·T`;
  * result = `(Σ d_i / P) / T = Σ d_i / (P·T)`.
`none` stands for `+Inf`.  Result is the un-normalised fraction `(num, den)`.
-/
def sumL (xs : List Nat) : Nat := xs.foldr (· + ·) 0

def absDiff (a b : Nat) : Nat := if a ≥ b then a - b else b - a

def devs (T P : Nat) : List Nat → List Nat → List Nat
  | c :: cs, p :: ps => absDiff (c * P) (p * T) :: devs T P cs ps
  | _, _ => []

/-- mirrors the Go function *after* the D7 repair (`return math.Inf(1)` when `total < patternLength`).
    `pattern` must be at least as long as `counters` (Go indexes `pattern[i]` for `i < len(counters)`). -/
def patternMatchVariance (counters pattern : List Nat) (mvNum mvDen : Nat) : Res (Option (Nat × Nat)) :=
  if pattern.length < counters.length then .error (.panic "pattern[i] out of range")
  else
    let pat := pattern.take counters.length
    let T := sumL counters
    let P := sumL pat
    if T < P then .ok none
    else
      let ds := devs T P counters pat
      if ds.any (fun d => mvDen * d > mvNum * T) then .ok none
      else .ok (some (sumL ds, P * T))

/-- smallest |mvDen·d − mvNum·T| over all counters, used by the harness to skip float-borderline cases -/
def decisionMargin (counters pattern : List Nat) (mvNum mvDen : Nat) : Nat × Nat :=
  let pat := pattern.take counters.length
  let T := sumL counters
  let P := sumL pat
  let ds := devs T P counters pat
  let ms := ds.map (fun d => absDiff (mvDen * d) (mvNum * T))
  (ms.foldl min (mvNum * T + mvDen * (T * P) + 1), mvDen * P * (if T = 0 then 1 else T))

/-! ## Specification: maximal runs -/

/-- lengths of the maximal same-colour runs of a pixel list -/
def runsAux : List Bool → Bool → Nat → List Nat
  | [], _, cnt => [cnt]
  | b :: bs, cur, cnt => if b = cur then runsAux bs cur (cnt + 1) else cnt :: runsAux bs b 1

def runs : List Bool → List Nat
  | [] => []
  | b :: bs => runsAux bs b 1

end Gzx.RunLength
