/-
  Model of the FRONT ENDS of the eleven writers (C12): argument validation, hint parsing by type
  switch, format check, `NewWriterException`'s `args[0].(string)` assertion, and the rendering
  arithmetic (Gzx.Model.Render, including the divisions by qrWidth / fullWidth).
    qrcode/qrcode_writer.go           QRCodeWriter.Encode  (+ head of qrcode/encoder/encoder.go Encoder_encode)
    datamatrix/datamatrix_writer.go   DataMatrixWriter.Encode
    oned/one_dimensional_code_writer.go OneDimensionalCodeWriter.Encode, oned/upcean_writer.go (default margin 9)
    oned/code128_writer.go            head of encodeWithHints (length check, FORCE_CODE_SET)
    oned/upca_writer.go               upcAWriter.Encode
    writer_exception.go / reader_exception.go  NewWriterException / newException
  The encoder cores (everything after the front-end decisions) are abstract parameters returning
  `Res` of a module grid / 1-D code.  Mirrors the code AFTER the repairs of D13, D14 and of the
  negative-QR-margin / ErrorCorrectionLevel-range / Code 128 FORCE_CODE_SET defects found by the C12 oracle.
  Tied to /repo by the `c12` correspondence suite.  Core Lean only.
-/
import Gzx.Model.Render
namespace Gzx.WriterFrontend
open Gzx Gzx.Render

/-- a Go `interface{}` hint value, by dynamic type -/
inductive HintVal where
  | int (i : Int)                          -- Go `int`
  | str (s : List Nat)                     -- Go `string` (bytes)
  | bool (b : Bool)                        -- Go `bool`
  | other (tag : String) (args : List Int) -- any other dynamic type: "ecl" [v] = decoder.ErrorCorrectionLevel,
                                           -- "shape" [v] = encoder.SymbolShapeHint, "dim" [w,h] = *gozxing.Dimension,
                                           -- "dimnil" = (*Dimension)(nil), "nil", "float", …
  deriving Repr, DecidableEq

inductive HintKey where
  | errorCorrection | characterSet | dataMatrixShape | minSize | maxSize | margin
  | qrVersion | qrMaskPattern | gs1Format | forceCodeSet
  deriving Repr, DecidableEq

/-- `hints[key]` with the comma-ok form; a nil map answers `none` for every key -/
abbrev Hints := HintKey → Option HintVal

/-- the 17 `BarcodeFormat` values (iota order of barcode_format.go) -/
def fmtCODABAR : Nat := 1
def fmtCODE_39 : Nat := 2
def fmtCODE_93 : Nat := 3
def fmtCODE_128 : Nat := 4
def fmtDATA_MATRIX : Nat := 5
def fmtEAN_8 : Nat := 6
def fmtEAN_13 : Nat := 7
def fmtITF : Nat := 8
def fmtQR_CODE : Nat := 11
def fmtUPC_A : Nat := 14
def fmtUPC_E : Nat := 15

/-- `newException(prefix, args...)`: `fmt.Sprintf(args[0].(string), args[1:]...)` when `len(args) > 0` —
    an unchecked type assertion.  The result is the fault the caller returns. -/
def newWriterException (args : List HintVal) : Fault :=
  match args with
  | [] => .writer
  | .str _ :: _ => .writer
  | _ => .panic "interface conversion: interface {} is not string"

/-- a format-string literal as first argument (what every call site in the front ends passes) -/
def lit : HintVal := .str []

/-! ## strconv.Atoi -/

def digitsVal : List Nat → Nat → Option Nat
  | [], acc => some acc
  | c :: cs, acc => if 48 ≤ c ∧ c ≤ 57 then digitsVal cs (acc * 10 + (c - 48)) else none

/-- `strconv.Atoi` on a 64-bit platform: optional sign, at least one decimal digit, nothing else,
    value within int64 -/
def atoi (s : List Nat) : Option Int :=
  let (neg, ds) := match s with
    | 43 :: r => (false, r)
    | 45 :: r => (true, r)
    | _ => (false, s)
  if ds.isEmpty then none else
  match digitsVal ds 0 with
  | none => none
  | some n =>
    let v : Int := if neg then -(n : Int) else (n : Int)
    if -9223372036854775808 ≤ v ∧ v ≤ 9223372036854775807 then some v else none

/-! ## module grids -/

structure Modules where
  mw : Nat
  mh : Nat
  m : Nat → Nat → Bool

/-! ## QR -/

/-- what the QR front end does not decide itself -/
structure QREnv where
  /-- `common.GetCharacterSetECIByName(fmt.Sprintf("%v", hint))` finds an entry -/
  knownCharset : HintVal → Bool
  /-- the rest of `Encoder_encode` (mode choice … matrix) for a valid level -/
  core : List Nat → Int → Hints → Res Modules

/-- `decoder.ErrorCorrectionLevel_ValueOf` (values: L = 1, M = 0, Q = 3, H = 2) -/
def eclValueOf (s : List Nat) : Option Int :=
  if s = [77] then some 0 else if s = [76] then some 1 else if s = [72] then some 2
  else if s = [81] then some 3 else none

/-- head of `Encoder_encode`: level range check (repair), CHARACTER_SET lookup (D14 repaired:
    `NewWriterException("%v", encodingHint)`), then the core -/
def encoderEncode (env : QREnv) (content : List Nat) (ecl : Int) (hints : Hints) : Res Modules :=
  if ¬ (ecl = 0 ∨ ecl = 1 ∨ ecl = 2 ∨ ecl = 3) then .error (newWriterException [lit, .int ecl])
  else
    match hints .characterSet with
    | some v =>
      if env.knownCharset v then env.core content ecl hints
      else .error (newWriterException [lit, v])
    | none => env.core content ecl hints

/-- ERROR_CORRECTION hint of `QRCodeWriter.Encode`: `ec.(decoder.ErrorCorrectionLevel)`, else
    `ec.(string)` through `ErrorCorrectionLevel_ValueOf`, else an error -/
def qrEcl (hints : Hints) : Res Int :=
  match hints .errorCorrection with
  | none => .ok 1                                      -- ErrorCorrectionLevel_L
  | some (.other "ecl" [v]) => .ok v
  | some (.str s) =>
    match eclValueOf s with
    | some v => .ok v
    | none => .error (newWriterException [lit, .str s])
  | some v => .error (newWriterException [lit, v])

/-- MARGIN hint of `QRCodeWriter.Encode`: `m.(int)`, else `m.(string)` through `strconv.Atoi`, else an
    error; negative values are rejected (repair) -/
def qrQuiet (hints : Hints) : Res Int :=
  match hints .margin with
  | none => .ok 4                                      -- qrcodeWriter_QUIET_ZONE_SIZE
  | some (.int q) => if q < 0 then .error (newWriterException [lit, .int q]) else .ok q
  | some (.str s) =>
    match atoi s with
    | some q => if q < 0 then .error (newWriterException [lit, .int q]) else .ok q
    | none => .error (newWriterException [lit, .str s])
  | some v => .error (newWriterException [lit, v])

/-- `QRCodeWriter.Encode` -/
def encodeQR (env : QREnv) (content : List Nat) (fmt : Nat) (width height : Int) (hints : Hints) : Res Image :=
  if content.length = 0 then .error (newWriterException [lit])
  else if fmt ≠ fmtQR_CODE then .error (newWriterException [lit, .int fmt])
  else if width < 0 ∨ height < 0 then .error (newWriterException [lit, .int width, .int height])
  else
    match qrEcl hints with
    | .error f => .error f
    | .ok ecl =>
      match qrQuiet hints with
      | .error f => .error f
      | .ok quiet =>
        match encoderEncode env content ecl hints with
        | .error f => .error f
        | .ok code => renderQR code.mw code.mh code.m quiet width height

/-! ## Data Matrix -/

structure DMEnv where
  /-- EncodeHighLevel … encodeLowLevel's ByteMatrix, for (contents, shape, minSize, maxSize) -/
  core : List Nat → Int → Option (Int × Int) → Option (Int × Int) → Res Modules

def dimOf : Option HintVal → Option (Int × Int)
  | some (.other "dim" [w, h]) => some (w, h)   -- val.(*gozxing.Dimension), non-nil
  | _ => none                                    -- absent, nil pointer, or another type: ignored

/-- DATA_MATRIX_SHAPE hint: `val.(encoder.SymbolShapeHint)`, anything else is ignored -/
def dmShape (hints : Hints) : Int :=
  match hints .dataMatrixShape with
  | some (.other "shape" [v]) => v
  | _ => 0                                             -- SymbolShapeHint_FORCE_NONE

/-- `DataMatrixWriter.Encode` -/
def encodeDM (env : DMEnv) (content : List Nat) (fmt : Nat) (width height : Int) (hints : Hints) : Res Image :=
  if content.length = 0 then .error (newWriterException [lit])
  else if fmt ≠ fmtDATA_MATRIX then .error (newWriterException [lit, .int fmt])
  else if width < 0 ∨ height < 0 then .error (newWriterException [lit, .int width, .int height])
  else
    match env.core content (dmShape hints) (dimOf (hints .minSize)) (dimOf (hints .maxSize)) with
    | .error f => .error f
    | .ok code => renderDM code.mw code.mh code.m width height

/-! ## 1-D -/

structure OneDCfg where
  supported : List Nat                  -- getSupportedWriteFormats()
  defaultMargin : Int                   -- 10, UPC/EAN family: 9
  core : List Nat → Hints → Res (List Bool)   -- encodeWithHints

/-- MARGIN hint of `OneDimensionalCodeWriter.Encode`: `margin.(int)`, else `margin.(string)` through
    `strconv.Atoi` — whose `*strconv.NumError` is returned as is (an error that is not a WriterException,
    modelled as `Fault.illegalArg`) —, else an error; negative values are rejected (D13 repair) -/
def onedMargin (dflt : Int) (hints : Hints) : Res Int :=
  match (match hints .margin with
    | none => (.ok dflt : Res Int)
    | some (.int m) => .ok m
    | some (.str s) =>
      match atoi s with
      | some m => .ok m
      | none => .error .illegalArg
    | some v => .error (newWriterException [lit, v])) with
  | .error f => .error f
  | .ok m => if m < 0 then .error (newWriterException [lit, .int m]) else .ok m

/-- `OneDimensionalCodeWriter.Encode` -/
def encode1D (cfg : OneDCfg) (content : List Nat) (fmt : Nat) (width height : Int) (hints : Hints) : Res Image :=
  if content.length = 0 then .error (newWriterException [lit])
  else if width < 0 ∨ height < 0 then .error (newWriterException [lit, .int width, .int height])
  else if ¬ (cfg.supported.contains fmt = true) then .error (newWriterException [lit, .int fmt])
  else
    match onedMargin cfg.defaultMargin hints with
    | .error f => .error f
    | .ok margin =>
      match cfg.core content hints with
      | .error f => .error f
      | .ok code => render1D code width height margin

/-- head of `code128Encoder.encodeWithHints`: rune count 1..80, then
    `switch s, _ := codeSetHint.(string); s` (repaired: the assertion is checked, a non-string value is "" and
    takes the default branch: an error) -/
def code128Core (runeCount : List Nat → Nat) (inner : List Nat → Hints → Res (List Bool))
    (content : List Nat) (hints : Hints) : Res (List Bool) :=
  let length := runeCount content
  if length < 1 ∨ length > 80 then .error (newWriterException [lit, .int length])
  else
    match hints .forceCodeSet with
    | none => inner content hints
    | some (.str s) =>
      if s = [65] ∨ s = [66] ∨ s = [67] then inner content hints
      else .error (newWriterException [lit, .str s])
    | some v => .error (newWriterException [lit, v])     -- `s, _ := codeSetHint.(string)`: "" → default branch

/-- `upcAWriter.Encode`: format check, then the EAN-13 writer on "0" + contents -/
def encodeUPCA (ean13 : OneDCfg) (content : List Nat) (fmt : Nat) (width height : Int) (hints : Hints) : Res Image :=
  if fmt ≠ fmtUPC_A then .error (newWriterException [lit, .int fmt])
  else encode1D ean13 (48 :: content) fmtEAN_13 width height hints

/-! ## the nine 1-D writers as configurations (constructors `New*Writer`) -/

/-- `NewOneDimensionalCodeWriter(enc)`: default margin 10 -/
def plainWriter (fmt : Nat) (core : List Nat → Hints → Res (List Bool)) : OneDCfg := ⟨[fmt], 10, core⟩
/-- `NewUPCEANWriter(enc)`: default margin 9 -/
def upcEanWriter (fmt : Nat) (core : List Nat → Hints → Res (List Bool)) : OneDCfg := ⟨[fmt], 9, core⟩

def code39Writer := plainWriter fmtCODE_39
def code93Writer := plainWriter fmtCODE_93
def codabarWriter := plainWriter fmtCODABAR
def itfWriter := plainWriter fmtITF
def ean13Writer := upcEanWriter fmtEAN_13
def ean8Writer := upcEanWriter fmtEAN_8
def upcEWriter := upcEanWriter fmtUPC_E
def code128Writer (runeCount : List Nat → Nat) (inner : List Nat → Hints → Res (List Bool)) : OneDCfg :=
  plainWriter fmtCODE_128 (code128Core runeCount inner)
/-- `NewUPCAWriter()`: wraps `NewEAN13Writer()` -/
def upcAWriter (ean13core : List Nat → Hints → Res (List Bool)) := encodeUPCA (ean13Writer ean13core)

end Gzx.WriterFrontend
