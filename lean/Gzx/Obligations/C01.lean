/-
  C01 — per-run obligations over the tables regenerated from /repo that the QR decoder model embeds
  as constants (mode indicators, character-count widths, alphanumeric alphabet) or takes as
  parameters (VERSIONS): a table edit in /repo breaks one of these deterministically.
-/
import Gzx.Driver.QRTables
import Gzx.Proofs.QRTablesWF
import Gzx.Ref.QRPack
import Gzx.Proofs.QRCompRead
import Gzx.Proofs.QRCompGF
import Gzx.Driver.C01
namespace Gzx.Obligations.C01
open Gzx Gzx.QRDec

/-- every `NewMode(counts, bits)` of mode.go equals the model's `Mode.countTable` / `Mode.bits` -/
theorem mode_table_matches :
    QRTables.genModes.all (fun mg => modeOfGoVal mg.2 == some (mg.1.countTable, mg.1.bits)) = true := by
  decide +kernel

/-- the mode indicators are pairwise distinct and `ModeForBits` inverts `Mode.bits` -/
theorem mode_bits_roundtrip :
    QRTables.genModes.all (fun mg => modeForBits mg.1.bits == .ok mg.1) = true := by decide +kernel

/-- the model's count widths are those of ISO 18004 Table 3 (the reference packing's `countWidth`) for
    every version 1..40 — i.e. the class boundaries are 9|10 and 26|27 -/
theorem count_widths_standard :
    (List.range 41).all (fun v =>
      countBits .numeric v == .ok (QRPack.countWidth 0 v) && countBits .alphanumeric v == .ok (QRPack.countWidth 1 v) &&
      countBits .byte v == .ok (QRPack.countWidth 2 v) && countBits .kanji v == .ok (QRPack.countWidth 3 v)) = true := by
  decide +kernel

/-- ALPHANUMERIC_CHARS of the decoder equals the model's alphabet … -/
theorem alphanumeric_chars_match :
    Gen.C01Mode.ALPHANUMERIC_CHARS.asStr?.map (fun s => s.toList.map Char.toNat) = some alnumChars := by
  decide +kernel

/-- … and the encoder's alphanumericTable is its inverse (code c at byte ALPHANUMERIC_CHARS[c], -1 elsewhere) -/
theorem encoder_alphanumeric_table_inverse :
    (Gen.C01Mode.encAlphanumericTable.asIntList?.map (fun t =>
      (List.range 45).all (fun c => match alnumChars[c]? with
        | some ch => t[ch]? == some (Int.ofNat c)
        | none => false) &&
      decide ((t.filter (· ≠ -1)).length = 45))) = some true := by
  decide +kernel

/-- `ErrorCorrectionLevel_ForBits` (translated kernel) agrees with the model: bits ↦ level with those bits -/
theorem ec_for_bits_matches :
    (List.range 6).all (fun b => match ecForBits b with
      | .ok l => Gen.C01Mode.ecForBits (Int.ofNat b) == (Int.ofNat l.bits, false)
      | .error _ => (Gen.C01Mode.ecForBits (Int.ofNat b)).2 == true) = true := by decide +kernel

/-- VERSIONS keeps the structure `interleave_deinterleave` consumes -/
theorem versions_wf : wfVersions QRTables.versions = true := by decide +kernel

/-- the decoder's data masks (translated kernels of data_mask.go) agree with the model's `maskBit` on
    a 12x12 window (two periods of every mask in both directions) -/
theorem mask_kernels_match :
    (List.range 12).all (fun i => (List.range 12).all (fun j =>
      Gen.QRMask.decMask_0 i j == maskBit 0 i j && Gen.QRMask.decMask_1 i j == maskBit 1 i j &&
      Gen.QRMask.decMask_2 i j == maskBit 2 i j && Gen.QRMask.decMask_3 i j == maskBit 3 i j &&
      Gen.QRMask.decMask_4 i j == maskBit 4 i j && Gen.QRMask.decMask_5 i j == maskBit 5 i j &&
      Gen.QRMask.decMask_6 i j == maskBit 6 i j && Gen.QRMask.decMask_7 i j == maskBit 7 i j)) = true := by
  decide +kernel

/-- the tables regenerated from /repo (formatInfoDecodeLookup, VERSION_DECODE_INFO, VERSIONS) are those of
    ISO/IEC 18004 as the reference construction computes them — the table hypothesis `TablesConform T` of
    `Properties.C01.qr_roundtrip_*` and `Properties.C05.qr_tolerates_block_errors` -/
theorem tables_conform : QRComp.TablesConform QRTables.tables := by decide +kernel

/-- the executable decoder model that the `c01`/`c05` suites compare with the Go decoder uses exactly the
    tables and the Reed-Solomon decoder the theorems talk about -/
theorem driver_rs_is_rsQR : Gzx.Driver.C01.rs = QRComp.rsQR ∧ Gzx.Driver.C01.T = QRTables.tables := ⟨rfl, rfl⟩

end Gzx.Obligations.C01
