/-
  C02 per-run obligations: what the theorems of Properties/C02.lean assume about the code's data is
  re-established here from the tables and kernels regenerated from /repo's working tree (Gzx/Gen/C02DM.lean,
  Gzx/Gen/DMSymbols.lean).  A changed table entry or randomisation constant breaks one of these.
-/
import Gzx.Model.DMHighLevel
import Gzx.Gen.C02DM
import Gzx.Gen.DMSymbols
namespace Gzx.Obligations.C02
open Gzx Gzx.DMHighLevel

/-- the decoder's five character tables are the ones of ISO/IEC 16022 Annex C (for which the character
    round-trip theorems are proved) -/
theorem gen_tables_are_reference :
    decodeTables Gen.C02DM.c40Basic Gen.C02DM.c40Shift2 Gen.C02DM.textBasic Gen.C02DM.textShift2
      Gen.C02DM.textShift3 = some refTables := by decide

theorem tmod_cast (p k : Nat) : Int.tmod (149 * (p : Int)) (k : Int) = ((149 * p % k : Nat) : Int) := by
  rw [Int.tmod_eq_emod_of_nonneg (by omega)]; push_cast; rfl

/-- translated kernel `randomize253State` = model `rand253` -/
theorem gen_rand253 (p : Nat) : Gen.C02DM.randomize253State (p : Int) = (rand253 p : Int) := by
  unfold Gen.C02DM.randomize253State rand253
  have h : Int.tmod (149 * (p : Int)) 253 = ((149 * p % 253 : Nat) : Int) := tmod_cast p 253
  simp only [h]
  have hr := Nat.mod_lt (149 * p) (by decide : 0 < 253)
  generalize 149 * p % 253 = r at hr ⊢
  split <;> split <;> first | omega | (simp_all; omega)

/-- translated kernel `base256Randomize255State` = model `rand255` -/
theorem gen_rand255 (b p : Nat) : Gen.C02DM.randomize255State (b : Int) (p : Int) = (rand255 b p : Int) := by
  unfold Gen.C02DM.randomize255State rand255
  have h : Int.tmod (149 * (p : Int)) 255 = ((149 * p % 255 : Nat) : Int) := tmod_cast p 255
  simp only [h]
  have hr := Nat.mod_lt (149 * p) (by decide : 0 < 255)
  generalize 149 * p % 255 = r at hr ⊢
  split <;> split <;> first | omega | (simp_all; omega)

/-- translated kernel `unrandomize255State` = model `unrand255` (for byte values) -/
theorem gen_unrand255 (b p : Nat) (hb : b < 256) :
    Gen.C02DM.unrandomize255State (b : Int) (p : Int) = (unrand255 b p : Int) := by
  unfold Gen.C02DM.unrandomize255State unrand255
  have h : Int.tmod (149 * (p : Int)) 255 = ((149 * p % 255 : Nat) : Int) := tmod_cast p 255
  simp only [h]
  have hr := Nat.mod_lt (149 * p) (by decide : 0 < 255)
  generalize 149 * p % 255 = r at hr ⊢
  split <;> split <;> first | omega | (simp_all; omega)

/-- the symbol table decodes, has 30 entries, capacities ascend (so `lookup` returns the smallest adequate
    admissible symbol) and the largest holds 1558 codewords -/
theorem gen_symbols_wellformed :
    (match decodeSymbols Gen.DMSymbols.symbols with
     | some syms =>
       syms.length == 30 && (syms.map (·.cap)).Pairwise (· ≤ ·) && (syms.map (·.cap)).getLast? == some 1558 &&
       syms.all (fun s => s.width > 0 && s.height > 0)
     | none => false) = true := by decide

end Gzx.Obligations.C02
