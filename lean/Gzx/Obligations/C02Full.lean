/-
  C02 / wp dmenc — per-run obligation of `dm_roundtrip_real_lookahead`: the library's symbol table
  (`encoder.symbols`, regenerated from the current source) satisfies the table condition `tableOK`: capacities ascend
  in lookup order and two different capacities differ by at least two codewords.
-/
import Gzx.Proofs.DMFullAux
import Gzx.Gen.DMSymbols
namespace Gzx.Obligations.C02Full
open Gzx Gzx.DMHighLevel

theorem gen_symbols_tableOK :
    (match decodeSymbols Gen.DMSymbols.symbols with
     | some syms => tableOK syms
     | none => false) = true := by decide +kernel

end Gzx.Obligations.C02Full
