/-
  C03 — per-run obligations over the tables regenerated from /repo/oned (Gzx.Gen.C03Tables):
  every pattern table, alphabet, guard and threshold the model (`Gzx.OneD.refTables`) uses is what /repo
  holds now; writer and reader copies agree; the well-formedness facts the theorems of Properties/C03.lean
  consume (width sums, pairwise distinct patterns, alphabet sizes) hold for the regenerated data.
-/
import Gzx.Gen.C03Tables
import Gzx.Model.OneD
import Gzx.Proofs.UpceanRead
import Gzx.Proofs.OneDCodabar
namespace Gzx.Obligations.C03
open Gzx Gzx.OneD

def natList (v : GoVal) : List Nat := (v.asNatList?).getD []
def natListList (v : GoVal) : List (List Nat) := (v.asNatListList?).getD []
def bytesOfStr (v : GoVal) : List Nat := ((v.asStr?).getD "").toList.map Char.toNat
def sumN (xs : List Nat) : Nat := xs.foldr (· + ·) 0

/-! ### the regenerated tables are the reference tables the model is instantiated with -/

theorem gen_code128_is_standard :
    Gen.C03Tables.code128Patterns.asNatListList? = some refTables.code128 := by decide +kernel

theorem gen_code39_is_standard :
    Gen.C03Tables.code39Encodings.asNatList? = some refTables.code39Enc ∧
    Gen.C03Tables.code39Asterisk.asNat? = some refTables.code39Asterisk ∧
    bytesOfStr Gen.C03Tables.code39Alphabet = refTables.code39Alphabet := by decide

theorem gen_code93_is_standard :
    Gen.C03Tables.code93Encodings.asNatList? = some refTables.code93Enc ∧
    bytesOfStr Gen.C03Tables.code93Alphabet = refTables.code93Alphabet := by decide

/-- ITF: the writer table (wide = 3) is the standard's, and the reader's two copies (wide = 2, wide = 3)
    are the same narrow/wide patterns -/
theorem gen_itf_is_standard :
    Gen.C03Tables.itfWriterPatterns.asNatListList? = some refTables.itfWriter ∧
    Gen.C03Tables.itfReaderPatterns.asNatListList? = some (Ref.OneD.itfPatterns 2 ++ Ref.OneD.itfPatterns 3) ∧
    Gen.C03Tables.itfWriterStart.asNatList? = some refTables.itfStart ∧
    Gen.C03Tables.itfWriterEnd.asNatList? = some refTables.itfEnd ∧
    Gen.C03Tables.itfReaderStart.asNatList? = some refTables.itfStart ∧
    Gen.C03Tables.itfReaderEndReversed.asNatListList? = some [[1, 1, 2], refTables.itfEnd.reverse] ∧
    Gen.C03Tables.itfAllowedLengths.asNatList? = some [6, 8, 10, 12, 14] := by decide

theorem gen_codabar_is_standard :
    Gen.C03Tables.codabarEncodings.asNatList? = some refTables.codabarEnc ∧
    bytesOfStr Gen.C03Tables.codabarAlphabet = refTables.codabarAlphabet ∧
    Gen.C03Tables.codabarStartEnd.asNatList? = some [65, 66, 67, 68] ∧
    Gen.C03Tables.codabarAltStartEnd.asNatList? = some [84, 78, 42, 69] ∧
    Gen.C03Tables.codabarTenLength.asNatList? = some [47, 58, 43, 46] := by decide

theorem gen_upcean_is_standard :
    Gen.C03Tables.lPatterns.asNatListList? = some refTables.lPatterns ∧
    Gen.C03Tables.startEndPattern.asNatList? = some refTables.startEnd ∧
    Gen.C03Tables.middlePattern.asNatList? = some refTables.middle ∧
    Gen.C03Tables.endPattern.asNatList? = some refTables.upceEnd ∧
    Gen.C03Tables.upceMiddleEndPattern.asNatList? = some refTables.upceMiddleEnd ∧
    Gen.C03Tables.ean13FirstDigit.asNatList? = some refTables.firstDigit ∧
    Gen.C03Tables.upceParity.asNatListList? = some refTables.upceParity := by decide

/-- the reader's thresholds are the rationals the model compares with (12/25 and 7/10) -/
theorem gen_thresholds :
    (Gen.C03Tables.maxAvgVariance.asApp? "rat").bind (·.mapM GoVal.asInt?) = some [12, 25] ∧
    (Gen.C03Tables.maxIndividualVariance.asApp? "rat").bind (·.mapM GoVal.asInt?) = some [7, 10] := by decide

/-! ### well-formedness of the regenerated tables -/

/-- Code 128: 107 patterns, six positive widths summing to 11 (STOP: seven, 13), pairwise distinct -/
theorem gen_code128_wf :
    let T := natListList Gen.C03Tables.code128Patterns
    T.length = 107 ∧ (T.take 106).all (fun p => p.length = 6 ∧ sumN p = 11 ∧ p.all (0 < ·)) = true ∧
    (T.drop 106).all (fun p => p.length = 7 ∧ sumN p = 13 ∧ p.all (0 < ·)) = true ∧ T.Nodup := by decide +kernel

/-- Code 39: 43 encodings + asterisk pairwise distinct, 9-bit words with three wide elements; 43-character alphabet -/
theorem gen_code39_wf :
    let E := natList Gen.C03Tables.code39Encodings
    let star := (Gen.C03Tables.code39Asterisk.asNat?).getD 0
    E.length = 43 ∧ (star :: E).Nodup ∧
    (star :: E).all (fun w => w < 512 ∧ ((bitsMSB 9 w).filter id).length = 3) = true ∧
    (bytesOfStr Gen.C03Tables.code39Alphabet).Nodup ∧ (bytesOfStr Gen.C03Tables.code39Alphabet).length = 43 := by decide

/-- Code 93: 48 distinct 9-module words that start with a bar and end with a space; 48-character alphabet -/
theorem gen_code93_wf :
    let E := natList Gen.C03Tables.code93Encodings
    E.length = 48 ∧ E.Nodup ∧ E.all (fun w => 256 ≤ w ∧ w < 512 ∧ w % 2 = 0) = true ∧
    (bytesOfStr Gen.C03Tables.code93Alphabet).Nodup ∧ (bytesOfStr Gen.C03Tables.code93Alphabet).length = 48 := by decide

/-- ITF: ten distinct patterns of five positive widths (9 modules), guards positive -/
theorem gen_itf_wf :
    let W := natListList Gen.C03Tables.itfWriterPatterns
    W.length = 10 ∧ W.Nodup ∧ W.all (fun p => p.length = 5 ∧ sumN p = 9 ∧ p.all (0 < ·)) = true := by decide

/-- Codabar: twenty distinct 7-bit words, 20-character alphabet -/
theorem gen_codabar_wf :
    let E := natList Gen.C03Tables.codabarEncodings
    E.length = 20 ∧ E.Nodup ∧ E.all (· < 128) = true ∧
    (bytesOfStr Gen.C03Tables.codabarAlphabet).Nodup ∧ (bytesOfStr Gen.C03Tables.codabarAlphabet).length = 20 := by decide

/-- UPC/EAN: ten L patterns of four positive widths summing to 7; L and G (reversed L) all distinct -/
theorem gen_upcean_wf :
    let L := natListList Gen.C03Tables.lPatterns
    L.length = 10 ∧ L.all (fun p => p.length = 4 ∧ sumN p = 7 ∧ p.all (0 < ·)) = true ∧ (lAndG L).Nodup := by decide

/-- the UPC/EAN tables exactly as regenerated from /repo (everything else from `refTables`) -/
def genUpcEanTables : Tables :=
  { refTables with
    lPatterns := natListList Gen.C03Tables.lPatterns
    startEnd := natList Gen.C03Tables.startEndPattern
    middle := natList Gen.C03Tables.middlePattern
    upceEnd := natList Gen.C03Tables.endPattern
    upceMiddleEnd := natList Gen.C03Tables.upceMiddleEndPattern
    firstDigit := natList Gen.C03Tables.ean13FirstDigit
    upceParity := natListList Gen.C03Tables.upceParity }

/-- the hypothesis of `upcean_read_write` / `upcean_read_write_rendered` holds for the tables /repo has now:
    L patterns 4 positive widths summing to 7, the twenty L/G patterns pairwise distinct, guards positive with
    odd / odd / even run counts, reader's UPC-E end pattern = writer's, parity words distinct and below 64 -/
theorem gen_upcean_wf_read : WFUpcEan genUpcEanTables = true := by decide +kernel

/-- guard widths the quiet-zone hypotheses are stated with: 3 modules (start, end), 6 (UPC-E end) -/
theorem gen_upcean_guard_widths :
    OneD.sumL genUpcEanTables.startEnd = 3 ∧ OneD.sumL (endGuardOf genUpcEanTables .ean13) = 3 ∧
    OneD.sumL (endGuardOf genUpcEanTables .upce) = 6 := by decide

/-- the hypotheses of `codabar_read_write` for the table /repo has now (alphabet: `gen_codabar_is_standard`) -/
theorem gen_codabar_wf_read :
    WFCodabar { refTables with codabarEnc := natList Gen.C03Tables.codabarEncodings } = true := by decide

end Gzx.Obligations.C03
