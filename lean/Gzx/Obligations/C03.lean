import Gzx.Gen.C03Tables
import Gzx.Model.OneD
namespace Gzx.Obligations.C03
end Gzx.Obligations.C03
