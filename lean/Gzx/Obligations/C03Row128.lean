/-
  wp oned128 — per-run obligations of Properties/C03Row128.lean over the Code 128 pattern table regenerated from /repo:
  the table is well-formed for the row reader (107 rows; six positive widths, STOP seven; pairwise distinct also when cut
  to the six counted elements; every cut row 11 modules) — which makes every row the unique best match (variance 0
  against > 0 or +Inf) of its own exact multiples — and the read-back theorem instantiated with it.
-/
import Gzx.Gen.Row128Tables
import Gzx.Properties.C03Row128
namespace Gzx.Obligations.C03Row128
open Gzx Gzx.OneD Gzx.Row128

def genP128 : List (List Nat) := (Gen.Row128Tables.c128Patterns.asNatListList?).getD []

/-- the tables of /repo with the regenerated Code 128 patterns -/
def genTables : Tables := { refTables with code128 := genP128 }

theorem gen_wfRow128 : wfRow128B genP128 = true := by decide +kernel

/-- the thresholds the best-match lemmas are about: 1/4 (average) and 7/10 (individual) -/
theorem gen_thresholds128 :
    (Gen.Row128Tables.c128MaxAvg.asApp? "rat").bind (·.mapM GoVal.asInt?) = some [1, 4] ∧
    (Gen.Row128Tables.c128MaxInd.asApp? "rat").bind (·.mapM GoVal.asInt?) = some [7, 10] := by decide

/-- `code128_row_read_write` for the table /repo has now -/
theorem code128_row_read_write_gen (contents : List Nat) (mods : List Bool) (hascii : ∀ c ∈ contents, c < 128)
    (h : code128Modules genTables contents none = .ok mods) (lq s rq : Nat) (hs : 1 ≤ s) :
    ∃ out, Row128.decodeRow exactDom genP128 (paddedRow lq s rq mods) false = .ok out ∧ out.text = contents := by
  obtain ⟨out, h1, h2, _⟩ := Properties.C03Row128.code128_row_read_write genTables gen_wfRow128 contents mods hascii h lq s rq hs
  exact ⟨out, h1, h2⟩

end Gzx.Obligations.C03Row128
