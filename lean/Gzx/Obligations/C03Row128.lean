/-
  wp oned128 — per-run obligations of Properties/C03Row128.lean over the Code 128 pattern table regenerated from /repo:
  the table is well-formed for the row reader (107 rows; six positive widths, STOP seven; pairwise distinct also when cut
  to the six counted elements; every cut row 11 modules) — which makes every row the unique best match (variance 0
  against > 0 or +Inf) of its own exact multiples — and the read-back theorem instantiated with it.
-/
import Gzx.Gen.Row128Tables
import Gzx.Properties.C03Row128
namespace Gzx.Obligations.C03Row128
open Gzx Gzx.OneD Gzx.Row128

def genP128 : List (List Nat) := (Gen.Row128Tables.c128Patterns.asNatListList?).getD []

/-- the tables of /repo with the regenerated Code 128 patterns -/
def genTables : Tables := { refTables with code128 := genP128 }

theorem gen_wfRow128 : wfRow128B genP128 = true := by decide +kernel

/-- the thresholds the best-match lemmas are about: 1/4 (average) and 7/10 (individual) -/
theorem gen_thresholds128 :
    (Gen.Row128Tables.c128MaxAvg.asApp? "rat").bind (·.mapM GoVal.asInt?) = some [1, 4] ∧
    (Gen.Row128Tables.c128MaxInd.asApp? "rat").bind (·.mapM GoVal.asInt?) = some [7, 10] := by decide

/-- `code128_row_read_write` for the table /repo has now -/
theorem code128_row_read_write_gen (contents : List Nat) (mods : List Bool) (hascii : ∀ c ∈ contents, c < 128)
    (h : code128Modules genTables contents none = .ok mods) (lq s rq : Nat) (hs : 1 ≤ s) :
    ∃ out, Row128.decodeRow exactDom genP128 (paddedRow lq s rq mods) false = .ok out ∧ out.text = contents := by
  obtain ⟨out, h1, h2, _⟩ := Properties.C03Row128.code128_row_read_write genTables gen_wfRow128 contents mods hascii h lq s rq hs
  exact ⟨out, h1, h2⟩

/-! ### ITF -/

def natList (v : GoVal) : List Nat := (v.asNatList?).getD []
def natListList (v : GoVal) : List (List Nat) := (v.asNatListList?).getD []

/-- writer tables as regenerated -/
def genItfW : Tables :=
  { refTables with
    itfWriter := natListList Gen.Row128Tables.itfWriterPatterns
    itfStart := natList Gen.Row128Tables.itfWriterStart
    itfEnd := natList Gen.Row128Tables.itfWriterEnd }

/-- reader tables as regenerated -/
def genItfR : RowITF.ItfT where
  start := natList Gen.Row128Tables.itfStart
  endRev := natListList Gen.Row128Tables.itfEndReversed
  patterns := natListList Gen.Row128Tables.itfPatterns
  defaultAllowed := (Gen.Row128Tables.itfAllowedLengths.asIntList?).getD []

/-- the ITF reader's tables fit the writer's: same start pattern, reader rows 10..19 = writer patterns, twenty pairwise
    non-proportional rows of five positive widths, the writer's end pattern is accepted by the reader's first (2x)
    reversed end pattern -/
theorem gen_wfRowITF : RowITF.wfRowITFB genItfW genItfR = true := by decide +kernel

theorem gen_itf_thresholds_and_lengths :
    (Gen.Row128Tables.itfMaxAvg.asApp? "rat").bind (·.mapM GoVal.asInt?) = some [19, 50] ∧
    (Gen.Row128Tables.itfMaxInd.asApp? "rat").bind (·.mapM GoVal.asInt?) = some [1, 2] ∧
    genItfR.defaultAllowed = [6, 8, 10, 12, 14] := by decide

/-- `itf_row_read_write` for the tables /repo has now, default hint -/
theorem itf_row_read_write_gen (contents : List Nat) (hdig : CheckDigit.allDigits contents = true)
    (heven : contents.length % 2 = 0) (h6 : 6 ≤ contents.length) (hlen : contents.length ≤ 80) (lq s rq : Nat) (hs : 1 ≤ s) :
    ∃ mods out, itfModules genItfW contents = .ok mods ∧
      RowITF.decodeRow exactDom genItfR (paddedRow lq s rq mods) none = .ok out ∧ out.text = contents := by
  obtain ⟨mods, hm, hdec⟩ := Properties.C03Row128.itf_row_read_write genItfW genItfR gen_wfRowITF contents hdig heven hlen none
    (by
      simp only [Option.getD_none, gen_itf_thresholds_and_lengths.2.2]
      exact Properties.C03Row128.itf_default_lengths _ h6 heven) lq s rq hs
  exact ⟨mods, _, hm, hdec, rfl⟩

end Gzx.Obligations.C03Row128
