/-
  wp oned39 — per-run obligations of Properties/C03Row39.lean: the table hypotheses of the row-level read-back
  theorems hold for the tables regenerated from /repo/oned (Gzx.Gen.C03Tables).
-/
import Gzx.Obligations.C06Row39
import Gzx.Proofs.Row39Code93
import Gzx.Proofs.Row39Code39
import Gzx.Proofs.Row39Codabar
namespace Gzx.Obligations.C03Row39
open Gzx Gzx.OneD Gzx.Row39 Gzx.Obligations.C06Row39

/-- hypothesis of `code93_row_read_write`: 48 distinct words of three bars and three spaces in nine modules, each
    read back by `code93ToPattern` at one pixel per module; 48 distinct alphabet characters, the last one '*' -/
theorem gen_wf93row : WF93Row genRowTables = true := by decide +kernel

/-- hypothesis of `code39_row_read_write`: 43 encodings and the asterisk pairwise distinct, each nine elements with
    exactly three wide ones; 43 alphabet characters, none of them '*' -/
theorem gen_wf39row : WF39Row genRowTables = true := by decide +kernel

/-- hypothesis of `codabar_row_read_write`: twenty distinct 7-bit words, none with four wide bars or three wide
    spaces (the per-parity thresholds of `toNarrowWidePattern` need a narrow stripe of each kind), standard alphabet -/
theorem gen_wfcbrow : WFCbRow genRowTables = true := by decide +kernel

end Gzx.Obligations.C03Row39
