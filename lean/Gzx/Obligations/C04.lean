/-
  Per-run obligations of C04 over the regenerated field parameters (`Gzx.Gen.C04Fields`, emitted by the
  translator from common/reedsolomon/generic_gf.go on every run):
  * conformance: each `NewGenericGF(prim, size, base)` call carries exactly the parameters of the
    standard, i.e. builds the model's field of that name;
  * `ParamsOK`: size is a power of two, prim has that degree and constant term 1, and x has
    multiplicative order size-1 modulo prim (kernel evaluation of one (size-2)-step loop).
  With `Properties/C04.lean` (all theorems assume `FieldOK F` only) this yields the field and codec
  theorems for the six fields the code defines now.
-/
import Gzx.Gen.C04Fields
import Gzx.Proofs.GF
namespace Gzx.Obligations.C04
open Gzx Gzx.GF

/-- typed view of a `NewGenericGF(prim, size, base)` initialiser -/
def params (v : GoVal) : Option (Nat × Nat × Nat) :=
  match v.asApp? "NewGenericGF" with
  | some [p, s, b] =>
    match p.asNat?, s.asNat?, b.asNat? with
    | some p, some s, some b => some (p, s, b)
    | _, _, _ => none
  | _ => none

/-- the six call sites (and two aliases) carry the parameters of the standards -/
theorem gen_conforms :
    params Gen.C04Fields.AZTEC_DATA_12 = some (0x1069, 4096, 1) ∧
    params Gen.C04Fields.AZTEC_DATA_10 = some (0x409, 1024, 1) ∧
    params Gen.C04Fields.AZTEC_DATA_6 = some (0x43, 64, 1) ∧
    params Gen.C04Fields.AZTEC_PARAM = some (0x13, 16, 1) ∧
    params Gen.C04Fields.QR_CODE_FIELD_256 = some (0x11D, 256, 0) ∧
    params Gen.C04Fields.DATA_MATRIX_FIELD_256 = some (0x12D, 256, 1) ∧
    params Gen.C04Fields.AZTEC_DATA_8 = some (0x12D, 256, 1) ∧
    params Gen.C04Fields.MAXICODE_FIELD_64 = some (0x43, 64, 1) := by decide

/-- well-formedness of whatever parameters the code has now -/
def genOK (v : GoVal) : Bool :=
  match params v with
  | some (p, s, _) => decide (ParamsOK p s)
  | none => false

theorem gen_fieldOK_aztec12 : genOK Gen.C04Fields.AZTEC_DATA_12 = true := by decide +kernel
theorem gen_fieldOK_aztec10 : genOK Gen.C04Fields.AZTEC_DATA_10 = true := by decide +kernel
theorem gen_fieldOK_aztec6 : genOK Gen.C04Fields.AZTEC_DATA_6 = true := by decide +kernel
theorem gen_fieldOK_aztecParam : genOK Gen.C04Fields.AZTEC_PARAM = true := by decide +kernel
theorem gen_fieldOK_qr : genOK Gen.C04Fields.QR_CODE_FIELD_256 = true := by decide +kernel
theorem gen_fieldOK_dataMatrix : genOK Gen.C04Fields.DATA_MATRIX_FIELD_256 = true := by decide +kernel
theorem gen_fieldOK_aztec8 : genOK Gen.C04Fields.AZTEC_DATA_8 = true := by decide +kernel
theorem gen_fieldOK_maxicode : genOK Gen.C04Fields.MAXICODE_FIELD_64 = true := by decide +kernel

/-- the fields the code builds are the model's fields, and they are fields -/
theorem model_fields_ok :
    FieldOK aztecData12 ∧ FieldOK aztecData10 ∧ FieldOK aztecData6 ∧ FieldOK aztecParam ∧
    FieldOK qrCode256 ∧ FieldOK dataMatrix256 := by
  refine ⟨fieldOK_mk' ?_, fieldOK_mk' ?_, fieldOK_mk' ?_, fieldOK_mk' ?_, fieldOK_mk' ?_, fieldOK_mk' ?_⟩ <;>
    decide +kernel

end Gzx.Obligations.C04
