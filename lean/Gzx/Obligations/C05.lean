/-
  C05 — per-run obligations over the tables regenerated from /repo:
  the BCH look-ups keep the minimum distances that `format_tolerates_3` / `version_tolerates_3`
  consume, and VERSIONS keeps the block structure that `interleave_deinterleave` consumes.
-/
import Gzx.Driver.QRTables
import Gzx.Proofs.QRHamming
import Gzx.Proofs.QRTablesWF
import Gzx.Gen.C07Tables
import Gzx.Model.QRTablesView
namespace Gzx.Obligations.C05
open Gzx Gzx.QRDec

/-- the regenerated tables have the expected shape (no fallback to an empty table) -/
theorem tables_decoded :
    QRTables.fmt?.isSome ∧ QRTables.fmtMask?.isSome ∧ QRTables.vdi?.isSome ∧ QRTables.versions?.isSome := by
  decide +kernel

/-- formatInfoDecodeLookup: 32 entries, one per 5-bit data value, pairwise Hamming distance ≥ 7 -/
theorem format_lookup_complete : QRTables.fmt.map (·.2) = List.range 32 := by decide +kernel

theorem format_lookup_min_distance : MinDist 7 (QRTables.fmt.map (·.1)) := by decide +kernel

/-- VERSION_DECODE_INFO: 34 words (versions 7..40), pairwise Hamming distance ≥ 8 -/
theorem version_words_count : QRTables.vdi.length = 34 := by decide +kernel

theorem version_words_min_distance : MinDist 8 QRTables.vdi := by decide +kernel

/-- the words carry their version number in the upper 6 bits (so that decoding returns a version of
    the matrix' dimension) -/
theorem version_words_carry_number :
    QRTables.vdi.map (· >>> 12) = (List.range 34).map (· + 7) := by decide +kernel

/-- VERSIONS: 40 entries numbered 1..40, four levels each, short/long block structure, equal totals -/
theorem versions_wf : wfVersions QRTables.versions = true := by decide +kernel

/-- the decoder's alignment-pattern centres (version.go; they fix the function pattern around which the
    codewords are read) agree, version by version, with the encoder's own table (matrix_util.go, rows padded
    with -1): the decoder reads every codeword where the encoder put it.  A centre that differs displaces part
    of the read-out; Reed-Solomon hides that on clean symbols and spends the promised correction capacity. -/
theorem alignment_decoder_eq_encoder :
    Gen.C07Tables.POSITION_ADJUSTMENT_PATTERN_COORDINATE_TABLE.asIntListList? =
      some (QRTables.versions.map (fun v => QRTablesView.padAlign v.centers)) := by
  decide +kernel

end Gzx.Obligations.C05
