/-
  C06 — per-run obligations over the tables regenerated from /repo, and the QR decoder totality theorem
  instantiated with them:
    * VERSIONS is well-formed (40 entries numbered 1..40, four levels, short/long blocks, equal totals),
      so `Version_GetVersionForNumber` and `DataBlock_GetDataBlocks` stay inside their slices;
    * every version has room for at most `totalCodewords` codewords outside its function patterns
      (parts C06Fit1..5), so `ReadCodewords` stays inside `result`.
-/
import Gzx.Obligations.C06Fit1
import Gzx.Obligations.C06Fit2
import Gzx.Obligations.C06Fit3
import Gzx.Obligations.C06Fit4
import Gzx.Obligations.C06Fit5
import Gzx.Properties.C06
namespace Gzx.Obligations.C06
open Gzx Gzx.QRDec Gzx.Proofs.TotalQRFit Gzx.Proofs.TotalQRDec

/-- the regenerated tables have the expected shape (no fallback to an empty table) -/
theorem tables_decoded :
    QRTables.fmt?.isSome ∧ QRTables.fmtMask?.isSome ∧ QRTables.vdi?.isSome ∧ QRTables.versions?.isSome := by
  decide +kernel

theorem versions_wf : wfVersions QRTables.versions = true := by decide +kernel

theorem versions_fit : QRTables.versions.all cwFitsB = true := by
  have split5 : ∀ l : List VersionInfo, l = l.take 22 ++ ((l.drop 22).take 7 ++ (((l.drop 22).drop 7).take 5 ++
      ((((l.drop 22).drop 7).drop 5).take 4 ++ (((l.drop 22).drop 7).drop 5).drop 4))) := by
    intro l
    rw [List.take_append_drop, List.take_append_drop, List.take_append_drop, List.take_append_drop]
  rw [split5 QRTables.versions]
  simp only [List.all_append, Bool.and_eq_true]
  exact ⟨versions_fit_1, versions_fit_2, versions_fit_3, versions_fit_4, versions_fit_5⟩

/-- the hypotheses of `Properties.C06.qr_decode_total` hold for the tables the code has now -/
theorem tables_ok : wfVersions QRTables.tables.versions = true ∧ CwFits QRTables.tables :=
  ⟨versions_wf, cwFits_of_check QRTables.tables versions_fit⟩

/-- C06 for the QR decoder with the tables of /repo as they are now: every square matrix, every hint, every
    Reed-Solomon block decoder that does not panic — a result, FormatException or ChecksumException -/
theorem qr_decode_total_gen (rs : List Nat → Nat → Res (List Nat)) (hrs : ∀ cw n w, rs cw n ≠ .error (.panic w))
    (hint : ECI.Hint) (m : Matrix) :
    (∃ d, decode QRTables.tables rs hint m = .ok d) ∨ decode QRTables.tables rs hint m = .error .format ∨
      decode QRTables.tables rs hint m = .error .checksum :=
  Gzx.Properties.C06.qr_decode_total QRTables.tables versions_wf versions_fit rs hrs hint m

end Gzx.Obligations.C06
