/-
  C06 — per-run obligation, part 3 of 5 (versions 30..34 of the regenerated VERSIONS table): outside its function
  patterns the symbol has room for at most `totalCodewords` codewords, so `ReadCodewords` cannot index
  past `result` (kernel evaluation of the check `cwFitsB`, Proofs/TotalQRFit.lean).
-/
import Gzx.Driver.QRTables
import Gzx.Proofs.TotalQRFit
set_option maxRecDepth 100000
namespace Gzx.Obligations.C06
open Gzx Gzx.QRDec Gzx.Proofs.TotalQRFit
theorem versions_fit_3 : (((QRTables.versions.drop 22).drop 7).take 5).all cwFitsB = true := by decide +kernel
end Gzx.Obligations.C06
