/-
  wp oned128 — per-run obligations over the tables and constants regenerated from /repo/oned (Gzx.Gen.Row128Tables):
  the pattern tables, thresholds and code values the Code 128 / ITF row-decoder models are written with are what
  /repo holds now, the shape facts the totality theorems consume hold for them, and the totality theorems instantiated
  with the regenerated tables (exact and IEEE interpretation).
-/
import Gzx.Gen.Row128Tables
import Gzx.Properties.C06Row128
namespace Gzx.Obligations.C06Row128
open Gzx Gzx.Row128

def natList (v : GoVal) : List Nat := (v.asNatList?).getD []
def natListList (v : GoVal) : List (List Nat) := (v.asNatListList?).getD []
def intList (v : GoVal) : List Int := (v.asIntList?).getD []
def ratOf (v : GoVal) : Option (List Int) := (v.asApp? "rat").bind (·.mapM GoVal.asInt?)

/-- the Code 128 pattern table as regenerated -/
def genP128 : List (List Nat) := natListList Gen.Row128Tables.c128Patterns

/-- the ITF reader tables as regenerated -/
def genItfT : RowITF.ItfT where
  start := natList Gen.Row128Tables.itfStart
  endRev := natListList Gen.Row128Tables.itfEndReversed
  patterns := natListList Gen.Row128Tables.itfPatterns
  defaultAllowed := intList Gen.Row128Tables.itfAllowedLengths

/-- the driver's tables (the ones the correspondence suites run the model with) are the regenerated ones -/
theorem gen_code128_patterns_are_model's :
    Gen.Row128Tables.c128Patterns.asNatListList? = some OneD.refTables.code128 := by decide +kernel

theorem gen_itf_tables_are_model's :
    Gen.Row128Tables.itfPatterns.asNatListList? = some RowITF.refItfT.patterns ∧
    Gen.Row128Tables.itfStart.asNatList? = some RowITF.refItfT.start ∧
    Gen.Row128Tables.itfEndReversed.asNatListList? = some RowITF.refItfT.endRev ∧
    Gen.Row128Tables.itfAllowedLengths.asIntList? = some RowITF.refItfT.defaultAllowed := by decide

/-- thresholds: the models compare with 1/4 and 7/10 (Code 128), 19/50 and 1/2 (ITF) -/
theorem gen_thresholds :
    ratOf Gen.Row128Tables.c128MaxAvg = some [1, 4] ∧ ratOf Gen.Row128Tables.c128MaxInd = some [7, 10] ∧
    ratOf Gen.Row128Tables.itfMaxAvg = some [19, 50] ∧ ratOf Gen.Row128Tables.itfMaxInd = some [1, 2] := by decide

/-- the code values the `step` function of the model is written with -/
theorem gen_code_values :
    [Gen.Row128Tables.c128Shift, Gen.Row128Tables.c128CodeC, Gen.Row128Tables.c128CodeB, Gen.Row128Tables.c128CodeA,
     Gen.Row128Tables.c128Fnc1, Gen.Row128Tables.c128Fnc2, Gen.Row128Tables.c128Fnc3, Gen.Row128Tables.c128Fnc4A,
     Gen.Row128Tables.c128Fnc4B, Gen.Row128Tables.c128StartA, Gen.Row128Tables.c128StartB, Gen.Row128Tables.c128StartC,
     Gen.Row128Tables.c128Stop].map GoVal.asNat? =
    [98, 99, 100, 101, 102, 97, 96, 101, 100, 103, 104, 105, 106].map some := by decide

/-- shape facts of the totality theorems -/
theorem gen_table128 : table128B genP128 = true := by decide +kernel
theorem gen_tableITF : RowITF.tableITFB genItfT = true := by decide

/-- `code128_decodeRow_total` for the tables /repo has now, exact and IEEE interpretation -/
theorem code128_decodeRow_total_gen (row : List Bool) (gs1 : Bool) :
    Typed (decodeRow exactDom genP128 row gs1) ∧ Typed (decodeRow floatDom genP128 row gs1) :=
  ⟨Properties.C06Row128.code128_decodeRow_total exactDom exactDom_pmvOk genP128 (table128_of_B _ gen_table128) row gs1,
   Properties.C06Row128.code128_decodeRow_total floatDom floatDom_pmvOk genP128 (table128_of_B _ gen_table128) row gs1⟩

theorem itf_decodeRow_total_gen (row : List Bool) (allowed : Option (List Int)) :
    Typed (RowITF.decodeRow exactDom genItfT row allowed) ∧ Typed (RowITF.decodeRow floatDom genItfT row allowed) :=
  ⟨Properties.C06Row128.itf_decodeRow_total exactDom exactDom_pmvOk genItfT (RowITF.tableITF_of_B _ gen_tableITF) row allowed,
   Properties.C06Row128.itf_decodeRow_total floatDom floatDom_pmvOk genItfT (RowITF.tableITF_of_B _ gen_tableITF) row allowed⟩

end Gzx.Obligations.C06Row128
