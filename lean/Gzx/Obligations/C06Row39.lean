/-
  wp oned39 — per-run obligations of Properties/C06Row39.lean and Properties/C03Row39.lean over the data
  regenerated from /repo/oned (Gzx.Gen.C03Tables, Gzx.Gen.C03Row39): the table hypotheses of the totality theorems
  hold for the tables the readers have NOW, and the readers' constants are the ones the models hard-code.
-/
import Gzx.Gen.C03Tables
import Gzx.Gen.C03Row39
import Gzx.Obligations.C03
import Gzx.Proofs.Row39Total
namespace Gzx.Obligations.C06Row39
open Gzx Gzx.OneD Gzx.Row39 Gzx.Obligations.C03

/-- the Code 39 / Code 93 / Codabar reader tables exactly as regenerated from /repo (everything else `refTables`) -/
def genRowTables : Tables :=
  { refTables with
    code39Alphabet := bytesOfStr Gen.C03Tables.code39Alphabet
    code39Enc := natList Gen.C03Tables.code39Encodings
    code39Asterisk := (Gen.C03Tables.code39Asterisk.asNat?).getD 0
    code93Alphabet := bytesOfStr Gen.C03Tables.code93Alphabet
    code93Enc := natList Gen.C03Tables.code93Encodings
    codabarAlphabet := bytesOfStr Gen.C03Tables.codabarAlphabet
    codabarEnc := natList Gen.C03Tables.codabarEncodings }

/-- hypothesis of `code39_decodeRow_total` / `code39_decodeRow_no_panic` for the tables /repo has now -/
theorem gen_wf39 : WF39 genRowTables = true := by decide

/-- hypothesis of `code93_decodeRow_total` -/
theorem gen_wf93 : WF93 genRowTables = true := by decide

/-- hypothesis of `codabar_decodeRow_total` -/
theorem gen_wfcb : WFCbRead genRowTables = true := by decide

/-- constants the Codabar model hard-codes: start/stop set A-D, MIN_CHARACTER_LENGTH = 3, and the two float
    constants behind the cross-multiplied upper threshold `2·size·cw > 4·sw + 3` (MAX_ACCEPTABLE = 2, PADDING = 3/2) -/
theorem gen_codabar_reader_constants :
    Gen.C03Row39.codabarReaderStartEnd.asNatList? = some cbStartEnd ∧
    Gen.C03Row39.codabarMinCharacterLength.asNat? = some 3 ∧
    (Gen.C03Row39.codabarMaxAcceptable.asApp? "rat").bind (·.mapM GoVal.asInt?) = some [2, 1] ∧
    (Gen.C03Row39.codabarPadding.asApp? "rat").bind (·.mapM GoVal.asInt?) = some [3, 2] := by decide

end Gzx.Obligations.C06Row39
