/-
  wp rowsrest — per-run obligations over the tables regenerated from /repo (Gzx.Gen.C06RowsTables): the tables the
  row-decoder models of Properties/C06RowUPC, C06RSS, C03Multi, C10Row are instantiated with (`OneD.refTables`,
  `OneDRowExt.refExt`, `RSS14.refTables`) are the tables the code holds NOW, they satisfy the shape conditions the
  totality theorems assume, and the variance / ratio limits are the rationals the models use.
-/
import Gzx.Gen.C06RowsTables
import Gzx.Properties.C06RowUPC
import Gzx.Properties.C06RSS
namespace Gzx.Obligations.C06Rows
open Gzx Gzx.OneDRowExt Gzx.Proofs.OneDRowExtTotal

def countryRow? : GoVal → Option (Nat × Nat × List Nat)
  | .app _ [.int a, .int b, .str s] =>
    if a ≥ 0 ∧ b ≥ 0 then some (a.toNat, b.toNat, OneD.bytesOf s) else none
  | _ => none

def countries? (v : GoVal) : Option (List (Nat × Nat × List Nat)) := v.asList?.bind (·.mapM countryRow?)

def rat? : GoVal → Option (Int × Int)
  | .app "rat" [.int a, .int b] => some (a, b)
  | _ => none

/-- UPC/EAN pattern and parity tables of the code = the tables of the models -/
theorem gen_upcean_tables :
    Gen.C06RowsTables.lPatterns.asNatListList? = some OneD.refTables.lPatterns ∧
    Gen.C06RowsTables.startEndPattern.asNatList? = some OneD.refTables.startEnd ∧
    Gen.C06RowsTables.middlePattern.asNatList? = some OneD.refTables.middle ∧
    Gen.C06RowsTables.upceMiddleEndPattern.asNatList? = some OneD.refTables.upceMiddleEnd ∧
    Gen.C06RowsTables.ean13FirstDigit.asNatList? = some OneD.refTables.firstDigit ∧
    Gen.C06RowsTables.upceParity.asNatListList? = some OneD.refTables.upceParity := by decide

/-- add-on guard, EAN-5 parity table and the country ranges of the code = `refExt` -/
theorem gen_extension_tables :
    Gen.C06RowsTables.extensionStart.asNatList? = some refExt.extStart ∧
    Gen.C06RowsTables.ean5CheckDigit.asNatList? = some refExt.ean5Check ∧
    countries? Gen.C06RowsTables.countries = some refExt.countries := by decide

/-- the country ranges of the code are well-formed (start ≤ end ≤ 999), ascending and pairwise disjoint, so "the first
    range containing the prefix" is THE range containing it -/
def rangesAscending : List (Nat × Nat × List Nat) → Bool
  | a :: b :: rest => decide (a.1 ≤ a.2.1) && decide (a.2.1 < b.1) && rangesAscending (b :: rest)
  | [a] => decide (a.1 ≤ a.2.1) && decide (a.2.1 ≤ 999)
  | [] => true

theorem gen_country_ranges_disjoint :
    (countries? Gen.C06RowsTables.countries).map rangesAscending = some true := by decide

/-- the shape hypothesis of `upcean_decodeRow_total` / `upcean_multi_decodeRow_total` holds for these tables -/
theorem gen_tables_wfRow : wfRow OneD.refTables refExt = true := by decide

/-- MAX_AVG_VARIANCE = 0.48 and MAX_INDIVIDUAL_VARIANCE = 0.7, the limits `VarOps.exact` / `VarOps.ofFOps` use -/
theorem gen_upcean_variance_limits :
    rat? Gen.C06RowsTables.maxAvgVariance = some (12, 25) ∧ rat? Gen.C06RowsTables.maxIndividualVariance = some (7, 10) := by
  decide

/-- the RSS-14 tables of the code = `RSS14.refTables` -/
theorem gen_rss_tables :
    Gen.C06RowsTables.rssOutsideEvenTotalSubset.asIntList? = some RSS14.refTables.outsideEvenTotalSubset ∧
    Gen.C06RowsTables.rssInsideOddTotalSubset.asIntList? = some RSS14.refTables.insideOddTotalSubset ∧
    Gen.C06RowsTables.rssOutsideGsum.asIntList? = some RSS14.refTables.outsideGsum ∧
    Gen.C06RowsTables.rssInsideGsum.asIntList? = some RSS14.refTables.insideGsum ∧
    Gen.C06RowsTables.rssOutsideOddWidest.asIntList? = some RSS14.refTables.outsideOddWidest ∧
    Gen.C06RowsTables.rssInsideOddWidest.asIntList? = some RSS14.refTables.insideOddWidest ∧
    Gen.C06RowsTables.rssFinderPatterns.asNatListList? = some RSS14.refTables.finderPatterns := by decide

/-- the shape hypothesis of `rss14_decodeRow_total` holds for these tables -/
theorem gen_rss_tables_wf : Gzx.Properties.C06RSS.wfRSS RSS14.refTables = true := by decide

/-- RSS limits: average variance 0.2, individual 0.45, finder ratio between 9.5/12 and 12.5/14 -/
theorem gen_rss_limits :
    rat? Gen.C06RowsTables.rssMaxAvgVariance = some (1, 5) ∧ rat? Gen.C06RowsTables.rssMaxIndividualVariance = some (9, 20) ∧
    rat? Gen.C06RowsTables.rssMinFinderRatio = some (19, 24) ∧ rat? Gen.C06RowsTables.rssMaxFinderRatio = some (25, 28) := by
  decide

end Gzx.Obligations.C06Rows
