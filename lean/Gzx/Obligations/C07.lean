/-
  C07 — per-run obligations: the tables and small kernels regenerated from /repo's working tree
  (`Gzx.Gen.*`) equal what ISO/IEC 18004 prescribes (`Gzx.QRRef`, written from the standard).
  Every theorem here is re-checked whenever the generated files change; a transposed digit in a
  Go table breaks exactly the theorem that names the table.
-/
import Gzx.Gen.QRVersion
import Gzx.Gen.QRMask
import Gzx.Gen.C07Tables
import Gzx.Gen.C07Kernels
import Gzx.Model.QRTablesView
import Gzx.Proofs.QRKernels
set_option linter.unusedSimpArgs false
set_option maxRecDepth 100000
namespace Gzx.Obligations.C07
open Gzx Gzx.GoVal Gzx.QRRef Gzx.QRTablesView Gzx.QRKernels

/-! ### decoder tables (qrcode/decoder/version.go, format_information.go) -/

/-- `VERSIONS`: all 40 rows — version number, alignment centres (= the spacing rule), the 160
    (EC codewords per block, block groups) entries, and the total codeword count that
    `NewVersion` derives (= the count derived from the function-pattern geometry). -/
theorem versions_conform : decodeVersions Gen.QRVersion.VERSIONS = some QRRef.versions := by decide +kernel

/-- `VERSION_DECODE_INFO[i] = (i+7)<<12 | BCH(18,6)(i+7)` for versions 7..40 -/
theorem version_decode_info_conform :
    Gen.QRVersion.VERSION_DECODE_INFO.asNatList? = some ((List.range 34).map (fun i => versionWord (i + 7))) := by
  decide +kernel

/-- `formatInfoDecodeLookup[d] = {((d<<10 | BCH(15,5)(d)) xor 0x5412), d}` for all 32 data values -/
theorem format_lookup_conform :
    Gen.C07Tables.FORMAT_INFO_DECODE_LOOKUP.asNatListList? =
      some ((List.range 32).map (fun d => [formatWordOfData d, d])) := by
  decide +kernel

theorem format_mask_conform :
    Gen.C07Tables.FORMAT_INFO_MASK_QR.asNat? = some formatMask ∧
    Gen.C07Tables.TYPE_INFO_MASK_PATTERN.asNat? = some formatMask := by decide

/-- generator polynomials of the two BCH codes (annexes C and D) -/
theorem bch_polys_conform :
    Gen.C07Tables.TYPE_INFO_POLY.asNat? = some formatPoly ∧
    Gen.C07Tables.VERSION_INFO_POLY.asNat? = some versionPoly := by decide

/-- level indicators of the format information: L=01, M=00, Q=11, H=10 -/
theorem ec_level_bits_conform :
    Gen.C07Tables.ErrorCorrectionLevel_L.asNat? = some EC.L.bits ∧
    Gen.C07Tables.ErrorCorrectionLevel_M.asNat? = some EC.M.bits ∧
    Gen.C07Tables.ErrorCorrectionLevel_Q.asNat? = some EC.Q.bits ∧
    Gen.C07Tables.ErrorCorrectionLevel_H.asNat? = some EC.H.bits := by decide

/-- `ErrorCorrectionLevel_ForBits` is the identity on the two indicator bits (the level type's
    values are the indicators), and fails on anything else -/
theorem ec_level_for_bits (b : Int) :
    Gen.C07Kernels.ecLevelForBits b = if 0 ≤ b ∧ b ≤ 3 then (b, false) else (-1, true) := by
  unfold Gen.C07Kernels.ecLevelForBits
  repeat' split
  all_goals (first | rfl | (simp only [beq_iff_eq] at *; omega) | (simp only [beq_iff_eq] at *; subst_vars; rfl))

/-! ### encoder tables (qrcode/encoder/matrix_util.go, encoder.go, mask_util.go) -/

/-- the encoder's own alignment table (rows padded with -1) equals the spacing rule too -/
theorem align_encoder_conform :
    Gen.C07Tables.POSITION_ADJUSTMENT_PATTERN_COORDINATE_TABLE.asIntListList? =
      some ((List.range 40).map (fun i => padAlign (alignCentres (i + 1)))) := by
  decide +kernel

/-- format-bit coordinates around the upper-left finder, least significant bit first -/
theorem type_info_coordinates_conform :
    Gen.C07Tables.TYPE_INFO_COORDINATES.asNatListList? =
      some ((List.range 15).map (fun i => [(formatPos1 i).1, (formatPos1 i).2])) := by
  decide

/-- finder pattern bitmap = `finderDark` on the upper-left 7x7 corner -/
theorem finder_bitmap_conform :
    Gen.C07Tables.POSITION_DETECTION_PATTERN.asNatListList?.map bitmapOf =
      some ((List.range 7).map (fun y => (List.range 7).map (fun x => finderDark 1 x y))) := by
  decide

/-- alignment pattern bitmap = `alignmentDark` around the centre (18,18) of version 2 -/
theorem alignment_bitmap_conform :
    Gen.C07Tables.POSITION_ADJUSTMENT_PATTERN.asNatListList?.map bitmapOf =
      some ((List.range 5).map (fun y => (List.range 5).map (fun x => alignmentDark 2 (16 + x) (16 + y)))) := by
  decide

/-- `alphanumericTable` (96 entries) = Table 5; code points from 96 up have no value in Table 5
    (`getAlphanumericCode` returns -1 beyond the table) -/
theorem alphanumeric_table_conform :
    Gen.C07Tables.alphanumericTable.asIntList? = some ((List.range 96).map refAlnumEntry) := by
  decide

theorem alphanumeric_beyond_table (c : Nat) (h : 96 ≤ c) : alnumCode c = none := by
  unfold alnumCode
  repeat' split
  all_goals (first | rfl | omega)

/-- mode indicators and character-count widths (Tables 2 and 3) -/
theorem mode_tables_conform :
    decodeMode Gen.C07Tables.Mode_NUMERIC = some (refMode .numeric) ∧
    decodeMode Gen.C07Tables.Mode_ALPHANUMERIC = some (refMode .alnum) ∧
    decodeMode Gen.C07Tables.Mode_BYTE = some (refMode .byte) ∧
    decodeMode Gen.C07Tables.Mode_KANJI = some (refMode .kanji) ∧
    decodeMode Gen.C07Tables.Mode_TERMINATOR = some ([0, 0, 0], 0) ∧
    decodeMode Gen.C07Tables.Mode_STRUCTURED_APPEND = some ([0, 0, 0], 3) ∧
    decodeMode Gen.C07Tables.Mode_FNC1_FIRST_POSITION = some ([0, 0, 0], 5) ∧
    decodeMode Gen.C07Tables.Mode_ECI = some ([0, 0, 0], 7) ∧
    decodeMode Gen.C07Tables.Mode_FNC1_SECOND_POSITION = some ([0, 0, 0], 9) := by decide

/-- penalty weights N1..N4 (Table 11) and the number of mask patterns -/
theorem penalty_weights_conform :
    Gen.C07Tables.maskUtilN1.asNat? = some 3 ∧ Gen.C07Tables.maskUtilN2.asNat? = some 3 ∧
    Gen.C07Tables.maskUtilN3.asNat? = some 40 ∧ Gen.C07Tables.maskUtilN4.asNat? = some 10 ∧
    Gen.C07Tables.QRCode_NUM_MASK_PATERNS.asNat? = some 8 := by decide

theorem valid_mask_pattern (k : Int) :
    Gen.C07Kernels.isValidMaskPattern k = decide (0 ≤ k ∧ k < 8) := by
  unfold Gen.C07Kernels.isValidMaskPattern
  by_cases h1 : k ≥ 0 <;> by_cases h2 : k < 8 <;> simp [h1, h2]

/-! ### translated kernels: mask predicates -/

/-- the encoder's `MaskUtil_getDataMaskBit(k, x, y)` is the standard's mask condition `k` at
    column `x`, row `y`, for all naturals; no error for k < 8 -/
theorem enc_mask_formula (k x y : Nat) (hk : k < 8) :
    Gen.QRMask.getDataMaskBit k x y = (maskBit k x y, false) := by
  have hk' : k = 0 ∨ k = 1 ∨ k = 2 ∨ k = 3 ∨ k = 4 ∨ k = 5 ∨ k = 6 ∨ k = 7 := by omega
  rcases hk' with h | h | h | h | h | h | h | h <;> subst h <;>
    simp only [Gen.QRMask.getDataMaskBit, maskBit] <;>
    simp (decide := true) only [if_true, if_false, ← Int.natCast_add, ← Int.natCast_mul,
      iand_natCast_one, tmod_natCast_2, tmod_natCast_3, tmod_natCast_6, tdiv_natCast_2, tdiv_natCast_3,
      natCast_beq_zero, Bool.false_eq_true, Prod.mk.injEq, and_true] <;>
    (try (rw [Bool.eq_iff_iff]; simp only [beq_iff_eq]; generalize y * x = t; generalize y + x = s; omega))

/-- an out-of-range pattern is an error -/
theorem enc_mask_invalid (k x y : Int) (hk : k < 0 ∨ 8 ≤ k) :
    (Gen.QRMask.getDataMaskBit k x y).2 = true := by
  unfold Gen.QRMask.getDataMaskBit
  repeat' split
  all_goals (first | rfl | (simp only [beq_iff_eq] at *; omega))

/-- the decoder's eight `DataMaskValues` closures, `isMasked(i, j)` with `i` = row, `j` = column -/
def decMask (k : Nat) (i j : Int) : Bool :=
  match k with
  | 0 => Gen.QRMask.decMask_0 i j
  | 1 => Gen.QRMask.decMask_1 i j
  | 2 => Gen.QRMask.decMask_2 i j
  | 3 => Gen.QRMask.decMask_3 i j
  | 4 => Gen.QRMask.decMask_4 i j
  | 5 => Gen.QRMask.decMask_5 i j
  | 6 => Gen.QRMask.decMask_6 i j
  | 7 => Gen.QRMask.decMask_7 i j
  | _ => false

theorem dec_mask_count : Gen.QRMask.decMask_count = 8 := by decide

/-- `mask_formula_equiv`, decoder side: closure `k` applied to (row `i`, column `j`) is the standard's
    condition `k` — including the rewritings "xy mod 6 == 0", "xy mod 6 < 3",
    "(x + y + xy mod 3) mod 2 == 0" — for all naturals -/
theorem dec_mask_formula (k i j : Nat) (hk : k < 8) : decMask k i j = maskBit k j i := by
  have hk' : k = 0 ∨ k = 1 ∨ k = 2 ∨ k = 3 ∨ k = 4 ∨ k = 5 ∨ k = 6 ∨ k = 7 := by omega
  rcases hk' with h | h | h | h | h | h | h | h <;> subst h <;>
    simp only [decMask, Gen.QRMask.decMask_0, Gen.QRMask.decMask_1, Gen.QRMask.decMask_2, Gen.QRMask.decMask_3,
      Gen.QRMask.decMask_4, Gen.QRMask.decMask_5, Gen.QRMask.decMask_6, Gen.QRMask.decMask_7, maskBit] <;>
    simp (decide := true) only [if_true, if_false, ← Int.natCast_add, ← Int.natCast_mul,
      iand_natCast_one, tmod_natCast_2, tmod_natCast_3, tmod_natCast_6, tdiv_natCast_2, tdiv_natCast_3,
      natCast_beq_zero, natCast_lt_3] <;>
    (try (rw [Bool.eq_iff_iff]; simp only [beq_iff_eq, decide_eq_true_eq]; generalize i * j = t; generalize i + j = s; omega))

/-- `mask_enc_eq_dec`: what the encoder XORs onto module (column x, row y) is what the decoder
    removes there: the encoder calls `MaskUtil_getDataMaskBit(k, xx, y)`, the decoder
    `isMasked(i, j)` then `bits.Flip(j, i)` with `i` = row, `j` = column -/
theorem mask_enc_eq_dec (k x y : Nat) (hk : k < 8) :
    (Gen.QRMask.getDataMaskBit k x y).1 = decMask k y x := by
  rw [enc_mask_formula k x y hk, dec_mask_formula k y x hk]

/-! ### translated kernel: block sizes -/

theorem ring1 (Q E N R : Int) :
    (Q + (Q + E - Q)) * (N - R) + (Q + 1 + (Q + E + 1 - (Q + 1))) * R = N * Q + R + E * N := by
  grind

/-- `block_split_formula`: for a row with `n > 0` blocks of `e` EC codewords each and `D` data
    codewords (total `D + e·n`), `getNumDataBytesAndNumECBytesForBlockID(total, D, n, b)` never
    fails for `b < n` (its three "sanity checks" are identities) and returns the standard's split:
    the first `n - D mod n` blocks carry `⌊D/n⌋` data codewords, the others one more. -/
theorem block_split_formula (D e n b : Nat) (hn : 0 < n) (hb : b < n) :
    Gen.C07Kernels.blockSizes ((D + e * n : Nat) : Int) D n b =
      (((if b < n - D % n then D / n else D / n + 1 : Nat) : Int), (e : Int), false) := by
  unfold Gen.C07Kernels.blockSizes
  have h1 : Int.tmod ((D + e * n : Nat) : Int) (n : Int) = ((D % n : Nat) : Int) := by
    rw [tmod_natCast, Nat.add_mul_mod_self_right]
  have h2 : Int.tdiv ((D + e * n : Nat) : Int) (n : Int) = ((D / n : Nat) : Int) + (e : Int) := by
    rw [tdiv_natCast, Nat.add_mul_div_right _ _ hn, Int.natCast_add]
  have h3 : Int.tdiv (D : Int) (n : Int) = ((D / n : Nat) : Int) := tdiv_natCast D n
  have hD : ((D + e * n : Nat) : Int) = (n : Int) * ((D / n : Nat) : Int) + ((D % n : Nat) : Int) + (e : Int) * (n : Int) := by
    have := Nat.div_add_mod D n
    rw [← Int.natCast_mul, ← Int.natCast_mul, ← Int.natCast_add, ← Int.natCast_add, this]
  have hr : D % n < n := Nat.mod_lt _ hn
  simp only [h1, h2, h3]
  have c0 : ¬ ((b : Int) ≥ (n : Int)) := by omega
  simp only [c0, decide_false, Bool.false_eq_true, if_false]
  rw [hD, ← ring1]
  simp only [bne_self_eq_false, Bool.false_eq_true, if_false]
  have c1 : ((D / n : Nat) : Int) + (e : Int) - ((D / n : Nat) : Int) = ((D / n : Nat) : Int) + (e : Int) + 1 - (((D / n : Nat) : Int) + 1) := by omega
  have c2 : (n : Int) = (n : Int) - ((D % n : Nat) : Int) + ((D % n : Nat) : Int) := by omega
  rw [← c1, ← c2]
  simp only [bne_self_eq_false, Bool.false_eq_true, if_false]
  by_cases hlt : b < n - D % n
  · have : (b : Int) < (n : Int) - ((D % n : Nat) : Int) := by omega
    simp only [hlt, this, decide_true, if_true, Prod.mk.injEq, and_true, true_and]
    omega
  · have : ¬ (b : Int) < (n : Int) - ((D % n : Nat) : Int) := by omega
    simp only [hlt, this, decide_false, Bool.false_eq_true, if_false, Prod.mk.injEq, and_true, Int.natCast_add, Int.cast_ofNat_Int, true_and]
    omega

/-- a block id beyond the block count is refused -/
theorem block_split_refuses (T D n b : Int) (hb : b ≥ n) :
    (Gen.C07Kernels.blockSizes T D n b).2.2 = true := by
  unfold Gen.C07Kernels.blockSizes
  simp [hb]

/-- the translated function evaluated on every (version, level, block) of the standard's table
    gives the reference block lengths (2 956 blocks) -/
def blockSplitOK (v : Nat) (ec : EC) : Bool :=
  (List.range (numBlocks v ec)).all (fun b =>
    Gen.C07Kernels.blockSizes (totalCodewords v) (dataCodewords v ec) (numBlocks v ec) b ==
      ((((blockDataLengths v ec).getD b 0 : Nat) : Int), ((ecPerBlock v ec : Nat) : Int), false))

theorem block_split_all : ∀ v ∈ List.range 40, ∀ ec ∈ EC.all, blockSplitOK (v + 1) ec = true := by
  decide +kernel

end Gzx.Obligations.C07
