/-
  C08 — per-run obligations over the data and kernels REGENERATED from /repo (Gzx.Gen.*):
  the tables the library holds now equal the standard's tables, the translated kernels equal the
  standard's formulas.  Rebuilt whenever Gen changes; a table/kernel edit in /repo breaks exactly the
  theorem that names it.
-/
import Gzx.Gen.DMSymbols
import Gzx.Gen.C08DM
import Gzx.Gen.C08K
import Gzx.Ref.DM
import Gzx.Model.DMEncoder
import Gzx.Model.DMDecoder
namespace Gzx.Obligations.C08
open Gzx Gzx.GoVal

/-! ## typed views of the generated tables -/

def natOf (n : Int) : Option Nat := if n ≥ 0 then some n.toNat else none

/-- `NewSymbolInfoRS(rect, cap, err, w, h, regions, rsData, rsErr)` -/
def decodeRS (special : Bool) : List GoVal → Option DMEnc.SymbolInfo
  | [.bool r, .int cap, .int err, .int w, .int h, .int reg, .int rsd, .int rse] => do
    some { rectangular := r, dataCapacity := ← natOf cap, errorCodewords := ← natOf err,
           matrixWidth := ← natOf w, matrixHeight := ← natOf h, dataRegions := ← natOf reg,
           rsBlockData := rsd, rsBlockError := ← natOf rse, special144 := special }
  | _ => none

/-- the value of `NewDataMatrixSymbolInfo144()`: a `NewSymbolInfoRS(..)` whose two block functions are
    replaced by exactly the two 144x144 functions (translated as `Gen.C08K.sym144BlockCount/DataLength`) -/
def decode144 : GoVal → Option DMEnc.SymbolInfo
  | .app "update" [.app "NewSymbolInfoRS" args,
      .list [.list [.str "funcGetInterleavedBlockCount", .app "funcref" [.str "datamatrixSymbolInfo144_getInterleavedBlockCount"]],
             .list [.str "funcGetDataLengthForInterleavedBlock", .app "funcref" [.str "datamatrixSymbolInfo144_getDataLengthForInterleavedBlock"]]]] =>
    decodeRS true args
  | _ => none

def decodeSym (sym144 : GoVal) : GoVal → Option DMEnc.SymbolInfo
  | .app "NewSymbolInfo" [r, .int cap, .int err, w, h, reg] =>
    decodeRS false [r, .int cap, .int err, w, h, reg, .int cap, .int err]
  | .app "NewSymbolInfoRS" args => decodeRS false args
  | .app "NewDataMatrixSymbolInfo144" [] => decode144 sym144
  | _ => none

def decodeSymbols (syms sym144 : GoVal) : Option (List DMEnc.SymbolInfo) :=
  syms.asList?.bind (·.mapM (decodeSym sym144))

def decodeECB : GoVal → Option DMDec.ECB
  | .app "ECB" [.int c, .int d] => do some ⟨← natOf c, ← natOf d⟩
  | _ => none

def decodeVersion : GoVal → Option DMDec.Version
  | .app "NewVersion" [.int n, .int r, .int c, .int rr, .int rc, .app "ECBlocks" [.int ec, .list ecbs]] => do
    some { versionNumber := ← natOf n, symbolSizeRows := ← natOf r, symbolSizeColumns := ← natOf c,
           dataRegionSizeRows := ← natOf rr, dataRegionSizeColumns := ← natOf rc, ecCodewords := ← natOf ec,
           ecBlocks := ← ecbs.mapM decodeECB }
  | _ => none

def decodeVersions (v : GoVal) : Option (List DMDec.Version) := v.asList?.bind (·.mapM decodeVersion)

/-! ## tables -/

/-- encoder `symbols` = the standard's Table 7 in capacity order, entry by entry, IN ORDER
    (rectangular flag, data/error codewords, data region size, number of regions, per-block data/error,
    144x144 special functions) -/
theorem gen_symbols_eq :
    decodeSymbols Gen.DMSymbols.symbols Gen.C08DM.sym144 = some (DMRef.symbols.map DMEnc.ofSym) := by
  decide +kernel

/-- decoder `versions`: entries 1..30 = Table 7 (rows, cols, region size, blocks, data/ec per block) in the
    standard's order with version numbers 1..30; entries 31..48 = the modelled DMRE extension -/
theorem gen_versions_eq : decodeVersions Gen.C08DM.versions = some DMDec.versions := by
  decide +kernel

/-- `factorSets` = the 16 parity lengths -/
theorem gen_factorSets_eq : Gen.C08DM.factorSets.asNatList? = some DMRef.parityLengths := by
  decide +kernel

/-- `factors[k]` = coefficients of `∏_{i=1..n}(x - 2^i)` over GF(256)/0x12D for each of the 16 parity
    lengths, the product being computed here, in the kernel -/
theorem gen_factors_eq : Gen.C08DM.factors.asNatListList? = some DMRef.factorTable := by
  decide +kernel

/-- the field modulus used by `init()` -/
theorem gen_modulo_eq : Gen.C08DM.moduloValue.asNat? = some DMRef.gfPoly := by decide

/-! ## translated kernels -/

/-- `randomize253State` = the 253-state rule, for every position -/
theorem k_randomize253_eq (p : Nat) :
    Gen.C08K.randomize253State p = (DMRef.randomize253 p : Nat) := by
  unfold Gen.C08K.randomize253State DMRef.randomize253 DMRef.pseudo253
  simp only [Int.tmod_eq_emod_of_nonneg (Int.mul_nonneg (by decide : (0 : Int) ≤ 149) (Int.natCast_nonneg p))]
  split <;> simp_all <;> omega

/-- `base256Randomize255State` = the 255-state rule, for every byte and position -/
theorem k_randomize255_eq (b p : Nat) (hb : b < 256) :
    Gen.C08K.base256Randomize255State b p = (DMRef.randomize255 b p : Nat) := by
  unfold Gen.C08K.base256Randomize255State DMRef.randomize255 DMRef.pseudo255
  simp only [Int.tmod_eq_emod_of_nonneg (Int.mul_nonneg (by decide : (0 : Int) ≤ 149) (Int.natCast_nonneg p))]
  split <;> simp_all <;> omega

/-- `unrandomize255State` = the inverse 255-state rule, for every byte and position -/
theorem k_unrandomize255_eq (w p : Nat) (hw : w < 256) :
    Gen.C08K.unrandomize255State w p = (DMRef.unrandomize255 w p : Nat) := by
  unfold Gen.C08K.unrandomize255State DMRef.unrandomize255 DMRef.pseudo255
  simp only [Int.tmod_eq_emod_of_nonneg (Int.mul_nonneg (by decide : (0 : Int) ≤ 149) (Int.natCast_nonneg p))]
  have e : (149 * (p : Int)) % 255 = ((149 * p % 255 : Nat) : Int) := by omega
  have hr : 149 * p % 255 < 255 := Nat.mod_lt _ (by decide)
  rw [e]
  generalize 149 * p % 255 = r at hr ⊢
  split <;> rename_i h <;> simp only [decide_eq_true_eq, ge_iff_le, Int.not_le] at h <;> omega

/-- region-count switches = the modelled switches, for every argument -/
theorem k_hregions_eq (n : Nat) : Gen.C08K.horizontalDataRegions n = (DMEnc.hRegionsOf n : Nat) := by
  unfold Gen.C08K.horizontalDataRegions DMEnc.hRegionsOf
  simp only [beq_iff_eq, Bool.or_eq_true]
  repeat' split
  all_goals omega

theorem k_vregions_eq (n : Nat) : Gen.C08K.verticalDataRegions n = (DMEnc.vRegionsOf n : Nat) := by
  unfold Gen.C08K.verticalDataRegions DMEnc.vRegionsOf
  simp only [beq_iff_eq, Bool.or_eq_true]
  repeat' split
  all_goals omega

/-- the region switches give the standard's layout for every row of Table 7 -/
theorem k_regions_table7 :
    DMRef.table7.all (fun s => Gen.C08K.horizontalDataRegions s.regions == (s.hRegions : Int) &&
                               Gen.C08K.verticalDataRegions s.regions == (s.vRegions : Int)) = true := by
  decide +kernel

/-- the 144x144 block functions: 10 blocks, blocks 1..8 carry 156 data codewords, 9..10 carry 155 —
    the standard's round-robin deal of 1558 codewords -/
theorem k_sym144 :
    Gen.C08K.sym144BlockCount = 10 ∧
    (List.range 10).all (fun b => Gen.C08K.sym144DataLength ((b : Nat) + 1) ==
        ((DMRef.table7.getD 23 default).dataLen b : Int)) = true := by
  constructor
  · rfl
  · decide +kernel

theorem k_sym144_model (i : Nat) :
    Gen.C08K.sym144DataLength i = (if i ≤ 8 then 156 else 155 : Int) := by
  unfold Gen.C08K.sym144DataLength
  split <;> split <;> simp_all <;> omega

/-- the default block functions: `dataCapacity / rsBlockData` and `rsBlockData` -/
theorem k_default_blocks (cap rs i : Int) :
    Gen.C08K.defaultBlockCount cap rs = Int.tdiv cap rs ∧ Gen.C08K.defaultDataLength rs i = rs :=
  ⟨rfl, rfl⟩

end Gzx.Obligations.C08
