/-
  wp imgpath1d — per-run obligation of Properties/C09Image.lean over the tables regenerated from /repo/oned:
  the Code 39 asterisk word read backwards is not the asterisk word (hypothesis `revStar39` of
  `oned_upside_down_reads_code39`).  The other table hypotheses of Properties/C03Image.lean / C09Image.lean
  (`wfRow128B`, `wfRowITFB`, `WF39Row`, `WF93Row`, `WFCbRow`, `WFUpcEan`, `wfRow`) are the obligations of
  Obligations/C03Row128.lean, C03Row39.lean, C03.lean and C06Rows.lean.
-/
import Gzx.Obligations.C06Row39
import Gzx.Proofs.Image1DRev39
namespace Gzx.Obligations.C09Image
open Gzx

theorem gen_revStar39 : Image1DRev39.revStar39 Obligations.C06Row39.genRowTables = true := by decide

end Gzx.Obligations.C09Image
