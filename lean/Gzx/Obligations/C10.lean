import Gzx.Gen.C10Tables
import Gzx.Ref.UPCEAN
namespace Gzx.Obligations.C10
end Gzx.Obligations.C10
