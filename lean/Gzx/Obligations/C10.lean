/-
  C10 — per-run obligations over the tables regenerated from /repo/oned (Gzx.Gen.C10Tables):
  the parity tables the theorems of Properties/C10.lean are parametric in are well-formed (pairwise
  distinct, right shape) and equal to the standards' tables typed independently in Gzx.Ref.UPCEAN.
-/
import Gzx.Gen.C10Tables
import Gzx.Ref.UPCEAN
import Gzx.Properties.C10
namespace Gzx.Obligations.C10
open Gzx Gzx.CheckDigit Gzx.Properties.C10

def natList (v : GoVal) : List Nat := (v.asNatList?).getD []
def natListList (v : GoVal) : List (List Nat) := (v.asNatListList?).getD []
def strOf (v : GoVal) : String := (v.asStr?).getD ""

/-- `upce_NUMSYS_AND_CHECK_DIGIT_PATTERNS` is the standard's table (E=1; number system 1 = complement) -/
theorem gen_upce_parity_is_standard :
    Gen.C10Tables.upceParity.asNatListList? = some Ref.UPCEAN.upceParity := by decide

/-- … and satisfies the hypothesis of `upce_parity_bijective`: 2×10 entries, all twenty distinct -/
theorem gen_upce_parity_wf : WFParity2 (natListList Gen.C10Tables.upceParity) = true := by decide

/-- `ean13Reader_FIRST_DIGIT_ENCODINGS` is the standard's table -/
theorem gen_ean13_parity_is_standard :
    Gen.C10Tables.ean13FirstDigit.asNatList? = some Ref.UPCEAN.ean13FirstDigit := by decide

theorem gen_ean13_parity_wf : WFParity (natList Gen.C10Tables.ean13FirstDigit) = true := by decide

/-- `checkDigitEncodings` (EAN-5 add-on) is the standard's table -/
theorem gen_ean5_parity_is_standard :
    Gen.C10Tables.ean5CheckDigit.asNatList? = some Ref.UPCEAN.ean5CheckDigit := by decide

theorem gen_ean5_parity_wf : WFParity (natList Gen.C10Tables.ean5CheckDigit) = true := by decide

/-- `UPCEANReader_L_PATTERNS` are the run widths of number set A of ISO/IEC 15420 -/
theorem gen_l_patterns_are_standard :
    Gen.C10Tables.lPatterns.asNatListList? = some Ref.UPCEAN.lPatterns := by decide

/-- the 20 L and G patterns (G = reversed L, built by `init()`) are pairwise distinct: a digit and its
    parity can be told apart -/
theorem gen_l_and_g_distinct :
    let l := natListList Gen.C10Tables.lPatterns
    (l ++ l.map List.reverse).Nodup ∧ l.length = 10 := by decide

/-- the Code 93 alphabet (check characters are compared as characters): 48 distinct characters, '*' last -/
theorem gen_code93_alphabet :
    (strOf Gen.C10Tables.code93Alphabet).toList.Nodup ∧ (strOf Gen.C10Tables.code93Alphabet).length = 48 ∧
    (strOf Gen.C10Tables.code93Alphabet).toList.getLast? = some '*' := by decide

/-- the Code 39 alphabet: 43 distinct characters (mod-43 check character) -/
theorem gen_code39_alphabet :
    (strOf Gen.C10Tables.code39Alphabet).toList.Nodup ∧ (strOf Gen.C10Tables.code39Alphabet).length = 43 := by decide

end Gzx.Obligations.C10
