/-
  C11 per-run obligations over the regenerated Go data (Gzx.Gen.C11Aztec):
  the decoder's five code tables, classified exactly as getEncodedData classifies their strings,
  equal the reference tables typed from ISO/IEC 24778; the detector's EXPECTED_CORNER_BITS equal
  the orientation constants implied by the standard's orientation marks.
-/
import Gzx.Gen.C11Aztec
import Gzx.Proofs.AztecLink
namespace Gzx.Obligations.C11
open Gzx Gzx.AztecLink

/-- UPPER/LOWER/MIXED/PUNCT/DIGIT_TABLE of aztec/decoder/decoder.go = the standard's code tables -/
theorem tables_eq_ref :
    tablesOfGen Gen.C11Aztec.UPPER_TABLE Gen.C11Aztec.LOWER_TABLE Gen.C11Aztec.MIXED_TABLE
      Gen.C11Aztec.PUNCT_TABLE Gen.C11Aztec.DIGIT_TABLE = some refTables := by decide

/-- EXPECTED_CORNER_BITS of aztec/detector/detector.go = orientation marks of the standard in the
    detector's reading order -/
theorem corner_bits_eq_ref :
    Gen.C11Aztec.EXPECTED_CORNER_BITS.asNatList? = some refExpectedCornerBits := by decide

end Gzx.Obligations.C11
