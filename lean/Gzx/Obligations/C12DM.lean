/-
  C12 / wp dmenc — per-run obligation: the symbol table the theorems of Properties/C12DM.lean are stated over
  (`DMWriterCore.hlSyms` = the standard's table in the library's lookup order, as the high-level encoder sees it) IS
  the library's `encoder.symbols` as regenerated from the current source.
  (The ECC side — `DMEnc.symbols`, `parityLengths`, `factorTable` — is `Obligations.C08.gen_symbols_eq`,
  `gen_factorSets_eq`, `gen_factors_eq`.)
-/
import Gzx.Model.DMWriterCore
import Gzx.Gen.DMSymbols
namespace Gzx.Obligations.C12DM
open Gzx

theorem gen_symbols_hl : DMHighLevel.decodeSymbols Gen.DMSymbols.symbols = some DMWriterCore.hlSyms := by
  decide +kernel

end Gzx.Obligations.C12DM
