/-
  C13 — per-run obligations: the tables regenerated from /repo's working tree satisfy the decidable
  hypotheses of the C13 theorems (well-formedness, monotone capacities, count-indicator guard,
  capacity order of the Data Matrix symbol table) and give the published capacity figures.
-/
import Gzx.Gen.QRVersion
import Gzx.Gen.C07Tables
import Gzx.Gen.DMSymbols
import Gzx.Model.QRTablesView
import Gzx.Ref.DMSizes
import Gzx.Properties.C13
set_option maxRecDepth 100000
namespace Gzx.Obligations.C13
open Gzx Gzx.GoVal Gzx.QRRef Gzx.QRTablesView Gzx.QRVersionChoice Gzx.Properties.C13

/-- the library's `VERSIONS` and the four data modes' `characterCountBitsForVersions`, as regenerated -/
def genTables : QRTables :=
  { versions := (decodeVersions Gen.QRVersion.VERSIONS).getD []
    counts := fun m =>
      ((match m with
        | .numeric => decodeMode Gen.C07Tables.Mode_NUMERIC
        | .alnum => decodeMode Gen.C07Tables.Mode_ALPHANUMERIC
        | .byte => decodeMode Gen.C07Tables.Mode_BYTE
        | .kanji => decodeMode Gen.C07Tables.Mode_KANJI).map (fun (p : List Nat × Nat) => p.1)).getD [] }

/-- 40 rows numbered 1..40 with four EC block lists each; three count widths per mode:
    no table access of the version decision can go out of range -/
theorem gen_wf : wfB genTables = true := by decide +kernel

/-- `Mono Gen.qr`: capacities strictly increase with the version at every level; count widths grow
    with the version class, by at most 8 bits in total -/
theorem gen_mono : monoB genTables = true := by decide +kernel

/-- for every (mode, version, level): `2^width` characters do not fit -/
theorem gen_guard : guardB genTables = true := by decide +kernel

/-- `qr_capacity_figures`: the capacities that follow from the library's tables are the published
    ones (ISO/IEC 18004 Table 7): 40-L 7089/4296/2953/1817, 40-M 5596/3391/2331/1435,
    40-Q 3993/2420/1663/1024, 40-H 3057/1852/1273/784, 1-L 41/25/17/10, … -/
theorem qr_capacity_figures :
    Mode.all.map (capacity genTables .L · 40) = [7089, 4296, 2953, 1817] ∧
    Mode.all.map (capacity genTables .M · 40) = [5596, 3391, 2331, 1435] ∧
    Mode.all.map (capacity genTables .Q · 40) = [3993, 2420, 1663, 1024] ∧
    Mode.all.map (capacity genTables .H · 40) = [3057, 1852, 1273, 784] ∧
    Mode.all.map (capacity genTables .L · 1) = [41, 25, 17, 10] ∧
    Mode.all.map (capacity genTables .H · 1) = [17, 10, 7, 4] ∧
    Mode.all.map (capacity genTables .M · 10) = [513, 311, 213, 131] ∧
    Mode.all.map (capacity genTables .Q · 27) = [1933, 1172, 805, 496] := by
  decide +kernel

/-- every one of the 640 capacities equals the one of the standard's tables -/
theorem qr_capacities_all :
    ∀ m ∈ Mode.all, ∀ ec ∈ EC.all, ∀ i ∈ List.range 40,
      capacity genTables ec m (i + 1) = capacity refTables ec m (i + 1) := by
  decide +kernel

/-- the property for the tables the code has now: the recommended version is the smallest fitting one -/
theorem gen_recommend_is_min (ec : EC) (m : Mode) (hdr data : Nat) :
    recommendVersion genTables ec m hdr data =
      match minFit genTables ec m hdr data with
      | some v => .ok (rowOf genTables v)
      | none => .error .writer :=
  recommend_is_min genTables gen_wf gen_mono ec m hdr data

/-! ### Data Matrix symbol table -/

def genSymbols : List SymbolInfo := (decodeSymbols Gen.DMSymbols.symbols).getD []

theorem gen_symbols_decoded : (decodeSymbols Gen.DMSymbols.symbols).isSome = true := by decide +kernel

/-- `Gen.symbols` order: capacities never decrease along the table (so first fit = smallest fit) -/
theorem gen_symbols_sorted : sortedB genSymbols = true := by decide +kernel

/-- `dm_max_1558`: no symbol holds more than 1558 codewords, and 144x144 does -/
theorem gen_symbols_max :
    genSymbols.all (fun s => decide (s.dataCapacity ≤ 1558)) = true ∧
    lookupLoop 1558 .none none none genSymbols =
      some { rectangular := false, dataCapacity := 1558, errorCodewords := 620, matrixWidth := 22, matrixHeight := 22,
             dataRegions := 36, rsBlockData := -1, rsBlockError := 62 } := by decide +kernel

/-- the 30 rows are the 30 ECC 200 symbols of ISO/IEC 16022 in capacity order (square first on
    equal capacity): shape, symbol width and height, data and error codewords -/
theorem gen_symbols_conform :
    genSymbols.map (fun s => ({ rectangular := s.rectangular, width := symbolWidth s, height := symbolHeight s,
                                dataCapacity := s.dataCapacity, errorCodewords := s.errorCodewords } : DMSizesRef.Size)) =
      DMSizesRef.byCapacity := by decide +kernel

/-- beyond 1558 codewords every lookup over the current table is empty -/
theorem gen_dm_max_1558 (n : Nat) (hn : 1558 < n) (shape : Shape) (minSize maxSize : Option (Nat × Nat)) :
    lookupLoop n shape minSize maxSize genSymbols = none :=
  dm_max genSymbols 1558 gen_symbols_max.1 n hn shape minSize maxSize

end Gzx.Obligations.C13
