/-
  C15 — per-run obligations over the ECI registry regenerated from common/character_set_eci.go.
-/
import Gzx.Driver.QRTables
namespace Gzx.Obligations.C15
open Gzx Gzx.ECI

/-- every `newCharsetECI(...)` call still has the shape the typed view expects -/
theorem registry_decoded : QRTables.registry?.isSome = true := by decide +kernel

/-- `registry_consistent` of Properties/C15 for the registry the code has now: every value, name, alias
    and IANA name resolves to its own entry; primary values < 128; every charset has an IANA name -/
theorem registry_consistent : consistent QRTables.registry = true := by decide +kernel

/-- values and names of different entries are pairwise disjoint (structural double check) -/
theorem registry_disjoint : disjointPairs QRTables.registry = true := by decide +kernel

/-- 22 entries (a removed or added registration changes this number and must be reviewed) -/
theorem registry_size : QRTables.registry.length = 22 := by decide +kernel

end Gzx.Obligations.C15
