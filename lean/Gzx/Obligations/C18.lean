/-
  C18 — per-run, kernel-checked obligations over the effect summary regenerated from the Go working tree
  (`Gzx.Gen.C18Effects`, written by harness/cmd/c18effects in step 1 of bin/check) against the reviewed lists
  (`Gzx.Ref.C18Allowed`, committed; proved equal to the corpus text files of this run).

  What breaks what:
    a new run-time write of a package-level variable            → `shared_writes_allowed`
    package state stored into an instance                       → `escapes_allowed`
    a field of a shared object written after construction
      (tables built lazily on first use, scratch in a singleton)→ `shared_type_writes_allowed`
    a sync.Once / Mutex / atomic appears                        → `sync_uses_allowed`
    the library starts a goroutine / uses a channel             → `go_stmts_allowed` / `chan_ops_allowed`
    an instance field becomes state carried between calls       → `instance_writes_allowed`
    a corpus text file edited without regenerating Ref          → `ref_*_eq_corpus`
  and with them the instantiated LINK theorems `library_*` at the end of this file.
-/
import Gzx.Gen.C18Effects
import Gzx.Ref.C18Allowed
import Gzx.Proofs.EffectSummary
import Gzx.Properties.C18Link
namespace Gzx.Obligations.C18
open Gzx Gzx.Interference Gzx.EffectSummary Gzx.EffectLink
open Gzx.Properties

/-! ### the generated module is well-formed (sorted by code, no duplicates) and non-trivial -/

theorem gen_lists_sorted :
    sortedCodes Gen.C18Effects.vars = true ∧ sortedCodes Gen.C18Effects.functions = true ∧
    sortedPairs Gen.C18Effects.sharedWrites = true ∧ sortedPairs Gen.C18Effects.escapes = true ∧
    sortedPairs Gen.C18Effects.sharedTypeWrites = true ∧ sortedCodes Gen.C18Effects.instanceWrites = true := by
  decide +kernel

/-- the scan saw the library (guards against an empty summary passing every check below) -/
theorem gen_nonempty : 50 ≤ Gen.C18Effects.vars.length ∧ 500 ≤ Gen.C18Effects.functions.length := by
  decide +kernel

/-- init-time functions are functions, run-time written variables are variables -/
theorem gen_consistent :
    subCodes Gen.C18Effects.initFunctions Gen.C18Effects.functions = true ∧
    subCodes Gen.C18Effects.runtimeWrittenVars Gen.C18Effects.vars = true ∧
    (Gen.C18Effects.sharedWrites.map (·.2)).all
      (fun v => Gen.C18Effects.runtimeWrittenVars.any (fun w => Nat.beq v w)) = true := by
  decide +kernel

/-! ### one source of truth: the committed reviewed lists equal the corpus text files of this run -/

theorem ref_shared_writes_eq_corpus : Ref.C18Allowed.sharedWrites = Gen.C18Effects.corpusSharedWrites :=
  eqPairs_sound _ _ (by decide +kernel)
theorem ref_escapes_eq_corpus : Ref.C18Allowed.escapes = Gen.C18Effects.corpusEscapes :=
  eqPairs_sound _ _ (by decide +kernel)
theorem ref_shared_type_writes_eq_corpus : Ref.C18Allowed.sharedTypeWrites = Gen.C18Effects.corpusSharedTypeWrites :=
  eqPairs_sound _ _ (by decide +kernel)
theorem ref_sync_uses_eq_corpus : Ref.C18Allowed.syncUses = Gen.C18Effects.corpusSyncUses :=
  eqPairs_sound _ _ (by decide +kernel)
theorem ref_go_stmts_eq_corpus : Ref.C18Allowed.goStmts = Gen.C18Effects.corpusGoStmts :=
  eqCodes_sound _ _ (by decide +kernel)
theorem ref_chan_ops_eq_corpus : Ref.C18Allowed.chanOps = Gen.C18Effects.corpusChanOps :=
  eqCodes_sound _ _ (by decide +kernel)
theorem ref_instance_writes_eq_corpus : Ref.C18Allowed.instanceWrites = Gen.C18Effects.corpusInstanceWrites :=
  eqCodes_sound _ _ (by decide +kernel)

/-! ### every effect found in the working tree is a reviewed one -/

/-- the premise of non-interference, on the code: every function (outside init-time code) that may write a
    package-level variable or something reachable from it is a reviewed exception -/
theorem shared_writes_allowed : ∀ w ∈ Gen.C18Effects.sharedWrites, w ∈ Ref.C18Allowed.sharedWrites :=
  subPairs_sound _ _ (by decide +kernel)

/-- no function stores a reference into package-level state into an object (instances would share it) -/
theorem escapes_allowed : ∀ w ∈ Gen.C18Effects.escapes, w ∈ Ref.C18Allowed.escapes :=
  subPairs_sound _ _ (by decide +kernel)

/-- no field of a type of which a shared instance exists is written after construction (lazy tables inside a
    `GenericGF` held in a package variable, scratch buffers inside the process-wide grid sampler, ...) -/
theorem shared_type_writes_allowed : ∀ w ∈ Gen.C18Effects.sharedTypeWrites, w ∈ Ref.C18Allowed.sharedTypeWrites :=
  subPairs_sound _ _ (by decide +kernel)

/-- no synchronisation objects: the library has no lazily initialised or locked state to reason about -/
theorem sync_uses_allowed : ∀ w ∈ Gen.C18Effects.syncUses, w ∈ Ref.C18Allowed.syncUses :=
  subPairs_sound _ _ (by decide +kernel)

theorem go_stmts_allowed : ∀ w ∈ Gen.C18Effects.goStmts, w ∈ Ref.C18Allowed.goStmts :=
  subCodes_sound _ _ (by decide +kernel)

theorem chan_ops_allowed : ∀ w ∈ Gen.C18Effects.chanOps, w ∈ Ref.C18Allowed.chanOps :=
  subCodes_sound _ _ (by decide +kernel)

/-- statelessness premise of all properties: the instance fields written after construction are the reviewed
    ones (containers, per-call parsers/detectors, scratch reset by every call, two lazily built delegates) -/
theorem instance_writes_allowed : ∀ w ∈ Gen.C18Effects.instanceWrites, w ∈ Ref.C18Allowed.instanceWrites :=
  subCodes_sound _ _ (by decide +kernel)

/-- TODAY the library has no first-use initialisation at all: no sync object and no field of a shared object written
    after construction, so the plain machine (no `once` steps) is the right model and `LazySafe`
    (Model/LazyInit.lean, Properties/C18Lazy.lean) has nothing to check.  When a reviewed entry is added to
    corpus/C18/allowed-sync-uses.txt or allowed-shared-type-writes.txt this theorem stops holding ON PURPOSE: it has to
    be replaced by the `LazySafe` argument for that entry. -/
theorem no_first_use_initialisation :
    Gen.C18Effects.syncUses = [] ∧ Gen.C18Effects.sharedTypeWrites = [] :=
  ⟨subPairs_nil (xs := Gen.C18Effects.syncUses) (by decide +kernel),
   subPairs_nil (xs := Gen.C18Effects.sharedTypeWrites) (by decide +kernel)⟩

/-- every variable that is not init-only is the target of a reviewed write -/
theorem runtime_written_vars_reviewed :
    ∀ v ∈ Gen.C18Effects.runtimeWrittenVars, v ∈ Ref.C18Allowed.sharedWrites.map (·.2) := by
  intro v hv
  have h1 : ∀ x ∈ Gen.C18Effects.runtimeWrittenVars, x ∈ Gen.C18Effects.sharedWrites.map (·.2) := by
    have : Gen.C18Effects.runtimeWrittenVars.all
        (fun x => (Gen.C18Effects.sharedWrites.map (·.2)).any (fun y => Nat.beq x y)) = true := by decide +kernel
    intro x hx
    have hx' := List.all_eq_true.mp this x hx
    obtain ⟨y, hy, e⟩ := List.any_eq_true.mp hx'
    rw [nat_beq_eq e]; exact hy
  obtain ⟨w, hw, e⟩ := List.mem_map.mp (h1 v hv)
  exact List.mem_map.mpr ⟨w, shared_writes_allowed w hw, e⟩

/-! ### the instantiated LINK: the abstract machine over THIS working tree's summary -/

/-- the effect summary of the working tree: location `i` = package-level variable `vars[i]` -/
def libSummary : Summary :=
  ⟨Gen.C18Effects.vars, Gen.C18Effects.sharedWrites, Gen.C18Effects.escapes, Gen.C18Effects.sharedTypeWrites⟩

/-- the reviewed exceptions -/
def reviewed : Summary :=
  ⟨[], Ref.C18Allowed.sharedWrites, Ref.C18Allowed.escapes, Ref.C18Allowed.sharedTypeWrites⟩

theorem library_covered : Covered libSummary reviewed :=
  ⟨shared_writes_allowed, escapes_allowed, shared_type_writes_allowed⟩

/-- For the library AS IT IS IN THE WORKING TREE: any number of goroutines running programs drawn from the
    summarised functions (scanner sound for them, reviewed exceptions not executed, own instances only) compute,
    under every interleaving, exactly what each computes alone. -/
theorem library_noninterference (prog : Gid → List TStep) (owner : Loc → Gid)
    (hsound : ∀ g t, t ∈ prog g → SoundFor libSummary t) (hexcl : ∀ g t, t ∈ prog g → Excluded reviewed t)
    (hown : ∀ g s, s ∈ erase prog g → ∀ loc, s.accesses loc → ¬ libSummary.Shared loc → owner loc = g)
    (P0 : Gid → PStore) (G0 : GStore) (sched : List Gid) (g : Gid) :
    (run (erase prog) sched (init P0 G0)).P g
      = (alone (erase prog g) (P0 g) G0 ((run (erase prog) sched (init P0 G0)).pc g)).1 :=
  C18Link.summarised_noninterference libSummary reviewed library_covered prog owner hsound hexcl hown P0 G0 sched g

/-- ... their results equal the results of the sequential execution ... -/
theorem library_results_eq_sequential (prog : Gid → List TStep) (owner : Loc → Gid)
    (hsound : ∀ g t, t ∈ prog g → SoundFor libSummary t) (hexcl : ∀ g t, t ∈ prog g → Excluded reviewed t)
    (hown : ∀ g s, s ∈ erase prog g → ∀ loc, s.accesses loc → ¬ libSummary.Shared loc → owner loc = g)
    (P0 : Gid → PStore) (G0 : GStore) (sched gs : List Gid)
    (hcomp : C18.Complete (erase prog) sched) (hgs : ∀ g, g ∈ gs ∨ erase prog g = []) :
    (run (erase prog) sched (init P0 G0)).P = (run (erase prog) (sequential (erase prog) gs) (init P0 G0)).P :=
  C18Link.summarised_results_eq_sequential libSummary reviewed library_covered prog owner hsound hexcl hown P0 G0 sched gs hcomp hgs

/-- ... every package-level variable keeps its init-time value ... -/
theorem library_shared_unchanged (prog : Gid → List TStep) (owner : Loc → Gid)
    (hsound : ∀ g t, t ∈ prog g → SoundFor libSummary t) (hexcl : ∀ g t, t ∈ prog g → Excluded reviewed t)
    (hown : ∀ g s, s ∈ erase prog g → ∀ loc, s.accesses loc → ¬ libSummary.Shared loc → owner loc = g)
    (P0 : Gid → PStore) (G0 : GStore) (sched : List Gid) (loc : Loc) (h : loc < Gen.C18Effects.vars.length) :
    (run (erase prog) sched (init P0 G0)).G loc = G0 loc :=
  C18Link.summarised_shared_unchanged libSummary reviewed library_covered prog owner hsound hexcl hown P0 G0 sched loc h

/-- ... and no two steps of different goroutines conflict (data-race freedom). -/
theorem library_no_conflict (prog : Gid → List TStep) (owner : Loc → Gid)
    (hsound : ∀ g t, t ∈ prog g → SoundFor libSummary t) (hexcl : ∀ g t, t ∈ prog g → Excluded reviewed t)
    (hown : ∀ g s, s ∈ erase prog g → ∀ loc, s.accesses loc → ¬ libSummary.Shared loc → owner loc = g)
    (g1 g2 : Gid) (hne : g1 ≠ g2) (s1 s2 : Step) (h1 : s1 ∈ erase prog g1) (h2 : s2 ∈ erase prog g2) (loc : Loc)
    (a1 : s1.accesses loc) (a2 : s2.accesses loc) : ¬ (s1.writes loc ∨ s2.writes loc) :=
  C18Link.summarised_no_conflict libSummary reviewed library_covered prog owner hsound hexcl hown g1 g2 hne s1 s2 h1 h2 loc a1 a2

/-- non-vacuity on the real summary: the empty system and a system of readers of package-level variable 0
    satisfy the hypotheses -/
example : ∀ g t, t ∈ (fun (_ : Gid) => ([⟨0, .direct, .read 0 0⟩] : List TStep)) g → SoundFor libSummary t := by
  intro g t ht loc v hw
  rcases List.mem_singleton.mp ht with rfl
  cases hw

end Gzx.Obligations.C18
