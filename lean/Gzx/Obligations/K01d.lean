/-
  K01d — the QR decoder regenerated from qrcode/decoder/*.go on every run (`Gzx.Gen.K01d`, translator kind `funcq`,
  translator/ext_k01dec.go) and proved equal to the hand-written model `Model/QRDecoder.lean`, the model that carries
  C01's round-trip theorems, C05's tolerance theorems and C06's totality theorems.

  This file: format_information.go (`FormatInformation_NumBitsDiffering`, `newFormatInformation`,
  `doDecodeFormatInformation`, `FormatInformation_DecodeFormatInformation`), `ErrorCorrectionLevel_ForBits`, `ModeForBits`.
  A `*FormatInformation` is `Option (ecLevel code × mask)`; `encFI` is that view of the model's `(EC × Nat)`.
  The look-up table inside the regenerated loop is tied to the table the model theorems are instantiated with
  (`QRTables.fmt`, regenerated through the `table` kind) by `k_formatTable_eq`.
-/
import Gzx.Gen.K01d
import Gzx.KernelGuard
import Gzx.Proofs.GoMTie
import Gzx.Driver.QRTables
namespace Gzx.Obligations.K01d
open Gzx Gzx.GoM Gzx.GoVal Gzx.QRDec

/-! ### helpers -/

theorem popc_eq_popCount : ∀ (k n : Nat), popc k n = QRDec.popCount k n
  | 0, _ => rfl
  | k + 1, n => by simp [popc, QRDec.popCount, popc_eq_popCount k]

/-- rows of a two-column table as the translator inlines them -/
def fmtRows (T : List (Nat × Nat)) : List (List Int) := T.map fun p => [(p.1 : Int), (p.2 : Int)]

/-- a counted loop that reads row `i` of a table first: recursion over the rows -/
def foldRows {σ ρ : Type} (g : List Int → Int → σ → Ctl σ ρ) : List (List Int) → Int → σ → Ctl σ ρ
  | [], _, st => .next st
  | r :: rs, k, st =>
    match g r k st with
    | .next st' => foldRows g rs (k + 1) st'
    | .brk st' => .brk st'
    | .ret x => .ret x
    | .panic f => .panic f

theorem idxRow_drop (rows : List (List Int)) (k : Nat) (r : List Int) (rest : List (List Int))
    (h : rows.drop k = r :: rest) : idxRow rows (k : Int) = .ok r := by
  have hk : k < rows.length := by
    rcases Nat.lt_or_ge k rows.length with h1 | h1
    · exact h1
    · rw [List.drop_eq_nil_of_le h1] at h; cases h
  have : rows[k]? = some r := by
    rw [← List.head?_drop, h]; rfl
  unfold idxRow
  have h0 : ¬ ((k : Int) < 0) := by omega
  simp [h0, this]

theorem loop_rows {σ ρ : Type} (rows : List (List Int)) (g : List Int → Int → σ → Ctl σ ρ) (body : Int → σ → Ctl σ ρ)
    (hb : ∀ i st, body i st = tryC (idxRow rows i) fun r => g r i st) :
    ∀ (rest : List (List Int)) (k : Nat) (st : σ), rows.drop k = rest →
      loop body 1 rest.length (k : Int) st = foldRows g rest (k : Int) st := by
  intro rest
  induction rest with
  | nil => intro k st _; rfl
  | cons r rs ih =>
    intro k st h
    have hd : rows.drop (k + 1) = rs := by
      rw [← List.drop_drop, h]; rfl
    simp only [List.length_cons, loop_succ, hb, idxRow_drop rows k r rs h, tryC_ok, foldRows]
    have e : ((k : Int) + 1) = ((k + 1 : Nat) : Int) := by omega
    cases g r (k : Int) st with
    | next st' => simp only [e]; exact ih (k + 1) st' hd
    | brk _ => rfl
    | ret _ => rfl
    | panic _ => rfl

/-! ### FormatInformation_NumBitsDiffering, ErrorCorrectionLevel_ForBits, ModeForBits -/

when_kernel Gzx.Gen.K01d.numBitsDiffering in
/-- `FormatInformation_NumBitsDiffering(a, b)` = the model's `numBitsDiffering` (one bits of `a ^ b`, 64-bit operands) -/
theorem k_numBitsDiffering_eq (a b : Nat) :
    Gen.K01d.numBitsDiffering (a : Int) (b : Int) = .ok ((QRDec.numBitsDiffering a b : Nat) : Int) := by
  simp [Gen.K01d.numBitsDiffering, QRDec.numBitsDiffering, onesCount64, ixor_natCast, popc_eq_popCount]

/-- the Go value of an error-correction level (`ErrorCorrectionLevel_L = 1, _M = 0, _Q = 3, _H = 2`) -/
def ecCode (ec : EC) : Int := (ec.bits : Nat)

when_kernel Gzx.Gen.K01d.ecForBits in
/-- `ErrorCorrectionLevel_ForBits(bits)` = the model's `ecForBits` for every `bits` (`(-1, error)` beyond 3) -/
theorem k_ecForBits_eq (b : Nat) :
    Gen.K01d.ecForBits (b : Int) =
      .ok (match QRDec.ecForBits b with | .ok ec => (ecCode ec, false) | .error _ => (-1, true)) := by
  match b with
  | 0 => rfl
  | 1 => rfl
  | 2 => rfl
  | 3 => rfl
  | n + 4 =>
    simp [Gen.K01d.ecForBits, QRDec.ecForBits]
    repeat' split
    all_goals first | rfl | omega

when_kernel Gzx.Gen.K01d.modeForBits in
/-- `ModeForBits(bits)` fails exactly where the model's `modeForBits` does (the `*Mode` object itself is a table row,
    tied by `Obligations/C01`) -/
theorem k_modeForBits_eq (b : Nat) :
    Gen.K01d.modeForBits (b : Int) = .ok (match QRDec.modeForBits b with | .ok _ => false | .error _ => true) := by
  match b with
  | 0 => rfl | 1 => rfl | 2 => rfl | 3 => rfl | 4 => rfl | 5 => rfl | 6 => rfl | 7 => rfl | 8 => rfl | 9 => rfl
  | 10 => rfl | 11 => rfl | 12 => rfl | 13 => rfl
  | n + 14 =>
    simp [Gen.K01d.modeForBits, QRDec.modeForBits]
    repeat' split
    all_goals first | rfl | omega

/-! ### newFormatInformation -/

/-- a `*FormatInformation` of the regenerated code for the model's format information -/
def encFI (f : EC × Nat) : Int × Int := (ecCode f.1, (f.2 : Nat))

/-- the format information of the 5 data bits `d` (`newFormatInformation`, which cannot fail: two bits select the level) -/
def fiOfData (d : Nat) : Int × Int :=
  (match (d >>> 3) &&& 3 with | 0 => 0 | 1 => 1 | 2 => 2 | _ => 3, ((d &&& 7 : Nat) : Int))

theorem and3_lt (x : Nat) : x &&& 3 < 4 := by
  have := Nat.and_two_pow_sub_one_eq_mod x 2
  simp at this; omega

theorem and7_lt (x : Nat) : x &&& 7 < 8 := by
  have := Nat.and_two_pow_sub_one_eq_mod x 3
  simp at this; omega

when_kernel Gzx.Gen.K01d.newFormatInformation in
theorem k_newFormatInformation_eq (d : Nat) : Gen.K01d.newFormatInformation (d : Int) = .ok (some (fiOfData d)) := by
  have h7 := and7_lt d
  have h3 := and3_lt (d >>> 3)
  have e8 : wrap 8 ((d &&& 7 : Nat) : Int) = ((d &&& 7 : Nat) : Int) := wrap_of_lt 8 _ (by omega) (by omega)
  have s1 : ishr (d : Int) 3 = ((d >>> 3 : Nat) : Int) := ishr_natCast d 3
  have s2 : iand ((d >>> 3 : Nat) : Int) 3 = ((d >>> 3 &&& 3 : Nat) : Int) := iand_natCast (d >>> 3) 3
  have s3 : iand (d : Int) 7 = ((d &&& 7 : Nat) : Int) := iand_natCast d 7
  simp only [Gen.K01d.newFormatInformation, s1, s2, s3, fiOfData]
  have hk := k_ecForBits_eq (d >>> 3 &&& 3)
  generalize (d >>> 3 &&& 3) = k at *
  rw [hk]
  match k, h3 with
  | 0, _ => simp [QRDec.ecForBits, ecCode, EC.bits, e8]
  | 1, _ => simp [QRDec.ecForBits, ecCode, EC.bits, e8]
  | 2, _ => simp [QRDec.ecForBits, ecCode, EC.bits, e8]
  | 3, _ => simp [QRDec.ecForBits, ecCode, EC.bits, e8]
  | n + 4, h => omega

/-- the model's `formatInfoOf` never fails and is `fiOfData` -/
theorem formatInfoOf_eq (d : Nat) : (QRDec.formatInfoOf d).map encFI = .ok (fiOfData d) := by
  have h3 := and3_lt (d >>> 3)
  unfold QRDec.formatInfoOf fiOfData
  generalize (d >>> 3 &&& 3) = k at *
  match k, h3 with
  | 0, _ => rfl
  | 1, _ => rfl
  | 2, _ => rfl
  | 3, _ => rfl
  | n + 4, h => omega

/-! ### doDecodeFormatInformation -/

when_kernel Gzx.Gen.K01d.tbl_formatInfoDecodeLookup in
/-- the regenerated look-up table is the table the model is instantiated with (`QRTables.fmt`, kind `table`) -/
theorem k_formatTable_eq : Gen.K01d.tbl_formatInfoDecodeLookup = fmtRows QRTables.fmt := by decide +kernel

/-- the scan of `doDecodeFormatInformation` with its two exits: an exact hit (`inl data`) or the best candidate -/
def fmtScan (m1 m2 : Nat) : List (Nat × Nat) → Nat → Nat → Sum Nat (Nat × Nat)
  | [], best, info => .inr (best, info)
  | (t, d) :: rest, best, info =>
    if t = m1 ∨ t = m2 then .inl d
    else
      let s1 : Nat × Nat := if QRDec.numBitsDiffering m1 t < best then (QRDec.numBitsDiffering m1 t, d) else (best, info)
      let s2 : Nat × Nat :=
        if m1 ≠ m2 then (if QRDec.numBitsDiffering m2 t < s1.1 then (QRDec.numBitsDiffering m2 t, d) else s1) else s1
      fmtScan m1 m2 rest s2.1 s2.2

/-- the model's `fmtLoop` is the scan followed by the `≤ 3` test -/
theorem fmtLoop_eq_scan (m1 m2 : Nat) : ∀ (T : List (Nat × Nat)) (best info : Nat),
    QRDec.fmtLoop m1 m2 T best info =
      match fmtScan m1 m2 T best info with
      | .inl d => some d
      | .inr (b, i) => if b ≤ 3 then some i else none := by
  intro T
  induction T with
  | nil => intro best info; rfl
  | cons p rest ih =>
    intro best info
    obtain ⟨t, d⟩ := p
    by_cases hc : t = m1 ∨ t = m2
    · simp [QRDec.fmtLoop, fmtScan, hc]
    · by_cases h2 : m1 = m2
      · subst h2
        have ht : ¬ t = m1 := fun h => hc (Or.inl h)
        by_cases h1 : QRDec.numBitsDiffering m1 t < best <;> simp [QRDec.fmtLoop, fmtScan, ht, h1, ih]
      · by_cases h1 : QRDec.numBitsDiffering m1 t < best <;>
          by_cases h3 : QRDec.numBitsDiffering m2 t < QRDec.numBitsDiffering m1 t <;>
          by_cases h4 : QRDec.numBitsDiffering m2 t < best <;>
          simp [QRDec.fmtLoop, fmtScan, hc, h1, h2, h3, h4, ih]

/-- what the regenerated loop must leave for a result of the scan -/
def expScan : Sum Nat (Nat × Nat) → Ctl (Int × Int) (Option (Int × Int))
  | .inl d => .ret (some (fiOfData d))
  | .inr (b, i) => .next ((b : Int), (i : Int))

when_kernel Gzx.Gen.K01d.doDecodeFormatInformation in
/-- the loop of `doDecodeFormatInformation` over the regenerated table = the scan: same exact-hit exit, same candidates -/
theorem k_doDecodeFormatInformation_scan (m1 m2 : Nat) :
    ∀ (rest : List (Nat × Nat)) (k best info : Nat), QRTables.fmt.drop k = rest →
      loop (Gen.K01d.doDecodeFormatInformation_body1 (m1 : Int) (m2 : Int)) 1 rest.length (k : Int) ((best : Int), (info : Int)) =
        expScan (fmtScan m1 m2 rest best info) := by
  intro rest
  induction rest with
  | nil => intro k best info _; rfl
  | cons p rest ih =>
    intro k best info h
    obtain ⟨t, d⟩ := p
    have hd : QRTables.fmt.drop (k + 1) = rest := by rw [← List.drop_drop, h]; rfl
    have hrow : idxRow (fmtRows QRTables.fmt) (k : Int) = .ok [(t : Int), (d : Int)] :=
      idxRow_drop _ k _ (fmtRows rest) (by simp [fmtRows, ← List.map_drop, h])
    have i0 : idx [(t : Int), (d : Int)] 0 = .ok (t : Int) := rfl
    have i1 : idx [(t : Int), (d : Int)] 1 = .ok (d : Int) := rfl
    have e : ((k : Int) + 1) = ((k + 1 : Nat) : Int) := by omega
    rw [List.length_cons, loop_succ]
    simp only [Gen.K01d.doDecodeFormatInformation_body1, k_formatTable_eq, hrow, tryC_ok, i0, i1,
      k_numBitsDiffering_eq, k_newFormatInformation_eq, fmtScan]
    by_cases hc : t = m1 ∨ t = m2
    · have hb : (((t : Int) == (m1 : Int)) || ((t : Int) == (m2 : Int))) = true := by
        rcases hc with hc | hc <;> simp [hc]
      simp [hb, hc, expScan]
    · have hb : (((t : Int) == (m1 : Int)) || ((t : Int) == (m2 : Int))) = false := by
        have : ¬ t = m1 ∧ ¬ t = m2 := by simpa [not_or] using hc
        have a1 : ¬ ((t : Int) = (m1 : Int)) := by omega
        have a2 : ¬ ((t : Int) = (m2 : Int)) := by omega
        simp [a1, a2]
      simp only [hb, hc, if_false, Bool.false_eq_true]
      by_cases h2 : m1 = m2
      · subst h2
        by_cases h1 : QRDec.numBitsDiffering m1 t < best <;>
          simp [h1] <;> rw [e] <;> exact ih (k + 1) _ _ hd
      · have h2' : ¬ ((m1 : Int) = (m2 : Int)) := by omega
        by_cases h1 : QRDec.numBitsDiffering m1 t < best <;>
          by_cases h3 : QRDec.numBitsDiffering m2 t < QRDec.numBitsDiffering m1 t <;>
          by_cases h4 : QRDec.numBitsDiffering m2 t < best <;>
          simp [h1, h2, h2', h3, h4] <;> rw [e] <;> exact ih (k + 1) _ _ hd

when_kernel Gzx.Gen.K01d.doDecodeFormatInformation in
/-- `doDecodeFormatInformation(m1, m2)` = the model's `doDecodeFormat` on the regenerated table, for ALL words -/
theorem k_doDecodeFormatInformation_eq (m1 m2 : Nat) :
    Gen.K01d.doDecodeFormatInformation (m1 : Int) (m2 : Int) =
      .ok ((QRDec.doDecodeFormat QRTables.fmt m1 m2).map fiOfData) := by
  have hlen : QRTables.fmt.length = 32 := by decide +kernel
  have hs := k_doDecodeFormatInformation_scan m1 m2 QRTables.fmt 0 QRDec.maxInt32 0 rfl
  rw [hlen] at hs
  simp only [Gen.K01d.doDecodeFormatInformation, QRDec.doDecodeFormat, fmtLoop_eq_scan]
  have e0 : ((0 : Nat) : Int) = 0 := rfl
  have e1 : ((QRDec.maxInt32 : Nat) : Int) = 2147483647 := rfl
  rw [e0, e1] at hs
  rw [hs]
  cases hr : fmtScan m1 m2 QRTables.fmt QRDec.maxInt32 0 with
  | inl d => simp [expScan]
  | inr bi =>
    obtain ⟨b, i⟩ := bi
    by_cases hb : b ≤ 3
    · have : ((b : Int) ≤ 3) := by omega
      simp [expScan, hb, this, k_newFormatInformation_eq]
    · have : ¬ ((b : Int) ≤ 3) := by omega
      simp [expScan, hb, this]

when_kernel Gzx.Gen.K01d.decodeFormatInformation in
/-- `FormatInformation_DecodeFormatInformation(m1, m2)` = the model's `decodeFormat` on the regenerated table and mask,
    for ALL words: second attempt with the mask removed, level and data mask of the decoded five bits -/
theorem k_decodeFormatInformation_eq (m1 m2 : Nat) :
    Gen.K01d.decodeFormatInformation (m1 : Int) (m2 : Int) =
      (QRDec.decodeFormat QRTables.fmt QRTables.fmtMask m1 m2).map (Option.map encFI) := by
  have hm : QRTables.fmtMask = 21522 := by decide +kernel
  have x1 : ixor (m1 : Int) 21522 = ((m1 ^^^ 21522 : Nat) : Int) := ixor_natCast m1 21522
  have x2 : ixor (m2 : Int) 21522 = ((m2 ^^^ 21522 : Nat) : Int) := ixor_natCast m2 21522
  simp only [Gen.K01d.decodeFormatInformation, k_doDecodeFormatInformation_eq, tryR_ok, x1, x2,
    QRDec.decodeFormat, QRDec.decodeFormatData, hm]
  cases h1 : QRDec.doDecodeFormat QRTables.fmt m1 m2 with
  | some d =>
    have := formatInfoOf_eq d
    cases hf : QRDec.formatInfoOf d with
    | error e => rw [hf] at this; cases this
    | ok f => rw [hf] at this; simp [Except.map] at this; simp [hf, ← this, Except.map, bind, Except.bind]
  | none =>
    simp only [Option.map_none, Option.isNone_none, Bool.not_true, Bool.false_eq_true, if_false]
    cases h2 : QRDec.doDecodeFormat QRTables.fmt (m1 ^^^ 21522) (m2 ^^^ 21522) with
    | some d =>
      have := formatInfoOf_eq d
      cases hf : QRDec.formatInfoOf d with
      | error e => rw [hf] at this; cases this
      | ok f => rw [hf] at this; simp [Except.map] at this; simp [hf, ← this, Except.map, bind, Except.bind]
    | none => rfl

end Gzx.Obligations.K01d
