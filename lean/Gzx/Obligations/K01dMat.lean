/-
  K01d (bit_matrix_parser.go, version.go) — kernels that work on a `*gozxing.BitMatrix`.  The matrix is an ABSTRACT type `M`
  with operations `ops : MatOps M` in the regenerated code (lean/Gzx/GoMK01.lean); the theorems hold for EVERY `ops` whose
  `get` agrees with the model matrix under an abstraction function (`GetLaw`), i.e. through the tied `BitMatrix.Get`
  (`Obligations/K16b.lean: k_matrixGet_eq` proves that law for the regenerated Go method on the word model).

  * `copyBit` for all arguments;
  * `buildFunctionPattern`: instantiated with the symbolic matrix `regOps` (a matrix is the list of `SetRegion` calls made on
    it) the regenerated function issues, for every version of the regenerated table, exactly the regions of the model's
    `buildFunctionPattern`, in the same order, and no call is rejected (`k_buildFunctionPattern_regions`, per-run, kernel
    evaluation).  The statement for an arbitrary `Version` value (not from the table) is not proved (`_partial` below).
-/
import Gzx.Obligations.K01d
namespace Gzx.Obligations.K01d
open Gzx Gzx.GoM Gzx.GoVal Gzx.QRDec

/-- `ops.get` reads the model matrix `abs m` -/
def GetLaw {M : Type} (ops : MatOps M) (abs : M → Matrix) : Prop :=
  ∀ (m : M) (x y : Nat), (abs m).get x y = .ok (ops.get m (x : Int) (y : Int))

theorem shl1_or1 (a : Nat) : (a <<< 1 ||| 1) = 2 * a + 1 := by
  rw [← Nat.shiftLeft_add_eq_or_of_lt (by decide : 1 < 2 ^ 1), Nat.shiftLeft_eq]; omega

when_kernel Gzx.Gen.K01d.copyBit in
/-- `copyBit(i, j, versionBits)` = the model's `copyBit` (mirrored read, shift, or) for every lawful matrix -/
theorem k_copyBit_eq {M : Type} (ops : MatOps M) (abs : M → Matrix) (law : GetLaw ops abs)
    (m : M) (mirror : Bool) (i j acc : Nat) :
    Gen.K01d.copyBit ops m mirror (i : Int) (j : Int) (acc : Int) =
      (QRDec.copyBit (abs m) mirror acc (i, j)).map Int.ofNat := by
  have s1 : ishl (acc : Int) 1 = ((acc <<< 1 : Nat) : Int) := ishl_natCast acc 1
  have s2 : ior ((acc <<< 1 : Nat) : Int) 1 = ((acc <<< 1 ||| 1 : Nat) : Int) := ior_natCast (acc <<< 1) 1
  have s3 : acc <<< 1 = 2 * acc := by rw [Nat.shiftLeft_eq]; omega
  cases mirror with
  | true =>
    simp only [Gen.K01d.copyBit, QRDec.copyBit, if_true, law m j i, s1, s2, shl1_or1]
    cases ops.get m (j : Int) (i : Int) <;> simp [Except.map, bind, Except.bind, s3]
  | false =>
    simp only [Gen.K01d.copyBit, QRDec.copyBit, law m i j, s1, s2, shl1_or1]
    cases ops.get m (i : Int) (j : Int) <;> simp [Except.map, bind, Except.bind, s3]

example : GetLaw (M := Matrix)
    ⟨⟨0, fun _ _ => false⟩, fun m => m.dim, fun m => m.dim,
     fun m x y => decide (0 ≤ x ∧ 0 ≤ y ∧ x.toNat < m.dim ∧ y.toNat < m.dim) && m.bit x.toNat y.toNat,
     fun m _ _ => .ok m, fun m _ _ _ _ => .ok (m, false), fun _ => .ok (⟨0, fun _ _ => false⟩, true)⟩ id := by
  intro m x y
  by_cases h : x < m.dim ∧ y < m.dim <;> simp [Matrix.get, h] <;> omega

/-! ### buildFunctionPattern on the symbolic matrix -/

/-- a matrix as its dimension and the `SetRegion` calls made on it -/
abbrev RegM := Nat × List Region

/-- `SetRegion` as coded: rejected (error, matrix unchanged) unless the region is non-empty and inside -/
def regOps : MatOps RegM where
  nilM := (0, [])
  width m := m.1
  height m := m.1
  get m x y := decide (0 ≤ x ∧ 0 ≤ y) && m.2.any (·.has x.toNat y.toNat)
  flip m _ _ := .ok m
  setRegion m l t w h :=
    if t < 0 ∨ l < 0 ∨ h < 1 ∨ w < 1 ∨ t + h > m.1 ∨ l + w > m.1 then .ok (m, true)
    else .ok ((m.1, m.2 ++ [⟨l.toNat, t.toNat, w.toNat, h.toNat⟩]), false)
  newSquare d := if d < 1 then .ok ((0, []), true) else .ok ((d.toNat, []), false)

/-- the `SetRegion` calls of the model's `buildFunctionPattern` -/
def modelRegions (v : VersionInfo) : Option (List Region) :=
  let dim := v.dimension
  match alignmentRegions v.centers with
  | none => none
  | some al =>
    some ([⟨0, 0, 9, 9⟩, ⟨dim - 8, 0, 8, 9⟩, ⟨0, dim - 8, 9, 8⟩] ++ al ++
      [⟨6, 9, 1, dim - 17⟩, ⟨9, 6, dim - 17, 1⟩] ++
      (if v.num > 6 then [⟨dim - 11, 0, 3, 6⟩, ⟨0, dim - 11, 6, 3⟩] else []))

/-- the model's function pattern is the union of `modelRegions` when all of them are valid -/
theorem model_buildFunctionPattern_regions (v : VersionInfo) (regs : List Region) (h : modelRegions v = some regs)
    (hv : regs.all (Region.valid v.dimension) = true) :
    ∃ m, QRDec.buildFunctionPattern v = .ok m ∧ m.dim = v.dimension ∧ ∀ x y, m.bit x y = regs.any (·.has x y) := by
  unfold modelRegions at h
  unfold QRDec.buildFunctionPattern
  cases ha : alignmentRegions v.centers with
  | none => simp [ha] at h
  | some al =>
    simp only [ha, Option.some.injEq] at h
    subst h
    simp only [hv, if_true]
    exact ⟨_, rfl, rfl, fun _ _ => rfl⟩

when_kernel Gzx.Gen.K01d.buildFunctionPattern in
/-- per version of the regenerated table: the regenerated `buildFunctionPattern` makes the model's `SetRegion` calls, in
    order, none rejected -/
def bfpAgrees (v : VersionInfo) : Bool :=
  match modelRegions v with
  | none => false
  | some regs =>
    regs.all (Region.valid v.dimension) &&
    decide (Gen.K01d.buildFunctionPattern regOps (v.num : Int) (v.centers.map Int.ofNat) = .ok ((v.dimension, regs), false))

/-- non-vacuity: the table has its 40 rows -/
example : QRTables.versions.length = 40 := by decide +kernel

when_kernel Gzx.Gen.K01d.buildFunctionPattern in
theorem k_buildFunctionPattern_regions : QRTables.versions.all bfpAgrees = true := by decide +kernel

/- NOT proved (`k_buildFunctionPattern_eq_partial` would be): for an ARBITRARY version number and centre list (not a row of
   VERSIONS) and every lawful `ops`, `Gen.K01d.buildFunctionPattern ops n centers` = the model's `buildFunctionPattern`.
   Every `*Version` the decoder handles is a row of VERSIONS (`k_getVersionForNumber_eq`), which the statement above covers. -/

end Gzx.Obligations.K01d
