/-
  K01d (version.go) — `Version_GetVersionForNumber`, `Version_decodeVersionInformation`,
  `Version_GetProvisionalVersionForDimension` regenerated from /repo and proved equal to the model `Model/QRDecoder.lean`.

  A `*Version` of the regenerated code is a ROW HANDLE into the package-level table `VERSIONS` (row `i` is version `i+1`,
  nil is -1; translator/ext_k01dec.go).  `hview` is the handle of a model result: version `v` is row `v.num - 1`
  (`versions_numbered`: the regenerated table numbers its rows 1..40).
-/
import Gzx.Obligations.K01d
namespace Gzx.Obligations.K01d
open Gzx Gzx.GoM Gzx.GoVal Gzx.QRDec

/-- the regenerated table `VERSIONS` numbers its 40 rows 1..40 -/
theorem versions_numbered : QRTables.versions.map (·.num) = (List.range 40).map (· + 1) := by decide +kernel

when_kernel Gzx.Gen.K01d.tbl_VERSION_DECODE_INFO in
/-- the regenerated BCH words of the loop are the table the model is instantiated with -/
theorem k_versionWords_eq : Gen.K01d.tbl_VERSION_DECODE_INFO = QRTables.vdi.map Int.ofNat := by decide +kernel

theorem vdi_small : QRTables.vdi.all (· < 2 ^ 64) = true := by decide +kernel

/-- (handle, error) of a model result -/
def hview : Res VersionInfo → Int × Bool
  | .ok v => ((v.num : Int) - 1, false)
  | .error _ => (-1, true)

/-- `Version_GetVersionForNumber` on handles -/
def gvn (n : Int) : Int × Bool := if n < 1 ∨ n > 40 then (-1, true) else (n - 1, false)

when_kernel Gzx.Gen.K01d.getVersionForNumber in
theorem k_getVersionForNumber_gvn (n : Int) : Gen.K01d.getVersionForNumber n = .ok (gvn n) := by
  unfold Gen.K01d.getVersionForNumber gvn rowIdx
  by_cases h : n < 1 ∨ n > 40
  · have : (decide (n < 1) || decide (n > 40)) = true := by simpa using h
    simp [this, h]
  · have : (decide (n < 1) || decide (n > 40)) = false := by simpa using h
    have h1 : 1 ≤ n := by omega
    have h2 : n - 1 < 40 := by omega
    have h3 : 0 ≤ n - 1 := by omega
    simp [this, h, h1, h2, h3]

theorem model_gvn (n : Nat) : hview (QRDec.getVersionForNumber QRTables.versions n) = gvn (n : Int) := by
  unfold QRDec.getVersionForNumber gvn
  by_cases h : n < 1 ∨ n > 40
  · have h' : ((n : Int) < 1 ∨ (n : Int) > 40) := by omega
    rw [if_pos h, if_pos h']; rfl
  · have h' : ¬ ((n : Int) < 1 ∨ (n : Int) > 40) := by omega
    have hn : n - 1 < 40 := by omega
    have hm := congrArg (fun l => l[n - 1]?) versions_numbered
    simp only [List.getElem?_map, List.getElem?_range hn] at hm
    cases hv : QRTables.versions[n - 1]? with
    | none => rw [hv] at hm; cases hm
    | some v =>
      rw [hv] at hm
      have : v.num = n - 1 + 1 := by simpa using hm
      rw [if_neg h, if_neg h']
      simp only [hview]
      congr 1
      omega

when_kernel Gzx.Gen.K01d.getVersionForNumber in
/-- `Version_GetVersionForNumber(n)` = the model's `getVersionForNumber` on the regenerated table (as a row handle) -/
theorem k_getVersionForNumber_eq (n : Nat) :
    Gen.K01d.getVersionForNumber (n : Int) = .ok (hview (QRDec.getVersionForNumber QRTables.versions n)) := by
  rw [k_getVersionForNumber_gvn, model_gvn]

/-! ### Version_decodeVersionInformation -/

theorem idx_drop (xs : List Int) (k : Nat) (x : Int) (rest : List Int) (h : xs.drop k = x :: rest) :
    idx xs (k : Int) = .ok x := by
  have hk : k < xs.length := by
    rcases Nat.lt_or_ge k xs.length with h1 | h1
    · exact h1
    · rw [List.drop_eq_nil_of_le h1] at h; cases h
  have : xs[k]? = some x := by rw [← List.head?_drop, h]; rfl
  unfold idx
  have h0 : ¬ ((k : Int) < 0) := by omega
  simp [h0, this]

/-- what the regenerated loop must leave for a result of the model's `verLoop` -/
def expVer : Sum Nat (Nat × Nat) → Ctl (Int × Int) (Int × Bool)
  | .inl n => .ret (gvn (n : Int))
  | .inr (b, v) => .next ((b : Int), (v : Int))

when_kernel Gzx.Gen.K01d.decodeVersionInformation in
/-- the loop of `Version_decodeVersionInformation` = the model's `verLoop`: same exact-hit exit, same best candidate -/
theorem k_decodeVersionInformation_scan (bits : Nat) (hb : bits < 2 ^ 64) :
    ∀ (rest : List Nat) (k best bestV : Nat), QRTables.vdi.drop k = rest →
      loop (Gen.K01d.decodeVersionInformation_body1 (bits : Int)) 1 rest.length (k : Int) ((best : Int), (bestV : Int)) =
        expVer (QRDec.verLoop bits rest k best bestV) := by
  intro rest
  induction rest with
  | nil => intro k best bestV _; rfl
  | cons t rest ih =>
    intro k best bestV h
    have hd : QRTables.vdi.drop (k + 1) = rest := by rw [← List.drop_drop, h]; rfl
    have ht : t < 2 ^ 64 := by
      have hmem : t ∈ QRTables.vdi := List.mem_of_mem_drop (by rw [h]; exact List.mem_cons_self)
      have := List.all_eq_true.mp vdi_small t hmem
      simpa using this
    have hrow : idx (QRTables.vdi.map Int.ofNat) (k : Int) = .ok (t : Int) :=
      idx_drop _ k _ (rest.map Int.ofNat) (by simp [← List.map_drop, h])
    have e : ((k : Int) + 1) = ((k + 1 : Nat) : Int) := by omega
    have e7 : ((k : Int) + 7) = ((k + 7 : Nat) : Int) := by omega
    have e7' : (7 + (k : Int)) = ((k + 7 : Nat) : Int) := by omega
    have w1 : wrap 64 (bits : Int) = (bits : Int) := wrap_of_lt 64 _ (by omega) (by omega)
    have w2 : wrap 64 (t : Int) = (t : Int) := wrap_of_lt 64 _ (by omega) (by omega)
    rw [List.length_cons, loop_succ]
    simp only [Gen.K01d.decodeVersionInformation_body1, k_versionWords_eq, hrow, tryC_ok, w1, w2,
      k_numBitsDiffering_eq, k_getVersionForNumber_gvn, QRDec.verLoop]
    by_cases hc : t = bits
    · subst hc
      first
        | simp only [beq_self_eq_true, if_true, expVer, e7]
        | simp only [beq_self_eq_true, if_true, expVer, e7']
    · have a1 : ¬ ((t : Int) = (bits : Int)) := by omega
      have hb' : ((t : Int) == (bits : Int)) = false := by simp [a1]
      simp only [hb', hc, if_false, Bool.false_eq_true]
      by_cases h1 : QRDec.numBitsDiffering bits t < best
      · simp [h1]
        first
          | (rw [e, e7]; exact ih (k + 1) _ _ hd)
          | (rw [e, e7']; exact ih (k + 1) _ _ hd)
      · simp [h1]; rw [e]; exact ih (k + 1) _ _ hd

when_kernel Gzx.Gen.K01d.decodeVersionInformation in
/-- `Version_decodeVersionInformation(bits)` = the model's `decodeVersionInformation` on the regenerated tables, for every
    18-bit (indeed every 64-bit) word: exact hit, else the closest BCH word within distance 3, else an error -/
theorem k_decodeVersionInformation_eq (bits : Nat) (hb : bits < 2 ^ 64) :
    Gen.K01d.decodeVersionInformation (bits : Int) = .ok (hview (QRDec.decodeVersionInformation QRTables.tables bits)) := by
  have hlen : QRTables.vdi.length = 34 := by decide +kernel
  have hl : len (QRTables.vdi.map Int.ofNat) = 34 := by simp [len, hlen]
  have hs := k_decodeVersionInformation_scan bits hb QRTables.vdi 0 QRDec.maxInt32 0 rfl
  rw [hlen] at hs
  have e0 : ((0 : Nat) : Int) = 0 := rfl
  have e1 : ((QRDec.maxInt32 : Nat) : Int) = 2147483647 := rfl
  rw [e0, e1] at hs
  have ht : tripUp 0 34 1 = 34 := by decide
  simp only [Gen.K01d.decodeVersionInformation, QRDec.decodeVersionInformation, k_versionWords_eq, hl, ht, hs]
  have hv : QRTables.tables.vdi = QRTables.vdi := rfl
  have hvs : QRTables.tables.versions = QRTables.versions := rfl
  rw [hv, hvs]
  cases hr : QRDec.verLoop bits QRTables.vdi 0 QRDec.maxInt32 0 with
  | inl n => simp [expVer, model_gvn]
  | inr bv =>
    obtain ⟨b, v⟩ := bv
    by_cases h3 : b ≤ 3
    · have : ((b : Int) ≤ 3) := by omega
      simp [expVer, h3, this, k_getVersionForNumber_gvn, model_gvn]
    · have : ¬ ((b : Int) ≤ 3) := by omega
      simp [expVer, h3, this, hview]

example : (3 : Nat) < 2 ^ 64 := by decide

when_kernel Gzx.Gen.K01d.getProvisionalVersionForDimension in
/-- `Version_GetProvisionalVersionForDimension(d)`: an error unless `d % 4 = 1`, else version `(d-17)/4` of the table -/
theorem k_getProvisionalVersionForDimension_eq (d : Nat) :
    Gen.K01d.getProvisionalVersionForDimension (d : Int) =
      .ok (if d % 4 ≠ 1 then (-1, true) else hview (QRDec.getVersionForNumber QRTables.versions ((d - 17) / 4))) := by
  simp only [Gen.K01d.getProvisionalVersionForDimension, k_getVersionForNumber_gvn, tryR_ok, model_gvn]
  have hm : Int.tmod (d : Int) 4 = ((d % 4 : Nat) : Int) := by
    rw [Int.tmod_eq_emod_of_nonneg (by omega)]; omega
  rw [hm]
  by_cases h : d % 4 = 1
  · have hb : ((((d % 4 : Nat) : Int) != 1)) = false := by simp [h]
    simp only [hb, Bool.false_eq_true, if_false]
    rw [if_neg (by simp [h])]
    show Except.ok (gvn _) = Except.ok (gvn _)
    congr 1
    by_cases h17 : 17 ≤ d
    · congr 1
      rw [Int.tdiv_eq_ediv_of_nonneg (by omega)]; omega
    · have h2 : (d - 17) / 4 = 0 := by omega
      rw [h2]
      have h1 : Int.tdiv ((d : Int) - 17) 4 ≤ 0 := by
        rw [Int.tdiv_eq_ediv]; split <;> omega
      have : Int.tdiv ((d : Int) - 17) 4 < 1 := by omega
      simp [gvn, this]
  · have hb : ((((d % 4 : Nat) : Int) != 1)) = true := by simp; omega
    simp only [hb, if_true]
    rw [if_pos h]

end Gzx.Obligations.K01d
