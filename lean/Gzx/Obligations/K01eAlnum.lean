/-
  K01e (decoded_bit_stream_parser.go) — `toAlphaNumericChar` and `DecodedBitStreamParser_decodeAlphanumericSegment` INCLUDING the
  FNC1 rule (`%%` → `%`, a single `%` → GS 0x1D, by deleting / overwriting elements of the result slice in place), regenerated on
  every run into `Gzx.Gen.K01de`, proved equal to the bit-list model `QRDec.decodeAlnum` (`decodeAlnumRaw` + `fnc1Massage`,
  Model/QRDecoder.lean) on the bits from the cursor on — for EVERY stream, character count, prefix already in `result` and FNC1
  flag.
-/
import Gzx.Obligations.K01eNum
namespace Gzx.Obligations.K01e
open Gzx Gzx.GoM Gzx.GoVal Gzx.BitSource

/-! ### toAlphaNumericChar -/

when_kernel Gzx.Gen.K01de.toAlphaNumericChar in
/-- the regenerated table `ALPHANUMERIC_CHARS` is the model's -/
theorem k_alnumTable : Gen.K01de.tbl_ALPHANUMERIC_CHARS = bytes QRDec.alnumChars := by decide

when_kernel Gzx.Gen.K01de.toAlphaNumericChar in
/-- `toAlphaNumericChar(value)` = the model's `toAlnumChar` for every non-negative value (error flag beyond the 45 characters) -/
theorem k_toAlphaNumericChar_eq (v : Nat) :
    Gen.K01de.toAlphaNumericChar (v : Int) =
      .ok (match QRDec.toAlnumChar v with | .ok c => ((c : Int), false) | .error _ => (0, true)) := by
  unfold Gen.K01de.toAlphaNumericChar QRDec.toAlnumChar
  rw [k_alnumTable]
  have hl : len (bytes QRDec.alnumChars) = 45 := by decide
  rw [hl]
  by_cases h : v < 45
  · have h' : ¬ ((v : Int) ≥ 45) := by omega
    simp only [h', decide_false, Bool.false_eq_true, if_false]
    unfold bytes
    rw [idx_bytes]
    have : v < QRDec.alnumChars.length := h
    rw [List.getElem?_eq_getElem this]
    rfl
  · have h' : ((v : Int) ≥ 45) := by omega
    have : QRDec.alnumChars[v]? = none := List.getElem?_eq_none (by show QRDec.alnumChars.length ≤ v; have : QRDec.alnumChars.length = 45 := rfl; omega)
    simp only [h', decide_true, if_true, this]

theorem toAlnum_lt (v : Nat) (h : v < 45) : ∃ c, QRDec.toAlnumChar v = .ok c := by
  unfold QRDec.toAlnumChar
  have : v < QRDec.alnumChars.length := h
  rw [List.getElem?_eq_getElem this]
  exact ⟨_, rfl⟩

/-! ### the FNC1 loop -/

theorem len_bytes (l : List Nat) : len (bytes l) = ((l.length : Nat) : Int) := by simp [len, bytes]

theorem idx_mid (pre : List Nat) (c : Nat) (rest : List Nat) :
    idx (bytes (pre ++ c :: rest)) ((pre.length : Nat) : Int) = .ok (c : Int) := by
  unfold bytes
  rw [idx_bytes]
  simp

theorem idx_mid1 (pre : List Nat) (c d : Nat) (rest : List Nat) :
    idx (bytes (pre ++ c :: d :: rest)) (((pre.length : Nat) : Int) + 1) = .ok (d : Int) := by
  have h := idx_mid (pre ++ [c]) d rest
  have e1 : (pre ++ [c]) ++ d :: rest = pre ++ c :: d :: rest := by simp
  have e2 : (((pre ++ [c]).length : Nat) : Int) = ((pre.length : Nat) : Int) + 1 := by simp
  rw [e1, e2] at h
  exact h

theorem delAt_mid (pre : List Nat) (c : Nat) (rest : List Nat) :
    delAt (bytes (pre ++ c :: rest)) ((pre.length : Nat) : Int) = .ok (bytes (pre ++ rest)) := by
  unfold delAt
  have hl : (bytes (pre ++ c :: rest)).length = pre.length + 1 + rest.length := by simp [bytes]; omega
  rw [if_pos ⟨by omega, by rw [hl]; omega⟩, Int.toNat_natCast]
  congr 1
  have e : bytes (pre ++ c :: rest) = (bytes pre ++ [(c : Int)]) ++ bytes rest := by simp [bytes]
  have ht : (bytes (pre ++ c :: rest)).take pre.length = bytes pre := by
    rw [e, List.append_assoc, List.take_left' (by simp [bytes])]
  have hd : (bytes (pre ++ c :: rest)).drop (pre.length + 1) = bytes rest := by
    rw [e, List.drop_left' (by simp [bytes])]
  rw [ht, hd]
  simp [bytes]

theorem setIdx_mid (pre : List Nat) (c v : Nat) (rest : List Nat) :
    setIdx (bytes (pre ++ c :: rest)) ((pre.length : Nat) : Int) (v : Int) = .ok (bytes (pre ++ v :: rest)) := by
  unfold setIdx
  have hl : (bytes (pre ++ c :: rest)).length = pre.length + 1 + rest.length := by simp [bytes]; omega
  have h0 : ¬ (((pre.length : Nat) : Int) < 0) := by omega
  rw [if_neg h0, Int.toNat_natCast, if_pos (by rw [hl]; omega)]
  congr 1
  simp [bytes]

when_kernel Gzx.Gen.K01de.decodeAlphanumericSegment in
/-- the in-place FNC1 loop over `result[i:]` = the model's `fnc1Massage` of that suffix -/
theorem k_fnc1_loop : ∀ (todo pre : List Nat) (fuel : Nat), todo.length < fuel →
    whileLoop (ρ := List Int × Bool × Int × Int × List Int) Gen.K01de.decodeAlphanumericSegment_body2 fuel
        (bytes (pre ++ todo), ((pre.length : Nat) : Int)) =
      .brk (bytes (pre ++ QRDec.fnc1Massage todo), (((pre ++ QRDec.fnc1Massage todo).length : Nat) : Int)) := by
  intro todo
  induction todo using QRDec.fnc1Massage.induct with
  | case1 rest ih =>
    intro pre fuel hf
    obtain ⟨fuel, rfl⟩ : ∃ f, fuel = f + 1 := ⟨fuel - 1, by omega⟩
    have hlt : ((pre.length : Nat) : Int) < (((pre ++ 37 :: 37 :: rest).length : Nat) : Int) := by simp; omega
    have hlt1 : ((pre.length : Nat) : Int) < (((pre ++ 37 :: 37 :: rest).length : Nat) : Int) - 1 := by simp; omega
    rw [whileLoop_succ]
    simp only [Gen.K01de.decodeAlphanumericSegment_body2, len_bytes, hlt, hlt1, decide_true, if_true, idx_mid, idx_mid1, tryC_ok,
      delAt_mid, next_thenC]
    have e37 : (((37 : Nat) : Int) == 37) = true := rfl
    simp only [e37, if_true, tryC_ok, next_thenC]
    have hm : QRDec.fnc1Massage (37 :: 37 :: rest) = 37 :: QRDec.fnc1Massage rest := by simp [QRDec.fnc1Massage]
    have := ih (pre ++ [37]) fuel (by simp at hf; omega)
    have e1 : (pre ++ [37]) ++ rest = pre ++ 37 :: rest := by simp
    have e2 : (((pre ++ [37]).length : Nat) : Int) = ((pre.length : Nat) : Int) + 1 := by simp
    have e3 : (pre ++ [37]) ++ QRDec.fnc1Massage rest = pre ++ 37 :: QRDec.fnc1Massage rest := by simp
    rw [e1, e2, e3] at this
    rw [hm, this]
  | case2 rest hno ih =>
    intro pre fuel hf
    obtain ⟨fuel, rfl⟩ : ∃ f, fuel = f + 1 := ⟨fuel - 1, by omega⟩
    have hlt : ((pre.length : Nat) : Int) < (((pre ++ 37 :: rest).length : Nat) : Int) := by simp; omega
    have e37 : (((37 : Nat) : Int) == 37) = true := rfl
    have e29 : (29 : Int) = ((29 : Nat) : Int) := rfl
    have ih' := ih (pre ++ [29]) fuel (by simp at hf; omega)
    have e1 : (pre ++ [29]) ++ rest = pre ++ 29 :: rest := by simp
    have e2 : (((pre ++ [29]).length : Nat) : Int) = ((pre.length : Nat) : Int) + 1 := by simp
    have e3 : (pre ++ [29]) ++ QRDec.fnc1Massage rest = pre ++ 29 :: QRDec.fnc1Massage rest := by simp
    rw [e1, e2, e3] at ih'
    rw [whileLoop_succ]
    cases rest with
    | nil =>
      have hlt1 : ¬ (((pre.length : Nat) : Int) < (((pre ++ [37]).length : Nat) : Int) - 1) := by simp
      have hm : QRDec.fnc1Massage [37] = 29 :: QRDec.fnc1Massage [] := by simp [QRDec.fnc1Massage]
      simp only [Gen.K01de.decodeAlphanumericSegment_body2, len_bytes, hlt, hlt1, decide_true, decide_false, if_true, idx_mid,
        tryC_ok, e37, Bool.false_eq_true, if_false, e29, setIdx_mid, next_thenC]
      rw [hm, ih']
    | cons d r =>
      have hd : d ≠ 37 := fun h => hno r (by rw [h])
      have hlt1 : ((pre.length : Nat) : Int) < (((pre ++ 37 :: d :: r).length : Nat) : Int) - 1 := by simp; omega
      have ed : (((d : Nat) : Int) == 37) = false := by simp; omega
      have hm : QRDec.fnc1Massage (37 :: d :: r) = 29 :: QRDec.fnc1Massage (d :: r) := by simp [QRDec.fnc1Massage, hd]
      simp only [Gen.K01de.decodeAlphanumericSegment_body2, len_bytes, hlt, hlt1, decide_true, if_true, idx_mid, idx_mid1,
        tryC_ok, e37, ed, Bool.false_eq_true, if_false, e29, setIdx_mid, next_thenC]
      rw [hm, ih']
  | case3 c rest hc1 hc2 ih =>
    intro pre fuel hf
    obtain ⟨fuel, rfl⟩ : ∃ f, fuel = f + 1 := ⟨fuel - 1, by omega⟩
    have hlt : ((pre.length : Nat) : Int) < (((pre ++ c :: rest).length : Nat) : Int) := by simp; omega
    have hc : c ≠ 37 := fun h => hc2 h
    have ec : (((c : Nat) : Int) == 37) = false := by simp; omega
    have hm : QRDec.fnc1Massage (c :: rest) = c :: QRDec.fnc1Massage rest := by simp [QRDec.fnc1Massage, hc]
    have ih' := ih (pre ++ [c]) fuel (by simp at hf; omega)
    have e1 : (pre ++ [c]) ++ rest = pre ++ c :: rest := by simp
    have e2 : (((pre ++ [c]).length : Nat) : Int) = ((pre.length : Nat) : Int) + 1 := by simp
    have e3 : (pre ++ [c]) ++ QRDec.fnc1Massage rest = pre ++ c :: QRDec.fnc1Massage rest := by simp
    rw [e1, e2, e3] at ih'
    rw [whileLoop_succ]
    simp only [Gen.K01de.decodeAlphanumericSegment_body2, len_bytes, hlt, decide_true, if_true, idx_mid, tryC_ok, ec,
      Bool.false_eq_true, if_false, next_thenC]
    rw [hm, ih']
  | case4 =>
    intro pre fuel hf
    obtain ⟨fuel, rfl⟩ : ∃ f, fuel = f + 1 := ⟨fuel - 1, by omega⟩
    have hlt : ¬ (((pre.length : Nat) : Int) < (((pre ++ []).length : Nat) : Int)) := by simp
    rw [whileLoop_succ]
    simp only [Gen.K01de.decodeAlphanumericSegment_body2, len_bytes, hlt, decide_false, Bool.false_eq_true, if_false]
    simp [QRDec.fnc1Massage]

/-! ### the pair loop -/

/-- `k` pairs of characters -/
def alnumPairs : Nat → List Bool → List Nat → Res (List Nat × List Bool)
  | 0, bits, acc => .ok (acc, bits)
  | k + 1, bits, acc =>
    match QRDec.readBitsF 11 bits with
    | .error e => .error e
    | .ok (v, bits) =>
      match QRDec.toAlnumChar (v / 45) with
      | .error e => .error e
      | .ok c1 =>
        match QRDec.toAlnumChar (v % 45) with
        | .error e => .error e
        | .ok c2 => alnumPairs k bits (acc ++ [c1, c2])

theorem decodeAlnumRaw_split : ∀ (k count : Nat) (bits : List Bool) (acc : List Nat), count / 2 = k →
    QRDec.decodeAlnumRaw count bits acc =
      match alnumPairs k bits acc with
      | .error e => .error e
      | .ok (acc', bits') => QRDec.decodeAlnumRaw (count % 2) bits' acc' := by
  intro k
  induction k with
  | zero =>
    intro count bits acc h
    have : count % 2 = count := by omega
    simp only [alnumPairs, this]
  | succ k ih =>
    intro count bits acc h
    obtain ⟨n, rfl⟩ : ∃ n, count = n + 2 := ⟨count - 2, by omega⟩
    have hm : (n + 2) % 2 = n % 2 := by omega
    simp only [QRDec.decodeAlnumRaw, alnumPairs, bind, Except.bind, hm]
    cases QRDec.readBitsF 11 bits with
    | error e => rfl
    | ok p =>
      obtain ⟨v, bits'⟩ := p
      simp only
      cases QRDec.toAlnumChar (v / 45) with
      | error e => rfl
      | ok c1 =>
        simp only
        cases QRDec.toAlnumChar (v % 45) with
        | error e => rfl
        | ok c2 => exact ih n bits' _ (by omega)

theorem alnumPairs_length : ∀ (k : Nat) (bits : List Bool) (acc acc' : List Nat) (rest : List Bool),
    alnumPairs k bits acc = .ok (acc', rest) → acc'.length = acc.length + 2 * k := by
  intro k
  induction k with
  | zero => intro bits acc acc' rest h; simp only [alnumPairs] at h; cases h; rfl
  | succ k ih =>
    intro bits acc acc' rest h
    simp only [alnumPairs] at h
    split at h
    · cases h
    · split at h
      · cases h
      · split at h
        · cases h
        · have := ih _ _ _ _ h
          simp at this
          omega

when_kernel Gzx.Gen.K01de.decodeAlphanumericSegment in
/-- the `for count > 1` loop = `count / 2` pairs of the model (`result` = the prefix followed by the model's accumulator) -/
theorem k_alnum_loop (fb : Nat) (hfb : 5 ≤ fb) (pre : List Nat) : ∀ (k count : Nat) (s : BitSource) (acc : List Nat) (fl : Nat),
    Stream s → count / 2 = k → k < fl →
    match alnumPairs k (unread s) acc with
    | .ok (acc', rest) => ∃ s',
        whileLoop (Gen.K01de.decodeAlphanumericSegment_body1 fb (bytes s.bytes)) fl
            ((s.byteOffset : Int), (s.bitOffset : Int), bytes (pre ++ acc), (count : Int)) =
          .brk ((s'.byteOffset : Int), (s'.bitOffset : Int), bytes (pre ++ acc'), ((count % 2 : Nat) : Int)) ∧
        unread s' = rest ∧ Stream s' ∧ s'.bytes = s.bytes
    | .error _ => ∃ r a b,
        whileLoop (Gen.K01de.decodeAlphanumericSegment_body1 fb (bytes s.bytes)) fl
            ((s.byteOffset : Int), (s.bitOffset : Int), bytes (pre ++ acc), (count : Int)) = .ret (r, true, a, b, r) := by
  intro k
  induction k with
  | zero =>
    intro count s acc fl hs hk hf
    obtain ⟨fl, rfl⟩ : ∃ f, fl = f + 1 := ⟨fl - 1, by omega⟩
    have h3 : ¬ ((count : Int) > 1) := by omega
    have hm : count % 2 = count := by omega
    simp only [alnumPairs]
    refine ⟨s, ?_, rfl, hs, rfl⟩
    rw [whileLoop_succ]
    simp only [Gen.K01de.decodeAlphanumericSegment_body1, h3, decide_false, Bool.false_eq_true, if_false, hm]
  | succ k ih =>
    intro count s acc fl hs hk hf
    obtain ⟨fl, rfl⟩ : ∃ f, fl = f + 1 := ⟨fl - 1, by omega⟩
    have h3 : ((count : Int) > 1) := by omega
    have hrb := k_readBits_stream s hs 11 11 rfl fb hfb
    simp only [alnumPairs]
    rw [whileLoop_succ]
    simp only [Gen.K01de.decodeAlphanumericSegment_body1, h3, decide_true, if_true]
    cases hq : QRDec.readBitsF 11 (unread s) with
    | error e =>
      rw [hq] at hrb
      simp only [hrb, tryC_ok]
      exact ⟨_, _, _, rfl⟩
    | ok p =>
      obtain ⟨v, rest⟩ := p
      rw [hq] at hrb
      obtain ⟨s1, hr, hu, hst, hby⟩ := hrb
      have d1 : Int.tdiv (v : Int) 45 = ((v / 45 : Nat) : Int) := tdiv_natCast v 45
      have d2 : Int.tmod (v : Int) 45 = ((v % 45 : Nat) : Int) := tmod_natCast v 45
      obtain ⟨c2, hc2⟩ := toAlnum_lt (v % 45) (Nat.mod_lt _ (by decide))
      simp only [hr, tryC_ok, d1, d2, k_toAlphaNumericChar_eq, hc2]
      cases hc1 : QRDec.toAlnumChar (v / 45) with
      | error e =>
        simp only [bne_self_eq_false, Bool.false_eq_true, if_false, Bool.true_bne, Bool.not_false, if_true]
        first | exact ⟨_, _, _, rfl⟩ | exact ⟨bytes (pre ++ acc), _, _, by simp⟩
      | ok c1 =>
        have hacc : bytes (pre ++ acc) ++ [(c1 : Int)] ++ [(c2 : Int)] = bytes (pre ++ (acc ++ [c1, c2])) := by simp [bytes]
        have hc : (count : Int) - 2 = ((count - 2 : Nat) : Int) := by omega
        simp only [Bool.false_eq_true, if_false, hacc, hc, bne_self_eq_false]
        have ih' := ih (count - 2) s1 (acc ++ [c1, c2]) fl hst (by omega) (by omega)
        rw [hby, hu] at ih'
        have hm : (count - 2) % 2 = count % 2 := by omega
        rw [hm] at ih'
        cases hn : alnumPairs k rest (acc ++ [c1, c2]) with
        | error e => rw [hn] at ih'; exact ih'
        | ok q =>
          obtain ⟨acc', rest'⟩ := q
          rw [hn] at ih'
          exact ih'

when_kernel Gzx.Gen.K01de.decodeAlphanumericSegment in
/-- `DecodedBitStreamParser_decodeAlphanumericSegment(bits, result, count, fc1InEffect)` = the bit-list model `QRDec.decodeAlnum`
    on the unread bits, for EVERY stream, count, prefix `result` and FNC1 flag (fuel ≥ 5 and above `count`): the model's
    characters — after the FNC1 rule when the flag is set, applied to the NEW characters only (`start = len(result)`) — are appended,
    the cursor is where the model's remaining bits start, the error flag is set exactly when the model fails -/
theorem k_decodeAlphanumericSegment_eq (s : BitSource) (hs : Stream s) (count : Nat) (pre : List Nat) (fnc1 : Bool) (fuel : Nat)
    (hf5 : 5 ≤ fuel) (hfc : count < fuel) :
    match QRDec.decodeAlnum count (unread s) fnc1 with
    | .ok (cs, rest) => ∃ s',
        Gen.K01de.decodeAlphanumericSegment fuel (bytes s.bytes) (s.byteOffset : Int) (s.bitOffset : Int) (bytes pre) (count : Int) fnc1 =
          .ok (bytes (pre ++ cs), false, (s'.byteOffset : Int), (s'.bitOffset : Int), bytes (pre ++ cs)) ∧
        unread s' = rest ∧ Stream s' ∧ s'.bytes = s.bytes
    | .error _ => ∃ r a b,
        Gen.K01de.decodeAlphanumericSegment fuel (bytes s.bytes) (s.byteOffset : Int) (s.bitOffset : Int) (bytes pre) (count : Int) fnc1 =
          .ok (r, true, a, b, r) := by
  have hl := k_alnum_loop fuel hf5 pre (count / 2) count s [] fuel hs rfl (by omega)
  rw [List.append_nil] at hl
  simp only [QRDec.decodeAlnum, bind, Except.bind]
  rw [decodeAlnumRaw_split (count / 2) count _ _ rfl]
  cases hn : alnumPairs (count / 2) (unread s) [] with
  | error e =>
    rw [hn] at hl
    obtain ⟨r, a, b, hw⟩ := hl
    simp only [Gen.K01de.decodeAlphanumericSegment, hw, ret_thenR]
    exact ⟨r, a, b, rfl⟩
  | ok q =>
    obtain ⟨acc1, rest1⟩ := q
    rw [hn] at hl
    obtain ⟨s1, hw, hu, hst, hby⟩ := hl
    have hlen := alnumPairs_length _ _ _ _ _ hn
    simp only [List.length_nil, Nat.zero_add] at hlen
    simp only [Gen.K01de.decodeAlphanumericSegment, hw, brk_thenR, len_bytes]
    have hr2 : count % 2 < 2 := Nat.mod_lt _ (by decide)
    generalize hrr : count % 2 = r at hr2
    have rb6 := k_readBits_stream s1 hst 6 6 rfl fuel hf5
    rw [hby, hu] at rb6
    match r, hr2 with
    | 0, _ =>
      simp only [QRDec.decodeAlnumRaw]
      have e01 : (((0 : Nat) : Int) == 1) = false := rfl
      cases fnc1 with
      | false =>
        refine ⟨s1, ?_, hu, hst, hby⟩
        simp [e01]
      | true =>
        refine ⟨s1, ?_, hu, hst, hby⟩
        have hloop := k_fnc1_loop acc1 pre fuel (by omega)
        simp [e01, hloop]
    | 1, _ =>
      simp only [QRDec.decodeAlnumRaw, bind, Except.bind]
      have e11 : (((1 : Nat) : Int) == 1) = true := rfl
      cases hq : QRDec.readBitsF 6 rest1 with
      | error e =>
        rw [hq] at rb6
        simp [e11, rb6]
      | ok p =>
        obtain ⟨v, rest2⟩ := p
        rw [hq] at rb6
        obtain ⟨s2, hr, hu2, hst2, hby2⟩ := rb6
        cases hc : QRDec.toAlnumChar v with
        | error e =>
          simp [e11, hr, k_toAlphaNumericChar_eq, hc]
        | ok c =>
          have hacc : bytes (pre ++ acc1) ++ [(c : Int)] = bytes (pre ++ (acc1 ++ [c])) := by simp [bytes]
          simp only [hc]
          cases fnc1 with
          | false =>
            refine ⟨s2, ?_, hu2, hst2, hby2⟩
            simp only [e11, if_true, hr, tryC_ok, k_toAlphaNumericChar_eq, hc, bne_self_eq_false, Bool.false_eq_true, if_false, hacc,
              next_thenR]
            try simp
          | true =>
            refine ⟨s2, ?_, hu2, hst2, hby2⟩
            have hloop := k_fnc1_loop (acc1 ++ [c]) pre fuel (by simp; omega)
            simp only [e11, if_true, hr, tryC_ok, k_toAlphaNumericChar_eq, hc, bne_self_eq_false, Bool.false_eq_true, if_false, hacc,
              next_thenR, hloop, brk_thenC]
            try simp
    | n + 2, h => omega

/-- non-vacuity: "A%%" with FNC1 in effect: pair (10, 38) = 488 in 11 bits, single 38 in 6 bits; `%%` becomes `%` -/
example : Stream (BitSource.new [0x3D, 0x13, 0x00]) := stream_new _ (by decide)
example : Gen.K01de.decodeAlphanumericSegment 5 (bytes [0x3D, 0x13, 0x00]) 0 0 [] 3 true =
    .ok ([65, 37], false, 2, 1, [65, 37]) := by decide

end Gzx.Obligations.K01e
