/-
  K01e (common/bit_source.go) — `BitSource.Available` and `BitSource.ReadBits`, regenerated on every run into `Gzx.Gen.K01d`
  (kind funcq, wp k01dec), proved equal to the hand-written model `Model/BitSource.lean` that carries C06's totality theorems
  (`bitsource_total`) and the bit-stream parsers of C01/C02/C05.

  A `*BitSource` is the triple (bytes, byteOffset, bitOffset); the regenerated `ReadBits` returns
  (result, error?, byteOffset', bitOffset').  The statement is for EVERY source with `bitOffset < 8` (the representation
  invariant of the private fields: `NewBitSource` starts at 0/0 and only `ReadBits` moves them), every byte list (no bound on the
  elements), every `numBits : int` and every fuel ≥ 5 (at most four whole bytes are read).  Panic messages are not compared
  (`stripP`): the model says which index failed, the run-time library does not.
-/
import Gzx.Gen.K01d
import Gzx.KernelGuard
import Gzx.Proofs.GoMTie
import Gzx.Model.BitSource
namespace Gzx.Obligations.K01e
open Gzx Gzx.GoM Gzx.GoVal Gzx.BitSource

/-- forget the text of a panic -/
def stripP {α : Type} : Res α → Res α
  | .error (.panic _) => .error (.panic "")
  | r => r

/-- what the regenerated `ReadBits` must return for a result of the model: (result, error?, byteOffset, bitOffset);
    the checked `IllegalArgumentException` leaves the source where it was -/
def encRB (s : BitSource) : Res (Nat × BitSource) → Res (Int × Bool × Int × Int)
  | .ok (v, s') => .ok ((v : Int), false, (s'.byteOffset : Int), (s'.bitOffset : Int))
  | .error .illegalArg => .ok (0, true, (s.byteOffset : Int), (s.bitOffset : Int))
  | .error e => .error e

when_kernel Gzx.Gen.K01d.available in
/-- `Available()` = the model's `available` (Go `int` arithmetic), for every source -/
theorem k_available_eq (s : BitSource) :
    Gen.K01d.available (bytes s.bytes) (s.byteOffset : Int) (s.bitOffset : Int) = .ok (available s) := by
  simp [Gen.K01d.available, BitSource.available, len, bytes]

theorem idx_byteAt (s : BitSource) (i : Nat) :
    idx (bytes s.bytes) (i : Int) = match byteAt s i with | .ok b => .ok (b : Int) | .error _ => .error oob := by
  unfold bytes byteAt
  rw [idx_bytes]
  cases s.bytes[i]? <;> rfl

theorem byteAt_err {s : BitSource} {i : Nat} {e : Fault} (h : byteAt s i = .error e) : ∃ w, e = .panic w := by
  unfold byteAt at h
  cases hb : s.bytes[i]? <;> rw [hb] at h <;> cases h
  exact ⟨_, rfl⟩

theorem readWhole_err {s : BitSource} : ∀ {k off acc : Nat} {e : Fault}, readWhole s k off acc = .error e → ∃ w, e = .panic w := by
  intro k
  induction k with
  | zero => intro off acc e h; cases h
  | succ k ih =>
    intro off acc e h
    unfold readWhole at h
    cases hb : byteAt s off with
    | error e' => rw [hb] at h; cases h; exact byteAt_err hb
    | ok b => rw [hb] at h; exact ih h

/-! ### the mask arithmetic of `ReadBits` -/

theorem and_shl_shr (b m k : Nat) : (b &&& (m <<< k)) >>> k = (b >>> k) &&& m := by
  apply Nat.eq_of_testBit_eq
  intro i
  simp [Nat.testBit_shiftRight, Nat.testBit_and, Nat.testBit_shiftLeft]

theorem shr255 (t : Nat) (h : t ≤ 8) : 255 >>> (8 - t) = 2 ^ t - 1 := by
  match t, h with
  | 0, _ => rfl | 1, _ => rfl | 2, _ => rfl | 3, _ => rfl | 4, _ => rfl | 5, _ => rfl | 6, _ => rfl | 7, _ => rfl | 8, _ => rfl
  | n + 9, h => omega

/-- `(b & mask) >> k` with `mask = byte((0xFF >> (8-t)) << k)`, `t + k ≤ 8`: the `t` bits above the lowest `k` -/
theorem maskSel (b t k : Nat) (h : t + k ≤ 8) (e1 e2 : Int) (h1 : e1 = ((8 - t : Nat) : Int)) (h2 : e2 = (k : Int)) :
    ishr (iand (b : Int) (wrap 8 (ishl (ishr 255 e1) e2))) e2 = (((b >>> k) % 2 ^ t : Nat) : Int) := by
  subst h1 h2
  have c255 : (255 : Int) = ((255 : Nat) : Int) := rfl
  rw [c255, ishr_natCast, shr255 t (by omega), ishl_natCast, wrap_natCast]
  have hlt : (2 ^ t - 1) <<< k < 2 ^ 8 := by
    rw [Nat.shiftLeft_eq]
    have h3 : 2 ^ t * 2 ^ k ≤ 2 ^ 8 := by rw [← Nat.pow_add]; exact Nat.pow_le_pow_right (by decide) h
    have h4 : 0 < 2 ^ k := Nat.two_pow_pos _
    have h5 : 0 < 2 ^ t := Nat.two_pow_pos _
    have : (2 ^ t - 1) * 2 ^ k = 2 ^ t * 2 ^ k - 2 ^ k := Nat.sub_one_mul _ _
    omega
  rw [Nat.mod_eq_of_lt hlt, iand_natCast, ishr_natCast, and_shl_shr, Nat.and_two_pow_sub_one_eq_mod]

/-! ### the whole-byte loop -/

when_kernel Gzx.Gen.K01d.readBits in
/-- the `for numBits >= 8` loop = the model's `readWhole` over `numBits / 8` bytes -/
theorem k_readBits_whole (s : BitSource) : ∀ (k fuel byo n1 r : Nat), k < fuel → n1 / 8 = k →
    whileLoop (Gen.K01d.readBits_body1 (bytes s.bytes)) fuel ((byo : Int), (n1 : Int), (r : Int)) =
      match readWhole s k byo r with
      | .ok (r2, byo2) => .brk ((byo2 : Int), ((n1 % 8 : Nat) : Int), (r2 : Int))
      | .error _ => (.panic oob : Ctl (Int × Int × Int) (Int × Bool × Int × Int)) := by
  intro k
  induction k with
  | zero =>
    intro fuel byo n1 r hf hk
    obtain ⟨fuel, rfl⟩ : ∃ f, fuel = f + 1 := ⟨fuel - 1, by omega⟩
    have h8 : ¬ ((n1 : Int) ≥ 8) := by omega
    have hm : n1 % 8 = n1 := by omega
    simp [whileLoop_succ, Gen.K01d.readBits_body1, h8, readWhole, hm]
  | succ k ih =>
    intro fuel byo n1 r hf hk
    obtain ⟨fuel, rfl⟩ : ∃ f, fuel = f + 1 := ⟨fuel - 1, by omega⟩
    have h8 : ((n1 : Int) ≥ 8) := by omega
    rw [whileLoop_succ]
    simp only [Gen.K01d.readBits_body1, h8, decide_true, if_true, idx_byteAt, readWhole]
    cases hb : byteAt s byo with
    | error e => rfl
    | ok b =>
      simp only [tryC_ok]
      have s1 : iand (b : Int) 255 = ((b &&& 255 : Nat) : Int) := iand_natCast b 255
      have s2 : ishl (r : Int) 8 = ((r <<< 8 : Nat) : Int) := ishl_natCast r 8
      have e1 : (byo : Int) + 1 = ((byo + 1 : Nat) : Int) := by omega
      have e2 : (n1 : Int) - 8 = ((n1 - 8 : Nat) : Int) := by omega
      rw [s1, s2, ior_natCast, e1, e2]
      have := ih fuel (byo + 1) (n1 - 8) (r <<< 8 ||| b &&& 255) (by omega) (by omega)
      rw [this]
      have hm : (n1 - 8) % 8 = n1 % 8 := by omega
      rw [hm]

/-! ### ReadBits -/

when_kernel Gzx.Gen.K01d.readBits in
/-- the checked rejections: `numBits < 1`, `> 32`, `> Available()` -/
theorem k_readBits_rejected (s : BitSource) (n : Int) (fuel : Nat) (h : n < 1 ∨ n > 32 ∨ n > available s) :
    Gen.K01d.readBits fuel (bytes s.bytes) (s.byteOffset : Int) (s.bitOffset : Int) n =
      .ok (0, true, (s.byteOffset : Int), (s.bitOffset : Int)) := by
  simp only [Gen.K01d.readBits, k_available_eq, tryR_ok]
  by_cases h1 : n < 1
  · simp [h1]
  · by_cases h2 : n > 32
    · simp [h1, h2]
    · have h3 : n > available s := by omega
      simp [h1, h2, h3]

theorem natCast0 : ((0 : Nat) : Int) = 0 := rfl

set_option hygiene false in
/-- phases 2 and 3 (whole bytes, final partial byte) for the state `(byo1, 0, n1, r1)` with `n1 ≤ 32`, `fuel ≥ 5` in context -/
local macro "rb_tail" r1:term : tactic => `(tactic| (
  unfold readRest
  by_cases hn1 : n1 > 0
  · have hn1' : ((n1 : Int) > 0) := by omega
    simp only [hn1, hn1', decide_true, if_true]
    have hwl := k_readBits_whole s (n1 / 8) fuel byo1 n1 $r1 (by omega) rfl
    try simp only [natCast0] at hwl
    rw [hwl]
    cases hw : readWhole s (n1 / 8) byo1 $r1 with
    | error e => obtain ⟨w, rfl⟩ := readWhole_err hw; rfl
    | ok p =>
      obtain ⟨r2, byo2⟩ := p
      simp only [brk_thenC]
      have hn2 : n1 % 8 < 8 := Nat.mod_lt _ (by decide)
      generalize n1 % 8 = n2 at hn2 ⊢
      by_cases h2 : n2 > 0
      · have h2' : ((n2 : Int) > 0) := by omega
        simp only [h2, h2', decide_true, if_true, idx_byteAt]
        cases hb2 : byteAt s byo2 with
        | error e => obtain ⟨w, rfl⟩ := byteAt_err hb2; rfl
        | ok b =>
          have w1 : wrap 64 (n2 : Int) = (n2 : Int) := wrap_of_lt 64 _ (by omega) (by omega)
          have w2 : wrap 64 (8 - (n2 : Int)) = ((8 - n2 : Nat) : Int) := by
            rw [wrap_of_lt 64 _ (by omega) (by omega)]; omega
          have hm := maskSel b n2 (8 - n2) (by omega) ((8 - n2 : Nat) : Int) ((8 - n2 : Nat) : Int) (by omega) rfl
          simp only [tryC_ok, next_thenR, w1, w2, hm, ishl_natCast, ior_natCast, encRB, Int.zero_add, Nat.zero_add]
          try simp [stripP]
      · have h2' : ¬ ((n2 : Int) > 0) := by omega
        simp only [h2, h2', decide_false, Bool.false_eq_true, if_false, next_thenR, encRB]
        try simp [stripP]
  · have hn1' : ¬ ((n1 : Int) > 0) := by omega
    simp only [hn1, hn1', decide_false, Bool.false_eq_true, if_false, next_thenR, encRB]
    try simp [stripP]))

when_kernel Gzx.Gen.K01d.readBits in
theorem k_readBits_main (s : BitSource) (hbo : s.bitOffset < 8) (N : Nat) (fuel : Nat) (hf : 5 ≤ fuel)
    (h1 : 1 ≤ N) (h32 : N ≤ 32) (hav : (N : Int) ≤ available s) :
    stripP (Gen.K01d.readBits fuel (bytes s.bytes) (s.byteOffset : Int) (s.bitOffset : Int) (N : Int)) =
      stripP (encRB s (match readFirst s N with
        | .error e => .error e
        | .ok (r, n1, byo, bio) => readRest s r n1 byo bio)) := by
  have a1 : ¬ ((N : Int) < 1) := by omega
  have a2 : ¬ ((N : Int) > 32) := by omega
  have a3 : ¬ ((N : Int) > available s) := by omega
  simp only [Gen.K01d.readBits, k_available_eq, tryR_ok, a1, a2, a3, decide_false, Bool.false_eq_true, if_false]
  unfold readFirst
  by_cases hb : s.bitOffset > 0
  · have hb' : ((s.bitOffset : Int) > 0) := by omega
    simp only [hb, hb', decide_true, if_true, idx_byteAt]
    cases hb1 : byteAt s s.byteOffset with
    | error e => obtain ⟨w, rfl⟩ := byteAt_err hb1; rfl
    | ok b =>
      simp only [tryC_ok]
      by_cases hN : N < 8 - s.bitOffset
      · have hN' : ((N : Int) < 8 - (s.bitOffset : Int)) := by omega
        have hne : ¬ (s.bitOffset + N = 8) := by omega
        have hne' : (((s.bitOffset : Int) + (N : Int)) == 8) = false := by simp; omega
        have w1 : wrap 64 (8 - (N : Int)) = ((8 - N : Nat) : Int) := by
          rw [wrap_of_lt 64 _ (by omega) (by omega)]; omega
        have w2 : wrap 64 (8 - (s.bitOffset : Int) - (N : Int)) = ((8 - s.bitOffset - N : Nat) : Int) := by
          rw [wrap_of_lt 64 _ (by omega) (by omega)]; omega
        have hm := maskSel b N (8 - s.bitOffset - N) (by omega) ((8 - N : Nat) : Int) ((8 - s.bitOffset - N : Nat) : Int) rfl rfl
        have hz : ¬ ((N : Int) - (N : Int) > 0) := by omega
        simp only [hN, hN', decide_true, if_true, hne, hne', Bool.false_eq_true, if_false, w1, w2, hm, next_thenR, hz, decide_false]
        unfold readRest
        simp [encRB, stripP]
      · have hN' : ¬ ((N : Int) < 8 - (s.bitOffset : Int)) := by omega
        have he : s.bitOffset + (8 - s.bitOffset) = 8 := by omega
        have he' : (((s.bitOffset : Int) + (8 - (s.bitOffset : Int))) == 8) = true := by simp; omega
        have w1 : wrap 64 (8 - (8 - (s.bitOffset : Int))) = ((8 - (8 - s.bitOffset) : Nat) : Int) := by
          rw [wrap_of_lt 64 _ (by omega) (by omega)]; omega
        have w2 : wrap 64 (8 - (s.bitOffset : Int) - (8 - (s.bitOffset : Int))) = ((0 : Nat) : Int) := by
          rw [wrap_of_lt 64 _ (by omega) (by omega)]; omega
        have hm := maskSel b (8 - s.bitOffset) 0 (by omega) ((8 - (8 - s.bitOffset) : Nat) : Int) ((0 : Nat) : Int) rfl rfl
        simp only [hN, hN', decide_false, if_true, he, he', Bool.false_eq_true, if_false, w1, w2, hm, next_thenR, Nat.sub_self]
        have e1 : (s.byteOffset : Int) + 1 = ((s.byteOffset + 1 : Nat) : Int) := by omega
        have e2 : (N : Int) - (8 - (s.bitOffset : Int)) = ((N - (8 - s.bitOffset) : Nat) : Int) := by omega
        rw [e1, e2]
        have hle : N - (8 - s.bitOffset) ≤ 32 := by omega
        generalize N - (8 - s.bitOffset) = n1 at hle ⊢
        generalize s.byteOffset + 1 = byo1
        generalize b >>> 0 % 2 ^ (8 - s.bitOffset) = r1
        rb_tail r1
  · have hb0 : s.bitOffset = 0 := by omega
    have hb' : ¬ ((s.bitOffset : Int) > 0) := by omega
    have hN : ((N : Int) > 0) := by omega
    have hN' : N > 0 := by omega
    simp only [hb, hb', decide_false, Bool.false_eq_true, if_false, next_thenR]
    rw [hb0]
    simp only [natCast0]
    generalize N = n1 at h32 ⊢
    generalize s.byteOffset = byo1
    rb_tail (0 : Nat)

when_kernel Gzx.Gen.K01d.readBits in
/-- `ReadBits(numBits)` = the model's `readBits` for EVERY source with `bitOffset < 8`, every `numBits`, every fuel ≥ 5:
    same value, same advanced offsets, same rejections (`numBits < 1`, `> 32`, `> Available()`: error, source unchanged),
    a panic where the model panics (never, by C06's `bitsource_total`, for a well-formed source) -/
theorem k_readBits_eq (s : BitSource) (hbo : s.bitOffset < 8) (n : Int) (fuel : Nat) (hf : 5 ≤ fuel) :
    stripP (Gen.K01d.readBits fuel (bytes s.bytes) (s.byteOffset : Int) (s.bitOffset : Int) n) =
      stripP (encRB s (readBits s n)) := by
  by_cases h : n < 1 ∨ n > 32 ∨ n > available s
  · rw [k_readBits_rejected s n fuel h]
    unfold readBits
    rw [if_pos h]
    rfl
  · obtain ⟨N, rfl⟩ := Int.eq_ofNat_of_zero_le (by omega : 0 ≤ n)
    rw [k_readBits_main s hbo N fuel hf (by omega) (by omega) (by omega)]
    unfold readBits
    rw [if_neg h]
    rfl

/-- non-vacuity and a concrete instance: 13 bits across three bytes from bit 3 -/
example : stripP (Gen.K01d.readBits 5 (bytes [0xA5, 0xFF, 0x01]) 0 3 13) =
    stripP (encRB ⟨[0xA5, 0xFF, 0x01], 0, 3⟩ (readBits ⟨[0xA5, 0xFF, 0x01], 0, 3⟩ 13)) :=
  k_readBits_eq ⟨[0xA5, 0xFF, 0x01], 0, 3⟩ (by decide) 13 5 (by decide)

example : Gen.K01d.readBits 5 (bytes [0xA5, 0xFF, 0x01]) 0 3 13 = .ok (0x5FF, false, 2, 0) := by decide

end Gzx.Obligations.K01e
