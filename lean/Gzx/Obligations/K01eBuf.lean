/-
  K01e (decoded_bit_stream_parser.go) — the byte / Kanji / Hanzi segment decoders UP TO THE CHARSET CALL: the statements that fill
  the byte buffer (`readBytes` / `buffer`) from the BitSource, regenerated on every run as regions of
  `DecodedBitStreamParser_decodeByteSegment`, `…decodeKanjiSegment`, `…decodeHanziSegment` (`Gzx.Gen.K01de.byteBuffer`,
  `kanjiBuffer`, `hanziBuffer`), proved equal to the bit-list model (`QRDec.readGroups`, `kanjiBytes`, `hanziBytes` =
  the buffers of `QRDec.decodeByte` / `decode13`, Model/QRDecoder.lean) on the bits from the cursor on, for EVERY stream and count
  for which the guard in front of the region (`8*count` resp. `13*count ≤ Available()`) holds.
-/
import Gzx.Obligations.K01eAlnum
namespace Gzx.Obligations.K01e
open Gzx Gzx.GoM Gzx.GoVal Gzx.BitSource
open Gzx.QRDec (natOfBits)

theorem natOfBits_lt : ∀ bs : List Bool, natOfBits bs < 2 ^ bs.length
  | [] => by simp [natOfBits]
  | b :: bs => by
    have ih := natOfBits_lt bs
    have h := foldl_bits bs (2 * 0 + b.toNat)
    have e : natOfBits (b :: bs) = (2 * 0 + b.toNat) * 2 ^ bs.length + natOfBits bs := h
    rw [e, List.length_cons, Nat.pow_succ]
    cases b <;> simp <;> omega

/-- a read inside the available bits succeeds in the bit-list model -/
theorem readBitsF_ok (n : Nat) (bits : List Bool) (h1 : 1 ≤ n) (h32 : n ≤ 32) (hl : n ≤ bits.length) :
    QRDec.readBitsF n bits = .ok (natOfBits (bits.take n), bits.drop n) := by
  unfold QRDec.readBitsF QRDec.readBits
  rw [if_neg (by omega)]

/-! ### decodeByteSegment: `readBytes` -/

when_kernel Gzx.Gen.K01de.byteBuffer in
theorem k_byte_loop (fuel : Nat) (hf : 5 ≤ fuel) : ∀ (m : Nat) (s : BitSource) (done : List Nat), Stream s →
    8 * m ≤ (unread s).length →
    ∃ s' vs,
      loop (ρ := List Int × Int × Int) (Gen.K01de.byteBuffer_body1 fuel (bytes s.bytes)) 1 m ((done.length : Nat) : Int)
          ((s.byteOffset : Int), (s.bitOffset : Int), bytes (done ++ List.replicate m 0)) =
        .next ((s'.byteOffset : Int), (s'.bitOffset : Int), bytes vs) ∧
      QRDec.readGroups 8 m (unread s) done = .ok (vs, unread s') ∧ Stream s' ∧ s'.bytes = s.bytes := by
  intro m
  induction m with
  | zero =>
    intro s done hs _
    exact ⟨s, done, by simp [loop], rfl, hs, rfl⟩
  | succ m ih =>
    intro s done hs hl
    have hrb := k_readBits_stream s hs 8 8 rfl fuel hf
    have hok := readBitsF_ok 8 (unread s) (by decide) (by decide) (by omega)
    rw [hok] at hrb
    obtain ⟨s1, hr, hu, hst, hby⟩ := hrb
    have hv : natOfBits ((unread s).take 8) < 256 := by
      have := natOfBits_lt ((unread s).take 8)
      rw [List.length_take, Nat.min_eq_left (by omega)] at this
      exact this
    generalize natOfBits ((unread s).take 8) = v at *
    have w8 : wrap 8 (v : Int) = (v : Int) := wrap_of_lt 8 _ (by omega) (by omega)
    have hl1 : 8 * m ≤ (unread s1).length := by rw [hu, List.length_drop]; omega
    obtain ⟨s', vs, h1, h2, h3, h4⟩ := ih s1 (done ++ [v]) hst hl1
    refine ⟨s', vs, ?_, ?_, h3, by rw [h4, hby]⟩
    · rw [loop_succ]
      have e0 : (0 : Int) = ((0 : Nat) : Int) := rfl
      simp only [Gen.K01de.byteBuffer_body1, hr, tryC_ok, w8, List.replicate_succ, setIdx_mid]
      have e1 : ((done.length : Nat) : Int) + 1 = (((done ++ [v]).length : Nat) : Int) := by simp
      have e2 : done ++ v :: List.replicate m 0 = (done ++ [v]) ++ List.replicate m 0 := by simp
      rw [e1, e2, ← hby]
      exact h1
    · simp only [QRDec.readGroups, hok, bind, Except.bind]
      rw [← hu]; exact h2

when_kernel Gzx.Gen.K01de.byteBuffer in
/-- `decodeByteSegment`'s `readBytes := make([]byte, count); for i … { b, _ := bits.ReadBits(8); readBytes[i] = byte(b) }` = the
    model's `readGroups 8 count`: the bytes handed to the charset decoder (and to `byteSegments`) and the cursor afterwards -/
theorem k_byteBuffer_eq (s : BitSource) (hs : Stream s) (count : Nat) (fuel : Nat) (hf : 5 ≤ fuel)
    (hg : 8 * count ≤ (unread s).length) :
    ∃ s' vs,
      Gen.K01de.byteBuffer fuel (bytes s.bytes) (s.byteOffset : Int) (s.bitOffset : Int) (count : Int) =
        .ok (bytes vs, (s'.byteOffset : Int), (s'.bitOffset : Int)) ∧
      QRDec.readGroups 8 count (unread s) [] = .ok (vs, unread s') ∧ Stream s' ∧ s'.bytes = s.bytes := by
  obtain ⟨s', vs, h1, h2, h3, h4⟩ := k_byte_loop fuel hf count s [] hs hg
  refine ⟨s', vs, ?_, h2, h3, h4⟩
  have hmk : mk (count : Int) = .ok (bytes (List.replicate count 0)) := by
    unfold mk
    have : ¬ ((count : Int) < 0) := by omega
    simp [this, bytes]
  have ht : tripUp 0 (count : Int) 1 = count := by rw [tripUp_one]; omega
  simp only [List.nil_append, List.length_nil] at h1
  have h1' : loop (Gen.K01de.byteBuffer_body1 fuel (bytes s.bytes)) 1 count (0 : Int)
      ((s.byteOffset : Int), (s.bitOffset : Int), bytes (List.replicate count 0)) = _ := h1
  simp only [Gen.K01de.byteBuffer, hmk, tryR_ok, ht, h1', next_thenR]

/-! ### decodeKanjiSegment / decodeHanziSegment: `buffer` -/

theorem flatMap_len2 (f : Nat → List Nat) (hf : ∀ v, (f v).length = 2) : ∀ vals : List Nat, (vals.flatMap f).length = 2 * vals.length
  | [] => rfl
  | v :: vs => by rw [List.flatMap_cons, List.length_append, hf, flatMap_len2 f hf vs, List.length_cons]; omega

theorem kanjiBytes_len (v : Nat) : (QRDec.kanjiBytes v).length = 2 := rfl
theorem hanziBytes_len (v : Nat) : (QRDec.hanziBytes v).length = 2 := rfl

/-- two consecutive element writes into the zero tail of a buffer -/
theorem setIdx_two (D : List Nat) (x y : Nat) (Z : List Nat) (off off1 : Int) (h0 : off = ((D.length : Nat) : Int))
    (h1 : off1 = ((D.length : Nat) : Int) + 1) {σ ρ : Type} (k : List Int → Ctl σ ρ) :
    tryC (setIdx (bytes (D ++ 0 :: 0 :: Z)) off (x : Int)) (fun t3 => tryC (setIdx t3 off1 (y : Int)) k) =
      k (bytes (D ++ x :: y :: Z)) := by
  subst h0 h1
  rw [setIdx_mid D 0 x (0 :: Z), tryC_ok]
  have e1 : D ++ x :: 0 :: Z = (D ++ [x]) ++ 0 :: Z := by simp
  have e2 : ((D.length : Nat) : Int) + 1 = (((D ++ [x]).length : Nat) : Int) := by simp
  rw [e1, e2, setIdx_mid (D ++ [x]) 0 y Z, tryC_ok]
  simp

when_kernel Gzx.Gen.K01de.kanjiBuffer in
theorem k_kanji_loop (fb : Nat) (hfb : 5 ≤ fb) : ∀ (m : Nat) (s : BitSource) (vals : List Nat) (fl : Nat), Stream s →
    13 * m ≤ (unread s).length → m < fl →
    ∃ s' vs,
      whileLoop (ρ := List Int × Int × Int × Int) (Gen.K01de.kanjiBuffer_body1 fb (bytes s.bytes)) fl
          ((m : Int), (s.byteOffset : Int), (s.bitOffset : Int),
            bytes (vals.flatMap QRDec.kanjiBytes ++ List.replicate (2 * m) 0), ((2 * vals.length : Nat) : Int)) =
        .brk (0, (s'.byteOffset : Int), (s'.bitOffset : Int), bytes (vs.flatMap QRDec.kanjiBytes), ((2 * vs.length : Nat) : Int)) ∧
      QRDec.readGroups 13 m (unread s) vals = .ok (vs, unread s') ∧ Stream s' ∧ s'.bytes = s.bytes := by
  intro m
  induction m with
  | zero =>
    intro s vals fl hs _ hf
    obtain ⟨fl, rfl⟩ : ∃ f, fl = f + 1 := ⟨fl - 1, by omega⟩
    refine ⟨s, vals, ?_, rfl, hs, rfl⟩
    rw [whileLoop_succ]
    have h0 : ¬ (((0 : Nat) : Int) > 0) := by omega
    simp only [Gen.K01de.kanjiBuffer_body1, h0, decide_false, Bool.false_eq_true, if_false]
    simp
  | succ m ih =>
    intro s vals fl hs hl hf
    obtain ⟨fl, rfl⟩ : ∃ f, fl = f + 1 := ⟨fl - 1, by omega⟩
    have hrb := k_readBits_stream s hs 13 13 rfl fb hfb
    have hok := readBitsF_ok 13 (unread s) (by decide) (by decide) (by omega)
    rw [hok] at hrb
    obtain ⟨s1, hr, hu, hst, hby⟩ := hrb
    generalize natOfBits ((unread s).take 13) = v at *
    have hl1 : 13 * m ≤ (unread s1).length := by rw [hu, List.length_drop]; omega
    obtain ⟨s', vs, h1, h2, h3, h4⟩ := ih s1 (vals ++ [v]) fl hst hl1 (by omega)
    refine ⟨s', vs, ?_, ?_, h3, by rw [h4, hby]⟩
    · rw [whileLoop_succ]
      have hpos : (((m + 1 : Nat) : Int) > 0) := by omega
      have d1 : Int.tdiv (v : Int) 192 = ((v / 192 : Nat) : Int) := tdiv_natCast v 192
      have d2 : Int.tmod (v : Int) 192 = ((v % 192 : Nat) : Int) := tmod_natCast v 192
      have s1' : ishl ((v / 192 : Nat) : Int) 8 = (((v / 192) <<< 8 : Nat) : Int) := ishl_natCast _ 8
      have ha : (v / 192) <<< 8 ||| v % 192 = (v / 192) * 256 + v % 192 := by
        have := shl_or_eq (v / 192) (v % 192) 8 (by omega); simpa using this
      simp only [Gen.K01de.kanjiBuffer_body1, hpos, decide_true, if_true, hr, tryC_ok, d1, d2, s1', ior_natCast, ha]
      generalize hA : (v / 192) * 256 + v % 192 = a
      have hkb : QRDec.kanjiBytes v =
          [((if a < 0x1F00 then a + 0x8140 else a + 0xC140) / 256) % 256, (if a < 0x1F00 then a + 0x8140 else a + 0xC140) % 256] := by
        unfold QRDec.kanjiBytes; simp only; rw [hA]
      have hrep : List.replicate (2 * (m + 1)) (0 : Nat) = 0 :: 0 :: List.replicate (2 * m) 0 := by
        have : 2 * (m + 1) = 2 * m + 1 + 1 := by omega
        rw [this, List.replicate_succ, List.replicate_succ]
      have hlen : (((vals.flatMap QRDec.kanjiBytes).length : Nat) : Int) = ((2 * vals.length : Nat) : Int) := by
        rw [flatMap_len2 _ kanjiBytes_len]
      have hstate : ((m + 1 : Nat) : Int) - 1 = (m : Int) := by omega
      have hoff : ((2 * vals.length : Nat) : Int) + 2 = ((2 * (vals ++ [v]).length : Nat) : Int) := by simp; omega
      have hfm : (vals ++ [v]).flatMap QRDec.kanjiBytes = vals.flatMap QRDec.kanjiBytes ++ QRDec.kanjiBytes v := by simp
      by_cases hc : a < 0x1F00
      · have hc' : ((a : Int) < 7936) := by omega
        have ea : (a : Int) + 33088 = ((a + 0x8140 : Nat) : Int) := by omega
        have sh : ishr ((a + 0x8140 : Nat) : Int) 8 = (((a + 0x8140) >>> 8 : Nat) : Int) := ishr_natCast _ 8
        have wv1 : wrap 8 ((((a + 0x8140) >>> 8 : Nat)) : Int) = ((((a + 0x8140) / 256) % 256 : Nat) : Int) := by
          rw [wrap_natCast, Nat.shiftRight_eq_div_pow]
        have wv2 : wrap 8 ((a + 0x8140 : Nat) : Int) = (((a + 0x8140) % 256 : Nat) : Int) := by rw [wrap_natCast]
        simp only [hc', decide_true, if_true, ea, sh, wv1, wv2, hrep]
        rw [setIdx_two _ _ _ _ _ _ hlen.symm (by rw [hlen]), hstate, hoff]
        simp only [hc, if_true] at hkb
        have e3 : vals.flatMap QRDec.kanjiBytes ++ (a + 0x8140) / 256 % 256 :: (a + 0x8140) % 256 :: List.replicate (2 * m) 0 =
            (vals ++ [v]).flatMap QRDec.kanjiBytes ++ List.replicate (2 * m) 0 := by rw [hfm, hkb]; simp
        rw [e3, ← hby]
        exact h1
      · have hc' : ¬ ((a : Int) < 7936) := by omega
        have ea : (a : Int) + 49472 = ((a + 0xC140 : Nat) : Int) := by omega
        have sh : ishr ((a + 0xC140 : Nat) : Int) 8 = (((a + 0xC140) >>> 8 : Nat) : Int) := ishr_natCast _ 8
        have wv1 : wrap 8 ((((a + 0xC140) >>> 8 : Nat)) : Int) = ((((a + 0xC140) / 256) % 256 : Nat) : Int) := by
          rw [wrap_natCast, Nat.shiftRight_eq_div_pow]
        have wv2 : wrap 8 ((a + 0xC140 : Nat) : Int) = (((a + 0xC140) % 256 : Nat) : Int) := by rw [wrap_natCast]
        simp only [hc', decide_false, Bool.false_eq_true, if_false, ea, sh, wv1, wv2, hrep]
        rw [setIdx_two _ _ _ _ _ _ hlen.symm (by rw [hlen]), hstate, hoff]
        simp only [hc, if_false] at hkb
        have e3 : vals.flatMap QRDec.kanjiBytes ++ (a + 0xC140) / 256 % 256 :: (a + 0xC140) % 256 :: List.replicate (2 * m) 0 =
            (vals ++ [v]).flatMap QRDec.kanjiBytes ++ List.replicate (2 * m) 0 := by rw [hfm, hkb]; simp
        rw [e3, ← hby]
        exact h1
    · simp only [QRDec.readGroups, hok, bind, Except.bind]
      rw [← hu]; exact h2


/-- `byte(x & 0xFF)` -/
theorem and8 (x : Nat) : wrap 8 (iand (x : Int) 255) = ((x % 256 : Nat) : Int) := by
  have h : iand (x : Int) 255 = ((x &&& 255 : Nat) : Int) := iand_natCast x 255
  have h2 := Nat.and_two_pow_sub_one_eq_mod x 8
  have e : (2 : Nat) ^ 8 - 1 = 255 := by decide
  rw [e] at h2
  rw [h, h2, wrap_natCast]
  congr 1
  omega

when_kernel Gzx.Gen.K01de.hanziBuffer in
theorem k_hanzi_loop (fb : Nat) (hfb : 5 ≤ fb) : ∀ (m : Nat) (s : BitSource) (vals : List Nat) (fl : Nat), Stream s →
    13 * m ≤ (unread s).length → m < fl →
    ∃ s' vs,
      whileLoop (ρ := List Int × Int × Int × Int) (Gen.K01de.hanziBuffer_body1 fb (bytes s.bytes)) fl
          ((m : Int), (s.byteOffset : Int), (s.bitOffset : Int),
            bytes (vals.flatMap QRDec.hanziBytes ++ List.replicate (2 * m) 0), ((2 * vals.length : Nat) : Int)) =
        .brk (0, (s'.byteOffset : Int), (s'.bitOffset : Int), bytes (vs.flatMap QRDec.hanziBytes), ((2 * vs.length : Nat) : Int)) ∧
      QRDec.readGroups 13 m (unread s) vals = .ok (vs, unread s') ∧ Stream s' ∧ s'.bytes = s.bytes := by
  intro m
  induction m with
  | zero =>
    intro s vals fl hs _ hf
    obtain ⟨fl, rfl⟩ : ∃ f, fl = f + 1 := ⟨fl - 1, by omega⟩
    refine ⟨s, vals, ?_, rfl, hs, rfl⟩
    rw [whileLoop_succ]
    have h0 : ¬ (((0 : Nat) : Int) > 0) := by omega
    simp only [Gen.K01de.hanziBuffer_body1, h0, decide_false, Bool.false_eq_true, if_false]
    simp
  | succ m ih =>
    intro s vals fl hs hl hf
    obtain ⟨fl, rfl⟩ : ∃ f, fl = f + 1 := ⟨fl - 1, by omega⟩
    have hrb := k_readBits_stream s hs 13 13 rfl fb hfb
    have hok := readBitsF_ok 13 (unread s) (by decide) (by decide) (by omega)
    rw [hok] at hrb
    obtain ⟨s1, hr, hu, hst, hby⟩ := hrb
    generalize natOfBits ((unread s).take 13) = v at *
    have hl1 : 13 * m ≤ (unread s1).length := by rw [hu, List.length_drop]; omega
    obtain ⟨s', vs, h1, h2, h3, h4⟩ := ih s1 (vals ++ [v]) fl hst hl1 (by omega)
    refine ⟨s', vs, ?_, ?_, h3, by rw [h4, hby]⟩
    · rw [whileLoop_succ]
      have hpos : (((m + 1 : Nat) : Int) > 0) := by omega
      have d1 : Int.tdiv (v : Int) 96 = ((v / 96 : Nat) : Int) := tdiv_natCast v 96
      have d2 : Int.tmod (v : Int) 96 = ((v % 96 : Nat) : Int) := tmod_natCast v 96
      have s1' : ishl ((v / 96 : Nat) : Int) 8 = (((v / 96) <<< 8 : Nat) : Int) := ishl_natCast _ 8
      have ha : (v / 96) <<< 8 ||| v % 96 = (v / 96) * 256 + v % 96 := by
        have := shl_or_eq (v / 96) (v % 96) 8 (by omega); simpa using this
      simp only [Gen.K01de.hanziBuffer_body1, hpos, decide_true, if_true, hr, tryC_ok, d1, d2, s1', ior_natCast, ha]
      generalize hA : (v / 96) * 256 + v % 96 = a
      have hkb : QRDec.hanziBytes v =
          [((if a < 0xA00 then a + 0xA1A1 else a + 0xA6A1) / 256) % 256, (if a < 0xA00 then a + 0xA1A1 else a + 0xA6A1) % 256] := by
        unfold QRDec.hanziBytes; simp only; rw [hA]
      have hrep : List.replicate (2 * (m + 1)) (0 : Nat) = 0 :: 0 :: List.replicate (2 * m) 0 := by
        have : 2 * (m + 1) = 2 * m + 1 + 1 := by omega
        rw [this, List.replicate_succ, List.replicate_succ]
      have hlen : (((vals.flatMap QRDec.hanziBytes).length : Nat) : Int) = ((2 * vals.length : Nat) : Int) := by
        rw [flatMap_len2 _ hanziBytes_len]
      have hstate : ((m + 1 : Nat) : Int) - 1 = (m : Int) := by omega
      have hoff : ((2 * vals.length : Nat) : Int) + 2 = ((2 * (vals ++ [v]).length : Nat) : Int) := by simp; omega
      have hfm : (vals ++ [v]).flatMap QRDec.hanziBytes = vals.flatMap QRDec.hanziBytes ++ QRDec.hanziBytes v := by simp
      by_cases hc : a < 0xA00
      · have hc' : ((a : Int) < 2560) := by omega
        have ea : (a : Int) + 41377 = ((a + 0xA1A1 : Nat) : Int) := by omega
        have sh : ishr ((a + 0xA1A1 : Nat) : Int) 8 = (((a + 0xA1A1) >>> 8 : Nat) : Int) := ishr_natCast _ 8
        have wv1 : wrap 8 (iand ((((a + 0xA1A1) >>> 8 : Nat)) : Int) 255) = ((((a + 0xA1A1) / 256) % 256 : Nat) : Int) := by
          rw [and8, Nat.shiftRight_eq_div_pow]
        have wv2 : wrap 8 (iand ((a + 0xA1A1 : Nat) : Int) 255) = (((a + 0xA1A1) % 256 : Nat) : Int) := and8 _
        simp only [hc', decide_true, if_true, ea, sh, wv1, wv2, hrep]
        rw [setIdx_two _ _ _ _ _ _ hlen.symm (by rw [hlen]), hstate, hoff]
        simp only [hc, if_true] at hkb
        have e3 : vals.flatMap QRDec.hanziBytes ++ (a + 0xA1A1) / 256 % 256 :: (a + 0xA1A1) % 256 :: List.replicate (2 * m) 0 =
            (vals ++ [v]).flatMap QRDec.hanziBytes ++ List.replicate (2 * m) 0 := by rw [hfm, hkb]; simp
        rw [e3, ← hby]
        exact h1
      · have hc' : ¬ ((a : Int) < 2560) := by omega
        have ea : (a : Int) + 42657 = ((a + 0xA6A1 : Nat) : Int) := by omega
        have sh : ishr ((a + 0xA6A1 : Nat) : Int) 8 = (((a + 0xA6A1) >>> 8 : Nat) : Int) := ishr_natCast _ 8
        have wv1 : wrap 8 (iand ((((a + 0xA6A1) >>> 8 : Nat)) : Int) 255) = ((((a + 0xA6A1) / 256) % 256 : Nat) : Int) := by
          rw [and8, Nat.shiftRight_eq_div_pow]
        have wv2 : wrap 8 (iand ((a + 0xA6A1 : Nat) : Int) 255) = (((a + 0xA6A1) % 256 : Nat) : Int) := and8 _
        simp only [hc', decide_false, Bool.false_eq_true, if_false, ea, sh, wv1, wv2, hrep]
        rw [setIdx_two _ _ _ _ _ _ hlen.symm (by rw [hlen]), hstate, hoff]
        simp only [hc, if_false] at hkb
        have e3 : vals.flatMap QRDec.hanziBytes ++ (a + 0xA6A1) / 256 % 256 :: (a + 0xA6A1) % 256 :: List.replicate (2 * m) 0 =
            (vals ++ [v]).flatMap QRDec.hanziBytes ++ List.replicate (2 * m) 0 := by rw [hfm, hkb]; simp
        rw [e3, ← hby]
        exact h1
    · simp only [QRDec.readGroups, hok, bind, Except.bind]
      rw [← hu]; exact h2


when_kernel Gzx.Gen.K01de.kanjiBuffer in
/-- `decodeKanjiSegment`'s buffer loop (`make([]byte, 2*count)`, 13 bits per character, the Shift_JIS assembly with its two
    range offsets) = the model's `decode13 kanjiBytes`: the bytes handed to the Shift_JIS decoder, the offset and the cursor -/
theorem k_kanjiBuffer_eq (s : BitSource) (hs : Stream s) (count : Nat) (fuel : Nat) (hf : 5 ≤ fuel) (hfc : count < fuel)
    (hg : 13 * count ≤ (unread s).length) :
    ∃ (s' : BitSource) (vs : List Nat),
      Gen.K01de.kanjiBuffer fuel (bytes s.bytes) (s.byteOffset : Int) (s.bitOffset : Int) (count : Int) =
        .ok (bytes (vs.flatMap QRDec.kanjiBytes), ((2 * vs.length : Nat) : Int), (s'.byteOffset : Int), (s'.bitOffset : Int)) ∧
      QRDec.decode13 QRDec.kanjiBytes count (unread s) = .ok (vs.flatMap QRDec.kanjiBytes, unread s') ∧ Stream s' ∧
      s'.bytes = s.bytes := by
  obtain ⟨s', vs, h1, h2, h3, h4⟩ := k_kanji_loop fuel hf count s [] fuel hs hg hfc
  refine ⟨s', vs, ?_, ?_, h3, h4⟩
  · have hmk : mk (2 * (count : Int)) = .ok (bytes (List.replicate (2 * count) 0)) := by
      unfold mk
      have : ¬ (2 * (count : Int) < 0) := by omega
      have e : (2 * (count : Int)).toNat = 2 * count := by omega
      simp [this, bytes, e]
    simp only [List.flatMap_nil, List.nil_append, List.length_nil, Nat.mul_zero] at h1
    have h1' : whileLoop (Gen.K01de.kanjiBuffer_body1 fuel (bytes s.bytes)) fuel
        ((count : Int), (s.byteOffset : Int), (s.bitOffset : Int), bytes (List.replicate (2 * count) 0), (0 : Int)) = _ := h1
    simp only [Gen.K01de.kanjiBuffer, hmk, tryR_ok, h1', brk_thenR]
  · unfold QRDec.decode13
    rw [if_neg (by omega)]
    simp only [h2, bind, Except.bind]

when_kernel Gzx.Gen.K01de.hanziBuffer in
/-- the same for `decodeHanziSegment` (GB2312 assembly) = the model's `decode13 hanziBytes` -/
theorem k_hanziBuffer_eq (s : BitSource) (hs : Stream s) (count : Nat) (fuel : Nat) (hf : 5 ≤ fuel) (hfc : count < fuel)
    (hg : 13 * count ≤ (unread s).length) :
    ∃ (s' : BitSource) (vs : List Nat),
      Gen.K01de.hanziBuffer fuel (bytes s.bytes) (s.byteOffset : Int) (s.bitOffset : Int) (count : Int) =
        .ok (bytes (vs.flatMap QRDec.hanziBytes), ((2 * vs.length : Nat) : Int), (s'.byteOffset : Int), (s'.bitOffset : Int)) ∧
      QRDec.decode13 QRDec.hanziBytes count (unread s) = .ok (vs.flatMap QRDec.hanziBytes, unread s') ∧ Stream s' ∧
      s'.bytes = s.bytes := by
  obtain ⟨s', vs, h1, h2, h3, h4⟩ := k_hanzi_loop fuel hf count s [] fuel hs hg hfc
  refine ⟨s', vs, ?_, ?_, h3, h4⟩
  · have hmk : mk (2 * (count : Int)) = .ok (bytes (List.replicate (2 * count) 0)) := by
      unfold mk
      have : ¬ (2 * (count : Int) < 0) := by omega
      have e : (2 * (count : Int)).toNat = 2 * count := by omega
      simp [this, bytes, e]
    simp only [List.flatMap_nil, List.nil_append, List.length_nil, Nat.mul_zero] at h1
    have h1' : whileLoop (Gen.K01de.hanziBuffer_body1 fuel (bytes s.bytes)) fuel
        ((count : Int), (s.byteOffset : Int), (s.bitOffset : Int), bytes (List.replicate (2 * count) 0), (0 : Int)) = _ := h1
    simp only [Gen.K01de.hanziBuffer, hmk, tryR_ok, h1', brk_thenR]
  · unfold QRDec.decode13
    rw [if_neg (by omega)]
    simp only [h2, bind, Except.bind]

/-- non-vacuity: one Kanji character 0x0D9F (13 bits: 0 1101 1001 1111) -/
example : Stream (BitSource.new [0x6C, 0xF8]) := stream_new _ (by decide)
example : Gen.K01de.kanjiBuffer 5 (bytes [0x6C, 0xF8]) 0 0 1 = .ok ([147, 95], 2, 1, 5) := by decide

end Gzx.Obligations.K01e
