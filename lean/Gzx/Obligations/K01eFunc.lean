/-
  K01e (version.go) — `Version.buildFunctionPattern` for EVERY lawful matrix implementation: k01dec proved, by kernel evaluation on
  a symbolic matrix (`regOps`: a matrix is the list of the `SetRegion` calls made on it), that for every row of the regenerated
  VERSIONS the regenerated function issues exactly the model's regions.  Here: the control flow of the regenerated function does
  not depend on the matrix, so two runs on ANY two lawful implementations (`SetRegionLaw`, `NewSquareLaw`) end in related
  matrices (`k_buildFunctionPattern_rel`); with `regOps` as one of them, the run on an arbitrary lawful implementation — in
  particular the word-level `BitMatrix` — yields the model's function pattern for every version of the table
  (`k_buildFunctionPattern_lawful`).
-/
import Gzx.Obligations.K01eMirror
namespace Gzx.Obligations.K01e
open Gzx Gzx.GoM Gzx.GoVal Gzx.QRDec Gzx.Obligations.K01d

/-- the arguments `SetRegion` rejects (error, matrix unchanged) on a square matrix of dimension `d` -/
def regionBad (d : Nat) (l t w h : Int) : Prop := t < 0 ∨ l < 0 ∨ h < 1 ∨ w < 1 ∨ t + h > (d : Int) ∨ l + w > (d : Int)

instance (d : Nat) (l t w h : Int) : Decidable (regionBad d l t w h) := by unfold regionBad; exact inferInstance

/-- `SetRegion` on a square matrix: rejected arguments leave it unchanged (error flag), accepted ones set exactly that region -/
def SetRegionLaw {M : Type} (ops : MatOps M) (abs : M → Matrix) : Prop :=
  ∀ (m : M) (l t w h : Int), ops.width m = ((abs m).dim : Int) → ops.height m = ((abs m).dim : Int) →
    (regionBad (abs m).dim l t w h → ops.setRegion m l t w h = .ok (m, true)) ∧
    (¬ regionBad (abs m).dim l t w h → ∃ m', ops.setRegion m l t w h = .ok (m', false) ∧ (abs m').dim = (abs m).dim ∧
      ops.width m' = ops.width m ∧ ops.height m' = ops.height m ∧
      ∀ a b, a < (abs m).dim → b < (abs m).dim →
        (abs m').bit a b = ((abs m).bit a b ||
          (decide (l ≤ (a : Int)) && decide ((a : Int) < l + w) && decide (t ≤ (b : Int)) && decide ((b : Int) < t + h))))

/-- `NewSquareBitMatrix(d)`: an error below 1, otherwise the white `d × d` matrix -/
def NewSquareLaw {M : Type} (ops : MatOps M) (abs : M → Matrix) : Prop :=
  ∀ d : Int, (d < 1 → ∃ m, ops.newSquare d = .ok (m, true)) ∧
    (1 ≤ d → ∃ m, ops.newSquare d = .ok (m, false) ∧ (abs m).dim = d.toNat ∧ ops.width m = d ∧ ops.height m = d ∧
      ∀ a b, a < d.toNat → b < d.toNat → (abs m).bit a b = false)

/-- two square matrices of the same size with the same modules -/
def SameM {M1 M2 : Type} (ops1 : MatOps M1) (abs1 : M1 → Matrix) (ops2 : MatOps M2) (abs2 : M2 → Matrix) (d : Nat)
    (m1 : M1) (m2 : M2) : Prop :=
  (abs1 m1).dim = d ∧ (abs2 m2).dim = d ∧ ops1.width m1 = (d : Int) ∧ ops1.height m1 = (d : Int) ∧
    ops2.width m2 = (d : Int) ∧ ops2.height m2 = (d : Int) ∧
    ∀ a b, a < d → b < d → (abs1 m1).bit a b = (abs2 m2).bit a b

/-- two counted loops whose bodies keep a relation between their states run in lock step -/
theorem loop_rel {σ1 σ2 ρ1 ρ2 : Type} (R : σ1 → σ2 → Prop) (b1 : Int → σ1 → Ctl σ1 ρ1) (b2 : Int → σ2 → Ctl σ2 ρ2) (d : Int)
    (P : Int → Prop)
    (hstep : ∀ i s1 s2, P i → R s1 s2 → ∃ s1' s2', b1 i s1 = .next s1' ∧ b2 i s2 = .next s2' ∧ R s1' s2')
    (hP : ∀ i, P i → P (i + d)) :
    ∀ (n : Nat) (i : Int) (s1 : σ1) (s2 : σ2), P i → R s1 s2 →
      ∃ s1' s2', loop b1 d n i s1 = .next s1' ∧ loop b2 d n i s2 = .next s2' ∧ R s1' s2' := by
  intro n
  induction n with
  | zero => intro i s1 s2 _ h; exact ⟨s1, s2, rfl, rfl, h⟩
  | succ n ih =>
    intro i s1 s2 hp h
    obtain ⟨s1', s2', e1, e2, h'⟩ := hstep i s1 s2 hp h
    obtain ⟨t1, t2, f1, f2, h''⟩ := ih (i + d) s1' s2' (hP i hp) h'
    exact ⟨t1, t2, by rw [loop_succ, e1]; exact f1, by rw [loop_succ, e2]; exact f2, h''⟩

/-- lock step of two counted loops from 0 with step 1; the bodies are only asked about the indices the loop visits -/
theorem loop_rel0 {σ1 σ2 ρ1 ρ2 : Type} (R : σ1 → σ2 → Prop) (b1 : Int → σ1 → Ctl σ1 ρ1) (b2 : Int → σ2 → Ctl σ2 ρ2) (n : Nat)
    (hstep : ∀ k : Nat, k < n → ∀ s1 s2, R s1 s2 → ∃ s1' s2', b1 (k : Int) s1 = .next s1' ∧ b2 (k : Int) s2 = .next s2' ∧ R s1' s2') :
    ∀ (j k : Nat) (s1 : σ1) (s2 : σ2), k + j = n → R s1 s2 →
      ∃ s1' s2', loop b1 1 j (k : Int) s1 = .next s1' ∧ loop b2 1 j (k : Int) s2 = .next s2' ∧ R s1' s2' := by
  intro j
  induction j with
  | zero => intro k s1 s2 _ h; exact ⟨s1, s2, rfl, rfl, h⟩
  | succ j ih =>
    intro k s1 s2 hk h
    obtain ⟨s1', s2', e1, e2, h'⟩ := hstep k (by omega) s1 s2 h
    obtain ⟨t1, t2, f1, f2, h''⟩ := ih (k + 1) s1' s2' (by omega) h'
    have e : (k : Int) + 1 = ((k + 1 : Nat) : Int) := by omega
    exact ⟨t1, t2, by rw [loop_succ, e1, e]; exact f1, by rw [loop_succ, e2, e]; exact f2, h''⟩

section
variable {M1 M2 : Type} (ops1 : MatOps M1) (abs1 : M1 → Matrix) (ops2 : MatOps M2) (abs2 : M2 → Matrix)
  (sl1 : SetRegionLaw ops1 abs1) (sl2 : SetRegionLaw ops2 abs2)
include sl1 sl2

/-- one `SetRegion` call (error ignored, as `buildFunctionPattern` does) keeps two runs related -/
theorem setRegion_rel (d : Nat) (m1 : M1) (m2 : M2) (l t w h : Int) (hR : SameM ops1 abs1 ops2 abs2 d m1 m2) :
    ∃ r1 r2, ops1.setRegion m1 l t w h = .ok r1 ∧ ops2.setRegion m2 l t w h = .ok r2 ∧
      SameM ops1 abs1 ops2 abs2 d r1.1 r2.1 := by
  obtain ⟨hd1, hd2, hw1, hh1, hw2, hh2, hb⟩ := hR
  have L1 := sl1 m1 l t w h (by rw [hd1]; exact hw1) (by rw [hd1]; exact hh1)
  have L2 := sl2 m2 l t w h (by rw [hd2]; exact hw2) (by rw [hd2]; exact hh2)
  rw [hd1] at L1
  rw [hd2] at L2
  by_cases hbad : regionBad d l t w h
  · exact ⟨_, _, L1.1 hbad, L2.1 hbad, hd1, hd2, hw1, hh1, hw2, hh2, hb⟩
  · obtain ⟨m1', e1, d1, w1, h1, b1⟩ := L1.2 hbad
    obtain ⟨m2', e2, d2, w2, h2, b2⟩ := L2.2 hbad
    refine ⟨_, _, e1, e2, by omega, by omega, by rw [w1]; exact hw1, by rw [h1]; exact hh1, by rw [w2]; exact hw2,
      by rw [h2]; exact hh2, ?_⟩
    intro a b ha hb'
    show (abs1 m1').bit a b = (abs2 m2').bit a b
    rw [b1 a b ha hb', b2 a b ha hb', hb a b ha hb']

omit sl1 sl2 in
theorem idx_lt (xs : List Int) (k : Nat) (h : k < xs.length) : ∃ v, idx xs (k : Int) = .ok v :=
  ⟨_, idx_ofNat xs k h⟩

when_kernel Gzx.Gen.K01d.buildFunctionPattern in
theorem k_bfp_body2_rel (d : Nat) (centers : List Int) (x i : Int) (y : Nat) (hy : y < centers.length) (m1 : M1) (m2 : M2)
    (hR : SameM ops1 abs1 ops2 abs2 d m1 m2) :
    ∃ r1 r2, Gen.K01d.buildFunctionPattern_body2 ops1 centers (len centers) x i (y : Int) m1 = .next r1 ∧
      Gen.K01d.buildFunctionPattern_body2 ops2 centers (len centers) x i (y : Int) m2 = .next r2 ∧
      SameM ops1 abs1 ops2 abs2 d r1 r2 := by
  simp only [Gen.K01d.buildFunctionPattern_body2]
  split
  · exact ⟨m1, m2, rfl, rfl, hR⟩
  · obtain ⟨v, hv⟩ := idx_lt centers y hy
    obtain ⟨r1, r2, e1, e2, h'⟩ := setRegion_rel ops1 abs1 ops2 abs2 sl1 sl2 d m1 m2 (v - 2) i 5 5 hR
    exact ⟨r1.1, r2.1, by simp [hv, e1], by simp [hv, e2], h'⟩

when_kernel Gzx.Gen.K01d.buildFunctionPattern in
theorem k_bfp_body1_rel (d : Nat) (centers : List Int) (x : Nat) (hx : x < centers.length) (m1 : M1) (m2 : M2)
    (hR : SameM ops1 abs1 ops2 abs2 d m1 m2) :
    ∃ r1 r2, Gen.K01d.buildFunctionPattern_body1 ops1 centers (len centers) (x : Int) m1 = .next r1 ∧
      Gen.K01d.buildFunctionPattern_body1 ops2 centers (len centers) (x : Int) m2 = .next r2 ∧
      SameM ops1 abs1 ops2 abs2 d r1 r2 := by
  obtain ⟨v, hv⟩ := idx_lt centers x hx
  have ht : tripUp 0 (len centers) 1 = centers.length := by rw [tripUp_one]; simp [len]
  obtain ⟨r1, r2, e1, e2, h'⟩ := loop_rel0 (ρ1 := M1 × Bool) (ρ2 := M2 × Bool) (SameM ops1 abs1 ops2 abs2 d)
    (Gen.K01d.buildFunctionPattern_body2 ops1 centers (len centers) (x : Int) (v - 2))
    (Gen.K01d.buildFunctionPattern_body2 ops2 centers (len centers) (x : Int) (v - 2)) centers.length
    (fun y hy s1 s2 h => k_bfp_body2_rel ops1 abs1 ops2 abs2 sl1 sl2 d centers (x : Int) (v - 2) y hy s1 s2 h)
    centers.length 0 m1 m2 (by omega) hR
  have e1' : loop (Gen.K01d.buildFunctionPattern_body2 ops1 centers (len centers) (x : Int) (v - 2)) 1 centers.length (0 : Int) m1 = .next r1 := e1
  have e2' : loop (Gen.K01d.buildFunctionPattern_body2 ops2 centers (len centers) (x : Int) (v - 2)) 1 centers.length (0 : Int) m2 = .next r2 := e2
  exact ⟨r1, r2, by simp [Gen.K01d.buildFunctionPattern_body1, hv, ht, e1'], by simp [Gen.K01d.buildFunctionPattern_body1, hv, ht, e2'], h'⟩

when_kernel Gzx.Gen.K01d.buildFunctionPattern in
/-- two runs of the regenerated `buildFunctionPattern` on ANY two lawful matrix implementations end in the same matrix
    (no error, same size, same modules): its control flow does not look at the matrix -/
theorem k_buildFunctionPattern_rel (nl1 : NewSquareLaw ops1 abs1) (nl2 : NewSquareLaw ops2 abs2) (v : Int) (hv : 1 ≤ 17 + 4 * v)
    (centers : List Int) :
    ∃ m1 m2, Gen.K01d.buildFunctionPattern ops1 v centers = .ok (m1, false) ∧
      Gen.K01d.buildFunctionPattern ops2 v centers = .ok (m2, false) ∧
      SameM ops1 abs1 ops2 abs2 (17 + 4 * v).toNat m1 m2 := by
  obtain ⟨a0, ea, da, wa, ha, ba⟩ := (nl1 (17 + 4 * v)).2 hv
  obtain ⟨b0, eb, db, wb, hb, bb⟩ := (nl2 (17 + 4 * v)).2 hv
  have hcast : (((17 + 4 * v).toNat : Nat) : Int) = 17 + 4 * v := by omega
  have R0 : SameM ops1 abs1 ops2 abs2 (17 + 4 * v).toNat a0 b0 :=
    ⟨da, db, by rw [wa, hcast], by rw [ha, hcast], by rw [wb, hcast], by rw [hb, hcast],
      fun a b h1 h2 => by rw [ba a b h1 h2, bb a b h1 h2]⟩
  obtain ⟨p1, q1, e1, f1, R1⟩ := setRegion_rel ops1 abs1 ops2 abs2 sl1 sl2 _ a0 b0 0 0 9 9 R0
  obtain ⟨p2, q2, e2, f2, R2⟩ := setRegion_rel ops1 abs1 ops2 abs2 sl1 sl2 _ p1.1 q1.1 ((17 + 4 * v) - 8) 0 8 9 R1
  obtain ⟨p3, q3, e3, f3, R3⟩ := setRegion_rel ops1 abs1 ops2 abs2 sl1 sl2 _ p2.1 q2.1 0 ((17 + 4 * v) - 8) 9 8 R2
  have ht : tripUp 0 (len centers) 1 = centers.length := by rw [tripUp_one]; simp [len]
  obtain ⟨p4, q4, e4, f4, R4⟩ := loop_rel0 (ρ1 := M1 × Bool) (ρ2 := M2 × Bool) (SameM ops1 abs1 ops2 abs2 (17 + 4 * v).toNat)
    (Gen.K01d.buildFunctionPattern_body1 ops1 centers (len centers))
    (Gen.K01d.buildFunctionPattern_body1 ops2 centers (len centers)) centers.length
    (fun x hx s1 s2 h => k_bfp_body1_rel ops1 abs1 ops2 abs2 sl1 sl2 _ centers x hx s1 s2 h)
    centers.length 0 p3.1 q3.1 (by omega) R3
  have e4' : loop (Gen.K01d.buildFunctionPattern_body1 ops1 centers (len centers)) 1 centers.length (0 : Int) p3.1 = .next p4 := e4
  have f4' : loop (Gen.K01d.buildFunctionPattern_body1 ops2 centers (len centers)) 1 centers.length (0 : Int) q3.1 = .next q4 := f4
  obtain ⟨p5, q5, e5, f5, R5⟩ := setRegion_rel ops1 abs1 ops2 abs2 sl1 sl2 _ p4 q4 6 9 1 ((17 + 4 * v) - 17) R4
  obtain ⟨p6, q6, e6, f6, R6⟩ := setRegion_rel ops1 abs1 ops2 abs2 sl1 sl2 _ p5.1 q5.1 9 6 ((17 + 4 * v) - 17) 1 R5
  by_cases h6 : v > 6
  · obtain ⟨p7, q7, e7, f7, R7⟩ := setRegion_rel ops1 abs1 ops2 abs2 sl1 sl2 _ p6.1 q6.1 ((17 + 4 * v) - 11) 0 3 6 R6
    obtain ⟨p8, q8, e8, f8, R8⟩ := setRegion_rel ops1 abs1 ops2 abs2 sl1 sl2 _ p7.1 q7.1 0 ((17 + 4 * v) - 11) 6 3 R7
    refine ⟨p8.1, q8.1, ?_, ?_, R8⟩
    · simp [Gen.K01d.buildFunctionPattern, Gen.K01d.getDimensionForVersion, ea, e1, e2, e3, ht, e4', e5, e6, h6, e7, e8]
    · simp [Gen.K01d.buildFunctionPattern, Gen.K01d.getDimensionForVersion, eb, f1, f2, f3, ht, f4', f5, f6, h6, f7, f8]
  · refine ⟨p6.1, q6.1, ?_, ?_, R6⟩
    · simp [Gen.K01d.buildFunctionPattern, Gen.K01d.getDimensionForVersion, ea, e1, e2, e3, ht, e4', e5, e6, h6]
    · simp [Gen.K01d.buildFunctionPattern, Gen.K01d.getDimensionForVersion, eb, f1, f2, f3, ht, f4', f5, f6, h6]

end

/-! ### the symbolic matrix of k01dec is lawful -/

/-- the matrix a list of regions stands for -/
def absReg (m : RegM) : Matrix := ⟨m.1, fun x y => m.2.any (·.has x y)⟩

theorem regOps_setRegionLaw : SetRegionLaw regOps absReg := by
  intro m l t w h _ _
  constructor
  · intro hbad
    have hbad' : t < 0 ∨ l < 0 ∨ h < 1 ∨ w < 1 ∨ t + h > (m.1 : Int) ∨ l + w > (m.1 : Int) := hbad
    show (if t < 0 ∨ l < 0 ∨ h < 1 ∨ w < 1 ∨ t + h > (m.1 : Int) ∨ l + w > (m.1 : Int) then _ else _) = _
    rw [if_pos hbad']
  · intro hok
    refine ⟨(m.1, m.2 ++ [⟨l.toNat, t.toNat, w.toNat, h.toNat⟩]), ?_, rfl, rfl, rfl, ?_⟩
    · have hok' : ¬ (t < 0 ∨ l < 0 ∨ h < 1 ∨ w < 1 ∨ t + h > (m.1 : Int) ∨ l + w > (m.1 : Int)) := hok
      show (if t < 0 ∨ l < 0 ∨ h < 1 ∨ w < 1 ∨ t + h > (m.1 : Int) ∨ l + w > (m.1 : Int) then _ else _) = _
      rw [if_neg hok']
    · intro a b _ _
      have hok' : ¬ (t < 0 ∨ l < 0 ∨ h < 1 ∨ w < 1 ∨ t + h > (m.1 : Int) ∨ l + w > (m.1 : Int)) := hok
      show (m.2 ++ [(⟨l.toNat, t.toNat, w.toNat, h.toNat⟩ : Region)]).any (·.has a b) = _
      rw [List.any_append]
      congr 1
      simp only [List.any_cons, List.any_nil, Bool.or_false, Region.has]
      have e1 : decide (l.toNat ≤ a) = decide (l ≤ (a : Int)) := by apply decide_eq_decide.mpr; omega
      have e2 : decide (a < l.toNat + w.toNat) = decide ((a : Int) < l + w) := by apply decide_eq_decide.mpr; omega
      have e3 : decide (t.toNat ≤ b) = decide (t ≤ (b : Int)) := by apply decide_eq_decide.mpr; omega
      have e4 : decide (b < t.toNat + h.toNat) = decide ((b : Int) < t + h) := by apply decide_eq_decide.mpr; omega
      rw [e1, e2, e3, e4]

theorem regOps_newSquareLaw : NewSquareLaw regOps absReg := by
  intro d
  constructor
  · intro h
    exact ⟨(0, []), by show (if d < 1 then _ else _) = _; rw [if_pos h]⟩
  · intro h
    refine ⟨(d.toNat, []), by show (if d < 1 then _ else _) = _; rw [if_neg (by omega)], rfl, ?_, ?_, fun _ _ _ _ => rfl⟩
    · show ((d.toNat : Nat) : Int) = d; omega
    · show ((d.toNat : Nat) : Int) = d; omega

when_kernel Gzx.Gen.K01d.buildFunctionPattern in
/-- `Version.buildFunctionPattern()` on EVERY lawful matrix implementation, for every version of the regenerated table: no error,
    and the resulting matrix is the model's function pattern (same dimension, same modules) -/
theorem k_buildFunctionPattern_lawful {M : Type} (ops : MatOps M) (abs : M → Matrix) (sl : SetRegionLaw ops abs)
    (nl : NewSquareLaw ops abs) (v : VersionInfo) (hv : v ∈ QRTables.versions) :
    ∃ m' F, Gen.K01d.buildFunctionPattern ops (v.num : Int) (v.centers.map Int.ofNat) = .ok (m', false) ∧
      QRDec.buildFunctionPattern v = .ok F ∧ (abs m').dim = F.dim ∧ ops.width m' = (F.dim : Int) ∧ ops.height m' = (F.dim : Int) ∧
      ∀ a b, a < F.dim → b < F.dim → (abs m').bit a b = F.bit a b := by
  have hall := List.all_eq_true.mp k_buildFunctionPattern_regions v hv
  unfold bfpAgrees at hall
  cases hr : modelRegions v with
  | none => rw [hr] at hall; cases hall
  | some regs =>
    rw [hr] at hall
    simp only [Bool.and_eq_true, decide_eq_true_eq] at hall
    obtain ⟨hvalid, hreg⟩ := hall
    obtain ⟨F, hF, hFd, hFb⟩ := model_buildFunctionPattern_regions v regs hr hvalid
    obtain ⟨m1, m2, e1, e2, hd1, hd2, hw1, hh1, _, _, hb⟩ :=
      k_buildFunctionPattern_rel ops abs regOps absReg sl regOps_setRegionLaw nl regOps_newSquareLaw (v.num : Int) (by omega)
        (v.centers.map Int.ofNat)
    rw [hreg] at e2
    have hm2 : m2 = (v.dimension, regs) := by injection e2 with e2; injection e2 with e2 _; exact e2.symm
    have hdim : (17 + 4 * (v.num : Int)).toNat = v.dimension := by unfold VersionInfo.dimension; omega
    rw [hdim] at hd1 hw1 hh1 hb
    refine ⟨m1, F, e1, hF, by rw [hd1, hFd], by rw [hw1, hFd], by rw [hh1, hFd], ?_⟩
    intro a b ha hb'
    rw [hFd] at ha hb'
    rw [hb a b ha hb', hm2, hFb]
    rfl

end Gzx.Obligations.K01e
