/-
  K01e (bit_matrix_parser.go) — two small pieces of the parser's glue, regenerated on every run into `Gzx.Gen.K01de`:
  the acceptance test of `NewBitMatrixParser` (`dimension < 21 || dimension&3 != 1 || width != dimension`) = the model's
  `newParser`, and `SetMirror` (clears both caches, stores the flag) = the model's `setMirror`.
-/
import Gzx.Obligations.K01eParser
import Gzx.Gen.K01de
namespace Gzx.Obligations.K01e
open Gzx Gzx.GoM Gzx.GoVal Gzx.QRDec Gzx.Obligations.K01d

when_kernel Gzx.Gen.K01de.parserRejects in
/-- `NewBitMatrixParser` rejects exactly the matrices the model's `newParser` rejects (square matrices: `GetWidth = GetHeight`) -/
theorem k_parserRejects_eq {M : Type} (ops : MatOps M) (m : M) (A : Matrix) (hw : ops.width m = (A.dim : Int)) :
    Gen.K01de.parserRejects ops m (A.dim : Int) =
      .ok (match newParser A with | .ok _ => false | .error _ => true) := by
  have ha : iand (A.dim : Int) 3 = ((A.dim &&& 3 : Nat) : Int) := iand_natCast A.dim 3
  have hm : A.dim &&& 3 = A.dim % 4 := by
    have := Nat.and_two_pow_sub_one_eq_mod A.dim 2
    simpa using this
  unfold Gen.K01de.parserRejects newParser
  rw [ha, hm, hw]
  by_cases h : A.dim < 21 ∨ A.dim % 4 ≠ 1
  · rw [if_pos h]
    rcases h with h | h
    · have : ((A.dim : Int) < 21) := by omega
      simp [this]
    · simp; omega
  · rw [if_neg h]
    have h1 : ¬ ((A.dim : Int) < 21) := by omega
    simp [h1]; omega

/-- non-vacuity: the all-white 21 × 21 matrix is accepted, 22 × 22 is not -/
example : newParser ⟨21, fun _ _ => false⟩ = .ok { m := ⟨21, fun _ _ => false⟩ } := rfl

when_kernel Gzx.Gen.K01de.setMirror in
/-- `SetMirror(mirror)` = the model's `setMirror`: both caches cleared, the flag stored -/
theorem k_setMirror_eq (p : Parser) (b : Bool) :
    Gen.K01de.setMirror (hOf p.ver) (p.fmt.map encFI) p.mirror b =
      .ok (hOf (setMirror p b).ver, (setMirror p b).fmt.map encFI, (setMirror p b).mirror) := rfl

end Gzx.Obligations.K01e
