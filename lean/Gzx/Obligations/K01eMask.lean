/-
  K01e (qrcode/decoder/data_mask.go) — `DataMask.UnmaskBitMatrix(bits, dimension)`: the loop behind `Remask()` and the first step
  of `ReadCodewords`, regenerated on every run into `Gzx.Gen.K01de` with the mask predicate `isMasked` as an ABSTRACT function
  (the eight predicates themselves are regenerated and tied to `QRDec.maskBit` by `Obligations/C01`), proved to compute the model's
  `unmask` for every square matrix with a lawful `Flip`: module (x, y) is flipped exactly when `isMasked(y, x)`.
-/
import Gzx.Obligations.K01eMirror
import Gzx.Gen.K01de
namespace Gzx.Obligations.K01e
open Gzx Gzx.GoM Gzx.GoVal Gzx.QRDec Gzx.Obligations.K01d

/-- a counted loop from 0 with an invariant indexed by the number of iterations done -/
theorem loop_inv {σ ρ : Type} (body : Int → σ → Ctl σ ρ) (I : Nat → σ → Prop) (n : Nat)
    (hstep : ∀ k st, k < n → I k st → ∃ st', body (k : Int) st = .next st' ∧ I (k + 1) st') :
    ∀ (j k : Nat) (st : σ), k + j = n → I k st → ∃ st', loop body 1 j (k : Int) st = .next st' ∧ I n st' := by
  intro j
  induction j with
  | zero =>
    intro k st hk hI
    have : k = n := by omega
    subst this
    exact ⟨st, rfl, hI⟩
  | succ j ih =>
    intro k st hk hI
    obtain ⟨st', hb, hI'⟩ := hstep k st (by omega) hI
    rw [loop_succ, hb]
    have e : (k : Int) + 1 = ((k + 1 : Nat) : Int) := by omega
    rw [e]
    exact ih (k + 1) st' (by omega) hI'

section
variable {M : Type} (ops : MatOps M) (abs : M → Matrix) (flaw : FlipLaw ops abs) (p : Int → Int → Bool)
include flaw

/-- row `i`: the modules `(0..j-1, i)` done -/
def MaskInner (d i : Nat) (m0 : M) (j : Nat) (m1 : M) : Prop :=
  (abs m1).dim = d ∧ ops.width m1 = ops.width m0 ∧ ops.height m1 = ops.height m0 ∧
    ∀ a b, a < d → b < d →
      (abs m1).bit a b = (if b = i ∧ a < j then ((abs m0).bit a b != p (i : Int) (a : Int)) else (abs m0).bit a b)

/-- the rows `0..i-1` done -/
def MaskOuter (d : Nat) (m0 : M) (i : Nat) (m1 : M) : Prop :=
  (abs m1).dim = d ∧ ops.width m1 = ops.width m0 ∧ ops.height m1 = ops.height m0 ∧
    ∀ a b, a < d → b < d →
      (abs m1).bit a b = (if b < i then ((abs m0).bit a b != p (b : Int) (a : Int)) else (abs m0).bit a b)

when_kernel Gzx.Gen.K01de.unmaskBitMatrix in
theorem k_unmask_inner_step (d i : Nat) (hi : i < d) (m0 : M) (j : Nat) (m1 : M) (hj : j < d)
    (hI : MaskInner ops abs p d i m0 j m1) :
    ∃ m2, Gen.K01de.unmaskBitMatrix_body2 ops p (i : Int) (j : Int) m1 = .next m2 ∧ MaskInner ops abs p d i m0 (j + 1) m2 := by
  obtain ⟨hd, hw, hh, hb⟩ := hI
  simp only [Gen.K01de.unmaskBitMatrix_body2]
  cases hp : p (i : Int) (j : Int) with
  | false =>
    refine ⟨m1, by simp, hd, hw, hh, ?_⟩
    intro a b ha hb'
    rw [hb a b ha hb']
    by_cases c : b = i ∧ a < j
    · have c' : b = i ∧ a < j + 1 := ⟨c.1, by omega⟩
      rw [if_pos c, if_pos c']
    · by_cases c2 : b = i ∧ a < j + 1
      · have haj : a = j := by omega
        rw [if_neg c, if_pos c2, haj, hp]; simp
      · rw [if_neg c, if_neg c2]
  | true =>
    obtain ⟨m2, hf, hd2, hw2, hh2, hb2⟩ := flaw m1 j i (by omega) (by omega)
    refine ⟨m2, by simp [hf], by omega, by rw [hw2, hw], by rw [hh2, hh], ?_⟩
    intro a b ha hb'
    rw [hb2 a b (by omega) (by omega), hb a b ha hb']
    by_cases c0 : a = j ∧ b = i
    · obtain ⟨rfl, rfl⟩ := c0
      have c1 : ¬ (b = b ∧ a < a) := by omega
      have c2 : b = b ∧ a < a + 1 := ⟨rfl, by omega⟩
      rw [if_pos ⟨rfl, rfl⟩, if_neg c1, if_pos c2, hp]
      cases (abs m0).bit a b <;> rfl
    · rw [if_neg c0]
      by_cases c : b = i ∧ a < j
      · have c' : b = i ∧ a < j + 1 := ⟨c.1, by omega⟩
        rw [if_pos c, if_pos c']
      · have c' : ¬ (b = i ∧ a < j + 1) := by omega
        rw [if_neg c, if_neg c']

when_kernel Gzx.Gen.K01de.unmaskBitMatrix in
theorem k_unmask_outer_step (d : Nat) (m0 : M) (i : Nat) (hi : i < d) (m1 : M) (hI : MaskOuter ops abs p d m0 i m1) :
    ∃ m2, Gen.K01de.unmaskBitMatrix_body1 ops p (d : Int) (i : Int) m1 = .next m2 ∧ MaskOuter ops abs p d m0 (i + 1) m2 := by
  obtain ⟨hd, hw, hh, hb⟩ := hI
  have ht : tripUp 0 (d : Int) 1 = d := by rw [tripUp_one]; omega
  have hI0 : MaskInner ops abs p d i m1 0 m1 := ⟨hd, rfl, rfl, fun a b _ _ => by
    have c : ¬ (b = i ∧ a < 0) := by omega
    rw [if_neg c]⟩
  obtain ⟨m2, hl, hd2, hw2, hh2, hb2⟩ := loop_inv (ρ := M) (Gen.K01de.unmaskBitMatrix_body2 ops p (i : Int)) (MaskInner ops abs p d i m1) d
    (fun j st hj hI => k_unmask_inner_step ops abs flaw p d i hi m1 j st hj hI) d 0 m1 (by omega) hI0
  have hl' : loop (Gen.K01de.unmaskBitMatrix_body2 ops p (i : Int)) 1 d (0 : Int) m1 = .next m2 := hl
  refine ⟨m2, by simp only [Gen.K01de.unmaskBitMatrix_body1, ht, hl', next_thenC], hd2, by rw [hw2, hw], by rw [hh2, hh], ?_⟩
  intro a b ha hb'
  rw [hb2 a b ha hb', hb a b ha hb']
  by_cases c : b = i ∧ a < d
  · have c1 : ¬ (b < i) := by omega
    have c2 : b < i + 1 := by omega
    rw [if_pos c, if_neg c1, if_pos c2, c.1]
  · have hbi : b ≠ i := fun h => c ⟨h, ha⟩
    rw [if_neg c]
    by_cases c1 : b < i
    · rw [if_pos c1, if_pos (by omega : b < i + 1)]
    · rw [if_neg c1, if_neg (by omega : ¬ b < i + 1)]

when_kernel Gzx.Gen.K01de.unmaskBitMatrix in
/-- `UnmaskBitMatrix(bits, dimension)` = the model's `unmask` for EVERY square matrix with a lawful `Flip` and every mask predicate:
    no panic, the size is kept, module (x, y) afterwards = module (x, y) before XOR `isMasked(y, x)` -/
theorem k_unmaskBitMatrix_eq (m : M) (d : Nat) (hd : (abs m).dim = d) :
    ∃ m', Gen.K01de.unmaskBitMatrix ops p m (d : Int) = .ok m' ∧ (abs m').dim = d ∧
      ops.width m' = ops.width m ∧ ops.height m' = ops.height m ∧
      ∀ a b, a < d → b < d → (abs m').bit a b = ((abs m).bit a b != p (b : Int) (a : Int)) := by
  have ht : tripUp 0 (d : Int) 1 = d := by rw [tripUp_one]; omega
  have hI0 : MaskOuter ops abs p d m 0 m := ⟨hd, rfl, rfl, fun a b _ _ => by
    have c : ¬ (b < 0) := by omega
    rw [if_neg c]⟩
  obtain ⟨m', hl, hd', hw', hh', hb'⟩ := loop_inv (ρ := M) (Gen.K01de.unmaskBitMatrix_body1 ops p (d : Int)) (MaskOuter ops abs p d m) d
    (fun i st hi hI => k_unmask_outer_step ops abs flaw p d m i hi st hI) d 0 m (by omega) hI0
  have hl' : loop (Gen.K01de.unmaskBitMatrix_body1 ops p (d : Int)) 1 d (0 : Int) m = .next m' := hl
  refine ⟨m', by simp only [Gen.K01de.unmaskBitMatrix, ht, hl', next_thenR], hd', hw', hh', ?_⟩
  intro a b ha hb
  rw [hb' a b ha hb, if_pos hb]

end

when_kernel Gzx.Gen.K01de.unmaskBitMatrix in
/-- with the `k`-th mask predicate of the model: the result is `QRDec.unmask k` (inside the matrix) -/
theorem k_unmask_model {M : Type} (ops : MatOps M) (abs : M → Matrix) (flaw : FlipLaw ops abs) (k : Nat) (m : M) (d : Nat)
    (hd : (abs m).dim = d) :
    ∃ m', Gen.K01de.unmaskBitMatrix ops (fun i j => maskBit k i.toNat j.toNat) m (d : Int) = .ok m' ∧ (abs m').dim = d ∧
      ∀ a b, a < d → b < d → (abs m').bit a b = (unmask k (abs m)).bit a b := by
  obtain ⟨m', h1, h2, _, _, h5⟩ := k_unmaskBitMatrix_eq ops abs flaw (fun i j => maskBit k i.toNat j.toNat) m d hd
  exact ⟨m', h1, h2, fun a b ha hb => by rw [h5 a b ha hb]; simp [unmask]⟩

end Gzx.Obligations.K01e
