/-
  K01e (qrcode/decoder/bit_matrix_parser.go) — `BitMatrixParser.Mirror()`, regenerated on every run into `Gzx.Gen.K01d` (two
  nested `for` loops of Get / Flip calls on the abstract matrix), proved to compute the model's `mirrorMatrix` (transposition) for
  EVERY square matrix whose `Get` reads and whose `Flip` flips the model matrix (`GetLaw`, `FlipLaw`), for every fuel above the
  dimension.  `Obligations/K01eWord.lean` instantiates both laws with the tied word-level `BitMatrix`.
-/
import Gzx.Obligations.K01eParser
namespace Gzx.Obligations.K01e
open Gzx Gzx.GoM Gzx.GoVal Gzx.QRDec Gzx.Obligations.K01d

/-- `ops.flip` inside the matrix succeeds, flips exactly that module of the model matrix and keeps the size -/
def FlipLaw {M : Type} (ops : MatOps M) (abs : M → Matrix) : Prop :=
  ∀ (m : M) (x y : Nat), x < (abs m).dim → y < (abs m).dim →
    ∃ m', ops.flip m (x : Int) (y : Int) = .ok m' ∧ (abs m').dim = (abs m).dim ∧
      ops.width m' = ops.width m ∧ ops.height m' = ops.height m ∧
      ∀ a b, a < (abs m).dim → b < (abs m).dim →
        (abs m').bit a b = (if a = x ∧ b = y then !(abs m).bit a b else (abs m).bit a b)

/-- a `for cond` loop with a counter: `n - k` more iterations keep the invariant, then the condition fails -/
theorem whileLoop_inv {σ ρ : Type} (body : σ → Ctl σ ρ) (I : Nat → σ → Prop) (n : Nat)
    (hstep : ∀ k st, k < n → I k st → ∃ st', body st = .next st' ∧ I (k + 1) st')
    (hend : ∀ st, I n st → body st = .brk st) :
    ∀ (j k : Nat) (st : σ) (fuel : Nat), k + j = n → j < fuel → I k st →
      ∃ st', whileLoop body fuel st = .brk st' ∧ I n st' := by
  intro j
  induction j with
  | zero =>
    intro k st fuel hk hf hI
    obtain ⟨fuel, rfl⟩ : ∃ f, fuel = f + 1 := ⟨fuel - 1, by omega⟩
    have : k = n := by omega
    subst this
    exact ⟨st, by rw [whileLoop_succ, hend st hI], hI⟩
  | succ j ih =>
    intro k st fuel hk hf hI
    obtain ⟨fuel, rfl⟩ : ∃ f, fuel = f + 1 := ⟨fuel - 1, by omega⟩
    obtain ⟨st', hb, hI'⟩ := hstep k st (by omega) hI
    rw [whileLoop_succ, hb]
    exact ih (k + 1) st' fuel (by omega) (by omega) hI'

/-- one step of the inner loop on the bit functions: the modules `(x, y)` and `(y, x)` are exchanged -/
theorem inner_bits (f f0 g : Nat → Nat → Bool) (d x y : Nat) (hx : x < y) (hy : y < d)
    (hI : ∀ a b, a < d → b < d →
      f a b = if (a = x ∧ x < b ∧ b < y) ∨ (b = x ∧ x < a ∧ a < y) then f0 b a else f0 a b)
    (hg : ∀ a b, a < d → b < d → g a b = if a = x ∧ b = y then f y x else if a = y ∧ b = x then f x y else f a b) :
    ∀ a b, a < d → b < d →
      g a b = if (a = x ∧ x < b ∧ b < y + 1) ∨ (b = x ∧ x < a ∧ a < y + 1) then f0 b a else f0 a b := by
  intro a b ha hb
  rw [hg a b ha hb]
  by_cases h1 : a = x ∧ b = y
  · obtain ⟨rfl, rfl⟩ := h1
    rw [if_pos ⟨rfl, rfl⟩, hI b a hb ha]
    have c1 : ¬ ((b = a ∧ a < a ∧ a < b) ∨ (a = a ∧ a < b ∧ b < b)) := by omega
    have c2 : (a = a ∧ a < b ∧ b < b + 1) ∨ (b = a ∧ a < a ∧ a < b + 1) := by omega
    rw [if_neg c1, if_pos c2]
  · rw [if_neg h1]
    by_cases h2 : a = y ∧ b = x
    · obtain ⟨rfl, rfl⟩ := h2
      rw [if_pos ⟨rfl, rfl⟩, hI b a hb ha]
      have c1 : ¬ ((b = b ∧ b < a ∧ a < a) ∨ (a = b ∧ b < b ∧ b < a)) := by omega
      have c2 : (a = b ∧ b < b ∧ b < a + 1) ∨ (b = b ∧ b < a ∧ a < a + 1) := by omega
      rw [if_neg c1, if_pos c2]
    · rw [if_neg h2, hI a b ha hb]
      by_cases c : (a = x ∧ x < b ∧ b < y) ∨ (b = x ∧ x < a ∧ a < y)
      · have c' : (a = x ∧ x < b ∧ b < y + 1) ∨ (b = x ∧ x < a ∧ a < y + 1) := by omega
        rw [if_pos c, if_pos c']
      · have c' : ¬ ((a = x ∧ x < b ∧ b < y + 1) ∨ (b = x ∧ x < a ∧ a < y + 1)) := by omega
        rw [if_neg c, if_neg c']

section
variable {M : Type} (ops : MatOps M) (abs : M → Matrix) (law : GetLaw ops abs) (flaw : FlipLaw ops abs)
include law flaw

theorem get_v (m : M) (x y : Nat) : ops.get m (x : Int) (y : Int) = getV (abs m) x y := by
  have := law m x y
  rw [get_eq] at this
  injection this with h
  exact h.symm

/-- invariant of the inner loop (column `x`, rows `x+1 .. y-1` done) -/
def InnerInv (d x : Nat) (m0 : M) (k : Nat) (st : M × Int) : Prop :=
  st.2 = ((x + 1 + k : Nat) : Int) ∧ (abs st.1).dim = d ∧ ops.width st.1 = (d : Int) ∧ ops.height st.1 = (d : Int) ∧
    ∀ a b, a < d → b < d →
      (abs st.1).bit a b =
        (if (a = x ∧ x < b ∧ b < x + 1 + k) ∨ (b = x ∧ x < a ∧ a < x + 1 + k) then (abs m0).bit b a else (abs m0).bit a b)

/-- invariant of the outer loop (columns `0 .. x-1` done) -/
def OuterInv (d : Nat) (m0 : M) (x : Nat) (st : M × Int) : Prop :=
  st.2 = (x : Int) ∧ (abs st.1).dim = d ∧ ops.width st.1 = (d : Int) ∧ ops.height st.1 = (d : Int) ∧
    ∀ a b, a < d → b < d →
      (abs st.1).bit a b = (if a < x ∨ b < x then (abs m0).bit b a else (abs m0).bit a b)

when_kernel Gzx.Gen.K01d.mirror in
theorem k_mirror_inner_step (d x : Nat) (m0 : M) (k : Nat) (st : M × Int) (hk : x + 1 + k < d)
    (hI : InnerInv ops abs d x m0 k st) :
    ∃ st', Gen.K01d.mirror_body2 ops (x : Int) st = .next st' ∧ InnerInv ops abs d x m0 (k + 1) st' := by
  obtain ⟨m, yy⟩ := st
  obtain ⟨hy, hdim, hw, hh, hbits⟩ := hI
  simp only at hy hdim hw hh hbits
  subst hy
  have hlt : ((x + 1 + k : Nat) : Int) < (d : Int) := by omega
  have gx : ops.get m (x : Int) ((x + 1 + k : Nat) : Int) = (abs m).bit x (x + 1 + k) := by
    rw [get_v ops abs law flaw]; unfold getV; rw [hdim, if_pos ⟨by omega, hk⟩]
  have gy : ops.get m ((x + 1 + k : Nat) : Int) (x : Int) = (abs m).bit (x + 1 + k) x := by
    rw [get_v ops abs law flaw]; unfold getV; rw [hdim, if_pos ⟨hk, by omega⟩]
  have e1 : ((x + 1 + k : Nat) : Int) + 1 = ((x + 1 + (k + 1) : Nat) : Int) := by omega
  simp only [Gen.K01d.mirror_body2, hh, hlt, decide_true, if_true, gx, gy]
  by_cases hne : (abs m).bit x (x + 1 + k) = (abs m).bit (x + 1 + k) x
  · have hb : ((abs m).bit x (x + 1 + k) != (abs m).bit (x + 1 + k) x) = false := by simp [hne]
    simp only [hb, Bool.false_eq_true, if_false, next_thenC, e1]
    refine ⟨_, rfl, rfl, hdim, hw, hh, ?_⟩
    apply inner_bits (abs m).bit (abs m0).bit (abs m).bit d x (x + 1 + k) (by omega) hk hbits
    intro a b ha hb
    by_cases h1 : a = x ∧ b = x + 1 + k
    · obtain ⟨rfl, rfl⟩ := h1; rw [if_pos ⟨rfl, rfl⟩]; exact hne
    · rw [if_neg h1]
      by_cases h2 : a = x + 1 + k ∧ b = x
      · obtain ⟨rfl, rfl⟩ := h2; rw [if_pos ⟨rfl, rfl⟩]; exact hne.symm
      · rw [if_neg h2]
  · have hb : ((abs m).bit x (x + 1 + k) != (abs m).bit (x + 1 + k) x) = true := by simp [hne]
    obtain ⟨m1, hf1, hd1, hw1, hh1, hb1⟩ := flaw m (x + 1 + k) x (by omega) (by omega)
    obtain ⟨m2, hf2, hd2, hw2, hh2, hb2⟩ := flaw m1 x (x + 1 + k) (by omega) (by omega)
    simp only [hb, if_true, hf1, hf2, tryC_ok, next_thenC, e1]
    refine ⟨_, rfl, rfl, (by show (abs m2).dim = d; omega), (by show ops.width m2 = _; rw [hw2, hw1, hw]), (by show ops.height m2 = _; rw [hh2, hh1, hh]), ?_⟩
    apply inner_bits (abs m).bit (abs m0).bit (abs m2).bit d x (x + 1 + k) (by omega) hk hbits
    intro a b ha hb'
    rw [hb2 a b (by omega) (by omega), hb1 a b (by omega) (by omega)]
    have hxy : (!(abs m).bit x (x + 1 + k)) = (abs m).bit (x + 1 + k) x := by
      cases h1 : (abs m).bit x (x + 1 + k) <;> cases h2 : (abs m).bit (x + 1 + k) x <;> simp_all
    have hyx : (!(abs m).bit (x + 1 + k) x) = (abs m).bit x (x + 1 + k) := by
      cases h1 : (abs m).bit x (x + 1 + k) <;> cases h2 : (abs m).bit (x + 1 + k) x <;> simp_all
    by_cases h1 : a = x ∧ b = x + 1 + k
    · obtain ⟨rfl, rfl⟩ := h1
      have c : ¬ (a = a + 1 + k ∧ a + 1 + k = a) := by omega
      rw [if_pos ⟨rfl, rfl⟩, if_neg c, if_pos ⟨rfl, rfl⟩]; exact hxy
    · rw [if_neg h1, if_neg h1]
      by_cases h2 : a = x + 1 + k ∧ b = x
      · obtain ⟨rfl, rfl⟩ := h2; rw [if_pos ⟨rfl, rfl⟩, if_pos ⟨rfl, rfl⟩]; exact hyx
      · rw [if_neg h2, if_neg h2]

omit law flaw in
when_kernel Gzx.Gen.K01d.mirror in
theorem k_mirror_inner_end (d x : Nat) (m0 : M) (k : Nat) (st : M × Int) (hk : x + 1 + k = d)
    (hI : InnerInv ops abs d x m0 k st) : Gen.K01d.mirror_body2 ops (x : Int) st = .brk st := by
  obtain ⟨m, yy⟩ := st
  obtain ⟨hy, hdim, hw, hh, hbits⟩ := hI
  simp only at hy hh
  subst hy
  have hlt : ¬ (((x + 1 + k : Nat) : Int) < (d : Int)) := by omega
  simp only [Gen.K01d.mirror_body2, hh, hlt, decide_false, Bool.false_eq_true, if_false]

when_kernel Gzx.Gen.K01d.mirror in
theorem k_mirror_outer_step (d : Nat) (m0 : M) (fuel : Nat) (hf : d < fuel) (x : Nat) (st : M × Int) (hx : x < d)
    (hI : OuterInv ops abs d m0 x st) :
    ∃ st', Gen.K01d.mirror_body1 ops fuel st = .next st' ∧ OuterInv ops abs d m0 (x + 1) st' := by
  obtain ⟨mx, xx⟩ := st
  obtain ⟨hxx, hdim, hw, hh, hbits⟩ := hI
  simp only at hxx hdim hw hh hbits
  subst hxx
  have hlt : ((x : Int) < (d : Int)) := by omega
  have e1 : (x : Int) + 1 = ((x + 1 + 0 : Nat) : Int) := by omega
  have hI0 : InnerInv ops abs d x mx 0 (mx, ((x + 1 + 0 : Nat) : Int)) :=
    ⟨rfl, hdim, hw, hh, fun a b _ _ => by
      have c : ¬ ((a = x ∧ x < b ∧ b < x + 1 + 0) ∨ (b = x ∧ x < a ∧ a < x + 1 + 0)) := by omega
      rw [if_neg c]⟩
  obtain ⟨st', hloop, hI'⟩ := whileLoop_inv (ρ := M) (Gen.K01d.mirror_body2 ops (x : Int)) (InnerInv ops abs d x mx) (d - (x + 1))
    (fun k st hk hI => k_mirror_inner_step ops abs law flaw d x mx k st (by omega) hI)
    (fun st hI => k_mirror_inner_end ops abs d x mx (d - (x + 1)) st (by omega) hI)
    (d - (x + 1)) 0 _ fuel (by omega) (by omega) hI0
  obtain ⟨m', yy⟩ := st'
  obtain ⟨_, hdim', hw', hh', hbits'⟩ := hI'
  simp only at hdim' hw' hh' hbits'
  simp only [Gen.K01d.mirror_body1, hw, hlt, decide_true, if_true, e1, hloop, brk_thenC]
  refine ⟨_, rfl, (by show _ = ((x + 1 : Nat) : Int); omega), hdim', hw', hh', ?_⟩
  intro a b ha hb
  show (abs m').bit a b = _
  rw [hbits' a b ha hb]
  by_cases c : (a = x ∧ x < b ∧ b < x + 1 + (d - (x + 1))) ∨ (b = x ∧ x < a ∧ a < x + 1 + (d - (x + 1)))
  · rw [if_pos c, hbits b a hb ha]
    have c1 : ¬ (b < x ∨ a < x) := by omega
    have c2 : a < x + 1 ∨ b < x + 1 := by omega
    rw [if_neg c1, if_pos c2]
  · rw [if_neg c, hbits a b ha hb]
    by_cases c3 : a < x ∨ b < x
    · have c4 : a < x + 1 ∨ b < x + 1 := by omega
      rw [if_pos c3, if_pos c4]
    · rw [if_neg c3]
      by_cases c5 : a < x + 1 ∨ b < x + 1
      · have : a = x ∧ b = x := by omega
        obtain ⟨rfl, rfl⟩ := this
        rw [if_pos c5]
      · rw [if_neg c5]

omit law flaw in
when_kernel Gzx.Gen.K01d.mirror in
theorem k_mirror_outer_end (d : Nat) (m0 : M) (fuel : Nat) (st : M × Int)
    (hI : OuterInv ops abs d m0 d st) : Gen.K01d.mirror_body1 ops fuel st = .brk st := by
  obtain ⟨m, xx⟩ := st
  obtain ⟨hxx, hdim, hw, hh, hbits⟩ := hI
  simp only at hxx hw
  subst hxx
  have hlt : ¬ ((d : Int) < (d : Int)) := by omega
  simp only [Gen.K01d.mirror_body1, hw, hlt, decide_false, Bool.false_eq_true, if_false]

when_kernel Gzx.Gen.K01d.mirror in
/-- `Mirror()` = the model's `mirrorMatrix` (transposition) for EVERY square matrix with lawful `Get` / `Flip`, every fuel above
    the dimension: no panic, the size is kept, module `(a, b)` afterwards is module `(b, a)` before -/
theorem k_mirror_eq (m : M) (d : Nat) (hd : (abs m).dim = d) (hw : ops.width m = (d : Int)) (hh : ops.height m = (d : Int))
    (fuel : Nat) (hf : d < fuel) :
    ∃ m', Gen.K01d.mirror ops fuel m = .ok m' ∧ (abs m').dim = d ∧ ops.width m' = (d : Int) ∧ ops.height m' = (d : Int) ∧
      ∀ a b, a < d → b < d → (abs m').bit a b = (mirrorMatrix (abs m)).bit a b := by
  have hI0 : OuterInv ops abs d m 0 (m, ((0 : Nat) : Int)) :=
    ⟨rfl, hd, hw, hh, fun a b _ _ => by
      have c : ¬ (a < 0 ∨ b < 0) := by omega
      rw [if_neg c]⟩
  obtain ⟨st', hloop, hI'⟩ := whileLoop_inv (ρ := M) (Gen.K01d.mirror_body1 ops fuel) (OuterInv ops abs d m) d
    (fun x st hx hI => k_mirror_outer_step ops abs law flaw d m fuel hf x st hx hI)
    (fun st hI => k_mirror_outer_end ops abs d m fuel st hI)
    d 0 _ fuel (by omega) hf hI0
  obtain ⟨m', xx⟩ := st'
  obtain ⟨_, hdim', hw', hh', hbits'⟩ := hI'
  simp only at hdim' hw' hh' hbits'
  have hloop' : whileLoop (Gen.K01d.mirror_body1 ops fuel) fuel (m, (0 : Int)) = .brk (m', xx) := hloop
  refine ⟨m', by simp only [Gen.K01d.mirror, hloop', brk_thenR], hdim', hw', hh', ?_⟩
  intro a b ha hb
  rw [hbits' a b ha hb, if_pos (Or.inl ha)]
  rfl

end

/-- non-vacuity: the laws hold for the function model of a matrix itself (dimension 21) -/
example : ∃ (ops : MatOps Matrix) (abs : Matrix → Matrix), GetLaw ops abs ∧ FlipLaw ops abs :=
  ⟨⟨⟨0, fun _ _ => false⟩, fun m => m.dim, fun m => m.dim, fun m x y => getV m x.toNat y.toNat,
     fun m x y => .ok ⟨m.dim, fun a b => if a = x.toNat ∧ b = y.toNat then !m.bit a b else m.bit a b⟩,
     fun m _ _ _ _ => .ok (m, false), fun _ => .ok (⟨0, fun _ _ => false⟩, true)⟩, id,
   fun m x y => by simp [get_eq],
   fun m x y _ _ => ⟨_, rfl, rfl, rfl, rfl, fun a b _ _ => by simp⟩⟩

end Gzx.Obligations.K01e
