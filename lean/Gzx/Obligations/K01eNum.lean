/-
  K01e (decoded_bit_stream_parser.go) — `DecodedBitStreamParser_decodeNumericSegment`, regenerated on every run into
  `Gzx.Gen.K01de` over a BitSource state, proved equal to the BIT-LIST model `QRDec.decodeNumeric` (Model/QRDecoder.lean: the
  function inside C01's round-trip theorems) on the bits from the cursor on, for EVERY stream (well-formed source over bytes),
  every digit count and every accumulated prefix: the same digits appended, the same cursor afterwards, `FormatException` exactly
  when the model fails (a failed read, a group ≥ 1000 / ≥ 100 / ≥ 10).
-/
import Gzx.Obligations.K01eStream
import Gzx.Model.QRDecoder
namespace Gzx.Obligations.K01e
open Gzx Gzx.GoM Gzx.GoVal Gzx.BitSource

when_kernel Gzx.Gen.K01de.readBits in
/-- the regenerated `ReadBits` on a stream, against the bit-list model: value and cursor after a successful read (the unread
    bits are the model's rest), the error flag with the cursor unchanged otherwise -/
theorem k_readBits_stream (s : BitSource) (hs : Stream s) (n : Nat) (ni : Int) (hni : ni = (n : Int)) (fuel : Nat) (hf : 5 ≤ fuel) :
    match QRDec.readBitsF n (unread s) with
    | .ok (v, rest) => ∃ s', Gen.K01de.readBits fuel (bytes s.bytes) (s.byteOffset : Int) (s.bitOffset : Int) ni =
          .ok ((v : Int), false, (s'.byteOffset : Int), (s'.bitOffset : Int)) ∧ unread s' = rest ∧ Stream s' ∧ s'.bytes = s.bytes
    | .error _ => Gen.K01de.readBits fuel (bytes s.bytes) (s.byteOffset : Int) (s.bitOffset : Int) ni =
          .ok (0, true, (s.byteOffset : Int), (s.bitOffset : Int)) := by
  subst hni
  rw [k_readBits_wf s hs.1 n fuel hf]
  have h := readBits_refines s hs n
  unfold QRDec.readBitsF
  cases hq : QRDec.readBits n (unread s) with
  | ok p =>
    obtain ⟨v, rest⟩ := p
    rw [hq] at h
    obtain ⟨s', hr, hu, hst⟩ := h
    exact ⟨s', by rw [hr]; rfl, hu, hst, readBits_bytes hr⟩
  | error e =>
    rw [hq] at h
    have he : e = .illegalArg := by
      unfold QRDec.readBits at hq
      split at hq <;> cases hq
      rfl
    subst he
    simp only [h, encRB]

/-! ### the model, split like the Go code: a loop of three-digit groups, then the remainder -/

/-- `k` groups of three digits -/
def numThrees : Nat → List Bool → List Nat → Res (List Nat × List Bool)
  | 0, bits, acc => .ok (acc, bits)
  | k + 1, bits, acc =>
    match QRDec.readBitsF 10 bits with
    | .error e => .error e
    | .ok (v, bits) =>
      if v ≥ 1000 then .error .format
      else numThrees k bits (acc ++ [48 + v / 100, 48 + (v / 10) % 10, 48 + v % 10])

theorem decodeNumeric_split : ∀ (k count : Nat) (bits : List Bool) (acc : List Nat), count / 3 = k →
    QRDec.decodeNumeric count bits acc =
      match numThrees k bits acc with
      | .error e => .error e
      | .ok (acc', bits') => QRDec.decodeNumeric (count % 3) bits' acc' := by
  intro k
  induction k with
  | zero =>
    intro count bits acc h
    have : count % 3 = count := by omega
    simp only [numThrees, this]
  | succ k ih =>
    intro count bits acc h
    obtain ⟨n, rfl⟩ : ∃ n, count = n + 3 := ⟨count - 3, by omega⟩
    have hm : (n + 3) % 3 = n % 3 := by omega
    simp only [QRDec.decodeNumeric, numThrees, bind, Except.bind, hm]
    cases QRDec.readBitsF 10 bits with
    | error e => rfl
    | ok p =>
      obtain ⟨v, bits'⟩ := p
      simp only
      split
      · rfl
      · exact ih n bits' _ (by omega)

theorem bytes_append (a b : List Nat) : bytes (a ++ b) = bytes a ++ bytes b := by simp [bytes]

when_kernel Gzx.Gen.K01de.decodeNumericSegment in
/-- the `for count >= 3` loop = `count / 3` groups of the model -/
theorem k_num_loop (fb : Nat) (hfb : 5 ≤ fb) : ∀ (k count : Nat) (s : BitSource) (acc : List Nat) (fl : Nat),
    Stream s → count / 3 = k → k < fl →
    match numThrees k (unread s) acc with
    | .ok (acc', rest) => ∃ s',
        whileLoop (Gen.K01de.decodeNumericSegment_body1 fb (bytes s.bytes)) fl
            ((s.byteOffset : Int), (s.bitOffset : Int), bytes acc, (count : Int)) =
          .brk ((s'.byteOffset : Int), (s'.bitOffset : Int), bytes acc', ((count % 3 : Nat) : Int)) ∧
        unread s' = rest ∧ Stream s' ∧ s'.bytes = s.bytes
    | .error _ => ∃ r a b,
        whileLoop (Gen.K01de.decodeNumericSegment_body1 fb (bytes s.bytes)) fl
            ((s.byteOffset : Int), (s.bitOffset : Int), bytes acc, (count : Int)) = .ret (r, true, a, b, r) := by
  intro k
  induction k with
  | zero =>
    intro count s acc fl hs hk hf
    obtain ⟨fl, rfl⟩ : ∃ f, fl = f + 1 := ⟨fl - 1, by omega⟩
    have h3 : ¬ ((count : Int) ≥ 3) := by omega
    have hm : count % 3 = count := by omega
    simp only [numThrees]
    refine ⟨s, ?_, rfl, hs, rfl⟩
    rw [whileLoop_succ]
    simp only [Gen.K01de.decodeNumericSegment_body1, h3, decide_false, Bool.false_eq_true, if_false, hm]
  | succ k ih =>
    intro count s acc fl hs hk hf
    obtain ⟨fl, rfl⟩ : ∃ f, fl = f + 1 := ⟨fl - 1, by omega⟩
    have h3 : ((count : Int) ≥ 3) := by omega
    have hrb := k_readBits_stream s hs 10 10 rfl fb hfb
    simp only [numThrees]
    rw [whileLoop_succ]
    simp only [Gen.K01de.decodeNumericSegment_body1, h3, decide_true, if_true]
    cases hq : QRDec.readBitsF 10 (unread s) with
    | error e =>
      rw [hq] at hrb
      simp only [hrb, tryC_ok]
      exact ⟨_, _, _, rfl⟩
    | ok p =>
      obtain ⟨v, rest⟩ := p
      rw [hq] at hrb
      obtain ⟨s1, hr, hu, hst, hby⟩ := hrb
      simp only [hr, tryC_ok]
      by_cases hv : v ≥ 1000
      · have hv' : ((v : Int) ≥ 1000) := by omega
        simp only [hv, hv', if_true, decide_true]
        exact ⟨_, _, _, rfl⟩
      · have hv' : ¬ ((v : Int) ≥ 1000) := by omega
        have d1 : Int.tdiv (v : Int) 100 = ((v / 100 : Nat) : Int) := tdiv_natCast v 100
        have d2 : Int.tdiv (v : Int) 10 = ((v / 10 : Nat) : Int) := tdiv_natCast v 10
        have d3 : Int.tmod ((v / 10 : Nat) : Int) 10 = (((v / 10) % 10 : Nat) : Int) := tmod_natCast (v / 10) 10
        have d4 : Int.tmod (v : Int) 10 = ((v % 10 : Nat) : Int) := tmod_natCast v 10
        have w1 : wrap 8 (48 + ((v / 100 : Nat) : Int)) = ((48 + v / 100 : Nat) : Int) := by
          rw [wrap_of_lt 8 _ (by omega) (by omega)]; omega
        have w2 : wrap 8 (48 + (((v / 10) % 10 : Nat) : Int)) = ((48 + (v / 10) % 10 : Nat) : Int) := by
          rw [wrap_of_lt 8 _ (by omega) (by omega)]; omega
        have w3 : wrap 8 (48 + ((v % 10 : Nat) : Int)) = ((48 + v % 10 : Nat) : Int) := by
          rw [wrap_of_lt 8 _ (by omega) (by omega)]; omega
        have hacc : bytes acc ++ [((48 + v / 100 : Nat) : Int)] ++ [((48 + (v / 10) % 10 : Nat) : Int)] ++ [((48 + v % 10 : Nat) : Int)] =
            bytes (acc ++ [48 + v / 100, 48 + (v / 10) % 10, 48 + v % 10]) := by
          simp [bytes]
        have hc : (count : Int) - 3 = ((count - 3 : Nat) : Int) := by omega
        simp only [hv, hv', if_false, decide_false, Bool.false_eq_true, d1, d2, d3, d4, w1, w2, w3, hacc, hc]
        have ih' := ih (count - 3) s1 (acc ++ [48 + v / 100, 48 + (v / 10) % 10, 48 + v % 10]) fl hst (by omega) (by omega)
        rw [hby, hu] at ih'
        have hm : (count - 3) % 3 = count % 3 := by omega
        rw [hm] at ih'
        cases hn : numThrees k rest (acc ++ [48 + v / 100, 48 + (v / 10) % 10, 48 + v % 10]) with
        | error e => rw [hn] at ih'; exact ih'
        | ok q =>
          obtain ⟨acc', rest'⟩ := q
          rw [hn] at ih'
          obtain ⟨s', h1, h2, h3', h4⟩ := ih'
          exact ⟨s', h1, h2, h3', h4⟩

when_kernel Gzx.Gen.K01de.decodeNumericSegment in
/-- `DecodedBitStreamParser_decodeNumericSegment(bits, result, count)` = the bit-list model `QRDec.decodeNumeric` on the unread
    bits, for EVERY stream, count and prefix (fuel ≥ 5 and above `count / 3`): the same digits appended to `result`, the cursor
    where the model's remaining bits start, and the error flag exactly when the model fails -/
theorem k_decodeNumericSegment_eq (s : BitSource) (hs : Stream s) (count : Nat) (acc : List Nat) (fuel : Nat)
    (hf5 : 5 ≤ fuel) (hfc : count / 3 < fuel) :
    match QRDec.decodeNumeric count (unread s) acc with
    | .ok (out, rest) => ∃ s',
        Gen.K01de.decodeNumericSegment fuel (bytes s.bytes) (s.byteOffset : Int) (s.bitOffset : Int) (bytes acc) (count : Int) =
          .ok (bytes out, false, (s'.byteOffset : Int), (s'.bitOffset : Int), bytes out) ∧
        unread s' = rest ∧ Stream s' ∧ s'.bytes = s.bytes
    | .error _ => ∃ r a b,
        Gen.K01de.decodeNumericSegment fuel (bytes s.bytes) (s.byteOffset : Int) (s.bitOffset : Int) (bytes acc) (count : Int) =
          .ok (r, true, a, b, r) := by
  have hl := k_num_loop fuel hf5 (count / 3) count s acc fuel hs rfl hfc
  rw [decodeNumeric_split (count / 3) count _ _ rfl]
  cases hn : numThrees (count / 3) (unread s) acc with
  | error e =>
    rw [hn] at hl
    obtain ⟨r, a, b, hw⟩ := hl
    simp only [Gen.K01de.decodeNumericSegment, hw, ret_thenR]
    exact ⟨r, a, b, rfl⟩
  | ok q =>
    obtain ⟨acc', rest⟩ := q
    rw [hn] at hl
    obtain ⟨s1, hw, hu, hst, hby⟩ := hl
    simp only [Gen.K01de.decodeNumericSegment, hw, brk_thenR]
    have hr3 : count % 3 < 3 := Nat.mod_lt _ (by decide)
    generalize count % 3 = r at hr3
    have rb7 := k_readBits_stream s1 hst 7 7 rfl fuel hf5
    have rb4 := k_readBits_stream s1 hst 4 4 rfl fuel hf5
    rw [hby, hu] at rb7 rb4
    match r, hr3 with
    | 0, _ =>
      simp only [QRDec.decodeNumeric]
      exact ⟨s1, by simp, hu, hst, hby⟩
    | 1, _ =>
      simp only [QRDec.decodeNumeric, bind, Except.bind]
      cases hq : QRDec.readBitsF 4 rest with
      | error e =>
        rw [hq] at rb4
        simp [rb4]
      | ok p =>
        obtain ⟨v, rest2⟩ := p
        rw [hq] at rb4
        obtain ⟨s2, hr, hu2, hst2, hby2⟩ := rb4
        by_cases hv : v ≥ 10
        · have hv' : ((v : Int) ≥ 10) := by omega
          simp [hr, hv, hv']
        · have hv' : ¬ ((v : Int) ≥ 10) := by omega
          have w1 : wrap 8 (48 + (v : Int)) = ((48 + v : Nat) : Int) := by
            rw [wrap_of_lt 8 _ (by omega) (by omega)]; omega
          have hacc : bytes acc' ++ [((48 + v : Nat) : Int)] = bytes (acc' ++ [48 + v]) := by simp [bytes]
          simp only [hv, if_false]
          refine ⟨s2, ?_, hu2, hst2, hby2⟩
          simp only [hr, tryC_ok, hv', decide_false, Bool.false_eq_true, if_false, w1, hacc]
          simp
    | 2, _ =>
      simp only [QRDec.decodeNumeric, bind, Except.bind]
      cases hq : QRDec.readBitsF 7 rest with
      | error e =>
        rw [hq] at rb7
        simp [rb7]
      | ok p =>
        obtain ⟨v, rest2⟩ := p
        rw [hq] at rb7
        obtain ⟨s2, hr, hu2, hst2, hby2⟩ := rb7
        by_cases hv : v ≥ 100
        · have hv' : ((v : Int) ≥ 100) := by omega
          simp [hr, hv, hv']
        · have hv' : ¬ ((v : Int) ≥ 100) := by omega
          have d2 : Int.tdiv (v : Int) 10 = ((v / 10 : Nat) : Int) := tdiv_natCast v 10
          have d4 : Int.tmod (v : Int) 10 = ((v % 10 : Nat) : Int) := tmod_natCast v 10
          have w1 : wrap 8 (48 + ((v / 10 : Nat) : Int)) = ((48 + v / 10 : Nat) : Int) := by
            rw [wrap_of_lt 8 _ (by omega) (by omega)]; omega
          have w2 : wrap 8 (48 + ((v % 10 : Nat) : Int)) = ((48 + v % 10 : Nat) : Int) := by
            rw [wrap_of_lt 8 _ (by omega) (by omega)]; omega
          have hacc : bytes acc' ++ [((48 + v / 10 : Nat) : Int)] ++ [((48 + v % 10 : Nat) : Int)] =
              bytes (acc' ++ [48 + v / 10, 48 + v % 10]) := by simp [bytes]
          simp only [hv, if_false]
          refine ⟨s2, ?_, hu2, hst2, hby2⟩
          simp only [hr, tryC_ok, hv', decide_false, Bool.false_eq_true, if_false, d2, d4, w1, w2, hacc]
          simp
    | n + 3, h => omega

/-- non-vacuity: "12345" = groups 123 (10 bits) and 45 (7 bits) -/
example : Stream (BitSource.new [0x1E, 0xD6, 0x80]) := stream_new _ (by decide)
example : Gen.K01de.decodeNumericSegment 5 (bytes [0x1E, 0xD6, 0x80]) 0 0 [] 5 =
    .ok ([49, 50, 51, 52, 53], false, 2, 1, [49, 50, 51, 52, 53]) := by decide

end Gzx.Obligations.K01e
