/-
  K01e — the BYTE PACKING of the zig-zag loop of `ReadCodewords` (`packBit`: shift each data bit into `currentByte`, store every
  eighth) is the model's `bitsToBytes` (Model/QRBits.lean): `pack_eq` for every bit list and every length of `result`; hence
  (`k_zigzag_codewords`) the regenerated loop returns the model's codewords, the model's `resultOffset`, and panics with an
  index fault exactly when the model reports `result[resultOffset]` (more data modules than `8 * len(result)`).
-/
import Gzx.Obligations.K01eZig
namespace Gzx.Obligations.K01e
open Gzx Gzx.GoM Gzx.GoVal Gzx.QRDec Gzx.Obligations.K01d
open Gzx.BitSource (foldl_bits)

/-- fewer than eight bits in a row only accumulate -/
theorem pack_partial (res : List Nat) (off : Nat) : ∀ (w : List Bool) (cur k : Nat), k + w.length < 8 →
    w.foldlM packBit (res, off, cur, k) = .ok (res, off, cur * 2 ^ w.length + natOfBits w, k + w.length) := by
  intro w
  induction w with
  | nil => intro cur k _; simp [natOfBits, pure, Except.pure]
  | cons b w ih =>
    intro cur k h
    have hk : ¬ (k + 1 = 8) := by simp at h; omega
    simp only [List.foldlM, packBit, hk, if_false, bind, Except.bind]
    rw [ih (2 * cur + b.toNat) (k + 1) (by simp at h ⊢; omega)]
    have hb := foldl_bits w (2 * 0 + b.toNat)
    have e : natOfBits (b :: w) = (2 * 0 + b.toNat) * 2 ^ w.length + natOfBits w := hb
    rw [e]
    simp only [List.length_cons, Nat.pow_succ]
    have e1 : (2 * cur + b.toNat) * 2 ^ w.length = cur * (2 ^ w.length * 2) + b.toNat * 2 ^ w.length := by
      rw [Nat.add_mul, Nat.mul_comm (2 ^ w.length) 2, ← Nat.mul_assoc, Nat.mul_comm 2 cur]
    have e2 : k + 1 + w.length = k + (w.length + 1) := by omega
    have e3 : (2 * 0 + b.toNat) * 2 ^ w.length = b.toNat * 2 ^ w.length := by simp
    rw [e1, e2, e3, Nat.add_assoc]

/-- eight bits from a byte boundary store one byte -/
theorem pack_byte (res : List Nat) (off : Nat) (w : List Bool) (hw : w.length = 8) :
    w.foldlM packBit (res, off, 0, 0) =
      if off < res.length then .ok (res.set off (natOfBits w), off + 1, 0, 0) else .error oob := by
  have hsplit : w = w.take 7 ++ w.drop 7 := (List.take_append_drop 7 w).symm
  obtain ⟨b, hb⟩ : ∃ b, w.drop 7 = [b] := by
    have hl : (w.drop 7).length = 1 := by rw [List.length_drop]; omega
    match hd : w.drop 7, hl with
    | [b], _ => exact ⟨b, rfl⟩
  have h7 : (w.take 7).length = 7 := by rw [List.length_take]; omega
  rw [hsplit, hb, List.foldlM_append, pack_partial res off (w.take 7) 0 0 (by omega)]
  simp only [bind, Except.bind, List.foldlM, packBit, h7, pure, Except.pure]
  have hv : natOfBits (w.take 7 ++ [b]) = natOfBits (w.take 7) * 2 + b.toNat := by
    rw [BitSource.natOfBits_append]; simp [natOfBits]
  have hlt : natOfBits (w.take 7 ++ [b]) < 256 := by
    have := natOfBits_lt (w.take 7 ++ [b])
    rw [List.length_append, h7] at this
    exact this
  rw [hv] at hlt ⊢
  have e : 2 * (0 * 2 ^ 7 + natOfBits (w.take 7)) + b.toNat = natOfBits (w.take 7) * 2 + b.toNat := by omega
  simp only [Nat.zero_add, e, if_true]
  rw [Nat.mod_eq_of_lt hlt]
  by_cases hoff : off < res.length <;> simp [hoff]

theorem set_mid_nat (pre : List Nat) (v : Nat) (n : Nat) :
    (pre ++ List.replicate (n + 1) 0).set pre.length v = (pre ++ [v]) ++ List.replicate n 0 := by
  rw [List.replicate_succ, List.set_append_right _ _ (Nat.le_refl _)]
  simp

/-- the packing fold = the model's `bitsToBytes`, the offset, the pending bits; an index fault iff there are more than `n` bytes -/
theorem pack_general : ∀ (n : Nat) (bits : List Bool) (pre : List Nat),
    bits.foldlM packBit (pre ++ List.replicate n 0, pre.length, 0, 0) =
      if bits.length / 8 > n then .error oob
      else .ok (pre ++ bitsToBytes n bits ++ List.replicate (n - bits.length / 8) 0, pre.length + bits.length / 8,
        natOfBits (bits.drop (8 * (bits.length / 8))), bits.length % 8) := by
  intro n
  induction n with
  | zero =>
    intro bits pre
    by_cases hs : bits.length < 8
    · have h0 : bits.length / 8 = 0 := by omega
      have hm : bits.length % 8 = bits.length := by omega
      rw [pack_partial _ _ bits 0 0 (by omega), h0, hm]
      simp [bitsToBytes]
    · have hsplit : bits = bits.take 8 ++ bits.drop 8 := (List.take_append_drop 8 bits).symm
      have h8 : (bits.take 8).length = 8 := by rw [List.length_take]; omega
      have hq : bits.length / 8 > 0 := by omega
      rw [if_pos hq, hsplit, List.foldlM_append, pack_byte _ _ _ h8]
      simp [bind, Except.bind]
  | succ n ih =>
    intro bits pre
    by_cases hs : bits.length < 8
    · have h0 : bits.length / 8 = 0 := by omega
      have hm : bits.length % 8 = bits.length := by omega
      rw [pack_partial _ _ bits 0 0 (by omega), h0, hm]
      simp [bitsToBytes, hs]
    · have hsplit : bits = bits.take 8 ++ bits.drop 8 := (List.take_append_drop 8 bits).symm
      have h8 : (bits.take 8).length = 8 := by rw [List.length_take]; omega
      have hlen : (pre ++ List.replicate (n + 1) 0).length = pre.length + n + 1 := by simp; omega
      have hb : bitsToBytes (n + 1) bits = natOfBits (bits.take 8) :: bitsToBytes n (bits.drop 8) := by
        simp [bitsToBytes, hs]
      have hd : (bits.drop 8).length = bits.length - 8 := List.length_drop
      have hq : (bits.drop 8).length / 8 = bits.length / 8 - 1 := by rw [hd]; omega
      have hr : (bits.drop 8).length % 8 = bits.length % 8 := by rw [hd]; omega
      have hdd : (bits.drop 8).drop (8 * ((bits.drop 8).length / 8)) = bits.drop (8 * (bits.length / 8)) := by
        rw [List.drop_drop, hq]; congr 1; omega
      conv => lhs; rw [hsplit, List.foldlM_append, pack_byte _ _ _ h8]
      rw [if_pos (by rw [hlen]; omega)]
      simp only [bind, Except.bind, set_mid_nat]
      have ih' := ih (bits.drop 8) (pre ++ [natOfBits (bits.take 8)])
      have hl1 : (pre ++ [natOfBits (bits.take 8)]).length = pre.length + 1 := by simp
      rw [hl1] at ih'
      rw [ih', hdd, hq, hr, hb]
      have hge : bits.length / 8 ≥ 1 := by omega
      by_cases hgt : bits.length / 8 > n + 1
      · rw [if_pos (by omega), if_pos hgt]
      · rw [if_neg (by omega), if_neg hgt]
        congr 2
        · simp only [List.append_assoc, List.singleton_append]
          congr 3; omega
        · have e : pre.length + 1 + (bits.length / 8 - 1) = pre.length + bits.length / 8 := by omega
          rw [e]

/-- the packing of the zig-zag loop into a fresh `result` of `total` bytes -/
theorem pack_eq (bits : List Bool) (total : Nat) :
    bits.foldlM packBit (List.replicate total 0, 0, 0, 0) =
      if bits.length / 8 > total then .error oob
      else .ok (bitsToBytes total bits ++ List.replicate (total - bits.length / 8) 0, bits.length / 8,
        natOfBits (bits.drop (8 * (bits.length / 8))), bits.length % 8) := by
  have := pack_general total bits []
  simpa using this

when_kernel Gzx.Gen.K01de.zigzag in
/-- the regenerated zig-zag loop on `result := make([]byte, total)`: with `bits` the model's data bits
    (`readDataBits fp m (zigzagCells dim)`), it returns the model's codewords `bitsToBytes total bits` (zero-padded when the symbol
    has fewer), `resultOffset = len(bits) / 8` — the value `ReadCodewords` compares with `total` — and it panics with an index
    fault exactly when the model reports the fault `result[resultOffset]` -/
theorem k_zigzag_codewords {M : Type} (ops : MatOps M) (abs : M → Matrix) (law : GetLaw ops abs) (fp m : M) (dim total : Nat)
    (fuel : Nat) (hf : dim < fuel) (bits : List Bool) (hbits : readDataBits (abs fp) (abs m) (zigzagCells dim) [] = .ok bits) :
    Gen.K01de.zigzag ops fuel m (dim : Int) fp true (bytes (List.replicate total 0)) =
      if bits.length / 8 > total then .error oob
      else .ok (bytes (bitsToBytes total bits ++ List.replicate (total - bits.length / 8) 0), ((bits.length / 8 : Nat) : Int), m) := by
  rw [dataBits_model] at hbits
  injection hbits with hbits
  rw [k_zigzag_eq ops abs law fp m dim _ fuel hf, hbits, pack_eq]
  by_cases hgt : bits.length / 8 > total <;> simp [hgt]

end Gzx.Obligations.K01e
