/-
  K01e (qrcode/decoder/bit_matrix_parser.go) — `BitMatrixParser.ReadFormatInformation` and `ReadVersion`, regenerated on every
  run into `Gzx.Gen.K01d` (wp k01dec), proved equal to the model `Model/QRDecoder.lean` (`readFormatInformation`,
  `readVersion`: the functions under C01's round trip, C05's tolerance and C06's totality theorems).

  The matrix is abstract (`ops : MatOps M`); the theorems hold for every `ops` whose `Get` reads the model matrix (`GetLaw`) and
  whose `GetHeight` is its dimension — `Obligations/K01eWord.lean` instantiates them with the tied word-level `BitMatrix`.
  A `*BitMatrixParser` is (bitMatrix, parsedVersion, parsedFormatInfo, mirror); the regenerated methods return the Go results
  followed by the written field (`parsedFormatInfo` / `parsedVersion`).
-/
import Gzx.Obligations.K01dMat
import Gzx.Obligations.K01dVer
namespace Gzx.Obligations.K01e
open Gzx Gzx.GoM Gzx.GoVal Gzx.QRDec Gzx.Obligations.K01d

/-! ### `copyBit` sequences as a pure fold (`BitMatrix.Get` never fails) -/

/-- `BitMatrix.Get` as a value -/
def getV (m : Matrix) (x y : Nat) : Bool := if x < m.dim ∧ y < m.dim then m.bit x y else false

theorem get_eq (m : Matrix) (x y : Nat) : m.get x y = .ok (getV m x y) := by
  unfold Matrix.get getV; split <;> rfl

/-- one `copyBit` -/
def cbit (m : Matrix) (mirror : Bool) (acc : Nat) (ij : Nat × Nat) : Nat :=
  2 * acc + (if mirror then getV m ij.2 ij.1 else getV m ij.1 ij.2).toNat

theorem copyBit_ok (m : Matrix) (mirror : Bool) (acc : Nat) (ij : Nat × Nat) :
    QRDec.copyBit m mirror acc ij = .ok (cbit m mirror acc ij) := by
  unfold QRDec.copyBit cbit
  cases mirror <;> simp [get_eq, bind, Except.bind]

theorem copyBits_ok (m : Matrix) (mirror : Bool) : ∀ (l : List (Nat × Nat)) (acc : Nat),
    copyBits m mirror l acc = .ok (l.foldl (cbit m mirror) acc)
  | [], _ => rfl
  | ij :: rest, acc => by
    simp only [copyBits, copyBit_ok, bind, Except.bind, List.foldl]
    exact copyBits_ok m mirror rest _

theorem cbit_lt (m : Matrix) (mirror : Bool) (acc : Nat) (ij : Nat × Nat) : cbit m mirror acc ij < 2 * (acc + 1) := by
  unfold cbit
  cases (if mirror then getV m ij.2 ij.1 else getV m ij.1 ij.2) <;> simp <;> omega

theorem foldl_cbit_lt (m : Matrix) (mirror : Bool) : ∀ (l : List (Nat × Nat)) (acc : Nat),
    l.foldl (cbit m mirror) acc < 2 ^ l.length * (acc + 1)
  | [], acc => by simp
  | ij :: rest, acc => by
    have h1 := foldl_cbit_lt m mirror rest (cbit m mirror acc ij)
    have h2 := cbit_lt m mirror acc ij
    have h3 : 2 ^ rest.length * (cbit m mirror acc ij + 1) ≤ 2 ^ rest.length * (2 * (acc + 1)) :=
      Nat.mul_le_mul_left _ (by omega)
    simp only [List.foldl, List.length_cons, Nat.pow_succ]
    rw [Nat.mul_assoc]
    omega

section
variable {M : Type} (ops : MatOps M) (abs : M → Matrix) (law : GetLaw ops abs)
include law

when_kernel Gzx.Gen.K01d.copyBit in
theorem k_copyBit_v (m : M) (mirror : Bool) (i j acc : Nat) :
    Gen.K01d.copyBit ops m mirror (i : Int) (j : Int) (acc : Int) = .ok ((cbit (abs m) mirror acc (i, j) : Nat) : Int) := by
  rw [k_copyBit_eq ops abs law, copyBit_ok]; rfl

omit law in
/-- a counted loop whose body is one `copyBit` at the `k`-th coordinate `g k` -/
theorem loop_copy {ρ : Type} (m : M) (mirror : Bool) (d : Int) :
    ∀ (n : Nat) (g : Nat → Nat × Nat) (body : Int → Int → Ctl Int ρ) (i0 : Int),
      (∀ k, k < n → ∀ (acc : Nat) (i : Int), i = i0 + d * (k : Int) →
        body i (acc : Int) = .next ((cbit (abs m) mirror acc (g k) : Nat) : Int)) →
      ∀ acc : Nat, loop body d n i0 (acc : Int) =
        .next ((((List.range n).map g).foldl (cbit (abs m) mirror) acc : Nat) : Int) := by
  intro n
  induction n with
  | zero => intro g body i0 _ acc; rfl
  | succ n ih =>
    intro g body i0 hb acc
    rw [loop_succ, hb 0 (by omega) acc i0 (by simp)]
    simp only [List.range_succ_eq_map, List.map_cons, List.map_map, List.foldl]
    exact ih (g ∘ Nat.succ) body (i0 + d) (fun k hk acc i hi => hb (k + 1) (by omega) acc i (by rw [hi]; simp [Int.mul_add]; omega)) _

omit law in
/-- a counted loop whose `k`-th iteration makes the `copyBit` calls at the coordinates `G k` (an inner loop) -/
theorem loop_copyL {ρ : Type} (m : M) (mirror : Bool) (d : Int) :
    ∀ (n : Nat) (G : Nat → List (Nat × Nat)) (body : Int → Int → Ctl Int ρ) (i0 : Int),
      (∀ k, k < n → ∀ (acc : Nat) (i : Int), i = i0 + d * (k : Int) →
        body i (acc : Int) = .next (((G k).foldl (cbit (abs m) mirror) acc : Nat) : Int)) →
      ∀ acc : Nat, loop body d n i0 (acc : Int) =
        .next ((((List.range n).flatMap G).foldl (cbit (abs m) mirror) acc : Nat) : Int) := by
  intro n
  induction n with
  | zero => intro G body i0 _ acc; rfl
  | succ n ih =>
    intro G body i0 hb acc
    rw [loop_succ, hb 0 (by omega) acc i0 (by simp)]
    simp only [List.range_succ_eq_map, List.flatMap_cons, List.flatMap_map, List.foldl_append]
    exact ih (G ∘ Nat.succ) body (i0 + d) (fun k hk acc i hi => hb (k + 1) (by omega) acc i (by rw [hi]; simp [Int.mul_add]; omega)) _

end

/-! ### ReadFormatInformation -/

theorem downFrom_eq : ∀ (n hi : Nat), downFrom hi n = (List.range n).map (fun k => hi - k)
  | 0, _ => rfl
  | n + 1, hi => by
    rw [downFrom, downFrom_eq n (hi - 1), List.range_succ_eq_map]
    simp only [List.map_cons, List.map_map, Nat.sub_zero]
    congr 1
    apply List.map_congr_left
    intro k _
    simp only [Function.comp, Nat.succ_eq_add_one]
    omega

theorem formatCoords1_split : formatCoords1 =
    (List.range 6).map (fun k => (k, 8)) ++ ([(7, 8), (8, 8), (8, 7)] ++ (List.range 6).map (fun k => (8, 5 - k))) := by
  decide

theorem formatCoords2_split (dim : Nat) : formatCoords2 dim =
    (List.range 7).map (fun k => (8, dim - 1 - k)) ++ (List.range 8).map (fun k => (dim - 8 + k, 8)) := by
  unfold formatCoords2
  rw [downFrom_eq]
  simp [List.map_map, Function.comp]

theorem decodeFormat_ok (T : List (Nat × Nat)) (mask m1 m2 : Nat) : ∃ o, decodeFormat T mask m1 m2 = .ok o := by
  unfold decodeFormat
  cases decodeFormatData T mask m1 m2 with
  | none => exact ⟨none, rfl⟩
  | some d =>
    have := formatInfoOf_eq d
    cases hf : formatInfoOf d with
    | error e => rw [hf] at this; cases this
    | ok f => exact ⟨some f, by simp [bind, Except.bind, hf]⟩

/-- what the regenerated `ReadFormatInformation` must return for a result of the model:
    (format information, error?, the field `parsedFormatInfo` afterwards) -/
def expRFI : Res ((EC × Nat) × Parser) → Res (Option (Int × Int) × Bool × Option (Int × Int))
  | .ok (f, p') => .ok (some (encFI f), false, p'.fmt.map encFI)
  | .error .format => .ok (none, true, none)
  | .error e => .error e

when_kernel Gzx.Gen.K01d.readFormatInformation in
/-- `ReadFormatInformation()` = the model's `readFormatInformation` on the regenerated tables, for EVERY lawful matrix of
    dimension ≥ 8 (`NewBitMatrixParser` demands ≥ 21), mirrored or not, cached or not: the same 15 + 15 modules are read in
    the same order, decoded by `FormatInformation_DecodeFormatInformation`, cached in the parser; `FormatException` iff the
    model fails -/
theorem k_readFormatInformation_eq {M : Type} (ops : MatOps M) (abs : M → Matrix) (law : GetLaw ops abs)
    (m : M) (p : Parser) (hm : abs m = p.m) (hh : ops.height m = (p.m.dim : Int)) (hd : 8 ≤ p.m.dim) :
    Gen.K01d.readFormatInformation ops m (p.fmt.map encFI) p.mirror =
      expRFI (QRDec.readFormatInformation QRTables.tables p) := by
  cases hf : p.fmt with
  | some f => simp [Gen.K01d.readFormatInformation, QRDec.readFormatInformation, hf, expRFI]
  | none =>
    have t6 : tripUp 0 6 1 = 6 := by decide
    have t6' : tripDown 5 (-1) 1 = 6 := by decide
    have t7 : tripDown ((p.m.dim : Int) - 1) ((p.m.dim : Int) - 7 - 1) 1 = 7 := by rw [tripDown_one]; omega
    have t8 : tripUp ((p.m.dim : Int) - 8) (p.m.dim : Int) 1 = 8 := by rw [tripUp_one]; omega
    have c0 : (0 : Int) = ((0 : Nat) : Int) := rfl
    have l1 := loop_copy (ρ := Option (Int × Int) × Bool × Option (Int × Int)) abs m p.mirror 1 6 (fun k => (k, 8))
      (Gen.K01d.readFormatInformation_body1 ops m p.mirror) 0
      (fun k hk acc i hi => by
        have : i = ((k : Nat) : Int) := by omega
        subst this
        simp only [Gen.K01d.readFormatInformation_body1]
        rw [show (8 : Int) = ((8 : Nat) : Int) from rfl, k_copyBit_v ops abs law]; rfl)
    have l2 := loop_copy (ρ := Option (Int × Int) × Bool × Option (Int × Int)) abs m p.mirror (-1) 6 (fun k => (8, 5 - k))
      (Gen.K01d.readFormatInformation_body2 ops m p.mirror) 5
      (fun k hk acc i hi => by
        have : i = ((5 - k : Nat) : Int) := by omega
        subst this
        simp only [Gen.K01d.readFormatInformation_body2]
        rw [show (8 : Int) = ((8 : Nat) : Int) from rfl, k_copyBit_v ops abs law]; rfl)
    have l3 := loop_copy (ρ := Option (Int × Int) × Bool × Option (Int × Int)) abs m p.mirror (-1) 7 (fun k => (8, p.m.dim - 1 - k))
      (Gen.K01d.readFormatInformation_body3 ops m p.mirror) ((p.m.dim : Int) - 1)
      (fun k hk acc i hi => by
        have : i = ((p.m.dim - 1 - k : Nat) : Int) := by omega
        subst this
        simp only [Gen.K01d.readFormatInformation_body3]
        rw [show (8 : Int) = ((8 : Nat) : Int) from rfl, k_copyBit_v ops abs law]; rfl)
    have l4 := loop_copy (ρ := Option (Int × Int) × Bool × Option (Int × Int)) abs m p.mirror 1 8 (fun k => (p.m.dim - 8 + k, 8))
      (Gen.K01d.readFormatInformation_body4 ops m p.mirror) ((p.m.dim : Int) - 8)
      (fun k hk acc i hi => by
        have : i = ((p.m.dim - 8 + k : Nat) : Int) := by omega
        subst this
        simp only [Gen.K01d.readFormatInformation_body4]
        rw [show (8 : Int) = ((8 : Nat) : Int) from rfl, k_copyBit_v ops abs law]; rfl)
    simp only [Gen.K01d.readFormatInformation, Option.map_none, Option.isNone_none, Bool.not_true, Bool.false_eq_true, if_false,
      hh, t6, t6', t7, t8]
    have l1' : loop (Gen.K01d.readFormatInformation_body1 ops m p.mirror) 1 6 0 (0 : Int) = _ := l1 0
    have l3' : loop (Gen.K01d.readFormatInformation_body3 ops m p.mirror) (-1) 7 ((p.m.dim : Int) - 1) (0 : Int) = _ := l3 0
    have cb1 : ∀ acc : Nat, Gen.K01d.copyBit ops m p.mirror 7 8 (acc : Int) = _ := fun acc => k_copyBit_v ops abs law m p.mirror 7 8 acc
    have cb2 : ∀ acc : Nat, Gen.K01d.copyBit ops m p.mirror 8 8 (acc : Int) = _ := fun acc => k_copyBit_v ops abs law m p.mirror 8 8 acc
    have cb3 : ∀ acc : Nat, Gen.K01d.copyBit ops m p.mirror 8 7 (acc : Int) = _ := fun acc => k_copyBit_v ops abs law m p.mirror 8 7 acc
    simp only [l1', l3', next_thenR, cb1, cb2, cb3, tryR_ok, l2, l4]
    have hlt1 := foldl_cbit_lt (abs m) p.mirror formatCoords1 0
    have hlt2 := foldl_cbit_lt (abs m) p.mirror (formatCoords2 p.m.dim) 0
    have hlen2 : (formatCoords2 p.m.dim).length = 15 := by simp [formatCoords2_split]
    rw [hlen2] at hlt2
    have hlen1 : formatCoords1.length = 15 := rfl
    rw [hlen1] at hlt1
    simp only [QRDec.readFormatInformation, hf, copyBits_ok, bind, Except.bind, ← hm]
    rw [formatCoords1_split] at hlt1 ⊢
    rw [formatCoords2_split] at hlt2 ⊢
    rw [← hm] at hlt2
    simp only [List.foldl_append, List.foldl_cons, List.foldl_nil] at hlt1 hlt2 ⊢
    generalize List.foldl (cbit (abs m) p.mirror) _ (List.map (fun k => (8, 5 - k)) (List.range 6)) = b1 at hlt1 ⊢
    generalize List.foldl (cbit (abs m) p.mirror) _ (List.map (fun k => ((abs m).dim - 8 + k, 8)) (List.range 8)) = b2 at hlt2 ⊢
    have w1 : wrap 64 (b1 : Int) = (b1 : Int) := wrap_of_lt 64 _ (by omega) (by omega)
    have w2 : wrap 64 (b2 : Int) = (b2 : Int) := wrap_of_lt 64 _ (by omega) (by omega)
    rw [w1, w2, k_decodeFormatInformation_eq]
    have ht1 : QRTables.tables.fmt = QRTables.fmt := rfl
    have ht2 : QRTables.tables.fmtMask = QRTables.fmtMask := rfl
    rw [ht1, ht2]
    obtain ⟨o, ho⟩ := decodeFormat_ok QRTables.fmt QRTables.fmtMask b1 b2
    rw [ho]
    cases o with
    | none => rfl
    | some f => simp [Except.map, expRFI]

/-- non-vacuity: a lawful matrix of dimension 21 (all white) -/
example : ∃ (ops : MatOps Matrix) (abs : Matrix → Matrix) (m : Matrix) (p : Parser),
    GetLaw ops abs ∧ abs m = p.m ∧ ops.height m = (p.m.dim : Int) ∧ 8 ≤ p.m.dim :=
  ⟨⟨⟨0, fun _ _ => false⟩, fun m => m.dim, fun m => m.dim, fun m x y => getV m x.toNat y.toNat,
     fun m _ _ => .ok m, fun m _ _ _ _ => .ok (m, false), fun _ => .ok (⟨0, fun _ _ => false⟩, true)⟩,
   id, ⟨21, fun _ _ => false⟩, { m := ⟨21, fun _ _ => false⟩ },
   fun m x y => by simp [get_eq], rfl, rfl, by decide⟩

/-! ### ReadVersion -/

/-- the row handle of a cached `*Version` (nil = -1) -/
def hOf : Option VersionInfo → Int
  | some v => (v.num : Int) - 1
  | none => -1

/-- what the regenerated `ReadVersion` must return for a result of the model: (version handle, error?, the field
    `parsedVersion` afterwards); only the uncached path can fail, so the field is nil then -/
def expRV : Res (VersionInfo × Parser) → Res (Int × Bool × Int)
  | .ok (v, p') => .ok ((v.num : Int) - 1, false, hOf p'.ver)
  | .error (.panic w) => .error (.panic w)
  | .error _ => .ok (-1, true, -1)

theorem versions_len : QRTables.versions.length = 40 := by decide +kernel

theorem gvn_ok {n : Nat} {v : VersionInfo} (h : QRDec.getVersionForNumber QRTables.versions n = .ok v) :
    v.num = n ∧ 1 ≤ n ∧ n ≤ 40 := by
  have hg := model_gvn n
  rw [h] at hg
  unfold QRDec.getVersionForNumber at h
  by_cases hr : n < 1 ∨ n > 40
  · rw [if_pos hr] at h; cases h
  · have hr' : ¬ ((n : Int) < 1 ∨ (n : Int) > 40) := by omega
    simp only [hview, gvn, if_neg hr', Prod.mk.injEq, and_true] at hg
    omega

theorem gvn_err {n : Nat} {e : Fault} (h : QRDec.getVersionForNumber QRTables.versions n = .error e) : e = .illegalArg := by
  unfold QRDec.getVersionForNumber at h
  by_cases hr : n < 1 ∨ n > 40
  · rw [if_pos hr] at h; cases h; rfl
  · rw [if_neg hr] at h
    have : n - 1 < QRTables.versions.length := by rw [versions_len]; omega
    rw [List.getElem?_eq_getElem this] at h
    cases h

theorem dvi_ok {bits : Nat} {v : VersionInfo} (h : QRDec.decodeVersionInformation QRTables.tables bits = .ok v) :
    1 ≤ v.num ∧ v.num ≤ 40 := by
  unfold QRDec.decodeVersionInformation at h
  have hvs : QRTables.tables.versions = QRTables.versions := rfl
  rw [hvs] at h
  split at h
  · have := gvn_ok h; omega
  · split at h
    · have := gvn_ok h; omega
    · cases h

theorem dvi_err {bits : Nat} {e : Fault} (h : QRDec.decodeVersionInformation QRTables.tables bits = .error e) :
    ∀ w, e ≠ .panic w := by
  unfold QRDec.decodeVersionInformation at h
  have hvs : QRTables.tables.versions = QRTables.versions := rfl
  rw [hvs] at h
  intro w hw
  split at h
  · have := gvn_err h; rw [this] at hw; cases hw
  · split at h
    · have := gvn_err h; rw [this] at hw; cases hw
    · cases h; cases hw

when_kernel Gzx.Gen.K01d.readVersion in
/-- the column `versionNumber` of the regenerated VERSIONS numbers its rows 1..40 -/
theorem k_versionNumbers : Gen.K01d.tbl_VERSIONS_versionNumber = (List.range 40).map (fun k => ((k + 1 : Nat) : Int)) := by
  decide +kernel

theorem versionCoords1_eq (dim : Nat) : versionCoords1 dim =
    (List.range 6).flatMap (fun k => (List.range 3).map (fun l => (dim - 9 - l, 5 - k))) := by
  unfold versionCoords1
  rw [downFrom_eq, downFrom_eq, List.flatMap_map]
  simp only [List.map_map]
  rfl

theorem versionCoords2_eq (dim : Nat) : versionCoords2 dim =
    (List.range 6).flatMap (fun k => (List.range 3).map (fun l => (5 - k, dim - 9 - l))) := by
  unfold versionCoords2
  rw [downFrom_eq, downFrom_eq, List.flatMap_map]
  simp only [List.map_map]
  rfl

when_kernel Gzx.Gen.K01d.readVersion in
/-- one copy of the version information as the regenerated code examines it: decode, then compare the dimension -/
theorem k_versionCopy (dim bits : Nat) (hb : bits < 2 ^ 64) :
    ∃ r : Int × Bool, Gen.K01d.decodeVersionInformation (bits : Int) = .ok r ∧
      match versionCopyOK QRTables.tables dim bits with
      | some v => r = ((v.num : Int) - 1, false) ∧ 1 ≤ v.num ∧ v.num ≤ 40 ∧ 17 + 4 * v.num = dim
      | none => r.2 = true ∨ (∃ n : Nat, r = ((n : Int) - 1, false) ∧ 1 ≤ n ∧ n ≤ 40 ∧ 17 + 4 * n ≠ dim) := by
  refine ⟨_, k_decodeVersionInformation_eq bits hb, ?_⟩
  unfold versionCopyOK
  cases hd : QRDec.decodeVersionInformation QRTables.tables bits with
  | error e => simp [hview]
  | ok v =>
    have := dvi_ok hd
    by_cases hdim : v.dimension = dim
    · simp only [hdim, if_true, hview]
      unfold VersionInfo.dimension at hdim
      simp only [true_and]
      exact ⟨this.1, this.2, hdim⟩
    · simp only [hdim, if_false, hview]
      unfold VersionInfo.dimension at hdim
      exact Or.inr ⟨v.num, rfl, this.1, this.2, hdim⟩

when_kernel Gzx.Gen.K01d.readVersion in
theorem idx_versionNumbers (n : Nat) (h1 : 1 ≤ n) (h40 : n ≤ 40) :
    idx Gen.K01d.tbl_VERSIONS_versionNumber ((n : Int) - 1) = .ok (n : Int) := by
  rw [k_versionNumbers]
  have e : (n : Int) - 1 = ((n - 1 : Nat) : Int) := by omega
  rw [e, idx_ofNat _ _ (by simp; omega)]
  simp
  omega

when_kernel Gzx.Gen.K01d.readVersion in
/-- `ReadVersion()` = the model's `readVersion` on the regenerated tables, for EVERY lawful matrix, mirrored or not, cached or
    not: versions ≤ 6 from the dimension alone, otherwise the two 18-bit copies in the same module order, each decoded by
    `Version_decodeVersionInformation` and accepted only with the matrix' dimension; `FormatException` iff the model fails -/
theorem k_readVersion_eq {M : Type} (ops : MatOps M) (abs : M → Matrix) (law : GetLaw ops abs)
    (m : M) (p : Parser) (hm : abs m = p.m) (hh : ops.height m = (p.m.dim : Int))
    (hv : ∀ v, p.ver = some v → 1 ≤ v.num) :
    Gen.K01d.readVersion ops m (hOf p.ver) p.mirror = expRV (QRDec.readVersion QRTables.tables p) := by
  have hvs : QRTables.tables.versions = QRTables.versions := rfl
  cases hpv : p.ver with
  | some v =>
    have := hv v hpv
    have hne : (((v.num : Int) - 1) == -1) = false := by simp; omega
    simp [Gen.K01d.readVersion, QRDec.readVersion, hpv, hOf, expRV, hne]
  | none =>
    have hnn : (((-1 : Int)) == -1) = true := rfl
    simp only [Gen.K01d.readVersion, hOf, QRDec.readVersion, hpv, hh, hnn, Bool.not_true, Bool.false_eq_true, if_false, hvs]
    by_cases hprov : (p.m.dim - 17) / 4 ≤ 6
    · have hs4 : Int.sign 4 = 1 := rfl
      have hprov' : Int.tdiv ((p.m.dim : Int) - 17) 4 ≤ 6 := by
        rw [Int.tdiv_eq_ediv, hs4]; split <;> omega
      simp only [hprov, hprov', decide_true, if_true, k_getVersionForNumber_gvn, tryR_ok]
      by_cases h17 : 17 ≤ p.m.dim
      · have e : Int.tdiv ((p.m.dim : Int) - 17) 4 = (((p.m.dim - 17) / 4 : Nat) : Int) := by
          rw [Int.tdiv_eq_ediv_of_nonneg (by omega)]; omega
        rw [e, ← model_gvn]
        cases hg : QRDec.getVersionForNumber QRTables.versions ((p.m.dim - 17) / 4) with
        | ok v => simp [hview, expRV, hpv, hOf, bind, Except.bind]
        | error e => have := gvn_err hg; subst this; simp [hview, expRV, bind, Except.bind]
      · have e0 : (p.m.dim - 17) / 4 = 0 := by omega
        have e1 : Int.tdiv ((p.m.dim : Int) - 17) 4 < 1 := by
          rw [Int.tdiv_eq_ediv, hs4]; split <;> omega
        simp [e0, gvn, e1, QRDec.getVersionForNumber, expRV, bind, Except.bind]
    · have hdim : 45 ≤ p.m.dim := by omega
      have hprov' : ¬ (Int.tdiv ((p.m.dim : Int) - 17) 4 ≤ 6) := by
        rw [Int.tdiv_eq_ediv_of_nonneg (by omega)]; omega
      have t3 : tripDown ((p.m.dim : Int) - 9) ((p.m.dim : Int) - 11 - 1) 1 = 3 := by rw [tripDown_one]; omega
      have t6 : tripDown 5 (-1) 1 = 6 := by decide
      have L1 := loop_copyL (ρ := Int × Bool × Int) abs m p.mirror (-1) 6
        (fun k => (List.range 3).map (fun l => (p.m.dim - 9 - l, 5 - k)))
        (Gen.K01d.readVersion_body1 ops m p.mirror (p.m.dim : Int) ((p.m.dim : Int) - 11)) 5
        (fun k hk acc i hi => by
          have : i = ((5 - k : Nat) : Int) := by omega
          subst this
          simp only [Gen.K01d.readVersion_body1, t3]
          rw [loop_copy (ρ := Int × Bool × Int) abs m p.mirror (-1) 3 (fun l => (p.m.dim - 9 - l, 5 - k)) _ _
            (fun l hl acc i hi => by
              have : i = ((p.m.dim - 9 - l : Nat) : Int) := by omega
              subst this
              simp only [Gen.K01d.readVersion_body2]
              rw [k_copyBit_v ops abs law]; rfl) acc]
          rfl)
      have L2 := loop_copyL (ρ := Int × Bool × Int) abs m p.mirror (-1) 6
        (fun k => (List.range 3).map (fun l => (5 - k, p.m.dim - 9 - l)))
        (Gen.K01d.readVersion_body3 ops m p.mirror (p.m.dim : Int) ((p.m.dim : Int) - 11)) 5
        (fun k hk acc i hi => by
          have : i = ((5 - k : Nat) : Int) := by omega
          subst this
          simp only [Gen.K01d.readVersion_body3, t3]
          rw [loop_copy (ρ := Int × Bool × Int) abs m p.mirror (-1) 3 (fun l => (5 - k, p.m.dim - 9 - l)) _ _
            (fun l hl acc i hi => by
              have : i = ((p.m.dim - 9 - l : Nat) : Int) := by omega
              subst this
              simp only [Gen.K01d.readVersion_body4]
              rw [k_copyBit_v ops abs law]; rfl) acc]
          rfl)
      have L1' : loop (Gen.K01d.readVersion_body1 ops m p.mirror (p.m.dim : Int) ((p.m.dim : Int) - 11)) (-1) 6 5 (0 : Int) = _ := L1 0
      have L2' : loop (Gen.K01d.readVersion_body3 ops m p.mirror (p.m.dim : Int) ((p.m.dim : Int) - 11)) (-1) 6 5 (0 : Int) = _ := L2 0
      simp only [hprov, hprov', decide_false, Bool.false_eq_true, if_false, t6, L1', L2', next_thenR, copyBits_ok, bind, Except.bind,
        versionCoords1_eq, versionCoords2_eq]
      simp only [← hm]
      have hlt1 := foldl_cbit_lt (abs m) p.mirror (versionCoords1 (abs m).dim) 0
      have hlt2 := foldl_cbit_lt (abs m) p.mirror (versionCoords2 (abs m).dim) 0
      have hlen1 : (versionCoords1 (abs m).dim).length = 18 := by simp [versionCoords1_eq]; rfl
      have hlen2 : (versionCoords2 (abs m).dim).length = 18 := by simp [versionCoords2_eq]; rfl
      rw [hlen1, versionCoords1_eq] at hlt1
      rw [hlen2, versionCoords2_eq] at hlt2
      rw [← hm] at hdim
      generalize (abs m).dim = dim at *
      generalize List.foldl (cbit (abs m) p.mirror) 0 (List.flatMap (fun k => List.map (fun l => (dim - 9 - l, 5 - k)) (List.range 3)) (List.range 6)) = b1 at hlt1 ⊢
      generalize List.foldl (cbit (abs m) p.mirror) 0 (List.flatMap (fun k => List.map (fun l => (5 - k, dim - 9 - l)) (List.range 3)) (List.range 6)) = b2 at hlt2 ⊢
      obtain ⟨r1, hr1, hc1⟩ := k_versionCopy dim b1 (by omega)
      obtain ⟨r2, hr2, hc2⟩ := k_versionCopy dim b2 (by omega)
      rw [hr1, hr2]
      simp only [tryR_ok]
      have gd : ∀ t : Int, Gen.K01d.getDimensionForVersion t = .ok (17 + 4 * t) := fun _ => rfl
      have hit : ∀ n : Nat, 1 ≤ n → (!(((n : Int) - 1) == -1)) = true := by intro n h; simp; omega
      have deq : ∀ n : Nat, 17 + 4 * n = dim → ((17 + 4 * (n : Int)) == (dim : Int)) = true := by intro n h; simp; omega
      have dne : ∀ n : Nat, 17 + 4 * n ≠ dim → ((17 + 4 * (n : Int)) == (dim : Int)) = false := by intro n h; simp; omega
      have deqP : ∀ n : Nat, 17 + 4 * n = dim → (17 + 4 * (n : Int)) = (dim : Int) := by intro n h; omega
      have dneP : ∀ n : Nat, 17 + 4 * n ≠ dim → ¬ ((17 + 4 * (n : Int)) = (dim : Int)) := by intro n h; omega
      have step2 : ((if (r2.snd == false) = true then
            if (!r2.fst == -1) = true then
              tryC (idx Gen.K01d.tbl_VERSIONS_versionNumber r2.fst) fun t8 =>
                tryC (Gen.K01d.getDimensionForVersion t8) fun t9 =>
                  if (t9 == (dim : Int)) = true then Ctl.ret (r2.fst, false, r2.fst) else Ctl.next (-1 : Int)
            else Ctl.next (-1)
          else Ctl.next (-1)).thenR fun st => Except.ok (-1, true, st)) =
          expRV (match versionCopyOK QRTables.tables dim b2 with
            | some v => Except.ok (v, { m := abs m, ver := some v, fmt := p.fmt, mirror := p.mirror })
            | none => Except.error Fault.format) := by
        cases hv2 : versionCopyOK QRTables.tables dim b2 with
        | some v =>
          rw [hv2] at hc2
          obtain ⟨rfl, h1, h40, hd⟩ := hc2
          simp [hit v.num h1, idx_versionNumbers v.num h1 h40, gd, deq v.num hd, deqP v.num hd, expRV, hOf]
        | none =>
          rw [hv2] at hc2
          rcases hc2 with h | ⟨n, rfl, h1, h40, hne⟩
          · simp [h, expRV]
          · simp [hit n h1, idx_versionNumbers n h1 h40, gd, dne n hne, dneP n hne, expRV]
      cases hv1 : versionCopyOK QRTables.tables dim b1 with
      | some v =>
        rw [hv1] at hc1
        obtain ⟨rfl, h1, h40, hd⟩ := hc1
        simp [hit v.num h1, idx_versionNumbers v.num h1 h40, gd, deq v.num hd, deqP v.num hd, expRV, hOf]
      | none =>
        rw [hv1] at hc1
        rcases hc1 with h | ⟨n, rfl, h1, h40, hne⟩
        · simp only [h, Bool.true_eq_false, if_false, next_thenR] <;> first | exact step2 | (simp only [Bool.false_eq_true, if_false, next_thenR]; exact step2)
        · simp only [hit n h1, idx_versionNumbers n h1 h40, gd, dne n hne, tryC_ok, if_true, Bool.false_eq_true, if_false,
            next_thenR, beq_self_eq_true]
          exact step2

example : ∀ v, ({ m := ⟨21, fun _ _ => false⟩ } : Parser).ver = some v → 1 ≤ v.num := by intro v h; cases h

end Gzx.Obligations.K01e
