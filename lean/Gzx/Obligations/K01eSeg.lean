/-
  K01e (qrcode/decoder/decoded_bit_stream_parser.go, common/bit_source.go) — the QR bit-stream parser over a `*BitSource` state,
  regenerated on every run into `Gzx.Gen.K01de` (kind funcq + translator/ext_k01dec2.go: a `*BitSource` parameter is the triple
  (bytes, byteOffset, bitOffset); `v, e := bits.ReadBits(n)` binds the regenerated `ReadBits` and rebinds the two offsets; the
  `[]byte` accumulator `result` is a list value).

  * `ReadBits` for a WELL-FORMED source (`BitSource.WF`: the invariant of every source the library can construct) is EXACTLY the
    model's `readBits` (no panic case left: C06's `bitsource_total`);
  * `DecodedBitStreamParser_parseECIValue` = the model's `parseECIValue` (Model/BitSource.lean) for every well-formed source.
-/
import Gzx.Gen.K01de
import Gzx.Obligations.K01eBits
import Gzx.Properties.C06
namespace Gzx.Obligations.K01e
open Gzx Gzx.GoM Gzx.GoVal Gzx.BitSource

theorem stripP_eq {α : Type} {a b : Res α} (h : stripP a = stripP b) (hb : ∀ w, b ≠ .error (.panic w)) : a = b := by
  cases b with
  | ok v =>
    cases a with
    | ok u => simpa [stripP] using h
    | error e => cases e <;> simp [stripP] at h
  | error e =>
    cases e with
    | panic w => exact absurd rfl (hb w)
    | _ =>
      cases a with
      | ok u => simp [stripP] at h
      | error e' => cases e' <;> simp [stripP] at h <;> first | rfl | (subst h; rfl) | skip

when_kernel Gzx.Gen.K01de.readBits in
/-- the two regenerations of `ReadBits` (modules K01d and K01de) are the same definition -/
theorem k_readBits_same : @Gen.K01de.readBits = @Gen.K01d.readBits := rfl

when_kernel Gzx.Gen.K01de.readBits in
/-- `ReadBits(numBits)` on a well-formed source = the model's `readBits`, exactly: value and advanced offsets, or the checked
    error with the source unchanged -/
theorem k_readBits_wf (s : BitSource) (hs : WF s) (n : Int) (fuel : Nat) (hf : 5 ≤ fuel) :
    Gen.K01de.readBits fuel (bytes s.bytes) (s.byteOffset : Int) (s.bitOffset : Int) n = encRB s (readBits s n) := by
  rw [k_readBits_same]
  apply stripP_eq (k_readBits_eq s hs.1 n fuel hf)
  intro w hw
  obtain ⟨hnp, hr⟩ := Properties.C06.bitsource_total s hs n
  rcases hr with ⟨v, s', h, _⟩ | h
  · rw [h] at hw; cases hw
  · rw [h] at hw; cases hw

theorem readBits_bytes {s s' : BitSource} {n : Int} {v : Nat} (h : readBits s n = .ok (v, s')) : s'.bytes = s.bytes := by
  unfold readBits at h
  split at h
  · cases h
  · split at h
    · cases h
    · simp only [readRest] at h
      repeat' (split at h)
      all_goals first | (cases h; rfl) | cases h

/-- a well-formed source: `readBits` succeeds with a well-formed source over the same bytes, or is the checked error -/
theorem readBits_cases (s : BitSource) (hs : WF s) (n : Int) :
    (∃ v s', readBits s n = .ok (v, s') ∧ WF s' ∧ s'.bytes = s.bytes) ∨ readBits s n = .error .illegalArg := by
  obtain ⟨_, hr⟩ := Properties.C06.bitsource_total s hs n
  rcases hr with ⟨v, s', h, _, _, hw⟩ | h
  · exact Or.inl ⟨v, s', h, hw, readBits_bytes h⟩
  · exact Or.inr h

/-! ### parseECIValue -/

/-- (value, error?, offsets afterwards) of a model result; after a `FormatException` the parser stops and the offsets are not
    looked at any more -/
def encPE : Res (Nat × BitSource) → Res (Int × Bool × Option (Int × Int))
  | .ok (v, s') => .ok ((v : Int), false, some ((s'.byteOffset : Int), (s'.bitOffset : Int)))
  | .error (.panic w) => .error (.panic w)
  | .error _ => .ok (-1, true, none)

/-- the same view of a regenerated result (value, error?, byteOffset, bitOffset) -/
def viewE : Res (Int × Bool × Int × Int) → Res (Int × Bool × Option (Int × Int))
  | .ok (v, false, a, b) => .ok (v, false, some (a, b))
  | .ok (v, true, _, _) => .ok (v, true, none)
  | .error e => .error e

when_kernel Gzx.Gen.K01de.parseECIValue in
/-- `DecodedBitStreamParser_parseECIValue(bits)` = the model's `parseECIValue` for EVERY well-formed source: one, two or three
    bytes by the leading bits, the same value, the same advanced offsets, `FormatException` for a failed read or the prefix 111 -/
theorem k_parseECIValue_eq (s : BitSource) (hs : WF s) (fuel : Nat) (hf : 5 ≤ fuel) :
    viewE (Gen.K01de.parseECIValue fuel (bytes s.bytes) (s.byteOffset : Int) (s.bitOffset : Int)) =
      encPE (parseECIValue s) := by
  simp only [Gen.K01de.parseECIValue, k_readBits_wf s hs 8 fuel hf, parseECIValue, readBitsF]
  rcases readBits_cases s hs 8 with ⟨f, s1, h1, hw1, hb1⟩ | h1
  · have a80 : iand (f : Int) 128 = ((f &&& 0x80 : Nat) : Int) := iand_natCast f 128
    have aC0 : iand (f : Int) 192 = ((f &&& 0xC0 : Nat) : Int) := iand_natCast f 192
    have aE0 : iand (f : Int) 224 = ((f &&& 0xE0 : Nat) : Int) := iand_natCast f 224
    have a7F : iand (f : Int) 127 = ((f &&& 0x7F : Nat) : Int) := iand_natCast f 127
    have a3F : iand (f : Int) 63 = ((f &&& 0x3F : Nat) : Int) := iand_natCast f 63
    have a1F : iand (f : Int) 31 = ((f &&& 0x1F : Nat) : Int) := iand_natCast f 31
    have r2 := k_readBits_wf s1 hw1 8 fuel hf
    have r3 := k_readBits_wf s1 hw1 16 fuel hf
    rw [hb1] at r2 r3
    have sh8 : ishl ((f &&& 0x3F : Nat) : Int) 8 = (((f &&& 0x3F) <<< 8 : Nat) : Int) := ishl_natCast _ 8
    have sh16 : ishl ((f &&& 0x1F : Nat) : Int) 16 = (((f &&& 0x1F) <<< 16 : Nat) : Int) := ishl_natCast _ 16
    simp only [h1, encRB, tryR_ok, a80, aC0, aE0, a7F, a3F, a1F, r2, r3, sh8, sh16]
    by_cases c1 : f &&& 0x80 = 0
    · simp [c1, viewE, encPE]
    · have c1' : ¬ (((f &&& 0x80 : Nat) : Int) = 0) := by omega
      by_cases c2 : f &&& 0xC0 = 0x80
      · have c2' : (((f &&& 0xC0 : Nat) : Int) = 128) := by omega
        rcases readBits_cases s1 hw1 8 with ⟨g, s2, h2, _, _⟩ | h2
        · simp only [h2, encRB, tryR_ok, ior_natCast]
          simp [c1, c1', c2, c2', viewE, encPE]
        · simp [c1, c1', c2, c2', h2, encRB, viewE, encPE]
      · have c2' : ¬ (((f &&& 0xC0 : Nat) : Int) = 128) := by omega
        by_cases c3 : f &&& 0xE0 = 0xC0
        · have c3' : (((f &&& 0xE0 : Nat) : Int) = 192) := by omega
          rcases readBits_cases s1 hw1 16 with ⟨g, s2, h2, _, _⟩ | h2
          · simp only [h2, encRB, tryR_ok, ior_natCast]
            simp [c1, c1', c2, c2', c3, c3', viewE, encPE]
          · simp [c1, c1', c2, c2', c3, c3', h2, encRB, viewE, encPE]
        · have c3' : ¬ (((f &&& 0xE0 : Nat) : Int) = 192) := by omega
          simp [c1, c1', c2, c2', c3, c3', viewE, encPE]
  · simp [h1, encRB, viewE, encPE]

/-- non-vacuity: a fresh source is well-formed; a two-byte designator -/
example : WF (BitSource.new [0x81, 0x02]) := Properties.C06.new_WF _
example : viewE (Gen.K01de.parseECIValue 5 (bytes [0x81, 0x02]) 0 0) = .ok (258, false, some (2, 0)) := by decide

end Gzx.Obligations.K01e
