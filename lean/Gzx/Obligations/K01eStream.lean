/-
  K01e — from the regenerated `BitSource.ReadBits` to the BIT-LIST model of the QR decoder (`Model/QRBits.lean`,
  `Model/ECI.lean`, `Model/QRDecoder.lean`: the model under C01's round-trip, C05's tolerance and C15's ECI theorems).

    regenerated ReadBits  =  cursor model `BitSource.readBits`      (Obligations/K01eBits, K01eSeg: k_readBits_wf)
    cursor model          =  bit-list model on `unread s`           (Proofs/K01eStream: readBits_val; here: readBits_refines)

  so the regenerated kernels over a `*BitSource` state compute what the bit-list model computes on the bits from the cursor on.
  `Stream s` = a well-formed source over bytes; it is preserved by every successful read.
-/
import Gzx.Proofs.K01eStream
import Gzx.Obligations.K01eSeg
import Gzx.Model.ECI
namespace Gzx.Obligations.K01e
open Gzx Gzx.GoM Gzx.GoVal Gzx.BitSource

/-- a source the library can construct: well-formed cursor, every element a byte -/
def Stream (s : BitSource) : Prop := WF s ∧ Bytes s

theorem stream_new (bs : List Nat) (h : ∀ b ∈ bs, b < 256) : Stream (BitSource.new bs) :=
  ⟨Properties.C06.new_WF bs, h⟩

theorem unread_new (bs : List Nat) : unread (BitSource.new bs) = QRDec.bytesToBits bs := by
  simp [unread, BitSource.new, position]

theorem avail_eq (s : BitSource) (hs : WF s) : available s = ((unread s).length : Nat) := by
  obtain ⟨h8, hle, hlt⟩ := hs
  rw [unread_length]; unfold available position; omega

/-- the cursor model of `ReadBits` IS the bit-list model on the unread bits: same value, the rest of the bits, same rejections -/
theorem readBits_refines (s : BitSource) (hs : Stream s) (n : Nat) :
    match QRDec.readBits n (unread s) with
    | .ok (v, rest) => ∃ s', BitSource.readBits s (n : Int) = .ok (v, s') ∧ unread s' = rest ∧ Stream s'
    | .error _ => BitSource.readBits s (n : Int) = .error .illegalArg := by
  have hav := avail_eq s hs.1
  unfold QRDec.readBits
  by_cases h : n < 1 ∨ n > 32 ∨ n > (unread s).length
  · rw [if_pos h]
    exact Properties.C06.readBits_checked s n (by omega)
  · rw [if_neg h]
    obtain ⟨s', hr, hp, hby⟩ := readBits_val s hs.1 hs.2 n (by omega) (by omega) (by omega)
    refine ⟨s', hr, ?_, ?_, ?_⟩
    · unfold unread; rw [hp, hby, ← List.drop_drop]
    · obtain ⟨_, hc⟩ := Properties.C06.bitsource_total s hs.1 n
      rcases hc with ⟨v, s'', h2, _, _, hw⟩ | h2
      · rw [hr] at h2; cases h2; exact hw
      · rw [hr] at h2; cases h2
    · intro b hb; rw [hby] at hb; exact hs.2 b hb

/-- the same for the parser's wrapper (`ReadBits` errors re-thrown as FormatException) -/
theorem readBitsF_refines (s : BitSource) (hs : Stream s) (n : Nat) (ni : Int) (hni : ni = (n : Int)) :
    match QRDec.readBitsF n (unread s) with
    | .ok (v, rest) => ∃ s', BitSource.readBitsF s ni = .ok (v, s') ∧ unread s' = rest ∧ Stream s'
    | .error e => BitSource.readBitsF s ni = .error .format ∧ e = .format := by
  subst hni
  have h := readBits_refines s hs n
  unfold QRDec.readBitsF BitSource.readBitsF
  cases hq : QRDec.readBits n (unread s) with
  | ok p =>
    obtain ⟨v, rest⟩ := p
    rw [hq] at h
    obtain ⟨s', h1, h2, h3⟩ := h
    exact ⟨s', by rw [h1], h2, h3⟩
  | error e =>
    rw [hq] at h
    have he : e = .illegalArg := by
      unfold QRDec.readBits at hq
      split at hq <;> cases hq
      rfl
    subst he
    exact ⟨by rw [h], rfl⟩

/-- `parseECIValue`: the cursor model (Model/BitSource.lean, tied to the regenerated function by `k_parseECIValue_eq`) is the
    bit-list model of Model/ECI.lean that C15's and C01's theorems are about -/
theorem parseECIValue_refines (s : BitSource) (hs : Stream s) :
    match ECI.parseECIValue (unread s) with
    | .ok (v, rest) => ∃ s', BitSource.parseECIValue s = .ok (v, s') ∧ unread s' = rest ∧ Stream s'
    | .error e => BitSource.parseECIValue s = .error .format ∧ e = .format := by
  unfold ECI.parseECIValue BitSource.parseECIValue
  have h1 := readBitsF_refines s hs 8 8 rfl
  cases hq : QRDec.readBitsF 8 (unread s) with
  | error e => rw [hq] at h1; simp [bind, Except.bind, h1.1, h1.2]
  | ok p =>
    obtain ⟨f, rest⟩ := p
    rw [hq] at h1
    obtain ⟨s1, e1, u1, w1⟩ := h1
    simp only [bind, Except.bind, e1]
    by_cases c1 : f &&& 0x80 = 0
    · simp only [c1, if_true]; exact ⟨s1, rfl, u1, w1⟩
    · simp only [c1, if_false]
      by_cases c2 : f &&& 0xC0 = 0x80
      · simp only [c2, if_true]
        have h2 := readBitsF_refines s1 w1 8 8 rfl
        rw [u1] at h2
        cases hq2 : QRDec.readBitsF 8 rest with
        | error e => rw [hq2] at h2; simp [h2.1, h2.2]
        | ok p2 =>
          obtain ⟨g, rest2⟩ := p2
          rw [hq2] at h2
          obtain ⟨s2, e2, u2, w2⟩ := h2
          simp only [e2]; exact ⟨s2, rfl, u2, w2⟩
      · simp only [c2, if_false]
        by_cases c3 : f &&& 0xE0 = 0xC0
        · simp only [c3, if_true]
          have h2 := readBitsF_refines s1 w1 16 16 rfl
          rw [u1] at h2
          cases hq2 : QRDec.readBitsF 16 rest with
          | error e => rw [hq2] at h2; simp [h2.1, h2.2]
          | ok p2 =>
            obtain ⟨g, rest2⟩ := p2
            rw [hq2] at h2
            obtain ⟨s2, e2, u2, w2⟩ := h2
            simp only [e2]; exact ⟨s2, rfl, u2, w2⟩
        · simp [c3]

/-- non-vacuity -/
example : Stream (BitSource.new [0x81, 0x02]) := stream_new _ (by decide)

end Gzx.Obligations.K01e
