/-
  K01e — the abstract matrix of the regenerated QR decoder (`MatOps M`, lean/Gzx/GoMK01.lean) INSTANTIATED with the word-level
  `BitMatrix` of C16: `M` = the well-formed square word matrices (`InvM`, Model/Bits.lean), `Get` / `Flip` / `SetRegion` = the
  methods regenerated from bit_matrix.go on every run (`Gen.K16.matrixGet`, `Gen.K16b.matrixFlip`, `Gen.K16b.matrixSetRegion`).
  `GetLaw` and `FlipLaw` are THEOREMS for this instance (through `Obligations/K16*.lean`: regenerated method = word model, and
  `Proofs/BitsMat*.lean`: word model refines the bit grid), so `copyBit`, `ReadFormatInformation`, `ReadVersion` and `Mirror` of
  K01d/K01e hold for the real `[]uint32` matrix, not only for an abstract one.
  (`NewSquareBitMatrix` is the model constructor `WMat.new`: the Go constructor returns a pointer next to an error, which the
  translator's subset does not cover.)
-/
import Gzx.Obligations.K01eMirror
import Gzx.Obligations.K16
import Gzx.Obligations.K16b
import Gzx.Proofs.BitsMat4
import Gzx.Proofs.BitsCtor
namespace Gzx.Obligations.K01e
open Gzx Gzx.GoM Gzx.GoVal Gzx.QRDec Gzx.Bits Gzx.Obligations.K01d

/-- a well-formed square word matrix (every `*BitMatrix` a `BitMatrixParser` accepts) -/
def SqM : Type := { m : WMat // InvM m ∧ m.width = m.height }

/-- the model matrix a word matrix stands for (through C16's bit grid `absM`) -/
def absW (m : SqM) : Matrix := ⟨m.1.height, fun x y => (absM m.1).get x y⟩

/-- Go `[]uint32` back to the word list -/
def unwords (ws : List Int) : List Nat := ws.map Int.toNat

theorem unwords_words (ws : List Nat) : unwords (words ws) = ws := by
  unfold unwords words
  rw [List.map_map]
  conv => rhs; rw [← List.map_id ws]
  apply List.map_congr_left
  intro a _
  simp

/-- the 1x1 white matrix (stands for the nil pointer, which is only ever returned next to an error) -/
def unitM : SqM := ⟨⟨1, 1, 1, [0]⟩, by
  refine ⟨⟨by decide, by decide, by decide, by decide, ?_, ?_⟩, rfl⟩
  · intro w hw; simp at hw; subst hw; decide
  · intro x y h1 h2
    exact bitAt_zeros 1 _⟩

open Classical in
/-- keep a result only if it is again a well-formed square matrix (always, inside the matrix: `flipW_ok`, `setRegionW_ok`) -/
noncomputable def reSq (m' : WMat) : Res SqM :=
  if h : InvM m' ∧ m'.width = m'.height then .ok ⟨m', h⟩ else .error (.panic "BitMatrix invariant")

/-- the BitMatrix operations of the QR decoder on the word matrix, through the REGENERATED methods -/
noncomputable def wordOps : MatOps SqM where
  nilM := unitM
  width m := m.1.width
  height m := m.1.height
  get m x y :=
    match Gen.K16.matrixGet m.1.width m.1.height m.1.rowSize (words m.1.words) x y with
    | .ok b => b
    | .error _ => false
  flip m x y :=
    match Gen.K16b.matrixFlip m.1.rowSize (words m.1.words) x y with
    | .ok ws => reSq { m.1 with words := unwords ws }
    | .error e => .error e
  setRegion m l t w h :=
    match Gen.K16b.matrixSetRegion m.1.width m.1.height m.1.rowSize (words m.1.words) l t w h with
    | .ok (e, ws) =>
      match reSq { m.1 with words := unwords ws } with
      | .ok m' => .ok (m', e)
      | .error f => .error f
    | .error e => .error e
  newSquare d :=
    match WMat.new d.toNat d.toNat with
    | .ok m' => if d < 1 then .error (.panic "unreachable") else
        match reSq m' with
        | .ok s => .ok (s, false)
        | .error f => .error f
    | .error _ => .ok (unitM, true)

theorem reSq_ok (m' : WMat) (h : InvM m' ∧ m'.width = m'.height) : reSq m' = .ok ⟨m', h⟩ := by
  unfold reSq; rw [dif_pos h]

when_kernel Gzx.Gen.K16.matrixGet in
/-- the regenerated `BitMatrix.Get` on a well-formed matrix is the bit of the grid (false outside) -/
theorem wordGet_eq (m : SqM) (x y : Nat) : wordOps.get m (x : Int) (y : Int) = (absM m.1).get x y := by
  show (match Gen.K16.matrixGet m.1.width m.1.height m.1.rowSize (words m.1.words) x y with
    | .ok b => b | .error _ => false) = _
  rw [show words m.1.words = Obligations.K16.words m.1.words from rfl, Obligations.K16.k_matrixGet_eq,
    WMat.get_refines m.1 x y m.2.1]

when_kernel Gzx.Gen.K16.matrixGet in
/-- `GetLaw` for the word-level matrix: a THEOREM (regenerated `Get` = word model = bit grid) -/
theorem wordGetLaw : GetLaw wordOps absW := by
  intro m x y
  rw [wordGet_eq]
  unfold Matrix.get absW
  simp only
  split
  · rfl
  · rename_i h
    have hsq := m.2.2
    rw [absM_eq_ofFn, SMat.get_ofFn_out _ _ _ _ _ (by omega)]

theorem flip_shape {m m' : WMat} {x y : Nat} (h : WMat.flip m x y = .ok m') :
    m'.width = m.width ∧ m'.height = m.height ∧ m'.rowSize = m.rowSize := by
  unfold WMat.flip at h
  simp only [bind, Except.bind, pure, Except.pure] at h
  split at h
  · cases h
  · cases h; exact ⟨rfl, rfl, rfl⟩

when_kernel Gzx.Gen.K16b.matrixFlip in
/-- `FlipLaw` for the word-level matrix: a THEOREM (regenerated `Flip` = word model, which flips exactly that cell of the grid
    and keeps the invariant) -/
theorem wordFlipLaw : FlipLaw wordOps absW := by
  intro m x y hx hy
  have hsq := m.2.2
  have hx' : x < m.1.width := by show x < m.1.width; have : (absW m).dim = m.1.height := rfl; omega
  have hy' : y < m.1.height := hy
  obtain ⟨m', hf, hinv, habs⟩ := WMat.flip_refines m.1 x y m.2.1 hx' hy'
  obtain ⟨sw, sh, sr⟩ := flip_shape hf
  have hm' : ({ m.1 with words := unwords (words m'.words) } : WMat) = m' := by
    rw [unwords_words]
    cases m' with
    | mk w h r ws => simp only at sw sh sr; subst sw sh sr; rfl
  have hflip : wordOps.flip m (x : Int) (y : Int) = .ok ⟨m', hinv, by omega⟩ := by
    show (match Gen.K16b.matrixFlip m.1.rowSize (words m.1.words) x y with
      | .ok ws => reSq { m.1 with words := unwords ws } | .error e => .error e) = _
    rw [Obligations.K16b.k_matrixFlip_eq, hf]
    simp only [expW, Except.map]
    rw [hm', reSq_ok]
  have hdim : (absW m).dim = m.1.height := rfl
  refine ⟨_, hflip, sh, (by show ((m'.width : Nat) : Int) = (m.1.width : Int); rw [sw]),
    (by show ((m'.height : Nat) : Int) = (m.1.height : Int); rw [sh]), ?_⟩
  intro a b ha hb
  show (absM m').get a b = if a = x ∧ b = y then !(absM m.1).get a b else (absM m.1).get a b
  rw [habs, SMat.flip_eq _ (absM_WF m.1) x y hx' hy']
  exact SMat.get_ofFn _ _ _ _ _ (by show a < m.1.width; omega) (by show b < m.1.height; omega)

/-! ### the decoder kernels on the real word-level matrix -/

when_kernel Gzx.Gen.K01d.copyBit in
/-- `copyBit` of the regenerated decoder running on the regenerated `BitMatrix.Get` over `[]uint32` = the model's `copyBit` -/
theorem k_copyBit_word (m : SqM) (mirror : Bool) (i j acc : Nat) :
    Gen.K01d.copyBit wordOps m mirror (i : Int) (j : Int) (acc : Int) =
      (QRDec.copyBit (absW m) mirror acc (i, j)).map Int.ofNat :=
  k_copyBit_eq wordOps absW wordGetLaw m mirror i j acc

when_kernel Gzx.Gen.K01d.readFormatInformation in
/-- `ReadFormatInformation` on the word-level matrix (dimension ≥ 8) = the model on the matrix it stands for -/
theorem k_readFormatInformation_word (m : SqM) (p : Parser) (hm : absW m = p.m) (hd : 8 ≤ p.m.dim) :
    Gen.K01d.readFormatInformation wordOps m (p.fmt.map encFI) p.mirror =
      expRFI (QRDec.readFormatInformation QRTables.tables p) :=
  k_readFormatInformation_eq wordOps absW wordGetLaw m p hm (by rw [← hm]; rfl) hd

when_kernel Gzx.Gen.K01d.readVersion in
/-- `ReadVersion` on the word-level matrix = the model on the matrix it stands for -/
theorem k_readVersion_word (m : SqM) (p : Parser) (hm : absW m = p.m) (hv : ∀ v, p.ver = some v → 1 ≤ v.num) :
    Gen.K01d.readVersion wordOps m (hOf p.ver) p.mirror = expRV (QRDec.readVersion QRTables.tables p) :=
  k_readVersion_eq wordOps absW wordGetLaw m p hm (by rw [← hm]; rfl) hv

when_kernel Gzx.Gen.K01d.mirror in
/-- `Mirror()` on the word-level matrix (regenerated `Get` and `Flip` over `[]uint32`): the result is again a well-formed
    square matrix of the same size whose module `(a, b)` is the former module `(b, a)` -/
theorem k_mirror_word (m : SqM) (fuel : Nat) (hf : m.1.height < fuel) :
    ∃ m' : SqM, Gen.K01d.mirror wordOps fuel m = .ok m' ∧ m'.1.height = m.1.height ∧
      ∀ a b, a < m.1.height → b < m.1.height → (absW m').bit a b = (mirrorMatrix (absW m)).bit a b := by
  obtain ⟨m', h1, h2, _, _, h5⟩ := k_mirror_eq wordOps absW wordGetLaw wordFlipLaw m m.1.height rfl
    (by show ((m.1.width : Nat) : Int) = _; rw [m.2.2]) rfl fuel hf
  exact ⟨m', h1, h2, h5⟩

/-- non-vacuity: a 21x21 word matrix is such a matrix -/
example : ∃ m : SqM, m.1.height = 21 := by
  obtain ⟨m0, _, hinv, hw, hh, _⟩ := WMat.newMat_props 21 21 (by decide) (by decide)
  exact ⟨⟨m0, hinv, by omega⟩, hh⟩

end Gzx.Obligations.K01e
