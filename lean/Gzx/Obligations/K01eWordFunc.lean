/-
  K01e — `SetRegionLaw` and `NewSquareLaw` for the word-level matrix (`wordOps`, Obligations/K01eWord.lean: the regenerated
  `BitMatrix.SetRegion` over `[]uint32`), hence `Version.buildFunctionPattern` on the REAL `BitMatrix`: for every version of the
  regenerated table the regenerated function, running on the regenerated `SetRegion`, yields a well-formed word matrix whose
  modules are the model's function pattern (`k_buildFunctionPattern_word`).  Checked with C16 (it depends on K16b).
-/
import Gzx.Obligations.K01eWord
import Gzx.Obligations.K01eFunc
namespace Gzx.Obligations.K01e
open Gzx Gzx.GoM Gzx.GoVal Gzx.QRDec Gzx.Bits Gzx.Obligations.K01d

theorem setRegion_shape {m m' : WMat} {l t w h : Nat} (hs : WMat.setRegion m l t w h = .ok m') :
    m'.width = m.width ∧ m'.height = m.height ∧ m'.rowSize = m.rowSize := by
  simp only [WMat.setRegion] at hs
  repeat' (split at hs)
  all_goals first | (cases hs; exact ⟨rfl, rfl, rfl⟩) | cases hs

theorem reSq_self (m : SqM) : reSq ({ m.1 with words := unwords (words m.1.words) } : WMat) = .ok m := by
  have : ({ m.1 with words := unwords (words m.1.words) } : WMat) = m.1 := by rw [unwords_words]
  rw [this, reSq_ok m.1 m.2]
  rfl

theorem wordOps_setRegion_def (m : SqM) (l t w h : Int) :
    wordOps.setRegion m l t w h =
      match Gen.K16b.matrixSetRegion m.1.width m.1.height m.1.rowSize (words m.1.words) l t w h with
      | .ok (e, ws) => (match reSq { m.1 with words := unwords ws } with | .ok m' => .ok (m', e) | .error f => .error f)
      | .error e => .error e := rfl

theorem wordOps_newSquare_def (d : Int) :
    wordOps.newSquare d =
      match WMat.new d.toNat d.toNat with
      | .ok m' => if d < 1 then .error (.panic "unreachable") else
          (match reSq m' with | .ok s => .ok (s, false) | .error f => .error f)
      | .error _ => .ok (unitM, true) := rfl

when_kernel Gzx.Gen.K16b.matrixSetRegion in
theorem wordSetRegionLaw : SetRegionLaw wordOps absW := by
  intro m l t w h _ _
  have hsq := m.2.2
  have hdim : (absW m).dim = m.1.height := rfl
  constructor
  · intro hbad
    unfold regionBad at hbad
    rw [hdim] at hbad
    rw [wordOps_setRegion_def]
    have hgen : Gen.K16b.matrixSetRegion m.1.width m.1.height m.1.rowSize (words m.1.words) l t w h = .ok (true, words m.1.words) := by
      simp only [Gen.K16b.matrixSetRegion]
      by_cases h1 : t < 0 ∨ l < 0
      · have : (decide (t < 0) || decide (l < 0)) = true := by simpa using h1
        simp [this]
      · have c1 : (decide (t < 0) || decide (l < 0)) = false := by simpa using h1
        by_cases h2 : h < 1 ∨ w < 1
        · have : (decide (h < 1) || decide (w < 1)) = true := by simpa using h2
          simp [c1, this]
        · have c2 : (decide (h < 1) || decide (w < 1)) = false := by simpa using h2
          have h3 : t + h > (m.1.height : Int) ∨ l + w > (m.1.width : Int) := by
            rw [hsq]; omega
          have : (decide (t + h > (m.1.height : Int)) || decide (l + w > (m.1.width : Int))) = true := by simpa using h3
          simp [c1, c2, this]
    rw [hgen]
    simp only [reSq_self]
  · intro hok
    unfold regionBad at hok
    rw [hdim] at hok
    obtain ⟨ln, rfl⟩ := Int.eq_ofNat_of_zero_le (by omega : 0 ≤ l)
    obtain ⟨tn, rfl⟩ := Int.eq_ofNat_of_zero_le (by omega : 0 ≤ t)
    obtain ⟨wn, rfl⟩ := Int.eq_ofNat_of_zero_le (by omega : 0 ≤ w)
    obtain ⟨hn, rfl⟩ := Int.eq_ofNat_of_zero_le (by omega : 0 ≤ h)
    have hok' : ¬ (hn < 1 ∨ wn < 1) ∧ ¬ (tn + hn > (absM m.1).height ∨ ln + wn > (absM m.1).width) := by
      have e1 : (absM m.1).height = m.1.height := rfl
      have e2 : (absM m.1).width = m.1.width := rfl
      rw [e1, e2, hsq]; omega
    have href := WMat.setRegion_refines m.1 ln tn wn hn m.2.1
    rw [SMat.setRegion_eq _ (absM_WF m.1) ln tn wn hn hok'] at href
    obtain ⟨m', hs, hinv, habs⟩ := href
    obtain ⟨sw, sh, sr⟩ := setRegion_shape hs
    have hm' : ({ m.1 with words := unwords (words m'.words) } : WMat) = m' := by
      rw [unwords_words]
      cases m' with
      | mk w' h' r' ws => simp only at sw sh sr; subst sw sh sr; rfl
    refine ⟨⟨m', hinv, by omega⟩, ?_, sh, (by show ((m'.width : Nat) : Int) = (m.1.width : Int); rw [sw]),
      (by show ((m'.height : Nat) : Int) = (m.1.height : Int); rw [sh]), ?_⟩
    · rw [wordOps_setRegion_def, Obligations.K16b.k_matrixSetRegion_eq, hs]
      simp only [expEW]
      rw [hm', reSq_ok m' ⟨hinv, by omega⟩]
    · intro a b ha hb
      show (absM m').get a b = _
      rw [habs, SMat.get_ofFn _ _ _ _ _ (by show a < m.1.width; omega) (by show b < m.1.height; omega)]
      show ((absM m.1).get a b || _) = ((absM m.1).get a b || _)
      congr 1
      have e1 : decide (ln ≤ a) = decide ((ln : Int) ≤ (a : Int)) := by apply decide_eq_decide.mpr; omega
      have e2 : decide (a < ln + wn) = decide ((a : Int) < (ln : Int) + (wn : Int)) := by apply decide_eq_decide.mpr; omega
      have e3 : decide (tn ≤ b) = decide ((tn : Int) ≤ (b : Int)) := by apply decide_eq_decide.mpr; omega
      have e4 : decide (b < tn + hn) = decide ((b : Int) < (tn : Int) + (hn : Int)) := by apply decide_eq_decide.mpr; omega
      rw [e1, e2, e3, e4, Bool.and_assoc, Bool.and_assoc, Bool.and_assoc]

theorem wordNewSquareLaw : NewSquareLaw wordOps absW := by
  intro d
  constructor
  · intro h
    refine ⟨unitM, ?_⟩
    rw [wordOps_newSquare_def]
    have : WMat.new d.toNat d.toNat = .error .illegalArg := by
      unfold WMat.new; rw [if_pos (by omega)]
    rw [this]
  · intro h
    obtain ⟨m0, hn, hinv, hw, hh, hbits⟩ := WMat.newMat_props d.toNat d.toNat (by omega) (by omega)
    refine ⟨⟨m0, hinv, by omega⟩, ?_, hh, (by show ((m0.width : Nat) : Int) = d; omega), (by show ((m0.height : Nat) : Int) = d; omega), ?_⟩
    · rw [wordOps_newSquare_def, hn]
      simp only [if_neg (by omega : ¬ d < 1)]
      rw [reSq_ok m0 ⟨hinv, by omega⟩]
    · intro a b ha hb
      show (absM m0).get a b = false
      rw [absM_get m0 a b (by omega) (by omega)]
      exact hbits a b

when_kernel Gzx.Gen.K01d.buildFunctionPattern in
/-- `Version.buildFunctionPattern()` on the word-level `BitMatrix` (regenerated `SetRegion` over `[]uint32`): for every version of
    the regenerated table, no error, and the matrix is the model's function pattern -/
theorem k_buildFunctionPattern_word (v : VersionInfo) (hv : v ∈ QRTables.versions) :
    ∃ (m' : SqM) (F : Matrix), Gen.K01d.buildFunctionPattern wordOps (v.num : Int) (v.centers.map Int.ofNat) = .ok (m', false) ∧
      QRDec.buildFunctionPattern v = .ok F ∧ m'.1.height = F.dim ∧
      ∀ a b, a < F.dim → b < F.dim → (absW m').bit a b = F.bit a b := by
  obtain ⟨m', F, h1, h2, h3, _, _, h6⟩ := k_buildFunctionPattern_lawful wordOps absW wordSetRegionLaw wordNewSquareLaw v hv
  exact ⟨m', F, h1, h2, h3, h6⟩

end Gzx.Obligations.K01e
