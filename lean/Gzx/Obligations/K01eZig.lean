/-
  K01e (bit_matrix_parser.go) — the ZIG-ZAG READ LOOP of `BitMatrixParser.ReadCodewords` (column pairs from the right, skipping
  column 6, alternately upwards and downwards, two modules per row, modules of the function pattern skipped, eight bits packed
  into a byte of `result`), regenerated on every run as a region (`Gzx.Gen.K01de.zigzag`, kind regionq: both matrices abstract),
  proved equal to the model's reading order: the loop performs exactly `packBit` on the data bits of `QRDec.zigzagCells dim` in
  that order (`QRDec.readDataBits`), for every pair of lawful matrices (unmasked symbol, function pattern) of every dimension.
-/
import Gzx.Obligations.K01eMirror
import Gzx.Obligations.K01eBuf
namespace Gzx.Obligations.K01e
open Gzx Gzx.GoM Gzx.GoVal Gzx.QRDec Gzx.Obligations.K01d

/-- the packing state of the Go loop: (result, resultOffset, currentByte, bitsRead) -/
abbrev ZSt := List Nat × Nat × Nat × Nat

def encZ (st : ZSt) : List Int × Int × Int × Int := (bytes st.1, (st.2.1 : Int), (st.2.2.1 : Int), (st.2.2.2 : Int))

/-- one data bit: shift it into `currentByte`; the eighth bit stores the byte (index-checked) and resets the two counters -/
def packBit (st : ZSt) (b : Bool) : Res ZSt :=
  let cur := 2 * st.2.2.1 + b.toNat
  if st.2.2.2 + 1 = 8 then
    (if st.2.1 < st.1.length then .ok (st.1.set st.2.1 (cur % 256), st.2.1 + 1, 0, 0) else .error oob)
  else .ok (st.1, st.2.1, cur, st.2.2.2 + 1)

/-- one module: skipped when the function pattern covers it -/
def cellStep (F A : Matrix) (st : ZSt) (xy : Nat × Nat) : Res ZSt :=
  if getV F xy.1 xy.2 then .ok st else packBit st (getV A xy.1 xy.2)

theorem setIdx_bytes (res : List Nat) (off v : Nat) :
    setIdx (bytes res) (off : Int) (v : Int) = if off < res.length then .ok (bytes (res.set off v)) else .error oob := by
  have h := setIdx_words res (off : Int) (v : Int) off v rfl rfl
  unfold Bits.setWord at h
  rw [show bytes res = words res from rfl, h]
  split <;> rfl

section
variable {M : Type} (ops : MatOps M) (abs : M → Matrix) (law : GetLaw ops abs)
include law

theorem get_v' (m : M) (x y : Nat) : ops.get m (x : Int) (y : Int) = getV (abs m) x y := by
  have := law m x y
  rw [get_eq] at this
  injection this with h
  exact h.symm

when_kernel Gzx.Gen.K01de.zigzag in
theorem k_zz_body3 (fp m : M) (j i col : Nat) (hj : col ≤ j) (st : ZSt) :
    Gen.K01de.zigzag_body3 ops fp m (j : Int) (i : Int) (col : Int) (encZ st) =
      ofRes ((cellStep (abs fp) (abs m) st (j - col, i)).map encZ) := by
  obtain ⟨res, off, cur, k⟩ := st
  have ej : (j : Int) - (col : Int) = ((j - col : Nat) : Int) := by omega
  simp only [Gen.K01de.zigzag_body3, encZ, ej, get_v' ops abs law, cellStep]
  cases hF : getV (abs fp) (j - col) i with
  | true => simp [Except.map, encZ]
  | false =>
    have s1 : ishl (cur : Int) 1 = ((cur <<< 1 : Nat) : Int) := ishl_natCast cur 1
    have s2 : ior ((cur <<< 1 : Nat) : Int) 1 = ((cur <<< 1 ||| 1 : Nat) : Int) := ior_natCast (cur <<< 1) 1
    have s3 : cur <<< 1 = 2 * cur := by rw [Nat.shiftLeft_eq]; omega
    simp only [Bool.not_false, if_true, Bool.false_eq_true, if_false, s1, packBit]
    cases hA : getV (abs m) (j - col) i with
    | true =>
      simp only [if_true, s2, shl1_or1, Bool.toNat_true]
      by_cases h8 : k + 1 = 8
      · have h8' : (((k : Int) + 1) == 8) = true := by simp; omega
        simp only [h8, h8', if_true, wrap_natCast, setIdx_bytes]
        split <;> simp [Except.map, encZ]
      · have h8' : (((k : Int) + 1) == 8) = false := by simp; omega
        simp [h8, h8', Except.map, encZ]
    | false =>
      simp only [Bool.false_eq_true, if_false, s3, Bool.toNat_false, Nat.add_zero]
      by_cases h8 : k + 1 = 8
      · have h8' : (((k : Int) + 1) == 8) = true := by simp; omega
        simp only [h8, h8', if_true, wrap_natCast, setIdx_bytes]
        split <;> simp [Except.map, encZ]
      · have h8' : (((k : Int) + 1) == 8) = false := by simp; omega
        simp [h8, h8', Except.map, encZ]

/-- one row of a column pair: the modules `(j, i)` and `(j-1, i)` -/
def rowStep (F A : Matrix) (dim j : Nat) (up : Bool) (st : ZSt) (count : Nat) : Res ZSt :=
  [(j, if up then dim - 1 - count else count), (j - 1, if up then dim - 1 - count else count)].foldlM (cellStep F A) st

/-- one column pair: all rows, upwards or downwards -/
def colStep (F A : Matrix) (dim : Nat) (st : ZSt) (ju : Nat × Bool) : Res ZSt :=
  (List.range dim).foldlM (rowStep F A dim ju.1 ju.2) st

when_kernel Gzx.Gen.K01de.zigzag in
theorem k_zz_body2 (fp m : M) (dim j count : Nat) (up : Bool) (hj : 1 ≤ j) (hc : count < dim) (st : ZSt) :
    Gen.K01de.zigzag_body2 ops (dim : Int) fp up m (j : Int) (count : Int) (encZ st) =
      ofRes ((rowStep (abs fp) (abs m) dim j up st count).map encZ) := by
  have hi : (if up then ((dim : Int) - 1) - (count : Int) else (count : Int)) =
      (((if up then dim - 1 - count else count) : Nat) : Int) := by cases up <;> simp <;> omega
  have ht : tripUp 0 2 1 = 2 := by decide
  simp only [Gen.K01de.zigzag_body2, hi]
  have h : loop (ρ := List Int × Int × M) (Gen.K01de.zigzag_body3 ops fp m (j : Int) (((if up then dim - 1 - count else count) : Nat) : Int)) 1
      (tripUp 0 2 1) 0 (encZ st) = _ :=
    loop_up_fold' encZ (fun st col => cellStep (abs fp) (abs m) st (j - col, if up then dim - 1 - count else count)) 0 2 st rfl ht rfl
      (fun col _ hc2 st => k_zz_body3 ops abs law fp m j _ col (by omega) st)
  rw [h]
  rw [show (fun (st : List Int × Int × Int × Int) => (Ctl.next (st.1, st.2.1, st.2.2.1, st.2.2.2) : Ctl _ (List Int × Int × M))) = fun st => Ctl.next st from rfl,
    ofRes_thenC_next]
  rfl

when_kernel Gzx.Gen.K01de.zigzag in
theorem k_zz_col (fp m : M) (dim j : Nat) (up : Bool) (hj : 1 ≤ j) (st : ZSt) :
    loop (ρ := List Int × Int × M) (Gen.K01de.zigzag_body2 ops (dim : Int) fp up m (j : Int)) 1 (tripUp 0 (dim : Int) 1) 0 (encZ st) =
      ofRes ((colStep (abs fp) (abs m) dim st (j, up)).map encZ) := by
  have ht : tripUp 0 (dim : Int) 1 = dim := by rw [tripUp_one]; omega
  have h : loop (ρ := List Int × Int × M) (Gen.K01de.zigzag_body2 ops (dim : Int) fp up m (j : Int)) 1 (tripUp 0 (dim : Int) 1) 0 (encZ st) = _ :=
    loop_up_fold' encZ (fun st count => rowStep (abs fp) (abs m) dim j up st count) 0 dim st rfl ht rfl
      (fun count _ hc st => k_zz_body2 ops abs law fp m dim j count up hj (by omega) st)
  rw [h]
  unfold colStep
  rw [List.range_eq_range']

/-- the state of the outer loop: (readingUp, result, resultOffset, currentByte, bitsRead, j) -/
def encO (up : Bool) (st : ZSt) (j : Int) : Bool × List Int × Int × Int × Int × Int :=
  (up, bytes st.1, (st.2.1 : Int), (st.2.2.1 : Int), (st.2.2.2 : Int), j)

when_kernel Gzx.Gen.K01de.zigzag in
/-- the outer loop `for j := dimension-1; j > 0; j -= 2 { if j == 6 { j-- } … }` = the model's `colPairs` -/
theorem k_zz_outer (fp m : M) (dim : Nat) : ∀ (n jN : Nat) (jI : Int) (up : Bool) (st : ZSt) (fl : Nat),
    (jI > 0 → jI = (jN : Int)) → (jI ≤ 0 → jN = 0) → jN ≤ 2 * n → n < fl →
    match (colPairs n jN up).foldlM (colStep (abs fp) (abs m) dim) st with
    | .ok st' => ∃ up' j', whileLoop (ρ := List Int × Int × M) (Gen.K01de.zigzag_body1 ops (dim : Int) fp m) fl (encO up st jI) =
        .brk (encO up' st' j')
    | .error e => whileLoop (ρ := List Int × Int × M) (Gen.K01de.zigzag_body1 ops (dim : Int) fp m) fl (encO up st jI) = .panic e := by
  intro n
  induction n with
  | zero =>
    intro jN jI up st fl h1 h2 hb hf
    obtain ⟨fl, rfl⟩ : ∃ f, fl = f + 1 := ⟨fl - 1, by omega⟩
    have hj0 : ¬ (jI > 0) := by intro h; have := h1 h; omega
    simp only [colPairs, List.foldlM, pure, Except.pure]
    refine ⟨up, jI, ?_⟩
    rw [whileLoop_succ]
    simp only [Gen.K01de.zigzag_body1, encO, hj0, decide_false, Bool.false_eq_true, if_false]
  | succ n ih =>
    intro jN jI up st fl h1 h2 hb hf
    obtain ⟨fl, rfl⟩ : ∃ f, fl = f + 1 := ⟨fl - 1, by omega⟩
    by_cases hpos : jI > 0
    · have hjn : jI = (jN : Int) := h1 hpos
      subst hjn
      have hN : jN > 0 := by omega
      have hb6 : ((jN : Int) == 6) = decide (jN = 6) := by
        by_cases h6 : jN = 6
        · subst h6; rfl
        · have : ((jN : Int) == 6) = false := by simp; omega
          simp [this, h6]
      have hj2 : (if jN = 6 then (jN : Int) - 1 else (jN : Int)) = (((if jN = 6 then 5 else jN) : Nat) : Int) := by
        split <;> omega
      have hj1 : 1 ≤ (if jN = 6 then 5 else jN) := by split <;> omega
      rw [whileLoop_succ]
      simp only [colPairs, hN, if_true, List.foldlM, bind, Except.bind]
      simp only [Gen.K01de.zigzag_body1, encO, hpos, decide_true, if_true, hb6, decide_eq_true_eq, hj2]
      have hcol := k_zz_col ops abs law fp m dim (if jN = 6 then 5 else jN) up hj1 st
      rw [show (bytes st.1, (st.2.1 : Int), (st.2.2.1 : Int), (st.2.2.2 : Int)) = encZ st from rfl, hcol]
      cases hc : colStep (abs fp) (abs m) dim st (if jN = 6 then 5 else jN, up) with
      | error e => simp [Except.map]
      | ok st1 =>
        simp only [Except.map, ofRes_ok, next_thenC]
        have ih' := ih ((if jN = 6 then 5 else jN) - 2) ((((if jN = 6 then 5 else jN) : Nat) : Int) - 2) (!up) st1 fl
          (by intro h; split at h <;> split <;> omega) (by intro h; split at h <;> split <;> omega) (by split <;> omega) (by omega)
        exact ih'
    · have hj0 : jN = 0 := h2 (by omega)
      subst hj0
      simp only [colPairs, Nat.lt_irrefl, if_false, List.foldlM, pure, Except.pure]
      refine ⟨up, jI, ?_⟩
      rw [whileLoop_succ]
      simp only [Gen.K01de.zigzag_body1, encO, hpos, decide_false, Bool.false_eq_true, if_false]

end

/-! ### the model side: the fold over `zigzagCells` is `readDataBits` -/

/-- the data bits of a cell list: modules outside the function pattern, in order -/
def dataBits (F A : Matrix) (cells : List (Nat × Nat)) : List Bool :=
  cells.filterMap (fun xy => if getV F xy.1 xy.2 then none else some (getV A xy.1 xy.2))

theorem readDataBits_eq (F A : Matrix) : ∀ (cells : List (Nat × Nat)) (acc : List Bool),
    readDataBits F A cells acc = .ok (acc.reverse ++ dataBits F A cells)
  | [], acc => by simp [readDataBits, dataBits]
  | xy :: rest, acc => by
    simp only [readDataBits, get_eq, bind, Except.bind]
    cases hF : getV F xy.1 xy.2 with
    | true =>
      simp only [if_true]
      rw [readDataBits_eq F A rest acc]
      simp [dataBits, hF]
    | false =>
      simp only [Bool.false_eq_true, if_false]
      rw [readDataBits_eq F A rest _]
      simp [dataBits, hF]

theorem foldlM_cells (F A : Matrix) : ∀ (cells : List (Nat × Nat)) (st : ZSt),
    cells.foldlM (cellStep F A) st = (dataBits F A cells).foldlM packBit st
  | [], st => rfl
  | xy :: rest, st => by
    simp only [List.foldlM, cellStep, bind, Except.bind]
    cases hF : getV F xy.1 xy.2 with
    | true =>
      simp only [if_true]
      rw [foldlM_cells F A rest st]
      simp [dataBits, hF]
    | false =>
      have hd : dataBits F A (xy :: rest) = getV A xy.1 xy.2 :: dataBits F A rest := by simp [dataBits, hF]
      simp only [Bool.false_eq_true, if_false, hd, List.foldlM, bind, Except.bind]
      cases packBit st (getV A xy.1 xy.2) with
      | error e => rfl
      | ok st1 => exact foldlM_cells F A rest st1

theorem foldlM_flatMap {α β σ : Type} (f : α → List β) (g : σ → β → Res σ) : ∀ (l : List α) (a : σ),
    (l.flatMap f).foldlM g a = l.foldlM (fun a x => (f x).foldlM g a) a
  | [], a => rfl
  | x :: rest, a => by
    rw [List.flatMap_cons, List.foldlM_append]
    simp only [List.foldlM, bind, Except.bind]
    cases (f x).foldlM g a with
    | error e => rfl
    | ok a1 => exact foldlM_flatMap f g rest a1

theorem zz_fold_eq (F A : Matrix) (dim : Nat) (st : ZSt) :
    (colPairs dim (dim - 1) true).foldlM (colStep F A dim) st = (dataBits F A (zigzagCells dim)).foldlM packBit st := by
  rw [← foldlM_cells]
  unfold zigzagCells
  rw [foldlM_flatMap]
  congr 1
  funext st ju
  rw [foldlM_flatMap]
  rfl

when_kernel Gzx.Gen.K01de.zigzag in
/-- THE ZIG-ZAG LOOP of `ReadCodewords` = packing the model's data bits in the model's reading order: for every pair of lawful
    matrices (symbol, function pattern), every dimension, every `result` slice and every fuel above the dimension, the loop
    visits the modules of `QRDec.zigzagCells dim`, skips those of the function pattern, and packs the others MSB-first into
    `result` (an index panic exactly where `packBit` runs over the end of `result`) -/
theorem k_zigzag_eq {M : Type} (ops : MatOps M) (abs : M → Matrix) (law : GetLaw ops abs) (fp m : M) (dim : Nat)
    (res0 : List Nat) (fuel : Nat) (hf : dim < fuel) :
    Gen.K01de.zigzag ops fuel m (dim : Int) fp true (bytes res0) =
      match (dataBits (abs fp) (abs m) (zigzagCells dim)).foldlM packBit (res0, 0, 0, 0) with
      | .ok st' => .ok (bytes st'.1, (st'.2.1 : Int), m)
      | .error e => .error e := by
  have ho := k_zz_outer ops abs law fp m dim dim (dim - 1) ((dim : Int) - 1) true (res0, 0, 0, 0) fuel
    (by omega) (by omega) (by omega) hf
  rw [zz_fold_eq] at ho
  cases hfold : (dataBits (abs fp) (abs m) (zigzagCells dim)).foldlM packBit (res0, 0, 0, 0) with
  | error e =>
    rw [hfold] at ho
    have hw : whileLoop (Gen.K01de.zigzag_body1 ops (dim : Int) fp m) fuel
        (true, bytes res0, (0 : Int), (0 : Int), (0 : Int), (dim : Int) - 1) = _ := ho
    simp only [Gen.K01de.zigzag, hw, panic_thenR]
  | ok st' =>
    rw [hfold] at ho
    obtain ⟨up', j', ho⟩ := ho
    have hw : whileLoop (Gen.K01de.zigzag_body1 ops (dim : Int) fp m) fuel
        (true, bytes res0, (0 : Int), (0 : Int), (0 : Int), (dim : Int) - 1) = _ := ho
    simp only [Gen.K01de.zigzag, hw, brk_thenR, encO]

/-- … and those data bits are what the model's `readDataBits` returns -/
theorem dataBits_model (F A : Matrix) (dim : Nat) :
    readDataBits F A (zigzagCells dim) [] = .ok (dataBits F A (zigzagCells dim)) := by
  rw [readDataBits_eq]; rfl

end Gzx.Obligations.K01e
