/-
  K02d — the arithmetic helpers of the Data Matrix bit-stream parser (datamatrix/decoder/decoded_bit_stream_parser.go)
  regenerated from /repo on every run (`Gzx.Gen.K02d`) and proved equal to the models for all arguments (properties C02,
  C06): `parseTwoBytes` (Model/DMHighLevel.lean) and `unrandomize255State` (Model/DMDecoder.lean).
-/
import Gzx.Gen.K02d
import Gzx.KernelGuard
import Gzx.Model.DMHighLevel
import Gzx.Model.DMDecoder
import Gzx.Proofs.GoMTie
namespace Gzx.Obligations.K02d
open Gzx Gzx.GoM Gzx.GoVal

when_kernel Gzx.Gen.K02d.parseTwoBytes in
/-- `parseTwoBytes(firstByte, secondByte, result)` writes the model's three C40 values into `result[0..2]` (Go's
    truncating division included: (0,0) gives (0,0,-1)) and leaves the rest of the slice alone -/
theorem k_parseTwoBytes_eq (b1 b2 : Nat) (r0 r1 r2 : Int) (rest : List Int) :
    Gen.K02d.parseTwoBytes b1 b2 (r0 :: r1 :: r2 :: rest) =
      .ok ((DMHighLevel.parseTwoBytes b1 b2).1 :: (DMHighLevel.parseTwoBytes b1 b2).2.1 :: (DMHighLevel.parseTwoBytes b1 b2).2.2 :: rest) := by
  have e : GoVal.ishl (b1 : Int) 8 = (b1 : Int) * 256 := by
    rw [show (8 : Int) = ((8 : Nat) : Int) from rfl, ishl_natCast, Nat.shiftLeft_eq]; simp
  simp [Gen.K02d.parseTwoBytes, DMHighLevel.parseTwoBytes, setIdx, e]

when_kernel Gzx.Gen.K02d.parseTwoBytes in
/-- a `result` slice shorter than three elements: Go panics (index out of range) -/
theorem k_parseTwoBytes_short (b1 b2 : Int) (result : List Int) (h : result.length < 3) :
    Gen.K02d.parseTwoBytes b1 b2 result = .error oob := by
  match result, h with
  | [], _ => simp [Gen.K02d.parseTwoBytes, setIdx]
  | [_], _ => simp [Gen.K02d.parseTwoBytes, setIdx]
  | [_, _], _ => simp [Gen.K02d.parseTwoBytes, setIdx]

when_kernel Gzx.Gen.K02d.unrandomize255State in
/-- `unrandomize255State` = the model function, for all arguments -/
theorem k_unrandomize255State_eq (w pos : Int) :
    Gen.K02d.unrandomize255State w pos = .ok (DMDec.unrandomize255State w pos) := by
  unfold Gen.K02d.unrandomize255State DMDec.unrandomize255State
  dsimp only
  generalize Int.tmod (149 * pos) 255 = r
  by_cases h : w - (r + 1) ≥ 0
  · rw [if_pos (by simpa using h), if_pos h]
  · rw [if_neg (by simpa using h), if_neg h]

example : Gen.K02d.parseTwoBytes 0 0 [7, 7, 7, 9] = .ok [0, 0, -1, 9] := by decide

end Gzx.Obligations.K02d
