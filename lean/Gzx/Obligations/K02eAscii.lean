/-
  K02e (wp k11b2) — `decodeAsciiSegment` of datamatrix/decoder/decoded_bit_stream_parser.go, regenerated from /repo on
  every run (`Gzx.Gen.K02e.decodeAsciiSegment`: the `for bits.Available() > 0` loop, the chain of codeword classes with
  the `switch` of latches / FNC1 / macros / upper shift, `strconv.Itoa` of a digit pair, the trailer prepend, the 254
  work-around), proved equal to `asciiOut` for EVERY byte-aligned bit source (`k_decodeAsciiSegment_eq`).

  `asciiOut` is the ASCII part of the model's fused loop `DMHighLevel.decLoop` read off as a function of its own:
  `decLoop_ascii` proves that `decLoop` (in ASCII state) is `asciiOut` followed by the dispatch on the mode it returns.
-/
import Gzx.Obligations.K02eC40
namespace Gzx.Obligations.K02e
open Gzx Gzx.GoM Gzx.GoVal Gzx.DMHighLevel

/-! ## model side -/

/-- what decodeAsciiSegment does to its three accumulators -/
inductive AEv where
  | chars (cs : List Nat)
  | fnc1
  | macroH (n : Nat)
  deriving Repr, DecidableEq

def Acc.aev (a : Acc) : AEv → Acc
  | .chars cs => a.pushAll cs
  | .fnc1 => a.fnc
  | .macroH n => { a.pushAll (macroHeader n) with trailer := macroTrailer ++ a.trailer }

def Acc.aevs (a : Acc) (es : List AEv) : Acc := es.foldl Acc.aev a

/-- prepend an event / count a byte -/
def aCons (e : Option AEv) : Res (Nat × List AEv × Nat) → Res (Nat × List AEv × Nat)
  | .ok (m, es, k) => .ok (m, (match e with | some e => e :: es | none => es), k + 1)
  | .error f => .error f

/-- decodeAsciiSegment on the remaining bytes: (mode returned, events, bytes consumed).  Modes as in the Go `const` block:
    0 PAD, 1 ASCII, 2 C40, 3 TEXT, 4 ANSIX12, 5 EDIFACT, 6 BASE256, 7 ECI -/
def asciiOut : List Nat → Bool → Res (Nat × List AEv × Nat)
  | [], _ => .ok (1, [], 0)
  | b :: rest, up =>
    if b = 0 then .error .format
    else if b ≤ 128 then .ok (1, [.chars [(if up then b + 128 else b) - 1]], 1)
    else if b = 129 then .ok (0, [], 1)
    else if b ≤ 229 then aCons (some (.chars (digitPair (b - 130)))) (asciiOut rest up)
    else if b = 230 then .ok (2, [], 1)
    else if b = 231 then .ok (6, [], 1)
    else if b = 232 then aCons (some .fnc1) (asciiOut rest up)
    else if b = 233 ∨ b = 234 then aCons none (asciiOut rest up)
    else if b = 235 then aCons none (asciiOut rest true)
    else if b = 236 then aCons (some (.macroH 5)) (asciiOut rest up)
    else if b = 237 then aCons (some (.macroH 6)) (asciiOut rest up)
    else if b = 238 then .ok (4, [], 1)
    else if b = 239 then .ok (3, [], 1)
    else if b = 240 then .ok (5, [], 1)
    else if b = 241 then .ok (7, [], 1)
    else if b ≠ 254 ∨ !rest.isEmpty then .error .format
    else aCons none (asciiOut rest up)

/-- the dispatch of the main loop on the mode decodeAsciiSegment returned, `rest` being the bytes left at byte offset `off`
    (the model's `decLoop` has this fused into its ASCII cases) -/
def afterAscii (T : Tables) (mode : Nat) (rest : List Nat) (off : Nat) (a : Acc) : Res Acc :=
  if mode = 0 then .ok a
  else if mode = 1 then decLoop T rest 0 false off a.endSeg
  else if mode = 2 then
    match cSeg T false rest {} a 0 with
    | .ok (a', n) => decLoop T rest n false off a'.endSeg
    | .error e => .error e
  else if mode = 3 then
    match cSeg T true rest {} a 0 with
    | .ok (a', n) => decLoop T rest n false off a'.endSeg
    | .error e => .error e
  else if mode = 4 then
    match x12Seg rest a 0 with
    | .ok (a', n) => decLoop T rest n false off a'.endSeg
    | .error e => .error e
  else if mode = 5 then decLoop T rest (edifactSeg rest a 0).2 false off (edifactSeg rest a 0).1.endSeg
  else if mode = 6 then
    if rest.isEmpty then .ok a
    else match b256Seg rest off a with
      | .ok (a', n) => decLoop T rest n false off a'
      | .error e => .error e
  else if mode = 7 then decLoop T rest 0 false off (if rest.isEmpty then a else { a with eci := true })
  else .error .format

/-- the continuation of the main loop after decodeAsciiSegment -/
def asciiThen (T : Tables) (bs : List Nat) (off : Nat) (a : Acc) : Res (Nat × List AEv × Nat) → Res Acc
  | .error e => .error e
  | .ok (m, es, k) => afterAscii T m (bs.drop k) (off + k) (Acc.aevs a es)

theorem endSeg_endSeg (a : Acc) : a.endSeg.endSeg = a.endSeg := by simp [Acc.endSeg]

theorem aevs_cons (a : Acc) (e : AEv) (es : List AEv) : Acc.aevs a (e :: es) = Acc.aevs (Acc.aev a e) es := rfl

/-- the model's fused loop, in ASCII state, IS `asciiOut` followed by the dispatch on the returned mode (up to the
    bookkeeping `endSeg` of the final accumulator, which neither the text nor the symbology modifier sees) -/
theorem decLoop_ascii (T : Tables) : ∀ (bs : List Nat) (up : Bool) (off : Nat) (a : Acc),
    (decLoop T bs 0 up off a).map Acc.endSeg =
      (asciiThen T bs off a (asciiOut bs up)).map Acc.endSeg := by
  intro bs
  induction bs with
  | nil =>
    intro up off a
    simp [decLoop, asciiOut, asciiThen, afterAscii, Acc.aevs, Except.map, endSeg_endSeg]
  | cons b rest ih =>
    intro up off a
    -- a continuing iteration: one event (or none), then the induction hypothesis
    have cont : ∀ (e : Option AEv) (up' : Bool) (a' : Acc),
        (a' = match e with | some e => Acc.aev a e | none => a) →
        (decLoop T rest 0 up' (off + 1) a').map Acc.endSeg =
          (asciiThen T (b :: rest) off a (aCons e (asciiOut rest up'))).map Acc.endSeg := by
      intro e up' a' ha
      rw [ih up' (off + 1) a']
      cases asciiOut rest up' with
      | error f => simp [asciiThen, aCons]
      | ok p =>
        obtain ⟨m, es, k⟩ := p
        subst ha
        cases e <;> simp [asciiThen, aCons, aevs_cons, Nat.add_assoc, Nat.add_comm 1 k]
    unfold decLoop asciiOut
    by_cases c0 : b = 0
    · simp [c0, Except.map, asciiThen]
    simp only [c0, if_false]
    by_cases c128 : b ≤ 128
    · simp only [if_pos c128]; simp [asciiThen, afterAscii, Acc.aevs, Acc.aev, Acc.pushAll] <;> rfl
    simp only [c128, if_false]
    by_cases c129 : b = 129
    · simp only [if_pos c129]; simp [asciiThen, afterAscii, Acc.aevs] <;> rfl
    simp only [c129, if_false]
    by_cases c229 : b ≤ 229
    · simp only [if_pos c229]
      exact cont (some (.chars (digitPair (b - 130)))) up _ rfl
    simp only [c229, if_false]
    by_cases c230 : b = 230
    · simp only [if_pos c230]; simp [asciiThen, afterAscii, Acc.aevs] <;> rfl
    simp only [c230, if_false]
    by_cases c231 : b = 231
    · simp only [if_pos c231]; simp [asciiThen, afterAscii, Acc.aevs] <;> rfl
    simp only [c231, if_false]
    by_cases c232 : b = 232
    · simp only [if_pos c232]
      exact cont (some .fnc1) up _ rfl
    simp only [c232, if_false]
    by_cases c233 : b = 233 ∨ b = 234
    · simp only [if_pos c233]
      exact cont none up _ rfl
    simp only [c233, if_false]
    by_cases c235 : b = 235
    · simp only [if_pos c235]
      exact cont none true _ rfl
    simp only [c235, if_false]
    by_cases c236 : b = 236
    · simp only [if_pos c236]
      exact cont (some (.macroH 5)) up _ rfl
    simp only [c236, if_false]
    by_cases c237 : b = 237
    · simp only [if_pos c237]
      exact cont (some (.macroH 6)) up _ rfl
    simp only [c237, if_false]
    by_cases c238 : b = 238
    · simp only [if_pos c238]; simp [asciiThen, afterAscii, Acc.aevs] <;> rfl
    simp only [c238, if_false]
    by_cases c239 : b = 239
    · simp only [if_pos c239]; simp [asciiThen, afterAscii, Acc.aevs] <;> rfl
    simp only [c239, if_false]
    by_cases c240 : b = 240
    · simp only [if_pos c240]; simp [asciiThen, afterAscii, Acc.aevs] <;> rfl
    simp only [c240, if_false]
    by_cases c241 : b = 241
    · simp only [if_pos c241]; simp [asciiThen, afterAscii, Acc.aevs] <;> rfl
    simp only [c241, if_false]
    by_cases cbad : b ≠ 254 ∨ (!rest.isEmpty) = true
    · simp only [if_pos cbad]; simp [Except.map, asciiThen]
    · simp only [if_neg cbad]
      exact cont none up _ rfl

/-! ## kernel side -/

/-- what one event does to the Go state `(result, resultTrailer, fnc1positions)` -/
def aevK (p : List Int × List Int × List Int) : AEv → List Int × List Int × List Int
  | .chars cs => (p.1 ++ bytesI cs, p.2.1, p.2.2)
  | .fnc1 => (p.1 ++ [29], p.2.1, p.2.2 ++ [(p.1.length : Int)])
  | .macroH n => (p.1 ++ bytesI (macroHeader n), bytesI macroTrailer ++ p.2.1, p.2.2)

def aevsK (p : List Int × List Int × List Int) (es : List AEv) : List Int × List Int × List Int := es.foldl aevK p

theorem itoa_pair : ∀ v : Fin 100, GoM.itoa ((v.val : Nat) : Int) = bytesI (itoa2 v.val) := by decide

abbrev SA := Int × Int × List Int × List Int × List Int × Bool
abbrev RA := Int × List Int × List Int × Bool × Int × Int × List Int × List Int × List Int

/-- what the kernel must answer for a model outcome -/
def AAgrees (k : Res RA) (res tr fn : List Int) (off : Nat) : Res (Nat × List AEv × Nat) → Prop
  | .ok (m, es, n) => k = .ok ((m : Int), (aevsK (res, tr, fn) es).1, (aevsK (res, tr, fn) es).2.1, false, ((off + n : Nat) : Int), 0,
      (aevsK (res, tr, fn) es).1, (aevsK (res, tr, fn) es).2.1, (aevsK (res, tr, fn) es).2.2)
  | .error _ => ∃ r t bo f, k = .ok (1, r, t, true, bo, 0, r, t, f)

/-- one iteration of the kernel loop on byte `b`, `last` = no byte follows -/
def asciiStepK (b : Nat) (last : Bool) (o : Int) (res tr fn : List Int) (up : Bool) : Ctl SA RA :=
  if b = 0 then .ret (1, res, tr, true, o, 0, res, tr, fn)
  else if b ≤ 128 then
    .ret (1, res ++ [(((if up then b + 128 else b) - 1 : Nat) : Int)], tr, false, o, 0, res ++ [(((if up then b + 128 else b) - 1 : Nat) : Int)], tr, fn)
  else if b = 129 then .ret (0, res, tr, false, o, 0, res, tr, fn)
  else if b ≤ 229 then .next (o, 0, res ++ bytesI (digitPair (b - 130)), tr, fn, up)
  else if b = 230 then .ret (2, res, tr, false, o, 0, res, tr, fn)
  else if b = 231 then .ret (6, res, tr, false, o, 0, res, tr, fn)
  else if b = 232 then .next (o, 0, res ++ [29], tr, fn ++ [(res.length : Int)], up)
  else if b = 233 ∨ b = 234 then .next (o, 0, res, tr, fn, up)
  else if b = 235 then .next (o, 0, res, tr, fn, true)
  else if b = 236 then .next (o, 0, res ++ bytesI (macroHeader 5), bytesI macroTrailer ++ tr, fn, up)
  else if b = 237 then .next (o, 0, res ++ bytesI (macroHeader 6), bytesI macroTrailer ++ tr, fn, up)
  else if b = 238 then .ret (4, res, tr, false, o, 0, res, tr, fn)
  else if b = 239 then .ret (3, res, tr, false, o, 0, res, tr, fn)
  else if b = 240 then .ret (5, res, tr, false, o, 0, res, tr, fn)
  else if b = 241 then .ret (7, res, tr, false, o, 0, res, tr, fn)
  else if b ≠ 254 ∨ !last then .ret (1, res, tr, true, o, 0, res, tr, fn)
  else .next (o, 0, res, tr, fn, up)

when_kernel Gzx.Gen.K02e.decodeAsciiSegment in
theorem ascii_body1_end (F : Nat) (bs : List Nat) (off : Nat) (h : bs.length ≤ off) (res tr fn : List Int) (up : Bool) :
    Gen.K02e.decodeAsciiSegment_body1 F (bytesI bs) ((off : Int), 0, res, tr, fn, up) = .brk ((off : Int), 0, res, tr, fn, up) := by
  unfold Gen.K02e.decodeAsciiSegment_body1
  simp only [k_available_eq, tryC_ok, bytesI_length]
  have c : decide (8 * ((bs.length : Int) - (off : Int)) - 0 > 0) = false := by simp; omega
  simp only [c, Bool.false_eq_true, if_false]

when_kernel Gzx.Gen.K02e.decodeAsciiSegment in
theorem ascii_body1_step (F : Nat) (hF : 2 ≤ F) (bs : List Nat) (hb : ∀ b ∈ bs, b < 256) (off : Nat) (h : off < bs.length)
    (res tr fn : List Int) (up : Bool) :
    Gen.K02e.decodeAsciiSegment_body1 F (bytesI bs) ((off : Int), 0, res, tr, fn, up)
      = asciiStepK bs[off] (decide (off + 1 = bs.length)) ((off + 1 : Nat) : Int) res tr fn up := by
  unfold Gen.K02e.decodeAsciiSegment_body1
  simp only [k_available_eq, tryC_ok, bytesI_length]
  have c : decide (8 * ((bs.length : Int) - (off : Int)) - 0 > 0) = true := by simp; omega
  simp only [c, if_true]
  rw [k_readBits8 F hF bs hb off h]
  simp only [tryC_ok]
  have hlt := hb _ (List.getElem_mem h)
  have e1 : (off : Int) + 1 = ((off + 1 : Nat) : Int) := by omega
  rw [e1]
  generalize bs[off] = b at hlt
  unfold asciiStepK
  by_cases h0 : b = 0
  · subst h0; simp
  have c0 : (((b : Nat) : Int) == 0) = false := by simp; omega
  simp only [c0, Bool.false_eq_true, if_false, h0]
  by_cases h128 : b ≤ 128
  · have c : decide (((b : Nat) : Int) ≤ 128) = true := by simp; omega
    simp only [c, if_true, h128]
    cases up
    · simp only [Bool.false_eq_true, if_false]
      have : wrap 8 ((b : Int) - 1) = ((b - 1 : Nat) : Int) := by unfold wrap; omega
      rw [this]
    · simp only [if_true]
      have : wrap 8 ((b : Int) + 128 - 1) = ((b + 128 - 1 : Nat) : Int) := by unfold wrap; omega
      rw [this]
  have c128 : decide (((b : Nat) : Int) ≤ 128) = false := by simp; omega
  simp only [c128, Bool.false_eq_true, if_false, h128]
  by_cases h129 : b = 129
  · subst h129; simp
  have c129 : (((b : Nat) : Int) == 129) = false := by simp; omega
  simp only [c129, Bool.false_eq_true, if_false, h129]
  by_cases h229 : b ≤ 229
  · have c : decide (((b : Nat) : Int) ≤ 229) = true := by simp; omega
    simp only [c, if_true, h229]
    have e : ((b : Nat) : Int) - 130 = ((b - 130 : Nat) : Int) := by omega
    have hv : b - 130 < 100 := by omega
    have hi := itoa_pair ⟨b - 130, hv⟩
    simp only at hi
    rw [e, hi]
    unfold digitPair
    by_cases h10 : b - 130 < 10
    · have c10 : decide (((b - 130 : Nat) : Int) < 10) = true := by simp; omega
      simp [c10, h10, bytesI]
    · have c10 : decide (((b - 130 : Nat) : Int) < 10) = false := by simp; omega
      simp [c10, h10, bytesI]
  have c229 : decide (((b : Nat) : Int) ≤ 229) = false := by simp; omega
  simp only [c229, Bool.false_eq_true, if_false, h229]
  have hcases : b = 230 ∨ b = 231 ∨ b = 232 ∨ b = 233 ∨ b = 234 ∨ b = 235 ∨ b = 236 ∨ b = 237 ∨ b = 238 ∨ b = 239 ∨ b = 240
      ∨ b = 241 ∨ (241 < b ∧ b ≠ 254) ∨ b = 254 := by omega
  rcases hcases with h | h | h | h | h | h | h | h | h | h | h | h | h | h
  · subst h; simp
  · subst h; simp
  · subst h; simp [len]
  · subst h; simp
  · subst h; simp
  · subst h; simp
  · subst h; simp [macroHeader, macroTrailer, bytesI]
  · subst h; simp [macroHeader, macroTrailer, bytesI]
  · subst h; simp
  · subst h; simp
  · subst h; simp
  · subst h; simp
  · obtain ⟨h1, h2⟩ := h
    have e230 : (((b : Nat) : Int) == 230) = false := by simp; omega
    have e231 : (((b : Nat) : Int) == 231) = false := by simp; omega
    have e232 : (((b : Nat) : Int) == 232) = false := by simp; omega
    have e233 : (((b : Nat) : Int) == 233) = false := by simp; omega
    have e234 : (((b : Nat) : Int) == 234) = false := by simp; omega
    have e235 : (((b : Nat) : Int) == 235) = false := by simp; omega
    have e236 : (((b : Nat) : Int) == 236) = false := by simp; omega
    have e237 : (((b : Nat) : Int) == 237) = false := by simp; omega
    have e238 : (((b : Nat) : Int) == 238) = false := by simp; omega
    have e239 : (((b : Nat) : Int) == 239) = false := by simp; omega
    have e240 : (((b : Nat) : Int) == 240) = false := by simp; omega
    have e241 : (((b : Nat) : Int) == 241) = false := by simp; omega
    have n254 : (((b : Nat) : Int) != 254) = true := by simp; omega
    simp only [e230, e231, e232, e233, e234, e235, e236, e237, e238, e239, e240, e241, n254, Bool.or_self, Bool.false_eq_true,
      if_false, if_true]
    have : ¬ (b = 230) ∧ ¬ (b = 231) ∧ ¬ (b = 232) ∧ ¬ (b = 233 ∨ b = 234) ∧ ¬ (b = 235) ∧ ¬ (b = 236) ∧ ¬ (b = 237) ∧ ¬ (b = 238)
        ∧ ¬ (b = 239) ∧ ¬ (b = 240) ∧ ¬ (b = 241) := by omega
    obtain ⟨a1, a2, a3, a4, a5, a6, a7, a8, a9, a10, a11⟩ := this
    simp [a1, a2, a3, a4, a5, a6, a7, a8, a9, a10, a11, h2]
  · subst h
    by_cases hl : off + 1 = bs.length
    · have c : (8 * ((bs.length : Int) - ((off + 1 : Nat) : Int)) - 0 != 0) = false := by simp; omega
      rw [c]
      simp [hl]
    · have c : (8 * ((bs.length : Int) - ((off + 1 : Nat) : Int)) - 0 != 0) = true := by simp; omega
      rw [c]
      simp [hl]

theorem AAgrees_cons (k : Res RA) (res tr fn : List Int) (off : Nat) (e : Option AEv) (r : Res (Nat × List AEv × Nat))
    (h : AAgrees k (match e with | some e => (aevK (res, tr, fn) e).1 | none => res)
      (match e with | some e => (aevK (res, tr, fn) e).2.1 | none => tr)
      (match e with | some e => (aevK (res, tr, fn) e).2.2 | none => fn) (off + 1) r) :
    AAgrees k res tr fn off (aCons e r) := by
  cases r with
  | error f => exact h
  | ok p =>
    obtain ⟨m, es, n⟩ := p
    cases e with
    | none =>
      simp only [AAgrees, aCons] at h ⊢
      rw [h]; simp; omega
    | some e =>
      simp only [AAgrees, aCons, aevsK, List.foldl_cons] at h ⊢
      rw [h]; simp; omega

when_kernel Gzx.Gen.K02e.decodeAsciiSegment in
theorem ascii_loop (F : Nat) (hF : 2 ≤ F) (bs : List Nat) (hb : ∀ b ∈ bs, b < 256)
    (K : SA → Res RA) (hK : ∀ bo bi res tr fn up, K (bo, bi, res, tr, fn, up) = .ok (1, res, tr, false, bo, bi, res, tr, fn)) :
    ∀ (m off : Nat) (res tr fn : List Int) (up : Bool) (f : Nat), bs.length - off ≤ m → off ≤ bs.length → m < f →
      AAgrees ((whileLoop (Gen.K02e.decodeAsciiSegment_body1 F (bytesI bs)) f ((off : Int), 0, res, tr, fn, up)).thenR K)
        res tr fn off (asciiOut (bs.drop off) up) := by
  intro m
  induction m with
  | zero =>
    intro off res tr fn up f hm hoff hf
    obtain ⟨f, rfl⟩ : ∃ k, f = k + 1 := ⟨f - 1, by omega⟩
    have hd : bs.drop off = [] := List.drop_eq_nil_of_le (by omega)
    rw [hd, whileLoop_succ, ascii_body1_end F bs off (by omega)]
    simp [brk_thenR, hK, asciiOut, AAgrees, aevsK]
  | succ m ih =>
    intro off res tr fn up f hm hoff hf
    obtain ⟨f, rfl⟩ : ∃ k, f = k + 1 := ⟨f - 1, by omega⟩
    rw [whileLoop_succ]
    by_cases h0 : off = bs.length
    · have hd : bs.drop off = [] := List.drop_eq_nil_of_le (by omega)
      rw [hd, ascii_body1_end F bs off (by omega)]
      simp [brk_thenR, hK, asciiOut, AAgrees, aevsK]
    · have hlt : off < bs.length := by omega
      have hd : bs.drop off = bs[off] :: bs.drop (off + 1) := List.drop_eq_getElem_cons hlt
      rw [hd, ascii_body1_step F hF bs hb off hlt]
      have hlast : (!(bs.drop (off + 1)).isEmpty) = !decide (off + 1 = bs.length) := by
        by_cases hl : off + 1 = bs.length
        · simp [hl]
        · simp [hl]; omega
      have hb256 := hb _ (List.getElem_mem hlt)
      generalize bs[off] = b at hb256
      -- the iterations that continue: the induction hypothesis at the next byte
      have cont : ∀ (res' tr' fn' : List Int) (up' : Bool),
          AAgrees ((whileLoop (Gen.K02e.decodeAsciiSegment_body1 F (bytesI bs)) f (((off + 1 : Nat) : Int), 0, res', tr', fn', up')).thenR K)
            res' tr' fn' (off + 1) (asciiOut (bs.drop (off + 1)) up') :=
        fun res' tr' fn' up' => ih (off + 1) res' tr' fn' up' f (by omega) (by omega) (by omega)
      unfold asciiStepK asciiOut
      rw [hlast]
      by_cases c0 : b = 0
      · simp [c0, AAgrees]
      simp only [c0, if_false]
      by_cases c128 : b ≤ 128
      · simp [c128, AAgrees, aevsK, aevK, bytesI]
      simp only [c128, if_false]
      by_cases c129 : b = 129
      · simp [c129, AAgrees, aevsK]
      simp only [c129, if_false]
      by_cases c229 : b ≤ 229
      · simp only [c229, if_true]
        exact AAgrees_cons _ _ _ _ _ (some (.chars (digitPair (b - 130)))) _ (cont _ _ _ _)
      simp only [c229, if_false]
      by_cases c230 : b = 230
      · simp [c230, AAgrees, aevsK]
      simp only [c230, if_false]
      by_cases c231 : b = 231
      · simp [c231, AAgrees, aevsK]
      simp only [c231, if_false]
      by_cases c232 : b = 232
      · simp only [c232, if_true]
        exact AAgrees_cons _ _ _ _ _ (some .fnc1) _ (cont _ _ _ _)
      simp only [c232, if_false]
      by_cases c233 : b = 233 ∨ b = 234
      · simp only [c233, if_true]
        exact AAgrees_cons _ _ _ _ _ none _ (cont _ _ _ _)
      simp only [c233, if_false]
      by_cases c235 : b = 235
      · simp only [c235, if_true]
        exact AAgrees_cons _ _ _ _ _ none _ (cont _ _ _ _)
      simp only [c235, if_false]
      by_cases c236 : b = 236
      · simp only [c236, if_true]
        exact AAgrees_cons _ _ _ _ _ (some (.macroH 5)) _ (cont _ _ _ _)
      simp only [c236, if_false]
      by_cases c237 : b = 237
      · simp only [c237, if_true]
        exact AAgrees_cons _ _ _ _ _ (some (.macroH 6)) _ (cont _ _ _ _)
      simp only [c237, if_false]
      by_cases c238 : b = 238
      · simp [c238, AAgrees, aevsK]
      simp only [c238, if_false]
      by_cases c239 : b = 239
      · simp [c239, AAgrees, aevsK]
      simp only [c239, if_false]
      by_cases c240 : b = 240
      · simp [c240, AAgrees, aevsK]
      simp only [c240, if_false]
      by_cases c241 : b = 241
      · simp [c241, AAgrees, aevsK]
      simp only [c241, if_false]
      by_cases cbad : b ≠ 254 ∨ (!decide (off + 1 = bs.length)) = true
      · simp only [cbad, if_true]
        exact ⟨_, _, _, _, rfl⟩
      · simp only [cbad, if_false]
        exact AAgrees_cons _ _ _ _ _ none _ (cont _ _ _ _)

when_kernel Gzx.Gen.K02e.decodeAsciiSegment in
/-- `decodeAsciiSegment(bits, result, resultTrailer, fnc1positions)` on a byte-aligned source at byte `off` of `bs` =
    `asciiOut` on the remaining bytes: the mode returned, the three accumulators changed by exactly its events, the source
    advanced by the bytes it consumes; a FormatException (codeword 0, an unused codeword, 254 not at the end) is the error flag -/
theorem k_decodeAsciiSegment_eq (fuel : Nat) (bs : List Nat) (hb : ∀ b ∈ bs, b < 256) (off : Nat) (hoff : off ≤ bs.length)
    (hf : bs.length + 2 ≤ fuel) (res tr fn : List Int) :
    AAgrees (Gen.K02e.decodeAsciiSegment fuel (bytesI bs) (off : Int) 0 res tr fn) res tr fn off (asciiOut (bs.drop off) false) := by
  have hk : Gen.K02e.decodeAsciiSegment fuel (bytesI bs) (off : Int) 0 res tr fn
      = (whileLoop (Gen.K02e.decodeAsciiSegment_body1 fuel (bytesI bs)) fuel ((off : Int), 0, res, tr, fn, false)).thenR
          (fun st => .ok (1, st.2.2.1, st.2.2.2.1, false, st.1, st.2.1, st.2.2.1, st.2.2.2.1, st.2.2.2.2.1)) := by
    unfold Gen.K02e.decodeAsciiSegment
    rfl
  rw [hk]
  exact ascii_loop fuel (by omega) bs hb _ (fun _ _ _ _ _ _ => rfl) (bs.length - off) off res tr fn false fuel
    (Nat.le_refl _) hoff (by omega)

end Gzx.Obligations.K02e
