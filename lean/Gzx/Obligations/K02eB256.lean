/-
  K02e (wp k11b2) — `decodeBase256Segment` of datamatrix/decoder/decoded_bit_stream_parser.go, regenerated from /repo on
  every run (`Gzx.Gen.K02e.decodeBase256Segment`: the length byte(s) with `unrandomize255State`, "rest of the symbol" for
  d1 = 0, the two-byte length from 250 on, the data loop with its `bits.Available() < 8` FormatException exit, the byte
  segment, the ISO-8859-1 decoder as the SPECIFIED function `latin1Utf8`), proved equal to the model `DMHighLevel.b256Seg`
  for every byte-aligned bit source that has a byte left (`k_decodeBase256Segment_eq`).
-/
import Gzx.Obligations.K02eAscii
namespace Gzx.Obligations.K02e
open Gzx Gzx.GoM Gzx.GoVal Gzx.DMHighLevel

/-! ## model side -/

/-- the characters of `b256Data` (none: the bytes run out) -/
def b256DataOut : Nat → List Nat → Nat → Option (List Nat)
  | 0, _, _ => some []
  | _ + 1, [], _ => none
  | k + 1, b :: bs, pos => (b256DataOut k bs (pos + 1)).map (unrand255 b pos :: ·)

def Acc.push256All (a : Acc) : List Nat → Acc
  | [] => a
  | c :: cs => Acc.push256All (a.push256 c) cs

theorem b256Data_eq_out : ∀ (k : Nat) (bs : List Nat) (pos : Nat) (a : Acc),
    b256Data k bs pos a = match b256DataOut k bs pos with
      | some d => .ok (Acc.push256All a d)
      | none => .error .format
  | 0, _, _, a => by simp [b256Data, b256DataOut, Acc.push256All]
  | _ + 1, [], _, _ => by simp [b256Data, b256DataOut]
  | k + 1, b :: bs, pos, a => by
    simp only [b256Data, b256DataOut]
    rw [b256Data_eq_out k bs (pos + 1)]
    cases b256DataOut k bs (pos + 1) <;> simp [Acc.push256All]

/-- the characters of `b256Seg` and the bytes it consumes -/
def b256Out (rest : List Nat) (off : Nat) : Res (List Nat × Nat) :=
  match rest with
  | [] => .ok ([], 0)
  | b :: r1 =>
    let d1 := unrand255 b (off + 1)
    if d1 = 0 then
      match b256DataOut r1.length r1 (off + 2) with
      | some d => .ok (d, 1 + r1.length)
      | none => .error .format
    else if d1 < 250 then
      match b256DataOut d1 r1 (off + 2) with
      | some d => .ok (d, 1 + d1)
      | none => .error .format
    else
      match r1 with
      | [] => .error .format
      | b2 :: r2 =>
        match b256DataOut (250 * (d1 - 249) + unrand255 b2 (off + 2)) r2 (off + 3) with
        | some d => .ok (d, 2 + (250 * (d1 - 249) + unrand255 b2 (off + 2)))
        | none => .error .format

theorem b256Seg_eq_out (rest : List Nat) (off : Nat) (a : Acc) :
    b256Seg rest off a = (b256Out rest off).map (fun p => (Acc.push256All a p.1, p.2)) := by
  unfold b256Seg b256Out
  cases rest with
  | nil => simp [Except.map, Acc.push256All]
  | cons b r1 =>
    simp only [b256Data_eq_out]
    split
    · cases b256DataOut r1.length r1 (off + 2) <;> simp [Except.map]
    · split
      · cases b256DataOut (unrand255 b (off + 1)) r1 (off + 2) <;> simp [Except.map]
      · cases r1 with
        | nil => simp [Except.map]
        | cons b2 r2 =>
          simp only []
          cases b256DataOut (250 * (unrand255 b (off + 1) - 249) + unrand255 b2 (off + 2)) r2 (off + 3) <;> simp [Except.map]

/-! ## kernel side -/

theorem unrand255_lt (b pos : Nat) (hb : b < 256) : unrand255 b pos < 256 := by
  unfold unrand255
  simp only
  split <;> omega

when_kernel Gzx.Gen.K02e.unrandomize255State in
theorem k_unrand_eq (b pos : Nat) :
    Gen.K02e.unrandomize255State (b : Int) (pos : Int) = .ok ((unrand255 b pos : Nat) : Int) := by
  unfold Gen.K02e.unrandomize255State unrand255
  have e : Int.tmod (149 * (pos : Int)) 255 = (((149 * pos) % 255 : Nat) : Int) := by
    have := tmod_natCast (149 * pos) 255
    rw [← this]; simp
  simp only [e]
  by_cases h : b ≥ (149 * pos) % 255 + 1
  · have c : decide ((b : Int) - ((((149 * pos) % 255 : Nat) : Int) + 1) ≥ 0) = true := by simp; omega
    simp only [c, if_true, h]
    congr 1; omega
  · have c : decide ((b : Int) - ((((149 * pos) % 255 : Nat) : Int) + 1) ≥ 0) = false := by simp; omega
    simp only [c, Bool.false_eq_true, if_false, h]
    congr 1; omega

abbrev RB := List Int × List (List Int) × Bool × Int × Int × List Int

theorem setIdx_mid' (pre : List Int) (r : Int) (rs : List Int) (e v : Int) (h : e = (pre.length : Int)) :
    setIdx (pre ++ r :: rs) e v = .ok (pre ++ v :: rs) := by
  subst h
  unfold setIdx
  have : ¬ ((pre.length : Int) < 0) := by omega
  simp only [this, if_false, Int.toNat_natCast, List.length_append, List.length_cons]
  rw [if_pos (by omega)]
  simp [List.set_append_right]

when_kernel Gzx.Gen.K02e.decodeBase256Segment in
theorem b256_body_dry (F : Nat) (bs : List Nat) (result : List Int) (segs : List (List Int)) (i pos : Int) (buf : List Int) :
    Gen.K02e.decodeBase256Segment_body1 F (bytesI bs) result segs i ((bs.length : Int), 0, pos, buf)
      = .ret (result, segs, true, (bs.length : Int), 0, result) := by
  unfold Gen.K02e.decodeBase256Segment_body1
  simp only [k_available_eq, tryC_ok, bytesI_length]
  have c : decide (8 * ((bs.length : Int) - (bs.length : Int)) - 0 < 8) = true := by simp
  simp only [c, if_true]

when_kernel Gzx.Gen.K02e.decodeBase256Segment in
theorem b256_body_read (F : Nat) (hF : 2 ≤ F) (bs : List Nat) (hb : ∀ b ∈ bs, b < 256) (result : List Int) (segs : List (List Int))
    (off pos : Nat) (hlt : off < bs.length) (pre : List Int) (r : Int) (rs : List Int) :
    Gen.K02e.decodeBase256Segment_body1 F (bytesI bs) result segs (pre.length : Int) ((off : Int), 0, (pos : Int), pre ++ r :: rs)
      = .next (((off + 1 : Nat) : Int), 0, ((pos + 1 : Nat) : Int), (pre ++ [((unrand255 bs[off] pos : Nat) : Int)]) ++ rs) := by
  unfold Gen.K02e.decodeBase256Segment_body1
  simp only [k_available_eq, tryC_ok, bytesI_length]
  have c : decide (8 * ((bs.length : Int) - (off : Int)) - 0 < 8) = false := by simp; omega
  simp only [c, Bool.false_eq_true, if_false]
  rw [k_readBits8 F hF bs hb off hlt]
  simp only [tryC_ok]
  rw [k_unrand_eq]
  simp only [tryC_ok]
  have hw := wrap8_of_lt _ (unrand255_lt bs[off] pos (hb _ (List.getElem_mem hlt)))
  rw [hw, setIdx_mid' pre r rs _ _ rfl]
  simp only [tryC_ok]
  have e1 : (off : Int) + 1 = ((off + 1 : Nat) : Int) := by omega
  have e2 : (pos : Int) + 1 = ((pos + 1 : Nat) : Int) := by omega
  rw [e1, e2]
  simp

when_kernel Gzx.Gen.K02e.decodeBase256Segment in
/-- the data loop: `n` more bytes into `bytes[i …]`, or the FormatException exit when the source runs dry -/
theorem b256_data_loop (F : Nat) (hF : 2 ≤ F) (bs : List Nat) (hb : ∀ b ∈ bs, b < 256) (result : List Int) (segs : List (List Int)) :
    ∀ (n off pos : Nat) (pre rest : List Int), off ≤ bs.length → n ≤ rest.length →
      GoM.loop (Gen.K02e.decodeBase256Segment_body1 F (bytesI bs) result segs) 1 n (pre.length : Int)
          ((off : Int), 0, (pos : Int), pre ++ rest)
        = match b256DataOut n (bs.drop off) pos with
          | some d => .next (((off + n : Nat) : Int), 0, ((pos + n : Nat) : Int), pre ++ bytesI d ++ rest.drop n)
          | none => (.ret (result, segs, true, (bs.length : Int), 0, result) : Ctl (Int × Int × Int × List Int) RB) := by
  intro n
  induction n with
  | zero => intro off pos pre rest _ _; simp [GoM.loop, b256DataOut, bytesI]
  | succ n ih =>
    intro off pos pre rest hoff hn
    obtain ⟨r, rs, rfl⟩ : ∃ r rs, rest = r :: rs := by
      cases rest with
      | nil => simp at hn
      | cons r rs => exact ⟨r, rs, rfl⟩
    rw [loop_succ]
    by_cases hend : off = bs.length
    · have hd : bs.drop off = [] := List.drop_eq_nil_of_le (by omega)
      rw [hd, hend, b256_body_dry]
      simp [b256DataOut]
    · have hlt : off < bs.length := by omega
      rw [b256_body_read F hF bs hb result segs off pos hlt pre r rs, List.drop_eq_getElem_cons hlt]
      simp only [b256DataOut]
      have e3 : (pre.length : Int) + 1 = ((pre ++ [((unrand255 bs[off] pos : Nat) : Int)]).length : Int) := by simp
      rw [e3, ih (off + 1) (pos + 1) _ rs (by omega) (by simpa using hn)]
      cases b256DataOut n (bs.drop (off + 1)) (pos + 1) with
      | none => simp
      | some d =>
        simp [bytesI]
        omega

theorem b256Out_error (rest : List Nat) (off : Nat) (e : Fault) (h : b256Out rest off = .error e) : e = .format := by
  unfold b256Out at h
  cases rest with
  | nil => simp at h
  | cons b r1 =>
    simp only at h
    split at h
    · split at h <;> cases h; rfl
    · split at h
      · split at h <;> cases h; rfl
      · cases r1 with
        | nil => cases h; rfl
        | cons b2 r2 =>
          simp only at h
          split at h <;> cases h; rfl

when_kernel Gzx.Gen.K02e.decodeBase256Segment in
/-- the part of decodeBase256Segment after the length: allocate `count` bytes, fill them, append -/
theorem b256_tail (F : Nat) (hF : 2 ≤ F) (bs : List Nat) (hb : ∀ b ∈ bs, b < 256) (result : List Int) (segs : List (List Int))
    (count off pos : Nat) (hoff : off ≤ bs.length)
    (K : Int × Int × Int × List Int → Res RB)
    (hK : ∀ bo bi p buf, K (bo, bi, p, buf) = .ok (result ++ latin1Utf8 buf, segs ++ [buf], false, bo, bi, result ++ latin1Utf8 buf)) :
    (tryR (mk (count : Int)) fun t6 =>
      (GoM.loop (Gen.K02e.decodeBase256Segment_body1 F (bytesI bs) result segs) 1 (tripUp 0 (count : Int) 1) 0
        ((off : Int), 0, (pos : Int), t6)).thenR K)
      = match b256DataOut count (bs.drop off) pos with
        | some d => .ok (result ++ latin1Utf8 (bytesI d), segs ++ [bytesI d], false, ((off + count : Nat) : Int), 0, result ++ latin1Utf8 (bytesI d))
        | none => .ok (result, segs, true, (bs.length : Int), 0, result) := by
  rw [mk_words _ count rfl]
  simp only [tryR_ok, tripUp_one]
  have hn : ((count : Int) - 0).toNat = count := by omega
  rw [hn]
  have := b256_data_loop F hF bs hb result segs count off pos [] (words (List.replicate count 0)) hoff (by simp [words])
  simp only [List.length_nil, List.nil_append] at this
  have h0 : ((0 : Nat) : Int) = 0 := rfl
  rw [h0] at this
  rw [this]
  cases b256DataOut count (bs.drop off) pos with
  | none => simp
  | some d => simp [hK, words]

when_kernel Gzx.Gen.K02e.decodeBase256Segment in
/-- `decodeBase256Segment(bits, result, byteSegments)` on a byte-aligned source with a byte left at byte `off` of `bs` = the
    model's `b256Seg`: the un-randomised bytes become a byte segment and are appended to `result` as UTF-8, the source
    advances by the bytes the model consumes; the model's FormatException (the data run out) is the kernel's error flag -/
theorem k_decodeBase256Segment_eq (fuel : Nat) (hf : 2 ≤ fuel) (bs : List Nat) (hb : ∀ b ∈ bs, b < 256) (off : Nat)
    (hoff : off < bs.length) (result : List Int) (segs : List (List Int)) (a : Acc) :
    match b256Seg (bs.drop off) off a with
    | .ok (a', n) => ∃ d, a' = Acc.push256All a d ∧
        Gen.K02e.decodeBase256Segment fuel (bytesI bs) (off : Int) 0 result segs
          = .ok (result ++ latin1Utf8 (bytesI d), segs ++ [bytesI d], false, ((off + n : Nat) : Int), 0, result ++ latin1Utf8 (bytesI d))
    | .error e => e = .format ∧ ∃ bo, Gen.K02e.decodeBase256Segment fuel (bytesI bs) (off : Int) 0 result segs
          = .ok (result, segs, true, bo, 0, result) := by
  rw [b256Seg_eq_out]
  -- the kernel, as a function of the model's `b256Out`
  have key : Gen.K02e.decodeBase256Segment fuel (bytesI bs) (off : Int) 0 result segs =
      match b256Out (bs.drop off) off with
      | .ok (d, n) => .ok (result ++ latin1Utf8 (bytesI d), segs ++ [bytesI d], false, ((off + n : Nat) : Int), 0, result ++ latin1Utf8 (bytesI d))
      | .error _ => .ok (result, segs, true, (bs.length : Int), 0, result) := by
    unfold Gen.K02e.decodeBase256Segment b256Out
    rw [List.drop_eq_getElem_cons hoff, k_readBits8 fuel hf bs hb off hoff]
    simp only [tryR_ok]
    have e1 : (1 : Int) + (off : Int) = ((off + 1 : Nat) : Int) := by omega
    have e2 : ((off + 1 : Nat) : Int) + 1 = ((off + 2 : Nat) : Int) := by omega
    have e3 : (off : Int) + 1 = ((off + 1 : Nat) : Int) := by omega
    rw [e1, k_unrand_eq, e2, e3]
    simp only [tryR_ok]
    generalize hd1 : unrand255 bs[off] (off + 1) = d1
    have hd1lt : d1 < 256 := by rw [← hd1]; exact unrand255_lt _ _ (hb _ (List.getElem_mem hoff))
    by_cases h0 : d1 = 0
    · have c0 : (((d1 : Nat) : Int) == 0) = true := by simp [h0]
      simp only [c0, if_true, k_available_eq, tryC_ok, bytesI_length, next_thenR]
      rw [if_pos h0]
      have hc : Int.tdiv (8 * ((bs.length : Int) - ((off + 1 : Nat) : Int)) - 0) 8 = (((bs.drop (off + 1)).length : Nat) : Int) := by
        simp only [List.length_drop]
        have : (8 * ((bs.length : Int) - ((off + 1 : Nat) : Int)) - 0) = ((8 * (bs.length - (off + 1)) : Nat) : Int) := by omega
        rw [this, show (8 : Int) = ((8 : Nat) : Int) from rfl, tdiv_natCast]
        congr 1; omega
      rw [hc]
      have cn : decide ((((bs.drop (off + 1)).length : Nat) : Int) < 0) = false := decide_eq_false (by omega)
      simp only [cn, Bool.false_eq_true, if_false]
      rw [b256_tail fuel hf bs hb result segs _ (off + 1) (off + 2) (by omega) _ (by intros; rfl)]
      cases b256DataOut (bs.drop (off + 1)).length (bs.drop (off + 1)) (off + 2) with
      | none => simp
      | some d => simp; omega
    · have c0 : (((d1 : Nat) : Int) == 0) = false := by simp; omega
      simp only [c0, Bool.false_eq_true, if_false, h0]
      by_cases h250 : d1 < 250
      · have c250 : decide (((d1 : Nat) : Int) < 250) = true := by simp; omega
        have cn : decide (((d1 : Nat) : Int) < 0) = false := decide_eq_false (by omega)
        simp only [c250, if_true, next_thenR, cn, Bool.false_eq_true, if_false, h250]
        rw [b256_tail fuel hf bs hb result segs _ (off + 1) (off + 2) (by omega) _ (by intros; rfl)]
        cases b256DataOut d1 (bs.drop (off + 1)) (off + 2) with
        | none => simp
        | some d => simp; omega
      · have c250 : decide (((d1 : Nat) : Int) < 250) = false := by simp; omega
        simp only [c250, Bool.false_eq_true, if_false, h250]
        by_cases hlast : off + 1 = bs.length
        · -- no second length byte: the read fails (ignored), the count is positive, the first data read finds no bits
          have hd : bs.drop (off + 1) = [] := List.drop_eq_nil_of_le (by omega)
          rw [hd, k_readBits_short fuel (bytesI bs) _ _ _ (by simp [bytesI]; omega)]
          simp only [tryC_ok]
          have hu : Gen.K02e.unrandomize255State 0 ((off + 2 : Nat) : Int) = .ok ((unrand255 0 (off + 2) : Nat) : Int) :=
            k_unrand_eq 0 (off + 2)
          rw [hu]
          simp only [tryC_ok, next_thenR]
          generalize unrand255 0 (off + 2) = u
          have hcnt : (250 : Int) * (((d1 : Nat) : Int) - 249) + ((u : Nat) : Int) = ((250 * (d1 - 249) + u : Nat) : Int) := by omega
          rw [hcnt]
          have cn : decide (((250 * (d1 - 249) + u : Nat) : Int) < 0) = false := decide_eq_false (by omega)
          simp only [cn, Bool.false_eq_true, if_false]
          rw [mk_words _ _ rfl]
          simp only [tryR_ok, tripUp_one]
          obtain ⟨k, hk⟩ : ∃ k, ((((250 * (d1 - 249) + u : Nat) : Int)) - 0).toNat = k + 1 := ⟨250 * (d1 - 249) + u - 1, by omega⟩
          rw [hk, loop_succ]
          have e4 : ((off + 1 : Nat) : Int) = (bs.length : Int) := by omega
          rw [e4, b256_body_dry]
          simp
        · have hlt : off + 1 < bs.length := by omega
          rw [List.drop_eq_getElem_cons hlt, k_readBits8 fuel hf bs hb (off + 1) hlt]
          simp only [tryC_ok]
          rw [k_unrand_eq]
          simp only [tryC_ok, next_thenR]
          generalize unrand255 bs[off + 1] (off + 2) = u
          have hcnt : (250 : Int) * (((d1 : Nat) : Int) - 249) + ((u : Nat) : Int) = ((250 * (d1 - 249) + u : Nat) : Int) := by omega
          have e5 : ((off + 1 : Nat) : Int) + 1 = ((off + 2 : Nat) : Int) := by omega
          have e6 : ((off + 2 : Nat) : Int) + 1 = ((off + 3 : Nat) : Int) := by omega
          rw [hcnt, e5, e6]
          have cn : decide (((250 * (d1 - 249) + u : Nat) : Int) < 0) = false := decide_eq_false (by omega)
          simp only [cn, Bool.false_eq_true, if_false]
          rw [b256_tail fuel hf bs hb result segs _ (off + 2) (off + 3) (by omega) _ (by intros; rfl)]
          cases b256DataOut (250 * (d1 - 249) + u) (bs.drop (off + 1 + 1)) (off + 3) with
          | none => simp
          | some d => simp; omega
  rw [key]
  cases hx : b256Out (bs.drop off) off with
  | error e => exact ⟨b256Out_error _ _ _ hx, _, rfl⟩
  | ok p => exact ⟨p.1, rfl, rfl⟩

end Gzx.Obligations.K02e
