/-
  K02e (wp k11b2) — `common.BitSource` as the Data Matrix bit-stream parser uses it: `Available`, `ReadBits`,
  `GetBitOffset`, `GetByteOffset` regenerated from /repo on every run (`Gzx.Gen.K02e`) and characterised on the
  BYTE-ALIGNED states the C40 / Text / X12 / Base 256 / ASCII segment decoders only ever see:

    * `k_available_eq`: `Available()` = 8·(len − byteOffset) − bitOffset,
    * `k_readBits8`: `ReadBits(8)` on an aligned source with a byte left reads that byte and advances by one byte,
    * `k_readBits_short`: `ReadBits(n)` with more bits requested than available answers (0, error) and leaves the
      source alone (the segment decoders ignore the error).
-/
import Gzx.Gen.K02e
import Gzx.KernelGuard
import Gzx.Proofs.GoMTie
namespace Gzx.Obligations.K02e
open Gzx Gzx.GoM Gzx.GoVal

/-- the Go `[]byte` a model byte list stands for -/
abbrev bytesI (bs : List Nat) : List Int := bs.map Int.ofNat

theorem bytesI_length (bs : List Nat) : (bytesI bs).length = bs.length := by simp [bytesI]

when_kernel Gzx.Gen.K02e.available in
theorem k_available_eq (xs : List Int) (bo bi : Int) :
    Gen.K02e.available xs bo bi = .ok (8 * ((xs.length : Int) - bo) - bi) := rfl

when_kernel Gzx.Gen.K02e.readBits in
/-- more bits requested than available: (0, error), the source is left alone -/
theorem k_readBits_short (fuel : Nat) (xs : List Int) (bo bi n : Int)
    (h : n > 8 * ((xs.length : Int) - bo) - bi) :
    Gen.K02e.readBits fuel xs bo bi n = .ok (0, true, bo, bi) := by
  unfold Gen.K02e.readBits
  by_cases h1 : n < 1
  · simp [h1]
  · by_cases h2 : n > 32
    · simp [h1, h2]
    · simp only [h1, h2, decide_false, Bool.false_eq_true, if_false, k_available_eq, tryR_ok]
      rw [if_pos (by simpa using h)]

theorem byte_or_and (b : Nat) (hb : b < 256) : GoVal.ior (GoVal.ishl 0 8) (GoVal.iand (b : Int) 255) = (b : Int) := by
  have e1 : GoVal.ishl 0 8 = ((0 <<< 8 : Nat) : Int) := ishl_natCast 0 8
  have e2 : GoVal.iand (b : Int) 255 = ((b &&& 255 : Nat) : Int) := iand_natCast b 255
  rw [e1, e2, ior_natCast]
  have : b &&& 255 = b := by
    have := Nat.and_two_pow_sub_one_eq_mod b 8
    simp at this
    rw [this]; omega
  simp [this]

when_kernel Gzx.Gen.K02e.readBits in
/-- `ReadBits(8)` on a byte-aligned source with a byte left: that byte, no error, one byte further -/
theorem k_readBits8 (fuel : Nat) (hf : 2 ≤ fuel) (bs : List Nat) (hb : ∀ b ∈ bs, b < 256) (off : Nat) (h : off < bs.length) :
    Gen.K02e.readBits fuel (bytesI bs) (off : Int) 0 8 = .ok ((bs[off] : Nat), false, (off : Int) + 1, 0) := by
  obtain ⟨fuel, rfl⟩ : ∃ k, fuel = k + 2 := ⟨fuel - 2, by omega⟩
  unfold Gen.K02e.readBits
  have c1 : decide ((8 : Int) < 1) = false := by decide
  have c2 : decide ((8 : Int) > 32) = false := by decide
  have c3 : decide ((8 : Int) > 8 * (((bytesI bs).length : Int) - (off : Int)) - 0) = false := by
    simp [bytesI]; omega
  have c4 : decide ((0 : Int) > 0) = false := by decide
  simp only [c1, c2, Bool.false_eq_true, if_false, k_available_eq, tryR_ok, c3, c4, next_thenR]
  have c5 : decide ((8 : Int) > 0) = true := by decide
  simp only [c5, if_true]
  rw [whileLoop_succ]
  have hbody1 : Gen.K02e.readBits_body1 (bytesI bs) ((off : Int), 8, 0) = .next ((off : Int) + 1, 0, ((bs[off] : Nat) : Int)) := by
    unfold Gen.K02e.readBits_body1
    have c6 : decide ((8 : Int) ≥ 8) = true := by decide
    simp only [c6, if_true]
    rw [idx_ofNat (bytesI bs) off (by simpa [bytesI] using h)]
    have hg : (bytesI bs)[off]'(by simpa [bytesI] using h) = ((bs[off] : Nat) : Int) := by simp [bytesI]
    simp only [tryC_ok, hg]
    rw [byte_or_and _ (hb _ (List.getElem_mem h))]
    rfl
  rw [hbody1]
  simp only []
  rw [whileLoop_succ]
  have hbody2 : Gen.K02e.readBits_body1 (bytesI bs) ((off : Int) + 1, 0, ((bs[off] : Nat) : Int))
      = .brk ((off : Int) + 1, 0, ((bs[off] : Nat) : Int)) := by
    unfold Gen.K02e.readBits_body1
    have c7 : decide ((0 : Int) ≥ 8) = false := by decide
    simp only [c7, Bool.false_eq_true, if_false]
  rw [hbody2]
  simp only [brk_thenC]
  have c8 : decide ((0 : Int) > 0) = false := by decide
  simp only [c8, Bool.false_eq_true, if_false, next_thenR]

when_kernel Gzx.Gen.K02e.readBits in
example : Gen.K02e.readBits 5 (bytesI [7, 200, 9]) 1 0 8 = .ok (200, false, 2, 0) := by decide
when_kernel Gzx.Gen.K02e.readBits in
example : Gen.K02e.readBits 5 (bytesI [7, 200, 9]) 3 0 8 = .ok (0, true, 3, 0) := by decide

end Gzx.Obligations.K02e
