/-
  K02e (wp k11b2) — `decodeC40Segment` and `decodeTextSegment` of datamatrix/decoder/decoded_bit_stream_parser.go,
  regenerated from /repo on every run (`Gzx.Gen.K02e`: the `for bits.Available() > 0` loop over the threaded BitSource,
  the one-byte-left and unlatch exits, `parseTwoBytes`, the three-value loop with the shift `switch`, the nested FNC1 /
  upper-shift `switch`, byte arithmetic with wrap-around, the `intSet` of FNC1 positions as the list of added keys),
  proved equal to the model `DMHighLevel.cSeg` (`text = false / true`) for EVERY byte-aligned bit source, every
  accumulator and every character-table set that agrees with the regenerated tables (`TablesAgree`, decided for the
  reference tables in `tables_agree_ref`):  `k_decodeC40Segment_eq`, `k_decodeTextSegment_eq`.
-/
import Gzx.Obligations.K02eX12
namespace Gzx.Obligations.K02e
open Gzx Gzx.GoM Gzx.GoVal Gzx.DMHighLevel

/-! ## model side -/

def Acc.emits (a : Acc) (es : List Emit) : Acc := es.foldl Acc.emit a

/-- the emissions of `cSeg` and the number of bytes it consumes, without the accumulator -/
def cOut (T : Tables) (text : Bool) : List Nat → CState → Res (List Emit × Nat)
  | [], _ => .ok ([], 0)
  | [_], _ => .ok ([], 0)
  | b1 :: b2 :: rest, st =>
    if b1 = 254 then .ok ([], 1)
    else
      match cValueCore T text (parseTwoBytes b1 b2).1 st with
      | .error e => .error e
      | .ok (st1, e1) =>
        match cValueCore T text (parseTwoBytes b1 b2).2.1 st1 with
        | .error e => .error e
        | .ok (st2, e2) =>
          match cValueCore T text (parseTwoBytes b1 b2).2.2 st2 with
          | .error e => .error e
          | .ok (st3, e3) =>
            match cOut T text rest st3 with
            | .error e => .error e
            | .ok (es, k) => .ok (e1 :: e2 :: e3 :: es, k + 2)

/-- the model's `cSeg` is `cOut` emitted onto the accumulator -/
theorem cSeg_eq_out (T : Tables) (text : Bool) : ∀ (bs : List Nat) (st : CState) (a : Acc) (n : Nat),
    cSeg T text bs st a n = (cOut T text bs st).map (fun p => (Acc.emits a p.1, n + p.2))
  | [], st, a, n => by simp [cSeg, cOut, Except.map, Acc.emits]
  | [_], st, a, n => by simp [cSeg, cOut, Except.map, Acc.emits]
  | b1 :: b2 :: rest, st, a, n => by
    unfold cSeg cOut
    by_cases h : b1 = 254
    · simp [h, Except.map, Acc.emits]
    · simp only [h, if_false, cValue]
      cases h1 : cValueCore T text (parseTwoBytes b1 b2).1 st with
      | error e => simp [Except.map]
      | ok p1 =>
        obtain ⟨st1, e1⟩ := p1
        simp only []
        cases h2 : cValueCore T text (parseTwoBytes b1 b2).2.1 st1 with
        | error e => simp [Except.map]
        | ok p2 =>
          obtain ⟨st2, e2⟩ := p2
          simp only []
          cases h3 : cValueCore T text (parseTwoBytes b1 b2).2.2 st2 with
          | error e => simp [Except.map]
          | ok p3 =>
            obtain ⟨st3, e3⟩ := p3
            simp only []
            rw [cSeg_eq_out T text rest]
            cases cOut T text rest st3 with
            | error e => simp [Except.map]
            | ok p => simp [Except.map, Acc.emits]; omega

/-! ## kernel side -/

/-- what one emission does to the Go state `(result, fnc1positions)` -/
def emitK (p : List Int × List Int) : Emit → List Int × List Int
  | .none => p
  | .char c => (p.1 ++ [(c : Int)], p.2)
  | .fnc1 => (p.1 ++ [29], p.2 ++ [(p.1.length : Int)])

def emitsK (p : List Int × List Int) (es : List Emit) : List Int × List Int := es.foldl emitK p

when_kernel Gzx.Gen.K02e.decodeC40Segment in
when_kernel Gzx.Gen.K02e.decodeTextSegment in
/-- the character tables of the model are the regenerated tables; every entry is a byte -/
def TablesAgree (T : Tables) : Prop :=
  bytesI T.c40Basic = Gen.K02e.tbl_C40_BASIC_SET_CHARS ∧ bytesI T.c40Shift2 = Gen.K02e.tbl_C40_SHIFT2_SET_CHARS
  ∧ bytesI T.textBasic = Gen.K02e.tbl_TEXT_BASIC_SET_CHARS ∧ bytesI T.textShift2 = Gen.K02e.tbl_TEXT_SHIFT2_SET_CHARS
  ∧ bytesI T.textShift3 = Gen.K02e.tbl_TEXT_SHIFT3_SET_CHARS
  ∧ (∀ c ∈ T.c40Basic ++ T.c40Shift2 ++ T.textBasic ++ T.textShift2 ++ T.textShift3, c < 256)

when_kernel Gzx.Gen.K02e.decodeC40Segment in
when_kernel Gzx.Gen.K02e.decodeTextSegment in
instance (T : Tables) : Decidable (TablesAgree T) := by unfold TablesAgree; infer_instance

set_option maxRecDepth 100000 in
when_kernel Gzx.Gen.K02e.decodeC40Segment in
when_kernel Gzx.Gen.K02e.decodeTextSegment in
/-- the regenerated tables are the reference tables of ISO/IEC 16022 Annex C -/
theorem tables_agree_ref : TablesAgree refTables := by decide

/-- a checked table read in the kernel against the model's -/
theorem idx_agree (tbl : List Nat) (v : Int) :
    GoM.idx (bytesI tbl) v = match DMHighLevel.idx tbl v with
      | .ok c => .ok (c : Int)
      | .error _ => .error oob := by
  unfold GoM.idx DMHighLevel.idx
  by_cases h : v < 0
  · simp [h]
  · simp only [h, if_false, bytesI, List.getElem?_map]
    cases tbl[v.toNat]? <;> simp

theorem idx_lt (tbl : List Nat) (hb : ∀ c ∈ tbl, c < 256) (v : Int) (c : Nat) (h : DMHighLevel.idx tbl v = .ok c) : c < 256 := by
  unfold DMHighLevel.idx at h
  split at h
  · cases h
  · split at h
    · cases h; exact hb _ (List.mem_of_getElem? ‹_›)
    · cases h

theorem toByte_of_lt (c : Nat) (h : c < 256) : toByte (c : Int) = c := by
  unfold toByte; omega

/-- the outcome of one C40 / Text value in the kernel, from the model's `cValueCore` -/
def stepK (bo bi : Int) (res fn : List Int) :
    Res (CState × Emit) → Ctl (List Int × List Int × Bool × Int) (List Int × Bool × Int × Int × List Int × List Int)
  | .ok (st', e) => .next ((emitK (res, fn) e).1, (emitK (res, fn) e).2, st'.upper, st'.shift)
  | .error .format => .ret (res, true, bo, bi, res, fn)
  | .error _ => .panic oob

theorem emitUp_step (bo bi : Int) (res fn : List Int) (sh : Int) (up : Bool) (c : Int) :
    stepK bo bi res fn (.ok (emitUp ⟨sh, up⟩ c)) =
      if up then .next (res ++ [wrap 8 (c + 128)], fn, false, 0) else .next (res ++ [wrap 8 c], fn, false, 0) := by
  cases up <;> simp [stepK, emitUp, emitK, toByte_cast]

theorem idx_error (tbl : List Nat) (v : Int) (e : Fault) (h : DMHighLevel.idx tbl v = .error e) : ∃ s, e = .panic s := by
  unfold DMHighLevel.idx at h
  split at h
  · cases h; exact ⟨_, rfl⟩
  · split at h
    · cases h
    · cases h; exact ⟨_, rfl⟩

/-- a table character appended under the shift state: kernel continuation `K` against the model's `emitUp` -/
theorem idx_step (bo bi : Int) (res fn : List Int) (sh : Int) (up : Bool) (tbl : List Nat) (hb : ∀ c ∈ tbl, c < 256) (v : Int)
    (K : Int → Ctl (List Int × List Int × Bool × Int) (List Int × Bool × Int × Int × List Int × List Int))
    (hK : ∀ c : Nat, c < 256 → K (c : Int) = stepK bo bi res fn (.ok (emitUp ⟨sh, up⟩ c))) :
    tryC (match DMHighLevel.idx tbl v with
        | .ok c => (.ok (c : Int) : Res Int)
        | .error _ => .error oob) K
      = stepK bo bi res fn (match DMHighLevel.idx tbl v with
        | .ok c => .ok (emitUp ⟨sh, up⟩ c)
        | .error e => .error e) := by
  cases hidx : DMHighLevel.idx tbl v with
  | error e =>
    obtain ⟨s, rfl⟩ := idx_error _ _ _ hidx
    simp [stepK]
  | ok c => simp only [tryC_ok]; exact hK c (idx_lt tbl hb v c hidx)

theorem wrap8_of_lt (c : Nat) (h : c < 256) : wrap 8 (c : Int) = (c : Int) := by
  unfold wrap; omega

when_kernel Gzx.Gen.K02e.decodeC40Segment in
/-- one value of the three-value loop of decodeC40Segment = the model's `cValueCore` (C40) -/
theorem c40_body2 (T : Tables) (hT : TablesAgree T) (bo bi : Int) (cv : List Int) (i : Nat) (ii : Int) (hii : ii = (i : Int))
    (hi : i < cv.length) (res fn : List Int) (up : Bool) (sh : Int) :
    Gen.K02e.decodeC40Segment_body2 bo bi cv ii (res, fn, up, sh)
      = stepK bo bi res fn (cValueCore T false cv[i] ⟨sh, up⟩) := by
  subst hii
  obtain ⟨h1, h2, -, -, -, hlt⟩ := hT
  have hb1 : ∀ c ∈ T.c40Basic, c < 256 := fun c hc => hlt c (by simp [hc])
  have hb2 : ∀ c ∈ T.c40Shift2, c < 256 := fun c hc => hlt c (by simp [hc])
  unfold Gen.K02e.decodeC40Segment_body2
  rw [idx_ofNat cv i hi]
  simp only [tryC_ok]
  generalize cv[i] = v
  rw [← h1, ← h2]
  simp only [len, bytesI_length, idx_agree]
  unfold cValueCore
  simp only [Bool.false_eq_true, if_false]
  by_cases s0 : sh = 0
  · subst s0
    simp only [beq_self_eq_true, if_true]
    by_cases v3 : v < 3
    · simp [v3, stepK, emitK]
    · by_cases vb : v < (T.c40Basic.length : Int)
      · simp only [v3, vb, decide_true, decide_false, if_true, Bool.false_eq_true, if_false]
        apply idx_step _ _ _ _ _ _ _ hb1
        intro c hc
        rw [emitUp_step]
        cases up <;> simp [wrap8_of_lt c hc]
      · simp [v3, vb, stepK]
  · have c0 : (sh == 0) = false := by simpa using s0
    simp only [c0, Bool.false_eq_true, if_false, s0]
    by_cases s1 : sh = 1
    · subst s1
      simp only [beq_self_eq_true, if_true]
      rw [emitUp_step]
      cases up <;> simp
    · have c1 : (sh == 1) = false := by simpa using s1
      simp only [c1, Bool.false_eq_true, if_false, s1]
      by_cases s2 : sh = 2
      · subst s2
        simp only [beq_self_eq_true, if_true]
        by_cases vb : v < (T.c40Shift2.length : Int)
        · simp only [vb, decide_true, if_true]
          apply idx_step _ _ _ _ _ _ _ hb2
          intro c hc
          rw [emitUp_step]
          cases up <;> simp [wrap8_of_lt c hc]
        · simp only [vb, decide_false, Bool.false_eq_true, if_false]
          by_cases v27 : v = 27
          · simp [v27, stepK, emitK]
          · by_cases v30 : v = 30
            · simp [v30, stepK, emitK]
            · simp [v27, v30, stepK]
      · have c2 : (sh == 2) = false := by simpa using s2
        simp only [c2, Bool.false_eq_true, if_false, s2]
        by_cases s3 : sh = 3
        · subst s3
          simp only [beq_self_eq_true, if_true]
          cases up <;> simp [stepK, emitK, toByte_cast]
        · have c3 : (sh == 3) = false := by simpa using s3
          simp [c3, s3, stepK]

when_kernel Gzx.Gen.K02e.decodeC40Segment in
when_kernel Gzx.Gen.K02e.decodeTextSegment in
/-- one value of the three-value loop of decodeTextSegment = the model's `cValueCore` (Text) -/
theorem text_body2 (T : Tables) (hT : TablesAgree T) (bo bi : Int) (cv : List Int) (i : Nat) (ii : Int) (hii : ii = (i : Int))
    (hi : i < cv.length) (res fn : List Int) (up : Bool) (sh : Int) :
    Gen.K02e.decodeTextSegment_body2 bo bi cv ii (res, fn, up, sh)
      = stepK bo bi res fn (cValueCore T true cv[i] ⟨sh, up⟩) := by
  subst hii
  obtain ⟨-, -, h1, h2, h3, hlt⟩ := hT
  have hb1 : ∀ c ∈ T.textBasic, c < 256 := fun c hc => hlt c (by simp [hc])
  have hb2 : ∀ c ∈ T.textShift2, c < 256 := fun c hc => hlt c (by simp [hc])
  have hb3 : ∀ c ∈ T.textShift3, c < 256 := fun c hc => hlt c (by simp [hc])
  unfold Gen.K02e.decodeTextSegment_body2
  rw [idx_ofNat cv i hi]
  simp only [tryC_ok]
  generalize cv[i] = v
  rw [← h1, ← h2, ← h3]
  simp only [len, bytesI_length, idx_agree]
  unfold cValueCore
  simp only [if_true]
  by_cases s0 : sh = 0
  · subst s0
    simp only [beq_self_eq_true, if_true]
    by_cases v3 : v < 3
    · simp [v3, stepK, emitK]
    · by_cases vb : v < (T.textBasic.length : Int)
      · simp only [v3, vb, decide_true, decide_false, if_true, Bool.false_eq_true, if_false]
        apply idx_step _ _ _ _ _ _ _ hb1
        intro c hc
        rw [emitUp_step]
        cases up <;> simp [wrap8_of_lt c hc]
      · simp [v3, vb, stepK]
  · have c0 : (sh == 0) = false := by simpa using s0
    simp only [c0, Bool.false_eq_true, if_false, s0]
    by_cases s1 : sh = 1
    · subst s1
      simp only [beq_self_eq_true, if_true]
      rw [emitUp_step]
      cases up <;> simp
    · have c1 : (sh == 1) = false := by simpa using s1
      simp only [c1, Bool.false_eq_true, if_false, s1]
      by_cases s2 : sh = 2
      · subst s2
        simp only [beq_self_eq_true, if_true]
        by_cases vb : v < (T.textShift2.length : Int)
        · simp only [vb, decide_true, if_true]
          apply idx_step _ _ _ _ _ _ _ hb2
          intro c hc
          rw [emitUp_step]
          cases up <;> simp [wrap8_of_lt c hc]
        · simp only [vb, decide_false, Bool.false_eq_true, if_false]
          by_cases v27 : v = 27
          · simp [v27, stepK, emitK]
          · by_cases v30 : v = 30
            · simp [v30, stepK, emitK]
            · simp [v27, v30, stepK]
      · have c2 : (sh == 2) = false := by simpa using s2
        simp only [c2, Bool.false_eq_true, if_false, s2]
        by_cases s3 : sh = 3
        · subst s3
          simp only [beq_self_eq_true, if_true]
          by_cases vb : v < (T.textShift3.length : Int)
          · simp only [vb, decide_true, if_true]
            apply idx_step _ _ _ _ _ _ _ hb3
            intro c hc
            rw [emitUp_step]
            cases up <;> simp [wrap8_of_lt c hc]
          · simp [vb, stepK]
        · have c3 : (sh == 3) = false := by simpa using s3
          simp [c3, s3, stepK]

/-! ## the segment loop, generic in the two regenerated bodies -/

abbrev S1 := Int × Int × List Int × List Int × Bool × List Int × Int
abbrev S2 := List Int × List Int × Bool × Int
abbrev R := List Int × Bool × Int × Int × List Int × List Int

/-- what the kernel must answer for a model outcome -/
def CAgrees (k : Res R) (res fn : List Int) (off : Nat) : Res (List Emit × Nat) → Prop
  | .ok (es, n) => k = .ok ((emitsK (res, fn) es).1, false, ((off + n : Nat) : Int), 0, (emitsK (res, fn) es).1, (emitsK (res, fn) es).2)
  | .error .format => ∃ r bo f, k = .ok (r, true, bo, 0, r, f)
  | .error _ => k = .error oob

/-- the three facts about the outer loop body that the loop proof uses -/
structure CSegBody (bs : List Nat) (B1 : S1 → Ctl S1 R) (B2 : Int → Int → List Int → Int → S2 → Ctl S2 R) : Prop where
  hend : ∀ (off : Nat) res fn up cv sh, bs.length ≤ off →
    B1 ((off : Int), 0, res, fn, up, cv, sh) = .brk ((off : Int), 0, res, fn, up, cv, sh)
  hone : ∀ (off : Nat) res fn up cv sh, off + 1 = bs.length →
    B1 ((off : Int), 0, res, fn, up, cv, sh) = .ret (res, false, (off : Int), 0, res, fn)
  htwo : ∀ (off : Nat) (h : off + 1 < bs.length) res fn up (r0 r1 r2 : Int) sh,
    B1 ((off : Int), 0, res, fn, up, [r0, r1, r2], sh) =
      if bs[off] = 254 then .ret (res, false, ((off + 1 : Nat) : Int), 0, res, fn)
      else
        (GoM.loop (B2 ((off + 2 : Nat) : Int) 0
            [(parseTwoBytes bs[off] bs[off + 1]).1, (parseTwoBytes bs[off] bs[off + 1]).2.1, (parseTwoBytes bs[off] bs[off + 1]).2.2])
          1 3 0 (res, fn, up, sh)).thenC fun st =>
        .next (((off + 2 : Nat) : Int), 0, st.1, st.2.1, st.2.2.1,
          [(parseTwoBytes bs[off] bs[off + 1]).1, (parseTwoBytes bs[off] bs[off + 1]).2.1, (parseTwoBytes bs[off] bs[off + 1]).2.2], st.2.2.2)

theorem cseg_loop (T : Tables) (text : Bool) (bs : List Nat) (B1 : S1 → Ctl S1 R) (B2 : Int → Int → List Int → Int → S2 → Ctl S2 R)
    (hB : CSegBody bs B1 B2)
    (hstep : ∀ (bo bi : Int) (cv : List Int) (i : Nat) (ii : Int), ii = (i : Int) → (hi : i < cv.length) → ∀ res fn up sh,
      B2 bo bi cv ii (res, fn, up, sh) = stepK bo bi res fn (cValueCore T text cv[i] ⟨sh, up⟩))
    (K : S1 → Res R) (hK : ∀ bo bi res fn up cv sh, K (bo, bi, res, fn, up, cv, sh) = .ok (res, false, bo, bi, res, fn)) :
    ∀ (m off : Nat) (res fn : List Int) (st : CState) (cv : List Int) (f : Nat), cv.length = 3 → bs.length - off ≤ m →
      off ≤ bs.length → m < f →
      CAgrees ((whileLoop B1 f ((off : Int), 0, res, fn, st.upper, cv, st.shift)).thenR K) res fn off
        (cOut T text (bs.drop off) st) := by
  intro m
  induction m with
  | zero =>
    intro off res fn st cv f hcv hm hoff hf
    obtain ⟨f, rfl⟩ : ∃ k, f = k + 1 := ⟨f - 1, by omega⟩
    have hd : bs.drop off = [] := List.drop_eq_nil_of_le (by omega)
    rw [hd, whileLoop_succ, hB.hend off _ _ _ _ _ (by omega)]
    simp [brk_thenR, hK, cOut, CAgrees, emitsK]
  | succ m ih =>
    intro off res fn st cv f hcv hm hoff hf
    obtain ⟨f, rfl⟩ : ∃ k, f = k + 1 := ⟨f - 1, by omega⟩
    rw [whileLoop_succ]
    by_cases h0 : off = bs.length
    · have hd : bs.drop off = [] := List.drop_eq_nil_of_le (by omega)
      rw [hd, hB.hend off _ _ _ _ _ (by omega)]
      simp [brk_thenR, hK, cOut, CAgrees, emitsK]
    · by_cases h1 : off + 1 = bs.length
      · have hd : bs.drop off = [bs[off]'(by omega)] := by
          rw [List.drop_eq_getElem_cons (by omega), List.drop_eq_nil_of_le (by omega)]
        rw [hd, hB.hone off _ _ _ _ _ h1]
        simp [ret_thenR, cOut, CAgrees, emitsK]
      · have hlt : off + 1 < bs.length := by omega
        obtain ⟨r0, r1, r2, rfl⟩ : ∃ r0 r1 r2, cv = [r0, r1, r2] := by
          match cv, hcv with
          | [r0, r1, r2], _ => exact ⟨r0, r1, r2, rfl⟩
        have hd : bs.drop off = bs[off]'(by omega) :: bs[off + 1]'hlt :: bs.drop (off + 2) := by
          rw [List.drop_eq_getElem_cons (by omega), List.drop_eq_getElem_cons hlt]
        rw [hd, hB.htwo off hlt]
        generalize bs[off]'(by omega) = b1
        generalize bs[off + 1]'hlt = b2
        unfold cOut
        by_cases h254 : b1 = 254
        · simp [h254, ret_thenR, CAgrees, emitsK]
        · simp only [h254, if_false]
          rw [loop_succ, hstep _ _ _ 0 0 rfl (by simp)]
          simp only [List.getElem_cons_zero]
          cases hx1 : cValueCore T text (parseTwoBytes b1 b2).1 ⟨st.shift, st.upper⟩ with
          | error e => cases e <;> simp [stepK, CAgrees]
          | ok p1 =>
            obtain ⟨st1, e1⟩ := p1
            simp only [stepK]
            rw [loop_succ, hstep _ _ _ 1 (0 + 1) (by decide) (by simp)]
            simp only [List.getElem_cons_succ, List.getElem_cons_zero]
            cases hx2 : cValueCore T text (parseTwoBytes b1 b2).2.1 ⟨st1.shift, st1.upper⟩ with
            | error e => cases e <;> simp [stepK, CAgrees]
            | ok p2 =>
              obtain ⟨st2, e2⟩ := p2
              simp only [stepK]
              rw [loop_succ, hstep _ _ _ 2 (0 + 1 + 1) (by decide) (by simp)]
              simp only [List.getElem_cons_succ, List.getElem_cons_zero]
              cases hx3 : cValueCore T text (parseTwoBytes b1 b2).2.2 ⟨st2.shift, st2.upper⟩ with
              | error e => cases e <;> simp [stepK, CAgrees]
              | ok p3 =>
                obtain ⟨st3, e3⟩ := p3
                simp only [stepK, loop_zero, next_thenC]
                have := ih (off + 2) (emitK (emitK (emitK (res, fn) e1) e2) e3).1 (emitK (emitK (emitK (res, fn) e1) e2) e3).2 st3
                  [(parseTwoBytes b1 b2).1, (parseTwoBytes b1 b2).2.1, (parseTwoBytes b1 b2).2.2] f rfl (by omega) (by omega) (by omega)
                cases hrest : cOut T text (bs.drop (off + 2)) st3 with
                | error e =>
                  rw [hrest] at this
                  cases e <;> simpa [CAgrees] using this
                | ok p =>
                  rw [hrest] at this
                  simp only [CAgrees] at this ⊢
                  rw [this]
                  simp [emitsK]
                  omega

when_kernel Gzx.Gen.K02e.decodeC40Segment in
/-- the outer loop body of decodeC40Segment: no byte left / one byte left / a pair -/
theorem c40_body1_facts (F : Nat) (hF : 2 ≤ F) (bs : List Nat) (hb : ∀ b ∈ bs, b < 256) :
    CSegBody bs (Gen.K02e.decodeC40Segment_body1 F (bytesI bs)) Gen.K02e.decodeC40Segment_body2 := by
  constructor
  · intro off res fn up cv sh h
    unfold Gen.K02e.decodeC40Segment_body1
    simp only [k_available_eq, tryC_ok, bytesI_length]
    have c : decide (8 * ((bs.length : Int) - (off : Int)) - 0 > 0) = false := by simp; omega
    simp only [c, Bool.false_eq_true, if_false]
  · intro off res fn up cv sh h
    unfold Gen.K02e.decodeC40Segment_body1
    simp only [k_available_eq, tryC_ok, bytesI_length]
    have c : decide (8 * ((bs.length : Int) - (off : Int)) - 0 > 0) = true := by simp; omega
    have c8 : (8 * ((bs.length : Int) - (off : Int)) - 0 == 8) = true := by simp; omega
    simp only [c, c8, if_true]
  · intro off h res fn up r0 r1 r2 sh
    unfold Gen.K02e.decodeC40Segment_body1
    simp only [k_available_eq, tryC_ok, bytesI_length]
    have c : decide (8 * ((bs.length : Int) - (off : Int)) - 0 > 0) = true := by simp; omega
    have c8 : (8 * ((bs.length : Int) - (off : Int)) - 0 == 8) = false := by simp; omega
    simp only [c, c8, if_true, Bool.false_eq_true, if_false]
    rw [k_readBits8 F hF bs hb off (by omega)]
    simp only [tryC_ok]
    have e1 : (off : Int) + 1 = ((off + 1 : Nat) : Int) := by omega
    have e2 : ((off + 1 : Nat) : Int) + 1 = ((off + 2 : Nat) : Int) := by omega
    by_cases h254 : bs[off] = 254
    · have c254 : (((bs[off] : Nat) : Int) == 254) = true := by simp [h254]
      simp only [c254, if_true]
      rw [if_pos h254, e1]
    · have c254 : (((bs[off] : Nat) : Int) == 254) = false := by simp; omega
      simp only [c254, Bool.false_eq_true, if_false]
      rw [if_neg h254, e1, k_readBits8 F hF bs hb (off + 1) h]
      simp only [tryC_ok]
      rw [k_parseTwoBytes_eq]
      simp only [tryC_ok, tripUp_one, e2]
      rfl

when_kernel Gzx.Gen.K02e.decodeC40Segment in
/-- `decodeC40Segment(bits, result, fnc1positions)` on a byte-aligned source at byte `off` of `bs` = the model's
    `cSeg T false` on the remaining bytes, for every accumulator: `result` / `fnc1positions` grow by exactly the model's
    emissions (characters, FNC1 as GS with its position), the source advances by the bytes the model consumes; a
    FormatException of the model is the kernel's error flag; an index panic of the model is one of the kernel -/
theorem k_decodeC40Segment_eq (T : Tables) (hT : TablesAgree T) (fuel : Nat) (bs : List Nat) (hb : ∀ b ∈ bs, b < 256) (off : Nat)
    (hoff : off ≤ bs.length) (hf : bs.length + 2 ≤ fuel) (result fn : List Int) (a : Acc) (n : Nat) :
    match cSeg T false (bs.drop off) {} a n with
    | .ok (a', n') => ∃ es, cOut T false (bs.drop off) {} = .ok (es, n' - n) ∧ a' = Acc.emits a es ∧
        Gen.K02e.decodeC40Segment fuel (bytesI bs) (off : Int) 0 result fn
          = .ok ((emitsK (result, fn) es).1, false, ((off + (n' - n) : Nat) : Int), 0, (emitsK (result, fn) es).1, (emitsK (result, fn) es).2)
    | .error .format => ∃ r bo f, Gen.K02e.decodeC40Segment fuel (bytesI bs) (off : Int) 0 result fn = .ok (r, true, bo, 0, r, f)
    | .error _ => Gen.K02e.decodeC40Segment fuel (bytesI bs) (off : Int) 0 result fn = .error oob := by
  rw [cSeg_eq_out]
  have hk : Gen.K02e.decodeC40Segment fuel (bytesI bs) (off : Int) 0 result fn
      = (whileLoop (Gen.K02e.decodeC40Segment_body1 fuel (bytesI bs)) fuel ((off : Int), 0, result, fn, false, [0, 0, 0], 0)).thenR
          (fun st => .ok (st.2.2.1, false, st.1, st.2.1, st.2.2.1, st.2.2.2.1)) := by
    unfold Gen.K02e.decodeC40Segment
    rfl
  have := cseg_loop T false bs _ _ (c40_body1_facts fuel (by omega) bs hb)
    (fun bo bi cv i ii hii hi res fn up sh => c40_body2 T hT bo bi cv i ii hii hi res fn up sh)
    (fun st => .ok (st.2.2.1, false, st.1, st.2.1, st.2.2.1, st.2.2.2.1)) (fun _ _ _ _ _ _ _ => rfl)
    (bs.length - off) off result fn {} [0, 0, 0] fuel rfl (Nat.le_refl _) hoff (by omega)
  rw [← hk] at this
  cases hx : cOut T false (bs.drop off) {} with
  | error e =>
    rw [hx] at this
    cases e <;> simpa [CAgrees, Except.map] using this
  | ok p =>
    rw [hx] at this
    simp only [Except.map]
    refine ⟨p.1, by simp, rfl, ?_⟩
    simp only [CAgrees] at this
    rw [this]
    simp

when_kernel Gzx.Gen.K02e.decodeTextSegment in
/-- the outer loop body of decodeTextSegment: no byte left / one byte left / a pair -/
theorem text_body1_facts (F : Nat) (hF : 2 ≤ F) (bs : List Nat) (hb : ∀ b ∈ bs, b < 256) :
    CSegBody bs (Gen.K02e.decodeTextSegment_body1 F (bytesI bs)) Gen.K02e.decodeTextSegment_body2 := by
  constructor
  · intro off res fn up cv sh h
    unfold Gen.K02e.decodeTextSegment_body1
    simp only [k_available_eq, tryC_ok, bytesI_length]
    have c : decide (8 * ((bs.length : Int) - (off : Int)) - 0 > 0) = false := by simp; omega
    simp only [c, Bool.false_eq_true, if_false]
  · intro off res fn up cv sh h
    unfold Gen.K02e.decodeTextSegment_body1
    simp only [k_available_eq, tryC_ok, bytesI_length]
    have c : decide (8 * ((bs.length : Int) - (off : Int)) - 0 > 0) = true := by simp; omega
    have c8 : (8 * ((bs.length : Int) - (off : Int)) - 0 == 8) = true := by simp; omega
    simp only [c, c8, if_true]
  · intro off h res fn up r0 r1 r2 sh
    unfold Gen.K02e.decodeTextSegment_body1
    simp only [k_available_eq, tryC_ok, bytesI_length]
    have c : decide (8 * ((bs.length : Int) - (off : Int)) - 0 > 0) = true := by simp; omega
    have c8 : (8 * ((bs.length : Int) - (off : Int)) - 0 == 8) = false := by simp; omega
    simp only [c, c8, if_true, Bool.false_eq_true, if_false]
    rw [k_readBits8 F hF bs hb off (by omega)]
    simp only [tryC_ok]
    have e1 : (off : Int) + 1 = ((off + 1 : Nat) : Int) := by omega
    have e2 : ((off + 1 : Nat) : Int) + 1 = ((off + 2 : Nat) : Int) := by omega
    by_cases h254 : bs[off] = 254
    · have c254 : (((bs[off] : Nat) : Int) == 254) = true := by simp [h254]
      simp only [c254, if_true]
      rw [if_pos h254, e1]
    · have c254 : (((bs[off] : Nat) : Int) == 254) = false := by simp; omega
      simp only [c254, Bool.false_eq_true, if_false]
      rw [if_neg h254, e1, k_readBits8 F hF bs hb (off + 1) h]
      simp only [tryC_ok]
      rw [k_parseTwoBytes_eq]
      simp only [tryC_ok, tripUp_one, e2]
      rfl

when_kernel Gzx.Gen.K02e.decodeC40Segment in
when_kernel Gzx.Gen.K02e.decodeTextSegment in
/-- `decodeTextSegment(bits, result, fnc1positions)` on a byte-aligned source at byte `off` of `bs` = the model's
    `cSeg T true` on the remaining bytes, for every accumulator: `result` / `fnc1positions` grow by exactly the model's
    emissions (characters, FNC1 as GS with its position), the source advances by the bytes the model consumes; a
    FormatException of the model is the kernel's error flag; an index panic of the model is one of the kernel -/
theorem k_decodeTextSegment_eq (T : Tables) (hT : TablesAgree T) (fuel : Nat) (bs : List Nat) (hb : ∀ b ∈ bs, b < 256) (off : Nat)
    (hoff : off ≤ bs.length) (hf : bs.length + 2 ≤ fuel) (result fn : List Int) (a : Acc) (n : Nat) :
    match cSeg T true (bs.drop off) {} a n with
    | .ok (a', n') => ∃ es, cOut T true (bs.drop off) {} = .ok (es, n' - n) ∧ a' = Acc.emits a es ∧
        Gen.K02e.decodeTextSegment fuel (bytesI bs) (off : Int) 0 result fn
          = .ok ((emitsK (result, fn) es).1, false, ((off + (n' - n) : Nat) : Int), 0, (emitsK (result, fn) es).1, (emitsK (result, fn) es).2)
    | .error .format => ∃ r bo f, Gen.K02e.decodeTextSegment fuel (bytesI bs) (off : Int) 0 result fn = .ok (r, true, bo, 0, r, f)
    | .error _ => Gen.K02e.decodeTextSegment fuel (bytesI bs) (off : Int) 0 result fn = .error oob := by
  rw [cSeg_eq_out]
  have hk : Gen.K02e.decodeTextSegment fuel (bytesI bs) (off : Int) 0 result fn
      = (whileLoop (Gen.K02e.decodeTextSegment_body1 fuel (bytesI bs)) fuel ((off : Int), 0, result, fn, false, [0, 0, 0], 0)).thenR
          (fun st => .ok (st.2.2.1, false, st.1, st.2.1, st.2.2.1, st.2.2.2.1)) := by
    unfold Gen.K02e.decodeTextSegment
    rfl
  have := cseg_loop T true bs _ _ (text_body1_facts fuel (by omega) bs hb)
    (fun bo bi cv i ii hii hi res fn up sh => text_body2 T hT bo bi cv i ii hii hi res fn up sh)
    (fun st => .ok (st.2.2.1, false, st.1, st.2.1, st.2.2.1, st.2.2.2.1)) (fun _ _ _ _ _ _ _ => rfl)
    (bs.length - off) off result fn {} [0, 0, 0] fuel rfl (Nat.le_refl _) hoff (by omega)
  rw [← hk] at this
  cases hx : cOut T true (bs.drop off) {} with
  | error e =>
    rw [hx] at this
    cases e <;> simpa [CAgrees, Except.map] using this
  | ok p =>
    rw [hx] at this
    simp only [Except.map]
    refine ⟨p.1, by simp, rfl, ?_⟩
    simp only [CAgrees] at this
    rw [this]
    simp

when_kernel Gzx.Gen.K02e.decodeC40Segment in
/-- non-vacuity: "A", shift-2 FNC1, "a" (upper shift pending none) then unlatch; an illegal value -/
example : Gen.K02e.decodeC40Segment 10 (bytesI [0x57, 0xC4, 254, 9]) 0 0 [7] [] = .ok ([7, 65, 29], false, 3, 0, [7, 65, 29], [2]) := by
  rfl
when_kernel Gzx.Gen.K02e.decodeC40Segment in
example : Gen.K02e.decodeC40Segment 10 (bytesI [255, 255]) 0 0 [] [] = .ok ([], true, 2, 0, [], []) := by rfl

end Gzx.Obligations.K02e
