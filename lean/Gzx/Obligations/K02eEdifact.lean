/-
  K02e (wp k11b2) — `decodeEdifactSegment` of datamatrix/decoder/decoded_bit_stream_parser.go, regenerated from /repo on
  every run (`Gzx.Gen.K02e.decodeEdifactSegment`), proved equal to the model `DMHighLevel.edifactSeg` for every
  byte-aligned bit source (`k_decodeEdifactSegment_eq`).  This is the one segment decoder that reads the BitSource at bit
  granularity: `BitSource.ReadBits` (regenerated, `Gen.K02e.readBits`: the partial first byte with its mask, the whole-byte
  loop, the partial last byte) is characterised for the six (bit offset, count) combinations EDIFACT uses
  (`k_readBits_6_0/6_6/6_4/6_2`, the skips `k_readBits_2_6/4_4`).
-/
import Gzx.Obligations.K02eB256
namespace Gzx.Obligations.K02e
open Gzx Gzx.GoM Gzx.GoVal Gzx.DMHighLevel

theorem idxb (bs : List Nat) (off : Nat) (h : off < bs.length) : idx (bytesI bs) (off : Int) = .ok ((bs[off] : Nat) : Int) := by
  rw [idx_ofNat (bytesI bs) off (by simpa [bytesI] using h)]; simp [bytesI]

theorem idxb1 (bs : List Nat) (off : Nat) (h : off + 1 < bs.length) :
    idx (bytesI bs) ((off : Int) + 1) = .ok ((bs[off + 1] : Nat) : Int) := by
  have := idxb bs (off + 1) h
  rw [← this]; congr 1

/-! per-byte facts about the masks of `ReadBits`, by evaluation over all 256 bytes -/

set_option maxRecDepth 100000

theorem m_hi6 : ∀ b : Fin 256, ior (ishl 0 6) (ishr (iand ((b.val : Nat) : Int) (ishl (ishr 255 2) 2 % 256)) 2) = ((b.val / 4 : Nat) : Int) := by
  decide +kernel
theorem m_lo2 : ∀ b : Fin 256, ishr (iand ((b.val : Nat) : Int) (ishl (ishr 255 6) 0 % 256)) 0 = ((b.val % 4 : Nat) : Int) := by decide +kernel
theorem m_hi4 : ∀ b : Fin 256, ishr (iand ((b.val : Nat) : Int) (ishl (ishr 255 4) 4 % 256)) 4 = ((b.val / 16 : Nat) : Int) := by decide +kernel
theorem m_lo4 : ∀ b : Fin 256, ishr (iand ((b.val : Nat) : Int) (ishl (ishr 255 4) 0 % 256)) 0 = ((b.val % 16 : Nat) : Int) := by decide +kernel
theorem m_hi2 : ∀ b : Fin 256, ishr (iand ((b.val : Nat) : Int) (ishl (ishr 255 6) 6 % 256)) 6 = ((b.val / 64 : Nat) : Int) := by decide +kernel
theorem m_lo6 : ∀ b : Fin 256, ishr (iand ((b.val : Nat) : Int) (ishl (ishr 255 2) 0 % 256)) 0 = ((b.val % 64 : Nat) : Int) := by decide +kernel

theorem ior_shl (x y k : Nat) (hy : y < 2 ^ k) : ior (ishl (x : Int) (k : Int)) (y : Int) = ((x * 2 ^ k + y : Nat) : Int) := by
  rw [ishl_natCast, ior_natCast, ← Nat.shiftLeft_add_eq_or_of_lt hy, Nat.shiftLeft_eq]

when_kernel Gzx.Gen.K02e.readBits in
/-- 6 bits at bit offset 0: the high six bits of the byte -/
theorem k_readBits_6_0 (fuel : Nat) (bs : List Nat) (hb : ∀ b ∈ bs, b < 256) (off : Nat) (h : off < bs.length) :
    Gen.K02e.readBits (fuel + 1) (bytesI bs) (off : Int) 0 6 = .ok (((bs[off] / 4 : Nat) : Int), false, (off : Int), 6) := by
  unfold Gen.K02e.readBits
  have c3 : decide ((6 : Int) > 8 * (((bytesI bs).length : Int) - (off : Int)) - 0) = false := by
    simp [bytesI]; omega
  simp only [k_available_eq, tryR_ok, c3]
  simp [whileLoop_succ, Gen.K02e.readBits_body1, wrap, idxb bs off h]
  exact m_hi6 ⟨bs[off], hb _ (List.getElem_mem h)⟩

when_kernel Gzx.Gen.K02e.readBits in
/-- 6 bits at bit offset 6: the low two bits and the high four of the next byte -/
theorem k_readBits_6_6 (fuel : Nat) (bs : List Nat) (hb : ∀ b ∈ bs, b < 256) (off : Nat) (h : off + 1 < bs.length) :
    Gen.K02e.readBits (fuel + 1) (bytesI bs) (off : Int) 6 6
      = .ok ((((bs[off] % 4) * 16 + bs[off + 1] / 16 : Nat) : Int), false, (off : Int) + 1, 4) := by
  unfold Gen.K02e.readBits
  have c3 : decide ((6 : Int) > 8 * (((bytesI bs).length : Int) - (off : Int)) - 6) = false := by
    simp [bytesI]; omega
  simp only [k_available_eq, tryR_ok, c3]
  simp [whileLoop_succ, Gen.K02e.readBits_body1, wrap, idxb bs off (by omega), idxb1 bs off h]
  have h1 := m_lo2 ⟨bs[off], hb _ (List.getElem_mem (by omega))⟩
  have h2 := m_hi4 ⟨bs[off + 1], hb _ (List.getElem_mem h)⟩
  simp only at h1 h2
  rw [h1, h2]
  have := ior_shl (bs[off] % 4) (bs[off + 1] / 16) 4 (by have := hb _ (List.getElem_mem h); omega)
  simp at this
  simpa using this

when_kernel Gzx.Gen.K02e.readBits in
/-- 6 bits at bit offset 4: the low four bits and the high two of the next byte -/
theorem k_readBits_6_4 (fuel : Nat) (bs : List Nat) (hb : ∀ b ∈ bs, b < 256) (off : Nat) (h : off + 1 < bs.length) :
    Gen.K02e.readBits (fuel + 1) (bytesI bs) (off : Int) 4 6
      = .ok ((((bs[off] % 16) * 4 + bs[off + 1] / 64 : Nat) : Int), false, (off : Int) + 1, 2) := by
  unfold Gen.K02e.readBits
  have c3 : decide ((6 : Int) > 8 * (((bytesI bs).length : Int) - (off : Int)) - 4) = false := by
    simp [bytesI]; omega
  simp only [k_available_eq, tryR_ok, c3]
  simp [whileLoop_succ, Gen.K02e.readBits_body1, wrap, idxb bs off (by omega), idxb1 bs off h]
  have h1 := m_lo4 ⟨bs[off], hb _ (List.getElem_mem (by omega))⟩
  have h2 := m_hi2 ⟨bs[off + 1], hb _ (List.getElem_mem h)⟩
  simp only at h1 h2
  rw [h1, h2]
  have := ior_shl (bs[off] % 16) (bs[off + 1] / 64) 2 (by have := hb _ (List.getElem_mem h); omega)
  simp at this
  simpa using this

when_kernel Gzx.Gen.K02e.readBits in
/-- 6 bits at bit offset 2: the low six bits; the source is byte-aligned again -/
theorem k_readBits_6_2 (fuel : Nat) (bs : List Nat) (hb : ∀ b ∈ bs, b < 256) (off : Nat) (h : off < bs.length) :
    Gen.K02e.readBits (fuel + 1) (bytesI bs) (off : Int) 2 6 = .ok (((bs[off] % 64 : Nat) : Int), false, (off : Int) + 1, 0) := by
  unfold Gen.K02e.readBits
  have c3 : decide ((6 : Int) > 8 * (((bytesI bs).length : Int) - (off : Int)) - 2) = false := by
    simp [bytesI]; omega
  simp only [k_available_eq, tryR_ok, c3]
  simp [whileLoop_succ, Gen.K02e.readBits_body1, wrap, idxb bs off h]
  exact m_lo6 ⟨bs[off], hb _ (List.getElem_mem h)⟩

when_kernel Gzx.Gen.K02e.readBits in
/-- skipping the last 2 bits of a byte -/
theorem k_readBits_2_6 (fuel : Nat) (bs : List Nat) (off : Nat) (h : off < bs.length) :
    ∃ v, Gen.K02e.readBits (fuel + 1) (bytesI bs) (off : Int) 6 2 = .ok (v, false, (off : Int) + 1, 0) := by
  unfold Gen.K02e.readBits
  have c3 : decide ((2 : Int) > 8 * (((bytesI bs).length : Int) - (off : Int)) - 6) = false := by
    simp [bytesI]; omega
  simp only [k_available_eq, tryR_ok, c3]
  simp [whileLoop_succ, Gen.K02e.readBits_body1, wrap, idxb bs off h]

when_kernel Gzx.Gen.K02e.readBits in
/-- skipping the last 4 bits of a byte -/
theorem k_readBits_4_4 (fuel : Nat) (bs : List Nat) (off : Nat) (h : off < bs.length) :
    ∃ v, Gen.K02e.readBits (fuel + 1) (bytesI bs) (off : Int) 4 4 = .ok (v, false, (off : Int) + 1, 0) := by
  unfold Gen.K02e.readBits
  have c3 : decide ((4 : Int) > 8 * (((bytesI bs).length : Int) - (off : Int)) - 4) = false := by
    simp [bytesI]; omega
  simp only [k_available_eq, tryR_ok, c3]
  simp [whileLoop_succ, Gen.K02e.readBits_body1, wrap, idxb bs off h]

/-! ## model side -/

/-- the characters of `edifactVals` and the index of the unlatch value, without the accumulator -/
def ediVals : List Nat → Nat → List Nat × Option Nat
  | [], _ => ([], none)
  | v :: vs, i => if v = 31 then ([], some i) else ((edifactChar v :: (ediVals vs (i + 1)).1), (ediVals vs (i + 1)).2)

theorem edifactVals_eq : ∀ (vs : List Nat) (i : Nat) (a : Acc),
    edifactVals vs i a = (a.pushAll (ediVals vs i).1, (ediVals vs i).2)
  | [], i, a => by simp [edifactVals, ediVals, Acc.pushAll]
  | v :: vs, i, a => by
    unfold edifactVals ediVals
    by_cases h : v = 31
    · simp [h, Acc.pushAll]
    · simp only [h, if_false]
      rw [edifactVals_eq vs (i + 1)]
      simp [pushAll_cons]

/-- the characters of `edifactSeg` and the bytes it consumes -/
def edifactOut : List Nat → List Nat × Nat
  | b1 :: b2 :: b3 :: rest =>
    match (ediVals (edifactUnpack b1 b2 b3) 0).2 with
    | some i => ((ediVals (edifactUnpack b1 b2 b3) 0).1, if i = 0 then 1 else if i = 1 then 2 else 3)
    | none => ((ediVals (edifactUnpack b1 b2 b3) 0).1 ++ (edifactOut rest).1, (edifactOut rest).2 + 3)
  | _ => ([], 0)

theorem pushAll_append (a : Acc) : ∀ (xs ys : List Nat), a.pushAll (xs ++ ys) = (a.pushAll xs).pushAll ys
  | [], ys => rfl
  | x :: xs, ys => by simp [Acc.pushAll, pushAll_append (a.push x) xs ys]

theorem edifactSeg_eq_out : ∀ (bs : List Nat) (a : Acc) (n : Nat),
    edifactSeg bs a n = (a.pushAll (edifactOut bs).1, n + (edifactOut bs).2)
  | [], a, n => by simp [edifactSeg, edifactOut, Acc.pushAll]
  | [_], a, n => by simp [edifactSeg, edifactOut, Acc.pushAll]
  | [_, _], a, n => by simp [edifactSeg, edifactOut, Acc.pushAll]
  | b1 :: b2 :: b3 :: rest, a, n => by
    unfold edifactSeg edifactOut
    rw [edifactVals_eq]
    cases h : (ediVals (edifactUnpack b1 b2 b3) 0).2 with
    | some i => simp
    | none =>
      simp only []
      rw [edifactSeg_eq_out rest]
      simp [pushAll_append]; omega

/-! ## kernel side -/

abbrev SE := Int × Int × List Int
abbrev RE := List Int × Int × Int × List Int

theorem edifactChar_cast (v : Nat) (hv : v < 64) :
    wrap 8 (if (iand (v : Int) 32 == 0) = true then ior (v : Int) 64 else (v : Int)) = ((edifactChar v : Nat) : Int) := by
  have e1 : iand (v : Int) 32 = ((v &&& 32 : Nat) : Int) := iand_natCast v 32
  have e2 : ior (v : Int) 64 = ((v ||| 64 : Nat) : Int) := ior_natCast v 64
  rw [e1, e2]
  unfold edifactChar
  have hor : v ||| 64 < 256 := by
    have : v ||| 64 < 2 ^ 7 := Nat.or_lt_two_pow (by omega) (by decide)
    omega
  by_cases h : v &&& 32 = 0
  · have c : ((((v &&& 32 : Nat) : Int)) == 0) = true := by simp [h]
    simp only [c, if_true, h]
    exact wrap8_of_lt _ hor
  · have c : ((((v &&& 32 : Nat) : Int)) == 0) = false := by simp; omega
    simp only [c, Bool.false_eq_true, if_false, h]
    exact wrap8_of_lt _ (by omega)

when_kernel Gzx.Gen.K02e.decodeEdifactSegment in
/-- one 6-bit value of the inner loop, from what the two reads answer -/
theorem edi_body2 (F : Nat) (xs : List Int) (i bo bi : Int) (res : List Int) (v : Nat) (hv : v < 64) (bo' bi' : Int)
    (hr : Gen.K02e.readBits F xs bo bi 6 = .ok ((v : Int), false, bo', bi')) (bo'' : Int)
    (hs : (bi' = 0 ∧ bo'' = bo') ∨ (bi' ≠ 0 ∧ ∃ w, Gen.K02e.readBits F xs bo' bi' (8 - bi') = .ok (w, false, bo'', 0))) :
    Gen.K02e.decodeEdifactSegment_body2 F xs i (bo, bi, res)
      = if v = 31 then (.ret (res, bo'', 0, res) : Ctl SE RE) else .next (bo', bi', res ++ [((edifactChar v : Nat) : Int)]) := by
  unfold Gen.K02e.decodeEdifactSegment_body2
  simp only [hr, tryC_ok]
  by_cases h31 : v = 31
  · have c : (((v : Nat) : Int) == 31) = true := by simp [h31]
    simp only [c, if_true]
    rw [if_pos h31]
    rcases hs with ⟨h0, hb⟩ | ⟨h0, w, hw⟩
    · subst h0 hb; simp
    · have c8 : (8 - bi' != 8) = true := by simp; omega
      simp only [c8, if_true, hw, tryC_ok, next_thenC]
  · have c : (((v : Nat) : Int) == 31) = false := by simp; omega
    simp only [c, Bool.false_eq_true, if_false, h31]
    rw [edifactChar_cast v hv]

theorem unpack_eq (b1 b2 b3 : Nat) (h1 : b1 < 256) (h2 : b2 < 256) (h3 : b3 < 256) :
    edifactUnpack b1 b2 b3 = [b1 / 4, (b1 % 4) * 16 + b2 / 16, (b2 % 16) * 4 + b3 / 64, b3 % 64] := by
  unfold edifactUnpack
  simp only [List.cons.injEq, and_true]
  refine ⟨?_, ?_, ?_, ?_⟩ <;> omega

when_kernel Gzx.Gen.K02e.decodeEdifactSegment in
/-- the four 6-bit values of three bytes: the characters up to an unlatch value (then the rest of its byte is skipped
    and the function returns), or all four -/
theorem edi_quad (F : Nat) (hF : 1 ≤ F) (bs : List Nat) (hb : ∀ b ∈ bs, b < 256) (off : Nat) (h : off + 2 < bs.length) (res : List Int) :
    GoM.loop (Gen.K02e.decodeEdifactSegment_body2 F (bytesI bs)) 1 4 0 ((off : Int), 0, res)
      = match (ediVals (edifactUnpack bs[off] bs[off + 1] bs[off + 2]) 0).2 with
        | some i => (.ret (res ++ bytesI (ediVals (edifactUnpack bs[off] bs[off + 1] bs[off + 2]) 0).1,
            ((off + (if i = 0 then 1 else if i = 1 then 2 else 3) : Nat) : Int), 0,
            res ++ bytesI (ediVals (edifactUnpack bs[off] bs[off + 1] bs[off + 2]) 0).1) : Ctl SE RE)
        | none => .next (((off + 3 : Nat) : Int), 0, res ++ bytesI (ediVals (edifactUnpack bs[off] bs[off + 1] bs[off + 2]) 0).1) := by
  obtain ⟨F, rfl⟩ : ∃ k, F = k + 1 := ⟨F - 1, by omega⟩
  have hb1 := hb _ (List.getElem_mem (show off < bs.length by omega))
  have hb2 := hb _ (List.getElem_mem (show off + 1 < bs.length by omega))
  have hb3 := hb _ (List.getElem_mem h)
  rw [unpack_eq _ _ _ hb1 hb2 hb3]
  have e1 : (off : Int) + 1 = ((off + 1 : Nat) : Int) := by omega
  have e2 : ((off + 1 : Nat) : Int) + 1 = ((off + 2 : Nat) : Int) := by omega
  have e3 : ((off + 2 : Nat) : Int) + 1 = ((off + 3 : Nat) : Int) := by omega
  -- the four reads and the three skips
  have r0 := k_readBits_6_0 F bs hb off (by omega)
  have r1 := k_readBits_6_6 F bs hb off (by omega)
  have r2 := k_readBits_6_4 F bs hb (off + 1) (by omega)
  have r3 := k_readBits_6_2 F bs hb (off + 2) h
  obtain ⟨w0, s0⟩ := k_readBits_2_6 F bs off (by omega)
  obtain ⟨w1, s1⟩ := k_readBits_4_4 F bs (off + 1) (by omega)
  rw [e1] at r1 s0
  rw [e2] at r2 s1
  rw [e3] at r3
  generalize bs[off] = b1 at *
  generalize bs[off + 1] = b2 at *
  generalize bs[off + 2] = b3 at *
  rw [loop_succ, edi_body2 (F + 1) _ _ _ _ _ (b1 / 4) (by omega) _ _ r0 ((off + 1 : Nat) : Int)
    (Or.inr ⟨by decide, w0, by simpa using s0⟩)]
  unfold ediVals
  by_cases v0 : b1 / 4 = 31
  · simp [v0]
  simp only [v0, if_false]
  rw [loop_succ, edi_body2 (F + 1) _ _ _ _ _ (b1 % 4 * 16 + b2 / 16) (by omega) _ _ r1 ((off + 2 : Nat) : Int)
    (Or.inr ⟨by decide, w1, by simpa using s1⟩)]
  unfold ediVals
  by_cases v1 : b1 % 4 * 16 + b2 / 16 = 31
  · simp [v1, bytesI]
  simp only [v1, if_false]
  rw [loop_succ, edi_body2 (F + 1) _ _ _ _ _ (b2 % 16 * 4 + b3 / 64) (by omega) _ _ r2 ((off + 3 : Nat) : Int)
    (Or.inr ⟨by decide, _, by simpa using r3⟩)]
  unfold ediVals
  by_cases v2 : b2 % 16 * 4 + b3 / 64 = 31
  · simp [v2, bytesI]
  simp only [v2, if_false]
  rw [loop_succ, edi_body2 (F + 1) _ _ _ _ _ (b3 % 64) (by omega) _ _ r3 ((off + 3 : Nat) : Int) (Or.inl ⟨rfl, rfl⟩)]
  unfold ediVals
  by_cases v3 : b3 % 64 = 31
  · simp [v3, bytesI]
  · simp [v3, bytesI, ediVals, loop_zero]

when_kernel Gzx.Gen.K02e.decodeEdifactSegment in
theorem edi_body1_end (F : Nat) (bs : List Nat) (off : Nat) (h : bs.length ≤ off) (res : List Int) :
    Gen.K02e.decodeEdifactSegment_body1 F (bytesI bs) ((off : Int), 0, res) = .brk ((off : Int), 0, res) := by
  unfold Gen.K02e.decodeEdifactSegment_body1
  simp only [k_available_eq, tryC_ok, bytesI_length]
  have c : decide (8 * ((bs.length : Int) - (off : Int)) - 0 > 0) = false := by simp; omega
  simp only [c, Bool.false_eq_true, if_false]

when_kernel Gzx.Gen.K02e.decodeEdifactSegment in
theorem edi_body1_few (F : Nat) (bs : List Nat) (off : Nat) (h1 : off < bs.length) (h2 : bs.length ≤ off + 2) (res : List Int) :
    Gen.K02e.decodeEdifactSegment_body1 F (bytesI bs) ((off : Int), 0, res) = .ret (res, (off : Int), 0, res) := by
  unfold Gen.K02e.decodeEdifactSegment_body1
  simp only [k_available_eq, tryC_ok, bytesI_length]
  have c : decide (8 * ((bs.length : Int) - (off : Int)) - 0 > 0) = true := by simp; omega
  have c16 : decide (8 * ((bs.length : Int) - (off : Int)) - 0 ≤ 16) = true := by simp; omega
  simp only [c, c16, if_true]

when_kernel Gzx.Gen.K02e.decodeEdifactSegment in
theorem edi_body1_quad (F : Nat) (bs : List Nat) (off : Nat) (h : off + 2 < bs.length) (res : List Int) :
    Gen.K02e.decodeEdifactSegment_body1 F (bytesI bs) ((off : Int), 0, res)
      = (GoM.loop (Gen.K02e.decodeEdifactSegment_body2 F (bytesI bs)) 1 4 0 ((off : Int), 0, res)).thenC fun st =>
          .next (st.1, st.2.1, st.2.2) := by
  unfold Gen.K02e.decodeEdifactSegment_body1
  simp only [k_available_eq, tryC_ok, bytesI_length]
  have c : decide (8 * ((bs.length : Int) - (off : Int)) - 0 > 0) = true := by simp; omega
  have c16 : decide (8 * ((bs.length : Int) - (off : Int)) - 0 ≤ 16) = false := by simp; omega
  simp only [c, c16, if_true, Bool.false_eq_true, if_false, tripUp_one]
  rfl

when_kernel Gzx.Gen.K02e.decodeEdifactSegment in
theorem edi_loop (F : Nat) (hF : 1 ≤ F) (bs : List Nat) (hb : ∀ b ∈ bs, b < 256)
    (K : SE → Res RE) (hK : ∀ bo bi res, K (bo, bi, res) = .ok (res, bo, bi, res)) :
    ∀ (m off : Nat) (res : List Int) (f : Nat), bs.length - off ≤ m → off ≤ bs.length → m < f →
      (whileLoop (Gen.K02e.decodeEdifactSegment_body1 F (bytesI bs)) f ((off : Int), 0, res)).thenR K
        = .ok (res ++ bytesI (edifactOut (bs.drop off)).1, ((off + (edifactOut (bs.drop off)).2 : Nat) : Int), 0,
            res ++ bytesI (edifactOut (bs.drop off)).1) := by
  intro m
  induction m with
  | zero =>
    intro off res f hm hoff hf
    obtain ⟨f, rfl⟩ : ∃ k, f = k + 1 := ⟨f - 1, by omega⟩
    have hd : bs.drop off = [] := List.drop_eq_nil_of_le (by omega)
    rw [hd, whileLoop_succ, edi_body1_end F bs off (by omega)]
    simp [hK, edifactOut, bytesI]
  | succ m ih =>
    intro off res f hm hoff hf
    obtain ⟨f, rfl⟩ : ∃ k, f = k + 1 := ⟨f - 1, by omega⟩
    rw [whileLoop_succ]
    by_cases h0 : off = bs.length
    · have hd : bs.drop off = [] := List.drop_eq_nil_of_le (by omega)
      rw [hd, edi_body1_end F bs off (by omega)]
      simp [hK, edifactOut, bytesI]
    · by_cases h3 : bs.length ≤ off + 2
      · rw [edi_body1_few F bs off (by omega) h3]
        have hout : edifactOut (bs.drop off) = ([], 0) := by
          have hl : (bs.drop off).length ≤ 2 := by simp; omega
          match hdd : bs.drop off, hl with
          | [], _ => rfl
          | [_], _ => rfl
          | [_, _], _ => rfl
        simp [hout, bytesI]
      · have hlt : off + 2 < bs.length := by omega
        have hd : bs.drop off = bs[off] :: bs[off + 1] :: bs[off + 2] :: bs.drop (off + 3) := by
          rw [List.drop_eq_getElem_cons (by omega), List.drop_eq_getElem_cons (by omega), List.drop_eq_getElem_cons hlt]
        rw [edi_body1_quad F bs off hlt, edi_quad F hF bs hb off hlt, hd]
        unfold edifactOut
        cases hv : (ediVals (edifactUnpack bs[off] bs[off + 1] bs[off + 2]) 0).2 with
        | some i => simp
        | none =>
          simp only [next_thenC]
          rw [ih (off + 3) _ f (by omega) (by omega) (by omega)]
          simp [bytesI]
          omega

when_kernel Gzx.Gen.K02e.decodeEdifactSegment in
/-- `decodeEdifactSegment(bits, result)` on a byte-aligned source at byte `off` of `bs` = the model's `edifactSeg` on the
    remaining bytes, for every accumulator: the appended bytes are the characters the model pushes (6-bit values, `01`
    prefixed below 32), an unlatch value 31 skips the rest of its byte, fewer than three bytes are left to ASCII -/
theorem k_decodeEdifactSegment_eq (fuel : Nat) (bs : List Nat) (hb : ∀ b ∈ bs, b < 256) (off : Nat) (hoff : off ≤ bs.length)
    (hf : bs.length + 2 ≤ fuel) (result : List Int) (a : Acc) (n : Nat) :
    ∃ d k, edifactOut (bs.drop off) = (d, k) ∧ edifactSeg (bs.drop off) a n = (a.pushAll d, n + k) ∧
      Gen.K02e.decodeEdifactSegment fuel (bytesI bs) (off : Int) 0 result
        = .ok (result ++ bytesI d, ((off + k : Nat) : Int), 0, result ++ bytesI d) := by
  refine ⟨(edifactOut (bs.drop off)).1, (edifactOut (bs.drop off)).2, rfl, edifactSeg_eq_out _ _ _, ?_⟩
  have hk : Gen.K02e.decodeEdifactSegment fuel (bytesI bs) (off : Int) 0 result
      = (whileLoop (Gen.K02e.decodeEdifactSegment_body1 fuel (bytesI bs)) fuel ((off : Int), 0, result)).thenR
          (fun st => .ok (st.2.2, st.1, st.2.1, st.2.2)) := by
    unfold Gen.K02e.decodeEdifactSegment
    rfl
  rw [hk]
  exact edi_loop fuel (by omega) bs hb _ (fun _ _ _ => rfl) (bs.length - off) off result fuel (Nat.le_refl _) hoff (by omega)

when_kernel Gzx.Gen.K02e.decodeEdifactSegment in
/-- non-vacuity: "AB" + unlatch in the third value -/
example : Gen.K02e.decodeEdifactSegment 10 (bytesI [0x04, 0x27, 0xC0, 9]) 0 0 [] = .ok ([65, 66], 3, 0, [65, 66]) := by decide

end Gzx.Obligations.K02e
