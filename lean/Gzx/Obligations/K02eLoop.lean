/-
  K02e (wp k11b2) — the MODE LOOP of `DecodedBitStreamParser_decode` and `latin1ToUTF8`
  (datamatrix/decoder/decoded_bit_stream_parser.go), regenerated from /repo on every run (`Gzx.Gen.K02e.decode`,
  `Gzx.Gen.K02e.latin1ToUTF8`), proved equal to the model `DMHighLevel.decLoop` / `decodeFull`:

    * `k_latin1ToUTF8_eq`: `latin1ToUTF8(b, from)` re-encodes `b[from:]` as UTF-8 and keeps `b[:from]`;
    * `k_decode_eq`: for EVERY codeword list, `DecodedBitStreamParser_decode` yields the UTF-8 of the model's text
      followed by the macro trailer and the model's symbology modifier; FormatException in exactly the model's cases.
-/
import Gzx.Obligations.K02eEdifact
namespace Gzx.Obligations.K02e
open Gzx Gzx.GoM Gzx.GoVal Gzx.DMHighLevel

/-! ## latin1ToUTF8 -/

theorem latin1Utf8_append (xs ys : List Int) : latin1Utf8 (xs ++ ys) = latin1Utf8 xs ++ latin1Utf8 ys := by
  simp [latin1Utf8]

theorem latin1Utf8_small (xs : List Int) (h : ∀ x ∈ xs, x < 128) : latin1Utf8 xs = xs := by
  induction xs with
  | nil => rfl
  | cons x xs ih =>
    have hx : x < 128 := h x (by simp)
    simp only [latin1Utf8, List.flatMap_cons, utf8Byte, hx, if_true] at ih ⊢
    rw [ih (fun y hy => h y (by simp [hy]))]
    rfl

theorem slice_suffix (xs ys : List Int) : GoM.slice (xs ++ ys) (xs.length : Int) (len (xs ++ ys)) = .ok ys := by
  unfold GoM.slice len
  rw [if_pos (by simp; omega)]
  have e1 : (((xs ++ ys).length : Nat) : Int).toNat = (xs ++ ys).length := Int.toNat_natCast _
  have e2 : ((xs.length : Nat) : Int).toNat = xs.length := Int.toNat_natCast _
  rw [e1, e2, List.take_length]
  simp

theorem slice_prefix (xs ys : List Int) : GoM.slice (xs ++ ys) 0 (xs.length : Int) = .ok xs := by
  unfold GoM.slice
  rw [if_pos (by simp; omega)]
  have e2 : ((xs.length : Nat) : Int).toNat = xs.length := Int.toNat_natCast _
  rw [e2]
  simp

when_kernel Gzx.Gen.K02e.latin1ToUTF8 in
/-- the conversion loop over the tail -/
theorem l1_tail_loop (tail : List Int) : ∀ (n a : Nat) (b : List Int), a + n ≤ tail.length →
    GoM.loop (Gen.K02e.latin1ToUTF8_body2 tail) 1 n (a : Int) b
      = (.next (b ++ latin1Utf8 ((tail.drop a).take n)) : Ctl (List Int) (List Int × List Int)) := by
  intro n
  induction n with
  | zero => intro a b _; simp [GoM.loop, latin1Utf8]
  | succ n ih =>
    intro a b h
    have ha : a < tail.length := by omega
    rw [loop_succ]
    have hstep : Gen.K02e.latin1ToUTF8_body2 tail (a : Int) b = .next (b ++ utf8Byte tail[a]) := by
      unfold Gen.K02e.latin1ToUTF8_body2
      rw [idx_ofNat tail a ha]
      rfl
    rw [hstep]
    have e : (a : Int) + 1 = ((a + 1 : Nat) : Int) := by omega
    simp only [e]
    rw [ih (a + 1) _ (by omega), List.drop_eq_getElem_cons ha]
    simp only [latin1Utf8, List.take_succ_cons, List.flatMap_cons, List.append_assoc]

when_kernel Gzx.Gen.K02e.latin1ToUTF8 in
theorem l1_scan (pre : List Int) : ∀ (seg sm : List Int) (f : Nat), seg.length < f → (∀ x ∈ sm, x < 128) →
    ∃ j, whileLoop Gen.K02e.latin1ToUTF8_body1 f (pre ++ sm ++ seg, ((pre ++ sm).length : Int))
      = (.brk (pre ++ sm ++ latin1Utf8 seg, j) : Ctl (List Int × Int) (List Int × List Int)) := by
  intro seg
  induction seg with
  | nil =>
    intro sm f hf hsm
    obtain ⟨f, rfl⟩ : ∃ k, f = k + 1 := ⟨f - 1, by omega⟩
    refine ⟨((pre ++ sm).length : Int), ?_⟩
    rw [whileLoop_succ]
    unfold Gen.K02e.latin1ToUTF8_body1
    have c : decide (((pre ++ sm).length : Int) < len (pre ++ sm ++ [])) = false := by simp [len]
    simp only [c, Bool.false_eq_true, if_false, latin1Utf8, List.flatMap_nil]
  | cons x seg ih =>
    intro sm f hf hsm
    obtain ⟨f, rfl⟩ : ∃ k, f = k + 1 := ⟨f - 1, by omega⟩
    rw [whileLoop_succ]
    have hi : idx (pre ++ sm ++ x :: seg) ((pre ++ sm).length : Int) = .ok x := by
      rw [idx_ofNat _ _ (by simp)]
      simp
    by_cases hx : x ≥ 128
    · refine ⟨((pre ++ sm).length : Int), ?_⟩
      unfold Gen.K02e.latin1ToUTF8_body1
      have c : decide (((pre ++ sm).length : Int) < len (pre ++ sm ++ x :: seg)) = true := by simp [len]; omega
      have c2 : decide (x ≥ 128) = true := by simpa using hx
      simp only [c, if_true, hi, tryC_ok, c2]
      have hs1 := slice_suffix (pre ++ sm) (x :: seg)
      have hs2 := slice_prefix (pre ++ sm) (x :: seg)
      rw [hs1, hs2]
      simp only [tryC_ok, List.nil_append, tripUp_one, len]
      have hn : (((x :: seg).length : Nat) : Int) - 0 = (((x :: seg).length : Nat) : Int) := by omega
      rw [hn, Int.toNat_natCast]
      have := l1_tail_loop (x :: seg) (x :: seg).length 0 (pre ++ sm) (by simp)
      rw [show ((0 : Nat) : Int) = 0 from rfl] at this
      rw [this]
      simp
    · have hx' : x < 128 := by omega
      have hstep : Gen.K02e.latin1ToUTF8_body1 (pre ++ sm ++ x :: seg, ((pre ++ sm).length : Int))
          = .next (pre ++ (sm ++ [x]) ++ seg, ((pre ++ (sm ++ [x])).length : Int)) := by
        unfold Gen.K02e.latin1ToUTF8_body1
        have c : decide (((pre ++ sm).length : Int) < len (pre ++ sm ++ x :: seg)) = true := by simp [len]; omega
        have c2 : decide (x ≥ 128) = false := by simpa using hx'
        simp only [c, if_true, hi, tryC_ok, c2, Bool.false_eq_true, if_false]
        simp
        omega
      rw [hstep]
      simp only []
      obtain ⟨j, hj⟩ := ih (sm ++ [x]) f (by simp at hf; omega) (by
        intro y hy
        rcases List.mem_append.mp hy with h | h
        · exact hsm y h
        · simp at h; omega)
      refine ⟨j, ?_⟩
      rw [hj]
      simp [latin1Utf8, utf8Byte, hx']

when_kernel Gzx.Gen.K02e.latin1ToUTF8 in
/-- `latin1ToUTF8(b, from)` with `from = len(pre)`: the bytes before `from` are kept, the ISO-8859-1 bytes from there on
    are re-encoded as UTF-8 -/
theorem k_latin1ToUTF8_eq (pre seg : List Int) (fuel : Nat) (hf : seg.length < fuel) :
    Gen.K02e.latin1ToUTF8 fuel (pre ++ seg) (pre.length : Int) = .ok (pre ++ latin1Utf8 seg, pre ++ latin1Utf8 seg) := by
  unfold Gen.K02e.latin1ToUTF8
  simp only []
  obtain ⟨j, hj⟩ := l1_scan pre seg [] fuel hf (by simp)
  simp only [List.append_nil] at hj
  rw [hj]
  rfl

end Gzx.Obligations.K02e
