/-
  K02e (wp k11b2) — the MODE LOOP of `DecodedBitStreamParser_decode` and `latin1ToUTF8`
  (datamatrix/decoder/decoded_bit_stream_parser.go), regenerated from /repo on every run (`Gzx.Gen.K02e.decode`,
  `Gzx.Gen.K02e.latin1ToUTF8`), proved equal to the model `DMHighLevel.decLoop` / `decodeFull`:

    * `k_latin1ToUTF8_eq`: `latin1ToUTF8(b, from)` re-encodes `b[from:]` as UTF-8 and keeps `b[:from]`;
    * `k_decode_eq`: for EVERY codeword list, `DecodedBitStreamParser_decode` yields the UTF-8 of the model's text
      followed by the macro trailer and the model's symbology modifier; FormatException in exactly the model's cases.
-/
import Gzx.Obligations.K02eEdifact
namespace Gzx.Obligations.K02e
open Gzx Gzx.GoM Gzx.GoVal Gzx.DMHighLevel

/-! ## latin1ToUTF8 -/

theorem latin1Utf8_append (xs ys : List Int) : latin1Utf8 (xs ++ ys) = latin1Utf8 xs ++ latin1Utf8 ys := by
  simp [latin1Utf8]

theorem latin1Utf8_small (xs : List Int) (h : ∀ x ∈ xs, x < 128) : latin1Utf8 xs = xs := by
  induction xs with
  | nil => rfl
  | cons x xs ih =>
    have hx : x < 128 := h x (by simp)
    simp only [latin1Utf8, List.flatMap_cons, utf8Byte, hx, if_true] at ih ⊢
    rw [ih (fun y hy => h y (by simp [hy]))]
    rfl

theorem slice_suffix (xs ys : List Int) : GoM.slice (xs ++ ys) (xs.length : Int) (len (xs ++ ys)) = .ok ys := by
  unfold GoM.slice len
  rw [if_pos (by simp; omega)]
  have e1 : (((xs ++ ys).length : Nat) : Int).toNat = (xs ++ ys).length := Int.toNat_natCast _
  have e2 : ((xs.length : Nat) : Int).toNat = xs.length := Int.toNat_natCast _
  rw [e1, e2, List.take_length]
  simp

theorem slice_prefix (xs ys : List Int) : GoM.slice (xs ++ ys) 0 (xs.length : Int) = .ok xs := by
  unfold GoM.slice
  rw [if_pos (by simp; omega)]
  have e2 : ((xs.length : Nat) : Int).toNat = xs.length := Int.toNat_natCast _
  rw [e2]
  simp

when_kernel Gzx.Gen.K02e.latin1ToUTF8 in
/-- the conversion loop over the tail -/
theorem l1_tail_loop (tail : List Int) : ∀ (n a : Nat) (b : List Int), a + n ≤ tail.length →
    GoM.loop (Gen.K02e.latin1ToUTF8_body2 tail) 1 n (a : Int) b
      = (.next (b ++ latin1Utf8 ((tail.drop a).take n)) : Ctl (List Int) (List Int × List Int)) := by
  intro n
  induction n with
  | zero => intro a b _; simp [GoM.loop, latin1Utf8]
  | succ n ih =>
    intro a b h
    have ha : a < tail.length := by omega
    rw [loop_succ]
    have hstep : Gen.K02e.latin1ToUTF8_body2 tail (a : Int) b = .next (b ++ utf8Byte tail[a]) := by
      unfold Gen.K02e.latin1ToUTF8_body2
      rw [idx_ofNat tail a ha]
      rfl
    rw [hstep]
    have e : (a : Int) + 1 = ((a + 1 : Nat) : Int) := by omega
    simp only [e]
    rw [ih (a + 1) _ (by omega), List.drop_eq_getElem_cons ha]
    simp only [latin1Utf8, List.take_succ_cons, List.flatMap_cons, List.append_assoc]

when_kernel Gzx.Gen.K02e.latin1ToUTF8 in
theorem l1_scan (pre : List Int) : ∀ (seg sm : List Int) (f : Nat), seg.length < f → (∀ x ∈ sm, x < 128) →
    ∃ j, whileLoop Gen.K02e.latin1ToUTF8_body1 f (pre ++ sm ++ seg, ((pre ++ sm).length : Int))
      = (.brk (pre ++ sm ++ latin1Utf8 seg, j) : Ctl (List Int × Int) (List Int × List Int)) := by
  intro seg
  induction seg with
  | nil =>
    intro sm f hf hsm
    obtain ⟨f, rfl⟩ : ∃ k, f = k + 1 := ⟨f - 1, by omega⟩
    refine ⟨((pre ++ sm).length : Int), ?_⟩
    rw [whileLoop_succ]
    unfold Gen.K02e.latin1ToUTF8_body1
    have c : decide (((pre ++ sm).length : Int) < len (pre ++ sm ++ [])) = false := by simp [len]
    simp only [c, Bool.false_eq_true, if_false, latin1Utf8, List.flatMap_nil]
  | cons x seg ih =>
    intro sm f hf hsm
    obtain ⟨f, rfl⟩ : ∃ k, f = k + 1 := ⟨f - 1, by omega⟩
    rw [whileLoop_succ]
    have hi : idx (pre ++ sm ++ x :: seg) ((pre ++ sm).length : Int) = .ok x := by
      rw [idx_ofNat _ _ (by simp)]
      simp
    by_cases hx : x ≥ 128
    · refine ⟨((pre ++ sm).length : Int), ?_⟩
      unfold Gen.K02e.latin1ToUTF8_body1
      have c : decide (((pre ++ sm).length : Int) < len (pre ++ sm ++ x :: seg)) = true := by simp [len]; omega
      have c2 : decide (x ≥ 128) = true := by simpa using hx
      simp only [c, if_true, hi, tryC_ok, c2]
      have hs1 := slice_suffix (pre ++ sm) (x :: seg)
      have hs2 := slice_prefix (pre ++ sm) (x :: seg)
      rw [hs1, hs2]
      simp only [tryC_ok, List.nil_append, tripUp_one, len]
      have hn : (((x :: seg).length : Nat) : Int) - 0 = (((x :: seg).length : Nat) : Int) := by omega
      rw [hn, Int.toNat_natCast]
      have := l1_tail_loop (x :: seg) (x :: seg).length 0 (pre ++ sm) (by simp)
      rw [show ((0 : Nat) : Int) = 0 from rfl] at this
      rw [this]
      simp
    · have hx' : x < 128 := by omega
      have hstep : Gen.K02e.latin1ToUTF8_body1 (pre ++ sm ++ x :: seg, ((pre ++ sm).length : Int))
          = .next (pre ++ (sm ++ [x]) ++ seg, ((pre ++ (sm ++ [x])).length : Int)) := by
        unfold Gen.K02e.latin1ToUTF8_body1
        have c : decide (((pre ++ sm).length : Int) < len (pre ++ sm ++ x :: seg)) = true := by simp [len]; omega
        have c2 : decide (x ≥ 128) = false := by simpa using hx'
        simp only [c, if_true, hi, tryC_ok, c2, Bool.false_eq_true, if_false]
        simp
        omega
      rw [hstep]
      simp only []
      obtain ⟨j, hj⟩ := ih (sm ++ [x]) f (by simp at hf; omega) (by
        intro y hy
        rcases List.mem_append.mp hy with h | h
        · exact hsm y h
        · simp at h; omega)
      refine ⟨j, ?_⟩
      rw [hj]
      simp [latin1Utf8, utf8Byte, hx']

when_kernel Gzx.Gen.K02e.latin1ToUTF8 in
/-- `latin1ToUTF8(b, from)` with `from = len(pre)`: the bytes before `from` are kept, the ISO-8859-1 bytes from there on
    are re-encoded as UTF-8 -/
theorem k_latin1ToUTF8_eq (pre seg : List Int) (fuel : Nat) (hf : seg.length < fuel) :
    Gen.K02e.latin1ToUTF8 fuel (pre ++ seg) (pre.length : Int) = .ok (pre ++ latin1Utf8 seg, pre ++ latin1Utf8 seg) := by
  unfold Gen.K02e.latin1ToUTF8
  simp only []
  obtain ⟨j, hj⟩ := l1_scan pre seg [] fuel hf (by simp)
  simp only [List.append_nil] at hj
  rw [hj]
  rfl

/-! ## the Go state against the model's accumulator -/

/-- number of extended characters (two UTF-8 bytes each) -/
def cnt128 (d : List Nat) : Nat := (d.filter (fun c => decide (c ≥ 128))).length

theorem cnt128_append (xs ys : List Nat) : cnt128 (xs ++ ys) = cnt128 xs + cnt128 ys := by simp [cnt128]

theorem latin1Utf8_length (d : List Nat) : (latin1Utf8 (bytesI d)).length = d.length + cnt128 d := by
  induction d with
  | nil => rfl
  | cons c d ih =>
    have hc : cnt128 (c :: d) = (if c ≥ 128 then 1 else 0) + cnt128 d := by
      unfold cnt128; by_cases h : c ≥ 128 <;> simp [h] <;> omega
    simp only [bytesI, List.map_cons, latin1Utf8, List.flatMap_cons, List.length_append] at ih ⊢
    rw [ih, hc]
    by_cases h : c ≥ 128
    · have : ¬ ((c : Int) < 128) := by omega
      simp [utf8Byte, this, h]; omega
    · have : ((c : Int) < 128) := by omega
      simp [utf8Byte, this, h]; omega

theorem latin1Utf8_small_nat (d : List Nat) (h : cnt128 d = 0) : latin1Utf8 (bytesI d) = bytesI d := by
  apply latin1Utf8_small
  intro x hx
  simp only [bytesI, List.mem_map] at hx
  obtain ⟨c, hc, rfl⟩ := hx
  have : ¬ c ≥ 128 := by
    intro hge
    have : c ∈ d.filter (fun c => decide (c ≥ 128)) := by simp [hc, hge]
    unfold cnt128 at h
    have := List.length_pos_of_mem this
    omega
  show ((c : Nat) : Int) < 128
  omega

/-- the Go state `(result, resultTrailer, fnc1Positions, isECIencoded)` at a segment boundary -/
structure Rel (res tr fn : List Int) (eci : Bool) (a : Acc) : Prop where
  hres : res = latin1Utf8 (bytesI a.rev.reverse)
  hulen : a.ulen = res.length
  hpend : a.pend = 0
  htr : tr = bytesI a.trailer
  hfn : fn = bytesI a.fnc1
  heci : eci = a.eci

/-- the Go state inside a (non Base 256) segment that started in `(res0, a0)` and has appended the characters `d` -/
structure SegRel (res0 : List Int) (a0 : Acc) (d : List Nat) (res tr fn : List Int) (a : Acc) : Prop where
  hres : res = res0 ++ bytesI d
  hrev : a.rev = d.reverse ++ a0.rev
  hpend : a.pend = cnt128 d
  hulen : a.ulen = res.length
  htr : tr = bytesI a.trailer
  hfn : fn = bytesI a.fnc1
  heci : a.eci = a0.eci

theorem Rel.seg {res tr fn : List Int} {eci : Bool} {a : Acc} (h : Rel res tr fn eci a) : SegRel res a [] res tr fn a :=
  ⟨by simp [bytesI], by simp, by simp [h.hpend, cnt128], h.hulen, h.htr, h.hfn, rfl⟩

theorem SegRel.push {res0 : List Int} {a0 : Acc} {d : List Nat} {res tr fn : List Int} {a : Acc}
    (h : SegRel res0 a0 d res tr fn a) (c : Nat) : SegRel res0 a0 (d ++ [c]) (res ++ [(c : Int)]) tr fn (a.push c) := by
  refine ⟨?_, ?_, ?_, ?_, h.htr, h.hfn, h.heci⟩
  · simp [h.hres, bytesI]
  · simp [Acc.push, h.hrev]
  · simp only [Acc.push, h.hpend, cnt128_append]
    congr 1
    unfold cnt128; by_cases hc : c ≥ 128 <;> simp [hc]
  · simp [Acc.push, h.hulen]

theorem SegRel.pushAll {res0 : List Int} {a0 : Acc} : ∀ (cs : List Nat) {d : List Nat} {res tr fn : List Int} {a : Acc},
    SegRel res0 a0 d res tr fn a → SegRel res0 a0 (d ++ cs) (res ++ bytesI cs) tr fn (a.pushAll cs)
  | [], d, res, tr, fn, a, h => by simpa [bytesI, Acc.pushAll] using h
  | c :: cs, d, res, tr, fn, a, h => by
    have := SegRel.pushAll cs (h.push c)
    simpa [bytesI, Acc.pushAll, List.append_assoc] using this

theorem SegRel.fnc {res0 : List Int} {a0 : Acc} {d : List Nat} {res tr fn : List Int} {a : Acc}
    (h : SegRel res0 a0 d res tr fn a) : SegRel res0 a0 (d ++ [29]) (res ++ [29]) tr (fn ++ [(res.length : Int)]) a.fnc := by
  have hp := (show SegRel res0 a0 d res tr (fn ++ [(res.length : Int)]) { a with fnc1 := a.fnc1 ++ [a.ulen] } from
    ⟨h.hres, h.hrev, h.hpend, h.hulen, h.htr, by simp [h.hfn, bytesI, h.hulen], h.heci⟩).push 29
  simpa [Acc.fnc] using hp

def emitChars : Emit → List Nat
  | .none => []
  | .char c => [c]
  | .fnc1 => [29]

theorem SegRel.emit {res0 : List Int} {a0 : Acc} {d : List Nat} {res tr fn : List Int} {a : Acc}
    (h : SegRel res0 a0 d res tr fn a) (e : Emit) :
    SegRel res0 a0 (d ++ emitChars e) (emitK (res, fn) e).1 tr (emitK (res, fn) e).2 (a.emit e) := by
  cases e with
  | none => simpa [emitChars, emitK, Acc.emit] using h
  | char c => exact h.push c
  | fnc1 => exact h.fnc

theorem SegRel.emits {res0 : List Int} {a0 : Acc} {tr : List Int} : ∀ (es : List Emit) {d : List Nat} {res fn : List Int} {a : Acc},
    SegRel res0 a0 d res tr fn a →
    SegRel res0 a0 (d ++ es.flatMap emitChars) (emitsK (res, fn) es).1 tr (emitsK (res, fn) es).2 (Acc.emits a es)
  | [], d, res, fn, a, h => by simpa [emitsK, Acc.emits] using h
  | e :: es, d, res, fn, a, h => by
    have h2 := SegRel.emits es (h.emit e)
    simpa [emitsK, Acc.emits, List.append_assoc] using h2

/-- the end of a segment: `latin1ToUTF8` on the Go side, `endSeg` on the model's -/
theorem SegRel.endSeg {res0 : List Int} {a0 : Acc} {d : List Nat} {res tr fn : List Int} {a : Acc} {tr0 fn0 : List Int} {eci : Bool}
    (h0 : Rel res0 tr0 fn0 eci a0) (h : SegRel res0 a0 d res tr fn a) :
    Rel (res0 ++ latin1Utf8 (bytesI d)) tr fn eci a.endSeg := by
  refine ⟨?_, ?_, rfl, h.htr, h.hfn, ?_⟩
  · simp only [Acc.endSeg, h.hrev, List.reverse_append, List.reverse_reverse, bytesI, List.map_append, latin1Utf8_append]
    rw [h0.hres]
  · simp only [Acc.endSeg, h.hulen, h.hpend, h.hres, List.length_append, latin1Utf8_length]
    simp [bytesI]; omega
  · simp [Acc.endSeg, h.heci, h0.heci]

theorem endSeg_of_pend0 (a : Acc) (h : a.pend = 0) : a.endSeg = a := by
  cases a; simp_all [Acc.endSeg]

/-- a segment of characters below 128 needs no conversion -/
theorem SegRel.toRel {res0 : List Int} {a0 : Acc} {d : List Nat} {res tr fn : List Int} {a : Acc} {tr0 fn0 : List Int} {eci : Bool}
    (h0 : Rel res0 tr0 fn0 eci a0) (h : SegRel res0 a0 d res tr fn a) (hs : cnt128 d = 0) : Rel res tr fn eci a := by
  have := h.endSeg h0
  rw [latin1Utf8_small_nat d hs, ← h.hres, endSeg_of_pend0 a (by rw [h.hpend, hs])] at this
  exact this

/-! ### the ASCII segment's events -/

def evChars : AEv → List Nat
  | .chars cs => cs
  | .fnc1 => [29]
  | .macroH n => macroHeader n

theorem SegRel.aev {res0 : List Int} {a0 : Acc} {d : List Nat} {res tr fn : List Int} {a : Acc}
    (h : SegRel res0 a0 d res tr fn a) (e : AEv) :
    SegRel res0 a0 (d ++ evChars e) (aevK (res, tr, fn) e).1 (aevK (res, tr, fn) e).2.1 (aevK (res, tr, fn) e).2.2 (Acc.aev a e) := by
  cases e with
  | chars cs => exact h.pushAll cs
  | fnc1 => exact h.fnc
  | macroH n =>
    have hp := h.pushAll (macroHeader n)
    refine ⟨hp.hres, ?_, ?_, ?_, ?_, ?_, ?_⟩
    · simpa [Acc.aev, evChars] using hp.hrev
    · simpa [Acc.aev, evChars] using hp.hpend
    · simpa [Acc.aev, aevK] using hp.hulen
    · have := hp.htr
      simp [Acc.aev, aevK, bytesI] at this ⊢
      exact this
    · simpa [Acc.aev, aevK] using hp.hfn
    · simpa [Acc.aev] using hp.heci

theorem SegRel.aevs {res0 : List Int} {a0 : Acc} : ∀ (es : List AEv) {d : List Nat} {res tr fn : List Int} {a : Acc},
    SegRel res0 a0 d res tr fn a →
    SegRel res0 a0 (d ++ es.flatMap evChars) (aevsK (res, tr, fn) es).1 (aevsK (res, tr, fn) es).2.1 (aevsK (res, tr, fn) es).2.2
      (Acc.aevs a es)
  | [], d, res, tr, fn, a, h => by simpa [aevsK, Acc.aevs] using h
  | e :: es, d, res, tr, fn, a, h => by
    have h2 := SegRel.aevs es (h.aev e)
    simpa [aevsK, Acc.aevs, List.append_assoc] using h2

/-! ### facts about `asciiOut` -/

theorem cnt128_digitPair (v : Nat) (hv : v < 100) : cnt128 (digitPair v) = 0 := by
  unfold digitPair itoa2 cnt128
  by_cases h : v < 10
  · simp [h]; omega
  · simp [h]; omega

/-- what `asciiOut` answers: only FormatException as error; a mode 0..7; at least one byte consumed from a non-empty
    input; and only a return in ASCII mode (after a shifted character) can leave an extended character behind -/
theorem asciiOut_facts : ∀ (bs : List Nat) (up : Bool),
    match asciiOut bs up with
    | .error e => e = .format
    | .ok (m, es, k) => m ≤ 7 ∧ (bs ≠ [] → 1 ≤ k) ∧ (m ≠ 1 → cnt128 (es.flatMap evChars) = 0)
  | [], up => by simp [asciiOut]
  | b :: rest, up => by
    have ih := fun up' => asciiOut_facts rest up'
    have cont : ∀ (e : Option AEv) (up' : Bool), (∀ e', e = some e' → cnt128 (evChars e') = 0) →
        match aCons e (asciiOut rest up') with
        | .error e => e = .format
        | .ok (m, es, k) => m ≤ 7 ∧ (b :: rest ≠ [] → 1 ≤ k) ∧ (m ≠ 1 → cnt128 (es.flatMap evChars) = 0) := by
      intro e up' he
      have := ih up'
      cases hr : asciiOut rest up' with
      | error f => rw [hr] at this; simpa [aCons] using this
      | ok p =>
        obtain ⟨m, es, k⟩ := p
        rw [hr] at this
        obtain ⟨h1, _, h3⟩ := this
        cases e with
        | none => exact ⟨h1, fun _ => by omega, h3⟩
        | some e' =>
          refine ⟨h1, fun _ => by omega, fun hm => ?_⟩
          simp only [List.flatMap_cons, cnt128_append, he e' rfl, h3 hm]
    unfold asciiOut
    by_cases c0 : b = 0
    · simp [c0]
    simp only [c0, if_false]
    by_cases c128 : b ≤ 128
    · simp [c128]
    simp only [c128, if_false]
    by_cases c129 : b = 129
    · simp [c129, cnt128]
    simp only [c129, if_false]
    by_cases c229 : b ≤ 229
    · simp only [c229, if_true]
      exact cont _ up (fun e' he => by cases he; exact cnt128_digitPair _ (by omega))
    simp only [c229, if_false]
    by_cases c230 : b = 230
    · simp [c230, cnt128]
    simp only [c230, if_false]
    by_cases c231 : b = 231
    · simp [c231, cnt128]
    simp only [c231, if_false]
    by_cases c232 : b = 232
    · simp only [if_pos c232]
      exact cont _ up (fun e' he => by cases he; rfl)
    simp only [c232, if_false]
    by_cases c233 : b = 233 ∨ b = 234
    · simp only [if_pos c233]
      exact cont none up (fun e' he => by cases he)
    simp only [c233, if_false]
    by_cases c235 : b = 235
    · simp only [if_pos c235]
      exact cont none true (fun e' he => by cases he)
    simp only [c235, if_false]
    by_cases c236 : b = 236
    · simp only [if_pos c236]
      exact cont _ up (fun e' he => by cases he; rfl)
    simp only [c236, if_false]
    by_cases c237 : b = 237
    · simp only [if_pos c237]
      exact cont _ up (fun e' he => by cases he; rfl)
    simp only [c237, if_false]
    by_cases c238 : b = 238
    · simp [c238, cnt128]
    simp only [c238, if_false]
    by_cases c239 : b = 239
    · simp [c239, cnt128]
    simp only [c239, if_false]
    by_cases c240 : b = 240
    · simp [c240, cnt128]
    simp only [c240, if_false]
    by_cases c241 : b = 241
    · simp [c241, cnt128]
    simp only [c241, if_false]
    by_cases cbad : b ≠ 254 ∨ (!rest.isEmpty) = true
    · simp only [if_pos cbad]
    · simp only [if_neg cbad]
      exact cont none up (fun e' he => by cases he)

/-! ### how much a segment can append (the fuel of `latin1ToUTF8`'s scan) -/

theorem digitPair_length (v : Nat) : (digitPair v).length ≤ 2 := by
  unfold digitPair itoa2; by_cases h : v < 10 <;> simp [h]

theorem asciiOut_len : ∀ (bs : List Nat) (up : Bool),
    match asciiOut bs up with
    | .error _ => True
    | .ok (_, es, k) => (es.flatMap evChars).length ≤ 7 * k ∧ k ≤ bs.length
  | [], up => by simp [asciiOut]
  | b :: rest, up => by
    have ih := fun up' => asciiOut_len rest up'
    have cont : ∀ (e : Option AEv) (up' : Bool), (∀ e', e = some e' → (evChars e').length ≤ 7) →
        match aCons e (asciiOut rest up') with
        | .error _ => True
        | .ok (_, es, k) => (es.flatMap evChars).length ≤ 7 * k ∧ k ≤ (b :: rest).length := by
      intro e up' he
      have := ih up'
      cases hr : asciiOut rest up' with
      | error f => simp [aCons]
      | ok p =>
        obtain ⟨m, es, k⟩ := p
        rw [hr] at this
        obtain ⟨h1, h2⟩ := this
        cases e with
        | none => simp only [aCons, List.length_cons]; omega
        | some e' =>
          have := he e' rfl
          simp only [aCons, List.flatMap_cons, List.length_append, List.length_cons]; omega
    unfold asciiOut
    by_cases c0 : b = 0
    · simp [c0]
    simp only [c0, if_false]
    by_cases c128 : b ≤ 128
    · simp [c128, evChars]
    simp only [c128, if_false]
    by_cases c129 : b = 129
    · simp [c129]
    simp only [c129, if_false]
    by_cases c229 : b ≤ 229
    · simp only [c229, if_true]
      exact cont _ up (fun e' he => by cases he; have := digitPair_length (b - 130); simp [evChars]; omega)
    simp only [c229, if_false]
    by_cases c230 : b = 230
    · simp [c230]
    simp only [c230, if_false]
    by_cases c231 : b = 231
    · simp [c231]
    simp only [c231, if_false]
    by_cases c232 : b = 232
    · simp only [if_pos c232]
      exact cont _ up (fun e' he => by cases he; simp [evChars])
    simp only [c232, if_false]
    by_cases c233 : b = 233 ∨ b = 234
    · simp only [if_pos c233]
      exact cont none up (fun e' he => by cases he)
    simp only [c233, if_false]
    by_cases c235 : b = 235
    · simp only [if_pos c235]
      exact cont none true (fun e' he => by cases he)
    simp only [c235, if_false]
    by_cases c236 : b = 236
    · simp only [if_pos c236]
      exact cont _ up (fun e' he => by cases he; simp [evChars, macroHeader])
    simp only [c236, if_false]
    by_cases c237 : b = 237
    · simp only [if_pos c237]
      exact cont _ up (fun e' he => by cases he; simp [evChars, macroHeader])
    simp only [c237, if_false]
    by_cases c238 : b = 238
    · simp [c238]
    simp only [c238, if_false]
    by_cases c239 : b = 239
    · simp [c239]
    simp only [c239, if_false]
    by_cases c240 : b = 240
    · simp [c240]
    simp only [c240, if_false]
    by_cases c241 : b = 241
    · simp [c241]
    simp only [c241, if_false]
    by_cases cbad : b ≠ 254 ∨ (!rest.isEmpty) = true
    · simp only [if_pos cbad]
    · simp only [if_neg cbad]
      exact cont none up (fun e' he => by cases he)

theorem emitChars_length (e : Emit) : (emitChars e).length ≤ 1 := by cases e <;> simp [emitChars]

theorem cOut_len (T : Tables) (text : Bool) : ∀ (bs : List Nat) (st : CState),
    match cOut T text bs st with
    | .error _ => True
    | .ok (es, n) => (es.flatMap emitChars).length ≤ 2 * n ∧ n ≤ bs.length
  | [], st => by simp [cOut]
  | [_], st => by simp [cOut]
  | b1 :: b2 :: rest, st => by
    unfold cOut
    by_cases h : b1 = 254
    · simp [h]
    · simp only [h, if_false]
      cases cValueCore T text (parseTwoBytes b1 b2).1 st with
      | error e => trivial
      | ok p1 =>
        obtain ⟨st1, e1⟩ := p1
        simp only []
        cases cValueCore T text (parseTwoBytes b1 b2).2.1 st1 with
        | error e => trivial
        | ok p2 =>
          obtain ⟨st2, e2⟩ := p2
          simp only []
          cases cValueCore T text (parseTwoBytes b1 b2).2.2 st2 with
          | error e => trivial
          | ok p3 =>
            obtain ⟨st3, e3⟩ := p3
            simp only []
            have := cOut_len T text rest st3
            cases hr : cOut T text rest st3 with
            | error e => trivial
            | ok p =>
              obtain ⟨es, n⟩ := p
              rw [hr] at this
              have h1 := emitChars_length e1
              have h2 := emitChars_length e2
              have h3 := emitChars_length e3
              simp only [List.flatMap_cons, List.length_append, List.length_cons]
              omega

theorem x12Out_len : ∀ (bs : List Nat),
    match x12Out bs with
    | .error _ => True
    | .ok (d, n) => d.length ≤ 2 * n ∧ n ≤ bs.length
  | [] => by simp [x12Out]
  | [_] => by simp [x12Out]
  | b1 :: b2 :: rest => by
    unfold x12Out
    by_cases h : b1 = 254
    · simp [h]
    · simp only [h, if_false]
      cases x12Value (parseTwoBytes b1 b2).1 with
      | error e => trivial
      | ok x1 =>
        simp only []
        cases x12Value (parseTwoBytes b1 b2).2.1 with
        | error e => trivial
        | ok x2 =>
          simp only []
          cases x12Value (parseTwoBytes b1 b2).2.2 with
          | error e => trivial
          | ok x3 =>
            simp only []
            have := x12Out_len rest
            cases hr : x12Out rest with
            | error e => trivial
            | ok p =>
              obtain ⟨d, n⟩ := p
              rw [hr] at this
              simp only [List.length_cons]
              omega

theorem ediVals_len : ∀ (vs : List Nat) (i : Nat), (ediVals vs i).1.length ≤ vs.length ∧
    (∀ j, (ediVals vs i).2 = some j → (ediVals vs i).1.length + i = j)
  | [], i => by simp [ediVals]
  | v :: vs, i => by
    unfold ediVals
    by_cases h : v = 31
    · simp [h]
    · simp only [h, if_false, List.length_cons]
      have := ediVals_len vs (i + 1)
      refine ⟨by omega, fun j hj => ?_⟩
      have := this.2 j hj
      omega

theorem edifactOut_len : ∀ (bs : List Nat), (edifactOut bs).1.length ≤ 2 * (edifactOut bs).2 ∧ (edifactOut bs).2 ≤ bs.length
  | [] => by simp [edifactOut]
  | [_] => by simp [edifactOut]
  | [_, _] => by simp [edifactOut]
  | b1 :: b2 :: b3 :: rest => by
    unfold edifactOut
    have hv := ediVals_len (edifactUnpack b1 b2 b3) 0
    have hl : (edifactUnpack b1 b2 b3).length = 4 := by simp [edifactUnpack]
    cases h : (ediVals (edifactUnpack b1 b2 b3) 0).2 with
    | some i =>
      have := hv.2 i h
      simp only [List.length_cons]
      by_cases h0 : i = 0
      · simp [h0]; omega
      · by_cases h1 : i = 1
        · simp [h1]; omega
        · simp [h0, h1]; omega
    | none =>
      have := edifactOut_len rest
      simp only [List.length_append, List.length_cons]
      omega

/-! ### the skip counter of the fused model loop -/

theorem decLoop_skip (T : Tables) : ∀ (bs : List Nat) (n : Nat) (up : Bool) (off : Nat) (a : Acc),
    decLoop T bs n up off a = decLoop T (bs.drop n) 0 up (off + n) a
  | bs, 0, up, off, a => by simp
  | [], n + 1, up, off, a => by simp [decLoop]
  | b :: rest, n + 1, up, off, a => by
    rw [decLoop, decLoop_skip T rest n up (off + 1) a]
    simp [Nat.add_assoc, Nat.add_comm 1 n]

/-! ### Base 256 appends UTF-8 at once -/

theorem Rel.push256All {tr fn : List Int} {eci : Bool} : ∀ (d : List Nat) {res : List Int} {a : Acc}, Rel res tr fn eci a →
    Rel (res ++ latin1Utf8 (bytesI d)) tr fn eci (Acc.push256All a d)
  | [], res, a, h => by simpa [bytesI, latin1Utf8, Acc.push256All] using h
  | c :: d, res, a, h => by
    have h1 : Rel (res ++ latin1Utf8 (bytesI [c])) tr fn eci (a.push256 c) := by
      refine ⟨?_, ?_, h.hpend, h.htr, h.hfn, h.heci⟩
      · simp [Acc.push256, bytesI, latin1Utf8_append, h.hres]
      · have := latin1Utf8_length [c]
        simp only [Acc.push256, h.hulen, List.length_append, this]
        by_cases hc : c ≥ 128 <;> simp [hc, cnt128]
    have := Rel.push256All d h1
    have e : res ++ latin1Utf8 (bytesI (c :: d)) = (res ++ latin1Utf8 (bytesI [c])) ++ latin1Utf8 (bytesI d) := by
      rw [show bytesI (c :: d) = bytesI [c] ++ bytesI d from rfl, latin1Utf8_append, List.append_assoc]
    rw [e]
    exact this

/-! ## the mode loop -/

abbrev SD := Int × Int × List Int × List Int × List (List Int) × Int × List Int × Bool
abbrev RD := List Int × List (List Int) × Int × Bool × Int × Int

/-- how the regenerated loop ends, for an outcome of the model -/
def LoopOut (c : Ctl SD RD) : Res Acc → Prop
  | .ok a' => ∃ bo res tr segs mode fn eci, c = .brk (bo, 0, res, tr, segs, mode, fn, eci) ∧ Rel res tr fn eci a'
  | .error .format => ∃ bo bi, c = .ret ([], [], 0, true, bo, bi)
  | .error _ => c = .panic oob

theorem afterAscii_one (T : Tables) (rest : List Nat) (off : Nat) (a : Acc) :
    afterAscii T 1 rest off a = decLoop T rest 0 false off a.endSeg := by simp [afterAscii]

theorem afterAscii_nil (T : Tables) (mode off : Nat) (a : Acc) (hp : a.pend = 0) (hm : mode ≤ 7) :
    (afterAscii T mode [] off a).map Acc.endSeg = .ok a := by
  have ha := endSeg_of_pend0 a hp
  unfold afterAscii
  have : mode = 0 ∨ mode = 1 ∨ mode = 2 ∨ mode = 3 ∨ mode = 4 ∨ mode = 5 ∨ mode = 6 ∨ mode = 7 := by omega
  rcases this with h | h | h | h | h | h | h | h <;> subst h <;>
    simp [cSeg, x12Seg, edifactSeg, decLoop, Except.map, endSeg_endSeg, ha]

when_kernel Gzx.Gen.K02e.decode in
/-- the loop ends: PAD mode, or no byte left -/
theorem decode_exit (T : Tables) (F : Nat) (bs : List Nat) (mode off : Nat) (hm : mode ≤ 7) (h : mode = 0 ∨ bs.length ≤ off)
    (res tr : List Int) (segs : List (List Int)) (fn : List Int) (eci : Bool) (a : Acc) (hR : Rel res tr fn eci a) (f : Nat) :
    LoopOut (whileLoop (Gen.K02e.decode_body1 F (bytesI bs)) (f + 1) ((off : Int), 0, res, tr, segs, (mode : Int), fn, eci))
      ((afterAscii T mode (bs.drop off) off a).map Acc.endSeg) := by
  rw [whileLoop_succ]
  have hbody : Gen.K02e.decode_body1 F (bytesI bs) ((off : Int), 0, res, tr, segs, (mode : Int), fn, eci)
      = .brk ((off : Int), 0, res, tr, segs, (mode : Int), fn, eci) := by
    unfold Gen.K02e.decode_body1
    simp only [k_available_eq, tryC_ok, bytesI_length]
    by_cases hm0 : mode = 0
    · have c1 : (((mode : Nat) : Int) != 0) = false := by simp [hm0]
      simp only [c1, Bool.false_eq_true, if_false]
    · have c1 : (((mode : Nat) : Int) != 0) = true := by simp; omega
      have c2 : decide (8 * ((bs.length : Int) - (off : Int)) - 0 > 0) = false := by simp; omega
      simp only [c1, c2, if_true, Bool.false_eq_true, if_false]
  rw [hbody]
  have hmodel : (afterAscii T mode (bs.drop off) off a).map Acc.endSeg = .ok a := by
    rcases h with h | h
    · subst h
      simp [afterAscii, Except.map, endSeg_of_pend0 a hR.hpend]
    · rw [List.drop_eq_nil_of_le h]
      exact afterAscii_nil T mode off a hR.hpend hm
  rw [hmodel]
  exact ⟨_, _, _, _, _, _, _, rfl, hR⟩

when_kernel Gzx.Gen.K02e.decode in
theorem decode_loop (T : Tables) (hT : TablesAgree T) (F : Nat) (bs : List Nat) (hb : ∀ b ∈ bs, b < 256) (hF : 7 * bs.length + 2 ≤ F) :
    ∀ (μ mode off : Nat) (res tr : List Int) (segs : List (List Int)) (fn : List Int) (eci : Bool) (a : Acc) (f : Nat),
      mode ≤ 7 → Rel res tr fn eci a → 2 * (bs.length - off) + (if mode = 1 then 0 else 1) ≤ μ → μ < f →
      LoopOut (whileLoop (Gen.K02e.decode_body1 F (bytesI bs)) f ((off : Int), 0, res, tr, segs, (mode : Int), fn, eci))
        ((afterAscii T mode (bs.drop off) off a).map Acc.endSeg) := by
  intro μ
  induction μ with
  | zero =>
    intro mode off res tr segs fn eci a f hm7 hR hμ hf
    obtain ⟨f, rfl⟩ : ∃ k, f = k + 1 := ⟨f - 1, by omega⟩
    exact decode_exit T F bs mode off hm7 (Or.inr (by omega)) res tr segs fn eci a hR f
  | succ μ ih =>
    intro mode off res tr segs fn eci a f hm7 hR hμ hf
    obtain ⟨f, rfl⟩ : ∃ k, f = k + 1 := ⟨f - 1, by omega⟩
    by_cases hex : mode = 0 ∨ bs.length ≤ off
    · exact decode_exit T F bs mode off hm7 hex res tr segs fn eci a hR f
    have hm0 : mode ≠ 0 := fun h => hex (Or.inl h)
    have hlt : off < bs.length := by
      have : ¬ bs.length ≤ off := fun h => hex (Or.inr h)
      omega
    have ihf := fun mode off res tr segs fn eci a h0 h1 h2 => ih mode off res tr segs fn eci a f h0 h1 h2 (by omega)
    rw [whileLoop_succ]
    generalize whileLoop (Gen.K02e.decode_body1 F (bytesI bs)) f = W at ihf ⊢
    unfold Gen.K02e.decode_body1
    simp only [k_available_eq, tryC_ok, bytesI_length]
    have c1 : (((mode : Nat) : Int) != 0) = true := by simp; omega
    have c2 : decide (8 * ((bs.length : Int) - (off : Int)) - 0 > 0) = true := by simp; omega
    simp only [c1, c2, if_true]
    by_cases h1 : mode = 1
    · -- ASCII
      subst h1
      have cm : ((((1 : Nat) : Int)) == 1) = true := by decide
      have cl : ((((1 : Nat) : Int)) != 6) = true := by decide
      simp only [cm, cl, if_true]
      have hA := k_decodeAsciiSegment_eq F bs hb off (by omega) (by omega) res tr fn
      have hlen := asciiOut_len (bs.drop off) false
      have hM := decLoop_ascii T (bs.drop off) false off a
      have hfacts := asciiOut_facts (bs.drop off) false
      rw [afterAscii_one, endSeg_of_pend0 a hR.hpend, hM]
      cases hout : asciiOut (bs.drop off) false with
      | error e =>
        rw [hout] at hA hfacts
        obtain ⟨r, t, bo, f', hk⟩ := hA
        subst hfacts
        rw [hk]
        simp only [tryC_ok, asciiThen, Except.map, LoopOut]
        exact ⟨_, _, rfl⟩
      | ok p =>
        obtain ⟨m, es, k⟩ := p
        rw [hout] at hA hfacts hlen
        obtain ⟨hm7', hk1, hsmall⟩ := hfacts
        obtain ⟨hlen1, hlen2⟩ := hlen
        have hk1 : 1 ≤ k := hk1 (by
          intro h
          have := congrArg List.length h
          simp at this; omega)
        simp only [List.length_drop] at hlen2
        simp only [AAgrees] at hA
        rw [hA]
        simp only [tryC_ok, bne_self_eq_false, Bool.false_eq_true, if_false]
        have hseg := SegRel.aevs es hR.seg
        simp only [List.nil_append] at hseg
        rw [hseg.hres, show len res = ((res.length : Nat) : Int) from rfl,
          k_latin1ToUTF8_eq res _ F (by rw [bytesI_length]; omega)]
        simp only [tryC_ok, asciiThen, List.drop_drop]
        by_cases hm1 : m = 1
        · subst hm1
          have hRel := hseg.endSeg hR
          have := ihf 1 (off + k) _ _ segs _ eci _ (by omega) hRel (by simp; omega)
          rw [afterAscii_one, endSeg_endSeg] at this
          rw [afterAscii_one]
          exact this
        · have hs := hsmall hm1
          have hRel := hseg.toRel hR hs
          rw [latin1Utf8_small_nat _ hs, ← hseg.hres]
          exact ihf m (off + k) _ _ segs _ eci _ hm7' hRel (by simp [hm1]; omega)
    · -- the other modes: one segment, then back to ASCII
      have cm1 : (((mode : Nat) : Int) == 1) = false := by simp; omega
      simp only [cm1, Bool.false_eq_true, if_false]
      -- what happens after a segment that appended the characters `D` and consumed `n'` bytes
      have back : ∀ (D : List Nat) (n' : Nat) (res' fn' : List Int) (a' : Acc),
          SegRel res a D res' tr fn' a' → D.length ≤ 7 * bs.length →
          LoopOut (W (((off + n' : Nat) : Int), 0, res ++ latin1Utf8 (bytesI D), tr, segs, 1, fn', eci))
            ((decLoop T (bs.drop off) n' false off a'.endSeg).map Acc.endSeg) := by
        intro D n' res' fn' a' hseg hD
        have hRel := hseg.endSeg hR
        have := ihf 1 (off + n') _ _ segs _ eci _ (by omega) hRel (by simp [h1] at hμ ⊢; omega)
        rw [afterAscii_one, endSeg_endSeg] at this
        rw [decLoop_skip, List.drop_drop]
        exact this
      have hmodes : mode = 2 ∨ mode = 3 ∨ mode = 4 ∨ mode = 5 ∨ mode = 6 ∨ mode = 7 := by omega
      rcases hmodes with h | h | h | h | h | h
      · -- C40
        subst h
        have hC := k_decodeC40Segment_eq T hT F bs hb off (by omega) (by omega) res fn a 0
        simp only [afterAscii, show ((2 : Nat) = 0) = False by simp, show ((2 : Nat) = 1) = False by simp, if_false, if_true]
        have cl : ((((2 : Nat) : Int)) != 6) = true := by decide
        have c2 : ((((2 : Nat) : Int)) == 2) = true := by decide
        simp only [c2, cl, if_true]
        cases hs : cSeg T false (bs.drop off) {} a 0 with
        | error e =>
          rw [hs] at hC
          cases e with
          | format =>
            obtain ⟨r, bo, f', hk⟩ := hC
            rw [hk]
            simp only [tryC_ok, Except.map, LoopOut]
            exact ⟨_, _, rfl⟩
          | _ => simp only at hC; rw [hC]; simp [LoopOut, Except.map]
        | ok p =>
          obtain ⟨a', n'⟩ := p
          rw [hs] at hC
          obtain ⟨es, hco, ha', hk⟩ := hC
          rw [hk]
          simp only [tryC_ok, bne_self_eq_false, Bool.false_eq_true, if_false, Nat.sub_zero]
          have hseg := SegRel.emits es hR.seg
          simp only [List.nil_append] at hseg
          have hl := cOut_len T false (bs.drop off) {}
          rw [hco] at hl
          simp only [Nat.sub_zero, List.length_drop] at hl
          rw [hseg.hres, show len res = ((res.length : Nat) : Int) from rfl,
            k_latin1ToUTF8_eq res _ F (by rw [bytesI_length]; omega)]
          simp only [tryC_ok]
          subst ha'
          exact back _ n' _ _ _ hseg (by omega)
      · -- Text
        subst h
        have hC := k_decodeTextSegment_eq T hT F bs hb off (by omega) (by omega) res fn a 0
        simp only [afterAscii, show ((3 : Nat) = 0) = False by simp, show ((3 : Nat) = 1) = False by simp,
          show ((3 : Nat) = 2) = False by simp, if_false, if_true]
        have cl : ((((3 : Nat) : Int)) != 6) = true := by decide
        have c2 : ((((3 : Nat) : Int)) == 2) = false := by decide
        have c3 : ((((3 : Nat) : Int)) == 3) = true := by decide
        simp only [c2, c3, cl, if_true, Bool.false_eq_true, if_false]
        cases hs : cSeg T true (bs.drop off) {} a 0 with
        | error e =>
          rw [hs] at hC
          cases e with
          | format =>
            obtain ⟨r, bo, f', hk⟩ := hC
            rw [hk]
            simp only [tryC_ok, Except.map, LoopOut]
            exact ⟨_, _, rfl⟩
          | _ => simp only at hC; rw [hC]; simp [LoopOut, Except.map]
        | ok p =>
          obtain ⟨a', n'⟩ := p
          rw [hs] at hC
          obtain ⟨es, hco, ha', hk⟩ := hC
          rw [hk]
          simp only [tryC_ok, bne_self_eq_false, Bool.false_eq_true, if_false, Nat.sub_zero]
          have hseg := SegRel.emits es hR.seg
          simp only [List.nil_append] at hseg
          have hl := cOut_len T true (bs.drop off) {}
          rw [hco] at hl
          simp only [Nat.sub_zero, List.length_drop] at hl
          rw [hseg.hres, show len res = ((res.length : Nat) : Int) from rfl,
            k_latin1ToUTF8_eq res _ F (by rw [bytesI_length]; omega)]
          simp only [tryC_ok]
          subst ha'
          exact back _ n' _ _ _ hseg (by omega)
      · -- ANSI X12
        subst h
        have hC := k_decodeAnsiX12Segment_eq F bs hb off (by omega) (by omega) res a 0
        simp only [afterAscii, show ((4 : Nat) = 0) = False by simp, show ((4 : Nat) = 1) = False by simp,
          show ((4 : Nat) = 2) = False by simp, show ((4 : Nat) = 3) = False by simp, if_false, if_true]
        have cl : ((((4 : Nat) : Int)) != 6) = true := by decide
        have c2 : ((((4 : Nat) : Int)) == 2) = false := by decide
        have c3 : ((((4 : Nat) : Int)) == 3) = false := by decide
        have c4 : ((((4 : Nat) : Int)) == 4) = true := by decide
        simp only [c2, c3, c4, cl, if_true, Bool.false_eq_true, if_false]
        cases hs : x12Seg (bs.drop off) a 0 with
        | error e =>
          rw [hs] at hC
          obtain ⟨rfl, r, bo, hk⟩ := hC
          rw [hk]
          simp only [tryC_ok, Except.map, LoopOut]
          exact ⟨_, _, rfl⟩
        | ok p =>
          obtain ⟨a', n'⟩ := p
          rw [hs] at hC
          obtain ⟨d, hco, ha', hk⟩ := hC
          rw [hk]
          simp only [tryC_ok, bne_self_eq_false, Bool.false_eq_true, if_false, Nat.sub_zero]
          have hseg := SegRel.pushAll d (fn := fn) hR.seg
          simp only [List.nil_append] at hseg
          have hl := x12Out_len (bs.drop off)
          rw [hco] at hl
          simp only [Nat.sub_zero, List.length_drop] at hl
          rw [show len res = ((res.length : Nat) : Int) from rfl,
            k_latin1ToUTF8_eq res _ F (by rw [bytesI_length]; omega)]
          simp only [tryC_ok]
          subst ha'
          exact back _ n' _ _ _ hseg (by omega)
      · -- EDIFACT
        subst h
        obtain ⟨d, k, hco, hs, hk⟩ := k_decodeEdifactSegment_eq F bs hb off (by omega) (by omega) res a 0
        simp only [afterAscii, show ((5 : Nat) = 0) = False by simp, show ((5 : Nat) = 1) = False by simp,
          show ((5 : Nat) = 2) = False by simp, show ((5 : Nat) = 3) = False by simp, show ((5 : Nat) = 4) = False by simp,
          if_false, if_true]
        have cl : ((((5 : Nat) : Int)) != 6) = true := by decide
        have c2 : ((((5 : Nat) : Int)) == 2) = false := by decide
        have c3 : ((((5 : Nat) : Int)) == 3) = false := by decide
        have c4 : ((((5 : Nat) : Int)) == 4) = false := by decide
        have c5 : ((((5 : Nat) : Int)) == 5) = true := by decide
        simp only [c2, c3, c4, c5, cl, if_true, Bool.false_eq_true, if_false]
        rw [hk, hs]
        simp only [tryC_ok, bne_self_eq_false, Bool.false_eq_true, if_false, Nat.zero_add]
        have hseg := SegRel.pushAll d (fn := fn) hR.seg
        simp only [List.nil_append] at hseg
        have hl := edifactOut_len (bs.drop off)
        rw [hco] at hl
        simp only [List.length_drop] at hl
        rw [show len res = ((res.length : Nat) : Int) from rfl,
          k_latin1ToUTF8_eq res _ F (by rw [bytesI_length]; omega)]
        simp only [tryC_ok]
        exact back _ k _ _ _ hseg (by omega)
      · -- Base 256: UTF-8 is appended at once, no conversion afterwards
        subst h
        have hC := k_decodeBase256Segment_eq F (by omega) bs hb off hlt res segs a
        have hne : (bs.drop off).isEmpty = false := by
          cases hd : bs.drop off with
          | nil => have := congrArg List.length hd; simp at this; omega
          | cons _ _ => rfl
        simp only [afterAscii, show ((6 : Nat) = 0) = False by simp, show ((6 : Nat) = 1) = False by simp,
          show ((6 : Nat) = 2) = False by simp, show ((6 : Nat) = 3) = False by simp, show ((6 : Nat) = 4) = False by simp,
          show ((6 : Nat) = 5) = False by simp, if_false, if_true, hne, Bool.false_eq_true]
        have cl : ((((6 : Nat) : Int)) != 6) = false := by decide
        have c2 : ((((6 : Nat) : Int)) == 2) = false := by decide
        have c3 : ((((6 : Nat) : Int)) == 3) = false := by decide
        have c4 : ((((6 : Nat) : Int)) == 4) = false := by decide
        have c5 : ((((6 : Nat) : Int)) == 5) = false := by decide
        have c6 : ((((6 : Nat) : Int)) == 6) = true := by decide
        simp only [c2, c3, c4, c5, c6, cl, if_true, Bool.false_eq_true, if_false]
        cases hs : b256Seg (bs.drop off) off a with
        | error e =>
          rw [hs] at hC
          obtain ⟨rfl, bo, hk⟩ := hC
          rw [hk]
          simp only [tryC_ok, Except.map, LoopOut]
          exact ⟨_, _, rfl⟩
        | ok p =>
          obtain ⟨a', n'⟩ := p
          rw [hs] at hC
          obtain ⟨d, ha', hk⟩ := hC
          rw [hk]
          simp only [tryC_ok, bne_self_eq_false, Bool.false_eq_true, if_false]
          subst ha'
          have hRel := Rel.push256All d hR
          have := ihf 1 (off + n') _ _ (segs ++ [bytesI d]) _ eci _ (by omega) hRel (by simp [h1] at hμ ⊢; omega)
          rw [afterAscii_one, endSeg_of_pend0 _ hRel.hpend] at this
          rw [decLoop_skip, List.drop_drop]
          exact this
      · -- ECI: detection only
        subst h
        have hne : (bs.drop off).isEmpty = false := by
          cases hd : bs.drop off with
          | nil => have := congrArg List.length hd; simp at this; omega
          | cons _ _ => rfl
        simp only [afterAscii, show ((7 : Nat) = 0) = False by simp, show ((7 : Nat) = 1) = False by simp,
          show ((7 : Nat) = 2) = False by simp, show ((7 : Nat) = 3) = False by simp, show ((7 : Nat) = 4) = False by simp,
          show ((7 : Nat) = 5) = False by simp, show ((7 : Nat) = 6) = False by simp, if_false, if_true, hne, Bool.false_eq_true]
        have cl : ((((7 : Nat) : Int)) != 6) = true := by decide
        have c2 : ((((7 : Nat) : Int)) == 2) = false := by decide
        have c3 : ((((7 : Nat) : Int)) == 3) = false := by decide
        have c4 : ((((7 : Nat) : Int)) == 4) = false := by decide
        have c5 : ((((7 : Nat) : Int)) == 5) = false := by decide
        have c6 : ((((7 : Nat) : Int)) == 6) = false := by decide
        have c7 : ((((7 : Nat) : Int)) == 7) = true := by decide
        simp only [c2, c3, c4, c5, c6, c7, cl, if_true, Bool.false_eq_true, if_false, bne_self_eq_false]
        have hl1 := k_latin1ToUTF8_eq res [] F (by simp; omega)
        simp only [List.append_nil] at hl1
        rw [show len res = ((res.length : Nat) : Int) from rfl, hl1]
        simp only [tryC_ok, latin1Utf8, List.flatMap_nil, List.append_nil]
        have hRel : Rel res tr fn true { a with eci := true } := ⟨hR.hres, hR.hulen, hR.hpend, hR.htr, hR.hfn, rfl⟩
        have := ihf 1 off _ _ segs _ true _ (by omega) hRel (by simp [h1] at hμ ⊢; omega)
        rw [afterAscii_one, endSeg_of_pend0 _ hRel.hpend] at this
        exact this

/-! ## DecodedBitStreamParser_decode -/

theorem setContains_bytesI (l : List Nat) (p : Nat) : setContains (bytesI l) (p : Int) = l.contains p := by
  unfold setContains
  induction l with
  | nil => rfl
  | cons x l ih =>
    simp only [bytesI, List.map_cons, List.contains_cons] at ih ⊢
    rw [ih]
    congr 1
    by_cases h : p = x
    · simp [h]
    · have : ¬ ((p : Int) = (x : Int)) := by omega
      have e1 : ((p : Int) == (x : Int)) = false := by simpa using this
      have e2 : (p == x) = false := by simpa using h
      rw [e2]
      exact e1

theorem modK (ec p0 p4 p1 p5 : Bool) (K : Int → Res RD) :
    ((if ec = true then (if (p0 || p4) = true then Ctl.next 5 else Ctl.next (if (p1 || p5) = true then 6 else 4))
      else (if (p0 || p4) = true then Ctl.next 2 else Ctl.next (if (p1 || p5) = true then 3 else 1)) : Ctl Int RD)).thenR K
      = K (((if ec = true then (if (p0 || p4) = true then 5 else if (p1 || p5) = true then 6 else 4)
          else (if (p0 || p4) = true then 2 else if (p1 || p5) = true then 3 else 1) : Nat)) : Int) := by
  cases ec <;> cases p0 <;> cases p4 <;> cases p1 <;> cases p5 <;> rfl

when_kernel Gzx.Gen.K02e.decode in
/-- `DecodedBitStreamParser_decode(bytes)` (the regenerated mode loop with every segment decoder, `latin1ToUTF8`, the macro
    trailer and the symbology modifier; the BitSource is `{bytes, 0, 0}` as `NewBitSource` builds it) = the model's
    `decLoop` on the codewords, FOR EVERY CODEWORD LIST: the result is the UTF-8 encoding of the model's text followed by
    the macro trailer, with the model's symbology modifier; FormatException in exactly the model's cases; an index panic
    of the model is one of the kernel.  `xs` is the `bytes` argument, which the loop itself never reads. -/
theorem k_decode_eq (T : Tables) (hT : TablesAgree T) (bs : List Nat) (hb : ∀ b ∈ bs, b < 256) (fuel : Nat)
    (hf : 7 * bs.length + 2 ≤ fuel) (xs : List Int) :
    match decLoop T bs 0 false 0 {} with
    | .ok a => ∃ segs bo, Gen.K02e.decode fuel (bytesI bs) 0 0 xs
        = .ok (latin1Utf8 (bytesI a.rev.reverse) ++ bytesI a.trailer, segs, ((modifier a : Nat) : Int), false, bo, 0)
    | .error .format => ∃ bo bi, Gen.K02e.decode fuel (bytesI bs) 0 0 xs = .ok ([], [], 0, true, bo, bi)
    | .error _ => Gen.K02e.decode fuel (bytesI bs) 0 0 xs = .error oob := by
  have hR0 : Rel [] [] [] false ({} : Acc) := ⟨rfl, rfl, rfl, rfl, rfl, rfl⟩
  have hloop := decode_loop T hT fuel bs hb hf (2 * bs.length) 1 0 [] [] [] [] false {} fuel (by omega) hR0 (by simp) (by omega)
  rw [afterAscii_one, endSeg_of_pend0 _ rfl] at hloop
  simp only [List.drop_zero] at hloop
  unfold Gen.K02e.decode
  have hmk : mk3n 0 100 = .ok [] := rfl
  have hmk2 : mk 0 = .ok [] := rfl
  simp only [hmk, hmk2, tryR_ok]
  have h0 : ((0 : Nat) : Int) = 0 := rfl
  have h1 : ((1 : Nat) : Int) = 1 := rfl
  rw [h0, h1] at hloop
  cases hm : decLoop T bs 0 false 0 {} with
  | error e =>
    rw [hm] at hloop
    cases e with
    | format =>
      obtain ⟨bo, bi, hk⟩ := hloop
      rw [hk]
      exact ⟨bo, bi, rfl⟩
    | _ => simp only [Except.map, LoopOut] at hloop; rw [hloop]; rfl
  | ok a =>
    rw [hm] at hloop
    obtain ⟨bo, res, tr, segs, mode, fn, eci, hk, hRel⟩ := hloop
    rw [hk]
    simp only [brk_thenR]
    have hres : res = latin1Utf8 (bytesI a.rev.reverse) := by simpa [Acc.endSeg] using hRel.hres
    have htr : tr = bytesI a.trailer := by simpa [Acc.endSeg] using hRel.htr
    have hfn : fn = bytesI a.fnc1 := by simpa [Acc.endSeg] using hRel.hfn
    have heci : eci = a.eci := by simpa [Acc.endSeg] using hRel.heci
    subst hres htr hfn heci
    refine ⟨if (Int.ofNat segs.length == 0) = true then [] else segs, bo, ?_⟩
    have c0 : setContains (bytesI a.fnc1) 0 = a.fnc1.contains 0 := setContains_bytesI a.fnc1 0
    have c1 : setContains (bytesI a.fnc1) 1 = a.fnc1.contains 1 := setContains_bytesI a.fnc1 1
    have c4 : setContains (bytesI a.fnc1) 4 = a.fnc1.contains 4 := setContains_bytesI a.fnc1 4
    have c5 : setContains (bytesI a.fnc1) 5 = a.fnc1.contains 5 := setContains_bytesI a.fnc1 5
    simp only [c0, c1, c4, c5, modifier]
    have htr : (if decide (len (bytesI a.trailer) > 0) = true then (Ctl.next (latin1Utf8 (bytesI a.rev.reverse) ++ bytesI a.trailer) : Ctl (List Int) RD)
        else Ctl.next (latin1Utf8 (bytesI a.rev.reverse))) = Ctl.next (latin1Utf8 (bytesI a.rev.reverse) ++ bytesI a.trailer) := by
      cases a.trailer <;> simp [bytesI, len]
    rw [htr]
    simp only [next_thenR]
    by_cases hs : (Int.ofNat segs.length == 0) = true
    · simp only [hs, if_true, next_thenR]
      rw [modK]
    · simp only [hs, Bool.false_eq_true, if_false, next_thenR]
      rw [modK]

/-- the text and the symbology modifier of the model are what `decodeFull` returns -/
theorem decodeFull_eq (T : Tables) (cw : List Nat) :
    decodeFull T cw = (decLoop T cw 0 false 0 {}).map (fun a => (a.rev.reverse ++ a.trailer, modifier a)) := rfl

when_kernel Gzx.Gen.K02e.decode in
/-- non-vacuity: "A" in ASCII, "1A " in X12 with unlatch, an extended character by upper shift, macro 05 -/
example : Gen.K02e.decode 60 (bytesI [66, 238, 0x21, 0x74, 254, 235, 100, 236]) 0 0 []
    = .ok ([65, 49, 65, 32, 195, 163, 91, 41, 62, 30, 48, 53, 29, 30, 4], [], 1, false, 8, 0) := by decide

end Gzx.Obligations.K02e
