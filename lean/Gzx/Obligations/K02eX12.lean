/-
  K02e (wp k11b2) — `decodeAnsiX12Segment` of datamatrix/decoder/decoded_bit_stream_parser.go, regenerated from /repo on
  every run (`Gzx.Gen.K02e.decodeAnsiX12Segment`: the `for bits.Available() > 0` loop over the threaded BitSource state,
  the one-byte-left exit, the unlatch exit, `parseTwoBytes`, the three-value loop with its `switch`), proved equal to the
  model `DMHighLevel.x12Seg` for EVERY byte-aligned bit source (`k_decodeAnsiX12Segment_eq`):

    * the bytes appended to `result` are exactly the characters the model pushes, the source advances by exactly the
      number of bytes the model consumes;
    * the FormatException cases coincide (a value ≥ 40).
-/
import Gzx.Obligations.K02eBits
import Gzx.Model.DMHighLevel
namespace Gzx.Obligations.K02e
open Gzx Gzx.GoM Gzx.GoVal Gzx.DMHighLevel

/-! ## model side: what a segment appends, without the accumulator -/

/-- the characters `x12Seg` pushes and the number of bytes it consumes -/
def x12Out : List Nat → Res (List Nat × Nat)
  | [] => .ok ([], 0)
  | [_] => .ok ([], 0)
  | b1 :: b2 :: rest =>
    if b1 = 254 then .ok ([], 1)
    else
      match x12Value (parseTwoBytes b1 b2).1 with
      | .error e => .error e
      | .ok x1 =>
        match x12Value (parseTwoBytes b1 b2).2.1 with
        | .error e => .error e
        | .ok x2 =>
          match x12Value (parseTwoBytes b1 b2).2.2 with
          | .error e => .error e
          | .ok x3 =>
            match x12Out rest with
            | .error e => .error e
            | .ok (d, k) => .ok (x1 :: x2 :: x3 :: d, k + 2)

theorem pushAll_cons (a : Acc) (c : Nat) (cs : List Nat) : a.pushAll (c :: cs) = (a.push c).pushAll cs := rfl

/-- the model's `x12Seg` is `x12Out` pushed onto the accumulator -/
theorem x12Seg_eq_out : ∀ (bs : List Nat) (a : Acc) (n : Nat),
    x12Seg bs a n = (x12Out bs).map (fun p => (a.pushAll p.1, n + p.2))
  | [], a, n => by simp [x12Seg, x12Out, Except.map, Acc.pushAll]
  | [_], a, n => by simp [x12Seg, x12Out, Except.map, Acc.pushAll]
  | b1 :: b2 :: rest, a, n => by
    unfold x12Seg x12Out
    by_cases h : b1 = 254
    · simp [h, Except.map, Acc.pushAll]
    · simp only [h, if_false]
      cases h1 : x12Value (parseTwoBytes b1 b2).1 with
      | error e => simp [Except.map]
      | ok x1 =>
        cases h2 : x12Value (parseTwoBytes b1 b2).2.1 with
        | error e => simp [Except.map]
        | ok x2 =>
          cases h3 : x12Value (parseTwoBytes b1 b2).2.2 with
          | error e => simp [Except.map]
          | ok x3 =>
            simp only []
            rw [x12Seg_eq_out rest]
            cases x12Out rest with
            | error e => simp [Except.map]
            | ok p => simp [Except.map, pushAll_cons]; omega

theorem x12Value_error (v : Int) (e : Fault) (h : x12Value v = .error e) : e = .format := by
  unfold x12Value at h
  repeat (split at h; · cases h)
  cases h; rfl

theorem x12Out_error : ∀ (bs : List Nat) (e : Fault), x12Out bs = .error e → e = .format
  | [], e, h => by simp [x12Out] at h
  | [_], e, h => by simp [x12Out] at h
  | b1 :: b2 :: rest, e, h => by
    unfold x12Out at h
    split at h
    · cases h
    · split at h
      · cases h; exact x12Value_error _ _ ‹_›
      · split at h
        · cases h; exact x12Value_error _ _ ‹_›
        · split at h
          · cases h; exact x12Value_error _ _ ‹_›
          · split at h
            · cases h; exact x12Out_error rest _ ‹_›
            · cases h

/-! ## kernel side -/

when_kernel Gzx.Gen.K02e.parseTwoBytes in
/-- `parseTwoBytes(firstByte, secondByte, result)` writes the model's three values into `result[0..2]` -/
theorem k_parseTwoBytes_eq (b1 b2 : Nat) (r0 r1 r2 : Int) (rest : List Int) :
    Gen.K02e.parseTwoBytes b1 b2 (r0 :: r1 :: r2 :: rest) =
      .ok ((parseTwoBytes b1 b2).1 :: (parseTwoBytes b1 b2).2.1 :: (parseTwoBytes b1 b2).2.2 :: rest) := by
  have e : GoVal.ishl (b1 : Int) 8 = (b1 : Int) * 256 := by
    rw [show (8 : Int) = ((8 : Nat) : Int) from rfl, ishl_natCast, Nat.shiftLeft_eq]; simp
  simp [Gen.K02e.parseTwoBytes, parseTwoBytes, setIdx, e]

theorem toByte_cast (x : Int) : ((toByte x : Nat) : Int) = wrap 8 x := by
  unfold toByte wrap
  have : (0 : Int) ≤ x % 256 := Int.emod_nonneg _ (by decide)
  rw [Int.toNat_of_nonneg this]; rfl

when_kernel Gzx.Gen.K02e.decodeAnsiX12Segment in
/-- one value of the three-value loop -/
theorem x12_body2 (bo bi : Int) (cv : List Int) (i : Nat) (ii : Int) (hii : ii = (i : Int)) (hi : i < cv.length) (res : List Int) :
    Gen.K02e.decodeAnsiX12Segment_body2 bo bi cv ii res =
      match x12Value cv[i] with
      | .ok x => .next (res ++ [(x : Int)])
      | .error _ => .ret (res, true, bo, bi, res) := by
  subst hii
  unfold Gen.K02e.decodeAnsiX12Segment_body2
  rw [idx_ofNat cv i hi]
  simp only [tryC_ok]
  generalize cv[i] = v
  unfold x12Value
  by_cases h0 : v = 0
  · simp [h0]
  · by_cases h1 : v = 1
    · simp [h1]
    · by_cases h2 : v = 2
      · simp [h2]
      · by_cases h3 : v = 3
        · simp [h3]
        · by_cases h14 : v < 14
          · simp [h0, h1, h2, h3, h14, toByte_cast]
          · by_cases h40 : v < 40
            · simp [h0, h1, h2, h3, h14, h40, toByte_cast]
            · simp [h0, h1, h2, h3, h14, h40]

/-- what the kernel must answer for a model outcome: the appended bytes and the advanced source, or the error flag -/
def X12Agrees (k : Res (List Int × Bool × Int × Int × List Int)) (result : List Int) (off : Nat) :
    Res (List Nat × Nat) → Prop
  | .ok (d, n) => k = .ok (result ++ bytesI d, false, ((off + n : Nat) : Int), 0, result ++ bytesI d)
  | .error _ => ∃ r bo, k = .ok (r, true, bo, 0, r)

when_kernel Gzx.Gen.K02e.decodeAnsiX12Segment in
/-- the loop body when no byte is left: the loop ends -/
theorem x12_body1_end (F : Nat) (bs : List Nat) (off : Nat) (h : bs.length ≤ off) (res cv : List Int) :
    Gen.K02e.decodeAnsiX12Segment_body1 F (bytesI bs) ((off : Int), 0, res, cv) = .brk ((off : Int), 0, res, cv) := by
  unfold Gen.K02e.decodeAnsiX12Segment_body1
  simp only [k_available_eq, tryC_ok, bytesI_length]
  have c : decide (8 * ((bs.length : Int) - (off : Int)) - 0 > 0) = false := by simp; omega
  simp only [c, Bool.false_eq_true, if_false]

when_kernel Gzx.Gen.K02e.decodeAnsiX12Segment in
/-- exactly one byte left: return ("it will be encoded as ASCII") -/
theorem x12_body1_one (F : Nat) (bs : List Nat) (off : Nat) (h : off + 1 = bs.length) (res cv : List Int) :
    Gen.K02e.decodeAnsiX12Segment_body1 F (bytesI bs) ((off : Int), 0, res, cv) = .ret (res, false, (off : Int), 0, res) := by
  unfold Gen.K02e.decodeAnsiX12Segment_body1
  simp only [k_available_eq, tryC_ok, bytesI_length]
  have c : decide (8 * ((bs.length : Int) - (off : Int)) - 0 > 0) = true := by simp; omega
  have c8 : (8 * ((bs.length : Int) - (off : Int)) - 0 == 8) = true := by simp; omega
  simp only [c, c8, if_true]

when_kernel Gzx.Gen.K02e.decodeAnsiX12Segment in
/-- two or more bytes left: unlatch, or the three values of the pair -/
theorem x12_body1_two (F : Nat) (hF : 2 ≤ F) (bs : List Nat) (hb : ∀ b ∈ bs, b < 256) (off : Nat) (h : off + 1 < bs.length)
    (res : List Int) (r0 r1 r2 : Int) :
    Gen.K02e.decodeAnsiX12Segment_body1 F (bytesI bs) ((off : Int), 0, res, [r0, r1, r2]) =
      if bs[off] = 254 then .ret (res, false, ((off + 1 : Nat) : Int), 0, res)
      else
        (GoM.loop (Gen.K02e.decodeAnsiX12Segment_body2 ((off + 2 : Nat) : Int) 0
            [(parseTwoBytes bs[off] bs[off + 1]).1, (parseTwoBytes bs[off] bs[off + 1]).2.1, (parseTwoBytes bs[off] bs[off + 1]).2.2])
          1 3 0 res).thenC fun st =>
        .next (((off + 2 : Nat) : Int), 0, st,
          [(parseTwoBytes bs[off] bs[off + 1]).1, (parseTwoBytes bs[off] bs[off + 1]).2.1, (parseTwoBytes bs[off] bs[off + 1]).2.2]) := by
  unfold Gen.K02e.decodeAnsiX12Segment_body1
  simp only [k_available_eq, tryC_ok, bytesI_length]
  have c : decide (8 * ((bs.length : Int) - (off : Int)) - 0 > 0) = true := by simp; omega
  have c8 : (8 * ((bs.length : Int) - (off : Int)) - 0 == 8) = false := by simp; omega
  simp only [c, c8, if_true, Bool.false_eq_true, if_false]
  rw [k_readBits8 F hF bs hb off (by omega)]
  simp only [tryC_ok]
  have e1 : (off : Int) + 1 = ((off + 1 : Nat) : Int) := by omega
  have e2 : ((off + 1 : Nat) : Int) + 1 = ((off + 2 : Nat) : Int) := by omega
  by_cases h254 : bs[off] = 254
  · have c254 : (((bs[off] : Nat) : Int) == 254) = true := by simp [h254]
    simp only [c254, if_true]
    rw [if_pos h254, e1]
  · have c254 : (((bs[off] : Nat) : Int) == 254) = false := by simp; omega
    simp only [c254, Bool.false_eq_true, if_false, h254]
    rw [e1, k_readBits8 F hF bs hb (off + 1) h]
    simp only [tryC_ok]
    rw [k_parseTwoBytes_eq]
    simp only [tryC_ok, tripUp_one, e2]
    rfl

when_kernel Gzx.Gen.K02e.decodeAnsiX12Segment in
theorem x12_loop (F : Nat) (hF : 2 ≤ F) (bs : List Nat) (hb : ∀ b ∈ bs, b < 256)
    (K : Int × Int × List Int × List Int → Res (List Int × Bool × Int × Int × List Int))
    (hK : ∀ bo bi res cv, K (bo, bi, res, cv) = .ok (res, false, bo, bi, res)) :
    ∀ (m off : Nat) (result cv : List Int) (f : Nat), cv.length = 3 → bs.length - off ≤ m → off ≤ bs.length → m < f →
      X12Agrees ((whileLoop (Gen.K02e.decodeAnsiX12Segment_body1 F (bytesI bs)) f ((off : Int), 0, result, cv)).thenR K)
        result off (x12Out (bs.drop off)) := by
  intro m
  induction m with
  | zero =>
    intro off result cv f hcv hm hoff hf
    obtain ⟨f, rfl⟩ : ∃ k, f = k + 1 := ⟨f - 1, by omega⟩
    have hd : bs.drop off = [] := List.drop_eq_nil_of_le (by omega)
    rw [hd, whileLoop_succ, x12_body1_end F bs off (by omega)]
    simp only [brk_thenR, hK, x12Out, X12Agrees]
    simp [bytesI]
  | succ m ih =>
    intro off result cv f hcv hm hoff hf
    obtain ⟨f, rfl⟩ : ∃ k, f = k + 1 := ⟨f - 1, by omega⟩
    rw [whileLoop_succ]
    by_cases h0 : off = bs.length
    · have hd : bs.drop off = [] := List.drop_eq_nil_of_le (by omega)
      rw [hd, x12_body1_end F bs off (by omega)]
      simp only [brk_thenR, hK, x12Out, X12Agrees]
      simp [bytesI]
    · by_cases h1 : off + 1 = bs.length
      · have hd : bs.drop off = [bs[off]'(by omega)] := by
          rw [List.drop_eq_getElem_cons (by omega), List.drop_eq_nil_of_le (by omega)]
        rw [hd, x12_body1_one F bs off h1]
        simp only [ret_thenR, x12Out, X12Agrees]
        simp [bytesI]
      · have hlt : off + 1 < bs.length := by omega
        obtain ⟨r0, r1, r2, rfl⟩ : ∃ r0 r1 r2, cv = [r0, r1, r2] := by
          match cv, hcv with
          | [r0, r1, r2], _ => exact ⟨r0, r1, r2, rfl⟩
        have hd : bs.drop off = bs[off]'(by omega) :: bs[off + 1]'hlt :: bs.drop (off + 2) := by
          rw [List.drop_eq_getElem_cons (by omega), List.drop_eq_getElem_cons hlt]
        rw [hd, x12_body1_two F hF bs hb off hlt]
        generalize bs[off]'(by omega) = b1
        generalize bs[off + 1]'hlt = b2
        unfold x12Out
        by_cases h254 : b1 = 254
        · simp only [h254, if_true, ret_thenR, X12Agrees]
          simp [bytesI]
        · simp only [h254, if_false]
          -- the three values
          rw [loop_succ, x12_body2 _ _ _ 0 0 rfl (by simp)]
          simp only [List.getElem_cons_zero]
          cases hx1 : x12Value (parseTwoBytes b1 b2).1 with
          | error e => exact ⟨_, _, rfl⟩
          | ok x1 =>
            simp only []
            rw [loop_succ, x12_body2 _ _ _ 1 (0 + 1) (by decide) (by simp)]
            simp only [List.getElem_cons_succ, List.getElem_cons_zero]
            cases hx2 : x12Value (parseTwoBytes b1 b2).2.1 with
            | error e => exact ⟨_, _, rfl⟩
            | ok x2 =>
              simp only []
              rw [loop_succ, x12_body2 _ _ _ 2 (0 + 1 + 1) (by decide) (by simp)]
              simp only [List.getElem_cons_succ, List.getElem_cons_zero]
              cases hx3 : x12Value (parseTwoBytes b1 b2).2.2 with
              | error e => exact ⟨_, _, rfl⟩
              | ok x3 =>
                simp only [loop_zero, next_thenC]
                have := ih (off + 2) (result ++ [(x1 : Int)] ++ [(x2 : Int)] ++ [(x3 : Int)])
                  [(parseTwoBytes b1 b2).1, (parseTwoBytes b1 b2).2.1, (parseTwoBytes b1 b2).2.2] f rfl (by omega) (by omega) (by omega)
                cases hrest : x12Out (bs.drop (off + 2)) with
                | error e =>
                  rw [hrest] at this
                  exact this
                | ok p =>
                  rw [hrest] at this
                  simp only [X12Agrees] at this ⊢
                  rw [this]
                  simp [bytesI]
                  omega

when_kernel Gzx.Gen.K02e.decodeAnsiX12Segment in
/-- `decodeAnsiX12Segment(bits, result)` on a byte-aligned source at byte `off` of `bs` = the model's `x12Seg` on the
    remaining bytes, for every accumulator: the appended bytes are the characters the model pushes, the source advances by
    the bytes the model consumes; a FormatException of the model is the kernel's error flag -/
theorem k_decodeAnsiX12Segment_eq (fuel : Nat) (bs : List Nat) (hb : ∀ b ∈ bs, b < 256) (off : Nat) (hoff : off ≤ bs.length)
    (hf : bs.length + 2 ≤ fuel) (result : List Int) (a : Acc) (n : Nat) :
    match x12Seg (bs.drop off) a n with
    | .ok (a', n') => ∃ d, x12Out (bs.drop off) = .ok (d, n' - n) ∧ a' = a.pushAll d ∧
        Gen.K02e.decodeAnsiX12Segment fuel (bytesI bs) (off : Int) 0 result
          = .ok (result ++ bytesI d, false, ((off + (n' - n) : Nat) : Int), 0, result ++ bytesI d)
    | .error e => e = .format ∧ ∃ r bo, Gen.K02e.decodeAnsiX12Segment fuel (bytesI bs) (off : Int) 0 result = .ok (r, true, bo, 0, r) := by
  rw [x12Seg_eq_out]
  have hk : Gen.K02e.decodeAnsiX12Segment fuel (bytesI bs) (off : Int) 0 result
      = (whileLoop (Gen.K02e.decodeAnsiX12Segment_body1 fuel (bytesI bs)) fuel ((off : Int), 0, result, [0, 0, 0])).thenR
          (fun st => .ok (st.2.2.1, false, st.1, st.2.1, st.2.2.1)) := by
    unfold Gen.K02e.decodeAnsiX12Segment
    rfl
  have := x12_loop fuel (by omega) bs hb (fun st => .ok (st.2.2.1, false, st.1, st.2.1, st.2.2.1)) (fun _ _ _ _ => rfl) (bs.length - off) off result [0, 0, 0] fuel rfl
    (Nat.le_refl _) hoff (by omega)
  rw [← hk] at this
  cases hx : x12Out (bs.drop off) with
  | error e =>
    rw [hx] at this
    exact ⟨x12Out_error _ _ hx, this⟩
  | ok p =>
    rw [hx] at this
    simp only [Except.map]
    refine ⟨p.1, by simp, rfl, ?_⟩
    simp only [X12Agrees] at this
    rw [this]
    simp

when_kernel Gzx.Gen.K02e.decodeAnsiX12Segment in
/-- non-vacuity: "1A " + unlatch, and a value ≥ 40 -/
example : Gen.K02e.decodeAnsiX12Segment 10 (bytesI [0x21, 0x74, 254, 7]) 0 0 [9] = .ok ([9, 49, 65, 32], false, 3, 0, [9, 49, 65, 32]) := by
  decide
when_kernel Gzx.Gen.K02e.decodeAnsiX12Segment in
example : Gen.K02e.decodeAnsiX12Segment 10 (bytesI [255, 255]) 0 0 [9] = .ok ([9], true, 2, 0, [9]) := by decide

end Gzx.Obligations.K02e
