/-
  K03w — the 1-D WRITERS of /repo/oned regenerated on every run (`Gzx.Gen.K03w`, translator kind `funcm` with the
  extension translator/ext_k03w.go) and proved equal, for EVERY contents (byte lists), to the hand-written model
  functions of `Model/OneD.lean` / `Model/CheckDigit.lean` the theorems of Properties/C03, C10, C12 are about.
  A source edit in one of these Go functions breaks the theorem that names it.

  Representation: a `[]bool` module row is a `List Int` of 0/1 (`b01`), a string a `List Int` of bytes (`bytes`),
  an `error` result a `Bool` (every error the encoders return is a WriterException).
-/
import Gzx.Gen.K03w
import Gzx.GoMExt
import Gzx.GoMK03w
import Gzx.KernelGuard
import Gzx.Proofs.K10
import Gzx.Obligations.K10
import Gzx.Proofs.CheckDigit
import Gzx.Proofs.GoMTie
import Gzx.Model.OneD
namespace Gzx.Obligations.K03w
open Gzx Gzx.GoM Gzx.CheckDigit Gzx.OneD

/-- a module row as the Go `[]bool` contents -/
def b01 (bs : List Bool) : List Int := bs.map b2i

theorem b01_append (a b : List Bool) : b01 (a ++ b) = b01 a ++ b01 b := by simp [b01]
theorem b01_replicate (n : Nat) (c : Bool) : b01 (List.replicate n c) = List.replicate n (b2i c) := by simp [b01]
theorem b01_length (a : List Bool) : (b01 a).length = a.length := by simp [b01]

/-! ## `onedWriter_appendPattern` -/

theorem setIdx_at (done rs : List Int) (r v : Int) :
    setIdx (done ++ r :: rs) (done.length : Int) v = .ok (done ++ v :: rs) := by
  unfold setIdx
  have h0 : ¬ ((done.length : Int) < 0) := by omega
  simp [h0]

theorem setIdx_full (done : List Int) (v : Int) :
    setIdx (done ++ []) (done.length : Int) v = .error oob := by
  unfold setIdx
  have h0 : ¬ ((done.length : Int) < 0) := by omega
  simp [h0]

variable {ρ : Type}

/-- the outcome of drawing `w` more modules behind `done` when `rest` is what is left of the target -/
def drawn (done rest : List Int) (w : Nat) (mods : List Int) : Ctl (List Int × Int) ρ :=
  if w ≤ rest.length then .next (done ++ mods ++ rest.drop w, ((done.length + w : Nat) : Int)) else .panic oob

when_kernel Gzx.Gen.K03w.appendPattern in
/-- the inner loop `for j := 0; j < len; j++ { target[pos] = color; pos++ }` -/
theorem k_appendPattern_fill (c : Bool) : ∀ (n : Nat) (i0 : Int) (done rest : List Int),
    loop (Gen.K03w.appendPattern_body2 c) 1 n i0 (done ++ rest, (done.length : Int)) =
      (drawn done rest n (List.replicate n (b2i c)) : Ctl _ (Int × List Int)) := by
  intro n
  induction n with
  | zero => intro i0 done rest; simp [loop, drawn]
  | succ n ih =>
    intro i0 done rest
    rw [loop_succ]
    cases rest with
    | nil =>
      simp only [Gen.K03w.appendPattern_body2, setIdx_full, tryC_error, drawn]
      simp
    | cons r rs =>
      simp only [Gen.K03w.appendPattern_body2, setIdx_at, tryC_ok]
      have e1 : done ++ b2i c :: rs = (done ++ [b2i c]) ++ rs := by simp
      have e2 : (done.length : Int) + 1 = (((done ++ [b2i c]).length : Nat) : Int) := by simp
      rw [e1, e2, ih]
      simp only [drawn, List.length_cons, List.length_append, List.length_nil, List.drop_succ_cons]
      by_cases h : n ≤ rs.length
      · have h' : n + 1 ≤ rs.length + 1 := by omega
        simp only [h, h', if_true, List.replicate_succ]
        congr 1
        simp [Nat.add_assoc, Nat.add_comm 1 n]
      · have h' : ¬ n + 1 ≤ rs.length + 1 := by omega
        simp only [h, h', if_false]

/-- the colour after a pattern -/
def colorAfter : List Nat → Bool → Bool
  | [], c => c
  | _ :: ws, c => colorAfter ws (!c)

when_kernel Gzx.Gen.K03w.appendPattern in
/-- one iteration of the outer loop of `onedWriter_appendPattern`, as a function of the run length read -/
def apStep (len : Int) (st : List Int × Int × Int × Bool) : Ctl (List Int × Int × Int × Bool) (Int × List Int) :=
  (loop (Gen.K03w.appendPattern_body2 st.2.2.2) 1 (tripUp 0 len 1) 0 (st.1, st.2.1)).thenC fun s =>
    .next (s.1, s.2, st.2.2.1 + len, !st.2.2.2)

when_kernel Gzx.Gen.K03w.appendPattern in
theorem k_appendPattern_fold : ∀ (pat : List Nat) (c : Bool) (done rest : List Int) (k : Int),
    foldC apStep (pat.map Int.ofNat) (done ++ rest, (done.length : Int), k, c) =
      if OneD.sumL pat ≤ rest.length then
        .next (done ++ b01 (OneD.appendPattern pat c) ++ rest.drop (OneD.sumL pat), ((done.length + OneD.sumL pat : Nat) : Int),
               k + (OneD.sumL pat : Nat), colorAfter pat c)
      else .panic oob := by
  intro pat
  induction pat with
  | nil => intro c done rest k; simp [foldC, OneD.sumL, OneD.appendPattern, b01, colorAfter]
  | cons w ws ih =>
    intro c done rest k
    have hs : OneD.sumL (w :: ws) = w + OneD.sumL ws := by simp [OneD.sumL]
    simp only [List.map_cons, foldC, apStep]
    have ht : tripUp 0 (Int.ofNat w) 1 = w := by rw [tripUp_one]; simp
    rw [ht, k_appendPattern_fill, drawn]
    by_cases h1 : w ≤ rest.length
    · simp only [h1, if_true, next_thenC]
      have e1 : done ++ List.replicate w (b2i c) ++ rest.drop w = (done ++ List.replicate w (b2i c)) ++ rest.drop w := rfl
      have e2 : ((done.length + w : Nat) : Int) = (((done ++ List.replicate w (b2i c)).length : Nat) : Int) := by simp
      rw [e1, e2, ih]
      simp only [List.length_drop, hs, colorAfter, OneD.appendPattern, b01_append, b01_replicate,
        List.length_append, List.length_replicate, List.drop_drop]
      by_cases h2 : OneD.sumL ws ≤ rest.length - w
      · have h3 : w + OneD.sumL ws ≤ rest.length := by omega
        simp only [h2, h3, if_true]
        have ea : w + OneD.sumL ws = OneD.sumL ws + w := by omega
        have eb : done.length + w + OneD.sumL ws = done.length + (OneD.sumL ws + w) := by omega
        have ec : k + Int.ofNat w + ((OneD.sumL ws : Nat) : Int) = k + ((OneD.sumL ws + w : Nat) : Int) := by
          simp only [Int.ofNat_eq_natCast]; omega
        simp only [List.append_assoc, ea, eb, ec]
      · have h3 : ¬ w + OneD.sumL ws ≤ rest.length := by omega
        simp only [h2, h3, if_false]
    · have h3 : ¬ w + OneD.sumL ws ≤ rest.length := by omega
      simp only [h1, hs, h3, if_false, panic_thenC]

when_kernel Gzx.Gen.K03w.appendPattern in
/-- `onedWriter_appendPattern(target, pos, pattern, startColor)` for every target, every position inside it
    (`target = done ++ rest`, `pos = len(done)`), every pattern and colour: the model's `appendPattern` written
    over the next `Σ pattern` cells and `Σ pattern` returned — or the index panic exactly when the pattern does
    not fit -/
theorem k_appendPattern_eq (done rest : List Int) (pat : List Nat) (c : Bool) :
    Gen.K03w.appendPattern (done ++ rest) (done.length : Int) (pat.map Int.ofNat) c =
      if OneD.sumL pat ≤ rest.length then
        .ok (((OneD.sumL pat : Nat) : Int), done ++ b01 (OneD.appendPattern pat c) ++ rest.drop (OneD.sumL pat))
      else .error oob := by
  simp only [Gen.K03w.appendPattern]
  rw [loop_up1' (pat.map Int.ofNat) apStep 0 pat.length (by simp) (body := Gen.K03w.appendPattern_body1 (pat.map Int.ofNat))
      (fun i h st => by
        unfold Gen.K03w.appendPattern_body1
        rw [idx_ofNat _ _ h]
        rfl)
      (by rw [tripUp_one]; simp [len]) (by simp)]
  rw [List.drop_zero, List.take_of_length_le (by simp), k_appendPattern_fold]
  by_cases h : OneD.sumL pat ≤ rest.length <;> simp [h]

when_kernel Gzx.Gen.K03w.appendPattern in
example : Gen.K03w.appendPattern [0, 0, 0, 0, 0, 0, 0] 1 [1, 2, 1] true = .ok (4, [0, 1, 0, 0, 1, 0, 0]) := by decide
when_kernel Gzx.Gen.K03w.appendPattern in
example : Gen.K03w.appendPattern [0, 0, 0] 1 [1, 2, 1] true = .error oob := by decide

/-! ## `onedWriter_checkNumeric` (`for _, c := range contents`: the runes of the string) -/

theorem decodeRune_ascii (b : Int) (rest : List Int) (h : b < 128) : decodeRune (b :: rest) = (b, 1) := by
  simp [decodeRune, h]

theorem decodeRune_high (b : Int) (rest : List Int) (h : 128 ≤ b) : 128 ≤ (decodeRune (b :: rest)).1 := by
  unfold decodeRune
  have h0 : ¬ b < 128 := by omega
  simp only [h0, if_false]
  repeat' split
  all_goals (try simp only [isCont, Bool.and_eq_true, decide_eq_true_eq] at *)
  all_goals (try omega)
  all_goals (split <;> omega)

/-- the digit test of `checkNumeric`, on a rune -/
def cnStep (c : Int) (_ : Unit) : Ctl Unit Bool :=
  if ((decide (c < 48)) || (decide (c > 57))) then .ret true else .next ()

theorem cn_fold : ∀ (s : List Nat) (fuel : Nat), s.length ≤ fuel →
    foldC cnStep (runesF fuel (bytes s)) () = if allDigits s then .next () else .ret true := by
  intro s
  induction s with
  | nil => intro fuel _; cases fuel <;> simp [runesF, bytes, foldC, allDigits]
  | cons b t ih =>
    intro fuel hf
    obtain ⟨f, rfl⟩ : ∃ f, fuel = f + 1 := ⟨fuel - 1, by simp at hf; omega⟩
    have hb : bytes (b :: t) = (b : Int) :: bytes t := by simp [bytes]
    rw [hb]
    simp only [runesF, foldC]
    by_cases h : (b : Int) < 128
    · rw [decodeRune_ascii _ _ h]
      simp only [Nat.sub_self, List.drop_zero]
      by_cases hd : isDigitByte b = true
      · have hd' := hd
        simp only [isDigitByte, Bool.and_eq_true, decide_eq_true_eq] at hd'
        have c1 : ¬ ((b : Int) < 48) := by omega
        have c2 : ¬ ((b : Int) > 57) := by omega
        simp only [cnStep, c1, c2, decide_false, Bool.or_false, Bool.false_eq_true, if_false]
        rw [ih f (by simp at hf; omega)]
        simp [allDigits, hd]
      · have hd' := hd
        simp only [isDigitByte, Bool.and_eq_true, decide_eq_true_eq, Classical.not_and_iff_not_or_not] at hd'
        have c : ((decide ((b : Int) < 48)) || (decide ((b : Int) > 57))) = true := by
          simp only [Bool.or_eq_true, decide_eq_true_eq]; omega
        simp only [cnStep, c, if_true]
        simp [allDigits, hd]
    · have hh := decodeRune_high (b : Int) (bytes t) (by omega)
      have c : ((decide ((decodeRune ((b : Int) :: bytes t)).1 < 48)) || (decide ((decodeRune ((b : Int) :: bytes t)).1 > 57))) = true := by
        simp only [Bool.or_eq_true, decide_eq_true_eq]; omega
      simp only [cnStep, c, if_true]
      have hd : isDigitByte b = false := by
        simp only [isDigitByte, Bool.and_eq_false_iff, decide_eq_false_iff_not]; omega
      simp [allDigits, hd]

when_kernel Gzx.Gen.K03w.checkNumeric in
/-- `onedWriter_checkNumeric(contents)` for EVERY byte string: an error iff some byte is not an ASCII digit
    (a byte ≥ 0x80 decodes to a rune ≥ 0x80 or to U+FFFD, never to a digit) -/
theorem k_checkNumeric_eq (s : List Nat) :
    Gen.K03w.checkNumeric (bytes s) = .ok (!allDigits s) := by
  simp only [Gen.K03w.checkNumeric]
  rw [loop_up1' (runes (bytes s)) cnStep 0 (runes (bytes s)).length (by simp)
      (body := Gen.K03w.checkNumeric_body1 (bytes s))
      (fun i h st => by
        -- shape-robust: decide the model's two comparisons, then let `simp` evaluate the GENERATED test
        unfold Gen.K03w.checkNumeric_body1
        rw [idx_ofNat _ _ h]
        simp only [tryC_ok, cnStep]
        try (generalize (runes (bytes s))[i] = c
             by_cases h1 : c < 48 <;> by_cases h2 : c > 57 <;> simp [h1, h2] <;> (try omega)))
      (by rw [tripUp_one]; simp [len]) (by simp)]
  rw [List.drop_zero, List.take_of_length_le (by simp), runes, cn_fold s _ (by simp [bytes])]
  cases allDigits s <;> rfl

when_kernel Gzx.Gen.K03w.checkNumeric in
example : Gen.K03w.checkNumeric (bytes [49, 50, 0xC3, 0xA9]) = .ok true := by decide

/-! ## shared pieces of the UPC/EAN encoders -/

when_kernel Gzx.Gen.K03w.getStandardUPCEANChecksum in
theorem k_getStandardUPCEANChecksum_eq (s : List Nat) (hs : ∀ b ∈ s, b < 256) :
    Gen.K03w.getStandardUPCEANChecksum (bytes s) =
      .ok (match eanChecksumB s with
           | .ok v => (v, false)
           | .error _ => (0, true)) :=
  Obligations.K10.k_getStandardUPCEANChecksum_eq s hs

when_kernel Gzx.Gen.K03w.checkStandardUPCEANChecksum in
theorem k_checkStandardUPCEANChecksum_eq (s : List Nat) (hs : ∀ b ∈ s, b < 256) :
    Gen.K03w.checkStandardUPCEANChecksum (bytes s) =
      .ok (match checkStandardB s with
           | .ok b => (b, false)
           | .error _ => (false, true)) :=
  Obligations.K10.k_checkStandardUPCEANChecksum_eq s hs

theorem eanChecksumB_range (s : List Nat) (c : Int) (h : eanChecksumB s = .ok c) : -10 < c ∧ c < 10 := by
  unfold eanChecksumB at h
  split at h
  · injection h with h; subst h
    unfold eanCheckDigit goCheckOf
    split <;> omega
  · cases h

theorem itoa_small (c : Int) (h1 : -10 < c) (h2 : c < 10) : itoa c = bytes (itoaSmall c) := by
  have : c = -9 ∨ c = -8 ∨ c = -7 ∨ c = -6 ∨ c = -5 ∨ c = -4 ∨ c = -3 ∨ c = -2 ∨ c = -1 ∨ c = 0 ∨ c = 1 ∨ c = 2 ∨
      c = 3 ∨ c = 4 ∨ c = 5 ∨ c = 6 ∨ c = 7 ∨ c = 8 ∨ c = 9 := by omega
  rcases this with h | h | h | h | h | h | h | h | h | h | h | h | h | h | h | h | h | h | h <;> subst h <;> decide

theorem bytes_append (a b : List Nat) : bytes (a ++ b) = bytes a ++ bytes b := by simp [bytes]

/-- row `i` of a table of run-width patterns (the empty pattern outside the table) -/
def rowAt (L : List (List Nat)) (i : Nat) : List Nat := L[i]?.getD []

/-- a model table as the Go `[][]int` -/
def rows (L : List (List Nat)) : List (List Int) := L.map (·.map Int.ofNat)

theorem idxRow_rows (L : List (List Nat)) (i : Nat) (e : Int) (he : e = (i : Int)) (h : i < L.length) :
    idxRow (rows L) e = .ok ((rowAt L i).map Int.ofNat) := by
  subst he
  unfold idxRow rows rowAt
  have h0 : ¬ ((i : Int) < 0) := by omega
  simp [h0, h]

theorem nth_rowAt (L : List (List Nat)) (i : Nat) (h : i < L.length) : nth L i = .ok (rowAt L i) := by
  unfold nth rowAt; simp [h]

theorem appendPattern_length (ws : List Nat) (c : Bool) : (OneD.appendPattern ws c).length = OneD.sumL ws := by
  induction ws generalizing c with
  | nil => rfl
  | cons w ws ih => simp [OneD.appendPattern, OneD.sumL, ih]

/-- total width and modules of the patterns `pats a, …, pats (a+k-1)` drawn one after the other in colour `c` -/
def segW (pats : Nat → List Nat) (a k : Nat) : Nat := ((List.range' a k).map (fun i => OneD.sumL (pats i))).sum
def segM (pats : Nat → List Nat) (c : Bool) (a k : Nat) : List Bool :=
  ((List.range' a k).map (fun i => OneD.appendPattern (pats i) c)).flatten

/-- a counted loop each of whose iterations draws one pattern behind what is drawn already -/
theorem draw_loop (body : Int → (List Int × Int) → Ctl (List Int × Int) ρ) (pats : Nat → List Nat) (c : Bool) :
    ∀ (k a : Nat) (done rest : List Int),
      (∀ i, a ≤ i → i < a + k → ∀ done rest, body (i : Int) (done ++ rest, (done.length : Int)) =
        drawn done rest (OneD.sumL (pats i)) (b01 (OneD.appendPattern (pats i) c))) →
      loop body 1 k (a : Int) (done ++ rest, (done.length : Int)) =
        drawn done rest (segW pats a k) (b01 (segM pats c a k)) := by
  intro k
  induction k with
  | zero => intro a done rest _; simp [loop, drawn, segW, segM, b01]
  | succ k ih =>
    intro a done rest hb
    rw [loop_succ, hb a (Nat.le_refl a) (by omega)]
    have hW : segW pats a (k + 1) = OneD.sumL (pats a) + segW pats (a + 1) k := by
      simp [segW, List.range'_succ]
    have hM : segM pats c a (k + 1) = OneD.appendPattern (pats a) c ++ segM pats c (a + 1) k := by
      simp [segM, List.range'_succ]
    unfold drawn
    by_cases h1 : OneD.sumL (pats a) ≤ rest.length
    · simp only [h1, if_true]
      have e1 : done ++ b01 (OneD.appendPattern (pats a) c) ++ rest.drop (OneD.sumL (pats a)) =
          (done ++ b01 (OneD.appendPattern (pats a) c)) ++ rest.drop (OneD.sumL (pats a)) := rfl
      have e2 : ((done.length + OneD.sumL (pats a) : Nat) : Int) =
          (((done ++ b01 (OneD.appendPattern (pats a) c)).length : Nat) : Int) := by
        simp [b01_length, appendPattern_length]
      have e3 : (a : Int) + 1 = ((a + 1 : Nat) : Int) := by omega
      rw [e1, e2, e3, ih (a + 1) _ _ (fun i h1 h2 => hb i (by omega) (by omega))]
      unfold drawn
      simp only [List.length_drop, hW, hM, b01_append, List.length_append, b01_length, appendPattern_length, List.drop_drop]
      by_cases h2 : segW pats (a + 1) k ≤ rest.length - OneD.sumL (pats a)
      · have h3 : OneD.sumL (pats a) + segW pats (a + 1) k ≤ rest.length := by omega
        have ea : done.length + OneD.sumL (pats a) + segW pats (a + 1) k =
            done.length + (OneD.sumL (pats a) + segW pats (a + 1) k) := by omega
        have h4 : segW pats (a + 1) k + OneD.sumL (pats a) ≤ rest.length := by omega
        simp only [h2, h4, if_true, List.append_assoc, ea, Nat.add_comm (OneD.sumL (pats a))]
      · have h3 : ¬ OneD.sumL (pats a) + segW pats (a + 1) k ≤ rest.length := by omega
        simp only [h2, h3, if_false]
    · have h3 : ¬ segW pats a (k + 1) ≤ rest.length := by omega
      simp only [h1, h3, if_false]

when_kernel Gzx.Gen.K03w.appendPattern in
/-- `onedWriter_appendPattern` in the position it has inside an encoder: behind `done`, any position expression -/
theorem ap_at (done rest : List Int) (p : Int) (pat : List Nat) (c : Bool) (hp : p = (done.length : Int)) :
    Gen.K03w.appendPattern (done ++ rest) p (pat.map Int.ofNat) c =
      if OneD.sumL pat ≤ rest.length then
        .ok (((OneD.sumL pat : Nat) : Int), done ++ b01 (OneD.appendPattern pat c) ++ rest.drop (OneD.sumL pat))
      else .error oob := by
  subst hp; exact k_appendPattern_eq done rest pat c

theorem digit_of_all {full : List Nat} (h : allDigits full = true) (i : Nat) (hi : i < full.length) :
    48 ≤ full[i] ∧ full[i] ≤ 57 := by
  have := (List.all_eq_true.mp h) full[i] (List.getElem_mem hi)
  simpa [isDigitByte] using this

theorem lt256_of_all {full : List Nat} (h : allDigits full = true) : ∀ b ∈ full, b < 256 := by
  intro b hb
  have := (List.all_eq_true.mp h) b hb
  simp [isDigitByte] at this; omega

theorem wrap8_digit (v : Nat) (h1 : 48 ≤ v) (h2 : v ≤ 57) : wrap 8 ((v : Int) - 48) = ((v - 48 : Nat) : Int) := by
  have e8 : ((2 : Int) ^ 8) = 256 := by decide
  simp only [wrap, e8]; omega

/-! ## tables of the UPC/EAN writers: the regenerated literals are the model's reference tables -/

when_kernel Gzx.Gen.K03w.ean8Encode in
theorem tbl_L : Gen.K03w.tbl2_UPCEANReader_L_PATTERNS = rows refTables.lPatterns := by decide
when_kernel Gzx.Gen.K03w.ean8Encode in
theorem tbl_SE : Gen.K03w.tbl_UPCEANReader_START_END_PATTERN = refTables.startEnd.map Int.ofNat := by decide
when_kernel Gzx.Gen.K03w.ean8Encode in
theorem tbl_MID : Gen.K03w.tbl_UPCEANReader_MIDDLE_PATTERN = refTables.middle.map Int.ofNat := by decide

/-- the L pattern of the digit at position `i` of a digit string -/
def lPat (full : List Nat) (i : Nat) : List Nat := rowAt refTables.lPatterns ((full[i]?.getD 48) - 48)

theorem lRow_sum : ∀ i, i < 10 → OneD.sumL (rowAt refTables.lPatterns i) = 7 := by decide

theorem lPat_sum (full : List Nat) (h : allDigits full = true) (i : Nat) (hi : i < full.length) :
    OneD.sumL (lPat full i) = 7 := by
  obtain ⟨h1, h2⟩ := digit_of_all h i hi
  unfold lPat
  rw [List.getElem?_eq_getElem hi]
  exact lRow_sum _ (by simp only [Option.getD_some]; omega)

/-- one iteration `digit := contents[i]-'0'; pos += appendPattern(result, pos, L_PATTERNS[digit], c)` -/
def IsLStep (body : Int → (List Int × Int) → Ctl (List Int × Int) ρ) (full : List Nat) (c : Bool) : Prop :=
  ∀ i, i < full.length → ∀ done rest, body (i : Int) (done ++ rest, (done.length : Int)) =
    drawn done rest (OneD.sumL (lPat full i)) (b01 (OneD.appendPattern (lPat full i) c))

when_kernel Gzx.Gen.K03w.appendPattern in
/-- the shape-independent part of an L-pattern iteration -/
theorem lstep_core (full : List Nat) (h : allDigits full = true) (i : Nat) (hi : i < full.length) (c : Bool)
    (done rest : List Int) (k : Int × List Int → Ctl (List Int × Int) ρ)
    (hk : ∀ t, k t = .next (t.2, (done.length : Int) + t.1)) :
    (tryC (idx (bytes full) (i : Int)) fun t =>
      tryC (idxRow (rows refTables.lPatterns) (wrap 8 (t - 48))) fun row =>
      tryC (Gen.K03w.appendPattern (done ++ rest) (done.length : Int) row c) k) =
    drawn done rest (OneD.sumL (lPat full i)) (b01 (OneD.appendPattern (lPat full i) c)) := by
  obtain ⟨h1, h2⟩ := digit_of_all h i hi
  rw [idx_ofNat _ _ (by simpa [bytes] using hi), bytes_getElem]
  simp only [tryC_ok]
  rw [wrap8_digit _ h1 h2, idxRow_rows _ (full[i] - 48) _ rfl (by show full[i] - 48 < 10; omega)]
  simp only [tryC_ok]
  rw [ap_at done rest _ _ c rfl]
  have e : lPat full i = rowAt refTables.lPatterns (full[i] - 48) := by
    unfold lPat; rw [List.getElem?_eq_getElem hi]; rfl
  rw [e]
  unfold drawn
  split
  · simp only [tryC_ok, hk, Int.natCast_add]
  · rfl

when_kernel Gzx.Gen.K03w.ean8Encode in
theorem ean8_steps (full : List Nat) (h : allDigits full = true) :
    IsLStep (ρ := List Int × Bool) (Gen.K03w.ean8Encode_body1 (bytes full)) full false ∧
    IsLStep (ρ := List Int × Bool) (Gen.K03w.ean8Encode_body2 (bytes full)) full true ∧
    IsLStep (ρ := List Int × Bool) (Gen.K03w.ean8Encode_body3 (bytes full)) full false ∧
    IsLStep (ρ := List Int × Bool) (Gen.K03w.ean8Encode_body4 (bytes full)) full true := by
  refine ⟨?_, ?_, ?_, ?_⟩ <;> intro i hi done rest
  · simp only [Gen.K03w.ean8Encode_body1, tbl_L]
    exact lstep_core full h i hi false done rest _ (fun t => rfl)
  · simp only [Gen.K03w.ean8Encode_body2, tbl_L]
    exact lstep_core full h i hi true done rest _ (fun t => rfl)
  · simp only [Gen.K03w.ean8Encode_body3, tbl_L]
    exact lstep_core full h i hi false done rest _ (fun t => rfl)
  · simp only [Gen.K03w.ean8Encode_body4, tbl_L]
    exact lstep_core full h i hi true done rest _ (fun t => rfl)

theorem mapM_range'_ok {α : Type} (f : Nat → Res α) (g : Nat → α) : ∀ (k a : Nat),
    (∀ i, a ≤ i → i < a + k → f i = .ok (g i)) → (List.range' a k).mapM f = .ok ((List.range' a k).map g) := by
  intro k
  induction k with
  | zero => intro a _; rfl
  | succ k ih =>
    intro a h
    rw [List.range'_succ, List.mapM_cons, h a (Nat.le_refl a) (by omega), ih (a + 1) (fun i h1 h2 => h i (by omega) (by omega))]
    rfl

/-- `draw_loop` with the trip count, start index and position as side conditions (for `rw` against generated code) -/
theorem draw_at (body : Int → (List Int × Int) → Ctl (List Int × Int) ρ) (pats : Nat → List Nat) (c : Bool)
    (k a : Nat) (done rest : List Int) (n : Nat) (i0 p : Int)
    (hb : ∀ i, a ≤ i → i < a + k → ∀ done rest, body (i : Int) (done ++ rest, (done.length : Int)) =
        drawn done rest (OneD.sumL (pats i)) (b01 (OneD.appendPattern (pats i) c)))
    (hn : n = k) (hi : i0 = (a : Int)) (hp : p = (done.length : Int)) :
    loop body 1 n i0 (done ++ rest, p) = drawn done rest (segW pats a k) (b01 (segM pats c a k)) := by
  subst hn hi hp; exact draw_loop body pats c n a done rest hb

theorem segW_const (pats : Nat → List Nat) (w : Nat) : ∀ (k a : Nat), (∀ i, a ≤ i → i < a + k → OneD.sumL (pats i) = w) →
    segW pats a k = k * w := by
  intro k
  induction k with
  | zero => intro a _; simp [segW]
  | succ k ih =>
    intro a h
    have := ih (a + 1) (fun i h1 h2 => h i (by omega) (by omega))
    simp only [segW] at this ⊢
    rw [List.range'_succ, List.map_cons, List.sum_cons, this, h a (Nat.le_refl a) (by omega), Nat.succ_mul]; omega

/-- what an encoder returns for the model's outcome: modules as 0/1 and no error, or no modules and an error
    (every failure of the model's encoders is a WriterException; a model panic would be a panic of the code) -/
def encRes : Res (List Bool) → Res (List Int × Bool)
  | .ok m => .ok (b01 m, false)
  | .error .writer => .ok ([], true)
  | .error e => .error e

/-! ## EAN-8 -/

/-- the modules of a complete 8-digit string -/
def draw8 (full : List Nat) : List Bool :=
  OneD.appendPattern refTables.startEnd true ++ segM (lPat full) false 0 4 ++ OneD.appendPattern refTables.middle false ++
    segM (lPat full) true 4 4 ++ OneD.appendPattern refTables.startEnd true

theorem ean8Modules_of_contents (s full : List Nat) (hc : stdWriterContents 8 s = .ok full) (hl : full.length = 8)
    (hd : allDigits full = true) : ean8Modules refTables s = .ok (draw8 full) := by
  have key : ∀ (a : Nat), a + 4 ≤ 8 → (List.range 4).mapM (fun j => do
      let d ← nth (digitVals full) (j + a); nth refTables.lPatterns d) =
        .ok ((List.range' 0 4).map (fun j => lPat full (j + a))) := by
    intro a ha
    rw [List.range_eq_range', mapM_range'_ok _ (fun j => lPat full (j + a)) 4 0]
    intro i _ hi
    have hi' : i + a < full.length := by omega
    obtain ⟨h1, h2⟩ := digit_of_all hd (i + a) hi'
    have e1 : nth (digitVals full) (i + a) = .ok (full[i + a] - 48) := by
      unfold nth digitVals; simp [hi']
    rw [e1]
    show nth refTables.lPatterns (full[i + a] - 48) = _
    rw [nth_rowAt _ _ (by show full[i + a] - 48 < 10; omega)]
    unfold lPat; rw [List.getElem?_eq_getElem hi']; rfl
  have k0 : (List.range 4).mapM (fun j => do
      let d ← nth (digitVals full) j; nth refTables.lPatterns d) = .ok ((List.range' 0 4).map (lPat full)) :=
    key 0 (by omega)
  have k4 : (List.range 4).mapM (fun j => do
      let d ← nth (digitVals full) (j + 4); nth refTables.lPatterns d) = .ok ((List.range' 4 4).map (lPat full)) :=
    key 4 (by omega)
  unfold ean8Modules
  rw [hc]
  simp only [bind, Except.bind, pure, Except.pure] at k0 k4 ⊢
  simp only [k0, k4, draw8, segM, List.map_map]
  rfl

theorem mk_zeros (n : Nat) : mk (n : Int) = .ok ([] ++ List.replicate n 0) := by
  unfold mk
  have h : ¬ ((n : Int) < 0) := by omega
  simp [h]

theorem se_sum : OneD.sumL refTables.startEnd = 3 := by decide
theorem mid_sum : OneD.sumL refTables.middle = 5 := by decide

when_kernel Gzx.Gen.K03w.ean8Encode in
theorem ean8_same : @Gen.K03w.ean8Encode_body3 = @Gen.K03w.ean8Encode_body1 ∧
    @Gen.K03w.ean8Encode_body4 = @Gen.K03w.ean8Encode_body2 := ⟨rfl, rfl⟩

theorem segM_length (pats : Nat → List Nat) (c : Bool) : ∀ (k a : Nat), (segM pats c a k).length = segW pats a k := by
  intro k
  induction k with
  | zero => intro a; simp [segM, segW]
  | succ k ih =>
    intro a
    have := ih (a + 1)
    simp only [segM, segW] at this ⊢
    rw [List.range'_succ, List.map_cons, List.map_cons, List.flatten_cons, List.length_append, List.sum_cons, this,
      appendPattern_length]

theorem ean8Modules_err (s : List Nat) (h : stdWriterContents 8 s = .error .writer) :
    ean8Modules refTables s = .error .writer := by
  unfold ean8Modules; rw [h]; rfl

/-- the drawing part of `ean8Encoder.encodeWithHints` on a complete digit string `full` (both arms of its length
    switch end in it): goal `tryR (mk 67) … = .ok (b01 (draw8 full), false)` -/
macro "ean8_tail " full:term ", " hd:term : tactic => `(tactic| (
  obtain ⟨s1, s2, _, _⟩ := ean8_steps $full $hd
  have w1 : segW (lPat $full) 0 4 = 28 := segW_const _ 7 4 0 (fun i _ hi => lPat_sum $full $hd i (by omega))
  have w2 : segW (lPat $full) 4 4 = 28 := segW_const _ 7 4 4 (fun i _ hi => lPat_sum $full $hd i (by omega))
  have hmk : mk (67 : Int) = .ok ([] ++ List.replicate 67 0) := by decide
  simp only [hmk, tryR_ok, tbl_SE, tbl_MID]
  rw [ap_at [] _ 0 _ true (by rfl)]
  simp only [se_sum, List.length_replicate, Nat.reduceLeDiff, if_true, tryR_ok]
  rw [draw_at (k := 4) (a := 0) (pats := lPat $full) (c := false) (hb := fun i _ hi => s1 i (by omega))]
  rotate_left
  · decide
  · rfl
  · simp [b01_length, appendPattern_length, se_sum]
  simp only [drawn, w1, List.length_drop, List.length_replicate, Nat.reduceSub, Nat.reduceLeDiff, if_true, next_thenR]
  rw [ap_at]
  rotate_left
  · simp [b01_length, appendPattern_length, se_sum, segM_length, w1]
  simp only [mid_sum, List.length_drop, List.length_replicate, Nat.reduceSub, Nat.reduceLeDiff, if_true, tryR_ok]
  rw [draw_at (k := 4) (a := 4) (pats := lPat $full) (c := true) (hb := fun i _ hi => s2 i (by omega))]
  rotate_left
  · decide
  · rfl
  · simp [b01_length, appendPattern_length, se_sum, mid_sum, segM_length, w1]
  simp only [drawn, w2, List.length_drop, List.length_replicate, Nat.reduceSub, Nat.reduceLeDiff, if_true, next_thenR]
  rw [ap_at]
  rotate_left
  · simp [b01_length, appendPattern_length, se_sum, mid_sum, segM_length, w1, w2]
  simp only [se_sum, List.length_drop, List.length_replicate, Nat.reduceSub, Nat.reduceLeDiff, if_true, tryR_ok]
  simp [draw8, b01_append]))

theorem full_of_check (s : List Nat) (c : Int) (hc : eanChecksumB s = .ok c) (hd : allDigits (s ++ itoaSmall c) = true) :
    (s ++ itoaSmall c).length = s.length + 1 := by
  unfold itoaSmall at hd ⊢
  split at hd
  · simp [allDigits, isDigitByte] at hd
  · rename_i h; simp [h]

when_kernel Gzx.Gen.K03w.ean8Encode in
/-- `ean8Encoder.encodeWithHints(contents)` for EVERY byte string: the model's `ean8Modules` (length switch, check digit
    computed for 7 / verified for 8 characters, digit test, start guard, four L patterns, middle guard, four L patterns
    in the other colour, end guard) as 0/1, or a WriterException -/
theorem k_ean8Encode_eq (s : List Nat) (hs : ∀ b ∈ s, b < 256) :
    Gen.K03w.ean8Encode (bytes s) = encRes (ean8Modules refTables s) := by
  simp only [Gen.K03w.ean8Encode, len, bytes_length, ean8_same.1, ean8_same.2]
  by_cases h8 : s.length = 8
  · have c7 : ((s.length : Int) == 7) = false := by rw [beq_eq_false_iff_ne]; omega
    have c8 : ((s.length : Int) == 8) = true := by rw [beq_iff_eq]; omega
    simp only [c7, c8, Bool.false_eq_true, if_false, if_true, k_checkStandardUPCEANChecksum_eq s hs, tryR_ok,
      k_checkNumeric_eq]
    have hm : stdWriterContents 8 s = match checkStandardB s with
        | .error _ => .error .writer
        | .ok false => .error .writer
        | .ok true => if allDigits s then .ok s else .error .writer := by
      unfold stdWriterContents
      simp only [h8, Nat.reduceAdd, Nat.reduceEqDiff, if_false, if_true]
      rfl
    cases hc : checkStandardB s with
    | error e =>
      rw [hc] at hm
      simp only [ean8Modules_err s hm, encRes]; rfl
    | ok b =>
      rw [hc] at hm
      cases b with
      | false => simp only [ean8Modules_err s hm, encRes]; rfl
      | true =>
        by_cases hd : allDigits s = true
        · simp only [hd, if_true] at hm
          rw [ean8Modules_of_contents s s hm h8 hd]
          simp only [hd, encRes, Bool.not_true, bne_self_eq_false, Bool.false_eq_true, if_false]
          ean8_tail s, hd
        · simp only [hd] at hm
          simp only [ean8Modules_err s hm, encRes, hd]; rfl
  · by_cases h7 : s.length = 7
    · have c7 : ((s.length : Int) == 7) = true := by rw [beq_iff_eq]; omega
      simp only [c7, if_true, k_getStandardUPCEANChecksum_eq s hs, tryR_ok]
      have hm : stdWriterContents 8 s = match eanChecksumB s with
          | .error _ => .error .writer
          | .ok c => if allDigits (s ++ itoaSmall c) then .ok (s ++ itoaSmall c) else .error .writer := by
        unfold stdWriterContents
        simp only [h7, Nat.reduceAdd, if_true]
        rfl
      cases hc : eanChecksumB s with
      | error e =>
        rw [hc] at hm
        simp only [ean8Modules_err s hm, encRes]; rfl
      | ok c =>
        rw [hc] at hm
        obtain ⟨r1, r2⟩ := eanChecksumB_range s c hc
        have hb : bytes s ++ itoa c = bytes (s ++ itoaSmall c) := by rw [itoa_small c r1 r2, bytes_append]
        simp only [bne_self_eq_false, Bool.false_eq_true, if_false, hb, k_checkNumeric_eq, tryR_ok]
        by_cases hd : allDigits (s ++ itoaSmall c) = true
        · simp only [hd, if_true] at hm
          have hl := full_of_check s c hc hd
          rw [ean8Modules_of_contents s _ hm (by omega) hd]
          simp only [hd, encRes, Bool.not_true, bne_self_eq_false, Bool.false_eq_true, if_false]
          ean8_tail (s ++ itoaSmall c), hd
        · simp only [hd] at hm
          simp only [ean8Modules_err s hm, encRes, hd]; rfl
    · have c7 : ((s.length : Int) == 7) = false := by rw [beq_eq_false_iff_ne]; omega
      have c8 : ((s.length : Int) == 8) = false := by rw [beq_eq_false_iff_ne]; omega
      have hm : stdWriterContents 8 s = .error .writer := by
        unfold stdWriterContents
        have n1 : ¬ s.length + 1 = 8 := by omega
        simp only [n1, h8, if_false]
      simp only [c7, c8, Bool.false_eq_true, if_false, ean8Modules_err s hm, encRes]

when_kernel Gzx.Gen.K03w.ean8Encode in
example : Gen.K03w.ean8Encode (bytes [49, 50, 51, 52, 53, 54, 55]) = encRes (ean8Modules refTables [49, 50, 51, 52, 53, 54, 55]) :=
  k_ean8Encode_eq _ (by decide)

/-! ## EAN-13 (and the left half shared with UPC-E): L / G patterns chosen by a parity word -/

/-- the parity test `(parities >> uint(6-i)) & 1 == 1` of the writers -/
theorem parity_bit (p i : Nat) (hi : i ≤ 6) :
    ((GoVal.iand (GoVal.ishr (p : Int) (wrap 64 (6 - (i : Int)))) 1) == 1) = decide ((p / 2 ^ (6 - i)) % 2 = 1) := by
  have e : wrap 64 (6 - (i : Int)) = ((6 - i : Nat) : Int) := by
    rw [wrap_of_lt 64 _ (by omega) (by have : ((2 : Int) ^ 64) = 18446744073709551616 := by decide
                                       omega)]
    omega
  have one : (1 : Int) = ((1 : Nat) : Int) := rfl
  rw [e, ishr_natCast, one, iand_natCast, Nat.shiftRight_eq_div_pow, Nat.and_one_is_mod]
  by_cases h : p / 2 ^ (6 - i) % 2 = 1
  · simp [h]
  · have : p / 2 ^ (6 - i) % 2 = 0 := by omega
    simp [this]

/-- the L-or-G pattern of the digit at position `i` under the parity word `p` -/
def lgPat (full : List Nat) (p : Nat) (i : Nat) : List Nat :=
  rowAt (lAndG refTables.lPatterns) (if (p / 2 ^ (6 - i)) % 2 = 1 then (full[i]?.getD 48) - 48 + 10 else (full[i]?.getD 48) - 48)

theorem lgRow_sum : ∀ i, i < 20 → OneD.sumL (rowAt (lAndG refTables.lPatterns) i) = 7 := by decide

theorem lgPat_sum (full : List Nat) (p : Nat) (h : allDigits full = true) (i : Nat) (hi : i < full.length) :
    OneD.sumL (lgPat full p i) = 7 := by
  obtain ⟨h1, h2⟩ := digit_of_all h i hi
  unfold lgPat
  rw [List.getElem?_eq_getElem hi]
  simp only [Option.getD_some]
  split <;> exact lgRow_sum _ (by omega)

/-- the run-time table `UPCEANReader_L_AND_G_PATTERNS` as the model computes it (the harness compares the table
    `init()` fills with this value) -/
def LG : List (List Int) := rows (lAndG refTables.lPatterns)

/-- one iteration of the left-half loop of the EAN-13 / UPC-E writers -/
def IsLGStep (body : Int → (List Int × Int) → Ctl (List Int × Int) ρ) (full : List Nat) (p : Nat) : Prop :=
  ∀ i, i ≤ 6 → i < full.length → ∀ done rest, body (i : Int) (done ++ rest, (done.length : Int)) =
    drawn done rest (OneD.sumL (lgPat full p i)) (b01 (OneD.appendPattern (lgPat full p i) false))

/-- proof of an `IsLGStep` goal after the body has been unfolded -/
macro "lgstep_tac " full:term ", " p:term ", " h:term : tactic => `(tactic| (
  intro i hi6 hi done rest
  obtain ⟨h1, h2⟩ := digit_of_all $h i hi
  rw [idx_ofNat _ _ (by simpa [bytes] using hi), bytes_getElem]
  simp only [tryC_ok]
  rw [wrap8_digit _ h1 h2, parity_bit _ i hi6]
  have e10 : wrap 8 ((($full[i] - 48 : Nat) : Int) + 10) = (($full[i] - 48 + 10 : Nat) : Int) := by
    have e8 : ((2 : Int) ^ 8) = 256 := by decide
    simp only [wrap, e8]; omega
  rw [e10]
  have erow : ∀ (b : Bool), idxRow LG (if b = true then (($full[i] - 48 + 10 : Nat) : Int) else (($full[i] - 48 : Nat) : Int)) =
      .ok ((rowAt (lAndG refTables.lPatterns) (if b = true then $full[i] - 48 + 10 else $full[i] - 48)).map Int.ofNat) := by
    intro b
    cases b
    · exact idxRow_rows _ _ _ rfl (by show $full[i] - 48 < 20; omega)
    · exact idxRow_rows _ _ _ rfl (by show $full[i] - 48 + 10 < 20; omega)
  rw [erow]
  simp only [tryC_ok]
  rw [ap_at done rest _ _ false rfl]
  have e : lgPat $full $p i = rowAt (lAndG refTables.lPatterns)
      (if decide ($p / 2 ^ (6 - i) % 2 = 1) = true then $full[i] - 48 + 10 else $full[i] - 48) := by
    unfold lgPat; rw [List.getElem?_eq_getElem hi]; simp
  rw [e]
  generalize rowAt (lAndG refTables.lPatterns)
    (if decide ($p / 2 ^ (6 - i) % 2 = 1) = true then $full[i] - 48 + 10 else $full[i] - 48) = pat
  unfold drawn
  by_cases hf : OneD.sumL pat ≤ rest.length
  · simp only [hf, if_true, tryC_ok, Int.natCast_add]
  · simp only [hf, if_false, tryC_error]))

when_kernel Gzx.Gen.K03w.ean13Encode in
theorem ean13_left (full : List Nat) (p : Nat) (h : allDigits full = true) :
    IsLGStep (ρ := List Int × Bool) (Gen.K03w.ean13Encode_body1 LG (bytes full) (p : Int)) full p := by
  unfold IsLGStep
  simp only [Gen.K03w.ean13Encode_body1]
  lgstep_tac full, p, h

when_kernel Gzx.Gen.K03w.ean13Encode in
theorem ean13_right (full : List Nat) (h : allDigits full = true) :
    IsLStep (ρ := List Int × Bool) (Gen.K03w.ean13Encode_body2 LG (bytes full)) full true := by
  intro i hi done rest
  simp only [Gen.K03w.ean13Encode_body2, tbl_L]
  exact lstep_core full h i hi true done rest _ (fun t => rfl)

when_kernel Gzx.Gen.K03w.ean13Encode in
theorem ean13_same : @Gen.K03w.ean13Encode_body3 = @Gen.K03w.ean13Encode_body1 ∧
    @Gen.K03w.ean13Encode_body4 = @Gen.K03w.ean13Encode_body2 := ⟨rfl, rfl⟩

when_kernel Gzx.Gen.K03w.ean13Encode in
theorem tbl_FD : Gen.K03w.tbl_ean13Reader_FIRST_DIGIT_ENCODINGS = refTables.firstDigit.map Int.ofNat := by decide

/-- the parity word of a digit string's first digit -/
def parityOf (full : List Nat) : Nat := (refTables.firstDigit[(full[0]?.getD 48) - 48]?).getD 0

/-- the modules of a complete 13-digit string -/
def draw13 (full : List Nat) : List Bool :=
  OneD.appendPattern refTables.startEnd true ++ segM (lgPat full (parityOf full)) false 1 6 ++
    OneD.appendPattern refTables.middle false ++ segM (lPat full) true 7 6 ++ OneD.appendPattern refTables.startEnd true

theorem nth_digitVals (full : List Nat) (i : Nat) (hi : i < full.length) : nth (digitVals full) i = .ok (full[i] - 48) := by
  unfold nth digitVals; simp [hi]

theorem leftHalf_eq (full : List Nat) (p : Nat) (hl : 7 ≤ full.length) (hd : allDigits full = true) :
    leftHalf refTables (digitVals full) p = .ok (segM (lgPat full p) false 1 6) := by
  have key : (List.range 6).mapM (fun j => do
      let d ← nth (digitVals full) (j + 1)
      nth (lAndG refTables.lPatterns) (if (p / 2 ^ (5 - j)) % 2 = 1 then d + 10 else d)) =
        .ok ((List.range' 0 6).map (fun j => lgPat full p (j + 1))) := by
    rw [List.range_eq_range', mapM_range'_ok _ (fun j => lgPat full p (j + 1)) 6 0]
    intro i _ hi
    have hi' : i + 1 < full.length := by omega
    obtain ⟨h1, h2⟩ := digit_of_all hd (i + 1) hi'
    rw [nth_digitVals full (i + 1) hi']
    show nth (lAndG refTables.lPatterns) (if (p / 2 ^ (5 - i)) % 2 = 1 then full[i + 1] - 48 + 10 else full[i + 1] - 48) = _
    have e56 : 6 - (i + 1) = 5 - i := by omega
    unfold lgPat
    rw [List.getElem?_eq_getElem hi', e56]
    simp only [Option.getD_some]
    split
    · exact nth_rowAt _ _ (by show full[i + 1] - 48 + 10 < 20; omega)
    · exact nth_rowAt _ _ (by show full[i + 1] - 48 < 20; omega)
  unfold leftHalf
  simp only [bind, Except.bind, pure, Except.pure] at key ⊢
  simp only [key, segM, List.map_map]
  rfl

theorem ean13Modules_of_contents (s full : List Nat) (hc : stdWriterContents 13 s = .ok full) (hl : full.length = 13)
    (hd : allDigits full = true) : ean13Modules refTables s = .ok (draw13 full) := by
  have kr : (List.range 6).mapM (fun j => do
      let d ← nth (digitVals full) (j + 7); nth refTables.lPatterns d) = .ok ((List.range' 7 6).map (lPat full)) := by
    have : (List.range 6).mapM (fun j => do
        let d ← nth (digitVals full) (j + 7); nth refTables.lPatterns d) =
          .ok ((List.range' 0 6).map (fun j => lPat full (j + 7))) := by
      rw [List.range_eq_range', mapM_range'_ok _ (fun j => lPat full (j + 7)) 6 0]
      intro i _ hi
      have hi' : i + 7 < full.length := by omega
      obtain ⟨h1, h2⟩ := digit_of_all hd (i + 7) hi'
      rw [nth_digitVals full (i + 7) hi']
      show nth refTables.lPatterns (full[i + 7] - 48) = _
      rw [nth_rowAt _ _ (by show full[i + 7] - 48 < 10; omega)]
      unfold lPat; rw [List.getElem?_eq_getElem hi']; rfl
    exact this
  have h0 : 0 < full.length := by omega
  obtain ⟨h1, h2⟩ := digit_of_all hd 0 h0
  have ef : nth refTables.firstDigit (full[0] - 48) = .ok (parityOf full) := by
    unfold nth parityOf
    rw [List.getElem?_eq_getElem h0]
    have : full[0] - 48 < refTables.firstDigit.length := by show full[0] - 48 < 10; omega
    simp [this]
  unfold ean13Modules
  rw [hc]
  simp only [bind, Except.bind, pure, Except.pure] at kr ⊢
  simp only [nth_digitVals full 0 h0, ef, leftHalf_eq full _ (by omega) hd, kr, draw13, segM, List.map_map]
  rfl

theorem fd_idx (full : List Nat) (hd : allDigits full = true) (h0 : 0 < full.length) :
    idx (refTables.firstDigit.map Int.ofNat) ((full[0] - 48 : Nat) : Int) = .ok ((parityOf full : Nat) : Int) := by
  obtain ⟨h1, h2⟩ := digit_of_all hd 0 h0
  rw [idx_bytes]
  unfold parityOf
  rw [List.getElem?_eq_getElem h0]
  have : full[0] - 48 < refTables.firstDigit.length := by show full[0] - 48 < 10; omega
  simp [this]

theorem ean13Modules_err (s : List Nat) (h : stdWriterContents 13 s = .error .writer) :
    ean13Modules refTables s = .error .writer := by
  unfold ean13Modules; rw [h]; rfl

/-- the drawing part of `ean13Encoder.encodeWithHints` on a complete digit string `full`:
    goal `tryR (idx (bytes full) 0) … = .ok (b01 (draw13 full), false)` -/
macro "ean13_tail " full:term ", " hd:term : tactic => `(tactic| (
  have h0 : 0 < ($full).length := by omega
  obtain ⟨d1, d2⟩ := digit_of_all $hd 0 h0
  have s1 := ean13_left $full (parityOf $full) $hd
  have s2 := ean13_right $full $hd
  have w1 : segW (lgPat $full (parityOf $full)) 1 6 = 42 :=
    segW_const _ 7 6 1 (fun i _ hi => lgPat_sum $full _ $hd i (by omega))
  have w2 : segW (lPat $full) 7 6 = 42 := segW_const _ 7 6 7 (fun i _ hi => lPat_sum $full $hd i (by omega))
  have hmk : mk (95 : Int) = .ok ([] ++ List.replicate 95 0) := by decide
  rw [show ((0 : Int) = ((0 : Nat) : Int)) from rfl, idx_ofNat _ _ (by simpa [bytes] using h0), bytes_getElem]
  simp only [tryR_ok]
  rw [wrap8_digit _ d1 d2, tbl_FD, fd_idx $full $hd h0]
  simp only [hmk, tryR_ok, tbl_SE, tbl_MID]
  rw [ap_at [] _ _ _ true (by rfl)]
  simp only [se_sum, List.length_replicate, Nat.reduceLeDiff, if_true, tryR_ok]
  rw [draw_at (k := 6) (a := 1) (pats := lgPat $full (parityOf $full)) (c := false)
    (hb := fun i _ hi => s1 i (by omega) (by omega))]
  rotate_left
  · decide
  · rfl
  · simp [b01_length, appendPattern_length, se_sum]
  simp only [drawn, w1, List.length_drop, List.length_replicate, Nat.reduceSub, Nat.reduceLeDiff, if_true, next_thenR]
  rw [ap_at]
  rotate_left
  · simp [b01_length, appendPattern_length, se_sum, segM_length, w1]
  simp only [mid_sum, List.length_drop, List.length_replicate, Nat.reduceSub, Nat.reduceLeDiff, if_true, tryR_ok]
  rw [draw_at (k := 6) (a := 7) (pats := lPat $full) (c := true) (hb := fun i _ hi => s2 i (by omega))]
  rotate_left
  · decide
  · rfl
  · simp [b01_length, appendPattern_length, se_sum, mid_sum, segM_length, w1]
  simp only [drawn, w2, List.length_drop, List.length_replicate, Nat.reduceSub, Nat.reduceLeDiff, if_true, next_thenR]
  rw [ap_at]
  rotate_left
  · simp [b01_length, appendPattern_length, se_sum, mid_sum, segM_length, w1, w2]
  simp only [se_sum, List.length_drop, List.length_replicate, Nat.reduceSub, Nat.reduceLeDiff, if_true, tryR_ok]
  simp [draw13, b01_append]))

when_kernel Gzx.Gen.K03w.ean13Encode in
/-- `ean13Encoder.encodeWithHints(contents)` for EVERY byte string, with the run-time table L_AND_G as the model computes
    it: the model's `ean13Modules` (length switch, check digit computed for 12 / verified for 13 characters, digit test,
    parity word of the first digit, start guard, six L/G patterns, middle guard, six L patterns, end guard) as 0/1, or a
    WriterException -/
theorem k_ean13Encode_eq (s : List Nat) (hs : ∀ b ∈ s, b < 256) :
    Gen.K03w.ean13Encode LG (bytes s) = encRes (ean13Modules refTables s) := by
  simp only [Gen.K03w.ean13Encode, len, bytes_length, ean13_same.1, ean13_same.2]
  by_cases h13 : s.length = 13
  · have c12 : ((s.length : Int) == 12) = false := by rw [beq_eq_false_iff_ne]; omega
    have c13 : ((s.length : Int) == 13) = true := by rw [beq_iff_eq]; omega
    simp only [c12, c13, Bool.false_eq_true, if_false, if_true, k_checkStandardUPCEANChecksum_eq s hs, tryR_ok,
      k_checkNumeric_eq]
    have hm : stdWriterContents 13 s = match checkStandardB s with
        | .error _ => .error .writer
        | .ok false => .error .writer
        | .ok true => if allDigits s then .ok s else .error .writer := by
      unfold stdWriterContents
      simp only [h13, Nat.reduceAdd, Nat.reduceEqDiff, if_false, if_true]
      rfl
    cases hc : checkStandardB s with
    | error e =>
      rw [hc] at hm
      simp only [ean13Modules_err s hm, encRes]; rfl
    | ok b =>
      rw [hc] at hm
      cases b with
      | false => simp only [ean13Modules_err s hm, encRes]; rfl
      | true =>
        by_cases hd : allDigits s = true
        · simp only [hd, if_true] at hm
          rw [ean13Modules_of_contents s s hm h13 hd]
          simp only [hd, encRes, Bool.not_true, bne_self_eq_false, Bool.false_eq_true, if_false]
          ean13_tail s, hd
        · simp only [hd] at hm
          simp only [ean13Modules_err s hm, encRes, hd]; rfl
  · by_cases h12 : s.length = 12
    · have c12 : ((s.length : Int) == 12) = true := by rw [beq_iff_eq]; omega
      simp only [c12, if_true, k_getStandardUPCEANChecksum_eq s hs, tryR_ok]
      have hm : stdWriterContents 13 s = match eanChecksumB s with
          | .error _ => .error .writer
          | .ok c => if allDigits (s ++ itoaSmall c) then .ok (s ++ itoaSmall c) else .error .writer := by
        unfold stdWriterContents
        simp only [h12, Nat.reduceAdd, if_true]
        rfl
      cases hc : eanChecksumB s with
      | error e =>
        rw [hc] at hm
        simp only [ean13Modules_err s hm, encRes]; rfl
      | ok c =>
        rw [hc] at hm
        obtain ⟨r1, r2⟩ := eanChecksumB_range s c hc
        have hb : bytes s ++ itoa c = bytes (s ++ itoaSmall c) := by rw [itoa_small c r1 r2, bytes_append]
        simp only [bne_self_eq_false, Bool.false_eq_true, if_false, hb, k_checkNumeric_eq, tryR_ok]
        by_cases hd : allDigits (s ++ itoaSmall c) = true
        · simp only [hd, if_true] at hm
          have hl := full_of_check s c hc hd
          rw [ean13Modules_of_contents s _ hm (by omega) hd]
          simp only [hd, encRes, Bool.not_true, bne_self_eq_false, Bool.false_eq_true, if_false]
          ean13_tail (s ++ itoaSmall c), hd
        · simp only [hd] at hm
          simp only [ean13Modules_err s hm, encRes, hd]; rfl
    · have c12 : ((s.length : Int) == 12) = false := by rw [beq_eq_false_iff_ne]; omega
      have c13 : ((s.length : Int) == 13) = false := by rw [beq_eq_false_iff_ne]; omega
      have hm : stdWriterContents 13 s = .error .writer := by
        unfold stdWriterContents
        have n1 : ¬ s.length + 1 = 13 := by omega
        simp only [n1, h13, if_false]
      simp only [c12, c13, Bool.false_eq_true, if_false, ean13Modules_err s hm, encRes]

when_kernel Gzx.Gen.K03w.ean13Encode in
example : Gen.K03w.ean13Encode LG (bytes (bytesOf "590123412345")) = encRes (ean13Modules refTables (bytesOf "590123412345")) :=
  k_ean13Encode_eq _ (by decide)

/-! ## UPC-E -/

theorem natCast_beq (a b : Nat) : (((a : Int) == (b : Int)) : Bool) = (a == b) := by
  by_cases h : a = b
  · subst h; simp
  · have : ¬ (a : Int) = (b : Int) := by omega
    rw [(beq_eq_false_iff_ne).mpr this, (beq_eq_false_iff_ne).mpr h]

when_kernel Gzx.Gen.K03w.convertUPCEtoUPCA in
/-- `convertUPCEtoUPCA(upce)` for EVERY byte string: the model's expansion, or the slice panic of `upce[1:7]` when
    the string is shorter than 7 -/
theorem k_convertUPCEtoUPCA_eq (u : List Nat) :
    Gen.K03w.convertUPCEtoUPCA (bytes u) =
      match CheckDigit.convertUPCEtoUPCA u with
      | .ok a => .ok (bytes a)
      | .error _ => .error (.panic "slice bounds out of range") := by
  match u with
  | [] | [_] | [_, _] | [_, _, _] | [_, _, _, _] | [_, _, _, _, _] | [_, _, _, _, _, _] =>
    unfold Gen.K03w.convertUPCEtoUPCA CheckDigit.convertUPCEtoUPCA
    simp [bytes, slice]
  | n :: a :: b :: c :: d :: e :: l :: rest =>
    have hs : slice (bytes (n :: a :: b :: c :: d :: e :: l :: rest)) 1 7 = .ok (bytes [a, b, c, d, e, l]) := by
      simp [slice, bytes]; omega
    have h0 : idx (bytes (n :: a :: b :: c :: d :: e :: l :: rest)) 0 = .ok (n : Int) := by simp [idx, bytes]
    have h5 : idx (bytes [a, b, c, d, e, l]) 5 = .ok (l : Int) := by simp [idx, bytes]
    have h4 : idx (bytes [a, b, c, d, e, l]) 4 = .ok (e : Int) := by simp [idx, bytes]
    have s02 : slice (bytes [a, b, c, d, e, l]) 0 2 = .ok (bytes [a, b]) := by simp [slice, bytes]
    have s25 : slice (bytes [a, b, c, d, e, l]) 2 5 = .ok (bytes [c, d, e]) := by simp [slice, bytes]
    have s03 : slice (bytes [a, b, c, d, e, l]) 0 3 = .ok (bytes [a, b, c]) := by simp [slice, bytes]
    have s35 : slice (bytes [a, b, c, d, e, l]) 3 5 = .ok (bytes [d, e]) := by simp [slice, bytes]
    have s04 : slice (bytes [a, b, c, d, e, l]) 0 4 = .ok (bytes [a, b, c, d]) := by simp [slice, bytes]
    have s05 : slice (bytes [a, b, c, d, e, l]) 0 5 = .ok (bytes [a, b, c, d, e]) := by simp [slice, bytes]
    have c48 : (((l : Int) == 48) : Bool) = (l == 48) := natCast_beq l 48
    have c49 : (((l : Int) == 49) : Bool) = (l == 49) := natCast_beq l 49
    have c50 : (((l : Int) == 50) : Bool) = (l == 50) := natCast_beq l 50
    have c51 : (((l : Int) == 51) : Bool) = (l == 51) := natCast_beq l 51
    have c52 : (((l : Int) == 52) : Bool) = (l == 52) := natCast_beq l 52
    simp only [Gen.K03w.convertUPCEtoUPCA, hs, h0, h5, h4, s02, s25, s03, s35, s04, s05, tryR_ok, c48, c49, c50, c51, c52,
      CheckDigit.convertUPCEtoUPCA]
    cases rest with
    | nil =>
      have hl : ¬ ((len (bytes [n, a, b, c, d, e, l]) : Int) ≥ 8) := by simp [len, bytes]
      simp only [hl, decide_false, Bool.false_eq_true, if_false]
      by_cases k1 : l = 48 ∨ l = 49 ∨ l = 50
      · rcases k1 with k | k | k <;> subst k <;> simp [bytes]
      · by_cases k2 : l = 51
        · subst k2; simp [bytes]
        · by_cases k3 : l = 52
          · subst k3; simp [bytes]
          · have n48 : l ≠ 48 := fun h => k1 (Or.inl h)
            have n49 : l ≠ 49 := fun h => k1 (Or.inr (Or.inl h))
            have n50 : l ≠ 50 := fun h => k1 (Or.inr (Or.inr h))
            simp [bytes, n48, n49, n50, k2, k3]
    | cons r rs =>
      have hl : ((len (bytes (n :: a :: b :: c :: d :: e :: l :: r :: rs)) : Int) ≥ 8) := by simp [len, bytes]; omega
      have h7 : idx (bytes (n :: a :: b :: c :: d :: e :: l :: r :: rs)) 7 = .ok (r : Int) := by simp [idx, bytes]
      simp only [hl, decide_true, if_true, h7, tryR_ok]
      by_cases k1 : l = 48 ∨ l = 49 ∨ l = 50
      · rcases k1 with k | k | k <;> subst k <;> simp [bytes]
      · by_cases k2 : l = 51
        · subst k2; simp [bytes]
        · by_cases k3 : l = 52
          · subst k3; simp [bytes]
          · have n48 : l ≠ 48 := fun h => k1 (Or.inl h)
            have n49 : l ≠ 49 := fun h => k1 (Or.inr (Or.inl h))
            have n50 : l ≠ 50 := fun h => k1 (Or.inr (Or.inr h))
            simp [bytes, n48, n49, n50, k2, k3]

end Gzx.Obligations.K03w
