/-
  K03w — the 1-D WRITERS of /repo/oned regenerated on every run (`Gzx.Gen.K03w`, translator kind `funcm` with the
  extension translator/ext_k03w.go) and proved equal, for EVERY contents (byte lists), to the hand-written model
  functions of `Model/OneD.lean` / `Model/CheckDigit.lean` the theorems of Properties/C03, C10, C12 are about.
  A source edit in one of these Go functions breaks the theorem that names it.

  Representation: a `[]bool` module row is a `List Int` of 0/1 (`b01`), a string a `List Int` of bytes (`bytes`),
  an `error` result a `Bool` (every error the encoders return is a WriterException).
-/
import Gzx.Gen.K03w
import Gzx.KernelGuard
import Gzx.Proofs.K10
import Gzx.Proofs.GoMTie
import Gzx.Model.OneD
namespace Gzx.Obligations.K03w
open Gzx Gzx.GoM Gzx.CheckDigit Gzx.OneD

/-- a module row as the Go `[]bool` contents -/
def b01 (bs : List Bool) : List Int := bs.map b2i

theorem b01_append (a b : List Bool) : b01 (a ++ b) = b01 a ++ b01 b := by simp [b01]
theorem b01_replicate (n : Nat) (c : Bool) : b01 (List.replicate n c) = List.replicate n (b2i c) := by simp [b01]
theorem b01_length (a : List Bool) : (b01 a).length = a.length := by simp [b01]

/-! ## `onedWriter_appendPattern` -/

theorem setIdx_at (done rs : List Int) (r v : Int) :
    setIdx (done ++ r :: rs) (done.length : Int) v = .ok (done ++ v :: rs) := by
  unfold setIdx
  have h0 : ¬ ((done.length : Int) < 0) := by omega
  simp [h0]

theorem setIdx_full (done : List Int) (v : Int) :
    setIdx (done ++ []) (done.length : Int) v = .error oob := by
  unfold setIdx
  have h0 : ¬ ((done.length : Int) < 0) := by omega
  simp [h0]

variable {ρ : Type}

/-- the outcome of drawing `w` more modules behind `done` when `rest` is what is left of the target -/
def drawn (done rest : List Int) (w : Nat) (mods : List Int) : Ctl (List Int × Int) ρ :=
  if w ≤ rest.length then .next (done ++ mods ++ rest.drop w, ((done.length + w : Nat) : Int)) else .panic oob

when_kernel Gzx.Gen.K03w.appendPattern in
/-- the inner loop `for j := 0; j < len; j++ { target[pos] = color; pos++ }` -/
theorem k_appendPattern_fill (c : Bool) : ∀ (n : Nat) (i0 : Int) (done rest : List Int),
    loop (Gen.K03w.appendPattern_body2 c) 1 n i0 (done ++ rest, (done.length : Int)) =
      (drawn done rest n (List.replicate n (b2i c)) : Ctl _ (Int × List Int)) := by
  intro n
  induction n with
  | zero => intro i0 done rest; simp [loop, drawn]
  | succ n ih =>
    intro i0 done rest
    rw [loop_succ]
    cases rest with
    | nil =>
      simp only [Gen.K03w.appendPattern_body2, setIdx_full, tryC_error, drawn]
      simp
    | cons r rs =>
      simp only [Gen.K03w.appendPattern_body2, setIdx_at, tryC_ok]
      have e1 : done ++ b2i c :: rs = (done ++ [b2i c]) ++ rs := by simp
      have e2 : (done.length : Int) + 1 = (((done ++ [b2i c]).length : Nat) : Int) := by simp
      rw [e1, e2, ih]
      simp only [drawn, List.length_cons, List.length_append, List.length_nil, List.drop_succ_cons]
      by_cases h : n ≤ rs.length
      · have h' : n + 1 ≤ rs.length + 1 := by omega
        simp only [h, h', if_true, List.replicate_succ]
        congr 1
        simp [Nat.add_assoc, Nat.add_comm 1 n]
      · have h' : ¬ n + 1 ≤ rs.length + 1 := by omega
        simp only [h, h', if_false]

/-- the colour after a pattern -/
def colorAfter : List Nat → Bool → Bool
  | [], c => c
  | _ :: ws, c => colorAfter ws (!c)

/-- one iteration of the outer loop of `onedWriter_appendPattern`, as a function of the run length read -/
def apStep (len : Int) (st : List Int × Int × Bool × Int) : Ctl (List Int × Int × Bool × Int) (Int × List Int) :=
  (loop (Gen.K03w.appendPattern_body2 st.2.2.1) 1 (tripUp 0 len 1) 0 (st.1, st.2.1)).thenC fun s =>
    .next (s.1, s.2, !st.2.2.1, st.2.2.2 + len)

when_kernel Gzx.Gen.K03w.appendPattern in
theorem k_appendPattern_fold : ∀ (pat : List Nat) (c : Bool) (done rest : List Int) (k : Int),
    foldC apStep (pat.map Int.ofNat) (done ++ rest, (done.length : Int), c, k) =
      if OneD.sumL pat ≤ rest.length then
        .next (done ++ b01 (OneD.appendPattern pat c) ++ rest.drop (OneD.sumL pat), ((done.length + OneD.sumL pat : Nat) : Int),
               colorAfter pat c, k + (OneD.sumL pat : Nat))
      else .panic oob := by
  intro pat
  induction pat with
  | nil => intro c done rest k; simp [foldC, OneD.sumL, OneD.appendPattern, b01, colorAfter]
  | cons w ws ih =>
    intro c done rest k
    have hs : OneD.sumL (w :: ws) = w + OneD.sumL ws := by simp [OneD.sumL]
    simp only [List.map_cons, foldC, apStep]
    have ht : tripUp 0 (Int.ofNat w) 1 = w := by rw [tripUp_one]; simp
    rw [ht, k_appendPattern_fill, drawn]
    by_cases h1 : w ≤ rest.length
    · simp only [h1, if_true, next_thenC]
      have e1 : done ++ List.replicate w (b2i c) ++ rest.drop w = (done ++ List.replicate w (b2i c)) ++ rest.drop w := rfl
      have e2 : ((done.length + w : Nat) : Int) = (((done ++ List.replicate w (b2i c)).length : Nat) : Int) := by simp
      rw [e1, e2, ih]
      simp only [List.length_drop, hs, colorAfter, OneD.appendPattern, b01_append, b01_replicate,
        List.length_append, List.length_replicate, List.drop_drop]
      by_cases h2 : OneD.sumL ws ≤ rest.length - w
      · have h3 : w + OneD.sumL ws ≤ rest.length := by omega
        simp only [h2, h3, if_true]
        have ea : w + OneD.sumL ws = OneD.sumL ws + w := by omega
        have eb : done.length + w + OneD.sumL ws = done.length + (OneD.sumL ws + w) := by omega
        have ec : k + Int.ofNat w + ((OneD.sumL ws : Nat) : Int) = k + ((OneD.sumL ws + w : Nat) : Int) := by
          simp only [Int.ofNat_eq_natCast]; omega
        simp only [List.append_assoc, ea, eb, ec]
      · have h3 : ¬ w + OneD.sumL ws ≤ rest.length := by omega
        simp only [h2, h3, if_false]
    · have h3 : ¬ w + OneD.sumL ws ≤ rest.length := by omega
      simp only [h1, hs, h3, if_false, panic_thenC]

when_kernel Gzx.Gen.K03w.appendPattern in
/-- `onedWriter_appendPattern(target, pos, pattern, startColor)` for every target, every position inside it
    (`target = done ++ rest`, `pos = len(done)`), every pattern and colour: the model's `appendPattern` written
    over the next `Σ pattern` cells and `Σ pattern` returned — or the index panic exactly when the pattern does
    not fit -/
theorem k_appendPattern_eq (done rest : List Int) (pat : List Nat) (c : Bool) :
    Gen.K03w.appendPattern (done ++ rest) (done.length : Int) (pat.map Int.ofNat) c =
      if OneD.sumL pat ≤ rest.length then
        .ok (((OneD.sumL pat : Nat) : Int), done ++ b01 (OneD.appendPattern pat c) ++ rest.drop (OneD.sumL pat))
      else .error oob := by
  simp only [Gen.K03w.appendPattern]
  rw [loop_up1' (pat.map Int.ofNat) apStep 0 pat.length (by simp) (body := Gen.K03w.appendPattern_body1 (pat.map Int.ofNat))
      (fun i h st => by
        unfold Gen.K03w.appendPattern_body1
        rw [idx_ofNat _ _ h]
        rfl)
      (by rw [tripUp_one]; simp [len]) (by simp)]
  rw [List.drop_zero, List.take_of_length_le (by simp), k_appendPattern_fold]
  by_cases h : OneD.sumL pat ≤ rest.length <;> simp [h]

example : Gen.K03w.appendPattern [0, 0, 0, 0, 0, 0, 0] 1 [1, 2, 1] true = .ok (4, [0, 1, 0, 0, 1, 0, 0]) := by decide
example : Gen.K03w.appendPattern [0, 0, 0] 1 [1, 2, 1] true = .error oob := by decide

/-! ## `onedWriter_checkNumeric` (`for _, c := range contents`: the runes of the string) -/

theorem decodeRune_ascii (b : Int) (rest : List Int) (h : b < 128) : decodeRune (b :: rest) = (b, 1) := by
  simp [decodeRune, h]

theorem decodeRune_high (b : Int) (rest : List Int) (h : 128 ≤ b) : 128 ≤ (decodeRune (b :: rest)).1 := by
  unfold decodeRune
  have h0 : ¬ b < 128 := by omega
  simp only [h0, if_false]
  repeat' split
  all_goals (try simp only [isCont, Bool.and_eq_true, decide_eq_true_eq] at *)
  all_goals (try omega)
  all_goals (split <;> omega)

/-- the digit test of `checkNumeric`, on a rune -/
def cnStep (c : Int) (_ : Unit) : Ctl Unit Bool :=
  if ((decide (c < 48)) || (decide (c > 57))) then .ret true else .next ()

theorem cn_fold : ∀ (s : List Nat) (fuel : Nat), s.length ≤ fuel →
    foldC cnStep (runesF fuel (bytes s)) () = if allDigits s then .next () else .ret true := by
  intro s
  induction s with
  | nil => intro fuel _; cases fuel <;> simp [runesF, bytes, foldC, allDigits]
  | cons b t ih =>
    intro fuel hf
    obtain ⟨f, rfl⟩ : ∃ f, fuel = f + 1 := ⟨fuel - 1, by simp at hf; omega⟩
    have hb : bytes (b :: t) = (b : Int) :: bytes t := by simp [bytes]
    rw [hb]
    simp only [runesF, foldC]
    by_cases h : (b : Int) < 128
    · rw [decodeRune_ascii _ _ h]
      simp only [Nat.sub_self, List.drop_zero]
      by_cases hd : isDigitByte b = true
      · have hd' := hd
        simp only [isDigitByte, Bool.and_eq_true, decide_eq_true_eq] at hd'
        have c1 : ¬ ((b : Int) < 48) := by omega
        have c2 : ¬ ((b : Int) > 57) := by omega
        simp only [cnStep, c1, c2, decide_false, Bool.or_false, Bool.false_eq_true, if_false]
        rw [ih f (by simp at hf; omega)]
        simp [allDigits, hd]
      · have hd' := hd
        simp only [isDigitByte, Bool.and_eq_true, decide_eq_true_eq, Classical.not_and_iff_not_or_not] at hd'
        have c : ((decide ((b : Int) < 48)) || (decide ((b : Int) > 57))) = true := by
          simp only [Bool.or_eq_true, decide_eq_true_eq]; omega
        simp only [cnStep, c, if_true]
        simp [allDigits, hd]
    · have hh := decodeRune_high (b : Int) (bytes t) (by omega)
      have c : ((decide ((decodeRune ((b : Int) :: bytes t)).1 < 48)) || (decide ((decodeRune ((b : Int) :: bytes t)).1 > 57))) = true := by
        simp only [Bool.or_eq_true, decide_eq_true_eq]; omega
      simp only [cnStep, c, if_true]
      have hd : isDigitByte b = false := by
        simp only [isDigitByte, Bool.and_eq_false_iff, decide_eq_false_iff_not]; omega
      simp [allDigits, hd]

when_kernel Gzx.Gen.K03w.checkNumeric in
/-- `onedWriter_checkNumeric(contents)` for EVERY byte string: an error iff some byte is not an ASCII digit
    (a byte ≥ 0x80 decodes to a rune ≥ 0x80 or to U+FFFD, never to a digit) -/
theorem k_checkNumeric_eq (s : List Nat) :
    Gen.K03w.checkNumeric (bytes s) = .ok (!allDigits s) := by
  simp only [Gen.K03w.checkNumeric]
  rw [loop_up1' (runes (bytes s)) cnStep 0 (runes (bytes s)).length (by simp)
      (body := Gen.K03w.checkNumeric_body1 (bytes s))
      (fun i h st => by
        unfold Gen.K03w.checkNumeric_body1
        rw [idx_ofNat _ _ h]
        rfl)
      (by rw [tripUp_one]; simp [len]) (by simp)]
  rw [List.drop_zero, List.take_of_length_le (by simp), runes, cn_fold s _ (by simp [bytes])]
  cases allDigits s <;> rfl

example : Gen.K03w.checkNumeric (bytes [49, 50, 0xC3, 0xA9]) = .ok true := by decide

end Gzx.Obligations.K03w
