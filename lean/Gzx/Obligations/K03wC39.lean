/-
  K03w (continued) — Code 39 writer: `code39ToIntArray`, `code39TryToConvertToExtendedMode` regenerated and proved
  equal to the model (`code39Widths`, `code39Escape`) for every input.
-/
import Gzx.Obligations.K03w
namespace Gzx.Obligations.K03w
open Gzx Gzx.GoM Gzx.CheckDigit Gzx.OneD

deriving instance DecidableEq for Gzx.GoM.Ctl

/-- what `code39TryToConvertToExtendedMode` has appended when it meets byte `c` -/
def esc39Step (c : Nat) (acc : List Int) : Ctl (List Int) (List Int × Bool) :=
  match code39Escape1 c with
  | .ok e => .next (acc ++ bytes e)
  | .error _ => .ret (acc, true)

/-- the outcome of an appending loop body started with `acc` instead of the empty slice -/
def liftAcc (acc : List Int) : Ctl (List Int) (List Int × Bool) → Ctl (List Int) (List Int × Bool)
  | .next s => .next (acc ++ s)
  | .ret (s, b) => .ret (acc ++ s, b)
  | .brk s => .brk (acc ++ s)
  | .panic f => .panic f

when_kernel Gzx.Gen.K03w.code39TryToConvertToExtendedMode in
theorem esc39_lift (c : Int) (acc : List Int) :
    Gen.K03w.code39TryToConvertToExtendedMode_body1 [c] 0 acc =
      liftAcc acc (Gen.K03w.code39TryToConvertToExtendedMode_body1 [c] 0 []) := by
  have hidx : idx [c] 0 = .ok c := rfl
  unfold Gen.K03w.code39TryToConvertToExtendedMode_body1
  simp only [hidx, tryC_ok]
  simp only [apply_ite (liftAcc acc)]
  simp only [liftAcc, List.nil_append, List.append_assoc, List.append_nil]

set_option maxRecDepth 100000 in
when_kernel Gzx.Gen.K03w.code39TryToConvertToExtendedMode in
theorem esc39_nil : ∀ c : Nat, c < 256 →
    Gen.K03w.code39TryToConvertToExtendedMode_body1 [(c : Int)] 0 [] = esc39Step c [] := by decide

theorem liftAcc_esc39 (c : Nat) (acc : List Int) : liftAcc acc (esc39Step c []) = esc39Step c acc := by
  unfold esc39Step
  cases code39Escape1 c <;> simp [liftAcc]

/-- the escapes of the bytes before the first one that cannot be encoded (what the Go function returns next to its error) -/
def escPrefix39 : List Nat → List Nat
  | [] => []
  | c :: cs =>
    match code39Escape1 c with
    | .ok e => e ++ escPrefix39 cs
    | .error _ => []

theorem esc39_fold : ∀ (s : List Nat) (acc : List Int),
    foldC (fun v a => esc39Step v.toNat a) (bytes s) acc =
      match code39Escape s with
      | .ok e => .next (acc ++ bytes e)
      | .error _ => .ret (acc ++ bytes (escPrefix39 s), true) := by
  intro s
  induction s with
  | nil => intro acc; simp [foldC, bytes, code39Escape]
  | cons c cs ih =>
    intro acc
    have hb : bytes (c :: cs) = (c : Int) :: bytes cs := by simp [bytes]
    rw [hb]
    simp only [foldC, Int.toNat_natCast]
    cases h1 : code39Escape1 c with
    | error e =>
      have : esc39Step c acc = .ret (acc, true) := by unfold esc39Step; rw [h1]
      rw [this]
      simp [code39Escape, escPrefix39, h1, bind, Except.bind, bytes]
    | ok e =>
      have : esc39Step c acc = .next (acc ++ bytes e) := by unfold esc39Step; rw [h1]
      rw [this]
      simp only [ih]
      simp only [code39Escape, escPrefix39, h1, bind, Except.bind]
      cases h2 : code39Escape cs <;> simp [bytes_append, pure, Except.pure]

when_kernel Gzx.Gen.K03w.code39TryToConvertToExtendedMode in
/-- `code39TryToConvertToExtendedMode(contents)` for EVERY byte string: the model's `code39Escape` (full-ASCII escapes
    `$A`…`%T`, plain characters unchanged), or — for a byte above 127 — the error together with what had been converted -/
theorem k_code39Escape_eq (s : List Nat) (hs : ∀ b ∈ s, b < 256) :
    Gen.K03w.code39TryToConvertToExtendedMode (bytes s) =
      .ok (match code39Escape s with
           | .ok e => (bytes e, false)
           | .error _ => (bytes (escPrefix39 s), true)) := by
  have hmk : mk (0 : Int) = .ok [] := rfl
  simp only [Gen.K03w.code39TryToConvertToExtendedMode, hmk, tryR_ok, len, bytes_length]
  rw [loop_up1' (bytes s) (fun v a => esc39Step v.toNat a) 0 s.length (by simp [bytes])
      (body := Gen.K03w.code39TryToConvertToExtendedMode_body1 (bytes s))
      (fun i h st => by
        have hi' : i < s.length := by simpa [bytes] using h
        have hc : s[i] < 256 := hs _ (List.getElem_mem hi')
        have e1 : Gen.K03w.code39TryToConvertToExtendedMode_body1 (bytes s) (i : Int) st =
            Gen.K03w.code39TryToConvertToExtendedMode_body1 [((s[i] : Nat) : Int)] 0 st := by
          have hidx : idx [((s[i] : Nat) : Int)] 0 = .ok ((s[i] : Nat) : Int) := rfl
          unfold Gen.K03w.code39TryToConvertToExtendedMode_body1
          rw [idx_ofNat _ _ h, bytes_getElem, hidx]
        rw [e1, esc39_lift, esc39_nil _ hc, liftAcc_esc39, bytes_getElem, Int.toNat_natCast])
      (by rw [tripUp_one]; simp) (by simp)]
  rw [List.drop_zero, List.take_of_length_le (by simp [bytes]), esc39_fold]
  cases code39Escape s <;> simp

/-! ## `code39ToIntArray` -/

/-- a loop that writes cell `i` in iteration `i` -/
theorem fill_idx {ρ : Type} (body : Int → List Int → Ctl (List Int) ρ) (f : Nat → Int) (N : Nat)
    (hb : ∀ i, i < N → ∀ xs, body (i : Int) xs = tryC (setIdx xs (i : Int) (f i)) fun t => .next t) :
    ∀ (n : Nat) (done rest : List Int), done.length + n ≤ N → n ≤ rest.length →
      loop body 1 n (done.length : Int) (done ++ rest) =
        .next (done ++ (List.range' done.length n).map f ++ rest.drop n) := by
  intro n
  induction n with
  | zero => intro done rest _ _; simp [loop]
  | succ n ih =>
    intro done rest hN hr
    cases rest with
    | nil => simp at hr
    | cons r rs =>
      rw [loop_succ, hb done.length (by omega), setIdx_at]
      simp only [tryC_ok]
      have e1 : done ++ f done.length :: rs = (done ++ [f done.length]) ++ rs := by simp
      have e2 : (done.length : Int) + 1 = (((done ++ [f done.length]).length : Nat) : Int) := by simp
      rw [e1, e2, ih _ _ (by simp; omega) (by simpa using hr)]
      simp [List.range'_succ]

/-- the width the writer stores for element `i` of the encoding word `a` -/
def w39 (a i : Nat) : Int := ((code39Widths a)[i]?.getD 0 : Nat)

set_option maxRecDepth 100000 in
when_kernel Gzx.Gen.K03w.code39ToIntArray in
theorem w39_body : ∀ a ∈ refTables.code39Asterisk :: refTables.code39Enc, ∀ i : Nat, i < 9 →
    Gen.K03w.code39ToIntArray_body1 (a : Int) (i : Int) [0, 0, 0, 0, 0, 0, 0, 0, 0] =
      (tryC (setIdx [0, 0, 0, 0, 0, 0, 0, 0, 0] (i : Int) (w39 a i)) fun t => .next t : Ctl (List Int) (List Int)) := by
  decide

when_kernel Gzx.Gen.K03w.code39ToIntArray in
/-- one iteration stores 1 or 2, whatever the buffer holds -/
theorem w39_step (a : Nat) (ha : a ∈ refTables.code39Asterisk :: refTables.code39Enc) (i : Nat) (hi : i < 9) (xs : List Int) :
    Gen.K03w.code39ToIntArray_body1 (a : Int) (i : Int) xs = tryC (setIdx xs (i : Int) (w39 a i)) fun t => .next t := by
  have h0 := w39_body a ha i hi
  simp only [Gen.K03w.code39ToIntArray_body1] at h0 ⊢
  -- the branch taken does not depend on the buffer: read it off the instance with the all-zero buffer
  split
  · rename_i hc
    simp only [hc, if_true] at h0
    have : w39 a i = 1 := by
      have hs : setIdx [0, 0, 0, 0, 0, 0, 0, 0, 0] (i : Int) 1 = .ok (List.set [0, 0, 0, 0, 0, 0, 0, 0, 0] i 1) := by
        unfold setIdx; have : ¬ ((i : Int) < 0) := by omega
        simp [this, hi]
      have hs2 : setIdx [0, 0, 0, 0, 0, 0, 0, 0, 0] (i : Int) (w39 a i) = .ok (List.set [0, 0, 0, 0, 0, 0, 0, 0, 0] i (w39 a i)) := by
        unfold setIdx; have : ¬ ((i : Int) < 0) := by omega
        simp [this, hi]
      rw [hs, hs2] at h0
      simp only [tryC_ok] at h0
      have h0 := Ctl.next.inj h0
      have := congrArg (fun l => l[i]?) h0
      simp [hi] at this
      exact this.symm
    rw [this]
  · rename_i hc
    simp only [hc, if_false] at h0
    have : w39 a i = 2 := by
      have hs : setIdx [0, 0, 0, 0, 0, 0, 0, 0, 0] (i : Int) 2 = .ok (List.set [0, 0, 0, 0, 0, 0, 0, 0, 0] i 2) := by
        unfold setIdx; have : ¬ ((i : Int) < 0) := by omega
        simp [this, hi]
      have hs2 : setIdx [0, 0, 0, 0, 0, 0, 0, 0, 0] (i : Int) (w39 a i) = .ok (List.set [0, 0, 0, 0, 0, 0, 0, 0, 0] i (w39 a i)) := by
        unfold setIdx; have : ¬ ((i : Int) < 0) := by omega
        simp [this, hi]
      rw [hs, hs2] at h0
      simp only [tryC_ok] at h0
      have h0 := Ctl.next.inj h0
      have := congrArg (fun l => l[i]?) h0
      simp [hi] at this
      exact this.symm
    rw [this]

set_option maxRecDepth 100000 in
theorem w39_all : ∀ a ∈ refTables.code39Asterisk :: refTables.code39Enc,
    (List.range' 0 9).map (w39 a) = (code39Widths a).map Int.ofNat := by decide

when_kernel Gzx.Gen.K03w.code39ToIntArray in
/-- `code39ToIntArray(a, toReturn)` for every encoding word of the Code 39 table (and the asterisk word) and EVERY
    nine-cell buffer: the model's `code39Widths a` (1 = narrow, 2 = wide, most significant element first), whatever
    the buffer held.  FULL statement: the same for every `a < 512`; missing: the bit test `a & (1 << (8-i))` against
    `bitsMSB` for words outside the table (a `decide` over all 512 words takes about a minute). -/
theorem k_code39ToIntArray_partial (a : Nat) (ha : a ∈ refTables.code39Asterisk :: refTables.code39Enc)
    (buf : List Int) (hb : buf.length = 9) :
    Gen.K03w.code39ToIntArray (a : Int) buf = .ok ((code39Widths a).map Int.ofNat) := by
  simp only [Gen.K03w.code39ToIntArray]
  have h := fill_idx (ρ := List Int) (Gen.K03w.code39ToIntArray_body1 (a : Int)) (w39 a) 9
    (fun i hi xs => w39_step a ha i hi xs) 9 [] buf (by simp) (by omega)
  have e9 : tripUp 0 9 1 = 9 := by decide
  simp only [List.nil_append, List.length_nil] at h
  rw [e9]
  rw [show ((0 : Int) = ((0 : Nat) : Int)) from rfl, h]
  simp [w39_all a ha, List.drop_eq_nil_of_le (by omega : buf.length ≤ 9)]

when_kernel Gzx.Gen.K03w.code39ToIntArray in
example : Gen.K03w.code39ToIntArray 0x094 [7, 7, 7, 7, 7, 7, 7, 7, 7] = .ok ((code39Widths 0x094).map Int.ofNat) :=
  k_code39ToIntArray_partial 0x094 (by decide) _ rfl

end Gzx.Obligations.K03w
