/-
  K03w (continued) — Code 39 writer: `code39ToIntArray`, `code39TryToConvertToExtendedMode` regenerated and proved
  equal to the model (`code39Widths`, `code39Escape`) for every input.
-/
import Gzx.Obligations.K03w
namespace Gzx.Obligations.K03w
open Gzx Gzx.GoM Gzx.CheckDigit Gzx.OneD

deriving instance DecidableEq for Gzx.GoM.Ctl

/-- what `code39TryToConvertToExtendedMode` has appended when it meets byte `c` -/
def esc39Step (c : Nat) (acc : List Int) : Ctl (List Int) (List Int × Bool) :=
  match code39Escape1 c with
  | .ok e => .next (acc ++ bytes e)
  | .error _ => .ret (acc, true)

/-- the outcome of an appending loop body started with `acc` instead of the empty slice -/
def liftAcc (acc : List Int) : Ctl (List Int) (List Int × Bool) → Ctl (List Int) (List Int × Bool)
  | .next s => .next (acc ++ s)
  | .ret (s, b) => .ret (acc ++ s, b)
  | .brk s => .brk (acc ++ s)
  | .panic f => .panic f

when_kernel Gzx.Gen.K03w.code39TryToConvertToExtendedMode in
theorem esc39_lift (c : Int) (acc : List Int) :
    Gen.K03w.code39TryToConvertToExtendedMode_body1 [c] 0 acc =
      liftAcc acc (Gen.K03w.code39TryToConvertToExtendedMode_body1 [c] 0 []) := by
  have hidx : idx [c] 0 = .ok c := rfl
  unfold Gen.K03w.code39TryToConvertToExtendedMode_body1
  simp only [hidx, tryC_ok]
  simp only [apply_ite (liftAcc acc)]
  simp only [liftAcc, List.nil_append, List.append_assoc, List.append_nil]

set_option maxRecDepth 100000 in
when_kernel Gzx.Gen.K03w.code39TryToConvertToExtendedMode in
theorem esc39_nil : ∀ c : Nat, c < 256 →
    Gen.K03w.code39TryToConvertToExtendedMode_body1 [(c : Int)] 0 [] = esc39Step c [] := by decide

theorem liftAcc_esc39 (c : Nat) (acc : List Int) : liftAcc acc (esc39Step c []) = esc39Step c acc := by
  unfold esc39Step
  cases code39Escape1 c <;> simp [liftAcc]

/-- the escapes of the bytes before the first one that cannot be encoded (what the Go function returns next to its error) -/
def escPrefix39 : List Nat → List Nat
  | [] => []
  | c :: cs =>
    match code39Escape1 c with
    | .ok e => e ++ escPrefix39 cs
    | .error _ => []

theorem esc39_fold : ∀ (s : List Nat) (acc : List Int),
    foldC (fun v a => esc39Step v.toNat a) (bytes s) acc =
      match code39Escape s with
      | .ok e => .next (acc ++ bytes e)
      | .error _ => .ret (acc ++ bytes (escPrefix39 s), true) := by
  intro s
  induction s with
  | nil => intro acc; simp [foldC, bytes, code39Escape]
  | cons c cs ih =>
    intro acc
    have hb : bytes (c :: cs) = (c : Int) :: bytes cs := by simp [bytes]
    rw [hb]
    simp only [foldC, Int.toNat_natCast]
    cases h1 : code39Escape1 c with
    | error e =>
      have : esc39Step c acc = .ret (acc, true) := by unfold esc39Step; rw [h1]
      rw [this]
      simp [code39Escape, escPrefix39, h1, bind, Except.bind, bytes]
    | ok e =>
      have : esc39Step c acc = .next (acc ++ bytes e) := by unfold esc39Step; rw [h1]
      rw [this]
      simp only [ih]
      simp only [code39Escape, escPrefix39, h1, bind, Except.bind]
      cases h2 : code39Escape cs <;> simp [bytes_append, pure, Except.pure]

when_kernel Gzx.Gen.K03w.code39TryToConvertToExtendedMode in
/-- `code39TryToConvertToExtendedMode(contents)` for EVERY byte string: the model's `code39Escape` (full-ASCII escapes
    `$A`…`%T`, plain characters unchanged), or — for a byte above 127 — the error together with what had been converted -/
theorem k_code39Escape_eq (s : List Nat) (hs : ∀ b ∈ s, b < 256) :
    Gen.K03w.code39TryToConvertToExtendedMode (bytes s) =
      .ok (match code39Escape s with
           | .ok e => (bytes e, false)
           | .error _ => (bytes (escPrefix39 s), true)) := by
  have hmk : mk (0 : Int) = .ok [] := rfl
  simp only [Gen.K03w.code39TryToConvertToExtendedMode, hmk, tryR_ok, len, bytes_length]
  rw [loop_up1' (bytes s) (fun v a => esc39Step v.toNat a) 0 s.length (by simp [bytes])
      (body := Gen.K03w.code39TryToConvertToExtendedMode_body1 (bytes s))
      (fun i h st => by
        have hi' : i < s.length := by simpa [bytes] using h
        have hc : s[i] < 256 := hs _ (List.getElem_mem hi')
        have e1 : Gen.K03w.code39TryToConvertToExtendedMode_body1 (bytes s) (i : Int) st =
            Gen.K03w.code39TryToConvertToExtendedMode_body1 [((s[i] : Nat) : Int)] 0 st := by
          have hidx : idx [((s[i] : Nat) : Int)] 0 = .ok ((s[i] : Nat) : Int) := rfl
          unfold Gen.K03w.code39TryToConvertToExtendedMode_body1
          rw [idx_ofNat _ _ h, bytes_getElem, hidx]
        rw [e1, esc39_lift, esc39_nil _ hc, liftAcc_esc39, bytes_getElem, Int.toNat_natCast])
      (by rw [tripUp_one]; simp) (by simp)]
  rw [List.drop_zero, List.take_of_length_le (by simp [bytes]), esc39_fold]
  cases code39Escape s <;> simp

end Gzx.Obligations.K03w
