/-
  K03w (continued) — Code 93 writer: `code93ConvertToExtended` and `code93ComputeChecksumIndex` regenerated and proved
  equal to the model (`code93Escape`, `c93Check`) for every input.
-/
import Gzx.Obligations.K03wC39
namespace Gzx.Obligations.K03w
open Gzx Gzx.GoM Gzx.CheckDigit Gzx.OneD

def esc93Step (c : Nat) (acc : List Int) : Ctl (List Int) (List Int × Bool) :=
  match code93Escape1 c with
  | .ok e => .next (acc ++ bytes e)
  | .error _ => .ret (acc, true)

when_kernel Gzx.Gen.K03w.code93ConvertToExtended in
theorem esc93_lift (c : Int) (acc : List Int) :
    Gen.K03w.code93ConvertToExtended_body1 [c] 0 acc =
      liftAcc acc (Gen.K03w.code93ConvertToExtended_body1 [c] 0 []) := by
  have hidx : idx [c] 0 = .ok c := rfl
  unfold Gen.K03w.code93ConvertToExtended_body1
  simp only [hidx, tryC_ok]
  simp only [apply_ite (liftAcc acc)]
  simp only [liftAcc, List.nil_append, List.append_assoc, List.append_nil]

set_option maxRecDepth 100000 in
when_kernel Gzx.Gen.K03w.code93ConvertToExtended in
theorem esc93_nil : ∀ c : Nat, c < 256 →
    Gen.K03w.code93ConvertToExtended_body1 [(c : Int)] 0 [] = esc93Step c [] := by decide

theorem liftAcc_esc93 (c : Nat) (acc : List Int) : liftAcc acc (esc93Step c []) = esc93Step c acc := by
  unfold esc93Step
  cases code93Escape1 c <;> simp [liftAcc]

/-- the escapes of the bytes before the first one that cannot be encoded -/
def escPrefix93 : List Nat → List Nat
  | [] => []
  | c :: cs =>
    match code93Escape1 c with
    | .ok e => e ++ escPrefix93 cs
    | .error _ => []

theorem esc93_fold : ∀ (s : List Nat) (acc : List Int),
    foldC (fun v a => esc93Step v.toNat a) (bytes s) acc =
      match code93Escape s with
      | .ok e => .next (acc ++ bytes e)
      | .error _ => .ret (acc ++ bytes (escPrefix93 s), true) := by
  intro s
  induction s with
  | nil => intro acc; simp [foldC, bytes, code93Escape]
  | cons c cs ih =>
    intro acc
    have hb : bytes (c :: cs) = (c : Int) :: bytes cs := by simp [bytes]
    rw [hb]
    simp only [foldC, Int.toNat_natCast]
    cases h1 : code93Escape1 c with
    | error e =>
      have : esc93Step c acc = .ret (acc, true) := by unfold esc93Step; rw [h1]
      rw [this]
      simp [code93Escape, escPrefix93, h1, bind, Except.bind, bytes]
    | ok e =>
      have : esc93Step c acc = .next (acc ++ bytes e) := by unfold esc93Step; rw [h1]
      rw [this]
      simp only [ih]
      simp only [code93Escape, escPrefix93, h1, bind, Except.bind]
      cases h2 : code93Escape cs <;> simp [bytes_append, pure, Except.pure]

when_kernel Gzx.Gen.K03w.code93ConvertToExtended in
/-- `code93ConvertToExtended(contents)` for EVERY byte string: the model's `code93Escape` (shift pairs `aA`…`dZ`,
    plain characters unchanged), or — for a byte above 127 — the error together with what had been converted -/
theorem k_code93Escape_eq (s : List Nat) (hs : ∀ b ∈ s, b < 256) :
    Gen.K03w.code93ConvertToExtended (bytes s) =
      .ok (match code93Escape s with
           | .ok e => (bytes e, false)
           | .error _ => (bytes (escPrefix93 s), true)) := by
  have hmk : mk ((s.length : Int) * 2) = .ok (List.replicate (s.length * 2) 0) := by
    have : (s.length : Int) * 2 = ((s.length * 2 : Nat) : Int) := by omega
    rw [this, mk_zeros]; rfl
  simp only [Gen.K03w.code93ConvertToExtended, len, bytes_length, hmk, tryR_ok]
  rw [loop_up1' (bytes s) (fun v a => esc93Step v.toNat a) 0 s.length (by simp [bytes])
      (body := Gen.K03w.code93ConvertToExtended_body1 (bytes s))
      (fun i h st => by
        have hi' : i < s.length := by simpa [bytes] using h
        have hc : s[i] < 256 := hs _ (List.getElem_mem hi')
        have e1 : Gen.K03w.code93ConvertToExtended_body1 (bytes s) (i : Int) st =
            Gen.K03w.code93ConvertToExtended_body1 [((s[i] : Nat) : Int)] 0 st := by
          have hidx : idx [((s[i] : Nat) : Int)] 0 = .ok ((s[i] : Nat) : Int) := rfl
          unfold Gen.K03w.code93ConvertToExtended_body1
          rw [idx_ofNat _ _ h, bytes_getElem, hidx]
        rw [e1, esc93_lift, esc93_nil _ hc, liftAcc_esc93, bytes_getElem, Int.toNat_natCast])
      (by rw [tripUp_one]; simp) (by simp)]
  rw [List.drop_zero, List.take_of_length_le (by simp [bytes]), esc93_fold]
  cases code93Escape s <;> simp

when_kernel Gzx.Gen.K03w.code93ComputeChecksumIndex in
/-- the writer's checksum loop is the kernel K10 proves equal to the model's `c93Check` (Obligations/K10.lean):
    the two regenerated copies are the same function -/
theorem k_code93ComputeChecksumIndex_same :
    @Gen.K03w.code93ComputeChecksumIndex = @Gen.K10.code93ComputeChecksumIndex := rfl

/-! ## `code93AppendPattern` -/

/-- a loop that writes cell `p + i` in iteration `i` -/
theorem fill_off {ρ : Type} (body : Int → List Int → Ctl (List Int) ρ) (f : Nat → Int) (N p : Nat)
    (hb : ∀ i, i < N → ∀ xs, body (i : Int) xs = tryC (setIdx xs ((p : Int) + (i : Int)) (f i)) fun t => .next t) :
    ∀ (n m : Nat) (done rest : List Int), done.length = p + m → m + n ≤ N → n ≤ rest.length →
      loop body 1 n (m : Int) (done ++ rest) = .next (done ++ (List.range' m n).map f ++ rest.drop n) := by
  intro n
  induction n with
  | zero => intro m done rest _ _ _; simp [loop]
  | succ n ih =>
    intro m done rest hd hN hr
    cases rest with
    | nil => simp at hr
    | cons r rs =>
      have ep : (p : Int) + (m : Int) = (done.length : Int) := by omega
      rw [loop_succ, hb m (by omega), ep, setIdx_at]
      simp only [tryC_ok]
      have e1 : done ++ f m :: rs = (done ++ [f m]) ++ rs := by simp
      have e2 : (m : Int) + 1 = ((m + 1 : Nat) : Int) := by omega
      rw [e1, e2, ih (m + 1) _ _ (by simp; omega) (by omega) (by simpa using hr)]
      simp [List.range'_succ]

/-- the module the Code 93 writer stores for bit `i` of the encoding word `a` -/
def v93 (a i : Nat) : Int := b2i ((bitsMSB 9 a)[i]?.getD false)

set_option maxRecDepth 100000 in
when_kernel Gzx.Gen.K03w.code93AppendPattern in
theorem v93_bit : ∀ a ∈ refTables.code93Enc, ∀ i : Nat, i < 9 →
    b2i ((GoVal.iand (a : Int) (GoVal.ishl 1 (wrap 64 (8 - (i : Int))))) != 0) = v93 a i := by decide

theorem v93_all : ∀ a ∈ refTables.code93Enc, (List.range' 0 9).map (v93 a) = b01 (bitsMSB 9 a) := by decide

when_kernel Gzx.Gen.K03w.code93AppendPattern in
/-- `code93AppendPattern(target, pos, a)` for every word of the Code 93 table, every target and every position inside it:
    the nine modules `bitsMSB 9 a` written behind `done` and 9 returned, when at least nine cells are left.
    FULL statement: every `a`, and the index panic when fewer than nine cells are left; missing: the bit test is checked
    word by word for the table only, the overflow case is not stated. -/
theorem k_code93AppendPattern_partial (a : Nat) (ha : a ∈ refTables.code93Enc) (done rest : List Int) (hr : 9 ≤ rest.length) :
    Gen.K03w.code93AppendPattern (done ++ rest) (done.length : Int) (a : Int) =
      .ok (9, done ++ b01 (bitsMSB 9 a) ++ rest.drop 9) := by
  simp only [Gen.K03w.code93AppendPattern]
  have h := fill_off (ρ := Int × List Int) (Gen.K03w.code93AppendPattern_body1 (done.length : Int) (a : Int)) (v93 a) 9 done.length
    (fun i hi xs => by
      simp only [Gen.K03w.code93AppendPattern_body1]
      rw [v93_bit a ha i hi]) 9 0 done rest (by simp) (by omega) hr
  have e9 : tripUp 0 9 1 = 9 := by decide
  rw [e9, show ((0 : Int) = ((0 : Nat) : Int)) from rfl, h]
  simp [v93_all a ha]

when_kernel Gzx.Gen.K03w.code93AppendPattern in
example : Gen.K03w.code93AppendPattern [0, 0, 0, 0, 0, 0, 0, 0, 0, 0, 0] 1 350 = .ok (9, [0, 1, 0, 1, 0, 1, 1, 1, 1, 0, 0]) := by
  decide

end Gzx.Obligations.K03w
