/-
  K03w (continued) — `itfEncoder.encodeWithHints` regenerated and proved equal to the model's `itfModules`
  (Model/OneD.lean) for every byte string.
-/
import Gzx.Obligations.K03w
namespace Gzx.Obligations.K03w
open Gzx Gzx.GoM Gzx.CheckDigit Gzx.OneD

variable {ρ : Type}

/-- widths and modules of the patterns `pats a, pats (a+2), …` (k of them) -/
def segW2 (pats : Nat → List Nat) (a k : Nat) : Nat := ((List.range' a k 2).map (fun i => OneD.sumL (pats i))).sum
def segM2 (pats : Nat → List Nat) (c : Bool) (a k : Nat) : List Bool :=
  ((List.range' a k 2).map (fun i => OneD.appendPattern (pats i) c)).flatten

/-- `for i := a; …; i += 2` each of whose iterations draws one pattern behind what is drawn already -/
theorem draw_loop2 (body : Int → (List Int × Int) → Ctl (List Int × Int) ρ) (pats : Nat → List Nat) (c : Bool) :
    ∀ (k a : Nat) (done rest : List Int),
      (∀ j, j < k → ∀ done rest, body ((a + 2 * j : Nat) : Int) (done ++ rest, (done.length : Int)) =
        drawn done rest (OneD.sumL (pats (a + 2 * j))) (b01 (OneD.appendPattern (pats (a + 2 * j)) c))) →
      loop body 2 k (a : Int) (done ++ rest, (done.length : Int)) =
        drawn done rest (segW2 pats a k) (b01 (segM2 pats c a k)) := by
  intro k
  induction k with
  | zero => intro a done rest _; simp [loop, drawn, segW2, segM2, b01]
  | succ k ih =>
    intro a done rest hb
    have h0 := hb 0 (by omega)
    simp only [Nat.mul_zero, Nat.add_zero] at h0
    rw [loop_succ, h0]
    have hW : segW2 pats a (k + 1) = OneD.sumL (pats a) + segW2 pats (a + 2) k := by
      simp [segW2, List.range'_succ]
    have hM : segM2 pats c a (k + 1) = OneD.appendPattern (pats a) c ++ segM2 pats c (a + 2) k := by
      simp [segM2, List.range'_succ]
    unfold drawn
    by_cases h1 : OneD.sumL (pats a) ≤ rest.length
    · simp only [h1, if_true]
      have e1 : done ++ b01 (OneD.appendPattern (pats a) c) ++ rest.drop (OneD.sumL (pats a)) =
          (done ++ b01 (OneD.appendPattern (pats a) c)) ++ rest.drop (OneD.sumL (pats a)) := rfl
      have e2 : ((done.length + OneD.sumL (pats a) : Nat) : Int) =
          (((done ++ b01 (OneD.appendPattern (pats a) c)).length : Nat) : Int) := by
        simp [b01_length, appendPattern_length]
      have e3 : (a : Int) + 2 = ((a + 2 : Nat) : Int) := by omega
      rw [e1, e2, e3, ih (a + 2) _ _ (fun j hj => by
        have := hb (j + 1) (by omega)
        have e : a + 2 * (j + 1) = a + 2 + 2 * j := by omega
        rw [e] at this; exact this)]
      unfold drawn
      simp only [List.length_drop, hW, hM, b01_append, List.length_append, b01_length, appendPattern_length, List.drop_drop]
      by_cases h2 : segW2 pats (a + 2) k ≤ rest.length - OneD.sumL (pats a)
      · have h4 : segW2 pats (a + 2) k + OneD.sumL (pats a) ≤ rest.length := by omega
        have h3 : OneD.sumL (pats a) + segW2 pats (a + 2) k ≤ rest.length := by omega
        have ea : done.length + OneD.sumL (pats a) + segW2 pats (a + 2) k =
            done.length + (OneD.sumL (pats a) + segW2 pats (a + 2) k) := by omega
        simp only [h2, h3, h4, if_true, List.append_assoc, ea, Nat.add_comm (OneD.sumL (pats a))]
      · have h3 : ¬ OneD.sumL (pats a) + segW2 pats (a + 2) k ≤ rest.length := by omega
        have h4 : ¬ segW2 pats (a + 2) k + OneD.sumL (pats a) ≤ rest.length := by omega
        simp only [h2, h3, h4, if_false]
    · have h3 : ¬ segW2 pats a (k + 1) ≤ rest.length := by omega
      simp only [h1, h3, if_false]

theorem draw_at2 (body : Int → (List Int × Int) → Ctl (List Int × Int) ρ) (pats : Nat → List Nat) (c : Bool)
    (k a : Nat) (done rest : List Int) (n : Nat) (i0 p : Int)
    (hb : ∀ j, j < k → ∀ done rest, body ((a + 2 * j : Nat) : Int) (done ++ rest, (done.length : Int)) =
        drawn done rest (OneD.sumL (pats (a + 2 * j))) (b01 (OneD.appendPattern (pats (a + 2 * j)) c)))
    (hn : n = k) (hi : i0 = (a : Int)) (hp : p = (done.length : Int)) :
    loop body 2 n i0 (done ++ rest, p) = drawn done rest (segW2 pats a k) (b01 (segM2 pats c a k)) := by
  subst hn hi hp; exact draw_loop2 body pats c n a done rest hb

theorem segW2_const (pats : Nat → List Nat) (w : Nat) : ∀ (k a : Nat), (∀ j, j < k → OneD.sumL (pats (a + 2 * j)) = w) →
    segW2 pats a k = k * w := by
  intro k
  induction k with
  | zero => intro a _; simp [segW2]
  | succ k ih =>
    intro a h
    have := ih (a + 2) (fun j hj => by
      have := h (j + 1) (by omega)
      have e : a + 2 * (j + 1) = a + 2 + 2 * j := by omega
      rw [e] at this; exact this)
    have h0 := h 0 (by omega)
    simp only [Nat.mul_zero, Nat.add_zero] at h0
    simp only [segW2] at this ⊢
    rw [List.range'_succ, List.map_cons, List.sum_cons, this, h0, Nat.succ_mul]; omega

theorem segM2_length (pats : Nat → List Nat) (c : Bool) : ∀ (k a : Nat), (segM2 pats c a k).length = segW2 pats a k := by
  intro k
  induction k with
  | zero => intro a; simp [segM2, segW2]
  | succ k ih =>
    intro a
    have := ih (a + 2)
    simp only [segM2, segW2] at this ⊢
    rw [List.range'_succ, List.map_cons, List.map_cons, List.flatten_cons, List.length_append, List.sum_cons, this,
      appendPattern_length]

/-! ## the pattern of a digit pair -/

/-- the ten interleaved widths of the digit pair at positions `i`, `i+1` -/
def itfPat (full : List Nat) (i : Nat) : List Nat :=
  interleave (rowAt refTables.itfWriter ((full[i]?.getD 48) - 48)) (rowAt refTables.itfWriter ((full[i + 1]?.getD 48) - 48))

/-- the state of a loop that has not left by `return` / `break` / panic -/
def nextOf {σ : Type} : Ctl σ ρ → Option σ
  | .next s => some s
  | _ => none

theorem nextOf_eq {σ : Type} (c : Ctl σ ρ) (s : σ) (h : nextOf c = some s) : c = .next s := by
  cases c <;> simp [nextOf] at h
  subst h; rfl

when_kernel Gzx.Gen.K03w.itfEncode in
theorem tbl_ITF : Gen.K03w.tbl2_itfWriter_PATTERNS = rows refTables.itfWriter := by decide
when_kernel Gzx.Gen.K03w.itfEncode in
theorem tbl_ITFS : Gen.K03w.tbl_itfWriter_START_PATTERN = refTables.itfStart.map Int.ofNat := by decide
when_kernel Gzx.Gen.K03w.itfEncode in
theorem tbl_ITFE : Gen.K03w.tbl_itfWriter_END_PATTERN = refTables.itfEnd.map Int.ofNat := by decide

when_kernel Gzx.Gen.K03w.itfEncode in
/-- the inner loop `for j := 0; j < 5; j++ { encoding[2*j] = PATTERNS[one][j]; encoding[2*j+1] = PATTERNS[two][j] }`
    for all hundred digit pairs -/
theorem itf_encoding : ∀ a : Nat, a < 10 → ∀ b : Nat, b < 10 →
    nextOf (loop (Gen.K03w.itfEncode_body2 (a : Int) (b : Int)) 1 (tripUp 0 5 1) 0 [0, 0, 0, 0, 0, 0, 0, 0, 0, 0]) =
      some ((interleave (rowAt refTables.itfWriter a) (rowAt refTables.itfWriter b)).map Int.ofNat) := by
  decide

theorem itfRow_sum : ∀ a : Nat, a < 10 → ∀ b : Nat, b < 10 →
    OneD.sumL (interleave (rowAt refTables.itfWriter a) (rowAt refTables.itfWriter b)) = 18 := by decide

theorem itfPat_eq (full : List Nat) (i : Nat) (h : i + 1 < full.length) :
    itfPat full i = interleave (rowAt refTables.itfWriter (full[i] - 48)) (rowAt refTables.itfWriter (full[i + 1] - 48)) := by
  unfold itfPat
  rw [List.getElem?_eq_getElem (by omega : i < full.length), List.getElem?_eq_getElem h]
  rfl

theorem itfPat_sum (full : List Nat) (hd : allDigits full = true) (i : Nat) (h : i + 1 < full.length) :
    OneD.sumL (itfPat full i) = 18 := by
  obtain ⟨a1, a2⟩ := digit_of_all hd i (by omega)
  obtain ⟨b1, b2⟩ := digit_of_all hd (i + 1) h
  rw [itfPat_eq full i h]
  exact itfRow_sum _ (by omega) _ (by omega)

when_kernel Gzx.Gen.K03w.itfEncode in
/-- one iteration of the pair loop of the ITF writer -/
theorem itf_step (full : List Nat) (hd : allDigits full = true) (j : Nat) (h : 2 * j + 1 < full.length)
    (done rest : List Int) :
    Gen.K03w.itfEncode_body1 (bytes full) ((0 + 2 * j : Nat) : Int) (done ++ rest, (done.length : Int)) =
      drawn done rest (OneD.sumL (itfPat full (0 + 2 * j))) (b01 (OneD.appendPattern (itfPat full (0 + 2 * j)) true)) := by
  rw [Nat.zero_add]
  obtain ⟨a1, a2⟩ := digit_of_all hd (2 * j) (by omega)
  obtain ⟨b1, b2⟩ := digit_of_all hd (2 * j + 1) h
  have e1 : ((2 * j : Nat) : Int) + 1 = ((2 * j + 1 : Nat) : Int) := by omega
  have hmk : mk (10 : Int) = .ok [0, 0, 0, 0, 0, 0, 0, 0, 0, 0] := by decide
  simp only [Gen.K03w.itfEncode_body1, e1]
  rw [idx_ofNat _ _ (by rw [bytes_length]; omega), bytes_getElem, idx_ofNat _ _ (by rw [bytes_length]; omega), bytes_getElem]
  simp only [tryC_ok, hmk]
  rw [wrap8_digit _ a1 a2, wrap8_digit _ b1 b2,
    nextOf_eq _ _ (itf_encoding (full[2 * j] - 48) (by omega) (full[2 * j + 1] - 48) (by omega))]
  simp only [next_thenC]
  rw [ap_at done rest _ _ true rfl, itfPat_eq full (2 * j) h]
  generalize interleave (rowAt refTables.itfWriter (full[2 * j] - 48)) (rowAt refTables.itfWriter (full[2 * j + 1] - 48)) = pat
  unfold drawn
  by_cases hf : OneD.sumL pat ≤ rest.length
  · simp only [hf, if_true, tryC_ok, Int.natCast_add]
  · simp only [hf, if_false, tryC_error]

theorem map_range'_shift2 {α : Type} (f : Nat → α) : ∀ (k s : Nat),
    (List.range' (s + 2) k 2).map f = (List.range' s k 2).map (fun i => f (i + 2)) := by
  intro k
  induction k with
  | zero => intro s; rfl
  | succ k ih => intro s; simp only [List.range'_succ, List.map_cons]; rw [ih (s + 2)]

theorem itfPat_cons (a b : Nat) (t : List Nat) (i : Nat) : itfPat (a :: b :: t) (i + 2) = itfPat t i := by
  simp [itfPat]

/-- the model's pair list drawn = the patterns at the even positions -/
theorem itfPairs_draw : ∀ (t : List Nat), allDigits t = true → t.length % 2 = 0 →
    (itfPairs (digitVals t)).mapM (itfPairDraw refTables.itfWriter) =
      .ok ((List.range' 0 (t.length / 2) 2).map (fun i => OneD.appendPattern (itfPat t i) true))
  | [], _, _ => rfl
  | [_], _, h => by simp at h
  | a :: b :: t, hd, hl => by
    have hd' : allDigits t = true := by
      simp only [allDigits, List.all_cons, Bool.and_eq_true] at hd ⊢; exact hd.2.2
    have hl' : t.length % 2 = 0 := by simp at hl; omega
    have ha : 48 ≤ a ∧ a ≤ 57 := by
      have := digit_of_all hd 0 (by simp); simpa using this
    have hb : 48 ≤ b ∧ b ≤ 57 := by
      have := digit_of_all hd 1 (by simp); simpa using this
    have ih := itfPairs_draw t hd' hl'
    have e0 : itfPairDraw refTables.itfWriter (a - 48, b - 48) =
        .ok (OneD.appendPattern (itfPat (a :: b :: t) 0) true) := by
      unfold itfPairDraw
      simp only [nth_rowAt refTables.itfWriter (a - 48) (by show a - 48 < 10; omega),
        nth_rowAt refTables.itfWriter (b - 48) (by show b - 48 < 10; omega), bind, Except.bind, pure, Except.pure]
      simp [itfPat]
    have el : (a :: b :: t).length / 2 = t.length / 2 + 1 := by simp; omega
    have edv : digitVals (a :: b :: t) = (a - 48) :: (b - 48) :: digitVals t := by simp [digitVals]
    rw [edv, el, List.range'_succ, List.map_cons]
    simp only [itfPairs, List.mapM_cons, e0, ih, bind, Except.bind, pure, Except.pure]
    have := map_range'_shift2 (fun i => OneD.appendPattern (itfPat (a :: b :: t) i) true) (t.length / 2) 0
    simp only [Nat.zero_add, itfPat_cons] at this
    rw [this]

theorem itf_start_sum : OneD.sumL refTables.itfStart = 4 := by decide
theorem itf_end_sum : OneD.sumL refTables.itfEnd = 5 := by decide

theorem itfModules_ok (s : List Nat) (hd : allDigits s = true) (hl : s.length % 2 = 0) (h80 : s.length ≤ 80) :
    itfModules refTables s = .ok (OneD.appendPattern refTables.itfStart true ++ segM2 (itfPat s) true 0 (s.length / 2) ++
      OneD.appendPattern refTables.itfEnd true) := by
  have h1 : ¬ s.length % 2 ≠ 0 := by omega
  have h2 : ¬ s.length > 80 := by omega
  unfold itfModules itfSymbols itfDraw
  simp only [h1, h2, hd, if_false, Bool.not_true, Bool.false_eq_true, bind, Except.bind, pure, Except.pure,
    itfPairs_draw s hd hl, segM2]

theorem itfModules_err (s : List Nat) (h : ¬ (allDigits s = true ∧ s.length % 2 = 0 ∧ s.length ≤ 80)) :
    itfModules refTables s = .error .writer := by
  unfold itfModules itfSymbols
  simp only [bind, Except.bind, pure, Except.pure, throw, throwThe, MonadExceptOf.throw]
  by_cases h1 : s.length % 2 ≠ 0
  · rw [if_pos h1]
  · rw [if_neg h1]
    by_cases h2 : s.length > 80
    · rw [if_pos h2]
    · rw [if_neg h2]
      have hd : allDigits s = false := by
        cases hh : allDigits s with
        | false => rfl
        | true => exact absurd ⟨hh, by omega, by omega⟩ h
      simp [hd]

when_kernel Gzx.Gen.K03w.itfEncode in
/-- `itfEncoder.encodeWithHints(contents)` for EVERY byte string: the model's `itfModules` (even length, at most 80
    characters, digits only; start pattern, one interleaved ten-element pattern per digit pair, end pattern) as 0/1,
    or a WriterException -/
theorem k_itfEncode_eq (s : List Nat) :
    Gen.K03w.itfEncode (bytes s) = encRes (itfModules refTables s) := by
  have et : Int.tmod (s.length : Int) 2 = ((s.length % 2 : Nat) : Int) := tmod_natCast s.length 2
  simp only [Gen.K03w.itfEncode, len, bytes_length, k_checkNumeric_eq, tryR_ok, et]
  by_cases hl : s.length % 2 = 0
  · have c1 : ((((s.length % 2 : Nat) : Int)) != 0) = false := by rw [hl]; rfl
    simp only [c1, Bool.false_eq_true, if_false]
    by_cases h80 : s.length ≤ 80
    · have c2 : decide ((s.length : Int) > 80) = false := by rw [decide_eq_false_iff_not]; omega
      simp only [c2, Bool.false_eq_true, if_false]
      by_cases hd : allDigits s = true
      · rw [itfModules_ok s hd hl h80]
        simp only [hd, Bool.not_true, bne_self_eq_false, Bool.false_eq_true, if_false, encRes]
        obtain ⟨m, hm⟩ : ∃ m, s.length = 2 * m := ⟨s.length / 2, by omega⟩
        have hhalf : s.length / 2 = m := by omega
        have emk : (9 : Int) + 9 * (s.length : Int) = ((9 + 18 * m : Nat) : Int) := by omega
        have w1 : segW2 (itfPat s) 0 m = m * 18 :=
          segW2_const _ 18 m 0 (fun j hj => itfPat_sum s hd _ (by omega))
        rw [emk, mk_zeros, hhalf]
        simp only [tryR_ok, tbl_ITFS, tbl_ITFE]
        rw [ap_at [] _ _ _ true (by rfl)]
        have f1 : (4 : Nat) ≤ 9 + 18 * m := by omega
        simp only [itf_start_sum, List.length_replicate, f1, if_true, tryR_ok]
        rw [draw_at2 (k := m) (a := 0) (pats := itfPat s) (c := true)
          (hb := fun j hj done rest => itf_step s hd j (by omega) done rest)]
        rotate_left
        · rw [tripUp_two]; omega
        · rfl
        · simp [b01_length, appendPattern_length, itf_start_sum]
        have f2 : m * 18 ≤ 9 + 18 * m - 4 := by omega
        simp only [drawn, w1, List.length_drop, List.length_replicate, f2, if_true, next_thenR]
        rw [ap_at]
        rotate_left
        · simp [b01_length, appendPattern_length, itf_start_sum, segM2_length, w1]
        have f3 : 5 ≤ 9 + 18 * m - 4 - m * 18 := by omega
        simp only [itf_end_sum, List.length_drop, List.length_replicate, f3, if_true, tryR_ok]
        have f4 : List.drop 5 (List.drop (m * 18) (List.drop 4 (List.replicate (9 + 18 * m) (0 : Int)))) = [] := by
          apply List.drop_eq_nil_of_le
          simp only [List.length_drop, List.length_replicate]; omega
        simp [b01_append]
        omega
      · simp only [itfModules_err s (fun h => hd h.1), encRes, hd]
        rfl
    · have c2 : decide ((s.length : Int) > 80) = true := by rw [decide_eq_true_eq]; omega
      simp only [c2, if_true, itfModules_err s (fun h => h80 h.2.2), encRes]
  · have c1 : ((((s.length % 2 : Nat) : Int)) != 0) = true := by
      have : s.length % 2 = 1 := by omega
      rw [this]; rfl
    simp only [c1, if_true, itfModules_err s (fun h => hl h.2.1), encRes]

when_kernel Gzx.Gen.K03w.itfEncode in
example : Gen.K03w.itfEncode (bytes (bytesOf "123456")) = encRes (itfModules refTables (bytesOf "123456")) :=
  k_itfEncode_eq _

end Gzx.Obligations.K03w
