/-
  K03w (continued) — `upcEEncoder.encodeWithHints` regenerated and proved equal to the model's `upceModules`
  (Model/OneD.lean, on top of `upceWriterContents` of Model/CheckDigit.lean) for every byte string.
-/
import Gzx.Obligations.K03w
namespace Gzx.Obligations.K03w
open Gzx Gzx.GoM Gzx.CheckDigit Gzx.OneD

theorem conv_ok (u : List Nat) (h : 7 ≤ u.length) : ∃ a, CheckDigit.convertUPCEtoUPCA u = .ok a := by
  match u, h with
  | n :: a :: b :: c :: d :: e :: l :: rest, _ => exact ⟨_, rfl⟩

theorem conv_lt256 (u a : List Nat) (h : CheckDigit.convertUPCEtoUPCA u = .ok a) (hu : ∀ b ∈ u, b < 256) :
    ∀ b ∈ a, b < 256 := by
  match u, h with
  | n :: a1 :: b1 :: c :: d :: e :: l :: rest, h =>
    simp only [CheckDigit.convertUPCEtoUPCA] at h
    injection h with h
    subst h
    have hr : ∀ b ∈ rest.take 1, b < 256 := fun b hb => hu b (by
      have := List.mem_of_mem_take hb
      simp [this])
    intro b hb
    simp only [List.mem_cons, List.mem_append, List.cons_append] at hb
    have hn := hu n (by simp)
    have h1 := hu a1 (by simp)
    have h2 := hu b1 (by simp)
    have h3 := hu c (by simp)
    have h4 := hu d (by simp)
    have h5 := hu e (by simp)
    have h6 := hu l (by simp)
    split at hb <;> (try split at hb) <;> (try split at hb) <;>
      simp only [List.mem_cons, List.mem_nil_iff, or_false] at hb <;>
      (rcases hb with hb | hb
       · omega
       · first
         | (rcases hb with hb | hb
            · repeat (first | omega | (rcases hb with hb | hb)) 
            · exact hr b hb)
         | omega)

when_kernel Gzx.Gen.K03w.upceEncode in
theorem tbl_UE : Gen.K03w.tbl2_upce_NUMSYS_AND_CHECK_DIGIT_PATTERNS = rows refTables.upceParity := by decide
when_kernel Gzx.Gen.K03w.upceEncode in
theorem tbl_END : Gen.K03w.tbl_UPCEANReader_END_PATTERN = refTables.upceEnd.map Int.ofNat := by decide

theorem end_sum : OneD.sumL refTables.upceEnd = 6 := by decide

/-- the parity word of a UPC-E digit string (number system digit, check digit) -/
def parityE (full : List Nat) : Nat :=
  ((rowAt refTables.upceParity ((full[0]?.getD 48) - 48))[(full[7]?.getD 48) - 48]?).getD 0

/-- the modules of a complete UPC-E digit string (8 digits) -/
def drawE (full : List Nat) : List Bool :=
  OneD.appendPattern refTables.startEnd true ++ segM (lgPat full (parityE full)) false 1 6 ++
    OneD.appendPattern refTables.upceEnd false

theorem upceRow_len : ∀ i, i < 2 → (rowAt refTables.upceParity i).length = 10 := by decide

theorem upceModules_of_contents (s full : List Nat) (hc : upceWriterContents s = .ok full) (hl : full.length = 8)
    (hd : allDigits full = true) (hf : full[0]'(by omega) = 48 ∨ full[0]'(by omega) = 49) :
    upceModules refTables s = .ok (drawE full) := by
  have h0 : 0 < full.length := by omega
  have h7 : 7 < full.length := by omega
  obtain ⟨a1, a2⟩ := digit_of_all hd 7 h7
  have hf' : full[0] = 48 ∨ full[0] = 49 := hf
  have e1 : nth refTables.upceParity (full[0] - 48) = .ok (rowAt refTables.upceParity (full[0] - 48)) :=
    nth_rowAt _ _ (by show full[0] - 48 < 2; omega)
  have e2 : nth (rowAt refTables.upceParity (full[0] - 48)) (full[7] - 48) = .ok (parityE full) := by
    unfold nth parityE
    rw [List.getElem?_eq_getElem h0, List.getElem?_eq_getElem h7]
    have : full[7] - 48 < (rowAt refTables.upceParity (full[0] - 48)).length := by
      rw [upceRow_len _ (by omega)]; omega
    simp [this]
  unfold upceModules
  rw [hc]
  simp only [bind, Except.bind, pure, Except.pure]
  simp only [nth_digitVals full 0 h0, nth_digitVals full 7 h7, e1, e2, leftHalf_eq full _ (by omega) hd, drawE]

theorem upceModules_err (s : List Nat) (e : Fault) (h : upceWriterContents s = .error e) :
    upceModules refTables s = .error e := by
  unfold upceModules; rw [h]; rfl

when_kernel Gzx.Gen.K03w.upceEncode in
theorem upce_left (full : List Nat) (p : Nat) (h : allDigits full = true) :
    IsLGStep (ρ := List Int × Bool) (Gen.K03w.upceEncode_body1 LG (bytes full) (p : Int)) full p := by
  unfold IsLGStep
  simp only [Gen.K03w.upceEncode_body1]
  lgstep_tac full, p, h

when_kernel Gzx.Gen.K03w.upceEncode in
theorem upce_same : @Gen.K03w.upceEncode_body2 = @Gen.K03w.upceEncode_body1 := rfl

/-- last stage of `upceWriterContents`: digit test and number-system test -/
def firstOk (full : List Nat) : Res (List Nat) :=
  if !allDigits full then .error .writer
  else match full with
    | f :: _ => if f = 48 ∨ f = 49 then .ok full else .error .writer
    | [] => .error (.panic "index out of range")

theorem uwc_8 (s a : List Nat) (h8 : s.length = 8) (ha : CheckDigit.convertUPCEtoUPCA s = .ok a) :
    upceWriterContents s = match checkStandardB a with
      | .error _ => .error .writer
      | .ok false => .error .writer
      | .ok true => firstOk s := by
  unfold upceWriterContents firstOk
  simp only [h8, ha, Nat.reduceEqDiff, if_false, if_true]
  cases checkStandardB a with
  | error e => rfl
  | ok b => cases b <;> rfl

theorem uwc_7 (s a : List Nat) (h7 : s.length = 7) (ha : CheckDigit.convertUPCEtoUPCA s = .ok a) :
    upceWriterContents s = match eanChecksumB a with
      | .error _ => .error .writer
      | .ok c => firstOk (s ++ itoaSmall c) := by
  unfold upceWriterContents firstOk
  simp only [h7, ha, if_true]
  cases eanChecksumB a with
  | error e => rfl
  | ok c => rfl

theorem firstOk_digits (full : List Nat) (hd : allDigits full = true) (h0 : 0 < full.length) :
    firstOk full = if full[0] = 48 ∨ full[0] = 49 then .ok full else .error .writer := by
  unfold firstOk
  match full, h0 with
  | f :: r, _ => simp [hd]

theorem firstOk_nondigits (full : List Nat) (hd : ¬ allDigits full = true) : firstOk full = .error .writer := by
  unfold firstOk; simp [hd]

theorem wrap8_ne (v : Nat) (h1 : 48 ≤ v) (h2 : v ≤ 57) :
    ((wrap 8 ((v : Int) - 48) != 0) && (wrap 8 ((v : Int) - 48) != 1)) = !(decide (v = 48 ∨ v = 49)) := by
  rw [wrap8_digit v h1 h2]
  by_cases h : v = 48 ∨ v = 49
  · rcases h with h | h <;> subst h <;> decide
  · have a : ((v - 48 : Nat) : Int) ≠ 0 := by omega
    have b : ((v - 48 : Nat) : Int) ≠ 1 := by omega
    simp [h, b]; omega

theorem idx_parityE (full : List Nat) (hd : allDigits full = true) (hl : full.length = 8)
    (hf : full[0]'(by omega) = 48 ∨ full[0]'(by omega) = 49) :
    (tryR (idxRow (rows refTables.upceParity) (((full[0]'(by omega)) - 48 : Nat) : Int)) fun t6 =>
      tryR (idx t6 (((full[7]'(by omega)) - 48 : Nat) : Int)) fun t7 => (Except.ok t7 : Res Int)) = .ok ((parityE full : Nat) : Int) := by
  have h0 : 0 < full.length := by omega
  have h7 : 7 < full.length := by omega
  obtain ⟨a1, a2⟩ := digit_of_all hd 7 h7
  rw [idxRow_rows _ (full[0] - 48) _ rfl (by show full[0] - 48 < 2; omega)]
  simp only [tryR_ok]
  rw [idx_bytes]
  unfold parityE
  rw [List.getElem?_eq_getElem h0, List.getElem?_eq_getElem h7]
  have : full[7] - 48 < (rowAt refTables.upceParity (full[0] - 48)).length := by
    rw [upceRow_len _ (by omega)]; omega
  simp [this]

theorem idx_bytes_at (full : List Nat) (e : Int) (i : Nat) (he : e = (i : Int)) (hi : i < full.length) :
    idx (bytes full) e = .ok ((full[i] : Nat) : Int) := by
  subst he
  rw [idx_ofNat _ _ (by rw [bytes_length]; exact hi), bytes_getElem]

/-- the part of `upcEEncoder.encodeWithHints` behind the check-digit handling, on the 8-character string `full`
    (`hm : upceWriterContents s = firstOk full`, `hl : full.length = 8`):
    goal `(if ((!allDigits full) != false) = true then .ok ([], !allDigits full) else tryR (idx (bytes full) 0) …) = encRes (upceModules refTables s)` -/
macro "upce_tail " s:term ", " full:term ", " hm:term ", " hl:term : tactic => `(tactic| (
  have h0 : 0 < ($full).length := by omega
  have h7 : 7 < ($full).length := by omega
  by_cases hd : allDigits $full = true
  · obtain ⟨d1, d2⟩ := digit_of_all hd 0 h0
    obtain ⟨a1, a2⟩ := digit_of_all hd 7 h7
    have hm' := $hm
    rw [firstOk_digits $full hd h0] at hm'
    simp only [hd, Bool.not_true, bne_self_eq_false, Bool.false_eq_true, if_false]
    rw [idx_bytes_at $full 0 0 rfl h0]
    simp only [tryR_ok]
    rw [wrap8_ne _ d1 d2]
    by_cases hf : ($full)[0] = 48 ∨ ($full)[0] = 49
    · simp only [hf, if_true] at hm'
      rw [upceModules_of_contents $s $full hm' $hl hd hf]
      simp only [hf, decide_true, Bool.not_true, Bool.false_eq_true, if_false, encRes]
      rw [idx_bytes_at $full 7 7 rfl h7]
      simp only [tryR_ok]
      rw [wrap8_digit _ d1 d2, wrap8_digit _ a1 a2, tbl_UE]
      have hp := idx_parityE $full hd $hl hf
      have s1 := upce_left $full (parityE $full) hd
      have w1 : segW (lgPat $full (parityE $full)) 1 6 = 42 :=
        segW_const _ 7 6 1 (fun i _ hi => lgPat_sum $full _ hd i (by omega))
      have hmk : mk (51 : Int) = .ok ([] ++ List.replicate 51 0) := by decide
      revert hp
      cases hr : idxRow (rows refTables.upceParity) ((($full)[0] - 48 : Nat) : Int) with
      | error e => intro hp; simp only [tryR_error] at hp; cases hp
      | ok row =>
        intro hp
        simp only [tryR_ok] at hp ⊢
        cases hq : idx row ((($full)[7] - 48 : Nat) : Int) with
        | error e => rw [hq] at hp; simp only [tryR_error] at hp; cases hp
        | ok pv =>
          rw [hq] at hp
          simp only [tryR_ok] at hp ⊢
          injection hp with hp
          subst hp
          simp only [hmk, tryR_ok, tbl_SE, tbl_END]
          rw [ap_at [] _ _ _ true (by rfl)]
          simp only [se_sum, List.length_replicate, Nat.reduceLeDiff, if_true, tryR_ok]
          rw [draw_at (k := 6) (a := 1) (pats := lgPat $full (parityE $full)) (c := false)
            (hb := fun i _ hi => s1 i (by omega) (by omega))]
          rotate_left
          · decide
          · rfl
          · simp [b01_length, appendPattern_length, se_sum]
          simp only [drawn, w1, List.length_drop, List.length_replicate, Nat.reduceSub, Nat.reduceLeDiff, if_true, next_thenR]
          rw [ap_at]
          rotate_left
          · simp [b01_length, appendPattern_length, se_sum, segM_length, w1]
          simp only [end_sum, List.length_drop, List.length_replicate, Nat.reduceSub, Nat.reduceLeDiff, if_true, tryR_ok]
          simp [drawE, b01_append]
    · simp only [hf, if_false] at hm'
      simp only [upceModules_err $s _ hm', hf, decide_false, Bool.not_false, if_true, encRes]
  · have hm' := $hm
    rw [firstOk_nondigits $full hd] at hm'
    simp only [upceModules_err $s _ hm', encRes, hd]
    rfl))

when_kernel Gzx.Gen.K03w.upceEncode in
/-- `upcEEncoder.encodeWithHints(contents)` for EVERY byte string, with the run-time table L_AND_G as the model computes
    it: the model's `upceModules` (length switch, check digit of the EXPANDED number computed for 7 / verified for 8
    characters, digit test, number system 0 or 1, parity word of number system and check digit, start guard, six L/G
    patterns, end guard) as 0/1, or a WriterException -/
theorem k_upceEncode_eq (s : List Nat) (hs : ∀ b ∈ s, b < 256) :
    Gen.K03w.upceEncode LG (bytes s) = encRes (upceModules refTables s) := by
  simp only [Gen.K03w.upceEncode, len, bytes_length, upce_same]
  by_cases h8 : s.length = 8
  · have c7 : ((s.length : Int) == 7) = false := by rw [beq_eq_false_iff_ne]; omega
    have c8 : ((s.length : Int) == 8) = true := by rw [beq_iff_eq]; omega
    obtain ⟨a, ha⟩ := conv_ok s (by omega)
    have hm := uwc_8 s a h8 ha
    have hcv := k_convertUPCEtoUPCA_eq s
    rw [ha] at hcv
    simp only [c7, c8, Bool.false_eq_true, if_false, if_true, hcv, tryR_ok,
      k_checkStandardUPCEANChecksum_eq a (conv_lt256 s a ha hs), k_checkNumeric_eq]
    cases hc : checkStandardB a with
    | error e =>
      rw [hc] at hm
      simp only [upceModules_err s _ hm, encRes]; rfl
    | ok b =>
      rw [hc] at hm
      cases b with
      | false => simp only [upceModules_err s _ hm, encRes]; rfl
      | true =>
        dsimp only at hm
        simp only [Bool.not_true, bne_self_eq_false, Bool.false_eq_true, if_false]
        upce_tail s, s, hm, h8
  · by_cases h7 : s.length = 7
    · have c7 : ((s.length : Int) == 7) = true := by rw [beq_iff_eq]; omega
      obtain ⟨a, ha⟩ := conv_ok s (by omega)
      have hm := uwc_7 s a h7 ha
      have hcv := k_convertUPCEtoUPCA_eq s
      rw [ha] at hcv
      simp only [c7, if_true, hcv, tryR_ok, k_getStandardUPCEANChecksum_eq a (conv_lt256 s a ha hs)]
      cases hc : eanChecksumB a with
      | error e =>
        rw [hc] at hm
        simp only [upceModules_err s _ hm, encRes]; rfl
      | ok c =>
        rw [hc] at hm
        dsimp only at hm
        obtain ⟨r1, r2⟩ := eanChecksumB_range a c hc
        have hb : bytes s ++ itoa c = bytes (s ++ itoaSmall c) := by rw [itoa_small c r1 r2, bytes_append]
        simp only [bne_self_eq_false, Bool.false_eq_true, if_false, hb, k_checkNumeric_eq, tryR_ok]
        by_cases hl : (s ++ itoaSmall c).length = 8
        · upce_tail s, (s ++ itoaSmall c), hm, hl
        · -- a negative check value: "-d" is not numeric
          have hd : ¬ allDigits (s ++ itoaSmall c) = true := by
            intro hd
            have e1 : (itoaSmall c).length = 1 := by
              unfold itoaSmall at hd ⊢
              split at hd
              · simp [allDigits, isDigitByte] at hd
              · rename_i h; simp [h]
            have e2 : (s ++ itoaSmall c).length = s.length + (itoaSmall c).length := by simp
            omega
          rw [firstOk_nondigits _ hd] at hm
          simp only [upceModules_err s _ hm, encRes, hd]
          rfl
    · have c7 : ((s.length : Int) == 7) = false := by rw [beq_eq_false_iff_ne]; omega
      have c8 : ((s.length : Int) == 8) = false := by rw [beq_eq_false_iff_ne]; omega
      have hm : upceWriterContents s = .error .writer := by
        unfold upceWriterContents
        simp only [h7, h8, if_false]
      simp only [c7, c8, Bool.false_eq_true, if_false, upceModules_err s _ hm, encRes]

when_kernel Gzx.Gen.K03w.upceEncode in
example : Gen.K03w.upceEncode LG (bytes (bytesOf "0123456")) = encRes (upceModules refTables (bytesOf "0123456")) :=
  k_upceEncode_eq _ (by decide)

end Gzx.Obligations.K03w
