/-
  K04 — the two table-construction loops of `NewGenericGF` (exp table by repeated doubling with reduction,
  log table by inversion), regenerated WITH THEIR LOOPS AND SLICE WRITES from /repo on every run
  (`Gzx.Gen.K04.gfTables primitive size`) and evaluated in the kernel for the parameters of every field the
  library defines: the result is exactly the pair of tables of the model field (`GF.mk'`) whose arithmetic
  Properties/C04.lean is about.  (Proved per field by kernel evaluation, not for arbitrary parameters.)
-/
import Gzx.Gen.K04
import Gzx.KernelGuard
import Gzx.Model.GF
namespace Gzx.Obligations.K04
open Gzx Gzx.GF

/-- the model's two tables for (primitive, size), as Go integers -/
def modelTables (prim size : Nat) : Res (List Int × List Int) :=
  let F := mk' prim size 0
  .ok (F.exp.toList.map Int.ofNat, F.log.toList.map Int.ofNat)

when_kernel Gzx.Gen.K04.gfTables in
theorem k_gfTables_qr : Gen.K04.gfTables 0x11D 256 = modelTables 0x11D 256 := by decide +kernel

when_kernel Gzx.Gen.K04.gfTables in
theorem k_gfTables_dataMatrix : Gen.K04.gfTables 0x12D 256 = modelTables 0x12D 256 := by decide +kernel

when_kernel Gzx.Gen.K04.gfTables in
theorem k_gfTables_aztec6 : Gen.K04.gfTables 0x43 64 = modelTables 0x43 64 := by decide +kernel

when_kernel Gzx.Gen.K04.gfTables in
theorem k_gfTables_aztecParam : Gen.K04.gfTables 0x13 16 = modelTables 0x13 16 := by decide +kernel

end Gzx.Obligations.K04
