/-
  K04b — the Reed-Solomon / GF polynomial code of common/reedsolomon/*.go REGENERATED from /repo on every run
  (`Gzx.Gen.K04b`, translator kinds `ambient` / `funcv`, see translator/ext_c04tie.go) and proved equal to the hand-written
  model of Model/GF.lean + Model/RS.lean, about which Properties/C04.lean proves the property (field arithmetic = clmul mod
  p, systematic encoding, zero syndromes, correction of ≤ ⌊r/2⌋ errors).  This file: the field operations.

  Conventions of every K04b theorem
  * the field object `*GenericGF` is the record `fieldRec F` of a model field `F` (its two tables, `zero = [0]`, `one = [1]`,
    size, primitive, generatorBase); `TablesOK F` (size ≥ 2, logarithms < size — implied by the model's `FieldOK`, and
    decidable) is assumed exactly where the code divides by `size-1` or indexes with `size-log-1`;
  * arguments are arbitrary NATURAL numbers / coefficient lists (out-of-range symbols included: the index panic is part of
    the statement); polynomials are non-empty lists (a `*GenericGFPoly` always holds at least one coefficient);
  * a Go `(T, error)` result is `K04bTie.expE`: `(value, false)`, `(zero value, true)` for a checked failure, the panic itself;
  * functions that contain a `for cond` loop take `fuel`; their theorems hold for every sufficiently large fuel.
  Every theorem is guarded by `when_kernel`: a function that leaves the translatable subset loses its theorem (reported as
  skipped, correspondence only), a function whose text changes meaning breaks its theorem by name.
-/
import Gzx.Gen.K04b
import Gzx.KernelGuard
import Gzx.Proofs.K04bTie
namespace Gzx.Obligations.K04b
open Gzx Gzx.GoM Gzx.GoVal Gzx.RS Gzx.K04bTie

/-- the Go field object of a model field -/
def fieldRec (F : GF.GF) : Gen.K04b.GenericGF :=
  { expTable := ints F.exp.toList, logTable := ints F.log.toList, zero := [0], one := [1],
    size := (F.size : Int), primitive := (F.prim : Int), generatorBase := (F.base : Int) }

/-- what the translated code needs of the tables: it divides by `size - 1` and indexes with `size - log - 1` -/
def TablesOK (F : GF.GF) : Prop := 2 ≤ F.size ∧ ∀ x ∈ F.log.toList, x < F.size

instance (F : GF.GF) : Decidable (TablesOK F) := by unfold TablesOK; infer_instance

/-- every entry that the log-table loop of `NewGenericGF` writes is an index below the bound -/
theorem logLoop_lt (B : Nat) : ∀ (es : List Nat) (i : Nat) (acc : List Nat), (∀ x ∈ acc, x < B) → i + es.length ≤ B →
    ∀ x ∈ GF.logLoop es i acc, x < B := by
  intro es
  induction es with
  | nil => intro i acc h _ x hx; exact h x hx
  | cons e es ih =>
    intro i acc h hi x hx
    simp only [GF.logLoop] at hx
    refine ih (i + 1) (acc.set e i) (fun y hy => ?_) (by simp at hi; omega) x hx
    rcases List.mem_or_eq_of_mem_set hy with h1 | h1
    · exact h y h1
    · subst h1; simp at hi; omega

/-- the model's invariant implies what the translated code needs: a field built by `NewGenericGF` from well-formed parameters
    has size ≥ 2 and all logarithms below the size -/
theorem tablesOK_of_fieldOK (F : GF.GF) (h : Gzx.GF.FieldOK F) : TablesOK F := by
  obtain ⟨hF, hP⟩ := h
  refine ⟨hP.2.1, ?_⟩
  rw [hF]
  simp only [GF.mk']
  intro x hx
  refine logLoop_lt F.size _ 0 _ (fun y hy => ?_) ?_ x hx
  · rw [List.mem_replicate] at hy; rw [hy.2]; have := hP.2.1; omega
  · simp; omega

/-! non-vacuity: the library's fields satisfy the hypotheses (all six: `FieldOK` is a per-run obligation in Obligations/C04) -/
example : TablesOK GF.aztecParam := by decide +kernel
example : TablesOK GF.qrCode256 := tablesOK_of_fieldOK _ (Gzx.GF.fieldOK_mk' (by decide +kernel))
example : TablesOK GF.aztecData12 := tablesOK_of_fieldOK _ (Gzx.GF.fieldOK_mk' (by decide +kernel))

when_kernel Gzx.Gen.K04b.gfAddOrSubtract in
/-- `GenericGF_addOrSubtract(a, b)` = xor -/
theorem k_gfAddOrSubtract_eq (a b : Nat) : Gen.K04b.gfAddOrSubtract a b = .ok ((a ^^^ b : Nat) : Int) := by
  simp only [Gen.K04b.gfAddOrSubtract, ixor_natCast]

when_kernel Gzx.Gen.K04b.gfExp in
/-- `GenericGF.Exp(a)` = the model's `expAt` (index panic outside the table included) -/
theorem k_gfExp_eq (F : GF.GF) (a : Nat) : Gen.K04b.gfExp (fieldRec F) a = (F.expAt a).map Int.ofNat := by
  simp only [Gen.K04b.gfExp, fieldRec, GF.GF.expAt]
  rw [idx_arr F.exp _ a rfl]
  cases GF.idx F.exp a <;> rfl

when_kernel Gzx.Gen.K04b.gfExp in
/-- the same with the exponent as an integer expression -/
theorem k_gfExp_eq' (F : GF.GF) (e : Int) (a : Nat) (h : e = a) :
    Gen.K04b.gfExp (fieldRec F) e = (F.expAt a).map Int.ofNat := by
  subst h; exact k_gfExp_eq F a

when_kernel Gzx.Gen.K04b.gfLog in
/-- `GenericGF.Log(a)` = the model's `logOf`: checked error for 0 -/
theorem k_gfLog_eq (F : GF.GF) (a : Nat) : Gen.K04b.gfLog (fieldRec F) a = expE 0 Int.ofNat (F.logOf a) := by
  simp only [Gen.K04b.gfLog, fieldRec, GF.GF.logOf, natCast_beq_zero]
  by_cases h : a = 0
  · simp [h]
  · rw [idx_arr F.log _ a rfl]
    simp only [h, beq_iff_eq, if_false]
    unfold GF.idx
    cases F.log[a]? <;> rfl

when_kernel Gzx.Gen.K04b.gfInverse in
/-- `GenericGF.Inverse(a)` = the model's `inv`: checked error for 0, `expTable[size - logTable[a] - 1]` otherwise -/
theorem k_gfInverse_eq (F : GF.GF) (hF : TablesOK F) (a : Nat) :
    Gen.K04b.gfInverse (fieldRec F) a = expE 0 Int.ofNat (F.inv a) := by
  simp only [Gen.K04b.gfInverse, fieldRec, GF.GF.inv, natCast_beq_zero]
  by_cases h : a = 0
  · simp [h]
  · rw [idx_arr F.log _ a rfl]
    simp only [h, beq_iff_eq, if_false]
    unfold GF.idx
    cases hl : F.log[a]? with
    | none => rfl
    | some l =>
      have hlt : l < F.size := hF.2 l (by
        rw [Array.getElem?_eq_some_iff] at hl
        obtain ⟨hi, rfl⟩ := hl
        exact Array.getElem_mem_toList hi)
      simp only [Except.map, tryR_ok, bind, Except.bind, Int.ofNat_eq_natCast]
      rw [if_neg (by omega), idx_arr F.exp _ (F.size - l - 1) (by omega)]
      unfold GF.idx
      cases F.exp[F.size - l - 1]? <;> rfl

when_kernel Gzx.Gen.K04b.gfMultiply in
/-- `GenericGF.Multiply(a, b)` = the model's `mul`: 0 if an operand is 0, `expTable[(log a + log b) % (size-1)]` otherwise -/
theorem k_gfMultiply_eq (F : GF.GF) (hF : TablesOK F) (a b : Nat) :
    Gen.K04b.gfMultiply (fieldRec F) a b = (F.mul a b).map Int.ofNat := by
  simp only [Gen.K04b.gfMultiply, fieldRec, GF.GF.mul, natCast_beq_zero]
  by_cases h : a = 0 ∨ b = 0
  · have hc : (a == 0 || b == 0) = true := by rcases h with h | h <;> simp [h]
    simp only [hc, if_true, h, Except.map]
    rfl
  · have hc : (a == 0 || b == 0) = false := by
      rw [Bool.or_eq_false_iff, beq_eq_false_iff_ne, beq_eq_false_iff_ne]
      exact ⟨fun e => h (Or.inl e), fun e => h (Or.inr e)⟩
    simp only [hc, h, Bool.false_eq_true, if_false]
    rw [idx_arr F.log _ a rfl, idx_arr F.log _ b rfl]
    cases hla : GF.idx F.log a with
    | error e => rfl
    | ok la =>
      cases hlb : GF.idx F.log b with
      | error e => rfl
      | ok lb =>
        have h2 := hF.1
        have hs : ¬ F.size ≤ 1 := by omega
        simp only [Except.map, tryR_ok, bind, Except.bind, hs, if_false, Int.ofNat_eq_natCast]
        rw [gomod_cast (la + lb) (F.size - 1) (by omega) _ _ (by omega) (by omega)]
        simp only [tryR_ok]
        rw [idx_arr F.exp _ _ rfl]
        cases GF.idx F.exp ((la + lb) % (F.size - 1)) <;> rfl

end Gzx.Obligations.K04b
