/-
  K04b (decoder, part 2) — `ReedSolomonDecoder.findErrorLocations` (Chien search over the field elements 1 … size-1, stopping
  as soon as as many roots are found as the locator's degree) regenerated from /repo on every run and proved equal to the
  model's `findErrorLocations` for ALL locators.  The loop `for i := 1; i < size && e < numErrors; i++` is a `whileLoop` whose
  fuel the translator computes from the header.  Conventions: Obligations/K04b.lean.
-/
import Gzx.Obligations.K04bForney
namespace Gzx.Obligations.K04bChien
open Gzx Gzx.GoM Gzx.GoVal Gzx.RS Gzx.K04bTie Gzx.Obligations.K04b Gzx.Obligations.K04bPoly Gzx.Obligations.K04bDiv
  Gzx.Obligations.K04bForney

/-- how a decoder function `(slice, error)` renders a model result with the decoder's failure reasons -/
def expED : DRes (List Nat) → Res (List Int × Bool)
  | .ok v => .ok (ints v, false)
  | .error (.base (.panic w)) => .error (.panic w)
  | .error (.base .fuel) => .error .fuel
  | .error _ => .ok ([], true)

/-- embedding of the Chien loop's state (found so far, candidate) into the Go state (result slice, e, i) -/
def chienSt (ne : Nat) (t : List Nat × Nat) : List Int × Int × Int :=
  (ints (t.1 ++ List.replicate (ne - t.1.length) 0), (t.1.length : Int), (t.2 : Int))

when_kernel Gzx.Gen.K04b.decFindErrorLocations in
/-- `findErrorLocations(errorLocator)` = the model's `findErrorLocations`: the single root read off a linear locator, otherwise
    the inverses of the roots found by trying 1, 2, … in this order, a checked error ("degree does not match number of roots")
    when fewer are found -/
theorem k_decFindErrorLocations_eq (F : GF.GF) (hF : TablesOK F) (sigma : List Nat) (hs : sigma ≠ []) :
    Gen.K04b.decFindErrorLocations (fieldRec F) (ints sigma) = expED (findErrorLocations F sigma) := by
  have hsl : 0 < sigma.length := List.length_pos_iff.mpr hs
  simp only [Gen.K04b.decFindErrorLocations, findErrorLocations, k_polyGetDegree_eq, tryR_ok]
  dsimp (config := { instances := true }) only [fieldRec_size]
  have hne : (sigma.length : Int) - 1 = ((degree sigma : Nat) : Int) := degree_cast sigma hs
  rw [hne]
  by_cases h1 : degree sigma = 1
  · rw [h1]
    simp only [show ((((1 : Nat) : Int)) == 1) = true from rfl, if_true]
    rw [k_polyGetCoefficient_at _ sigma 1 1 rfl]
    simp only [bind, Except.bind, liftD]
    cases hg : getCoefficient sigma 1 with
    | error e =>
      obtain ⟨w, rfl⟩ := getCoefficient_error hg
      rfl
    | ok c => rfl
  · have hb1 : ((((degree sigma : Nat) : Int)) == 1) = false := by
      rw [show (1 : Int) = ((1 : Nat) : Int) from rfl, natCast_beq]; exact beq_eq_false_iff_ne.mpr h1
    simp only [hb1, Bool.false_eq_true, if_false, h1]
    rw [mk_words _ (degree sigma) rfl]
    simp only [tryR_ok]
    rw [while_map_inv' (chienSt (degree sigma)) (fun t => t.1.length ≤ degree sigma)
      (chienStep F sigma (degree sigma) (([], true) : List Int × Bool)) ([], 1)]
    · have hrun := chien_run F sigma (degree sigma) (([], true) : List Int × Bool) (F.size - 1) 1 []
        (tripUp 1 (F.size : Int) 1 + 1) (by have := hF.1; omega) (by rw [tripUp_one]; omega)
      simp only [bind, Except.bind, liftD]
      cases hch : chien F sigma (degree sigma) (List.range' 1 (F.size - 1)) [] with
      | error e =>
        rw [hch] at hrun
        simp only [] at hrun
        rw [hrun]
        cases e <;> rfl
      | ok found =>
        rw [hch] at hrun
        obtain ⟨i', hi'⟩ := hrun
        rw [hi']
        simp only [mapS_brk, brk_thenR, chienSt, natCast_bne]
        by_cases hfl : found.length = degree sigma
        · have hbn : (found.length != degree sigma) = false := by simpa using hfl
          simp only [hbn, Bool.false_eq_true, if_false]
          simp only [hfl, ne_eq, not_true_eq_false, Nat.sub_self, List.replicate_zero, List.append_nil, if_false]
          rfl
        · have hbn : (found.length != degree sigma) = true := by simpa using hfl
          simp only [hbn, if_true]
          simp only [hfl, ne_eq, not_false_eq_true, if_true]
          rfl
    · simp [chienSt]
    · simp
    · intro t t' ht hstep
      simp only [chienStep] at hstep
      split at hstep
      · rename_i hc
        cases hev : evaluateAt F sigma t.2 with
        | error e => simp only [hev] at hstep; cases hstep
        | ok v =>
          simp only [hev] at hstep
          split at hstep
          · cases hinv : GF.GF.inv F t.2 with
            | error e => simp only [hinv] at hstep; cases e <;> cases hstep
            | ok x => simp only [hinv] at hstep; cases hstep; simp; omega
          · cases hstep; exact ht
      · cases hstep
    · intro t ht
      obtain ⟨acc, i⟩ := t
      dsimp (config := { instances := true }) only [chienSt, chienStep] at ht ⊢
      by_cases hc : i < F.size ∧ acc.length < degree sigma
      · rw [if_pos hc]
        split
        case isFalse hneg =>
          exfalso; apply hneg
          rw [Bool.and_eq_true]
          exact ⟨decide_eq_true (by omega), decide_eq_true (by omega)⟩
        rw [k_polyEvaluateAt_eq F hF]
        cases hev : evaluateAt F sigma i with
        | error e => rfl
        | ok v =>
          simp only [Except.map, tryC_ok, Int.ofNat_eq_natCast, natCast_beq_zero]
          by_cases hv : v = 0
          · subst hv
            simp only [beq_self_eq_true, if_true]
            rw [k_gfInverse_eq F hF]
            have hidx : acc.length < (acc ++ List.replicate (degree sigma - acc.length) 0).length := by simp; omega
            cases hinv : GF.GF.inv F i with
            | error e =>
              cases e with
              | panic w => rfl
              | fuel => rfl
              | illegalArg =>
                simp only [expE_illegal, tryC_ok]
                rw [show (0 : Int) = ((0 : Nat) : Int) from rfl, setIdx_words _ _ _ acc.length 0 (by rfl) (by rfl),
                  setWord_ok _ _ _ hidx]
                rfl
              | notFound =>
                simp only [expE, tryC_ok]
                rw [show (0 : Int) = ((0 : Nat) : Int) from rfl, setIdx_words _ _ _ acc.length 0 (by rfl) (by rfl),
                  setWord_ok _ _ _ hidx]
                rfl
              | checksum =>
                simp only [expE, tryC_ok]
                rw [show (0 : Int) = ((0 : Nat) : Int) from rfl, setIdx_words _ _ _ acc.length 0 (by rfl) (by rfl),
                  setWord_ok _ _ _ hidx]
                rfl
              | format =>
                simp only [expE, tryC_ok]
                rw [show (0 : Int) = ((0 : Nat) : Int) from rfl, setIdx_words _ _ _ acc.length 0 (by rfl) (by rfl),
                  setWord_ok _ _ _ hidx]
                rfl
              | writer =>
                simp only [expE, tryC_ok]
                rw [show (0 : Int) = ((0 : Nat) : Int) from rfl, setIdx_words _ _ _ acc.length 0 (by rfl) (by rfl),
                  setWord_ok _ _ _ hidx]
                rfl
            | ok x =>
              simp only [expE_ok, tryC_ok, Int.ofNat_eq_natCast]
              rw [setIdx_words _ _ _ acc.length x (by rfl) (by rfl), setWord_ok _ _ _ hidx]
              simp only [Except.map, tryC_ok, Bool.false_eq_true, if_false, next_thenC, mapS_next, chienSt]
              congr 2
              · rw [List.set_append_right _ _ (Nat.le_refl _), Nat.sub_self]
                have : degree sigma - acc.length = (degree sigma - (acc ++ [x]).length) + 1 := by simp; omega
                rw [this, List.replicate_succ, List.set_cons_zero]
                simp
              · simp
          · have hvb : (v == 0) = false := beq_eq_false_iff_ne.mpr hv
            simp only [hvb, Bool.false_eq_true, if_false, next_thenC, hv]
            rfl
      · rw [if_neg hc]
        split
        case isTrue hpos =>
          exfalso; apply hc
          rw [Bool.and_eq_true] at hpos
          have h1 := of_decide_eq_true hpos.1
          have h2 := of_decide_eq_true hpos.2
          exact ⟨by omega, by omega⟩
        rfl

end Gzx.Obligations.K04bChien
