/-
  K04b (evaluation checks) — `ReedSolomonEncoder.Encode`, `ReedSolomonDecoder.Decode`, `runEuclideanAlgorithm`,
  `findErrorLocations`, `findErrorMagnitudes` regenerated from /repo on every run (`Gzx.Gen.K04b`).

  NOT THEOREMS (the theorems for all inputs are in Obligations/K04bEnc, K04bForney, K04bChien, K04bEuclid, K04bDecode): this
  file additionally EVALUATES the regenerated definitions (Lean's evaluator, at elaboration time of this module, on every
  check; kernel evaluation of one sample would take minutes) on a structured, fixed sample and fails the build of the module
  when a result differs from the model:
  every single-error word, a spread of double-error words, uncorrectable (triple-error) words and clean words of the (7,3)
  and (15,11) codes over GF(16) (generator base 1) and of a (10,4) code over the QR field GF(256) (generator base 0), malformed
  calls (no parity, no data, empty word, symbol outside the field), encoder calls with garbage in the parity slots.  For each
  sample the regenerated function must return exactly what the model returns (corrected word / checked error / panic; for
  the three inner functions: on the model's own intermediate values).  Purpose: an executable cross-check of the translator's
  run-time library and of the theorem statements (the regenerated code RUNS and gives the model's answers), and a second,
  proof-independent alarm: a change of one of these five functions that alters its result on any sample fails the check named
  after it (reported by bin/check as a broken obligation of this module).
-/
import Gzx.Obligations.K04bEnc
namespace Gzx.Obligations.K04bDec
open Gzx Gzx.GoM Gzx.GoVal Gzx.RS Gzx.K04bTie Gzx.Obligations.K04b Gzx.Obligations.K04bEnc

/-- does a regenerated `(poly-or-slice, error)` result render the model result? -/
def agreesE (g : Res (List Int × Bool)) : DRes (List Nat) → Bool
  | .ok v => g == .ok (ints v, false)
  | .error (.base (.panic w)) => g == .error (.panic w)
  | .error (.base .fuel) => g == .error .fuel
  | .error _ => g == .ok ([], true)

/-- … a `(sigma, omega, error)` result -/
def agreesE2 (g : Res (List Int × List Int × Bool)) : DRes (Poly × Poly) → Bool
  | .ok t => g == .ok (ints t.1, ints t.2, false)
  | .error (.base (.panic w)) => g == .error (.panic w)
  | .error (.base .fuel) => g == .error .fuel
  | .error _ => g == .ok ([], [], true)

/-- … the result of `Decode` (error flag, then the slice `received` after the call): on a checked error the slice may hold
    corrections already applied, only the flag is compared -/
def agreesD (g : Res (Bool × List Int)) : DRes (List Nat) → Bool
  | .ok w => g == .ok (false, ints w)
  | .error (.base (.panic w)) => g == .error (.panic w)
  | .error (.base .fuel) => g == .error .fuel
  | .error _ => match g with | .ok (true, _) => true | _ => false

/-- … the result of `Encode` (error flag, cache, slice after the call) -/
def agreesEnc (g : Res (Bool × List (List Int) × List Int)) (orig : List Nat) : Res (List Nat) → Bool
  | .ok w => match g with | .ok (false, _, w') => w' == ints w | _ => false
  | .error (.panic w) => g == .error (.panic w)
  | .error .fuel => g == .error .fuel
  | .error _ => match g with | .ok (true, _, w') => w' == ints orig | _ => false

/-- `w` with the symbols at the given positions xor-ed with the given values -/
def corrupt (w : List Nat) : List (Nat × Nat) → List Nat
  | [] => w
  | (i, v) :: r => corrupt (w.set i ((w.getD i 0) ^^^ v)) r

/-- sample words around a code word `c` of length `n`: clean, every single error (all positions, `vals` values), a spread of
    double errors, triple errors -/
def sampleWords (c : List Nat) (vals : List Nat) : List (List Nat) :=
  let n := c.length
  [c] ++
  (List.range n).flatMap (fun i => vals.map (fun v => corrupt c [(i, v)])) ++
  (List.range (n - 1)).flatMap (fun i => vals.take 3 |>.map (fun v => corrupt c [(i, v), (n - 1 - i / 2, v + 1)])) ++
  (List.range (n - 2)).map (fun i => corrupt c [(i, 1), (i + 1, 2), (i + 2, 3)])

def word16 : List Nat := (encodeWord GF.aztecParam [5, 11, 2] 4).toOption.getD []
def word16long : List Nat := (encodeWord GF.aztecParam [1, 2, 3, 4, 5, 6, 7, 8, 9, 10, 11] 4).toOption.getD []
def word256 : List Nat := (encodeWord GF.qrCode256 [32, 91, 11, 120] 6).toOption.getD []

/-- GF(16), generator base 1: (7,3) code — 1 + 7·15 + 6·3 + 5 words; and malformed calls -/
def samples16 : List (List Nat × Nat) :=
  (sampleWords word16 (List.range' 1 15)).map (fun w => (w, 4)) ++ (sampleWords word16long [1, 9]).map (fun w => (w, 4)) ++
    [([], 4), ([1, 2, 3], 0), ([3, 20, 1, 0, 0, 0, 0], 4), ([0, 0, 0, 0, 0, 0, 1], 4), ([1, 2, 3, 4, 5, 6, 7, 8, 9, 10, 11, 12, 13, 14, 15, 1, 2], 4)]

/-- GF(256), generator base 0: (10,4) code — clean, single errors with 4 values, double, triple errors -/
def samples256 : List (List Nat × Nat) :=
  (sampleWords word256 [1, 2, 128, 255]).map (fun w => (w, 6)) ++ [([7, 300, 1, 2, 3, 4, 5, 6], 6)]

def fuelFor (w : List Nat) (r : Nat) : Nat := w.length + r + 8

/-! the model's intermediate values for a received word -/
def midSyn (F : GF.GF) (w : List Nat) (r : Nat) : Option (Poly × Poly) :=
  match mkPoly w with
  | .ok poly => match syndromes F poly r 0 with
    | .ok synd => if synd.all (· == 0) then none else
      match mkPoly synd.reverse, buildMonomial r 1 with
      | .ok s, .ok m => some (m, s)
      | _, _ => none
    | _ => none
  | _ => none

when_kernel Gzx.Gen.K04b.decDecode in
/-- `Decode(received, twoS)` on the samples = the model's `decodeD` -/
def k_decDecode_samples_check : Bool :=
    (samples16.all fun s => agreesD (Gen.K04b.decDecode (fuelFor s.1 s.2) (fieldRec GF.aztecParam) (ints s.1) s.2)
      (decodeD GF.aztecParam s.1 s.2)) &&
    (samples256.all fun s => agreesD (Gen.K04b.decDecode (fuelFor s.1 s.2) (fieldRec GF.qrCode256) (ints s.1) s.2)
      (decodeD GF.qrCode256 s.1 s.2))

when_kernel Gzx.Gen.K04b.decDecode in
#eval show Lean.Elab.Command.CommandElabM Unit from do
  unless k_decDecode_samples_check do throwError "k_decDecode_samples_check: the regenerated function disagrees with the model on a sample"

when_kernel Gzx.Gen.K04b.decRunEuclideanAlgorithm in
/-- `runEuclideanAlgorithm(x^R, syndrome, R)` on the syndromes of the samples = the model's `runEuclideanAlgorithm` -/
def k_decRunEuclideanAlgorithm_samples_check : Bool :=
    (samples16.all fun s => match midSyn GF.aztecParam s.1 s.2 with
      | none => true
      | some (m, sy) => agreesE2 (Gen.K04b.decRunEuclideanAlgorithm (fuelFor s.1 s.2) (fieldRec GF.aztecParam) (ints m) (ints sy) s.2)
          (runEuclideanAlgorithm GF.aztecParam m sy s.2)) &&
    (samples256.all fun s => match midSyn GF.qrCode256 s.1 s.2 with
      | none => true
      | some (m, sy) => agreesE2 (Gen.K04b.decRunEuclideanAlgorithm (fuelFor s.1 s.2) (fieldRec GF.qrCode256) (ints m) (ints sy) s.2)
          (runEuclideanAlgorithm GF.qrCode256 m sy s.2))

when_kernel Gzx.Gen.K04b.decRunEuclideanAlgorithm in
#eval show Lean.Elab.Command.CommandElabM Unit from do
  unless k_decRunEuclideanAlgorithm_samples_check do throwError "k_decRunEuclideanAlgorithm_samples_check: the regenerated function disagrees with the model on a sample"

when_kernel Gzx.Gen.K04b.decFindErrorLocations in
/-- `findErrorLocations(sigma)` on the locators of the samples = the model's `findErrorLocations` -/
def k_decFindErrorLocations_samples_check : Bool :=
    (samples16.all fun s => match midSyn GF.aztecParam s.1 s.2 with
      | none => true
      | some (m, sy) => match runEuclideanAlgorithm GF.aztecParam m sy s.2 with
        | .ok (sigma, _) => agreesE (Gen.K04b.decFindErrorLocations (fieldRec GF.aztecParam) (ints sigma))
            (findErrorLocations GF.aztecParam sigma)
        | _ => true) &&
    (samples256.all fun s => match midSyn GF.qrCode256 s.1 s.2 with
      | none => true
      | some (m, sy) => match runEuclideanAlgorithm GF.qrCode256 m sy s.2 with
        | .ok (sigma, _) => agreesE (Gen.K04b.decFindErrorLocations (fieldRec GF.qrCode256) (ints sigma))
            (findErrorLocations GF.qrCode256 sigma)
        | _ => true)

when_kernel Gzx.Gen.K04b.decFindErrorLocations in
#eval show Lean.Elab.Command.CommandElabM Unit from do
  unless k_decFindErrorLocations_samples_check do throwError "k_decFindErrorLocations_samples_check: the regenerated function disagrees with the model on a sample"

when_kernel Gzx.Gen.K04b.decFindErrorMagnitudes in
/-- `findErrorMagnitudes(omega, locations)` on the evaluators / locations of the samples = the model's `findErrorMagnitudes` -/
def k_decFindErrorMagnitudes_samples_check : Bool :=
    (samples16.all fun s => match midSyn GF.aztecParam s.1 s.2 with
      | none => true
      | some (m, sy) => match runEuclideanAlgorithm GF.aztecParam m sy s.2 with
        | .ok (sigma, omega) => match findErrorLocations GF.aztecParam sigma with
          | .ok locs => agreesE (Gen.K04b.decFindErrorMagnitudes (fieldRec GF.aztecParam) (ints omega) (ints locs))
              (liftD (findErrorMagnitudes GF.aztecParam omega locs))
          | _ => true
        | _ => true) &&
    (samples256.all fun s => match midSyn GF.qrCode256 s.1 s.2 with
      | none => true
      | some (m, sy) => match runEuclideanAlgorithm GF.qrCode256 m sy s.2 with
        | .ok (sigma, omega) => match findErrorLocations GF.qrCode256 sigma with
          | .ok locs => agreesE (Gen.K04b.decFindErrorMagnitudes (fieldRec GF.qrCode256) (ints omega) (ints locs))
              (liftD (findErrorMagnitudes GF.qrCode256 omega locs))
          | _ => true
        | _ => true)

when_kernel Gzx.Gen.K04b.decFindErrorMagnitudes in
#eval show Lean.Elab.Command.CommandElabM Unit from do
  unless k_decFindErrorMagnitudes_samples_check do throwError "k_decFindErrorMagnitudes_samples_check: the regenerated function disagrees with the model on a sample"

/-- data words to encode: (data ++ zeros, ecBytes) -/
def encSamples16 : List (List Nat × Nat) :=
  [([5, 11, 2, 0, 0, 0, 0], 4), ([0, 0, 1, 0, 0], 2), ([15, 0, 0, 0, 0, 0, 0], 6), ([1, 2, 3, 4, 5, 6, 7, 8, 9, 0, 0, 0, 0, 0], 5),
   ([0, 0, 0, 0, 0], 2), ([1, 2, 3], 0), ([1, 2], 2), ([], 1), ([1, 17, 0, 0], 2), ([9, 9, 9, 9, 7, 7, 7], 3),
   ([1, 2, 3, 4, 5, 6, 7, 8, 9, 10, 11, 0, 0, 0, 0], 4), ([0, 0, 0, 7, 7, 7], 3), ([0, 0, 1, 9, 9], 2), ([0, 1, 0, 5, 6, 7, 8], 4), ([0, 0, 0, 0, 3, 15, 15, 15, 15, 15, 15], 6)]

def encSamples256 : List (List Nat × Nat) :=
  [([32, 91, 11, 120, 0, 0, 0, 0, 0, 0], 6), ([0, 0, 7, 0, 0, 0], 3), ([255, 254, 1, 0, 0, 0, 0, 0, 0, 0, 0, 0, 0], 10), ([1, 300, 0, 0], 2),
   ([0, 0, 0, 200, 201, 202, 203], 4), ([0, 0, 1, 77, 78, 79], 3)]

when_kernel Gzx.Gen.K04b.encEncode in
/-- `Encode(toEncode, ecBytes)` on a fresh encoder (cache `[1]`) for the samples = the model's `encodeArr` -/
def k_encEncode_samples_check : Bool :=
    (encSamples16.all fun s => agreesEnc (Gen.K04b.encEncode (fuelFor s.1 s.2) (fieldRec GF.aztecParam) (polys [[1]]) (ints s.1) s.2)
      s.1 (encodeArr GF.aztecParam s.1 s.2)) &&
    (encSamples256.all fun s => agreesEnc (Gen.K04b.encEncode (fuelFor s.1 s.2) (fieldRec GF.qrCode256) (polys [[1]]) (ints s.1) s.2)
      s.1 (encodeArr GF.qrCode256 s.1 s.2))

when_kernel Gzx.Gen.K04b.encEncode in
#eval show Lean.Elab.Command.CommandElabM Unit from do
  unless k_encEncode_samples_check do throwError "k_encEncode_samples_check: the regenerated function disagrees with the model on a sample"

end Gzx.Obligations.K04bDec
