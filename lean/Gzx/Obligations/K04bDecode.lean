/-
  K04b (decoder, part 4) — `ReedSolomonDecoder.Decode` regenerated from /repo on every run and proved to agree with the
  model's `decodeD` for ALL received words (symbols outside the field, empty words and too many parity symbols included):
  the corrected word and `nil`; a checked `ReedSolomonException` (the slice then holds the corrections applied before the
  failure was noticed, exactly as in Go); or the same panic.  With this theorem `rs_corrects` (Properties/C04) is a statement
  about the SOURCE TEXT of the decoder: Obligations/K04bProps.lean.
  Conventions: Obligations/K04b.lean; fuel as in Obligations/K04bEuclid.lean.
-/
import Gzx.Obligations.K04bEuclid
namespace Gzx.Obligations.K04bDecode
open Gzx Gzx.GoM Gzx.GoVal Gzx.RS Gzx.K04bTie Gzx.Obligations.K04b Gzx.Obligations.K04bPoly Gzx.Obligations.K04bDiv
  Gzx.Obligations.K04bEnc Gzx.Obligations.K04bForney Gzx.Obligations.K04bChien Gzx.Obligations.K04bEuclid

/-- how `Decode` (error flag, the slice `received` after the call) renders a model result -/
def DecodeAgrees (g : Res (Bool × List Int)) : DRes (List Nat) → Prop
  | .ok w => g = .ok (false, ints w)
  | .error (.base (.panic s)) => g = .error (.panic s)
  | .error (.base .fuel) => g = .error .fuel
  | .error _ => ∃ w', g = .ok (true, w')

theorem DecodeAgrees_checked {g : Res (Bool × List Int)} {e : DErr} (w' : List Int) (hg : g = .ok (true, w'))
    (he : (∀ s, e ≠ .base (.panic s)) ∧ e ≠ .base .fuel) : DecodeAgrees g (.error e) := by
  cases e with
  | base f =>
    cases f with
    | panic s => exact absurd rfl (he.1 s)
    | fuel => exact absurd rfl he.2
    | _ => exact ⟨w', hg⟩
  | _ => exact ⟨w', hg⟩

/-- embedding of the syndrome loop's state -/
def synSt (t : List Nat × Bool) : List Int × Bool := (ints t.1, t.2)

when_kernel Gzx.Gen.K04b.decDecode in
/-- `Decode(received, twoS)` agrees with the model's `decodeD` -/
theorem k_decDecode_eq (F : GF.GF) (hF : TablesOK F) (received : List Nat) (twoS : Nat) (fuel : Nat)
    (hfuel : twoS + 3 ≤ fuel) (hnf : decodeD F received twoS ≠ .error (.base .fuel)) :
    DecodeAgrees (Gen.K04b.decDecode fuel (fieldRec F) (ints received) twoS) (decodeD F received twoS) := by
  simp only [Gen.K04b.decDecode, decodeD, fieldRec_base, k_newPoly_eq] at hnf ⊢
  simp only [bind, Except.bind] at hnf ⊢
  cases hpoly : mkPoly received with
  | error e =>
    have : e = .illegalArg := by
      unfold mkPoly at hpoly; split at hpoly <;> cases hpoly; rfl
    subst this
    exact ⟨_, rfl⟩
  | ok poly =>
    simp only [hpoly, liftD] at hnf
    simp only [expE_ok, tryR_ok, Bool.false_eq_true, if_false, liftD]
    rw [mk_words _ twoS rfl]
    simp only [tryR_ok]
    rw [loop_range_inv synSt (fun t => t.1.length = twoS) (synStep F poly) 0 twoS (List.replicate twoS 0, true)]
    · have hsyn := iterL_syn (ρ := Bool × List Int) F poly twoS 0 [] true rfl
      simp only [List.append_nil] at hsyn
      rw [hsyn]
      cases hs : syndromes F poly twoS 0 with
      | error e =>
        obtain ⟨w, rfl⟩ := syndromes_error _ _ _ hs
        exact rfl
      | ok synd =>
        simp only [hs] at hnf
        simp only [mapS_next, next_thenR, synSt, List.append_nil, Bool.true_and]
        by_cases hall : (synd.all (· == 0)) = true
        · simp only [hall, if_true]
          exact rfl
        · simp only [hall, Bool.false_eq_true, if_false] at hnf ⊢
          rw [k_newPoly_eq]
          cases hsy : mkPoly synd.reverse with
          | error e =>
            have : e = .illegalArg := by
              unfold mkPoly at hsy; split at hsy <;> cases hsy; rfl
            subst this
            exact ⟨_, rfl⟩
          | ok syndrome =>
            simp only [hsy] at hnf
            simp only [expE_ok, tryR_ok, Bool.false_eq_true, if_false]
            rw [k_gfBuildMonomial_at F _ _ twoS 1 (by rfl) (by rfl)]
            have hmono : buildMonomial twoS 1 = .ok (1 :: List.replicate twoS 0) := by
              unfold buildMonomial mkPoly normalize; simp
            rw [hmono] at hnf ⊢
            simp only [expE_ok, tryR_ok, Bool.false_eq_true, if_false] at hnf ⊢
            have hsl : syndrome.length ≤ twoS := by
              have h1 := syndromes_length _ _ _ hs
              have hne : synd.reverse ≠ [] := by
                intro h0; rw [h0] at hsy; cases hsy
              rw [Proofs.Poly.mkPoly_ok _ hne] at hsy
              cases hsy
              have := Proofs.Poly.normalize_length_le _ hne
              simp at this; omega
            have hnfE : runEuclideanAlgorithm F (1 :: List.replicate twoS 0) syndrome twoS ≠ .error (.base .fuel) := by
              intro h; rw [h] at hnf; exact hnf rfl
            rw [k_decRunEuclideanAlgorithm_eq F hF _ syndrome (by simp) (mkPoly_ne hsy) twoS fuel (by simp; omega) (by omega) hnfE]
            cases hE : runEuclideanAlgorithm F (1 :: List.replicate twoS 0) syndrome twoS with
            | error e =>
              cases e with
              | base f =>
                cases f with
                | panic s => exact rfl
                | fuel => exact absurd hE hnfE
                | _ => exact ⟨_, rfl⟩
              | _ => exact ⟨_, rfl⟩
            | ok so =>
              obtain ⟨sigma, omega⟩ := so
              simp only [hE] at hnf
              simp only [expED2, tryR_ok, Bool.false_eq_true, if_false]
              have hsig := runEuclid_sigma_ne F _ syndrome (by simp) (mkPoly_ne hsy) twoS sigma omega hE
              rw [k_decFindErrorLocations_eq F hF sigma hsig]
              cases hL : findErrorLocations F sigma with
              | error e =>
                cases e with
                | base f =>
                  cases f with
                  | panic s => exact rfl
                  | fuel => exact rfl
                  | _ => exact ⟨_, rfl⟩
                | _ => exact ⟨_, rfl⟩
              | ok locs =>
                simp only [hL] at hnf
                simp only [expED, tryR_ok, Bool.false_eq_true, if_false]
                rw [k_decFindErrorMagnitudes_eq F hF omega locs]
                cases hM : findErrorMagnitudes F omega locs with
                | error e => cases e <;> first | exact rfl | exact ⟨_, rfl⟩
                | ok mags =>
                  simp only [hM, liftD] at hnf
                  simp only [expE_ok, tryR_ok, Bool.false_eq_true, if_false, len_ints]
                  have hml : mags.length = locs.length := magLoop_length _ _ _ hM
                  rw [loop_list' ints (corrStep F mags) locs 0 received]
                  · have hc := iterL_corr F mags locs mags 0 received rfl hml
                    cases hA : applyCorrections F locs mags received with
                    | ok w => rw [hA] at hc; simp only [] at hc; rw [hc]; exact rfl
                    | error e =>
                      rw [hA] at hc
                      cases e with
                      | base f =>
                        cases f with
                        | panic s => simp only [] at hc; rw [hc]; exact rfl
                        | fuel => simp only [] at hc; rw [hc]; exact rfl
                        | illegalArg => obtain ⟨w', hw⟩ := hc; rw [hw]; exact ⟨w', rfl⟩
                        | notFound => obtain ⟨w', hw⟩ := hc; rw [hw]; exact ⟨w', rfl⟩
                        | checksum => obtain ⟨w', hw⟩ := hc; rw [hw]; exact ⟨w', rfl⟩
                        | format => obtain ⟨w', hw⟩ := hc; rw [hw]; exact ⟨w', rfl⟩
                        | writer => obtain ⟨w', hw⟩ := hc; rw [hw]; exact ⟨w', rfl⟩
                      | rLastZero => obtain ⟨w', hw⟩ := hc; rw [hw]; exact ⟨w', rfl⟩
                      | sigmaZero => obtain ⟨w', hw⟩ := hc; rw [hw]; exact ⟨w', rfl⟩
                      | rootCount => obtain ⟨w', hw⟩ := hc; rw [hw]; exact ⟨w', rfl⟩
                      | badLocation => obtain ⟨w', hw⟩ := hc; rw [hw]; exact ⟨w', rfl⟩
                      | illegalState => obtain ⟨w', hw⟩ := hc; rw [hw]; exact ⟨w', rfl⟩
                  · rfl
                  · rw [tripUp_one]; omega
                  · rfl
                  · intro j hj rec
                    simp only [corrStep, Nat.zero_add]
                    rw [idx_ints _ _ j rfl, List.getElem?_eq_getElem hj]
                    simp only [tryC_ok]
                    rw [k_gfLog_eq F, tryC_expE]
                    cases hlog : GF.GF.logOf F locs[j] with
                    | error e => cases e <;> rfl
                    | ok log =>
                      simp only [len_ints, Int.ofNat_eq_natCast]
                      by_cases hbad : rec.length < log + 1
                      · rw [if_pos hbad]
                        split
                        case isFalse hneg => exfalso; apply hneg; exact decide_eq_true (by omega)
                        rfl
                      · rw [if_neg hbad]
                        split
                        case isTrue hpos => exfalso; have := of_decide_eq_true hpos; omega
                        rw [idx_ints _ _ (rec.length - 1 - log) (by omega)]
                        cases rec[rec.length - 1 - log]? with
                        | none => rfl
                        | some v =>
                          simp only [tryC_ok]
                          rw [idx_ints _ _ j rfl]
                          cases mags[j]? with
                          | none => rfl
                          | some m =>
                            simp only [tryC_ok]
                            rw [k_gfAddOrSubtract_eq]
                            simp only [tryC_ok]
                            rw [setIdx_words _ _ _ (rec.length - 1 - log) (v ^^^ m) (by omega) (by rfl)]
                            cases Bits.setWord rec (rec.length - 1 - log) (v ^^^ m) <;> rfl
    · rfl
    · rw [tripUp_one]; omega
    · rfl
    · simp
    · intro i t t' ht hstep
      simp only [synStep] at hstep
      cases hev : (do let x ← F.expAt (i + F.base); evaluateAt F poly x : Res Nat) with
      | error e => simp only [hev] at hstep; cases hstep
      | ok ev =>
        simp only [hev] at hstep
        cases hset : Bits.setWord t.1 (t.1.length - 1 - i) ev with
        | error e => simp only [hset] at hstep; cases hstep
        | ok sc =>
          simp only [hset] at hstep
          cases hstep
          unfold Bits.setWord at hset
          split at hset
          · cases hset; simp [ht]
          · cases hset
    · intro i _ hi t ht
      obtain ⟨sc, ne⟩ := t
      dsimp (config := { instances := true }) only [synSt, synStep] at ht ⊢
      rw [k_gfExp_eq' F _ (i + F.base) (by omega)]
      simp only [bind, Except.bind]
      cases hx : GF.GF.expAt F (i + F.base) with
      | error e => rfl
      | ok x =>
        simp only [Except.map, tryC_ok, Int.ofNat_eq_natCast]
        rw [k_polyEvaluateAt_eq F hF]
        cases hev : evaluateAt F poly x with
        | error e => rfl
        | ok ev =>
          simp only [Except.map, tryC_ok, Int.ofNat_eq_natCast, len_ints]
          rw [setIdx_words _ _ _ (sc.length - 1 - i) ev (by omega) (by rfl)]
          cases Bits.setWord sc (sc.length - 1 - i) ev with
          | error e => rfl
          | ok sc' =>
            simp only [Except.map, tryC_ok, show (0 : Int) = ((0 : Nat) : Int) from rfl, natCast_bne]
            by_cases hz : ev = 0
            · subst hz; rfl
            · have hb : (ev != 0) = true := by simpa using hz
              simp only [hb, if_true, next_thenC, hz, ne_eq, not_false_eq_true]
              rfl

end Gzx.Obligations.K04bDecode
