/-
  K04b (Divide) — `GenericGFPoly.Divide` regenerated from /repo on every run and proved equal to the model's `divide`
  (Model/RS.lean).  The loop `for remainder.GetDegree() >= other.GetDegree() && !remainder.IsZero()` has no syntactic bound:
  the regenerated definition takes `fuel`; the theorem holds for every fuel that is at least the model's own budget
  (`len + 1` rounds), whenever the model does not exhaust that budget (`Properties/C04`: it never does on field elements).
  Conventions: Obligations/K04b.lean.
-/
import Gzx.Obligations.K04bPoly
namespace Gzx.Obligations.K04bDiv
open Gzx Gzx.GoM Gzx.GoVal Gzx.RS Gzx.K04bTie Gzx.Obligations.K04b Gzx.Obligations.K04bPoly

theorem fieldRec_zero (F : GF.GF) : (fieldRec F).zero = ints [0] := rfl
theorem fieldRec_one (F : GF.GF) : (fieldRec F).one = ints [1] := rfl
theorem fieldRec_size (F : GF.GF) : (fieldRec F).size = (F.size : Int) := rfl
theorem fieldRec_base (F : GF.GF) : (fieldRec F).generatorBase = (F.base : Int) := rfl

/-- how `Divide` (and `runEuclideanAlgorithm`) render a model result: two polynomials and `nil`, or `nil, nil, err` -/
def expE2 : Res (Poly × Poly) → Res (List Int × List Int × Bool)
  | .ok t => .ok (ints t.1, ints t.2, false)
  | .error e => failK (.ok ([], [], true)) Except.error e

theorem getCoefficient_error {p : Poly} {d : Nat} {e : Fault} (h : getCoefficient p d = .error e) : IsPanic e := by
  unfold getCoefficient at h
  split at h
  · cases h; exact ⟨_, rfl⟩
  · split at h
    · cases h
    · cases h; exact ⟨_, rfl⟩

theorem failK_of_panic {γ : Type} (c : γ) (lift : Fault → γ) {e : Fault} (h : IsPanic e) : failK c lift e = lift e := by
  obtain ⟨w, rfl⟩ := h; rfl

/-- the body of the division loop of the regenerated `Divide` / `runEuclideanAlgorithm` on related states: the ten calls of a
    round are the model round `divStep` (shared by `k_polyDivide_eq` and the Euclid kernel through the tactic below) -/
local macro "div_round " F:term:max hF:term:max o:term:max ho:term:max : tactic => `(tactic| (
  intro t ht
  obtain ⟨hq1, hr1⟩ := ht
  simp only [ints2, divStep]
  simp only [k_polyGetDegree_eq, tryC_ok]
  rw [k_polyIsZero_eq _ t.2 hr1]
  have hlr : 0 < t.2.length := List.length_pos_iff.mpr hr1
  have hlo : 0 < ($o).length := List.length_pos_iff.mpr $ho
  by_cases hc : (decide (degree t.2 ≥ degree $o) && !isZero t.2) = true
  · have hge : degree t.2 ≥ degree $o := by
      rw [Bool.and_eq_true] at hc; exact of_decide_eq_true hc.1
    have hnz : (!isZero t.2) = true := by rw [Bool.and_eq_true] at hc; exact hc.2
    have hd : decide ((t.2.length : Int) - 1 ≥ (($o).length : Int) - 1) = true := by
      apply decide_eq_true; unfold degree at hge; omega
    rw [if_pos hc]
    simp only [hd, if_true, tryR_ok, hnz, tryC_ok]
    have e1 : (t.2.length : Int) - 1 - ((($o).length : Int) - 1) = ((degree t.2 - degree $o : Nat) : Int) := by
      unfold degree at hge ⊢; omega
    rw [e1, k_polyGetCoefficient_at _ t.2 _ (degree t.2) (by unfold degree; omega)]
    rw [stepE_bind]
    cases hlead : getCoefficient t.2 (degree t.2) with
    | error e => simp only [Except.map, tryC_error, failK_of_panic _ _ (getCoefficient_error hlead), mapS_panic]
    | ok lead =>
      simp only [Except.map, tryC_ok, Int.ofNat_eq_natCast]
      rw [k_gfMultiply_eq $F $hF, stepE_bind]
      cases hscale : GF.GF.mul $F lead _ with
      | error e => simp only [Except.map, tryC_error, failK_of_panic _ _ (mul_error hscale), mapS_panic]
      | ok scale =>
        simp only [Except.map, tryC_ok, Int.ofNat_eq_natCast]
        rw [k_polyMultiplyByMonomial_eq $F $hF, tryC_expE, stepE_bind]
        cases hterm : multiplyByMonomial $F $o (degree t.2 - degree $o) scale with
        | error e => simp only [mapS_failK]
        | ok term =>
          simp only []
          rw [k_gfBuildMonomial_eq, tryC_expE, stepE_bind]
          cases hiq : buildMonomial (degree t.2 - degree $o) scale with
          | error e => simp only [mapS_failK]
          | ok iq =>
            simp only []
            rw [k_polyAddOrSubtract_eq _ t.1 iq hq1 (buildMonomial_ne hiq), tryC_expE, stepE_bind]
            cases hq' : addOrSubtract t.1 iq with
            | error e => simp only [mapS_failK]
            | ok q' =>
              simp only []
              rw [k_polyAddOrSubtract_eq _ t.2 term hr1 (multiplyByMonomial_ne hterm), tryC_expE, stepE_bind]
              cases hr' : addOrSubtract t.2 term with
              | error e => simp only [mapS_failK]
              | ok r' => rfl
  · have hd : (if decide ((t.2.length : Int) - 1 ≥ (($o).length : Int) - 1) = true then
        (tryR (Except.ok (isZero t.2)) fun tmp7 => Except.ok (!tmp7)) else Except.ok false) = Except.ok false := by
      by_cases hge : degree t.2 ≥ degree $o
      · have : decide ((t.2.length : Int) - 1 ≥ (($o).length : Int) - 1) = true := by
          apply decide_eq_true; unfold degree at hge; omega
        simp only [this, if_true, tryR_ok]
        rw [Bool.and_eq_true, not_and] at hc
        have := hc (decide_eq_true hge)
        simpa using this
      · have : decide ((t.2.length : Int) - 1 ≥ (($o).length : Int) - 1) = false := by
          apply decide_eq_false; unfold degree at hge; omega
        simp only [this, Bool.false_eq_true, if_false]
    rw [if_neg hc]
    simp only [hd, tryC_ok, Bool.false_eq_true, if_false]
    rfl))

when_kernel Gzx.Gen.K04b.polyDivide in
/-- `Divide(other)` = the model's `divide`: checked error for a zero divisor, otherwise quotient and remainder by repeated
    cancellation of the leading term -/
theorem k_polyDivide_eq (F : GF.GF) (hF : TablesOK F) (p q : List Nat) (hp : p ≠ []) (hq : q ≠ [])
    (fuel : Nat) (hfuel : p.length + 1 ≤ fuel) (hnf : divide F p q ≠ .error .fuel) :
    Gen.K04b.polyDivide fuel (fieldRec F) (ints p) (ints q) = expE2 (divide F p q) := by
  simp only [Gen.K04b.polyDivide, divide, Bool.false_eq_true, if_false, fieldRec_zero] at hnf ⊢
  rw [k_polyIsZero_eq _ q hq]
  simp only [tryR_ok]
  by_cases hz : isZero q = true
  · simp only [hz, if_true]; rfl
  simp only [hz, Bool.false_eq_true, if_false] at hnf ⊢
  simp only [k_polyGetDegree_eq, tryR_ok]
  rw [k_polyGetCoefficient_at _ q _ (degree q) (by have := List.length_pos_iff.mpr hq; unfold degree; omega)]
  simp only [bind, Except.bind] at hnf ⊢
  cases hlead : getCoefficient q (degree q) with
  | error e =>
    simp only [Except.map, tryR_error, expE2, failK_of_panic _ _ (getCoefficient_error hlead)]
  | ok lead =>
    simp only [hlead] at hnf
    simp only [Except.map, tryR_ok, Int.ofNat_eq_natCast]
    rw [k_gfInverse_eq F hF, tryR_expE]
    cases hinv : GF.GF.inv F lead with
    | error e => simp only [expE2]
    | ok inv =>
      simp only [hinv] at hnf
      simp only []
      rw [while_map_inv' ints2 (fun t => t.1 ≠ [] ∧ t.2 ≠ []) (divStep F q inv ([], [], true)) ([0], p)]
      · rw [divStep_run F q inv _ (p.length + 1) [0] p fuel hfuel hnf]
        cases divLoop F q inv (p.length + 1) [0] p with
        | ok t => rfl
        | error e => cases e <;> rfl
      · rfl
      · exact ⟨by simp, hp⟩
      · intro t t' ht hstep
        exact divStep_inv ht hstep
      · div_round F hF q hq

/-! non-vacuity of the hypotheses of `k_polyDivide_eq`: (x² + 2x + 3) / (x + 3) over GF(16), fuel 4 -/
example : TablesOK GF.aztecParam ∧ ([1, 2, 3] : List Nat) ≠ [] ∧ ([1, 3] : List Nat) ≠ [] ∧ ([1, 2, 3] : List Nat).length + 1 ≤ 4 ∧
    divide GF.aztecParam [1, 2, 3] [1, 3] ≠ .error .fuel := by decide +kernel

end Gzx.Obligations.K04bDiv
