/-
  K04b (Multiply, encoder) — `GenericGFPoly.Multiply`, `ReedSolomonEncoder.buildGenerator` and `Encode` regenerated from /repo
  on every run and proved equal to the model (Model/RS.lean: `multiply`, `buildGenerator`, `encodeArr`).
  Conventions: Obligations/K04b.lean.
-/
import Gzx.Obligations.K04bDiv
namespace Gzx.Obligations.K04bEnc
open Gzx Gzx.GoM Gzx.GoVal Gzx.RS Gzx.K04bTie Gzx.Obligations.K04b Gzx.Obligations.K04bPoly Gzx.Obligations.K04bDiv

when_kernel Gzx.Gen.K04b.polyMultiply in
/-- `Multiply(other)` = the model's `multiply`: the zero polynomial if an operand is zero, otherwise the coefficient double
    loop `product[i+j] ^= a_i * b_j` normalised by `NewGenericGFPoly` -/
theorem k_polyMultiply_eq (F : GF.GF) (hF : TablesOK F) (p q : List Nat) (hp : p ≠ []) (hq : q ≠ []) :
    Gen.K04b.polyMultiply (fieldRec F) (ints p) (ints q) = expE [] ints (multiply F p q) := by
  simp only [Gen.K04b.polyMultiply, multiply, Bool.false_eq_true, if_false, fieldRec_zero, len_ints]
  rw [k_polyIsZero_eq _ p hp, k_polyIsZero_eq _ q hq]
  simp only [tryR_ok]
  have hor : (if isZero p = true then (Except.ok true : Res Bool) else Except.ok (isZero q)) = .ok (isZero p || isZero q) := by
    cases isZero p <;> rfl
  rw [hor]
  simp only [tryR_ok]
  by_cases hz : (isZero p || isZero q) = true
  · simp only [hz, if_true]; rfl
  simp only [hz, Bool.false_eq_true, if_false]
  have hpl : 0 < p.length := List.length_pos_iff.mpr hp
  have hql : 0 < q.length := List.length_pos_iff.mpr hq
  rw [mk_words _ (p.length + q.length - 1) (by omega)]
  simp only [tryR_ok]
  rw [loop_list' ints (mulOuter F q) p 0 (List.replicate (p.length + q.length - 1) 0)]
  · have := iterL_mulOuter (ρ := List Int × Bool) F q hq p [] (List.replicate (p.length + q.length - 1) 0) (by simp)
    simp only [List.length_nil, List.nil_append] at this
    rw [this]
    simp only [bind, Except.bind]
    cases hm : mulRaw F p q with
    | error e =>
      simp only [mapS_panic, panic_thenR]
      exact (expE_of_panic _ _ (mulRaw_error _ _ hm)).symm
    | ok m =>
      have hml := mulRaw_length F q hq p m hm
      have hz0 : List.zipWith (· ^^^ ·) (List.replicate (p.length + q.length - 1) 0) m = m := by
        rw [← hml]; exact Proofs.Poly.zipWith_zeros_left m
      simp only [mapS_next, next_thenR, hz0]
      rw [k_newPoly_eq]
      cases mkPoly m with
      | ok v => rfl
      | error e => cases e <;> rfl
  · rfl
  · rw [tripUp_one]; omega
  · rfl
  · intro i hi t
    rw [idx_ints _ _ (0 + i) rfl, Nat.zero_add, List.getElem?_eq_getElem hi]
    simp only [tryC_ok, mulOuter]
    rw [loop_list' ints (mulInner F p[i] i) q 0 t]
    · rw [mapS_thenC]
      cases iterL (ρ := List Int × Bool) (mulInner F p[i] i) 0 q t <;> rfl
    · rfl
    · rw [tripUp_one]; omega
    · rfl
    · intro j hj t
      simp only [mulInner, Nat.zero_add]
      rw [idx_ints _ _ (i + j) (by omega)]
      cases t[i + j]? with
      | none => rfl
      | some v =>
        simp only [tryC_ok]
        rw [idx_ints _ _ j rfl, List.getElem?_eq_getElem hj]
        simp only [tryC_ok]
        rw [k_gfMultiply_eq F hF]
        cases F.mul p[i] q[j] with
        | error e => rfl
        | ok m =>
          simp only [Except.map, tryC_ok, Int.ofNat_eq_natCast]
          rw [k_gfAddOrSubtract_eq]
          simp only [tryC_ok]
          rw [setIdx_words _ _ _ (i + j) (v ^^^ m) (by omega) (by rfl)]
          cases Bits.setWord t (i + j) (v ^^^ m) <;> rfl


/-! ### ReedSolomonEncoder.buildGenerator -/

/-- Go `[]*GenericGFPoly` contents of a model cache -/
abbrev polys (c : List Poly) : List (List Int) := c.map ints

/-- embedding of the cache loop's state -/
def cacheSt (t : List Poly × Poly) : List (List Int) × List Int := (polys t.1, ints t.2)

theorem idxL_polys (c : List Poly) (e : Int) (n : Nat) (h : e = n) :
    GoM.idxL (polys c) e = match c[n]? with | some v => .ok (ints v) | none => .error oob := by
  subst h
  unfold GoM.idxL
  have : ¬ ((n : Int) < 0) := by omega
  simp only [this, if_false, Int.toNat_natCast, polys, List.getElem?_map]
  cases c[n]? <;> rfl

theorem lenL_polys (c : List Poly) : GoM.lenL (polys c) = (c.length : Int) := by simp [GoM.lenL, polys]

theorem expAt_error {F : GF.GF} {i : Nat} {e : Fault} (h : F.expAt i = .error e) : IsPanic e := gfidx_error h

when_kernel Gzx.Gen.K04b.encBuildGenerator in
/-- `buildGenerator(degree)` on an encoder whose cache holds the generators g_0 … g_{n-1}: the result is the model's
    `buildGenerator degree` (the recursion the cache memoises) and the cache afterwards again holds generators only; a panic of
    the recursion (exponent outside the table) is the same panic -/
theorem k_encBuildGenerator_eq (F : GF.GF) (hF : TablesOK F) (cache : List Poly) (hc : CacheOK F cache) (degree : Nat) :
    match buildGenerator F degree with
    | .ok g => ∃ cache', CacheOK F cache' ∧
        Gen.K04b.encBuildGenerator (fieldRec F) (polys cache) degree = .ok (ints g, polys cache')
    | .error e => Gen.K04b.encBuildGenerator (fieldRec F) (polys cache) degree = .error e := by
  obtain ⟨hne, hgen⟩ := hc
  have hlen : 0 < cache.length := List.length_pos_iff.mpr hne
  simp only [Gen.K04b.encBuildGenerator, lenL_polys, fieldRec_base]
  by_cases hge : degree ≥ cache.length
  · have hd : decide ((degree : Int) ≥ (cache.length : Int)) = true := by apply decide_eq_true; omega
    simp only [hd, if_true]
    rw [idxL_polys _ _ (cache.length - 1) (by omega), List.getElem?_eq_getElem (by omega)]
    simp only [tryC_ok]
    rw [loop_range_inv cacheSt (fun t => t.2 ≠ []) (cacheStep F) cache.length (degree + 1 - cache.length)
      (cache, cache[cache.length - 1])]
    · have hrun := cache_run (ρ := List Int × List (List Int)) F (degree + 1 - cache.length) cache.length cache
        cache[cache.length - 1] (by omega) rfl hgen (hgen _ (by omega)) (by omega)
      rw [show cache.length + (degree + 1 - cache.length) - 1 = degree by omega] at hrun
      cases hbg : buildGenerator F degree with
      | error e => rw [hbg] at hrun; simp only [] at hrun ⊢; rw [hrun]; rfl
      | ok g =>
        rw [hbg] at hrun
        obtain ⟨cache', h1, h2, h3⟩ := hrun
        have hne' : cache' ≠ [] := by intro h; subst h; simp at h2; omega
        refine ⟨cache', ⟨hne', h3⟩, ?_⟩
        rw [h1]
        simp only [mapS_next, cacheSt, next_thenC, next_thenR]
        rw [idxL_polys _ _ degree rfl, List.getElem?_eq_getElem (by omega)]
        have := h3 degree (by omega)
        rw [hbg] at this
        cases this
        rfl
    · rfl
    · rw [tripUp_one]; omega
    · rfl
    · exact buildGenerator_ne F _ _ (hgen _ (by omega))
    · intro d t t' ht hstep
      simp only [cacheStep] at hstep
      cases hg : genStage F d t.2 with
      | error e => simp only [hg] at hstep; cases hstep
      | ok g =>
        simp only [hg] at hstep
        cases hstep
        simp only [genStage, bind, Except.bind] at hg
        cases he : F.expAt (d - 1 + F.base) with
        | error e => simp only [he] at hg; cases hg
        | ok ev =>
          simp only [he] at hg
          cases hf : mkPoly [1, ev] with
          | error e => simp only [hf] at hg; cases hg
          | ok f => simp only [hf] at hg; exact multiply_ne hg
    · intro d hd1 hd2 t ht
      simp only [cacheSt, cacheStep, genStage, bind, Except.bind]
      rw [k_gfExp_eq' F _ (d - 1 + F.base) (by omega)]
      cases he : F.expAt (d - 1 + F.base) with
      | error e => rfl
      | ok ev =>
        simp only [Except.map, tryC_ok, Int.ofNat_eq_natCast]
        rw [show ([1, (ev : Int)] : List Int) = ints [1, ev] from rfl, k_newPoly_eq]
        have hmk : mkPoly [1, ev] = .ok [1, ev] := by
          unfold mkPoly normalize; rfl
        rw [hmk]
        simp only [expE_ok, tryC_ok]
        rw [k_polyMultiply_eq F hF t.2 [1, ev] ht (by simp)]
        cases hm : multiply F t.2 [1, ev] with
        | error e => rw [expE_of_panic _ _ (multiply_error ht (by simp) hm)]; rfl
        | ok g => simp [polys, cacheSt]
  · have hd : decide ((degree : Int) ≥ (cache.length : Int)) = false := by apply decide_eq_false; omega
    simp only [hd, Bool.false_eq_true, if_false, next_thenR]
    rw [hgen degree (by omega)]
    refine ⟨cache, ⟨hne, hgen⟩, ?_⟩
    rw [idxL_polys _ _ degree rfl, List.getElem?_eq_getElem (by omega)]
    rfl


/-! ### ReedSolomonEncoder.Encode -/

/-- how `Encode` renders a model result (error flag, generator cache, the slice `toEncode` after the call) for an encoder whose
    cache holds generators: parity written behind the data and `nil`; the slice untouched and a non-nil error for a checked
    failure; the panic itself.  The cache afterwards again holds generators only. -/
def EncodeAgrees (F : GF.GF) (orig : List Nat) (g : Res (Bool × List (List Int) × List Int)) : Res (List Nat) → Prop
  | .ok w => ∃ cache', CacheOK F cache' ∧ g = .ok (false, polys cache', ints w)
  | .error (.panic s) => g = .error (.panic s)
  | .error _ => ∃ cache', CacheOK F cache' ∧ g = .ok (true, polys cache', ints orig)

theorem EncodeAgrees_panic {F : GF.GF} {o : List Nat} {g : Res (Bool × List (List Int) × List Int)} {e : Fault}
    (he : IsPanic e) (h : g = .error e) : EncodeAgrees F o g (.error e) := by
  obtain ⟨w, rfl⟩ := he; exact h

when_kernel Gzx.Gen.K04b.encEncode in
/-- `Encode(toEncode, ecBytes)` = the model's `encodeArr` (for every fuel of at least `len(toEncode)+1` rounds, whenever the
    model's division does not exhaust its own budget — it never does, `Properties/C04`) -/
theorem k_encEncode_eq (F : GF.GF) (hF : TablesOK F) (cache : List Poly) (hc : CacheOK F cache) (toEncode : List Nat) (ec : Nat)
    (fuel : Nat) (hfuel : toEncode.length + 1 ≤ fuel) (hnf : encodeArr F toEncode ec ≠ .error .fuel) :
    EncodeAgrees F toEncode (Gen.K04b.encEncode fuel (fieldRec F) (polys cache) (ints toEncode) ec) (encodeArr F toEncode ec) := by
  simp only [Gen.K04b.encEncode, encodeArr, len_ints] at hnf ⊢
  by_cases h0 : ec = 0
  · subst h0
    simp only [show decide (((0 : Nat) : Int) ≤ 0) = true from rfl, if_true]
    exact ⟨cache, hc, rfl⟩
  have hd0 : decide ((ec : Int) ≤ 0) = false := by apply decide_eq_false; omega
  simp only [hd0, Bool.false_eq_true, if_false, h0] at hnf ⊢
  by_cases h1 : toEncode.length ≤ ec
  · have hd1 : decide ((toEncode.length : Int) - (ec : Int) ≤ 0) = true := by apply decide_eq_true; omega
    simp only [hd1, if_true, h1]
    exact ⟨cache, hc, rfl⟩
  have hd1 : decide ((toEncode.length : Int) - (ec : Int) ≤ 0) = false := by apply decide_eq_false; omega
  simp only [hd1, Bool.false_eq_true, if_false, h1, bind, Except.bind] at hnf ⊢
  have hk : (toEncode.length : Int) - (ec : Int) = ((toEncode.length - ec : Nat) : Int) := by omega
  have hbg := k_encBuildGenerator_eq F hF cache hc ec
  cases hg : buildGenerator F ec with
  | error e =>
    rw [hg] at hbg
    simp only [] at hbg ⊢
    rw [hbg]
    exact EncodeAgrees_panic (buildGenerator_error F _ _ hg) rfl
  | ok gen =>
    rw [hg] at hbg
    obtain ⟨cache', hc', hgen⟩ := hbg
    simp only [hg] at hnf
    simp only [hgen, tryR_ok, hk]
    rw [mk_words _ (toEncode.length - ec) rfl]
    simp only [tryR_ok]
    rw [copyL_zeros _ _ (by omega), k_newPoly_eq]
    have hne : toEncode.take (toEncode.length - ec) ≠ [] := by
      intro h; have := congrArg List.length h; simp at this; omega
    rw [Proofs.Poly.mkPoly_ok _ hne] at hnf ⊢
    simp only [expE_ok, tryR_ok] at hnf ⊢
    have hi1 : normalize (toEncode.take (toEncode.length - ec)) ≠ [] := Proofs.Poly.normalize_ne_nil _
    rw [k_polyMultiplyByMonomial_at F hF _ _ _ ec 1 (by rfl) (by rfl)]
    cases hmm : multiplyByMonomial F (normalize (toEncode.take (toEncode.length - ec))) ec 1 with
    | error e =>
      have hp := multiplyByMonomial_error hi1 hmm
      rw [expE_of_panic _ _ hp]
      exact EncodeAgrees_panic hp rfl
    | ok info =>
      simp only [hmm] at hnf
      simp only [expE_ok, tryR_ok]
      have hinfo : info ≠ [] := multiplyByMonomial_ne hmm
      have hgne : gen ≠ [] := buildGenerator_ne F _ _ hg
      have hil : info.length ≤ toEncode.length := by
        have h1 := multiplyByMonomial_length_le hi1 hmm
        have h2 := Proofs.Poly.normalize_length_le _ hne
        simp at h2; omega
      have hnfd : divide F info gen ≠ .error .fuel := by
        intro h; rw [h] at hnf; exact hnf rfl
      rw [k_polyDivide_eq F hF info gen hinfo hgne fuel (by omega) hnfd]
      cases hdv : divide F info gen with
      | error e =>
        cases e with
        | panic w => exact rfl
        | fuel => exact absurd hdv hnfd
        | illegalArg => exact ⟨cache', hc', rfl⟩
        | notFound => exact ⟨cache', hc', rfl⟩
        | checksum => exact ⟨cache', hc', rfl⟩
        | format => exact ⟨cache', hc', rfl⟩
        | writer => exact ⟨cache', hc', rfl⟩
      | ok qr =>
        obtain ⟨q, rem⟩ := qr
        simp only [expE2, tryR_ok, Bool.false_eq_true, if_false, len_ints]
        by_cases hlong : rem.length > toEncode.length
        · -- the remainder does not fit: no zero fill, the copy panics
          simp only [hlong, if_true]
          have ht : tripUp 0 ((ec : Int) - (rem.length : Int)) 1 = 0 := by rw [tripUp_one]; omega
          rw [ht, loop_zero]
          simp only [next_thenR]
          rw [copySeg_neg _ _ _ _ (by omega)]
          exact rfl
        simp only [hlong, if_false]
        by_cases hfit : rem.length ≤ ec
        · -- the usual case: `ec - len(rem)` zeros, then the remainder
          rw [loop_range ints (fun i t => stepC (Bits.setWord t (toEncode.length - ec + i) 0)) 0 (ec - rem.length) toEncode]
          · rw [fill_zero _ _ _ (by omega)]
            simp only [mapS_next, next_thenR]
            rw [copySeg_tail (toEncode.take (toEncode.length - ec) ++ List.replicate (ec - rem.length) 0 ++
                toEncode.drop (toEncode.length - ec + (ec - rem.length))) rem (toEncode.length - rem.length) _ _
              (by omega) (by rw [len_ints]) (by simp; omega) (by simp; omega)]
            refine ⟨cache', hc', ?_⟩
            simp only [tryR_ok]
            have hA : (toEncode.take (toEncode.length - ec) ++ List.replicate (ec - rem.length) 0).length =
                toEncode.length - rem.length := by simp; omega
            rw [List.take_left' hA, Nat.min_eq_left (by omega),
              show toEncode.length - rem.length - (toEncode.length - ec) = ec - rem.length by omega]
          · rfl
          · rw [tripUp_one]; omega
          · rfl
          · intro i _ _ t
            rw [setIdx_words _ _ _ (toEncode.length - ec + i) 0 (by omega) (by rfl)]
            cases Bits.setWord t (toEncode.length - ec + i) 0 <;> rfl
        · -- a remainder longer than `ecBytes`: no zero fill, the copy starts inside the data
          have ht : tripUp 0 ((ec : Int) - (rem.length : Int)) 1 = 0 := by rw [tripUp_one]; omega
          rw [ht, loop_zero]
          simp only [next_thenR]
          rw [copySeg_tail toEncode rem (toEncode.length - rem.length) _ _ (by omega) (by rw [len_ints]) (by omega) (by omega)]
          refine ⟨cache', hc', ?_⟩
          simp only [tryR_ok]
          congr 3
          rw [Nat.min_eq_right (by omega), show toEncode.length - rem.length - (toEncode.length - ec) = 0 by omega]
          simp

/-! non-vacuity: a fresh encoder satisfies `CacheOK` (its cache is `[1]` = g_0); the remaining hypotheses of `k_encEncode_eq`
    are instantiated for every well-formed field and block shape in Obligations/K04bProps.lean (`gen_encode_systematic`) -/
example : CacheOK GF.aztecParam [[1]] := by
  refine ⟨by simp, fun i hi => ?_⟩
  have : i = 0 := by simpa using hi
  subst this; rfl

end Gzx.Obligations.K04bEnc
