/-
  K04b (Multiply, encoder) — `GenericGFPoly.Multiply`, `ReedSolomonEncoder.buildGenerator` and `Encode` regenerated from /repo
  on every run and proved equal to the model (Model/RS.lean: `multiply`, `buildGenerator`, `encodeArr`).
  Conventions: Obligations/K04b.lean.
-/
import Gzx.Obligations.K04bDiv
namespace Gzx.Obligations.K04bEnc
open Gzx Gzx.GoM Gzx.GoVal Gzx.RS Gzx.K04bTie Gzx.Obligations.K04b Gzx.Obligations.K04bPoly Gzx.Obligations.K04bDiv

theorem mulRaw_error {F : GF.GF} {b : List Nat} : ∀ (a : List Nat) (e : Fault), mulRaw F a b = .error e → IsPanic e := by
  intro a
  induction a with
  | nil => intro e h; simp only [mulRaw] at h; cases h
  | cons a0 as ih =>
    intro e h
    simp only [mulRaw, bind, Except.bind] at h
    cases hrow : b.mapM (fun bj => F.mul a0 bj) with
    | error e1 => simp only [hrow] at h; cases h; exact mapM_error (fun x e h => mul_error h) _ _ hrow
    | ok row =>
      simp only [hrow] at h
      cases hrest : mulRaw F as b with
      | error e2 => simp only [hrest] at h; cases h; exact ih _ hrest
      | ok rest => simp only [hrest] at h; cases h

when_kernel Gzx.Gen.K04b.polyMultiply in
/-- `Multiply(other)` = the model's `multiply`: the zero polynomial if an operand is zero, otherwise the coefficient double
    loop `product[i+j] ^= a_i * b_j` normalised by `NewGenericGFPoly` -/
theorem k_polyMultiply_eq (F : GF.GF) (hF : TablesOK F) (p q : List Nat) (hp : p ≠ []) (hq : q ≠ []) :
    Gen.K04b.polyMultiply (fieldRec F) (ints p) (ints q) = expE [] ints (multiply F p q) := by
  simp only [Gen.K04b.polyMultiply, multiply, Bool.false_eq_true, if_false, fieldRec_zero, len_ints]
  rw [k_polyIsZero_eq _ p hp, k_polyIsZero_eq _ q hq]
  simp only [tryR_ok]
  have hor : (if isZero p = true then (Except.ok true : Res Bool) else Except.ok (isZero q)) = .ok (isZero p || isZero q) := by
    cases isZero p <;> rfl
  rw [hor]
  simp only [tryR_ok]
  by_cases hz : (isZero p || isZero q) = true
  · simp only [hz, if_true]; rfl
  simp only [hz, Bool.false_eq_true, if_false]
  have hpl : 0 < p.length := List.length_pos_iff.mpr hp
  have hql : 0 < q.length := List.length_pos_iff.mpr hq
  rw [mk_words _ (p.length + q.length - 1) (by omega)]
  simp only [tryR_ok]
  rw [loop_list' ints (mulOuter F q) p 0 (List.replicate (p.length + q.length - 1) 0)]
  · have := iterL_mulOuter (ρ := List Int × Bool) F q hq p [] (List.replicate (p.length + q.length - 1) 0) (by simp)
    simp only [List.length_nil, List.nil_append] at this
    rw [this]
    simp only [bind, Except.bind]
    cases hm : mulRaw F p q with
    | error e =>
      simp only [mapS_panic, panic_thenR]
      exact (expE_of_panic _ _ (mulRaw_error _ _ hm)).symm
    | ok m =>
      have hml := mulRaw_length F q hq p m hm
      have hz0 : List.zipWith (· ^^^ ·) (List.replicate (p.length + q.length - 1) 0) m = m := by
        rw [← hml]; exact Proofs.Poly.zipWith_zeros_left m
      simp only [mapS_next, next_thenR, hz0]
      rw [k_newPoly_eq]
      cases mkPoly m with
      | ok v => rfl
      | error e => cases e <;> rfl
  · rfl
  · rw [tripUp_one]; omega
  · rfl
  · intro i hi t
    rw [idx_ints _ _ (0 + i) rfl, Nat.zero_add, List.getElem?_eq_getElem hi]
    simp only [tryC_ok, mulOuter]
    rw [loop_list' ints (mulInner F p[i] i) q 0 t]
    · rw [mapS_thenC]
      cases iterL (ρ := List Int × Bool) (mulInner F p[i] i) 0 q t <;> rfl
    · rfl
    · rw [tripUp_one]; omega
    · rfl
    · intro j hj t
      simp only [mulInner, Nat.zero_add]
      rw [idx_ints _ _ (i + j) (by omega)]
      cases t[i + j]? with
      | none => rfl
      | some v =>
        simp only [tryC_ok]
        rw [idx_ints _ _ j rfl, List.getElem?_eq_getElem hj]
        simp only [tryC_ok]
        rw [k_gfMultiply_eq F hF]
        cases F.mul p[i] q[j] with
        | error e => rfl
        | ok m =>
          simp only [Except.map, tryC_ok, Int.ofNat_eq_natCast]
          rw [k_gfAddOrSubtract_eq]
          simp only [tryC_ok]
          rw [setIdx_words _ _ _ (i + j) (v ^^^ m) (by omega) (by rfl)]
          cases Bits.setWord t (i + j) (v ^^^ m) <;> rfl

end Gzx.Obligations.K04bEnc
