/-
  K04b (decoder, part 3) — `ReedSolomonDecoder.runEuclideanAlgorithm` regenerated from /repo on every run and proved equal
  to the model's `runEuclideanAlgorithm`.  Both loops (`for 2*r.GetDegree() >= R`, and inside it the division
  `for r.GetDegree() >= rLast.GetDegree() && !r.IsZero()`) have no syntactic bound: the regenerated definition runs them on
  `fuel`; the theorem holds for every fuel that covers the lengths of the two arguments (+2), whenever the model does not
  exhaust its own budgets (`Properties/C04`, `rs_decode_total`: it never does on field elements).
  Conventions: Obligations/K04b.lean.
-/
import Gzx.Obligations.K04bChien
namespace Gzx.Obligations.K04bEuclid
open Gzx Gzx.GoM Gzx.GoVal Gzx.RS Gzx.K04bTie Gzx.Obligations.K04b Gzx.Obligations.K04bPoly Gzx.Obligations.K04bDiv
  Gzx.Obligations.K04bEnc Gzx.Obligations.K04bForney

/-- how `runEuclideanAlgorithm` renders a model result: (sigma, omega, nil) or (nil, nil, err); a panic is the panic -/
def expED2 : DRes (Poly × Poly) → Res (List Int × List Int × Bool)
  | .ok t => .ok (ints t.1, ints t.2, false)
  | .error e => failD (.ok ([], [], true)) Except.error e

/-- embedding of the outer loop's state (rLast, r, tLast, t) -/
def ints4 (t : Poly × Poly × Poly × Poly) : List Int × List Int × List Int × List Int :=
  (ints t.1, ints t.2.1, ints t.2.2.1, ints t.2.2.2)

/-- the body of the inner division loop of the regenerated `runEuclideanAlgorithm` on related states (r, q) is the model
    round `edivStep` -/
local macro "ediv_round " F:term:max hF:term:max o:term:max ho:term:max : tactic => `(tactic| (
  intro t ht
  obtain ⟨hr1, hq1⟩ := ht
  simp only [ints2, edivStep]
  simp only [k_polyGetDegree_eq, tryC_ok]
  rw [k_polyIsZero_eq _ t.1 hr1]
  have hlr : 0 < t.1.length := List.length_pos_iff.mpr hr1
  have hlo : 0 < ($o).length := List.length_pos_iff.mpr $ho
  by_cases hc : (decide (degree t.1 ≥ degree $o) && !isZero t.1) = true
  · have hge : degree t.1 ≥ degree $o := by
      rw [Bool.and_eq_true] at hc; exact of_decide_eq_true hc.1
    have hnz : (!isZero t.1) = true := by rw [Bool.and_eq_true] at hc; exact hc.2
    have hd : decide ((t.1.length : Int) - 1 ≥ (($o).length : Int) - 1) = true := by
      apply decide_eq_true; unfold degree at hge; omega
    rw [if_pos hc]
    simp only [hd, if_true, tryR_ok, hnz, tryC_ok]
    have e1 : (t.1.length : Int) - 1 - ((($o).length : Int) - 1) = ((degree t.1 - degree $o : Nat) : Int) := by
      unfold degree at hge ⊢; omega
    rw [e1, k_polyGetCoefficient_at _ t.1 _ (degree t.1) (by unfold degree; omega)]
    rw [stepE_bind]
    cases hlead : getCoefficient t.1 (degree t.1) with
    | error e => simp only [Except.map, tryC_error, failK_of_panic _ _ (getCoefficient_error hlead), mapS_panic]
    | ok lead =>
      simp only [Except.map, tryC_ok, Int.ofNat_eq_natCast]
      rw [k_gfMultiply_eq $F $hF, stepE_bind]
      cases hscale : GF.GF.mul $F lead _ with
      | error e => simp only [Except.map, tryC_error, failK_of_panic _ _ (mul_error hscale), mapS_panic]
      | ok scale =>
        simp only [Except.map, tryC_ok, Int.ofNat_eq_natCast]
        rw [k_gfBuildMonomial_eq, tryC_expE, stepE_bind]
        cases hiq : buildMonomial (degree t.1 - degree $o) scale with
        | error e => simp only [mapS_failK]
        | ok iq =>
          simp only []
          rw [k_polyAddOrSubtract_eq _ t.2 iq hq1 (buildMonomial_ne hiq), tryC_expE, stepE_bind]
          cases hq' : addOrSubtract t.2 iq with
          | error e => simp only [mapS_failK]
          | ok q' =>
            simp only []
            rw [k_polyMultiplyByMonomial_eq $F $hF, tryC_expE, stepE_bind]
            cases hterm : multiplyByMonomial $F $o (degree t.1 - degree $o) scale with
            | error e => simp only [mapS_failK]
            | ok term =>
              simp only []
              rw [k_polyAddOrSubtract_eq _ t.1 term hr1 (multiplyByMonomial_ne hterm), tryC_expE, stepE_bind]
              cases hr' : addOrSubtract t.1 term with
              | error e => simp only [mapS_failK]
              | ok r' => rfl
  · have hd : (if decide ((t.1.length : Int) - 1 ≥ (($o).length : Int) - 1) = true then
        (tryR (Except.ok (isZero t.1)) fun tmp7 => Except.ok (!tmp7)) else Except.ok false) = Except.ok false := by
      by_cases hge : degree t.1 ≥ degree $o
      · have : decide ((t.1.length : Int) - 1 ≥ (($o).length : Int) - 1) = true := by
          apply decide_eq_true; unfold degree at hge; omega
        simp only [this, if_true, tryR_ok]
        rw [Bool.and_eq_true, not_and] at hc
        have := hc (decide_eq_true hge)
        simpa using this
      · have : decide ((t.1.length : Int) - 1 ≥ (($o).length : Int) - 1) = false := by
          apply decide_eq_false; unfold degree at hge; omega
        simp only [this, Bool.false_eq_true, if_false]
    rw [if_neg hc]
    simp only [hd, tryC_ok, Bool.false_eq_true, if_false]
    rfl))

/-- invariant of the outer loop: the four polynomials are non-empty -/
def Inv4 (t : Poly × Poly × Poly × Poly) : Prop := t.1 ≠ [] ∧ t.2.1 ≠ [] ∧ t.2.2.1 ≠ [] ∧ t.2.2.2 ≠ []

theorem euclidStep_inv {F : GF.GF} {R f : Nat} {D : List Int × List Int × Bool} {t t' : Poly × Poly × Poly × Poly}
    (ht : Inv4 t) (h : euclidStep F R D f t = .next t') : Inv4 t' := by
  obtain ⟨h1, h2, h3, h4⟩ := ht
  unfold euclidStep at h
  split at h
  · cases hb : euclidBlk F f t.1 t.2.1 t.2.2.1 t.2.2.2 with
    | error e =>
      rw [hb] at h
      cases e with
      | base fl => cases fl <;> cases h
      | _ => cases h
    | ok s =>
      rw [hb] at h
      simp only [stepD] at h
      cases h
      unfold euclidBlk at hb
      by_cases hz : isZero t.2.1 = true
      · simp only [hz, if_true] at hb; cases hb
      · simp only [hz, Bool.false_eq_true, if_false] at hb
        simp only [bind, Except.bind, pure, Except.pure] at hb
        cases e1 : liftD (getCoefficient t.2.1 (degree t.2.1)) with
        | error e => simp only [e1] at hb; cases hb
        | ok dlt =>
          simp only [e1] at hb
          cases e2 : liftD (GF.GF.inv F dlt) with
          | error e => simp only [e2] at hb; cases hb
          | ok dltInverse =>
            simp only [e2] at hb
            cases e3 : euclidDivLoop F t.2.1 dltInverse f [0] t.1 with
            | error e => simp only [e3, liftD] at hb; cases hb
            | ok qr =>
              simp only [e3, liftD] at hb
              have hqr := euclidDivLoop_ne F t.2.1 dltInverse f [0] t.1 qr (by simp) h1 e3
              cases e4 : multiply F qr.1 t.2.2.2 with
              | error e => simp only [e4] at hb; cases hb
              | ok q2 =>
                simp only [e4] at hb
                cases e5 : addOrSubtract q2 t.2.2.1 with
                | error e => simp only [e5] at hb; cases hb
                | ok t2 =>
                  simp only [e5] at hb
                  by_cases hd : degree qr.2 ≥ degree t.2.1
                  · simp only [hd, if_true] at hb; cases hb
                  · simp only [hd, if_false] at hb
                    cases hb
                    exact ⟨h2, hqr.2, h4, addOrSubtract_ne (multiply_ne e4) h3 e5⟩
  · cases h

/-- the locator that the model's `runEuclideanAlgorithm` returns is a non-empty coefficient list -/
theorem runEuclid_sigma_ne (F : GF.GF) (a b : Poly) (ha : a ≠ []) (hb : b ≠ []) (R : Nat) (sigma omega : Poly)
    (h : runEuclideanAlgorithm F a b R = .ok (sigma, omega)) : sigma ≠ [] := by
  unfold runEuclideanAlgorithm at h
  -- the ordered operands
  have key : ∀ a' b' : Poly, a' ≠ [] → b' ≠ [] →
      (do let tr ← euclidLoop F R (b'.length + 1) a' b' [0] [1]
          let sz ← liftD (getCoefficient tr.1 0)
          if sz = 0 then throw DErr.sigmaZero
          let inverse ← liftD (F.inv sz)
          let sg ← liftD (multiplyBy F tr.1 inverse)
          let om ← liftD (multiplyBy F tr.2 inverse)
          (Except.ok (sg, om) : DRes (Poly × Poly))) = .ok (sigma, omega) → sigma ≠ [] := by
    intro a' b' ha' hb' hk
    simp only [bind, Except.bind] at hk
    cases hl : euclidLoop F R (b'.length + 1) a' b' [0] [1] with
    | error e => simp only [hl] at hk; cases hk
    | ok tr =>
      simp only [hl] at hk
      have hrun := euclid_run F R (([], [], true) : List Int × List Int × Bool) (a'.length + b'.length + 2) (b'.length + 1) a' b' [0] [1]
        (b'.length + 1) (Nat.le_refl _) (by omega) (by omega) (by rw [hl]; intro h; cases h)
      rw [hl] at hrun
      obtain ⟨rl, tl, h3⟩ := hrun
      have hfin : Inv4 (rl, tr.2, tl, tr.1) :=
        while_inv_brk Inv4 _ (fun t t' ht hs => euclidStep_inv ht hs) (fun t t' ht hs => by
          unfold euclidStep at hs
          split at hs
          · cases hbk : euclidBlk F (a'.length + b'.length + 2) t.1 t.2.1 t.2.2.1 t.2.2.2 with
            | error e =>
              rw [hbk] at hs
              cases e with
              | base fl => cases fl <;> cases hs
              | _ => cases hs
            | ok s2 => rw [hbk] at hs; cases hs
          · cases hs; exact ht) _ _ _ ⟨ha', hb', by simp, by simp⟩ h3
      cases hsz : liftD (getCoefficient tr.1 0) with
      | error e => simp only [hsz] at hk; cases hk
      | ok sz =>
        simp only [hsz] at hk
        by_cases hz : sz = 0
        · simp only [hz, if_true] at hk; cases hk
        · simp only [hz, if_false, pure, Except.pure] at hk
          cases hinv : liftD (GF.GF.inv F sz) with
          | error e => simp only [hinv] at hk; cases hk
          | ok inverse =>
            simp only [hinv] at hk
            cases hs1 : multiplyBy F tr.1 inverse with
            | error e => simp only [hs1, liftD] at hk; cases hk
            | ok sg =>
              simp only [hs1, liftD] at hk
              cases hs2 : multiplyBy F tr.2 inverse with
              | error e => simp only [hs2] at hk; cases hk
              | ok om =>
                simp only [hs2] at hk
                cases hk
                exact multiplyBy_ne hfin.2.2.2 hs1
  by_cases hsw : degree a < degree b
  · simp only [hsw, if_true] at h; exact key b a hb ha h
  · simp only [hsw, if_false] at h; exact key a b ha hb h

set_option hygiene false in
/-- everything after the operands have been ordered (first of degree ≥ second); unhygienic on purpose: it refers to
    `F hF R fuel ha' hb' hnf'` of the theorem below -/
local macro "euclid_tail " a:ident b:ident : tactic => `(tactic| (
  rw [while_map_inv' ints4 Inv4 (euclidStep F R (([], [], true) : List Int × List Int × Bool) fuel) ($a, $b, [0], [1])]
  · -- the loop is the model's loop; then the normalisation by sigmaTilde(0)
    have hrun := euclid_run F R (([], [], true) : List Int × List Int × Bool) fuel (($b).length + 1) $a $b [0] [1] fuel
      (by omega) (by omega) (by omega)
    simp only [bind, Except.bind] at hnf' ⊢
    cases hl : euclidLoop F R (($b).length + 1) $a $b [0] [1] with
    | error e =>
      have hne : euclidLoop F R (($b).length + 1) $a $b [0] [1] ≠ .error (.base .fuel) := by
        intro h; rw [h] at hnf'; exact hnf' rfl
      have h2 := hrun hne
      rw [hl] at h2
      simp only [] at h2
      rw [h2]
      cases e with
      | base fl => cases fl <;> rfl
      | _ => rfl
    | ok tr =>
      obtain ⟨t, r⟩ := tr
      have hne : euclidLoop F R (($b).length + 1) $a $b [0] [1] ≠ .error (.base .fuel) := by
        rw [hl]; intro h; cases h
      have h2 := hrun hne
      rw [hl] at h2
      obtain ⟨rl, tl, h3⟩ := h2
      rw [hl] at hnf'
      simp only [] at hnf' h3 ⊢
      rw [h3]
      simp only [mapS_brk, brk_thenR, ints4]
      rw [k_polyGetCoefficient_at _ t 0 0 rfl]
      cases hsz : getCoefficient t 0 with
      | error e =>
        simp only [Except.map, tryR_error, liftD, expED2]
        obtain ⟨w, rfl⟩ := getCoefficient_error hsz
        rfl
      | ok sz =>
        simp only [Except.map, tryR_ok, Int.ofNat_eq_natCast, natCast_beq_zero, liftD]
        by_cases hz : sz = 0
        · subst hz; rfl
        · simp only [beq_eq_false_iff_ne.mpr hz, Bool.false_eq_true, if_false, hz]
          rw [k_gfInverse_eq F hF, tryR_expE]
          cases hinv : GF.GF.inv F sz with
          | error e => simp only [liftD, expED2, failD_base]
          | ok inverse =>
            simp only [liftD, Int.ofNat_eq_natCast]
            have hfin : Inv4 (rl, r, tl, t) :=
              while_inv_brk Inv4 _ (fun t t' ht hs => euclidStep_inv ht hs) (fun t t' ht hs => by
                unfold euclidStep at hs
                split at hs
                · cases hb : euclidBlk F fuel t.1 t.2.1 t.2.2.1 t.2.2.2 with
                  | error e =>
                    rw [hb] at hs
                    cases e with
                    | base fl => cases fl <;> cases hs
                    | _ => cases hs
                  | ok s2 => rw [hb] at hs; cases hs
                · cases hs; exact ht) fuel _ _ ⟨ha', hb', by simp, by simp⟩ h3
            rw [k_polyMultiplyBy_eq F hF t hfin.2.2.2 inverse]
            cases hs1 : multiplyBy F t inverse with
            | error e =>
              obtain ⟨w, rfl⟩ := multiplyBy_error hfin.2.2.2 hs1
              rfl
            | ok sigma =>
              simp only [Except.map, tryR_ok]
              rw [k_polyMultiplyBy_eq F hF r hfin.2.1 inverse]
              cases hs2 : multiplyBy F r inverse with
              | error e =>
                obtain ⟨w, rfl⟩ := multiplyBy_error hfin.2.1 hs2
                rfl
              | ok omega => rfl
  · rfl
  · exact ⟨ha', hb', by simp, by simp⟩
  · intro t t' ht hstep; exact euclidStep_inv ht hstep
  · intro t ht
    obtain ⟨rLast, r, tLast, tt⟩ := t
    obtain ⟨h1, h2, h3, h4⟩ := ht
    dsimp (config := { instances := true }) only [ints4, euclidStep] at h1 h2 h3 h4 ⊢
    simp only [k_polyGetDegree_eq, tryC_ok]
    have hrl : 0 < r.length := List.length_pos_iff.mpr h2
    by_cases hc : 2 * degree r ≥ R
    · rw [if_pos hc]
      split
      case isFalse hneg =>
        exfalso; apply hneg; exact decide_eq_true (by unfold degree at hc; omega)
      unfold euclidBlk
      rw [k_polyIsZero_eq _ r h2]
      simp only [tryC_ok]
      by_cases hz : isZero r = true
      · simp only [hz, if_true]; rfl
      · simp only [hz, Bool.false_eq_true, if_false]
        rw [k_polyGetCoefficient_at _ r _ (degree r) (by unfold degree; omega)]
        simp only [bind, Except.bind, pure, Except.pure]
        cases hdl : getCoefficient r (degree r) with
        | error e =>
          obtain ⟨w, rfl⟩ := getCoefficient_error hdl
          rfl
        | ok dlt =>
          simp only [Except.map, tryC_ok, liftD, Int.ofNat_eq_natCast]
          rw [k_gfInverse_eq F hF, tryC_expE]
          cases hiv : GF.GF.inv F dlt with
          | error e => simp only [liftD, stepD, failD_base, mapS_failK]
          | ok dinv =>
            simp only [liftD, Int.ofNat_eq_natCast]
            rw [while_map_inv' ints2 (fun t => t.1 ≠ [] ∧ t.2 ≠ [])
              (edivStep F r dinv (([], [], true) : List Int × List Int × Bool)) (rLast, [0])]
            · rw [edivStep_run F r dinv _ fuel [0] rLast]
              cases hq : euclidDivLoop F r dinv fuel [0] rLast with
              | error e =>
                simp only [liftD, stepD, failD_base, mapS_failK]
                cases e <;> rfl
              | ok qr =>
                have hqr := euclidDivLoop_ne F r dinv fuel [0] rLast qr (by simp) h1 hq
                simp only [mapS_brk, brk_thenC, ints2, liftD]
                rw [k_polyMultiply_eq F hF qr.1 tt hqr.1 h4, tryC_expE]
                cases hm : multiply F qr.1 tt with
                | error e => simp only [liftD, stepD, failD_base, mapS_failK]
                | ok q2 =>
                  simp only [liftD]
                  rw [k_polyAddOrSubtract_eq _ q2 tLast (multiply_ne hm) h3, tryC_expE]
                  cases had : addOrSubtract q2 tLast with
                  | error e => simp only [liftD, stepD, failD_base, mapS_failK]
                  | ok t2 =>
                    simp only [liftD, k_polyGetDegree_eq, tryC_ok]
                    have hq2l : 0 < qr.2.length := List.length_pos_iff.mpr hqr.2
                    by_cases hd : degree qr.2 ≥ degree r
                    · rw [if_pos hd]
                      split
                      case isFalse hneg =>
                        exfalso; apply hneg; exact decide_eq_true (by unfold degree at hd; omega)
                      rfl
                    · rw [if_neg hd]
                      split
                      case isTrue hpos =>
                        exfalso; apply hd
                        have := of_decide_eq_true hpos
                        unfold degree; omega
                      rfl
            · rfl
            · exact ⟨h1, by simp⟩
            · intro t t' ht hs; exact edivStep_inv ht hs
            · ediv_round F hF r h2
    · rw [if_neg hc]
      split
      case isTrue hpos =>
        exfalso; apply hc
        have := of_decide_eq_true hpos
        unfold degree; omega
      rfl
))

when_kernel Gzx.Gen.K04b.decRunEuclideanAlgorithm in
/-- `runEuclideanAlgorithm(a, b, R)` = the model's `runEuclideanAlgorithm` -/
theorem k_decRunEuclideanAlgorithm_eq (F : GF.GF) (hF : TablesOK F) (a b : List Nat) (ha : a ≠ []) (hb : b ≠ []) (R : Nat)
    (fuel : Nat) (hfa : a.length + 2 ≤ fuel) (hfb : b.length + 2 ≤ fuel)
    (hnf : runEuclideanAlgorithm F a b R ≠ .error (.base .fuel)) :
    Gen.K04b.decRunEuclideanAlgorithm fuel (fieldRec F) (ints a) (ints b) R = expED2 (runEuclideanAlgorithm F a b R) := by
  simp only [Gen.K04b.decRunEuclideanAlgorithm, runEuclideanAlgorithm, k_polyGetDegree_eq, tryR_ok, fieldRec_zero, fieldRec_one] at hnf ⊢
  have hal : 0 < a.length := List.length_pos_iff.mpr ha
  have hbl : 0 < b.length := List.length_pos_iff.mpr hb
  by_cases hsw : degree a < degree b
  · have hd : decide ((a.length : Int) - 1 < (b.length : Int) - 1) = true := by
      apply decide_eq_true; unfold degree at hsw; omega
    simp only [hd, if_true, next_thenR, hsw] at hnf ⊢
    have ha' := hb
    have hb' := ha
    have hnf' := hnf
    euclid_tail b a
  · have hd : decide ((a.length : Int) - 1 < (b.length : Int) - 1) = false := by
      apply decide_eq_false; unfold degree at hsw; omega
    simp only [hd, Bool.false_eq_true, if_false, next_thenR, hsw] at hnf ⊢
    have ha' := ha
    have hb' := hb
    have hnf' := hnf
    euclid_tail a b

end Gzx.Obligations.K04bEuclid
