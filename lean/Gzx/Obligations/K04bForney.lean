/-
  K04b (decoder, part 1) — `ReedSolomonDecoder.findErrorMagnitudes` (Forney's formula with the generator-base correction)
  regenerated from /repo on every run and proved equal to the model's `findErrorMagnitudes` for ALL inputs.
  Conventions: Obligations/K04b.lean.
-/
import Gzx.Obligations.K04bEnc
namespace Gzx.Obligations.K04bForney
open Gzx Gzx.GoM Gzx.GoVal Gzx.RS Gzx.K04bTie Gzx.Obligations.K04b Gzx.Obligations.K04bPoly Gzx.Obligations.K04bDiv

theorem natCast_bne (a b : Nat) : (((a : Int) != (b : Int)) : Bool) = (a != b) := by
  simp only [bne, natCast_beq]

theorem setWord_ok (res : List Nat) (i v : Nat) (h : i < res.length) : Bits.setWord res i v = .ok (res.set i v) := by
  unfold Bits.setWord; rw [if_pos h]

when_kernel Gzx.Gen.K04b.decFindErrorMagnitudes in
/-- `findErrorMagnitudes(errorEvaluator, errorLocations)` = the model's `findErrorMagnitudes`: for every location `X_i` the
    value `Ω(X_i⁻¹) / ∏_{j≠i} (1 + X_j·X_i⁻¹)`, times `X_i⁻¹` when the generator base is not 0; a checked error when a
    location or a denominator is 0; panics of out-of-range symbols included -/
theorem k_decFindErrorMagnitudes_eq (F : GF.GF) (hF : TablesOK F) (omega locs : List Nat) :
    Gen.K04b.decFindErrorMagnitudes (fieldRec F) (ints omega) (ints locs) = expE [] ints (findErrorMagnitudes F omega locs) := by
  simp only [Gen.K04b.decFindErrorMagnitudes, findErrorMagnitudes, len_ints, fieldRec_base]
  rw [mk_words _ locs.length rfl]
  simp only [tryR_ok]
  rw [loop_list_inv' ints (fun res => res.length = locs.length) (magStep F omega locs ([], true)) locs 0
    (List.replicate locs.length 0)]
  · have := iterL_mag F omega locs (([], true) : List Int × Bool) locs []
    simp only [List.length_nil, List.nil_append] at this
    rw [this]
    cases magLoop F omega locs locs 0 with
    | ok ms => rfl
    | error e => cases e <;> rfl
  · rfl
  · rw [tripUp_one]; omega
  · rfl
  · simp
  · intro j hj t t' ht hstep
    simp only [magStep] at hstep
    cases hm : errorMagnitude F omega locs (0 + j) locs[j] with
    | error e => simp only [hm] at hstep; cases e <;> cases hstep
    | ok m =>
      simp only [hm] at hstep
      rw [setWord_ok _ _ _ (by omega)] at hstep
      cases hstep
      simp [ht]
  · intro j hj res hres
    rw [idx_ints _ _ (0 + j) rfl, Nat.zero_add, List.getElem?_eq_getElem hj]
    simp only [tryC_ok, magStep, errorMagnitude, Nat.zero_add]
    rw [k_gfInverse_eq F hF, tryC_expE]
    simp only [bind, Except.bind]
    cases hxi : GF.GF.inv F locs[j] with
    | error e => simp only [mapS_failK]
    | ok xiInv =>
      simp only [Int.ofNat_eq_natCast]
      rw [loop_list' (Nat.cast : Nat → Int) (denStep F xiInv j) locs 0 1]
      · rw [iterL_den, mapS_thenC]
        cases hden : magDenominator F xiInv j locs 0 1 with
        | error e =>
          simp only [stepC_error, panic_thenC, failK_of_panic _ _ (magDenominator_error _ _ _ _ hden), mapS_panic]
        | ok den =>
          simp only [stepC_ok, next_thenC]
          rw [k_gfInverse_eq F hF, tryC_expE]
          cases hinv : GF.GF.inv F den with
          | error e => simp only [mapS_failK]
          | ok inverse =>
            simp only [Int.ofNat_eq_natCast]
            rw [k_polyEvaluateAt_eq F hF]
            cases hev : evaluateAt F omega xiInv with
            | error e => simp only [Except.map, tryC_error, failK_of_panic _ _ (evaluateAt_error hev), mapS_panic]
            | ok ev =>
              simp only [Except.map, tryC_ok, Int.ofNat_eq_natCast]
              rw [k_gfMultiply_eq F hF]
              cases hr : GF.GF.mul F ev inverse with
              | error e => simp only [Except.map, tryC_error, failK_of_panic _ _ (mul_error hr), mapS_panic]
              | ok r =>
                simp only [Except.map, tryC_ok, Int.ofNat_eq_natCast]
                rw [setIdx_words _ _ _ j r (by rfl) (by rfl), setWord_ok _ _ _ (by omega)]
                simp only [Except.map, tryC_ok]
                by_cases hb : F.base = 0
                · have hbn : (((F.base : Int) != 0) : Bool) = false := by rw [hb]; rfl
                  simp only [hbn, Bool.false_eq_true, if_false, next_thenC, hb, ne_eq, not_true_eq_false]
                  rw [setWord_ok _ _ _ (by omega)]
                  rfl
                · have hbn : (((F.base : Int) != 0) : Bool) = true := by
                    rw [show (0 : Int) = ((0 : Nat) : Int) from rfl, natCast_bne]; simpa using hb
                  simp only [hbn, if_true, hb, ne_eq, not_false_eq_true]
                  rw [idx_ints _ _ j rfl, List.getElem?_set_self (by omega)]
                  simp only [tryC_ok]
                  rw [k_gfMultiply_eq F hF]
                  cases hr2 : GF.GF.mul F r xiInv with
                  | error e => simp only [Except.map, tryC_error, panic_thenC, failK_of_panic _ _ (mul_error hr2), mapS_panic]
                  | ok r2 =>
                    simp only [Except.map, tryC_ok, Int.ofNat_eq_natCast]
                    rw [setIdx_words _ _ _ j r2 (by rfl) (by rfl), setWord_ok _ _ _ (by simp; omega), setWord_ok _ _ _ (by omega)]
                    simp only [Except.map, tryC_ok, next_thenC, List.set_set]
                    rfl
      · rfl
      · rw [tripUp_one]; omega
      · rfl
      · intro j' hj' den
        simp only [denStep, Nat.zero_add, natCast_bne]
        by_cases hij : j ≠ j'
        · have hne : (j != j') = true := by simpa using hij
          simp only [hne, if_true, hij, ne_eq, not_false_eq_true]
          rw [idx_ints _ _ j' rfl, List.getElem?_eq_getElem hj']
          simp only [tryC_ok]
          rw [k_gfMultiply_eq F hF]
          simp only [bind, Except.bind]
          cases hterm : GF.GF.mul F locs[j'] xiInv with
          | error e => rfl
          | ok term =>
            simp only [Except.map, tryC_ok, Int.ofNat_eq_natCast]
            -- "plus one": the source's two-branch form, or a plain xor with 1
            first
              | rw [tp1_ctl]
              | (rw [show (1 : Int) = ((1 : Nat) : Int) from rfl, k_gfAddOrSubtract_eq, ← tp1_eq_xor]; simp only [tryC_ok])
            rw [k_gfMultiply_eq F hF]
            cases GF.GF.mul F den (tp1 term) <;> rfl
        · have hne : (j != j') = false := by simpa using hij
          simp only [hne, Bool.false_eq_true, if_false, hij]
          rfl

end Gzx.Obligations.K04bForney
