/-
  K04b (GenericGFPoly part) — the polynomial methods of common/reedsolomon/generic_gf_poly.go regenerated from /repo on
  every run (`Gzx.Gen.K04b`) and proved equal to the hand-written model of Model/RS.lean.  Conventions: Obligations/K04b.lean.
-/
import Gzx.Obligations.K04b
namespace Gzx.Obligations.K04bPoly
open Gzx Gzx.GoM Gzx.GoVal Gzx.RS Gzx.K04bTie Gzx.Obligations.K04b

when_kernel Gzx.Gen.K04b.polyGetDegree in
/-- `GetDegree()` = `len(coefficients) - 1` (the model's `degree` for a non-empty list) -/
theorem k_polyGetDegree_eq (gf : Gen.K04b.GenericGF) (p : List Nat) :
    Gen.K04b.polyGetDegree gf (ints p) = .ok ((p.length : Int) - 1) := by
  simp only [Gen.K04b.polyGetDegree, len_ints]

theorem degree_cast (p : List Nat) (hp : p ≠ []) : (p.length : Int) - 1 = ((degree p : Nat) : Int) := by
  have : 0 < p.length := List.length_pos_iff.mpr hp
  unfold degree; omega

when_kernel Gzx.Gen.K04b.polyIsZero in
/-- `IsZero()` = the model's `isZero` (first coefficient is 0) -/
theorem k_polyIsZero_eq (gf : Gen.K04b.GenericGF) (p : List Nat) (hp : p ≠ []) :
    Gen.K04b.polyIsZero gf (ints p) = .ok (isZero p) := by
  cases p with
  | nil => exact absurd rfl hp
  | cons c cs =>
    simp only [Gen.K04b.polyIsZero]
    rw [idx_ints _ 0 0 rfl]
    simp only [List.getElem?_cons_zero, tryR_ok, natCast_beq_zero, isZero, List.head?_cons]
    congr 1

when_kernel Gzx.Gen.K04b.polyGetCoefficient in
/-- `GetCoefficient(d)` = the model's `getCoefficient` (index panic for `d > degree` included) -/
theorem k_polyGetCoefficient_eq (gf : Gen.K04b.GenericGF) (p : List Nat) (d : Nat) :
    Gen.K04b.polyGetCoefficient gf (ints p) d = (getCoefficient p d).map Int.ofNat := by
  simp only [Gen.K04b.polyGetCoefficient, getCoefficient, len_ints]
  by_cases h : d + 1 > p.length
  · rw [if_pos h, idx_neg _ _ (by omega)]; rfl
  · rw [if_neg h, idx_ints _ _ (p.length - 1 - d) (by omega)]
    cases p[p.length - 1 - d]? <;> rfl


when_kernel Gzx.Gen.K04b.polyGetCoefficient in
/-- the same with the degree as an integer expression (for rewriting inside callers) -/
theorem k_polyGetCoefficient_at (gf : Gen.K04b.GenericGF) (p : List Nat) (e : Int) (d : Nat) (h : e = d) :
    Gen.K04b.polyGetCoefficient gf (ints p) e = (getCoefficient p d).map Int.ofNat := by
  subst h; exact k_polyGetCoefficient_eq gf p d

/-! ### EvaluateAt -/

/-- the `a == 1` loop: xor of all coefficients -/
theorem iterL_xor (p : List Nat) : ∀ (i t : Nat),
    iterL (ρ := Int) (fun _ x t => Ctl.next (t ^^^ x)) i p t = .next (p.foldl (· ^^^ ·) t) := by
  induction p with
  | nil => intro i t; rfl
  | cons x xs ih => intro i t; simp only [iterL, List.foldl_cons]; exact ih (i + 1) (t ^^^ x)

/-- the Horner loop as a list-driven iteration -/
theorem iterL_horner (F : GF.GF) (a : Nat) (cs : List Nat) : ∀ (i r : Nat),
    iterL (ρ := Int) (fun _ x r => stepC ((F.mul a r).map (· ^^^ x))) i cs r = stepC (evalLoop F a cs r) := by
  induction cs with
  | nil => intro i r; rfl
  | cons c cs ih =>
    intro i r
    simp only [iterL, evalLoop, bind, Except.bind]
    cases F.mul a r with
    | error e => rfl
    | ok m => simp only [Except.map, stepC_ok]; exact ih (i + 1) (m ^^^ c)

when_kernel Gzx.Gen.K04b.polyEvaluateAt in
/-- `EvaluateAt(a)` = the model's `evaluateAt`: the x^0 coefficient for `a == 0`, the xor of the coefficients for `a == 1`,
    Horner with the table-driven `Multiply` otherwise (panics of out-of-range symbols included) -/
theorem k_polyEvaluateAt_eq (F : GF.GF) (hF : TablesOK F) (p : List Nat) (a : Nat) :
    Gen.K04b.polyEvaluateAt (fieldRec F) (ints p) a = (evaluateAt F p a).map Int.ofNat := by
  simp only [Gen.K04b.polyEvaluateAt, evaluateAt, natCast_beq_zero]
  by_cases h0 : a = 0
  · subst h0
    simp only [beq_self_eq_true, if_true]
    rw [show (0 : Int) = ((0 : Nat) : Int) from rfl, k_polyGetCoefficient_eq]
    cases getCoefficient p 0 <;> rfl
  have hb0 : (a == 0) = false := beq_eq_false_iff_ne.mpr h0
  simp only [hb0, Bool.false_eq_true, if_false, h0]
  by_cases h1 : a = 1
  · subst h1
    simp only [show (((1 : Nat) : Int) == 1) = true from rfl, if_true]
    rw [forRange_list' (Nat.cast : Nat → Int) (fun _ x t => Ctl.next (t ^^^ x)) p 0 0]
    · rw [iterL_xor]; rfl
    · rfl
    · rfl
    · rfl
    · intro j hj t
      rw [k_gfAddOrSubtract_eq]; rfl
  have hb1 : ((a : Int) == 1) = false := by
    rw [show (1 : Int) = ((1 : Nat) : Int) from rfl, natCast_beq]; exact beq_eq_false_iff_ne.mpr h1
  simp only [hb1, Bool.false_eq_true, if_false, h1]
  cases p with
  | nil => rfl
  | cons c0 cs =>
    rw [idx_ints _ 0 0 rfl]
    simp only [List.getElem?_cons_zero, tryR_ok]
    rw [loop_list' (Nat.cast : Nat → Int) (fun _ x r => stepC ((F.mul a r).map (· ^^^ x))) cs 1 c0]
    · rw [iterL_horner]
      cases evalLoop F a cs c0 <;> rfl
    · rfl
    · rw [tripUp_one, len_ints]; simp
    · rfl
    · intro j hj t
      rw [k_gfMultiply_eq F hF]
      cases F.mul a t with
      | error e => rfl
      | ok m =>
        simp only [Except.map, tryC_ok]
        rw [idx_ints _ _ (1 + j) rfl]
        have : (c0 :: cs)[1 + j]? = some cs[j] := by
          rw [Nat.add_comm, List.getElem?_cons_succ, List.getElem?_eq_getElem hj]
        rw [this]
        simp only [tryC_ok]
        rw [show Int.ofNat m = (m : Int) from rfl, k_gfAddOrSubtract_eq]
        rfl


/-! ### NewGenericGFPoly -/

/-- number of leading zeros -/
def lz (l : List Nat) : Nat := (l.takeWhile (· == 0)).length

theorem dropWhile_eq_drop_lz (l : List Nat) : l.dropWhile (· == 0) = l.drop (lz l) := by
  induction l with
  | nil => rfl
  | cons x xs ih =>
    unfold lz
    by_cases h : (x == 0) = true
    · rw [List.dropWhile_cons_of_pos (p := (· == 0)) h, List.takeWhile_cons_of_pos (p := (· == 0)) h, List.length_cons, List.drop_succ_cons]; exact ih
    · rw [List.dropWhile_cons_of_neg (p := (· == 0)) h, List.takeWhile_cons_of_neg (p := (· == 0)) h]; rfl

theorem lz_le (l : List Nat) : lz l ≤ l.length := by
  unfold lz; exact (List.takeWhile_sublist _).length_le

/-- the scan for the first non-zero coefficient, on model indices -/
def scanStep (cs : List Nat) (i : Nat) : Ctl Nat (List Int × Bool) :=
  match cs[i]? with
  | some 0 => .next (i + 1)
  | _ => .brk i

theorem scan_run (cs : List Nat) : ∀ (l : List Nat) (i n : Nat), cs.drop i = l → l.length < n →
    whileLoop (scanStep cs) n i = .brk (i + lz l) := by
  intro l
  induction l with
  | nil =>
    intro i n hd hn
    obtain ⟨n, rfl⟩ : ∃ k, n = k + 1 := ⟨n - 1, by simp at hn; omega⟩
    have : cs[i]? = none := by
      rw [List.getElem?_eq_none_iff]; exact List.drop_eq_nil_iff.mp hd
    rw [whileLoop_succ]; simp only [scanStep, this]; rfl
  | cons x xs ih =>
    intro i n hd hn
    obtain ⟨n, rfl⟩ : ∃ k, n = k + 1 := ⟨n - 1, by simp at hn; omega⟩
    have hx : cs[i]? = some x := by
      have := congrArg List.head? hd
      rwa [List.head?_drop] at this
    have hd' : cs.drop (i + 1) = xs := by
      rw [← List.drop_drop, hd]; rfl
    rw [whileLoop_succ]
    simp only [scanStep, hx]
    cases x with
    | zero =>
      simp only []
      rw [ih (i + 1) n hd' (by simp at hn; omega)]
      unfold lz
      rw [List.takeWhile_cons_of_pos (p := (· == 0)) (by rfl), List.length_cons]
      congr 1; omega
    | succ k =>
      simp only []
      unfold lz
      rw [List.takeWhile_cons_of_neg (p := (· == 0)) (by simp)]; rfl

when_kernel Gzx.Gen.K04b.newPoly in
/-- `NewGenericGFPoly(field, coefficients)` = the model's `mkPoly`: error for an empty slice, leading zeros stripped
    (the constant polynomial 0 keeps one coefficient) -/
theorem k_newPoly_eq (gf : Gen.K04b.GenericGF) (cs : List Nat) :
    Gen.K04b.newPoly gf (ints cs) = expE [] ints (mkPoly cs) := by
  simp only [Gen.K04b.newPoly, len_ints, mkPoly]
  cases cs with
  | nil => rfl
  | cons c tl =>
    have hne : (((((c :: tl).length : Nat) : Int) == 0) = false) := by
      rw [show (0 : Int) = ((0 : Nat) : Int) from rfl, natCast_beq]; rfl
    simp only [hne, Bool.false_eq_true, if_false, List.isEmpty_cons]
    rw [idx_ints _ 0 0 rfl]
    simp only [List.getElem?_cons_zero, tryR_ok, natCast_beq_zero]
    by_cases h1 : tl = []
    · subst h1
      simp only [List.length_cons, List.length_nil, Nat.zero_add, show decide ((((1 : Nat) : Int)) > 1) = false from rfl,
        Bool.false_eq_true, if_false, tryR_ok, next_thenR, expE_ok]
      unfold normalize
      cases c with
      | zero => rfl
      | succ k => rfl
    have hlen : 1 < (c :: tl).length := by
      have : 0 < tl.length := List.length_pos_iff.mpr h1
      simp; omega
    have hd : decide ((((c :: tl).length : Nat) : Int) > 1) = true := by
      apply decide_eq_true; omega
    simp only [hd, if_true, tryR_ok]
    cases c with
    | succ k =>
      simp only [show (k + 1 == 0) = false from rfl, Bool.false_eq_true, if_false, next_thenR, expE_ok]
      unfold normalize
      rw [List.dropWhile_cons_of_neg (p := (· == 0)) (by simp)]
    | zero =>
      simp only [show ((0 : Nat) == 0) = true from rfl, if_true]
      rw [while_map' (Nat.cast : Nat → Int) (scanStep (0 :: tl)) 1]
      · rw [scan_run (0 :: tl) tl 1 _ rfl (by rw [tripUp_one]; simp)]
        simp only [mapS_brk, brk_thenC, expE_ok]
        unfold normalize
        rw [List.dropWhile_cons_of_pos (p := (· == 0)) (by rfl), dropWhile_eq_drop_lz]
        have hle := lz_le tl
        by_cases hall : lz tl = tl.length
        · have hb : ((((1 + lz tl : Nat) : Int)) == (((0 :: tl).length : Nat) : Int)) = true := by
            rw [natCast_beq, beq_iff_eq]; simp; omega
          simp only [hb, if_true, next_thenC, next_thenR]
          rw [hall, List.drop_length]
          rfl
        · have hb : ((((1 + lz tl : Nat) : Int)) == (((0 :: tl).length : Nat) : Int)) = false := by
            rw [natCast_beq, beq_eq_false_iff_ne]; simp; omega
          simp only [hb, Bool.false_eq_true, if_false]
          have hs : GoM.slice (ints (0 :: tl)) ((1 + lz tl : Nat) : Int) (((0 :: tl).length : Nat) : Int) = .ok (ints (tl.drop (lz tl))) := by
            unfold GoM.slice
            rw [if_pos (by simp [ints_length]; omega)]
            congr 1
            rw [Int.toNat_natCast, Int.toNat_natCast, ← ints_length (0 :: tl), List.take_length, Nat.add_comm]
            simp [ints, List.map_drop]
          rw [hs]
          simp only [tryC_ok, next_thenC, next_thenR]
          cases hdrop : tl.drop (lz tl) with
          | nil => exact absurd (List.drop_eq_nil_iff.mp hdrop) (by omega)
          | cons y ys => rfl

      · rfl
      · intro i
        simp only [scanStep, len_ints]
        by_cases hi : i < (0 :: tl).length
        · have hd2 : decide ((i : Int) < (((0 :: tl).length : Nat) : Int)) = true := by apply decide_eq_true; omega
          simp only [hd2, if_true]
          rw [idx_ints _ _ i rfl, List.getElem?_eq_getElem hi]
          simp only [tryR_ok, tryC_ok, natCast_beq_zero]
          cases (0 :: tl)[i] with
          | zero => rfl
          | succ k => rfl
        · have hd2 : decide ((i : Int) < (((0 :: tl).length : Nat) : Int)) = false := by apply decide_eq_false; omega
          simp only [hd2, Bool.false_eq_true, if_false, tryC_ok]
          rw [List.getElem?_eq_none (by omega)]
          rfl


/-! ### BuildMonomial, MultiplyByMonomial, MultiplyBy -/

when_kernel Gzx.Gen.K04b.gfBuildMonomial in
/-- `GenericGF.BuildMonomial(degree, coefficient)` = the model's `buildMonomial` (`degree ≥ 0`): the zero polynomial for
    coefficient 0, `coefficient·x^degree` otherwise -/
theorem k_gfBuildMonomial_eq (F : GF.GF) (deg coeff : Nat) :
    Gen.K04b.gfBuildMonomial (fieldRec F) deg coeff = expE [] ints (buildMonomial deg coeff) := by
  simp only [Gen.K04b.gfBuildMonomial, buildMonomial, natCast_beq_zero]
  have hd : decide ((deg : Int) < 0) = false := by apply decide_eq_false; omega
  simp only [hd, Bool.false_eq_true, if_false]
  by_cases hc : coeff = 0
  · subst hc; rfl
  · simp only [beq_eq_false_iff_ne.mpr hc, Bool.false_eq_true, if_false, hc]
    rw [mk_words _ (deg + 1) (by omega)]
    simp only [tryR_ok]
    rw [setIdx_words _ _ _ 0 coeff (by rfl) (by rfl)]
    have : Bits.setWord (List.replicate (deg + 1) 0) 0 coeff = .ok (coeff :: List.replicate deg 0) := by
      unfold Bits.setWord; simp [List.replicate_succ]
    rw [this]
    simp only [Except.map, tryR_ok]
    rw [k_newPoly_eq]
    cases mkPoly (coeff :: List.replicate deg 0) with
    | ok v => rfl
    | error e => cases e <;> rfl

when_kernel Gzx.Gen.K04b.gfBuildMonomial in
/-- the same with degree and coefficient as integer expressions -/
theorem k_gfBuildMonomial_at (F : GF.GF) (e1 e2 : Int) (deg coeff : Nat) (h1 : e1 = deg) (h2 : e2 = coeff) :
    Gen.K04b.gfBuildMonomial (fieldRec F) e1 e2 = expE [] ints (buildMonomial deg coeff) := by
  subst h1 h2; exact k_gfBuildMonomial_eq F deg coeff

/-- what the fill loop of MultiplyBy / MultiplyByMonomial computes -/
theorem fill_loop (F : GF.GF) (hF : TablesOK F) (p : List Nat) (s tailLen : Nat)
    {body : Int → List Int → Ctl (List Int) ρ} {n : Nat} {i0 : Int} {st : List Int}
    (hst : st = ints (List.replicate (p.length + tailLen) 0)) (hn : n = p.length) (hi : i0 = 0)
    (hb : ∀ j (hj : j < p.length) (t : List Nat), body ((0 + j : Nat) : Int) (ints t) =
      mapS ints (mapStep (fun c => F.mul c s) (0 + j) p[j] t)) :
    loop body 1 n i0 st = mapS ints (stepC ((p.mapM (fun c => F.mul c s)).map (fun ms => ms ++ List.replicate tailLen 0))) := by
  rw [loop_list' ints (mapStep (fun c => F.mul c s)) p 0 (List.replicate (p.length + tailLen) 0) hst hn (by omega) hb]
  have := iterL_map (ρ := ρ) (fun c => F.mul c s) tailLen p []
  simp only [List.length_nil, List.nil_append] at this
  rw [this]

when_kernel Gzx.Gen.K04b.polyMultiplyByMonomial in
/-- `MultiplyByMonomial(degree, coefficient)` = the model's `multiplyByMonomial` (`degree ≥ 0`) -/
theorem k_polyMultiplyByMonomial_eq (F : GF.GF) (hF : TablesOK F) (p : List Nat) (deg coeff : Nat) :
    Gen.K04b.polyMultiplyByMonomial (fieldRec F) (ints p) deg coeff = expE [] ints (multiplyByMonomial F p deg coeff) := by
  simp only [Gen.K04b.polyMultiplyByMonomial, multiplyByMonomial, natCast_beq_zero, len_ints]
  have hd : decide ((deg : Int) < 0) = false := by apply decide_eq_false; omega
  simp only [hd, Bool.false_eq_true, if_false]
  by_cases hc : coeff = 0
  · subst hc; rfl
  · simp only [beq_eq_false_iff_ne.mpr hc, Bool.false_eq_true, if_false, hc]
    rw [mk_words _ (p.length + deg) (by omega)]
    simp only [tryR_ok]
    rw [fill_loop F hF p coeff deg rfl (by rw [tripUp_one]; omega) rfl (fun j hj t => by
      rw [idx_ints _ _ (0 + j) rfl, Nat.zero_add, List.getElem?_eq_getElem hj]
      simp only [tryC_ok, mapStep]
      rw [k_gfMultiply_eq F hF]
      cases F.mul p[j] coeff with
      | error e => rfl
      | ok m =>
        simp only [Except.map, tryC_ok, Int.ofNat_eq_natCast]
        rw [setIdx_words _ _ _ j m (by rfl) (by rfl)]
        cases Bits.setWord t j m <;> rfl)]
    simp only [bind, Except.bind]
    cases hm : p.mapM (fun c => F.mul c coeff) with
    | error e =>
      simp only [Except.map, stepC_error, mapS_panic, panic_thenR]
      exact (expE_of_panic _ _ (mapM_error (fun x e h => mul_error h) _ _ hm)).symm
    | ok ms =>
      simp only [Except.map, stepC_ok, mapS_next, next_thenR]
      rw [k_newPoly_eq]
      cases mkPoly (ms ++ List.replicate deg 0) with
      | ok v => rfl
      | error e => cases e <;> rfl


when_kernel Gzx.Gen.K04b.polyMultiplyByMonomial in
/-- the same with degree and coefficient as integer expressions -/
theorem k_polyMultiplyByMonomial_at (F : GF.GF) (hF : TablesOK F) (p : List Nat) (e1 e2 : Int) (deg coeff : Nat)
    (h1 : e1 = deg) (h2 : e2 = coeff) :
    Gen.K04b.polyMultiplyByMonomial (fieldRec F) (ints p) e1 e2 = expE [] ints (multiplyByMonomial F p deg coeff) := by
  subst h1 h2; exact k_polyMultiplyByMonomial_eq F hF p deg coeff

when_kernel Gzx.Gen.K04b.polyMultiplyBy in
/-- `MultiplyBy(scalar)` = the model's `multiplyBy` -/
theorem k_polyMultiplyBy_eq (F : GF.GF) (hF : TablesOK F) (p : List Nat) (hp : p ≠ []) (scalar : Nat) :
    Gen.K04b.polyMultiplyBy (fieldRec F) (ints p) scalar = (multiplyBy F p scalar).map ints := by
  simp only [Gen.K04b.polyMultiplyBy, multiplyBy, natCast_beq_zero, len_ints]
  by_cases hc : scalar = 0
  · subst hc; rfl
  simp only [beq_eq_false_iff_ne.mpr hc, Bool.false_eq_true, if_false, hc]
  by_cases h1 : scalar = 1
  · subst h1; rfl
  have hb1 : ((scalar : Int) == 1) = false := by
    rw [show (1 : Int) = ((1 : Nat) : Int) from rfl, natCast_beq]; exact beq_eq_false_iff_ne.mpr h1
  simp only [hb1, Bool.false_eq_true, if_false, h1]
  rw [mk_words _ (p.length + 0) (by omega)]
  simp only [tryR_ok]
  rw [fill_loop F hF p scalar 0 rfl (by rw [tripUp_one]; omega) rfl (fun j hj t => by
    rw [idx_ints _ _ (0 + j) rfl, Nat.zero_add, List.getElem?_eq_getElem hj]
    simp only [tryC_ok, mapStep]
    rw [k_gfMultiply_eq F hF]
    cases F.mul p[j] scalar with
    | error e => rfl
    | ok m =>
      simp only [Except.map, tryC_ok, Int.ofNat_eq_natCast]
      rw [setIdx_words _ _ _ j m (by rfl) (by rfl)]
      cases Bits.setWord t j m <;> rfl)]
  simp only [bind, Except.bind]
  cases hm : p.mapM (fun c => F.mul c scalar) with
  | error e => rfl
  | ok ms =>
    simp only [Except.map, stepC_ok, mapS_next, next_thenR, List.replicate_zero, List.append_nil]
    rw [k_newPoly_eq]
    have hl : ms ≠ [] := by
      intro h; subst h
      have := congrArg (Except.map List.length) hm
      cases p with
      | nil => exact hp rfl
      | cons x xs =>
        rw [List.mapM_cons] at hm
        simp only [bind, Except.bind] at hm
        cases hx : F.mul x scalar with
        | error e => rw [hx] at hm; cases hm
        | ok m =>
          rw [hx] at hm
          cases hxs : xs.mapM (fun c => F.mul c scalar) with
          | error e => rw [hxs] at hm; cases hm
          | ok ms' => rw [hxs] at hm; cases hm
    unfold mkPoly
    cases ms with
    | nil => exact absurd rfl hl
    | cons m ms => rfl

/-! ### AddOrSubtract -/

/-- one step of the sum loop: `sumDiff[i] = x ^ larger[i]` -/
def addStep (larger : List Nat) (i x : Nat) (sd : List Nat) : Ctl (List Nat) ρ :=
  match larger[i]? with
  | some y => stepC (Bits.setWord sd i (x ^^^ y))
  | none => .panic oob

theorem iterL_add (larger : List Nat) : ∀ (s lt pre lpre : List Nat), larger = lpre ++ lt → lpre.length = pre.length →
    s.length = lt.length →
    iterL (ρ := ρ) (addStep larger) pre.length s (pre ++ List.replicate s.length 0) =
      .next (pre ++ List.zipWith (· ^^^ ·) s lt) := by
  intro s
  induction s with
  | nil => intro lt pre lpre _ _ _; simp [iterL]
  | cons x xs ih =>
    intro lt pre lpre hl hpre hlen
    cases lt with
    | nil => simp at hlen
    | cons y ys =>
      have hy : larger[pre.length]? = some y := by
        rw [hl, ← hpre, List.getElem?_append_right (Nat.le_refl _), Nat.sub_self]; rfl
      have hset : Bits.setWord (pre ++ List.replicate (x :: xs).length 0) pre.length (x ^^^ y) =
          .ok ((pre ++ [x ^^^ y]) ++ List.replicate xs.length 0) := by
        unfold Bits.setWord
        rw [if_pos (by simp)]
        congr 1
        rw [List.set_append_right _ _ (Nat.le_refl _), Nat.sub_self, List.length_cons, List.replicate_succ, List.set_cons_zero]
        simp
      simp only [iterL, addStep, hy, hset, stepC_ok]
      have := ih ys (pre ++ [x ^^^ y]) (lpre ++ [y]) (by rw [hl]; simp) (by simp [hpre]) (by simpa using hlen)
      rw [List.length_append, List.length_singleton] at this
      rw [this]
      simp

/-- the part of `AddOrSubtract` after the operands have been ordered (`s` the shorter, `l` the longer; `hsl : s.length ≤ l.length`
    in the context) -/
local macro "addsub_tail " s:term:max l:term:max : tactic => `(tactic| (
  rw [mk_words _ ($l).length rfl]
  simp only [tryR_ok]
  have hsl' : GoM.slice (ints $l) 0 ((($l).length : Int) - (($s).length : Int)) = .ok (ints (($l).take (($l).length - ($s).length))) := by
    unfold GoM.slice
    rw [if_pos (by simp [ints_length]; omega)]
    congr 1
    rw [show ((($l).length : Int) - (($s).length : Int)).toNat = ($l).length - ($s).length by omega]
    simp [ints, List.map_take]
  rw [hsl']
  simp only [tryR_ok]
  have hcopy : copyL (words (List.replicate ($l).length 0)) (ints (($l).take (($l).length - ($s).length))) =
      ints (($l).take (($l).length - ($s).length) ++ List.replicate ($s).length 0) := by
    unfold copyL
    simp only [words, ints, List.length_map, List.length_replicate, List.length_take, List.map_append, List.map_replicate,
      List.drop_replicate]
    rw [List.take_of_length_le (by simp), show ($l).length - min (($l).length - ($s).length) ($l).length = ($s).length by omega]
  rw [hcopy]
  rw [loop_list' ints (addStep $l) $s (($l).length - ($s).length) (($l).take (($l).length - ($s).length) ++ List.replicate ($s).length 0)
    rfl (by rw [tripUp_one]; omega) (by omega) (fun j hj t => by
      rw [idx_ints _ _ j (by omega), List.getElem?_eq_getElem hj]
      simp only [tryC_ok, addStep]
      rw [idx_ints _ _ (($l).length - ($s).length + j) rfl]
      cases ($l)[($l).length - ($s).length + j]? with
      | none => rfl
      | some y =>
        simp only [tryC_ok]
        rw [k_gfAddOrSubtract_eq]
        simp only [tryC_ok]
        rw [setIdx_words _ _ _ (($l).length - ($s).length + j) (($s)[j] ^^^ y) (by rfl) (by rfl)]
        cases Bits.setWord t (($l).length - ($s).length + j) (($s)[j] ^^^ y) <;> rfl)]
  have hit := iterL_add (ρ := List Int × Bool) $l $s (($l).drop (($l).length - ($s).length)) (($l).take (($l).length - ($s).length))
    (($l).take (($l).length - ($s).length)) (List.take_append_drop _ _).symm rfl (by simp; omega)
  rw [List.length_take, Nat.min_eq_left (by omega)] at hit
  rw [hit]
  simp only [mapS_next, next_thenR]
  rw [k_newPoly_eq]
  cases mkPoly (($l).take (($l).length - ($s).length) ++ List.zipWith (· ^^^ ·) $s (($l).drop (($l).length - ($s).length))) with
  | ok v => rfl
  | error e => cases e <;> rfl
))

when_kernel Gzx.Gen.K04b.polyAddOrSubtract in
/-- `AddOrSubtract(other)` = the model's `addOrSubtract`: the other operand if one is zero, otherwise the coefficient-wise
    xor aligned at the low end, normalised by `NewGenericGFPoly` (both polynomials over the one ambient field) -/
theorem k_polyAddOrSubtract_eq (F : GF.GF) (p q : List Nat) (hp : p ≠ []) (hq : q ≠ []) :
    Gen.K04b.polyAddOrSubtract (fieldRec F) (ints p) (ints q) = expE [] ints (addOrSubtract p q) := by
  simp only [Gen.K04b.polyAddOrSubtract, addOrSubtract, Bool.false_eq_true, if_false]
  rw [k_polyIsZero_eq _ p hp]
  simp only [tryR_ok]
  by_cases hzp : isZero p = true
  · simp only [hzp, if_true]; rfl
  simp only [hzp, Bool.false_eq_true, if_false]
  rw [k_polyIsZero_eq _ q hq]
  simp only [tryR_ok]
  by_cases hzq : isZero q = true
  · simp only [hzq, if_true]; rfl
  simp only [hzq, Bool.false_eq_true, if_false, len_ints]
  by_cases hlen : p.length > q.length
  · have hd : decide ((p.length : Int) > (q.length : Int)) = true := by apply decide_eq_true; omega
    simp only [hd, if_true, next_thenR, hlen, len_ints]
    have hsl : q.length ≤ p.length := by omega
    addsub_tail q p
  · have hd : decide ((p.length : Int) > (q.length : Int)) = false := by apply decide_eq_false; omega
    simp only [hd, Bool.false_eq_true, if_false, next_thenR, hlen, len_ints]
    have hsl : p.length ≤ q.length := by omega
    addsub_tail p q

/-! non-vacuity: the hypotheses of the theorems above are `TablesOK F` (examples in Obligations/K04b.lean: the library's
    fields) and non-emptiness of the coefficient lists -/
example : ([1, 0, 7] : List Nat) ≠ [] ∧ ([0] : List Nat) ≠ [] := by decide

end Gzx.Obligations.K04bPoly
