/-
  K04b (consequences) — the property theorems of Properties/C04.lean, which are about the hand-written model, restated for
  the definitions REGENERATED from common/reedsolomon/*.go on every run (`Gzx.Gen.K04b`) through the kernel theorems of
  Obligations/K04b*.lean: the field operations of the source are the arithmetic of GF(2)[x]/(prim), and `Encode` as written
  in the source keeps the data, appends exactly `r` parity symbols and produces a word with zero syndromes.
  `Decode` as written in the source restores every code word corrupted in at most ⌊r/2⌋ positions (`rs_corrects`).
-/
import Gzx.Obligations.K04bDecode
import Gzx.Properties.C04
namespace Gzx.Obligations.K04bProps
open Gzx Gzx.GF Gzx.RS Gzx.Ref.GF Gzx.K04bTie Gzx.Obligations.K04b Gzx.Obligations.K04bEnc Gzx.Obligations.K04bDecode
  Gzx.Properties.C04 Gzx.Proofs.RS

/-- a fresh encoder (`NewReedSolomonEncoder`: cache `[1]`) holds generators only -/
theorem cacheOK_fresh (F : GF) : CacheOK F [[1]] := by
  refine ⟨by simp, fun i hi => ?_⟩
  have : i = 0 := by simpa using hi
  subst this; rfl

when_kernel Gzx.Gen.K04b.gfMultiply in
/-- the regenerated `GenericGF.Multiply` is the carry-less product reduced modulo the primitive polynomial, all elements -/
theorem gen_mul_eq_clmul_mod (F : GF) (h : FieldOK F) (a b : Nat) (ha : a < F.size) (hb : b < F.size) :
    Gen.K04b.gfMultiply (fieldRec F) a b = .ok ((pmod F.prim (clmul a b) : Nat) : Int) := by
  rw [k_gfMultiply_eq F (tablesOK_of_fieldOK F h), gf_mul_eq_clmul_mod F h a b ha hb]; rfl

when_kernel Gzx.Gen.K04b.gfInverse in
/-- the regenerated `GenericGF.Inverse` succeeds on every non-zero element and returns its inverse -/
theorem gen_inv (F : GF) (h : FieldOK F) (a : Nat) (h0 : a ≠ 0) (ha : a < F.size) :
    ∃ v : Nat, Gen.K04b.gfInverse (fieldRec F) a = .ok ((v : Int), false) ∧ v < F.size ∧ pmod F.prim (clmul a v) = 1 := by
  obtain ⟨v, h1, h2, _, h4⟩ := gf_inv F h a h0 ha
  exact ⟨v, by rw [k_gfInverse_eq F (tablesOK_of_fieldOK F h), h1]; rfl, h2, h4⟩

when_kernel Gzx.Gen.K04b.encEncode in
/-- the regenerated `ReedSolomonEncoder.Encode`, on an encoder whose cache holds generators (e.g. a fresh one): for every data
    length `k ≥ 1`, parity count `r ≥ 1` the field supports and whatever is in the `r` tail slots, no error, no panic, the
    data symbols unchanged followed by exactly `r` parity symbols, all field elements; the cache holds generators afterwards -/
theorem gen_encode_systematic (F : GF) (h : FieldOK F) (cache : List Poly) (hc : CacheOK F cache) (data tail : List Nat) (r : Nat)
    (hk : data ≠ []) (hr : 0 < r) (htl : tail.length = r) (hd : InField F data) (hb : r + F.base ≤ F.size)
    (fuel : Nat) (hfuel : (data ++ tail).length + 1 ≤ fuel) :
    ∃ par cache', CacheOK F cache' ∧
      Gen.K04b.encEncode fuel (fieldRec F) (polys cache) (ints (data ++ tail)) r = .ok (false, polys cache', ints (data ++ par)) ∧
      par.length = r ∧ InField F par := by
  obtain ⟨par, h1, h2, h3⟩ := rs_encode_systematic F h data tail r hk hr htl hd hb
  have := k_encEncode_eq F (tablesOK_of_fieldOK F h) cache hc (data ++ tail) r fuel hfuel (by rw [h1]; intro h; cases h)
  rw [h1] at this
  obtain ⟨cache', hc', hg⟩ := this
  exact ⟨par, cache', hc', hg, h2, h3⟩

when_kernel Gzx.Gen.K04b.encEncode in
/-- … and the word it writes has zero syndromes `S_0 … S_{r-1}` -/
theorem gen_encode_zero_syndromes (F : GF) (h : FieldOK F) (data : List Nat) (r : Nat)
    (hk : data ≠ []) (hr : 0 < r) (hd : InField F data) (hb : r + F.base ≤ F.size)
    (fuel : Nat) (hfuel : data.length + r + 1 ≤ fuel) :
    ∃ w cache', Gen.K04b.encEncode fuel (fieldRec F) (polys [[1]]) (ints (data ++ List.replicate r 0)) r =
        .ok (false, polys cache', ints w) ∧ w.length = data.length + r ∧ InField F w ∧ ZeroSyndromes F w r := by
  obtain ⟨w, h1, h2, h3, h4⟩ := rs_encode_zero_syndromes F h data r hk hr hd hb
  unfold encodeWord at h1
  have := k_encEncode_eq F (tablesOK_of_fieldOK F h) [[1]] (cacheOK_fresh F) (data ++ List.replicate r 0) r fuel
    (by simp; omega) (by rw [h1]; intro h; cases h)
  rw [h1] at this
  obtain ⟨cache', _, hg⟩ := this
  exact ⟨w, cache', hg, h2, h3, h4⟩

theorem decodeD_of_decode {F : GF} {w c : List Nat} {r : Nat} (h : decode F w r = .ok c) : decodeD F w r = .ok c := by
  unfold decode at h
  cases hd : decodeD F w r with
  | ok v => rw [hd] at h; cases h; rfl
  | error e => rw [hd] at h; cases h

when_kernel Gzx.Gen.K04b.decDecode in
/-- **the regenerated `ReedSolomonDecoder.Decode` corrects up to ⌊r/2⌋ errors**: `c` any code word (zero syndromes) of
    length `n ≤ size-1` over a field with generator base 0 or 1, `e` any error word with at most `⌊r/2⌋` non-zero symbols:
    `Decode(c + e, r)` as written in the source returns `nil` and leaves exactly `c` in the slice -/
theorem gen_corrects (F : GF) (h : FieldOK F) (hb : F.base ≤ 1) (c e : List Nat) (r : Nat)
    (hlen : e.length = c.length) (hn : c.length ≤ F.size - 1) (hc : InField F c) (he : InField F e)
    (hz : ZeroSyndromes F c r) (hne : c ≠ []) (hrb : r + F.base ≤ F.size) (hwt : 2 * Gzx.Proofs.MinDist.weight e ≤ r)
    (fuel : Nat) (hfuel : r + 3 ≤ fuel) :
    Gen.K04b.decDecode fuel (fieldRec F) (ints (List.zipWith (· ^^^ ·) c e)) r = .ok (false, ints c) := by
  have hd := decodeD_of_decode (rs_corrects F h hb c e r hlen hn hc he hz hne hrb hwt)
  have := k_decDecode_eq F (tablesOK_of_fieldOK F h) (List.zipWith (· ^^^ ·) c e) r fuel hfuel (by rw [hd]; intro h; cases h)
  rw [hd] at this
  exact this

when_kernel Gzx.Gen.K04b.decDecode in
/-- … and passes an uncorrupted word through unchanged -/
theorem gen_decode_clean (F : GF) (h : FieldOK F) (w : List Nat) (r : Nat) (hne : w ≠ []) (hw : InField F w)
    (hb : r + F.base ≤ F.size) (hz : ZeroSyndromes F w r) (fuel : Nat) (hfuel : r + 3 ≤ fuel) :
    Gen.K04b.decDecode fuel (fieldRec F) (ints w) r = .ok (false, ints w) := by
  have hd := decodeD_of_decode (rs_decode_clean F h w r hne hw hb hz)
  have := k_decDecode_eq F (tablesOK_of_fieldOK F h) w r fuel hfuel (by rw [hd]; intro h; cases h)
  rw [hd] at this
  exact this

/-! non-vacuity: the hypotheses hold for the QR field and a (10,4) block; for `gen_corrects`: Properties/C04.lean
    (`rs_corrects`: a GF(16) code word with r = 4 and an error word of weight 2) -/
example : FieldOK qrCode256 := fieldOK_mk' (by decide +kernel)
example : InField qrCode256 [32, 91, 11, 120] := by
  intro x hx; simp at hx; rcases hx with h | h | h | h <;> subst h <;> decide
example : 6 + qrCode256.base ≤ qrCode256.size := by decide

end Gzx.Obligations.K04bProps
