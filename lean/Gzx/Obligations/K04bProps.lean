/-
  K04b (consequences) — the property theorems of Properties/C04.lean, which are about the hand-written model, restated for
  the definitions REGENERATED from common/reedsolomon/*.go on every run (`Gzx.Gen.K04b`) through the kernel theorems of
  Obligations/K04b*.lean: the field operations of the source are the arithmetic of GF(2)[x]/(prim), and `Encode` as written
  in the source keeps the data, appends exactly `r` parity symbols and produces a word with zero syndromes.
  (The decoder's four functions are tied by evaluation on samples only — Obligations/K04bDec.lean — so `rs_corrects` is not
  restated here.)
-/
import Gzx.Obligations.K04bEnc
import Gzx.Properties.C04
namespace Gzx.Obligations.K04bProps
open Gzx Gzx.GF Gzx.RS Gzx.Ref.GF Gzx.K04bTie Gzx.Obligations.K04b Gzx.Obligations.K04bEnc Gzx.Properties.C04

/-- a fresh encoder (`NewReedSolomonEncoder`: cache `[1]`) holds generators only -/
theorem cacheOK_fresh (F : GF) : CacheOK F [[1]] := by
  refine ⟨by simp, fun i hi => ?_⟩
  have : i = 0 := by simpa using hi
  subst this; rfl

when_kernel Gzx.Gen.K04b.gfMultiply in
/-- the regenerated `GenericGF.Multiply` is the carry-less product reduced modulo the primitive polynomial, all elements -/
theorem gen_mul_eq_clmul_mod (F : GF) (h : FieldOK F) (a b : Nat) (ha : a < F.size) (hb : b < F.size) :
    Gen.K04b.gfMultiply (fieldRec F) a b = .ok ((pmod F.prim (clmul a b) : Nat) : Int) := by
  rw [k_gfMultiply_eq F (tablesOK_of_fieldOK F h), gf_mul_eq_clmul_mod F h a b ha hb]; rfl

when_kernel Gzx.Gen.K04b.gfInverse in
/-- the regenerated `GenericGF.Inverse` succeeds on every non-zero element and returns its inverse -/
theorem gen_inv (F : GF) (h : FieldOK F) (a : Nat) (h0 : a ≠ 0) (ha : a < F.size) :
    ∃ v : Nat, Gen.K04b.gfInverse (fieldRec F) a = .ok ((v : Int), false) ∧ v < F.size ∧ pmod F.prim (clmul a v) = 1 := by
  obtain ⟨v, h1, h2, _, h4⟩ := gf_inv F h a h0 ha
  exact ⟨v, by rw [k_gfInverse_eq F (tablesOK_of_fieldOK F h), h1]; rfl, h2, h4⟩

when_kernel Gzx.Gen.K04b.encEncode in
/-- the regenerated `ReedSolomonEncoder.Encode`, on an encoder whose cache holds generators (e.g. a fresh one): for every data
    length `k ≥ 1`, parity count `r ≥ 1` the field supports and whatever is in the `r` tail slots, no error, no panic, the
    data symbols unchanged followed by exactly `r` parity symbols, all field elements; the cache holds generators afterwards -/
theorem gen_encode_systematic (F : GF) (h : FieldOK F) (cache : List Poly) (hc : CacheOK F cache) (data tail : List Nat) (r : Nat)
    (hk : data ≠ []) (hr : 0 < r) (htl : tail.length = r) (hd : InField F data) (hb : r + F.base ≤ F.size)
    (fuel : Nat) (hfuel : (data ++ tail).length + 1 ≤ fuel) :
    ∃ par cache', CacheOK F cache' ∧
      Gen.K04b.encEncode fuel (fieldRec F) (polys cache) (ints (data ++ tail)) r = .ok (false, polys cache', ints (data ++ par)) ∧
      par.length = r ∧ InField F par := by
  obtain ⟨par, h1, h2, h3⟩ := rs_encode_systematic F h data tail r hk hr htl hd hb
  have := k_encEncode_eq F (tablesOK_of_fieldOK F h) cache hc (data ++ tail) r fuel hfuel (by rw [h1]; intro h; cases h)
  rw [h1] at this
  obtain ⟨cache', hc', hg⟩ := this
  exact ⟨par, cache', hc', hg, h2, h3⟩

when_kernel Gzx.Gen.K04b.encEncode in
/-- … and the word it writes has zero syndromes `S_0 … S_{r-1}` -/
theorem gen_encode_zero_syndromes (F : GF) (h : FieldOK F) (data : List Nat) (r : Nat)
    (hk : data ≠ []) (hr : 0 < r) (hd : InField F data) (hb : r + F.base ≤ F.size)
    (fuel : Nat) (hfuel : data.length + r + 1 ≤ fuel) :
    ∃ w cache', Gen.K04b.encEncode fuel (fieldRec F) (polys [[1]]) (ints (data ++ List.replicate r 0)) r =
        .ok (false, polys cache', ints w) ∧ w.length = data.length + r ∧ InField F w ∧ ZeroSyndromes F w r := by
  obtain ⟨w, h1, h2, h3, h4⟩ := rs_encode_zero_syndromes F h data r hk hr hd hb
  unfold encodeWord at h1
  have := k_encEncode_eq F (tablesOK_of_fieldOK F h) [[1]] (cacheOK_fresh F) (data ++ List.replicate r 0) r fuel
    (by simp; omega) (by rw [h1]; intro h; cases h)
  rw [h1] at this
  obtain ⟨cache', _, hg⟩ := this
  exact ⟨w, cache', hg, h2, h3, h4⟩

/-! non-vacuity: the hypotheses hold for the QR field and a (10,4) block -/
example : FieldOK qrCode256 := fieldOK_mk' (by decide +kernel)
example : InField qrCode256 [32, 91, 11, 120] := by
  intro x hx; simp at hx; rcases hx with h | h | h | h <;> subst h <;> decide
example : 6 + qrCode256.base ≤ qrCode256.size := by decide

end Gzx.Obligations.K04bProps
