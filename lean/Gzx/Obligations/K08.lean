/-
  K08 — the coordinate wrap of Data Matrix `DefaultPlacement.module` (negative row / column wrap-around with
  the 4 - ((n+4) % 8) shift), regenerated from /repo on every run (`Gzx.Gen.K08.moduleWrap`) and proved to be
  the wrap of the reference placement `DMRef.module` (properties C08 / C02).
-/
import Gzx.Gen.K08
import Gzx.KernelGuard
import Gzx.Proofs.GoM
import Gzx.Ref.DMPlacement
namespace Gzx.Obligations.K08
open Gzx Gzx.GoM

when_kernel Gzx.Gen.K08.moduleWrap in
/-- whenever the Go function reaches its `setBit(col, row, …)` call (the codeword read did not fault), the
    cell it addresses is the cell the reference placement addresses -/
theorem k_moduleWrap_eq (cw : List Int) (nrow ncol : Nat) (row col pos bit r c v : Int) (st : DMRef.PState)
    (h : Gen.K08.moduleWrap cw nrow ncol row col pos bit = .ok (r, c, v)) :
    DMRef.module nrow ncol st row col =
      (match DMRef.cellOf nrow ncol r c with
       | some k => { st with occ := st.occ ||| (1 <<< k), seq := k :: st.seq, dup := st.dup || st.occ.testBit k }
       | none => { st with bad := true }) := by
  have e8 : (8 : Int) = ((8 : Nat) : Int) := rfl
  have er : (nrow : Int) + 4 = ((nrow + 4 : Nat) : Int) := by simp
  have ec : (ncol : Int) + 4 = ((ncol + 4 : Nat) : Int) := by simp
  simp only [Gen.K08.moduleWrap, tryR, er, ec, e8, tmod_natCast] at h
  cases hi : idx cw pos with
  | error e => simp [hi] at h
  | ok w =>
    simp only [hi, Except.ok.injEq, Prod.mk.injEq] at h
    obtain ⟨hr, hc, _⟩ := h
    subst hr hc
    unfold DMRef.module
    by_cases h1 : row < 0 <;> simp only [h1, decide_true, decide_false, if_true, if_false, Bool.false_eq_true] <;>
      split <;> simp_all

end Gzx.Obligations.K08
