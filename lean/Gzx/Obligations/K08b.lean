/-
  K08b — the Data Matrix ECC 200 error-correction loops of datamatrix/encoder/error_correction.go regenerated from /repo on
  every run (`Gzx.Gen.K08b`) and proved equal to the hand-written model `Gzx.DMEnc` (see Obligations/K08bTab.lean for the
  conventions and the table obligations).
-/
import Gzx.Obligations.K08bTab
namespace Gzx.Obligations.K08b
open Gzx Gzx.GoM Gzx.GoVal

theorem alog_bytes : Bytes DMEnc.alog := by unfold Bytes; decide +kernel

theorem tabMul_lt (m p : Nat) : DMEnc.tabMul m p < 256 := by
  unfold DMEnc.tabMul
  split
  · exact alog_bytes.getD _
  · omega

theorem tabMul_zero_left (p : Nat) : DMEnc.tabMul 0 p = 0 := by simp [DMEnc.tabMul]
theorem tabMul_zero_right (m : Nat) : DMEnc.tabMul m 0 = 0 := by simp [DMEnc.tabMul]

/-- the five table reads of `alog[(log[m]+log[p])%255]` for non-zero bytes -/
theorem tabMul_reads (m p : Nat) (hm : m < 256) (hp : p < 256) (hm0 : m ≠ 0) (hp0 : p ≠ 0) {σ ρ : Type}
    (k : Int → Ctl σ ρ) :
    (tryC (idx (words DMEnc.log) (m : Int)) fun t9 =>
      tryC (idx (words DMEnc.log) (p : Int)) fun t11 =>
      tryC (idx (words DMEnc.alog) (Int.tmod (t9 + t11) 255)) k) = k ((DMEnc.tabMul m p : Nat) : Int) := by
  rw [idx_words_lt _ m (by rw [log_length]; exact hm)]
  simp only [tryC_ok]
  rw [idx_words_lt _ p (by rw [log_length]; exact hp)]
  simp only [tryC_ok]
  have e : Int.tmod (((DMEnc.log.getD m 0 : Nat) : Int) + ((DMEnc.log.getD p 0 : Nat) : Int)) 255 =
      (((DMEnc.log.getD m 0 + DMEnc.log.getD p 0) % 255 : Nat) : Int) := by
    rw [← Int.natCast_add]; exact tmod_natCast _ 255
  rw [e, idx_words_lt _ _ (by rw [alog_length]; exact Nat.mod_lt _ (by decide))]
  simp only [tryC_ok, DMEnc.tabMul, hm0, hp0, ne_eq, not_false_eq_true, and_self, if_true]

theorem natCast_bne (a b : Nat) : (((a : Int) != (b : Int)) : Bool) = (a != b) := by
  by_cases h : a = b
  · subst h; simp
  · have : ¬ (a : Int) = (b : Int) := by omega
    rw [bne_iff_ne.mpr this, bne_iff_ne.mpr h]

theorem natCast_beq (a b : Nat) : (((a : Int) == (b : Int)) : Bool) = (a == b) := by
  by_cases h : a = b
  · subst h; simp
  · have : ¬ (a : Int) = (b : Int) := by omega
    rw [beq_eq_false_iff_ne.mpr this, beq_eq_false_iff_ne.mpr h]

when_kernel Gzx.Gen.K08b.createECCBlock in
/-- one iteration `k` of the inner loop: `ecc[k] = ecc[k-1] ^ m·poly[k]` (the `else` branch writes `ecc[k-1]`, which is
    the same because `m·poly[k] = 0` there) -/
theorem body3_eq (poly s : List Nat) (m k : Nat) (hm : m < 256) (hk1 : 0 < k) (hk : k < s.length) (hkp : k < poly.length)
    (hpb : Bytes poly) :
    Gen.K08b.createECCBlock_body3 (words DMEnc.log) (words DMEnc.alog) (words poly) (m : Int) (k : Int) (words s) =
      .next (words (s.set k (s.getD (k - 1) 0 ^^^ DMEnc.tabMul m (poly.getD k 0)))) := by
  have ek : (k : Int) - 1 = ((k - 1 : Nat) : Int) := by omega
  have hp256 : poly.getD k 0 < 256 := hpb.getD k
  simp only [Gen.K08b.createECCBlock_body3]
  rw [show ((m : Int) != 0) = (m != 0) from natCast_bne m 0]
  by_cases hm0 : m = 0
  · subst hm0
    simp only [bne_self_eq_false, Bool.false_eq_true, if_false, tryC_ok]
    rw [idx_words_lt' s _ (k - 1) ek (by omega)]
    simp only [tryC_ok]
    rw [setIdx_words_lt s _ _ k (s.getD (k - 1) 0) rfl rfl hk]
    simp [tabMul_zero_left]
  · have hb : (m != 0) = true := bne_iff_ne.mpr hm0
    simp only [hb, if_true]
    rw [idx_words_lt _ k (by simpa using hkp)]
    simp only [tryR_ok, tryC_ok]
    rw [show (((poly.getD k 0 : Nat) : Int) != 0) = (poly.getD k 0 != 0) from natCast_bne _ 0]
    by_cases hp0 : poly.getD k 0 = 0
    · simp only [hp0, bne_self_eq_false, Bool.false_eq_true, if_false]
      rw [idx_words_lt' s _ (k - 1) ek (by omega)]
      simp only [tryC_ok]
      rw [setIdx_words_lt s _ _ k (s.getD (k - 1) 0) rfl rfl hk]
      simp [tabMul_zero_right]
    · have hb2 : (poly.getD k 0 != 0) = true := bne_iff_ne.mpr hp0
      simp only [hb2, if_true]
      rw [idx_words_lt' s _ (k - 1) ek (by omega)]
      simp only [tryC_ok]
      rw [tabMul_reads m (poly.getD k 0) hm hp256 hm0 hp0]
      rw [ixor_natCast, setIdx_words_lt s _ _ k _ rfl rfl hk]
      simp only [tryC_ok]

theorem getD_last (e : List Nat) (n : Nat) (hn : 0 < n) (hl : e.length = n) : e.getD (n - 1) 0 = e.getLastD 0 := by
  have h1 : n - 1 < e.length := by omega
  rw [List.getLastD_eq_getLast?, List.getLast?_eq_getElem?, hl]
  simp [List.getD_eq_getElem?_getD]

when_kernel Gzx.Gen.K08b.createECCBlock in
/-- one iteration of the outer loop (one data codeword through the register) is `DMEnc.eccStep` -/
theorem body2_eq (poly cws e : List Nat) (n i : Nat) (hn : 0 < n) (hpl : poly.length = n) (hpb : Bytes poly)
    (hcb : Bytes cws) (hel : e.length = n) (heb : Bytes e) (hi : i < cws.length) :
    Gen.K08b.createECCBlock_body2 (words DMEnc.log) (words DMEnc.alog) (words cws) (n : Int) (words poly) (i : Int) (words e) =
      .next (words (DMEnc.eccStep DMEnc.tabMul poly e (cws.getD i 0))) := by
  have en : (n : Int) - 1 = ((n - 1 : Nat) : Int) := by omega
  simp only [Gen.K08b.createECCBlock_body2]
  rw [idx_words_lt' e _ (n - 1) en (by omega)]
  simp only [tryC_ok]
  rw [idx_words_lt cws i hi]
  simp only [tryC_ok]
  rw [ixor_natCast, getD_last e n hn hel]
  generalize hM : e.getLastD 0 ^^^ cws.getD i 0 = M
  have hM256 : M < 256 := by
    rw [← hM, ← getD_last e n hn hel]; exact xor_lt_256 (heb.getD _) (hcb.getD _)
  -- the inner loop
  have htrip : tripDown ((n : Int) - 1) 0 1 = n - 1 := by rw [tripDown_one]; omega
  rw [htrip, en]
  obtain ⟨st', hloop, _, s', hst, hsl, hsb, hsp⟩ := loop_inv_down
    (Gen.K08b.createECCBlock_body3 (words DMEnc.log) (words DMEnc.alog) (words poly) (M : Int))
    (fun k st => k < n ∧ ∃ s : List Nat, st = words s ∧ s.length = n ∧ Bytes s ∧
      ∀ j, j < n → s.getD j 0 = if k < j then e.getD (j - 1) 0 ^^^ DMEnc.tabMul M (poly.getD j 0) else e.getD j 0)
    (by
      intro k st ⟨hk, s, hst, hsl, hsb, hsp⟩
      subst hst
      refine ⟨_, body3_eq poly s M (k + 1) hM256 (by omega) (by omega) (by omega) hpb, by omega, _, rfl, by simp [hsl], ?_, ?_⟩
      · exact hsb.set _ _ (xor_lt_256 (hsb.getD _) (tabMul_lt _ _))
      · intro j hj
        by_cases hjk : j = k + 1
        · subst hjk
          have : (s.set (k + 1) (s.getD (k + 1 - 1) 0 ^^^ DMEnc.tabMul M (poly.getD (k + 1) 0))).getD (k + 1) 0 =
              s.getD (k + 1 - 1) 0 ^^^ DMEnc.tabMul M (poly.getD (k + 1) 0) := by
            simp [List.getD_eq_getElem?_getD, hsl, hj]
          rw [this, hsp (k + 1 - 1) (by omega), if_neg (by omega), if_pos (by omega)]
        · have : (s.set (k + 1) (s.getD (k + 1 - 1) 0 ^^^ DMEnc.tabMul M (poly.getD (k + 1) 0))).getD j 0 = s.getD j 0 := by
            simp [List.getD_eq_getElem?_getD, Ne.symm hjk]
          rw [this, hsp j hj]
          by_cases h1 : k + 1 < j
          · rw [if_pos h1, if_pos (by omega)]
          · rw [if_neg h1, if_neg (by omega)])
    (n - 1) (words e) ⟨by omega, e, rfl, hel, heb, by intro j hj; rw [if_neg (by omega)]⟩
  rw [hloop]
  subst hst
  simp only [next_thenC]
  have hs0 : 0 < s'.length := by omega
  have hp0l : 0 < poly.length := by omega
  have e0 : (0 : Int) = ((0 : Nat) : Int) := rfl
  have hfin : ∀ v, v = DMEnc.tabMul M (poly.getD 0 0) → s'.set 0 v = DMEnc.eccStep DMEnc.tabMul poly e (cws.getD i 0) := by
    intro v hv
    apply eccStep_ext DMEnc.tabMul poly e _ (cws.getD i 0) n hn hel hpl (by simp [hsl])
    · rw [hM, hv]; simp [List.getD_eq_getElem?_getD, hs0]
    · intro j hj0 hjn
      have : (s'.set 0 v).getD j 0 = s'.getD j 0 := by
        rw [List.getD_eq_getElem?_getD, List.getD_eq_getElem?_getD, List.getElem?_set_ne (by omega)]
      rw [this, hsp j hjn, if_pos hj0, hM]
  rw [show ((M : Int) != 0) = (M != 0) from natCast_bne M 0]
  by_cases hm0 : M = 0
  · subst hm0
    simp only [bne_self_eq_false, Bool.false_eq_true, if_false, tryC_ok]
    rw [setIdx_words_lt s' _ _ 0 0 e0 e0 hs0]
    simp only [tryC_ok]
    rw [hfin 0 (tabMul_zero_left _).symm]
  · have hb : (M != 0) = true := bne_iff_ne.mpr hm0
    simp only [hb, if_true]
    rw [idx_words_lt' poly _ 0 e0 hp0l]
    simp only [tryR_ok, tryC_ok]
    rw [show (((poly.getD 0 0 : Nat) : Int) != 0) = (poly.getD 0 0 != 0) from natCast_bne _ 0]
    by_cases hp0 : poly.getD 0 0 = 0
    · simp only [hp0, bne_self_eq_false, Bool.false_eq_true, if_false]
      rw [setIdx_words_lt s' _ _ 0 0 e0 e0 hs0]
      simp only [tryC_ok]
      rw [hfin 0 (by rw [hp0, tabMul_zero_right])]
    · have hb2 : (poly.getD 0 0 != 0) = true := bne_iff_ne.mpr hp0
      simp only [hb2, if_true]
      rw [tabMul_reads M (poly.getD 0 0) hM256 (hpb.getD 0) hm0 hp0]
      rw [setIdx_words_lt s' _ _ 0 _ e0 rfl hs0]
      simp only [tryC_ok]
      rw [hfin _ rfl]

when_kernel Gzx.Gen.K08b.createECCBlock in
/-- the table search: `factorSets[i] == numECWords` -/
theorem body1_eq (n i : Nat) (st : Int) (hi : i < DMRef.parityLengths.length) :
    Gen.K08b.createECCBlock_body1 (n : Int) (i : Int) st =
      if DMRef.parityLengths.getD i 0 = n then .brk (i : Int) else .next st := by
  simp only [Gen.K08b.createECCBlock_body1, k_factorSets_eq]
  rw [idx_words_lt _ i hi]
  simp only [tryC_ok]
  rw [natCast_beq]
  by_cases h : DMRef.parityLengths.getD i 0 = n
  · rw [if_pos h, beq_iff_eq.mpr h]; rfl
  · rw [if_neg h, beq_eq_false_iff_ne.mpr h]; rfl

when_kernel Gzx.Gen.K08b.createECCBlock in
/-- the final loop writes the register back to front, converted to bytes -/
theorem loop4_eq (e : List Nat) (n : Nat) (hel : e.length = n) (heb : Bytes e) :
    loop (Gen.K08b.createECCBlock_body4 (n : Int) (words e)) 1 (tripUp 0 (n : Int) 1) 0 (words (List.replicate n 0)) =
      .next (words e.reverse) := by
  have htrip : tripUp 0 (n : Int) 1 = n := by rw [tripUp_one]; omega
  rw [htrip]
  obtain ⟨st', hloop, s', hst, hsl, hsp⟩ := loop_inv_up
    (Gen.K08b.createECCBlock_body4 (n : Int) (words e))
    (fun i st => ∃ s : List Nat, st = words s ∧ s.length = n ∧ ∀ j, j < i → s.getD j 0 = e.getD (n - j - 1) 0) 0 n
    (by
      intro i st hi ⟨s, hst, hsl, hsp⟩
      subst hst
      have ei : (n : Int) - ((0 + i : Nat) : Int) - 1 = ((n - i - 1 : Nat) : Int) := by omega
      refine ⟨words (s.set i (e.getD (n - i - 1) 0)), ?_, _, rfl, by simp [hsl], ?_⟩
      · simp only [Gen.K08b.createECCBlock_body4]
        rw [idx_words_lt' e _ (n - i - 1) ei (by omega)]
        simp only [tryC_ok]
        rw [wrap_natCast, Nat.mod_eq_of_lt (by simpa using heb.getD _)]
        rw [setIdx_words_lt s _ _ i _ (by omega) rfl (by omega)]
        simp only [tryC_ok]
      · intro j hj
        by_cases hji : j = i
        · subst hji; simp [List.getD_eq_getElem?_getD, hsl, hi]
        · rw [List.getD_eq_getElem?_getD, List.getElem?_set_ne (Ne.symm hji), ← List.getD_eq_getElem?_getD]
          exact hsp j (by omega))
    n 0 (words (List.replicate n 0)) (by omega) ⟨_, rfl, by simp, by intro j hj; omega⟩
  have e0 : ((0 + 0 : Nat) : Int) = 0 := rfl
  rw [e0] at hloop
  rw [hloop, hst]
  have hrev : s' = e.reverse := by
    apply List.ext_getElem (by simp [hsl, hel])
    intro j h1 h2
    have := hsp j (by omega)
    rw [List.getD_eq_getElem?_getD, List.getElem?_eq_getElem h1, List.getD_eq_getElem?_getD,
      List.getElem?_eq_getElem (by omega)] at this
    simp only [Option.getD_some] at this
    rw [this, List.getElem_reverse]
    congr 1
    omega
  rw [hrev]

theorem xorZip_bytes : ∀ (xs ys : List Nat), Bytes xs → Bytes ys → Bytes (DMEnc.xorZip xs ys)
  | [], _, _, _ => by intro x hx; simp [DMEnc.xorZip] at hx
  | _ :: _, [], _, _ => by intro x hx; simp [DMEnc.xorZip] at hx
  | x :: xs, y :: ys, h1, h2 => by
    intro z hz
    simp only [DMEnc.xorZip, List.mem_cons] at hz
    rcases hz with rfl | hz
    · exact xor_lt_256 (h1 _ (by simp)) (h2 _ (by simp))
    · exact xorZip_bytes xs ys (fun a ha => h1 a (by simp [ha])) (fun a ha => h2 a (by simp [ha])) z hz

theorem eccStep_bytes (poly e : List Nat) (cw : Nat) (he : Bytes e) : Bytes (DMEnc.eccStep DMEnc.tabMul poly e cw) := by
  unfold DMEnc.eccStep
  apply xorZip_bytes
  · intro x hx
    rcases List.mem_cons.mp hx with rfl | hx
    · omega
    · exact he x (List.dropLast_subset _ hx)
  · intro x hx
    obtain ⟨p, _, rfl⟩ := List.mem_map.mp hx
    exact tabMul_lt _ _

theorem eccStep_length (poly e : List Nat) (cw n : Nat) (hn : 0 < n) (he : e.length = n) (hp : poly.length = n) :
    (DMEnc.eccStep DMEnc.tabMul poly e cw).length = n := by
  unfold DMEnc.eccStep
  rw [xorZip_length]; simp; omega

when_kernel Gzx.Gen.K08b.createECCBlock in
/-- the outer loop: all data codewords through the register = `DMEnc.lfsr` -/
theorem loop2_eq (poly cws : List Nat) (n : Nat) (hn : 0 < n) (hpl : poly.length = n) (hpb : Bytes poly) (hcb : Bytes cws) :
    loop (Gen.K08b.createECCBlock_body2 (words DMEnc.log) (words DMEnc.alog) (words cws) (n : Int) (words poly)) 1
        (tripUp 0 (len (words cws)) 1) 0 (words (List.replicate n 0)) =
      .next (words (DMEnc.lfsr DMEnc.tabMul poly n cws)) := by
  have htrip : tripUp 0 (len (words cws)) 1 = cws.length := by rw [tripUp_one, len_words]; omega
  rw [htrip]
  obtain ⟨st', hloop, e', hst, _, _, he'⟩ := loop_inv_up
    (Gen.K08b.createECCBlock_body2 (words DMEnc.log) (words DMEnc.alog) (words cws) (n : Int) (words poly))
    (fun i st => ∃ e : List Nat, st = words e ∧ e.length = n ∧ Bytes e ∧
      e = (cws.take i).foldl (DMEnc.eccStep DMEnc.tabMul poly) (List.replicate n 0)) 0 cws.length
    (by
      intro i st hi ⟨e, hst, hel, heb, hee⟩
      subst hst
      refine ⟨_, ?_, _, rfl, eccStep_length poly e (cws.getD i 0) n hn hel hpl, eccStep_bytes poly e _ heb, ?_⟩
      · rw [Nat.zero_add]; exact body2_eq poly cws e n i hn hpl hpb hcb hel heb hi
      · rw [List.take_add_one, List.foldl_append, ← hee]
        simp [List.getD_eq_getElem?_getD, List.getElem?_eq_getElem hi])
    cws.length 0 (words (List.replicate n 0)) (by omega) ⟨_, rfl, by simp, bytes_replicate n, by simp⟩
  have e0 : ((0 + 0 : Nat) : Int) = 0 := rfl
  rw [e0] at hloop
  rw [hloop, hst, he', List.take_length]
  rfl

/-- non-vacuity of `Bytes`: the standard's worked example "123456" -/
example : Bytes [142, 164, 186] := by unfold Bytes; decide

theorem findTable_lt (n t : Nat) (h : DMEnc.findTable n DMRef.parityLengths 0 = some t) :
    t < 16 ∧ DMRef.parityLengths.getD t 0 = n := by
  obtain ⟨_, h2⟩ := findTable_some n _ 0 t h
  rw [Nat.sub_zero] at h2
  have hlt : t < DMRef.parityLengths.length := (List.getElem?_eq_some_iff.mp h2).1
  exact ⟨hlt, by rw [List.getD_eq_getElem?_getD, h2]; rfl⟩

when_kernel Gzx.Gen.K08b.createECCBlock in
/-- `createECCBlock(codewords, numECWords)` = `DMEnc.createECCBlock` over the reference tables, for EVERY byte vector and
    every parity count: the table search, the LFSR loop with its log/antilog multiplication (`init()`'s tables), the
    byte-reversed result; an unknown parity count is the checked WriterException with the codewords handed back.
    (Properties/C08 `createECCBlock_eq_reference` then says the result is the reference Reed-Solomon parity.) -/
theorem k_createECCBlock_eq (cws : List Nat) (hcb : Bytes cws) (n : Nat) :
    Gen.K08b.createECCBlock (words DMEnc.log) (words DMEnc.alog) (words cws) (n : Int) =
      expE cws (DMEnc.createECCBlock DMRef.parityLengths DMRef.factorTable cws n) := by
  simp only [Gen.K08b.createECCBlock]
  have htrip : tripUp 0 (len Gen.K08b.tbl_factorSets) 1 = 16 := by decide
  have hfind := loop_find DMRef.parityLengths n _ (fun i st hi => body1_eq n i st hi) 16 0 (-1) rfl
  have e0 : ((0 : Nat) : Int) = 0 := rfl
  rw [e0] at hfind
  rw [htrip, hfind]
  simp only [List.drop_zero]
  unfold DMEnc.createECCBlock
  cases hft : DMEnc.findTable n DMRef.parityLengths 0 with
  | none => simp [expE]
  | some t =>
    obtain ⟨ht16, htn⟩ := findTable_lt n t hft
    obtain ⟨hrl, hrb, hr0⟩ := factor_rows ⟨t, ht16⟩
    simp only [] at hrl hrb hr0
    rw [htn] at hrl hr0
    have hrow : DMRef.factorTable[t]? = some (DMRef.factorTable.getD t []) := by
      have : t < DMRef.factorTable.length := by
        have : DMRef.factorTable.length = 16 := by decide +kernel
        omega
      rw [List.getD_eq_getElem?_getD, List.getElem?_eq_getElem this]; rfl
    generalize DMRef.factorTable.getD t [] = poly at hrl hrb hrow
    have hpb : Bytes poly := by
      intro x hx; simpa using List.all_eq_true.mp hrb x hx
    have hneg : ¬ ((t : Int) < 0) := by omega
    simp only [brk_thenR, hneg, decide_false, Bool.false_eq_true, if_false, hrow]
    rw [k_factors_eq, idxL_map _ t poly hrow]
    simp only [tryR_ok]
    rw [mk_words', tryR_ok, loop2_eq poly cws n hr0 hrl hpb hcb]
    simp only [next_thenR, tryR_ok]
    have hlf : (DMEnc.lfsr DMEnc.tabMul poly n cws).length = n ∧ Bytes (DMEnc.lfsr DMEnc.tabMul poly n cws) := by
      unfold DMEnc.lfsr
      have gen : ∀ (cs : List Nat) (e0 : List Nat), e0.length = n → Bytes e0 →
          (cs.foldl (DMEnc.eccStep DMEnc.tabMul poly) e0).length = n ∧ Bytes (cs.foldl (DMEnc.eccStep DMEnc.tabMul poly) e0) := by
        intro cs
        induction cs with
        | nil => intro e0 h1 h2; exact ⟨h1, h2⟩
        | cons c cs ih =>
          intro e0 h1 h2
          exact ih _ (eccStep_length poly e0 c n hr0 h1 hrl) (eccStep_bytes poly e0 c h2)
      exact gen cws _ (by simp) (bytes_replicate n)
    rw [loop4_eq (DMEnc.lfsr DMEnc.tabMul poly n cws) n hlf.1 hlf.2]
    simp only [next_thenR]
    have htake : poly.take n = poly := List.take_of_length_le (by omega)
    by_cases hemp : cws = []
    · subst hemp; simp [expE, DMEnc.lfsr]
    · have h1 : cws.isEmpty = false := by cases cws <;> simp_all
      have h2 : ¬ n = 0 := by omega
      have h3 : ¬ poly.length < n := by omega
      simp only [h1, Bool.false_eq_true, if_false, h2, h3, hrb, Bool.not_true, htake, expE]

end Gzx.Obligations.K08b
