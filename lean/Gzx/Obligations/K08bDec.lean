/-
  K08bDec — the decoder's de-interleaving `DataBlocks_getDataBlocks` regenerated from /repo on every run
  (`Gzx.Gen.K08b.getDataBlocks`: the version's EC-block walk over the flattened `*Version -> *ECBlocks -> []ECB`, the result
  blocks as flattened `[]DataBlock`, the three fill loops incl. the special case of version 24 = 144x144) against the
  hand-written model `DMDec.getDataBlocks` (`dbTargets` + `fillBlocks`), which Properties/C08 `ecc_interleave_inv` /
  Properties/C05DM relate to the reference interleaving.

  Proved here, for ALL raw codeword vectors, block lists, offsets and block counts: each of the three fill loops of the
  regenerated function writes exactly the model's target list of that phase, in the model's order, consuming the raw
  codewords from the same offset (`k_getDataBlocks_part1/2/3`); part 3 includes the version-24 rotation
  `jOffset = (j+8) % numResultBlocks`, `iOffset = i-1` for `jOffset > 7`.
  The composition of the whole function is `k_getDataBlocks_eq` in Obligations/K08bDecAll.lean.
-/
import Gzx.Gen.K08b
import Gzx.KernelGuard
import Gzx.Proofs.DMTieDec
namespace Gzx.Obligations.K08b
open Gzx Gzx.GoM Gzx.GoVal

/-- the model's target list of phase 1: every block gets its first `S` data codewords, round robin -/
def part1 (N S : Nat) : List (Nat × Nat) :=
  (List.range S).flatMap (fun i => (List.range N).map (fun j => (j, i)))

/-- phase 2: the longer blocks get their last data codeword (position `L-1`) -/
def part2 (NL L : Nat) : List (Nat × Nat) := (List.range NL).map (fun j => (j, L - 1))

/-- phase 3: the error-correction codewords `i = L, …, L+E-1`, round robin; for the special version the round robin
    carries on behind the 8 longer blocks and the 2 shorter blocks take position `i-1` -/
def part3 (special : Bool) (N L E : Nat) : List (Nat × Nat) :=
  (List.range E).flatMap (fun di =>
    let i := L + di
    (List.range N).map (fun j =>
      if special then
        let jOffset := (j + 8) % N
        (jOffset, if jOffset > 7 then i - 1 else i)
      else (j, i)))

/-- the three lists are what `DMDec.dbTargets` concatenates -/
theorem dbTargets_parts (v : DMDec.Version) (d0 L0 : Nat) (rest : List (Nat × Nat))
    (hs : DMDec.blockShapes v = (d0, L0) :: rest) (hL : ¬ L0 < v.ecCodewords + 1) :
    DMDec.dbTargets v = .ok (
      part1 (DMDec.blockShapes v).length (L0 - v.ecCodewords - 1) ++
      part2 (if v.versionNumber == 24 then 8 else (DMDec.blockShapes v).length) (L0 - v.ecCodewords) ++
      part3 (v.versionNumber == 24) (DMDec.blockShapes v).length (L0 - v.ecCodewords) (L0 - (L0 - v.ecCodewords))) := by
  unfold DMDec.dbTargets
  rw [hs]
  simp only [hL, if_false, part1, part2, part3]

theorem flatMap_single {α β : Type} (f : α → β) (l : List α) : l.flatMap (fun a => [f a]) = l.map f := by
  induction l with
  | nil => rfl
  | cons a l ih => simp [List.flatMap_cons, ih]

when_kernel Gzx.Gen.K08b.getDataBlocks in
/-- phase 1: `for i < S { for j < N { result[j].codewords[i] = rawCodewords[off]; off++ } }` -/
theorem k_getDataBlocks_part1 (raw : List Nat) (b b' : List (List Nat)) (off N S : Nat)
    (h : fillFrom raw (part1 N S) off b = some b') :
    loop (Gen.K08b.getDataBlocks_body4 (words raw) (N : Int)) 1 S 0 (cwI b, (off : Int)) =
      .next (cwI b', ((off + (part1 N S).length : Nat) : Int)) := by
  have hT : part1 N S = (List.range' 0 S).flatMap (fun i => (List.range' 0 N).flatMap (fun j => [(j, i)])) := by
    unfold part1
    rw [List.range_eq_range', List.range_eq_range']
    congr 1; funext i; rw [flatMap_single]
  rw [hT] at h ⊢
  have e0 : (0 : Int) = ((0 : Nat) : Int) := rfl
  rw [e0]
  apply loop_fill raw _ (fun i => (List.range' 0 N).flatMap (fun j => [(j, i)])) S 0 _ b off b' h
  intro i b1 off1 b1' _ _ h1
  simp only [Gen.K08b.getDataBlocks_body4]
  have htrip : tripUp 0 (N : Int) 1 = N := by rw [tripUp_one]; omega
  rw [htrip, e0, loop_fill raw _ (fun j => [(j, i)]) N 0 _ b1 off1 b1' h1]
  · simp only [next_thenC]
  · intro j b2 off2 b2' _ _ h2
    simp only [Gen.K08b.getDataBlocks_body5]
    rw [target_step raw b2 b2' j i off2 h2 _ _ _ _ rfl rfl rfl]
    simp only [List.length_singleton]
    congr 2

when_kernel Gzx.Gen.K08b.getDataBlocks in
/-- phase 2: `for j < numLongerBlocks { result[j].codewords[L-1] = rawCodewords[off]; off++ }` (`L ≥ 1`) -/
theorem k_getDataBlocks_part2 (raw : List Nat) (b b' : List (List Nat)) (off NL L : Nat) (hL : 1 ≤ L)
    (h : fillFrom raw (part2 NL L) off b = some b') :
    loop (Gen.K08b.getDataBlocks_body6 (words raw) (L : Int)) 1 NL 0 (cwI b, (off : Int)) =
      .next (cwI b', ((off + (part2 NL L).length : Nat) : Int)) := by
  have hT : part2 NL L = (List.range' 0 NL).flatMap (fun j => [(j, L - 1)]) := by
    unfold part2
    rw [List.range_eq_range', flatMap_single]
  rw [hT] at h ⊢
  have e0 : (0 : Int) = ((0 : Nat) : Int) := rfl
  rw [e0]
  apply loop_fill raw _ (fun j => [(j, L - 1)]) NL 0 _ b off b' h
  intro j b2 off2 b2' _ _ h2
  simp only [Gen.K08b.getDataBlocks_body6]
  rw [target_step raw b2 b2' j (L - 1) off2 h2 _ _ _ _ rfl rfl (by omega)]
  simp only [List.length_singleton]
  congr 2

/-- one target of phase 3 -/
def rot (special : Bool) (N i j : Nat) : Nat × Nat :=
  if special then
    let jOffset := (j + 8) % N
    (jOffset, if jOffset > 7 then i - 1 else i)
  else (j, i)

when_kernel Gzx.Gen.K08b.getDataBlocks in
/-- phase 3: `for i := L; i < L+E; i++ { for j < N { jOffset, iOffset := …; result[jOffset].codewords[iOffset] =
    rawCodewords[off]; off++ } }` with the special-version rotation (`L ≥ 1`) -/
theorem k_getDataBlocks_part3 (raw : List Nat) (b b' : List (List Nat)) (off N L E : Nat) (special : Bool) (hL : 1 ≤ L)
    (h : fillFrom raw (part3 special N L E) off b = some b') :
    loop (Gen.K08b.getDataBlocks_body7 (words raw) (N : Int) special) 1 E (L : Int) (cwI b, (off : Int)) =
      .next (cwI b', ((off + (part3 special N L E).length : Nat) : Int)) := by
  have hT : part3 special N L E = (List.range' L E).flatMap (fun i => (List.range' 0 N).flatMap (fun j => [rot special N i j])) := by
    unfold part3
    have : List.range' L E = (List.range E).map (fun di => L + di) := by
      rw [List.range_eq_range', List.map_add_range']
      simp
    rw [this, List.flatMap_map]
    congr 1; funext di
    rw [List.range_eq_range', flatMap_single]
    rfl
  rw [hT] at h ⊢
  apply loop_fill raw _ (fun i => (List.range' 0 N).flatMap (fun j => [rot special N i j])) E L _ b off b' h
  intro i b1 off1 b1' hi1 _ h1
  simp only [Gen.K08b.getDataBlocks_body7]
  have htrip : tripUp 0 (N : Int) 1 = N := by rw [tripUp_one]; omega
  have e0 : (0 : Int) = ((0 : Nat) : Int) := rfl
  rw [htrip, e0, loop_fill raw _ (fun j => [rot special N i j]) N 0 _ b1 off1 b1' h1]
  · simp only [next_thenC]
  · intro j b2 off2 b2' _ hjN h2
    simp only [Gen.K08b.getDataBlocks_body8]
    cases special with
    | false =>
      simp only [Bool.false_eq_true, if_false]
      have h2' : fillFrom raw [(j, i)] off2 b2 = some b2' := by simpa [rot] using h2
      rw [target_step raw b2 b2' j i off2 h2' _ _ _ _ rfl rfl rfl]
      simp only [List.length_singleton]
      congr 2
    | true =>
      simp only [if_true]
      have hN : ¬ ((N : Int) = 0) := by omega
      have hmod : GoM.mod ((j : Int) + 8) (N : Int) = .ok (((j + 8) % N : Nat) : Int) := by
        unfold GoM.mod
        simp only [hN, if_false]
        have : (j : Int) + 8 = ((j + 8 : Nat) : Int) := by omega
        rw [this, tmod_natCast]
      rw [hmod]
      simp only [tryC_ok]
      have h2' : fillFrom raw [((j + 8) % N, if (j + 8) % N > 7 then i - 1 else i)] off2 b2 = some b2' := by
        simpa [rot] using h2
      have hio : (if decide ((((j + 8) % N : Nat) : Int) > 7) = true then (i : Int) - 1 else (i : Int)) =
          (((if (j + 8) % N > 7 then i - 1 else i) : Nat) : Int) := by
        by_cases hc : (j + 8) % N > 7
        · have : (((j + 8) % N : Nat) : Int) > 7 := by omega
          simp only [hc, this, decide_true, if_true]; omega
        · have : ¬ (((j + 8) % N : Nat) : Int) > 7 := by omega
          simp only [hc, this, decide_false, Bool.false_eq_true, if_false]
      rw [hio]
      rw [target_step raw b2 b2' ((j + 8) % N) (if (j + 8) % N > 7 then i - 1 else i) off2 h2' _ _ _ _ rfl rfl rfl]
      simp only [List.length_singleton]
      congr 2

/-- non-vacuity (144x144: 10 blocks, 156 longer data codewords, 62 error codewords per block): the rotation sends the
    first error codeword to block 8 at position 155 (the shorter blocks are one codeword behind) -/
example : (part3 true 10 156 62).head? = some (8, 155) ∧ (part3 true 10 156 62).length = 620 ∧
    (part3 true 10 156 62)[2]? = some (0, 156) := by decide +kernel

end Gzx.Obligations.K08b
