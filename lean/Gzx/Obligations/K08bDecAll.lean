/-
  K08bDecAll — composition of the whole regenerated `DataBlocks_getDataBlocks` (`Gzx.Gen.K08b.getDataBlocks`) with the
  model: the block-count sum, the construction of the empty `[]DataBlock` (flattened into the two field lists), the reads
  of `len(result[0].codewords)`, the three fill loops (`k_getDataBlocks_part1/2/3` of K08bDec) and the final length check.
  `k_getDataBlocks_eq`: for EVERY version description and EVERY raw codeword vector on which the model does not panic
  (i.e. it returns the blocks or the FormatException) the regenerated function returns the same blocks / the same error.
  (The panic cases are excluded only because the model's panic messages name the failing expression and the kernel's do
  not; `DMDec.getDataBlocks` is proved panic-free on the 48 table versions with `totalCodewords` raw codewords in C06/C08.)
-/
import Gzx.Obligations.K08bDec
namespace Gzx.Obligations.K08b
open Gzx Gzx.GoM Gzx.GoVal

/-- what the regenerated function must return for a result of the model: the blocks as the two field lists of
    `[]DataBlock`; FormatException returns `nil` -/
def expDB : Res (List (Nat × List Nat)) → Res (List Int × List (List Int) × Bool)
  | .ok blocks => .ok (words (blocks.map Prod.fst), blocks.map (fun b => words b.2), false)
  | .error .format => .ok ([], [], true)
  | .error e => .error e

when_kernel Gzx.Gen.K08b.getDataBlocks in
/-- the kernel on a model version: `*Version -> *ECBlocks -> []ECB` flattened into the version number, the error codeword
    count and the two field lists of the EC-block descriptions -/
def genDB (raw : List Nat) (v : DMDec.Version) : Res (List Int × List (List Int) × Bool) :=
  Gen.K08b.getDataBlocks (words raw) (v.versionNumber : Int) (v.ecCodewords : Int)
    (words (v.ecBlocks.map (·.count))) (words (v.ecBlocks.map (·.dataCodewords)))

/-! ## the block-count sum -/

theorem sum_take_succ : ∀ (cs : List Nat) (i : Nat) (hi : i < cs.length),
    (cs.take (i + 1)).sum = (cs.take i).sum + cs[i]
  | [], _, h => by simp at h
  | c :: cs, 0, _ => by simp
  | c :: cs, i + 1, h => by
    have := sum_take_succ cs i (by simpa using h)
    simp only [List.take_succ_cons, List.sum_cons, List.getElem_cons_succ] at this ⊢
    omega

when_kernel Gzx.Gen.K08b.getDataBlocks in
theorem loopA_eq (cs : List Nat) :
    loop (Gen.K08b.getDataBlocks_body1 (words cs)) 1 (tripUp 0 (len (words cs)) 1) 0 (0 : Int) = .next ((cs.sum : Nat) : Int) := by
  have htrip : tripUp 0 (len (words cs)) 1 = cs.length := by rw [tripUp_one, len_words]; omega
  rw [htrip]
  obtain ⟨st', hloop, hst⟩ := loop_inv_up (Gen.K08b.getDataBlocks_body1 (words cs))
    (fun i st => st = (((cs.take i).sum : Nat) : Int)) 0 cs.length
    (by
      intro i st hi hst
      subst hst
      refine ⟨_, ?_, rfl⟩
      simp only [Gen.K08b.getDataBlocks_body1, Nat.zero_add]
      rw [idx_words_lt cs i hi]
      simp only [tryC_ok]
      have hs : (List.take (i + 1) cs).sum = (List.take i cs).sum + cs[i] := sum_take_succ cs i hi
      have hg : cs.getD i 0 = cs[i] := by simp [List.getD_eq_getElem?_getD, List.getElem?_eq_getElem hi]
      rw [hs, hg]; simp)
    cs.length 0 0 (by omega) rfl
  have e0 : ((0 + 0 : Nat) : Int) = 0 := rfl
  rw [e0] at hloop
  rw [hloop, hst, List.take_length]

/-! ## the empty blocks -/

/-- (numDataCodewords, total length) of the blocks of a list of EC-block descriptions -/
def shapesOf (ec : Nat) (bs : List DMDec.ECB) : List (Nat × Nat) :=
  bs.flatMap (fun b => List.replicate b.count (b.dataCodewords, ec + b.dataCodewords))

theorem shapesOf_length (ec : Nat) (bs : List DMDec.ECB) : (shapesOf ec bs).length = (bs.map (·.count)).sum := by
  induction bs with
  | nil => rfl
  | cons b bs ih => simp [shapesOf, List.flatMap_cons] at ih ⊢; try omega

/-- the state of the construction loops after the blocks `pre` have been set up (of `N` in total) -/
def emb (N : Nat) (pre : List (Nat × Nat)) : List Int × List (List Int) × Int :=
  (words (pre.map Prod.fst ++ List.replicate (N - pre.length) 0),
   cwI (pre.map (fun s => List.replicate s.2 0) ++ List.replicate (N - pre.length) []),
   (pre.length : Int))

theorem set_append_replicate {α : Type} (l : List α) (r : Nat) (z x : α) (hr : 0 < r) :
    (l ++ List.replicate r z).set l.length x = (l ++ [x]) ++ List.replicate (r - 1) z := by
  obtain ⟨r, rfl⟩ : ∃ k, r = k + 1 := ⟨r - 1, by omega⟩
  simp [List.replicate_succ]

when_kernel Gzx.Gen.K08b.getDataBlocks in
theorem body3_emb (N ec dc : Nat) (q : List (Nat × Nat)) (hq : q.length < N) (i : Int) :
    Gen.K08b.getDataBlocks_body3 (ec : Int) (dc : Int) i (emb N q) = .next (emb N (q ++ [(dc, ec + dc)])) := by
  simp only [Gen.K08b.getDataBlocks_body3, emb]
  have hl1 : q.length < (q.map Prod.fst ++ List.replicate (N - q.length) 0).length := by simp; omega
  rw [setIdx_words_lt _ _ _ q.length dc rfl rfl hl1]
  simp only [tryC_ok]
  have e1 : (ec : Int) + (dc : Int) = ((ec + dc : Nat) : Int) := by omega
  rw [e1, mk_words']
  simp only [tryC_ok]
  have hl2 : q.length < (q.map (fun s : Nat × Nat => List.replicate s.2 0) ++ List.replicate (N - q.length) ([] : List Nat)).length := by
    simp; omega
  rw [setIdxLL_cwI _ _ q.length _ rfl hl2]
  simp only [tryC_ok]
  have a1 := set_append_replicate (q.map Prod.fst) (N - q.length) 0 dc (by omega)
  have a2 := set_append_replicate (q.map (fun s : Nat × Nat => List.replicate s.2 0)) (N - q.length) ([] : List Nat)
    (List.replicate (ec + dc) 0) (by omega)
  simp only [List.length_map] at a1 a2
  rw [a1, a2]
  simp only [List.map_append, List.map_cons, List.map_nil, List.length_append, List.length_singleton]
  have e2 : N - q.length - 1 = N - (q.length + 1) := by omega
  have e3 : (q.length : Int) + 1 = ((q.length + 1 : Nat) : Int) := by omega
  rw [e2, e3]

when_kernel Gzx.Gen.K08b.getDataBlocks in
theorem loopB_inner (N ec dc c : Nat) (pre : List (Nat × Nat)) (h : pre.length + c ≤ N) :
    loop (Gen.K08b.getDataBlocks_body3 (ec : Int) (dc : Int)) 1 c 0 (emb N pre) =
      .next (emb N (pre ++ List.replicate c (dc, ec + dc))) := by
  have hinv0 : emb N pre = emb N (pre ++ List.replicate 0 (dc, ec + dc)) := by simp
  obtain ⟨st', hloop, hst⟩ := loop_inv_up (Gen.K08b.getDataBlocks_body3 (ec : Int) (dc : Int))
    (fun m st => st = emb N (pre ++ List.replicate m (dc, ec + dc))) 0 c
    (by
      intro m st hm hst
      subst hst
      refine ⟨_, body3_emb N ec dc _ (by simp; omega) _, ?_⟩
      rw [List.append_assoc, ← List.replicate_succ']
      )
    c 0 (emb N pre) (Nat.zero_add c) hinv0
  have e0 : ((0 + 0 : Nat) : Int) = 0 := rfl
  rw [e0] at hloop
  rw [hloop, hst]

theorem shapesOf_take_succ (ec : Nat) (bs : List DMDec.ECB) (p : Nat) (hp : p < bs.length) :
    shapesOf ec (bs.take (p + 1)) =
      shapesOf ec (bs.take p) ++ List.replicate bs[p].count (bs[p].dataCodewords, ec + bs[p].dataCodewords) := by
  rw [List.take_add_one, List.getElem?_eq_getElem hp]
  unfold shapesOf
  rw [List.flatMap_append]
  simp

theorem shapesOf_take_le (ec : Nat) (bs : List DMDec.ECB) (p : Nat) :
    (shapesOf ec (bs.take p)).length ≤ (shapesOf ec bs).length := by
  have : shapesOf ec bs = shapesOf ec (bs.take p) ++ shapesOf ec (bs.drop p) := by
    unfold shapesOf; rw [← List.flatMap_append, List.take_append_drop]
  rw [this, List.length_append]; omega

when_kernel Gzx.Gen.K08b.getDataBlocks in
theorem loopB_eq (ec : Nat) (bs : List DMDec.ECB) :
    loop (Gen.K08b.getDataBlocks_body2 (ec : Int) (words (bs.map (·.count))) (words (bs.map (·.dataCodewords)))) 1
        (tripUp 0 (len (words (bs.map (·.count)))) 1) 0 (emb (shapesOf ec bs).length []) =
      .next (emb (shapesOf ec bs).length (shapesOf ec bs)) := by
  have htrip : tripUp 0 (len (words (bs.map (·.count)))) 1 = bs.length := by rw [tripUp_one, len_words]; simp
  rw [htrip]
  obtain ⟨st', hloop, hst⟩ := loop_inv_up
    (Gen.K08b.getDataBlocks_body2 (ec : Int) (words (bs.map (·.count))) (words (bs.map (·.dataCodewords))))
    (fun p st => st = emb (shapesOf ec bs).length (shapesOf ec (bs.take p))) 0 bs.length
    (by
      intro p st hp hst
      subst hst
      refine ⟨_, ?_, rfl⟩
      simp only [Gen.K08b.getDataBlocks_body2, Nat.zero_add]
      rw [idx_words_lt _ p (by simpa using hp)]
      simp only [tryC_ok]
      rw [idx_words_lt _ p (by simpa using hp)]
      simp only [tryC_ok]
      have g1 : (bs.map (·.count)).getD p 0 = bs[p].count := by
        simp [List.getD_eq_getElem?_getD, List.getElem?_eq_getElem hp]
      have g2 : (bs.map (·.dataCodewords)).getD p 0 = bs[p].dataCodewords := by
        simp [List.getD_eq_getElem?_getD, List.getElem?_eq_getElem hp]
      rw [g1, g2]
      have htr : tripUp 0 ((bs[p].count : Nat) : Int) 1 = bs[p].count := by rw [tripUp_one]; omega
      have hle := shapesOf_take_le ec bs (p + 1)
      rw [shapesOf_take_succ ec bs p hp, List.length_append, List.length_replicate] at hle
      rw [htr, loopB_inner _ ec bs[p].dataCodewords bs[p].count _ hle]
      simp only [next_thenC]
      rw [shapesOf_take_succ ec bs p hp])
    bs.length 0 (emb (shapesOf ec bs).length []) (by omega) (by simp [shapesOf])
  have e0 : ((0 + 0 : Nat) : Int) = 0 := rfl
  rw [e0] at hloop
  rw [hloop, hst, List.take_length]

/-! ## glue -/

theorem set2_shape (b b' : List (List Nat)) (j i x : Nat) (h : DMDec.set2 b j i x = some b') :
    b'.map List.length = b.map List.length := by
  unfold DMDec.set2 at h
  cases hr : b[j]? with
  | none => rw [hr] at h; cases h
  | some r =>
    rw [hr] at h
    simp only [] at h
    split at h
    · injection h with h; subst h
      have hj : j < b.length := (List.getElem?_eq_some_iff.mp hr).1
      have hrj : r = b[j] := by rw [List.getElem?_eq_getElem hj] at hr; injection hr with hr; exact hr.symm
      apply List.ext_getElem (by simp)
      intro k h1 h2
      simp only [List.getElem_map, List.getElem_set]
      by_cases hk : j = k
      · subst hk; simp [hrj]
      · simp [hk]
    · cases h

theorem fillFrom_shape (raw : List Nat) : ∀ (ts : List (Nat × Nat)) (off : Nat) (b b' : List (List Nat)),
    fillFrom raw ts off b = some b' → b'.map List.length = b.map List.length := by
  intro ts
  induction ts with
  | nil => intro off b b' h; simp [fillFrom] at h; subst h; rfl
  | cons t ts ih =>
    intro off b b' h
    obtain ⟨j, i⟩ := t
    simp only [fillFrom] at h
    cases hx : raw[off]? with
    | none => rw [hx] at h; cases h
    | some x =>
      rw [hx] at h
      simp only [] at h
      cases hs : DMDec.set2 b j i x with
      | none => rw [hs] at h; cases h
      | some b1 =>
        rw [hs] at h
        simp only [] at h
        rw [ih (off + 1) b1 b' h, set2_shape b b1 j i x hs]

theorem fillBlocks_err : ∀ (ts : List (Nat × Nat)) (xs : List Nat) (b : List (List Nat)) (e : Fault),
    DMDec.fillBlocks ts xs b = .error e → e = .format ∨ ∃ s, e = .panic s := by
  intro ts
  induction ts with
  | nil =>
    intro xs b e h
    cases xs with
    | nil => simp [DMDec.fillBlocks] at h
    | cons x xs => simp only [DMDec.fillBlocks] at h; injection h with h; exact Or.inl h.symm
  | cons t ts ih =>
    intro xs b e h
    obtain ⟨j, i⟩ := t
    cases xs with
    | nil => simp only [DMDec.fillBlocks] at h; injection h with h; exact Or.inr ⟨_, h.symm⟩
    | cons x xs =>
      simp only [DMDec.fillBlocks] at h
      cases hs : DMDec.set2 b j i x with
      | none => rw [hs] at h; simp only [] at h; injection h with h; exact Or.inr ⟨_, h.symm⟩
      | some b1 => rw [hs] at h; exact ih xs b1 e h

theorem mkLL_nat (n : Nat) : mkLL (n : Int) = .ok (cwI (List.replicate n [])) := by
  unfold mkLL
  have : ¬ ((n : Int) < 0) := by omega
  simp [this, cwI]

when_kernel Gzx.Gen.K08b.getDataBlocks in
/-- `DataBlocks_getDataBlocks(rawCodewords, version)` = `DMDec.getDataBlocks`, for every version description and every raw
    codeword vector on which the model returns blocks or the FormatException -/
theorem k_getDataBlocks_eq (raw : List Nat) (v : DMDec.Version)
    (hnp : ∀ s, DMDec.getDataBlocks raw v ≠ .error (.panic s)) :
    genDB raw v = expDB (DMDec.getDataBlocks raw v) := by
  have hshapes : DMDec.blockShapes v = shapesOf v.ecCodewords v.ecBlocks := rfl
  unfold genDB
  simp only [Gen.K08b.getDataBlocks]
  rw [loopA_eq]
  simp only [next_thenR]
  rw [← shapesOf_length v.ecCodewords v.ecBlocks, mk_words', mkLL_nat]
  simp only [tryR_ok]
  have hinit : (words (List.replicate (shapesOf v.ecCodewords v.ecBlocks).length 0),
      cwI (List.replicate (shapesOf v.ecCodewords v.ecBlocks).length []), (0 : Int)) =
      emb (shapesOf v.ecCodewords v.ecBlocks).length [] := by simp [emb]
  rw [hinit, loopB_eq]
  simp only [next_thenR, emb, Nat.sub_self, List.replicate_zero, List.append_nil]
  -- the model
  unfold DMDec.getDataBlocks at hnp ⊢
  cases hsh : shapesOf v.ecCodewords v.ecBlocks with
  | nil =>
    exfalso
    have : DMDec.dbTargets v = .error (.panic "index out of range: result[0]") := by
      unfold DMDec.dbTargets; rw [hshapes, hsh]
    rw [this] at hnp
    exact hnp _ rfl
  | cons s0 rest =>
    obtain ⟨d0, L0⟩ := s0
    by_cases hL : L0 < v.ecCodewords + 1
    · exfalso
      have : DMDec.dbTargets v = .error (.panic "negative loop bound / index -1") := by
        unfold DMDec.dbTargets; rw [hshapes, hsh]; simp only [hL, if_true]
      rw [this] at hnp
      exact hnp _ rfl
    · have hts := dbTargets_parts v d0 L0 rest (by rw [hshapes, hsh]) hL
      rw [hts] at hnp ⊢
      simp only [] at hnp ⊢
      rw [hshapes, hsh] at hnp ⊢
      generalize hN : ((d0, L0) :: rest).length = N at hnp ⊢
      generalize hb0 : ((d0, L0) :: rest).map (fun s => List.replicate s.2 0) = blocks0 at hnp ⊢
      generalize hts1 : part1 N (L0 - v.ecCodewords - 1) = ts1 at hnp ⊢
      generalize hts2 : part2 (if (v.versionNumber == 24) = true then 8 else N) (L0 - v.ecCodewords) = ts2 at hnp ⊢
      generalize hts3 : part3 (v.versionNumber == 24) N (L0 - v.ecCodewords) (L0 - (L0 - v.ecCodewords)) = ts3 at hnp ⊢
      -- both outcomes of the model give the three partial fills
      have hfill : ∃ bF, fillFrom raw (ts1 ++ ts2 ++ ts3) 0 blocks0 = some bF ∧
          ((DMDec.fillBlocks (ts1 ++ ts2 ++ ts3) raw blocks0 = .ok bF ∧ raw.length = (ts1 ++ ts2 ++ ts3).length) ∨
           (DMDec.fillBlocks (ts1 ++ ts2 ++ ts3) raw blocks0 = .error .format ∧ (ts1 ++ ts2 ++ ts3).length < raw.length)) := by
        cases hfb : DMDec.fillBlocks (ts1 ++ ts2 ++ ts3) raw blocks0 with
        | ok bF =>
          have := fillBlocks_ok raw (ts1 ++ ts2 ++ ts3) 0 blocks0 bF (by omega) (by simpa using hfb)
          exact ⟨bF, this.1, Or.inl ⟨rfl, by omega⟩⟩
        | error e =>
          rcases fillBlocks_err _ _ _ e hfb with rfl | ⟨s, rfl⟩
          · obtain ⟨bF, h1, h2⟩ := fillBlocks_format raw (ts1 ++ ts2 ++ ts3) 0 blocks0 (by omega) (by simpa using hfb)
            exact ⟨bF, h1, Or.inr ⟨rfl, by omega⟩⟩
          · exfalso; rw [hfb] at hnp; exact hnp s rfl
      obtain ⟨bF, hF, hout⟩ := hfill
      rw [List.append_assoc, fillFrom_append] at hF
      cases h1 : fillFrom raw ts1 0 blocks0 with
      | none => rw [h1] at hF; cases hF
      | some b1 =>
        rw [h1, Option.bind_some, fillFrom_append] at hF
        cases h2 : fillFrom raw ts2 (0 + ts1.length) b1 with
        | none => rw [h2] at hF; cases hF
        | some b2 =>
          rw [h2, Option.bind_some] at hF
          have hrow0 : blocks0[0]? = some (List.replicate L0 0) := by rw [← hb0]; simp
          rw [idxL_cwI blocks0 0 0 _ rfl hrow0]
          simp only [tryR_ok, len_words, List.length_replicate]
          have hS : ((L0 : Int) - (v.ecCodewords : Int) - 1) = ((L0 - v.ecCodewords - 1 : Nat) : Int) := by omega
          have hLl : ((L0 : Int) - (v.ecCodewords : Int)) = ((L0 - v.ecCodewords : Nat) : Int) := by omega
          rw [hS, hLl]
          have htr1 : tripUp 0 ((L0 - v.ecCodewords - 1 : Nat) : Int) 1 = L0 - v.ecCodewords - 1 := by
            rw [tripUp_one]; omega
          rw [htr1]
          have e0 : ((0 : Nat) : Int) = 0 := rfl
          -- phase 1
          have p1 := k_getDataBlocks_part1 raw blocks0 b1 0 N (L0 - v.ecCodewords - 1) (by rw [hts1]; exact h1)
          rw [hts1, e0] at p1
          rw [p1]
          simp only [next_thenR]
          -- phase 2
          rw [show (24 : Int) = ((24 : Nat) : Int) from rfl, natCast_beq']
          have hNL : (if (v.versionNumber == 24) = true then (8 : Int) else (N : Int)) =
              (((if (v.versionNumber == 24) = true then 8 else N) : Nat) : Int) := by split <;> rfl
          rw [hNL]
          have htr2 : tripUp 0 (((if (v.versionNumber == 24) = true then 8 else N) : Nat) : Int) 1 =
              (if (v.versionNumber == 24) = true then 8 else N) := by rw [tripUp_one]; omega
          rw [htr2]
          have p2 := k_getDataBlocks_part2 raw b1 b2 (0 + ts1.length) (if (v.versionNumber == 24) = true then 8 else N)
            (L0 - v.ecCodewords) (by omega) (by rw [hts2]; exact h2)
          rw [hts2] at p2
          rw [p2]
          simp only [next_thenR]
          -- block 0 still has L0 cells
          have hshape2 : b2.map List.length = blocks0.map List.length := by
            rw [fillFrom_shape raw ts2 _ b1 b2 h2, fillFrom_shape raw ts1 _ blocks0 b1 h1]
          have hshapeF : bF.map List.length = blocks0.map List.length := by
            rw [fillFrom_shape raw ts3 _ b2 bF hF, hshape2]
          obtain ⟨r, b2', hb2, hrl⟩ : ∃ r b2', b2 = r :: b2' ∧ r.length = L0 := by
            rw [← hb0] at hshape2
            cases b2 with
            | nil => simp at hshape2
            | cons r b2' =>
              simp only [List.map_cons, List.length_replicate] at hshape2
              injection hshape2 with h _
              exact ⟨r, b2', rfl, h⟩
          rw [hb2, idxL_cwI (r :: b2') 0 0 r rfl rfl]
          simp only [tryR_ok, len_words, hrl]
          have htr3 : tripUp ((L0 - v.ecCodewords : Nat) : Int) (L0 : Int) 1 = L0 - (L0 - v.ecCodewords) := by
            rw [tripUp_one]; omega
          rw [htr3]
          -- phase 3
          have p3 := k_getDataBlocks_part3 raw b2 bF (0 + ts1.length + ts2.length) N (L0 - v.ecCodewords)
            (L0 - (L0 - v.ecCodewords)) (v.versionNumber == 24) (by omega) (by rw [hts3]; exact hF)
          rw [hts3, hb2] at p3
          rw [p3]
          simp only [next_thenR]
          rw [natCast_bne']
          have htot : 0 + ts1.length + ts2.length + ts3.length = (ts1 ++ ts2 ++ ts3).length := by
            simp [List.length_append]; omega
          rw [htot]
          rcases hout with ⟨hfb, hlen⟩ | ⟨hfb, hlen⟩
          · rw [hfb]
            have hb : ((ts1 ++ ts2 ++ ts3).length != raw.length) = false := by simp [hlen]
            simp only [hb, Bool.false_eq_true, if_false, expDB]
            have hlenF : bF.length = ((d0, L0) :: rest).length := by
              have := congrArg List.length hshapeF
              rw [← hb0] at this
              simpa using this
            have hle : (List.map (fun x : Nat × Nat => x.fst) ((d0, L0) :: rest)).length ≤ bF.length := by
              simp only [List.length_map]; omega
            have z1 : (((List.map (fun x => x.fst) ((d0, L0) :: rest)).zip bF).map Prod.fst) =
                List.map Prod.fst ((d0, L0) :: rest) := by
              rw [List.map_fst_zip hle]
            have z2 : (((List.map (fun x => x.fst) ((d0, L0) :: rest)).zip bF).map (fun b => words b.2)) = cwI bF := by
              have hs : (((List.map (fun x => x.fst) ((d0, L0) :: rest)).zip bF).map Prod.snd) = bF :=
                List.map_snd_zip (by simp only [List.length_map]; omega)
              have hm : (((List.map (fun x => x.fst) ((d0, L0) :: rest)).zip bF).map (fun b => words b.2)) =
                  ((((List.map (fun x => x.fst) ((d0, L0) :: rest)).zip bF).map Prod.snd).map words) := by
                rw [List.map_map]; rfl
              rw [hm, hs]
            rw [z1, z2]
          · rw [hfb]
            have hb : ((ts1 ++ ts2 ++ ts3).length != raw.length) = true := by
              apply bne_iff_ne.mpr; omega
            simp only [hb, if_true, expDB]

/-- non-vacuity of the hypothesis: on the 52x52 version (15: two interleaved blocks) with its 288 raw codewords the model
    returns blocks, so it returns no panic (the same holds for every table version; kernel evaluation of the 2178
    codewords of 144x144 takes over a minute and is left to the correspondence suite) -/
example : ∃ v ∈ DMDec.versions, v.ecBlocks = [⟨2, 102⟩] ∧
    ∀ s, DMDec.getDataBlocks (List.replicate v.totalCodewords 7) v ≠ .error (.panic s) := by
  refine ⟨DMDec.versions.getD 14 default, by decide +kernel, by decide +kernel, ?_⟩
  have h : (DMDec.getDataBlocks (List.replicate (DMDec.versions.getD 14 default).totalCodewords 7)
      (DMDec.versions.getD 14 default)).isOk = true := by decide +kernel
  intro s hs
  rw [hs] at h
  cases h

end Gzx.Obligations.K08b
