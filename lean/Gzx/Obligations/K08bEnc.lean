/-
  K08bEnc — `ErrorCorrection_EncodeECC200` regenerated from /repo on every run (`Gzx.Gen.K08b.encodeECC200`: block split,
  per-block `createECCBlock`, interleaved write-back incl. the 144x144 start rule, the `make`/`append`/`sb[:cap(sb)]`
  buffer handling, the two function-valued fields of SymbolInfo as selectors) proved equal to the hand-written model
  `DMEnc.encodeECC200` (which Properties/C08 `encodeECC200_eq_reference` relates to the ISO/IEC 16022 reference) for
  every symbol description that satisfies `EccWF` (all 30 rows of the symbol table do: `symbols_eccWF`) and EVERY byte
  vector of ANY length.
-/
import Gzx.Obligations.K08b
namespace Gzx.Obligations.K08b
open Gzx Gzx.GoM Gzx.GoVal

/-! ## the SymbolInfo accessors and the two function-valued fields -/

when_kernel Gzx.Gen.K08b.encodeECC200 in
/-- selector value of `funcGetInterleavedBlockCount` for a modelled symbol -/
def selBC (s : DMEnc.SymbolInfo) : Int :=
  if s.special144 then Gen.K08b.fsel_SymbolInfo_funcGetInterleavedBlockCount_datamatrixSymbolInfo144_getInterleavedBlockCount
  else Gen.K08b.fsel_SymbolInfo_funcGetInterleavedBlockCount_defaultGetInterleavedBlockCount

when_kernel Gzx.Gen.K08b.encodeECC200 in
/-- selector value of `funcGetDataLengthForInterleavedBlock` for a modelled symbol -/
def selDL (s : DMEnc.SymbolInfo) : Int :=
  if s.special144 then Gen.K08b.fsel_SymbolInfo_funcGetDataLengthForInterleavedBlock_datamatrixSymbolInfo144_getDataLengthForInterleavedBlock
  else Gen.K08b.fsel_SymbolInfo_funcGetDataLengthForInterleavedBlock_defaultGetDataLengthForInterleavedBlock

when_kernel Gzx.Gen.K08b.encodeECC200 in
/-- `SymbolInfo.GetInterleavedBlockCount()` (dispatch through the function-valued field) = the model, panic included -/
theorem k_getInterleavedBlockCount_eq (s : DMEnc.SymbolInfo) :
    Gen.K08b.getInterleavedBlockCount (s.dataCapacity : Int) s.rsBlockData (selBC s) = s.interleavedBlockCount := by
  unfold Gen.K08b.getInterleavedBlockCount selBC DMEnc.SymbolInfo.interleavedBlockCount
  cases h : s.special144
  · by_cases h0 : s.rsBlockData = 0
    · simp [h0, Gen.K08b.defaultBlockCount, GoM.div, tryR,
        Gen.K08b.fsel_SymbolInfo_funcGetInterleavedBlockCount_datamatrixSymbolInfo144_getInterleavedBlockCount,
        Gen.K08b.fsel_SymbolInfo_funcGetInterleavedBlockCount_defaultGetInterleavedBlockCount]
    · simp [h0, Gen.K08b.defaultBlockCount, GoM.div, tryR,
        Gen.K08b.fsel_SymbolInfo_funcGetInterleavedBlockCount_datamatrixSymbolInfo144_getInterleavedBlockCount,
        Gen.K08b.fsel_SymbolInfo_funcGetInterleavedBlockCount_defaultGetInterleavedBlockCount]
  · simp [Gen.K08b.sym144BlockCount, tryR,
      Gen.K08b.fsel_SymbolInfo_funcGetInterleavedBlockCount_datamatrixSymbolInfo144_getInterleavedBlockCount]

when_kernel Gzx.Gen.K08b.encodeECC200 in
/-- `SymbolInfo.GetDataLengthForInterleavedBlock(index)` = the model -/
theorem k_getDataLength_eq (s : DMEnc.SymbolInfo) (index : Nat) :
    Gen.K08b.getDataLengthForInterleavedBlock s.rsBlockData (selDL s) (index : Int) =
      .ok (s.dataLengthForInterleavedBlock index) := by
  unfold Gen.K08b.getDataLengthForInterleavedBlock selDL DMEnc.SymbolInfo.dataLengthForInterleavedBlock
  cases h : s.special144
  · simp [Gen.K08b.defaultDataLength, tryR,
      Gen.K08b.fsel_SymbolInfo_funcGetDataLengthForInterleavedBlock_datamatrixSymbolInfo144_getDataLengthForInterleavedBlock,
      Gen.K08b.fsel_SymbolInfo_funcGetDataLengthForInterleavedBlock_defaultGetDataLengthForInterleavedBlock]
  · by_cases h8 : index ≤ 8
    · have : (index : Int) ≤ 8 := by omega
      simp [Gen.K08b.sym144DataLength, tryR, h8, this,
        Gen.K08b.fsel_SymbolInfo_funcGetDataLengthForInterleavedBlock_datamatrixSymbolInfo144_getDataLengthForInterleavedBlock]
    · have : ¬ (index : Int) ≤ 8 := by omega
      simp [Gen.K08b.sym144DataLength, tryR, h8, this,
        Gen.K08b.fsel_SymbolInfo_funcGetDataLengthForInterleavedBlock_datamatrixSymbolInfo144_getDataLengthForInterleavedBlock]

/-! ## what `createECCBlock` can return over the reference tables -/

theorem createECCBlock_res (cws : List Nat) (n : Nat) :
    (∃ e, DMEnc.createECCBlock DMRef.parityLengths DMRef.factorTable cws n = .ok e ∧ e.length = n ∧ n ∈ DMRef.parityLengths) ∨
    (DMEnc.createECCBlock DMRef.parityLengths DMRef.factorTable cws n = .error .writer ∧ n ∉ DMRef.parityLengths) := by
  unfold DMEnc.createECCBlock
  cases hft : DMEnc.findTable n DMRef.parityLengths 0 with
  | none =>
    right
    refine ⟨rfl, ?_⟩
    intro hmem
    have : ∀ (fs : List Nat) (a : Nat), n ∈ fs → DMEnc.findTable n fs a ≠ none := by
      intro fs
      induction fs with
      | nil => intro a h; cases h
      | cons f fs ih =>
        intro a h
        unfold DMEnc.findTable
        by_cases hf : f = n
        · simp [hf]
        · simp only [hf, if_false]
          exact ih (a + 1) (by rcases List.mem_cons.mp h with h | h; exact absurd h.symm hf; exact h)
    exact this _ 0 hmem hft
  | some t =>
    left
    obtain ⟨ht16, htn⟩ := findTable_lt n t hft
    obtain ⟨hrl, hrb, hr0⟩ := factor_rows ⟨t, ht16⟩
    simp only [] at hrl hrb hr0
    rw [htn] at hrl hr0
    have hmem : n ∈ DMRef.parityLengths := by
      obtain ⟨_, h2⟩ := findTable_some n _ 0 t hft
      exact List.mem_of_getElem? h2
    have hrow : DMRef.factorTable[t]? = some (DMRef.factorTable.getD t []) := by
      have : t < DMRef.factorTable.length := by
        have : DMRef.factorTable.length = 16 := by decide +kernel
        omega
      rw [List.getD_eq_getElem?_getD, List.getElem?_eq_getElem this]; rfl
    generalize DMRef.factorTable.getD t [] = poly at hrl hrb hrow
    simp only [hrow]
    have htake : poly.take n = poly := List.take_of_length_le (by omega)
    by_cases hemp : cws.isEmpty = true
    · exact ⟨List.replicate n 0, by simp [hemp], by simp, hmem⟩
    · have h2 : ¬ n = 0 := by omega
      have h3 : ¬ poly.length < n := by omega
      refine ⟨(DMEnc.lfsr DMEnc.tabMul poly n cws).reverse, by simp only [hemp, Bool.false_eq_true, if_false, h2, h3, hrb, Bool.not_true, htake], ?_, hmem⟩
      rw [List.length_reverse]
      unfold DMEnc.lfsr
      have gen : ∀ (cs : List Nat) (e0 : List Nat), e0.length = n →
          (cs.foldl (DMEnc.eccStep DMEnc.tabMul poly) e0).length = n := by
        intro cs
        induction cs with
        | nil => intro e0 h1; exact h1
        | cons c cs ih => intro e0 h1; exact ih _ (eccStep_length poly e0 c n hr0 h1 hrl)
      exact gen cws _ (by simp)

/-! ## the block extraction loop `for d := block; d < cap; d += blockCount { temp = append(temp, codewords[d]) }` -/

theorem everyNthAux_drop (B : Nat) : ∀ (k : Nat) (xs : List Nat),
    DMRef.everyNthAux B k xs = DMRef.everyNthAux B 0 (xs.drop k) := by
  intro k
  induction k with
  | zero => intro xs; rfl
  | succ k ih =>
    intro xs
    cases xs with
    | nil => simp [DMRef.everyNthAux]
    | cons x xs => simp only [DMRef.everyNthAux, List.drop_succ_cons]; exact ih xs

theorem everyNthAux_bytes (B : Nat) : ∀ (xs : List Nat) (k : Nat), Bytes xs → Bytes (DMRef.everyNthAux B k xs) := by
  intro xs
  induction xs with
  | nil => intro k _ x hx; cases k <;> simp [DMRef.everyNthAux] at hx
  | cons y ys ih =>
    intro k h x hx
    cases k with
    | zero =>
      simp only [DMRef.everyNthAux, List.mem_cons] at hx
      rcases hx with rfl | hx
      · exact h _ (by simp)
      · exact ih _ (fun a ha => h a (by simp [ha])) x hx
    | succ k =>
      simp only [DMRef.everyNthAux] at hx
      exact ih _ (fun a ha => h a (by simp [ha])) x hx

when_kernel Gzx.Gen.K08b.encodeECC200 in
theorem temp_sim (cws : List Nat) (B : Nat) (hB : 0 < B) :
    ∀ (fuel : Nat) (xs : List Nat) (d : Nat) (t : List Nat), cws.drop d = xs → xs.length < fuel →
      ∃ d', whileLoop (Gen.K08b.encodeECC200_body3 (words cws) (cws.length : Int) (B : Int)) fuel (words t, (d : Int)) =
        .brk (words (t ++ DMRef.everyNth B xs), d') := by
  intro fuel
  induction fuel with
  | zero => intro xs d t _ h; omega
  | succ fuel ih =>
    intro xs d t hx hf
    rw [whileLoop_succ]
    simp only [Gen.K08b.encodeECC200_body3]
    cases xs with
    | nil =>
      have hd : cws.length ≤ d := by
        have := congrArg List.length hx; simp at this; omega
      have : ¬ ((d : Int) < (cws.length : Int)) := by omega
      simp only [this, decide_false, Bool.false_eq_true, if_false]
      exact ⟨(d : Int), by simp [DMRef.everyNth, DMRef.everyNthAux]⟩
    | cons x xs' =>
      have hd : d < cws.length := by
        have := congrArg List.length hx; simp at this; omega
      have hxd : cws.getD d 0 = x := by
        rw [List.drop_eq_getElem_cons hd] at hx
        injection hx with h1 _
        simp [List.getD_eq_getElem?_getD, List.getElem?_eq_getElem hd, h1]
      have : ((d : Int) < (cws.length : Int)) := by omega
      simp only [this, decide_true, if_true]
      rw [idx_words_lt cws d hd]
      simp only [tryC_ok]
      have e1 : (d : Int) + (B : Int) = ((d + B : Nat) : Int) := by omega
      have e2 : words t ++ [((cws.getD d 0 : Nat) : Int)] = words (t ++ [x]) := by rw [hxd]; simp [words]
      rw [e1, e2]
      have hdrop : cws.drop (d + B) = xs'.drop (B - 1) := by
        rw [← List.drop_drop, hx]
        obtain ⟨b, rfl⟩ : ∃ b, B = b + 1 := ⟨B - 1, by omega⟩
        simp
      obtain ⟨d', hd'⟩ := ih (xs'.drop (B - 1)) (d + B) (t ++ [x]) hdrop (by simp at hf ⊢; omega)
      refine ⟨d', ?_⟩
      rw [hd']
      have : DMRef.everyNth B (x :: xs') = x :: DMRef.everyNth B (xs'.drop (B - 1)) := by
        unfold DMRef.everyNth
        simp only [DMRef.everyNthAux]
        rw [everyNthAux_drop B (B - 1) xs']
      rw [this]; simp

/-! ## the write-back loop `for e := first; e < errorSizes[block]*blockCount; e += blockCount { sb[cap+e] = ecc[pos]; pos++ }` -/

when_kernel Gzx.Gen.K08b.encodeECC200 in
theorem putEcc_sim (B limit base : Nat) (_hB : 0 < B) (ecc es : List Nat) (block : Nat) (hblk : block < es.length)
    (hes : es.getD block 0 * B = limit) (bk : List Int) :
    ∀ (fm : Nat) (sb : List Nat) (e pos fuel : Nat), limit ≤ e + fm * B → limit ≤ e + (ecc.length - pos) * B →
      base + limit ≤ sb.length → fm < fuel →
      ∃ sb' e' pos', DMEnc.putEcc B limit base fm sb (ecc.drop pos) e = .ok sb' ∧ sb'.length = sb.length ∧
        whileLoop (Gen.K08b.encodeECC200_body4 (base : Int) bk (B : Int) (words ecc) (words es) (block : Int)) fuel
          (words sb, (e : Int), (pos : Int)) = .brk (words sb', e', pos') := by
  have hlim : ((es.getD block 0 : Nat) : Int) * (B : Int) = (limit : Int) := by rw [← hes]; simp
  intro fm
  induction fm with
  | zero =>
    intro sb e pos fuel h1 _ _ hf
    obtain ⟨fuel, rfl⟩ : ∃ k, fuel = k + 1 := ⟨fuel - 1, by omega⟩
    refine ⟨sb, (e : Int), (pos : Int), rfl, rfl, ?_⟩
    rw [whileLoop_succ]
    simp only [Gen.K08b.encodeECC200_body4]
    rw [idx_words_lt es block hblk]
    simp only [tryC_ok, hlim]
    have : ¬ ((e : Int) < (limit : Int)) := by omega
    simp only [this, decide_false, Bool.false_eq_true, if_false]
  | succ fm ih =>
    intro sb e pos fuel h1 h2 h3 hf
    obtain ⟨fuel, rfl⟩ : ∃ k, fuel = k + 1 := ⟨fuel - 1, by omega⟩
    rw [whileLoop_succ]
    simp only [Gen.K08b.encodeECC200_body4]
    rw [idx_words_lt es block hblk]
    simp only [tryC_ok, hlim]
    by_cases hel : e < limit
    · have hpos : pos < ecc.length := by
        by_cases hp : pos < ecc.length
        · exact hp
        · have : ecc.length - pos = 0 := by omega
          rw [this] at h2; omega
      have : ((e : Int) < (limit : Int)) := by omega
      simp only [this, decide_true, if_true]
      rw [idx_words_lt ecc pos hpos]
      simp only [tryC_ok]
      rw [setIdx_words_lt sb _ _ (base + e) (ecc.getD pos 0) (by omega) rfl (by omega)]
      simp only [tryC_ok]
      have e1 : (e : Int) + (B : Int) = ((e + B : Nat) : Int) := by omega
      have e2 : (pos : Int) + 1 = ((pos + 1 : Nat) : Int) := by omega
      rw [e1, e2]
      have hmul : (ecc.length - pos) * B = (ecc.length - (pos + 1)) * B + B := by
        have : ecc.length - pos = (ecc.length - (pos + 1)) + 1 := by omega
        rw [this, Nat.add_mul, Nat.one_mul]
      obtain ⟨sb', e', pos', hp, hl, hw⟩ := ih (sb.set (base + e) (ecc.getD pos 0)) (e + B) (pos + 1) fuel
        (by rw [Nat.add_mul, Nat.one_mul] at h1; omega) (by rw [hmul] at h2; omega) (by simp; omega) (by omega)
      refine ⟨sb', e', pos', ?_, by rw [hl]; simp, hw⟩
      rw [List.drop_eq_getElem_cons hpos]
      unfold DMEnc.putEcc
      simp only [hel, if_true, (by omega : base + e < sb.length)]
      have : ecc[pos] = ecc.getD pos 0 := by simp [List.getD_eq_getElem?_getD, List.getElem?_eq_getElem hpos]
      rw [this]; exact hp
    · refine ⟨sb, (e : Int), (pos : Int), ?_, rfl, ?_⟩
      · unfold DMEnc.putEcc; simp [hel]
      · have : ¬ ((e : Int) < (limit : Int)) := by omega
        simp only [this, decide_false, Bool.false_eq_true, if_false]

/-! ## the symbol descriptions the theorem covers -/

/-- what `ErrorCorrection_EncodeECC200` needs of a symbol description to run without a panic: a block count `B ≥ 1`
    (no division by zero), non-negative block data lengths, and — when there is more than one block — a per-block
    parity count that has a generator polynomial and whose `B` blocks fit the error codeword area -/
structure EccWF (s : DMEnc.SymbolInfo) (B : Nat) : Prop where
  count : s.interleavedBlockCount = .ok (B : Int)
  pos : 1 ≤ B
  dl : ∀ i, 0 ≤ s.dataLengthForInterleavedBlock i
  multi : B ≠ 1 → s.rsBlockError ∈ DMRef.parityLengths ∧ s.rsBlockError * B ≤ s.errorCodewords

/-- decidable form of `∃ B, EccWF s B` -/
def eccWFb (s : DMEnc.SymbolInfo) : Bool :=
  match s.interleavedBlockCount with
  | .ok b =>
    decide (1 ≤ b) && (s.special144 || decide (0 ≤ s.rsBlockData)) &&
      (b == 1 || (decide (s.rsBlockError ∈ DMRef.parityLengths) && decide (s.rsBlockError * b.toNat ≤ s.errorCodewords)))
  | .error _ => false

theorem eccWF_of_check (s : DMEnc.SymbolInfo) (h : eccWFb s = true) : ∃ B, EccWF s B := by
  unfold eccWFb at h
  cases hc : s.interleavedBlockCount with
  | error e => rw [hc] at h; cases h
  | ok b =>
    rw [hc] at h
    simp only [Bool.and_eq_true, Bool.or_eq_true, decide_eq_true_eq, beq_iff_eq] at h
    obtain ⟨⟨h1, h2⟩, h3⟩ := h
    refine ⟨b.toNat, ⟨by rw [Int.toNat_of_nonneg (by omega)]; exact hc, by omega, ?_, ?_⟩⟩
    · intro i
      unfold DMEnc.SymbolInfo.dataLengthForInterleavedBlock
      rcases h2 with h2 | h2
      · simp only [h2, if_true]; split <;> omega
      · cases s.special144
        · simpa using h2
        · simp only [if_true]; split <;> omega
    · intro hb
      rcases h3 with h3 | h3
      · exact absurd (by omega) hb
      · exact h3

/-- every row of the symbol table (30 symbols, in the order the library holds them) is covered -/
theorem symbols_eccWF : ∀ s ∈ DMEnc.symbols, ∃ B, EccWF s B := by
  intro s hs
  apply eccWF_of_check
  have : DMEnc.symbols.all eccWFb = true := by decide +kernel
  exact List.all_eq_true.mp this s hs

/-! ## the size arrays `dataSizes[i] = GetDataLengthForInterleavedBlock(i+1)`, `errorSizes[i] = GetErrorLength…(i+1)` -/

when_kernel Gzx.Gen.K08b.encodeECC200 in
theorem loop1_eq (s : DMEnc.SymbolInfo) (B : Nat) (hdl : ∀ i, 0 ≤ s.dataLengthForInterleavedBlock i) :
    ∃ dN eN : List Nat, dN.length = B ∧ eN.length = B ∧
      (∀ j, j < B → ((dN.getD j 0 : Nat) : Int) = s.dataLengthForInterleavedBlock (j + 1)) ∧
      (∀ j, j < B → eN.getD j 0 = s.rsBlockError) ∧
      loop (Gen.K08b.encodeECC200_body1 s.rsBlockData (s.rsBlockError : Int) (selDL s)) 1 (tripUp 0 (B : Int) 1) 0
        (words (List.replicate B 0), words (List.replicate B 0)) = .next (words dN, words eN) := by
  have htrip : tripUp 0 (B : Int) 1 = B := by rw [tripUp_one]; omega
  rw [htrip]
  obtain ⟨st', hloop, dN, eN, hst, h1, h2, h3, h4⟩ := loop_inv_up
    (Gen.K08b.encodeECC200_body1 s.rsBlockData (s.rsBlockError : Int) (selDL s))
    (fun i st => ∃ dN eN : List Nat, st = (words dN, words eN) ∧ dN.length = B ∧ eN.length = B ∧
      (∀ j, j < i → ((dN.getD j 0 : Nat) : Int) = s.dataLengthForInterleavedBlock (j + 1)) ∧
      (∀ j, j < i → eN.getD j 0 = s.rsBlockError)) 0 B
    (by
      intro i st hi ⟨dN, eN, hst, h1, h2, h3, h4⟩
      subst hst
      have ei : ((0 + i : Nat) : Int) + 1 = ((i + 1 : Nat) : Int) := by omega
      have hv : s.dataLengthForInterleavedBlock (i + 1) = (((s.dataLengthForInterleavedBlock (i + 1)).toNat : Nat) : Int) :=
        (Int.toNat_of_nonneg (hdl _)).symm
      refine ⟨(words (dN.set i (s.dataLengthForInterleavedBlock (i + 1)).toNat), words (eN.set i s.rsBlockError)), ?_,
        _, _, rfl, by simp [h1], by simp [h2], ?_, ?_⟩
      · simp only [Gen.K08b.encodeECC200_body1]
        rw [ei, k_getDataLength_eq s (i + 1)]
        simp only [tryC_ok]
        rw [setIdx_words_lt dN _ _ i _ (by omega) hv (by omega)]
        simp only [tryC_ok, Gen.K08b.getErrorLengthForInterleavedBlock]
        rw [setIdx_words_lt eN _ _ i s.rsBlockError (by omega) rfl (by omega)]
        simp only [tryC_ok]
      · intro j hj
        by_cases hji : j = i
        · subst hji
          rw [List.getD_eq_getElem?_getD, List.getElem?_set_self (by omega)]
          exact hv.symm
        · rw [List.getD_eq_getElem?_getD, List.getElem?_set_ne (Ne.symm hji), ← List.getD_eq_getElem?_getD]
          exact h3 j (by omega)
      · intro j hj
        by_cases hji : j = i
        · subst hji
          rw [List.getD_eq_getElem?_getD, List.getElem?_set_self (by omega)]; rfl
        · rw [List.getD_eq_getElem?_getD, List.getElem?_set_ne (Ne.symm hji), ← List.getD_eq_getElem?_getD]
          exact h4 j (by omega))
    B 0 (words (List.replicate B 0), words (List.replicate B 0)) (by omega)
    ⟨_, _, rfl, by simp, by simp, by intro j hj; omega, by intro j hj; omega⟩
  have e0 : ((0 + 0 : Nat) : Int) = 0 := rfl
  rw [e0] at hloop
  exact ⟨dN, eN, h1, h2, h3, h4, by rw [hloop, hst]⟩

/-! ## one block, all blocks -/

theorem strideFrom_bytes (B : Nat) (cws : List Nat) (b : Nat) (h : Bytes cws) : Bytes (DMEnc.strideFrom B cws b) := by
  unfold DMEnc.strideFrom DMRef.everyNth
  exact everyNthAux_bytes B _ 0 (fun x hx => h x (List.mem_of_mem_drop hx))

when_kernel Gzx.Gen.K08b.encodeECC200 in
/-- the `for block` loop against `DMEnc.blocksLoop` (which mirrors it with the same stride extraction, per-block
    `createECCBlock` and the write-back `putEcc` starting at `(block + B - cap%B) % B`) -/
theorem blocks_sim (s : DMEnc.SymbolInfo) (B : Nat) (wf : EccWF s B) (hB2 : B ≠ 1) (cws : List Nat) (hcb : Bytes cws)
    (hlen : cws.length = s.dataCapacity) (fuel : Nat) (hf : s.dataCapacity + s.errorCodewords + 3 ≤ fuel)
    (dN eN : List Nat) (hdl : dN.length = B) (hel : eN.length = B)
    (he : ∀ j, j < B → eN.getD j 0 = s.rsBlockError) (bk : List Int) :
    ∀ (k block : Nat) (sb : List Nat), block + k = B → sb.length = s.dataCapacity + s.errorCodewords →
      ∃ sb', DMEnc.blocksLoop DMRef.parityLengths DMRef.factorTable cws s true B k block sb = .ok sb' ∧
        loop (Gen.K08b.encodeECC200_body2 fuel (words DMEnc.log) (words DMEnc.alog) (words cws) (s.dataCapacity : Int) bk (B : Int)
          (words dN) (words eN)) 1 k (block : Int) (words sb) = .next (words sb') := by
  obtain ⟨hpl, hfit⟩ := wf.multi hB2
  have hBpos : 0 < B := wf.pos
  intro k
  induction k with
  | zero => intro block sb _ _; exact ⟨sb, rfl, rfl⟩
  | succ k ih =>
    intro block sb hbk hsb
    have hblk : block < B := by omega
    -- the model's step
    obtain ⟨ecc, hecc, heccl, _⟩ : ∃ e, DMEnc.createECCBlock DMRef.parityLengths DMRef.factorTable
        (DMEnc.strideFrom B cws block) s.rsBlockError = .ok e ∧ e.length = s.rsBlockError ∧ True := by
      rcases createECCBlock_res (DMEnc.strideFrom B cws block) s.rsBlockError with ⟨e, h1, h2, _⟩ | ⟨_, h2⟩
      · exact ⟨e, h1, h2, trivial⟩
      · exact absurd hpl h2
    have hstart : (block + B - s.dataCapacity % B) % B < B := Nat.mod_lt _ hBpos
    have hmulB : s.rsBlockError * B + 1 ≤ (s.rsBlockError * B + 1) * B := Nat.le_mul_of_pos_right _ hBpos
    obtain ⟨sb1, e', pos', hput, hsb1, hwl⟩ := putEcc_sim B (s.rsBlockError * B) s.dataCapacity hBpos ecc eN block
      (by omega) (by rw [he block hblk]) bk (s.rsBlockError * B + 1) sb ((block + B - s.dataCapacity % B) % B) 0 fuel
      (by omega) (by rw [Nat.sub_zero, heccl]; omega) (by omega)
      (by omega)
    obtain ⟨sb', hrec, hloop⟩ := ih (block + 1) sb1 (by omega) (by omega)
    refine ⟨sb', ?_, ?_⟩
    · rw [DMEnc.blocksLoop]
      have h0 : ¬ s.dataLengthForInterleavedBlock (block + 1) < 0 := by have := wf.dl (block + 1); omega
      simp only [hblk, if_true, h0, if_false, DMEnc.SymbolInfo.errorLengthForInterleavedBlock, hecc, List.drop_zero] at hput ⊢
      rw [hput]; exact hrec
    · rw [loop_succ]
      have hbody : Gen.K08b.encodeECC200_body2 fuel (words DMEnc.log) (words DMEnc.alog) (words cws) (s.dataCapacity : Int) bk (B : Int)
          (words dN) (words eN) (block : Int) (words sb) = .next (words sb1) := by
        simp only [Gen.K08b.encodeECC200_body2]
        rw [idx_words_lt dN block (by omega)]
        simp only [tryC_ok]
        have hmk : mk3u 0 ((dN.getD block 0 : Nat) : Int) = .ok (words []) := by
          unfold mk3u
          have : ¬ (((dN.getD block 0 : Nat) : Int) < 0) := by omega
          simp
        rw [hmk]
        simp only [tryC_ok]
        obtain ⟨d', htemp⟩ := temp_sim cws B hBpos fuel (cws.drop block) block [] rfl (by simp; omega)
        rw [hlen] at htemp
        rw [htemp]
        simp only [brk_thenC, List.nil_append]
        rw [idx_words_lt eN block (by omega), he block hblk]
        simp only [tryC_ok]
        have hce := k_createECCBlock_eq (DMEnc.strideFrom B cws block) (strideFrom_bytes B cws block hcb) s.rsBlockError
        unfold DMEnc.strideFrom at hce hecc
        rw [hecc] at hce
        rw [hce]
        simp only [expE, tryC_ok]
        have hm1 : GoM.mod (s.dataCapacity : Int) (B : Int) = .ok ((s.dataCapacity % B : Nat) : Int) := by
          unfold GoM.mod
          have : ¬ ((B : Int) = 0) := by omega
          simp only [this, if_false]
          rw [tmod_natCast]
        rw [hm1]
        simp only [tryC_ok]
        have hm2 : GoM.mod ((block : Int) + (B : Int) - ((s.dataCapacity % B : Nat) : Int)) (B : Int) =
            .ok (((block + B - s.dataCapacity % B) % B : Nat) : Int) := by
          unfold GoM.mod
          have : ¬ ((B : Int) = 0) := by omega
          simp only [this, if_false]
          have hlt : s.dataCapacity % B < B := Nat.mod_lt _ hBpos
          have : (block : Int) + (B : Int) - ((s.dataCapacity % B : Nat) : Int) = ((block + B - s.dataCapacity % B : Nat) : Int) := by omega
          rw [this, tmod_natCast]
        rw [hm2]
        simp only [tryC_ok]
        have e0 : (0 : Int) = ((0 : Nat) : Int) := rfl
        rw [e0, hwl]
        simp only [brk_thenC]
      rw [hbody]
      have e1 : (block : Int) + 1 = ((block + 1 : Nat) : Int) := by omega
      simp only [e1]
      exact hloop

/-! ## `ErrorCorrection_EncodeECC200` -/

/-- what the regenerated function must return for a result of the model: the length check returns `nil` with the
    WriterException, an unknown parity count (single-block branch) returns the copied data codewords with it -/
def expEnc (cws : List Nat) (cap : Nat) : Res (List Nat) → Res (List Int × Bool)
  | .ok e => .ok (words e, false)
  | .error .writer => .ok (if cws.length ≠ cap then [] else words cws, true)
  | .error e => .error e

when_kernel Gzx.Gen.K08b.encodeECC200 in
/-- `ErrorCorrection_EncodeECC200(codewords, symbolInfo)` = `DMEnc.encodeECC200` over the reference tables: for every
    symbol description covered by `EccWF` (all 30 table rows: `symbols_eccWF`), EVERY byte vector of any length and
    every fuel above `dataCapacity + errorCodewords + 3` (the two stride loops have a non-constant step): the length
    check, the buffer `make(0, cap+err)` / `append` / `sb[:cap(sb)]`, the single-block branch, the size arrays, the
    stride extraction of each block, its parity, and the interleaved write-back starting at `(block + B - cap%B) % B`
    (144x144: first error codeword belongs to block 9).  With Properties/C08 `encodeECC200_eq_reference` the regenerated
    function returns the ISO/IEC 16022 codeword sequence. -/
theorem k_encodeECC200_eq (s : DMEnc.SymbolInfo) (B : Nat) (wf : EccWF s B) (cws : List Nat) (hcb : Bytes cws)
    (fuel : Nat) (hf : s.dataCapacity + s.errorCodewords + 3 ≤ fuel) :
    Gen.K08b.encodeECC200 fuel (words DMEnc.log) (words DMEnc.alog) (words cws) (s.dataCapacity : Int) (s.errorCodewords : Int)
        s.rsBlockData (s.rsBlockError : Int) (selBC s) (selDL s) =
      expEnc cws s.dataCapacity (DMEnc.encodeECC200 DMRef.parityLengths DMRef.factorTable cws s) := by
  simp only [Gen.K08b.encodeECC200]
  unfold DMEnc.encodeECC200
  rw [len_words, natCast_bne]
  by_cases hlen : cws.length = s.dataCapacity
  · have h1 : (cws.length != s.dataCapacity) = false := by simp [hlen]
    have h2 : ¬ cws.length ≠ s.dataCapacity := by omega
    simp only [h1, Bool.false_eq_true, if_false, h2]
    have hmk : mk3 0 ((s.dataCapacity : Int) + (s.errorCodewords : Int)) =
        .ok (words [], words (List.replicate (s.dataCapacity + s.errorCodewords) 0)) := by
      unfold mk3
      have a1 : ¬ ((0 : Int) < 0) := by omega
      have a2 : ¬ ((s.dataCapacity : Int) + (s.errorCodewords : Int) < 0) := by omega
      have a3 : ((s.dataCapacity : Int) + (s.errorCodewords : Int)).toNat = s.dataCapacity + s.errorCodewords := by omega
      simp [a2, a3, words]
    rw [hmk]
    simp only [tryR_ok]
    have happ : appendT (words []) (words (List.replicate (s.dataCapacity + s.errorCodewords) 0)) (words cws) =
        .ok (words cws, words (List.replicate s.errorCodewords 0)) := by
      unfold appendT
      have : (words cws).length ≤ (words (List.replicate (s.dataCapacity + s.errorCodewords) 0)).length := by
        simp [words]; omega
      simp only [this, if_true]
      simp [words, hlen]
    rw [happ]
    simp only [tryR_ok]
    rw [k_getInterleavedBlockCount_eq, wf.count]
    simp only [tryR_ok]
    rw [show (((B : Int) == 1) : Bool) = (B == 1) from natCast_beq B 1]
    by_cases hB1 : B = 1
    · subst hB1
      simp only [beq_self_eq_true, if_true]
      rw [k_createECCBlock_eq cws hcb s.errorCodewords]
      rcases createECCBlock_res cws s.errorCodewords with ⟨e, h1, h2, _⟩ | ⟨h1, _⟩
      · rw [h1]
        simp only [expE, tryR_ok, bne_self_eq_false, Bool.false_eq_true, if_false]
        have happ2 : appendT (words cws) (words (List.replicate s.errorCodewords 0)) (words e) =
            .ok (words (cws ++ e), words []) := by
          unfold appendT
          have : (words e).length ≤ (words (List.replicate s.errorCodewords 0)).length := by simp [words]; omega
          simp only [this, if_true]
          simp [words, h2]
        rw [happ2]
        simp [expEnc]
      · rw [h1]
        simp [expE, expEnc, hlen]
    · have hb : (B == 1) = false := by simp [hB1]
      have hne : ¬ ((B : Int) = 1) := by omega
      have hnn : ¬ ((B : Int) < 0) := by omega
      simp only [hb, Bool.false_eq_true, if_false, hne, hnn, Int.toNat_natCast]
      have hres : reslice (words cws) (words (List.replicate s.errorCodewords 0)) 0
          (len (words cws) + len (words (List.replicate s.errorCodewords 0))) =
          .ok (words (cws ++ List.replicate s.errorCodewords 0), words []) := by
        unfold reslice
        simp only [len_words]
        have : (0 : Int) ≤ 0 ∧ (0 : Int) ≤ (cws.length : Int) + ((List.replicate s.errorCodewords 0).length : Int) ∧
            (cws.length : Int) + ((List.replicate s.errorCodewords 0).length : Int) ≤
              (((words cws).length + (words (List.replicate s.errorCodewords 0)).length : Nat) : Int) := by
          refine ⟨by omega, by omega, ?_⟩
          simp [words]
        simp only [this, and_self, if_true]
        have e1 : ((cws.length : Int) + ((List.replicate s.errorCodewords 0).length : Int)).toNat =
            (words cws ++ words (List.replicate s.errorCodewords 0)).length := by
          have : (words cws ++ words (List.replicate s.errorCodewords 0)).length =
              cws.length + (List.replicate s.errorCodewords 0).length := by simp [words]
          rw [this]; omega
        rw [e1, List.take_length, List.drop_length]
        simp [words]
      rw [hres]
      simp only [tryR_ok]
      rw [mk_words' B]
      simp only [tryR_ok]
      obtain ⟨dN, eN, hdl, hel, _, he, hl1⟩ := loop1_eq s B wf.dl
      rw [hl1]
      simp only [next_thenR]
      obtain ⟨sb', hmodel, hloop⟩ := blocks_sim s B wf hB1 cws hcb hlen fuel hf dN eN hdl hel he (words []) B 0
        (cws ++ List.replicate s.errorCodewords 0) (by omega) (by simp [hlen])
      have htrip : tripUp 0 (B : Int) 1 = B := by rw [tripUp_one]; omega
      have e0 : ((0 : Nat) : Int) = 0 := rfl
      rw [e0] at hloop
      rw [htrip, hloop, hmodel]
      simp [expEnc]
  · have h1 : (cws.length != s.dataCapacity) = true := by simp [hlen]
    simp [h1, hlen, expEnc]

/-- non-vacuity: the 144x144 symbol (10 blocks of two lengths) satisfies `EccWF` -/
example : ∃ s ∈ DMEnc.symbols, s.special144 = true ∧ EccWF s 10 := by
  obtain ⟨B, h⟩ := symbols_eccWF (DMEnc.symbols.getLast (by decide)) (List.getLast_mem _)
  refine ⟨_, List.getLast_mem (by decide), by decide +kernel, ?_⟩
  have : B = 10 := by
    have := h.count
    have h10 : (DMEnc.symbols.getLast (by decide)).interleavedBlockCount = .ok 10 := by decide +kernel
    rw [h10] at this
    injection this with this
    omega
  subst this; exact h

end Gzx.Obligations.K08b
