/-
  K08bTab (first part of K08b: tables) — the Data Matrix ECC 200 error-correction loops of datamatrix/encoder/error_correction.go regenerated from /repo on
  every run (`Gzx.Gen.K08b`, translator kind `funcm` with the subset of translator/ext_dmmirror.go) and proved equal to
  the hand-written model `Gzx.DMEnc` (Model/DMEncoder.lean) — the model that Properties/C08.lean relates to the
  ISO/IEC 16022 reference.  Every theorem is for ALL byte vectors.
  Conventions: `words s` is the Go `[]byte` / `[]int` of a model list; a Go `error` result is `true` = failed.
-/
import Gzx.Gen.K08b
import Gzx.KernelGuard
import Gzx.Proofs.DMTie
namespace Gzx.Obligations.K08b
open Gzx Gzx.GoM Gzx.GoVal

/-! ## `init()`: the log / antilog tables -/

when_kernel Gzx.Gen.K08b.eccInit in
/-- the regenerated `init()` fills `log` and `alog` with exactly the model's tables (`DMEnc.log`, `DMEnc.alog`: the
    tables `tabMul` reads, proved to be GF(256)/0x12D multiplication in Properties/C08 `tabMul_is_field_mul`); the
    kernels below take the two tables as parameters and are instantiated with these -/
theorem k_eccInit_eq : Gen.K08b.eccInit = .ok (words DMEnc.log, words DMEnc.alog) := by decide +kernel

theorem log_length : DMEnc.log.length = 256 := by decide +kernel
theorem alog_length : DMEnc.alog.length = 255 := by decide +kernel

/-! ## `createECCBlock` -/

when_kernel Gzx.Gen.K08b.createECCBlock in
/-- the inlined `factorSets` is the reference list of parity lengths -/
theorem k_factorSets_eq : Gen.K08b.tbl_factorSets = words DMRef.parityLengths := by decide +kernel

when_kernel Gzx.Gen.K08b.createECCBlock in
/-- the inlined `factors` is the reference factor table (coefficients of ∏(x - 2^i)) -/
theorem k_factors_eq : Gen.K08b.tbl_factors = DMRef.factorTable.map words := by decide +kernel

/-- every row of the reference factor table has the length its parity count says, holds bytes, and no count is 0 -/
theorem factor_rows : ∀ t : Fin 16, (DMRef.factorTable.getD t []).length = DMRef.parityLengths.getD t 0 ∧
    (DMRef.factorTable.getD t []).all (· < 256) = true ∧ 0 < DMRef.parityLengths.getD t 0 := by decide +kernel

/-- what the regenerated `createECCBlock` must return for a result of the model: `WriterException` is the Go error
    (the data codewords are handed back), other faults are panics -/
def expE (cws : List Nat) : Res (List Nat) → Res (List Int × Bool)
  | .ok e => .ok (words e, false)
  | .error .writer => .ok (words cws, true)
  | .error e => .error e

end Gzx.Obligations.K08b
