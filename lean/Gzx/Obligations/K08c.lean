/-
  K08c (work package kfinish) — the Data Matrix module placement `DefaultPlacement` (datamatrix/encoder/default_placement.go):
  `GetBit / setBit / hasBit / module / utah / corner1-4 / Place`, regenerated from /repo on every run (`Gzx.Gen.K08bPlace`,
  translator kind `funcm` with the dmmirror subset) and proved to SIMULATE the reference program of ISO/IEC 16022 Annex F
  (`DMRef.placeState`, Ref/DMPlacement.lean): as long as the reference program neither leaves the mapping matrix nor runs out of
  codewords, the regenerated function does not panic and its `bits` array is the picture `K08c.paint` of the reference state
  (invariant `K08c.Inv`: same occupied cells, every assigned cell holds the bit of its codeword).  `k_place_eq` is the whole
  `Place()`: on the fresh array it returns `placeBits` = the reference mapping matrix `DMRef.mappingBits` read through `GetBit`
  (`placeBits_getBit`).  All theorems are for every matrix size; the side condition "the reference program stays inside" is the
  theorem `placement_total_injective` of Properties/C08 for the 30 sizes of Table 7.
-/
import Gzx.Gen.K08bPlace
import Gzx.KernelGuard
import Gzx.Proofs.K08c
namespace Gzx.Obligations.K08c
open Gzx Gzx.GoM Gzx.GoVal Gzx.DMRef Gzx.K08c

/-! ## `GetBit`, `setBit`, `hasBit` -/

when_kernel Gzx.Gen.K08bPlace.getBit in
/-- `GetBit(col, row)`: the checked read of cell `row*numcols+col`, compared with 1 -/
theorem k_getBit_eq (ncol : Nat) (B : List Int) (col row : Int) (c : Nat) (hc : row * (ncol : Int) + col = c) (hl : c < B.length) :
    Gen.K08bPlace.getBit ncol B col row = .ok (B[c] == 1) := by
  simp only [Gen.K08bPlace.getBit]
  rw [hc, idx_ofNat _ _ hl]; rfl

when_kernel Gzx.Gen.K08bPlace.hasBit in
/-- `hasBit(col, row)`: the cell is assigned (0 or 1, not -1) -/
theorem k_hasBit_eq (ncol : Nat) (B : List Int) (col row : Int) (c : Nat) (hc : row * (ncol : Int) + col = c) (hl : c < B.length) :
    Gen.K08bPlace.hasBit ncol B col row = .ok (decide (B[c] ≥ 0)) := by
  simp only [Gen.K08bPlace.hasBit]
  rw [hc, idx_ofNat _ _ hl]; rfl

when_kernel Gzx.Gen.K08bPlace.hasBit in
/-- a cell outside the array: index panic -/
theorem k_hasBit_oob (ncol : Nat) (B : List Int) (col row : Int)
    (h : row * (ncol : Int) + col < 0 ∨ (B.length : Int) ≤ row * (ncol : Int) + col) :
    Gen.K08bPlace.hasBit ncol B col row = .error oob := by
  simp only [Gen.K08bPlace.hasBit]
  rcases h with h | h
  · rw [idx_neg _ _ h]; rfl
  · rw [idx_ge _ _ h]; rfl

when_kernel Gzx.Gen.K08bPlace.setBit in
/-- `setBit(col, row, bit)`: the checked write of 1 / 0 -/
theorem k_setBit_eq (ncol : Nat) (B : List Int) (col row : Int) (bit : Bool) (c : Nat) (hc : row * (ncol : Int) + col = c)
    (hl : c < B.length) :
    Gen.K08bPlace.setBit ncol B col row bit = .ok (B.set c (if bit then 1 else 0)) := by
  simp only [Gen.K08bPlace.setBit]
  rw [hc, setIdx_nat _ _ _ hl]
  cases bit <;> rfl

/-! ## `module` -/

theorem tmod8_cast (n : Nat) : Int.tmod ((n : Int) + 4) 8 = (((n + 4) % 8 : Nat) : Int) := by
  rw [Int.tmod_eq_emod_of_nonneg (by omega)]; omega

theorem bit_mask (bit : Nat) (h1 : 1 ≤ bit) (h8 : bit ≤ 8) :
    wrap 8 (ishl 1 (wrap 64 (8 - (bit : Int)))) = ((1 <<< (8 - bit) : Nat) : Int) := by
  have e : (8 : Int) - (bit : Int) = ((8 - bit : Nat) : Int) := by omega
  have h64 : ((8 - bit : Nat) : Int) < 2 ^ 64 := by
    have : ((8 - bit : Nat) : Int) ≤ 8 := by omega
    have : (8 : Int) < 2 ^ 64 := by decide
    omega
  rw [e, wrap_of_lt 64 _ (by omega) h64, ishl_one, wrap_natCast]
  congr 1
  apply Nat.mod_eq_of_lt
  rw [Nat.one_shiftLeft]
  calc 2 ^ (8 - bit) ≤ 2 ^ 7 := Nat.pow_le_pow_right (by decide) (by omega)
    _ < 2 ^ 8 := by decide

when_kernel Gzx.Gen.K08bPlace.module in
/-- `module(row, col, pos, bit)`: the two wrap-around rules of Annex F, the checked read of `codewords[pos]`, the mask
    `1 << (8-bit)` and the checked write of the cell — one assignment of the reference program -/
theorem k_module_eq (cw : List Nat) (nrow ncol : Nat) (B : List Int) (row col : Int) (pos bit : Nat)
    (h1 : 1 ≤ bit) (h8 : bit ≤ 8) (hpos : pos < cw.length) (cell : Nat)
    (hc : cellOf nrow ncol (wrapRC nrow ncol row col).1 (wrapRC nrow ncol row col).2 = some cell) (hl : cell < B.length) :
    Gen.K08bPlace.module (bytes cw) nrow ncol B row col pos bit = .ok (B.set cell (bitVal cw (8 * pos + (bit - 1)))) := by
  simp only [Gen.K08bPlace.module, tmod8_cast]
  have hw : wrapRC nrow ncol row col =
      ((if (if row < 0 then (row + (nrow : Int), col + (4 - (((nrow + 4) % 8 : Nat) : Int))) else (row, col)).2 < 0 then
          ((if row < 0 then (row + (nrow : Int), col + (4 - (((nrow + 4) % 8 : Nat) : Int))) else (row, col)).1 +
              (4 - (((ncol + 4) % 8 : Nat) : Int)),
            (if row < 0 then (row + (nrow : Int), col + (4 - (((nrow + 4) % 8 : Nat) : Int))) else (row, col)).2 + (ncol : Int))
        else (if row < 0 then (row + (nrow : Int), col + (4 - (((nrow + 4) % 8 : Nat) : Int))) else (row, col)))) := rfl
  -- the kernel's two `if`s compute the same pair (components swapped in the second one)
  have hr : (if decide ((if decide (row < 0) = true then (row + (nrow : Int), col + (4 - (((nrow + 4) % 8 : Nat) : Int))) else (row, col)).2 < 0) = true
        then ((if decide (row < 0) = true then (row + (nrow : Int), col + (4 - (((nrow + 4) % 8 : Nat) : Int))) else (row, col)).1 +
                (4 - (((ncol + 4) % 8 : Nat) : Int)),
              (if decide (row < 0) = true then (row + (nrow : Int), col + (4 - (((nrow + 4) % 8 : Nat) : Int))) else (row, col)).2 +
                (ncol : Int))
        else ((if decide (row < 0) = true then (row + (nrow : Int), col + (4 - (((nrow + 4) % 8 : Nat) : Int))) else (row, col)).1,
              (if decide (row < 0) = true then (row + (nrow : Int), col + (4 - (((nrow + 4) % 8 : Nat) : Int))) else (row, col)).2)) =
      wrapRC nrow ncol row col := by
    rw [hw]
    by_cases hrow : row < 0 <;> simp only [hrow, decide_true, decide_false, if_true, if_false, Bool.false_eq_true]
    · by_cases hcol : col + (4 - (((nrow + 4) % 8 : Nat) : Int)) < 0 <;> simp [hcol]
    · by_cases hcol : col < 0 <;> simp [hcol]
  rw [hr, bytes, idx_bytes, List.getElem?_eq_getElem hpos]
  simp only [tryR_ok]
  rw [bit_mask bit h1 h8, iand_natCast, natCast_bne_zero,
    k_setBit_eq ncol B _ _ _ cell (cell_cast hc) hl]
  congr 2
  unfold bitVal
  have e1 : (8 * pos + (bit - 1)) / 8 = pos := by omega
  have e2 : 7 - (8 * pos + (bit - 1)) % 8 = 8 - bit := by omega
  rw [e1, e2, List.getD_eq_getElem?_getD, List.getElem?_eq_getElem hpos]
  simp

/-! ## `module`, `utah`, `corner1-4` simulate the reference program -/

variable {nrow ncol : Nat} {cw : List Nat}

when_kernel Gzx.Gen.K08bPlace.module in
/-- one assignment: `module` on related states yields related states (while the reference program is fine) -/
theorem module_sim {B : List Int} {st : PState} (hI : Inv nrow ncol cw B st) (pos bit : Nat) (h1 : 1 ≤ bit) (h8 : bit ≤ 8)
    (hlen : st.seq.length = 8 * pos + (bit - 1)) (row col : Int) (hg : Good cw.length (DMRef.module nrow ncol st row col)) :
    ∃ B', Gen.K08bPlace.module (bytes cw) nrow ncol B row col pos bit = .ok B' ∧
      Inv nrow ncol cw B' (DMRef.module nrow ncol st row col) ∧
      (DMRef.module nrow ncol st row col).seq.length = 8 * pos + bit := by
  rw [module_eq] at hg ⊢
  cases hc : cellOf nrow ncol (wrapRC nrow ncol row col).1 (wrapRC nrow ncol row col).2 with
  | none => rw [hc] at hg; exact absurd hg not_good_bad
  | some cell =>
    rw [hc] at hg
    have hl2 := hg.2
    simp only [List.length_cons] at hl2
    have hpos : pos < cw.length := by omega
    have hcl : cell < B.length := by rw [hI.len]; exact cell_lt hc
    refine ⟨_, k_module_eq cw nrow ncol B row col pos bit h1 h8 hpos cell hc hcl, ?_, ?_⟩
    · rw [← hlen]; exact inv_assign hI cell (cell_lt hc)
    · simp only [List.length_cons]; omega

when_kernel Gzx.Gen.K08bPlace.module in
/-- a run of `module` calls with consecutive bit numbers (what `utah` and the corner functions are) -/
def chainK (cws : List Int) (nrows ncols pos : Int) : List (Int × Int) → Int → List Int → Res (List Int)
  | [], _, B => .ok B
  | (r, c) :: rest, bit, B =>
    tryR (Gen.K08bPlace.module cws nrows ncols B r c pos bit) fun B' => chainK cws nrows ncols pos rest (bit + 1) B'

when_kernel Gzx.Gen.K08bPlace.module in
theorem chain_sim (pos : Nat) : ∀ (cells : List (Int × Int)) (bit : Nat) (B : List Int) (st : PState),
    Inv nrow ncol cw B st → 1 ≤ bit → bit - 1 + cells.length ≤ 8 → st.seq.length = 8 * pos + (bit - 1) →
    Good cw.length (moduleList nrow ncol st cells) →
    ∃ B', chainK (bytes cw) nrow ncol pos cells bit B = .ok B' ∧ Inv nrow ncol cw B' (moduleList nrow ncol st cells) ∧
      (moduleList nrow ncol st cells).seq.length = 8 * pos + (bit - 1) + cells.length := by
  intro cells
  induction cells with
  | nil => intro bit B st hI _ _ hlen _; exact ⟨B, rfl, hI, by simpa [moduleList] using hlen⟩
  | cons rc rest ih =>
    intro bit B st hI h1 h8 hlen hg
    obtain ⟨r, c⟩ := rc
    simp only [List.length_cons] at h8
    have hg1 : Good cw.length (DMRef.module nrow ncol st r c) := good_moduleList rest _ hg
    obtain ⟨B1, e1, I1, l1⟩ := module_sim hI pos bit h1 (by omega) hlen r c hg1
    obtain ⟨B2, e2, I2, l2⟩ := ih (bit + 1) B1 (DMRef.module nrow ncol st r c) I1 (by omega) (by omega)
      (by rw [l1]; omega) hg
    refine ⟨B2, ?_, I2, ?_⟩
    · simp only [chainK, e1, tryR_ok]
      rw [show ((bit : Int) + 1) = ((bit + 1 : Nat) : Int) by omega]
      exact e2
    · show (moduleList nrow ncol (DMRef.module nrow ncol st r c) rest).seq.length = _
      rw [l2]; simp only [List.length_cons]; omega

when_kernel Gzx.Gen.K08bPlace.utah in
theorem utah_chain (cws : List Int) (nrows ncols : Int) (B : List Int) (row col pos : Int) :
    Gen.K08bPlace.utah cws nrows ncols B row col pos = chainK cws nrows ncols pos (utahCells row col) 1 B := rfl

when_kernel Gzx.Gen.K08bPlace.corner1 in
theorem corner1_chain (cws : List Int) (B : List Int) (pos : Int) :
    Gen.K08bPlace.corner1 cws nrow ncol B pos = chainK cws nrow ncol pos (corner1Cells nrow ncol) 1 B := rfl
when_kernel Gzx.Gen.K08bPlace.corner2 in
theorem corner2_chain (cws : List Int) (B : List Int) (pos : Int) :
    Gen.K08bPlace.corner2 cws nrow ncol B pos = chainK cws nrow ncol pos (corner2Cells nrow ncol) 1 B := rfl
when_kernel Gzx.Gen.K08bPlace.corner3 in
theorem corner3_chain (cws : List Int) (B : List Int) (pos : Int) :
    Gen.K08bPlace.corner3 cws nrow ncol B pos = chainK cws nrow ncol pos (corner3Cells nrow ncol) 1 B := rfl
when_kernel Gzx.Gen.K08bPlace.corner4 in
theorem corner4_chain (cws : List Int) (B : List Int) (pos : Int) :
    Gen.K08bPlace.corner4 cws nrow ncol B pos = chainK cws nrow ncol pos (corner4Cells nrow ncol) 1 B := rfl

when_kernel Gzx.Gen.K08bPlace.module in
/-- a symbol character (eight `module` calls, bits 1..8, then `pos++`) placed under a guard -/
theorem char_sim {B : List Int} {st : PState} (hI : Inv nrow ncol cw B st) (pos : Nat) (hlen : st.seq.length = 8 * pos)
    (g : Bool) (cells : List (Int × Int)) (h8 : cells.length = 8) (K : Res (List Int))
    (hK : K = chainK (bytes cw) nrow ncol pos cells 1 B)
    (hg : Good cw.length (if g = true then moduleList nrow ncol st cells else st)) :
    ∃ B' pos', ((if g = true then tryC K fun t => Ctl.next (t, (pos : Int) + 1) else Ctl.next (B, (pos : Int)) :
          Ctl (List Int × Int) (List Int))) = .next (B', ((pos' : Nat) : Int)) ∧
      Inv nrow ncol cw B' (if g = true then moduleList nrow ncol st cells else st) ∧
      (if g = true then moduleList nrow ncol st cells else st).seq.length = 8 * pos' := by
  cases g with
  | false => exact ⟨B, pos, rfl, hI, hlen⟩
  | true =>
    simp only [if_true] at hg ⊢
    obtain ⟨B', e, I', l'⟩ := chain_sim pos cells 1 B st hI (Nat.le_refl 1) (by omega) (by simpa using hlen) hg
    refine ⟨B', pos + 1, ?_, I', by rw [l', h8]; omega⟩
    have e' : chainK (bytes cw) nrow ncol pos cells 1 B = .ok B' := e
    rw [hK, e']; simp only [tryC_ok]
    congr 2

end Gzx.Obligations.K08c
