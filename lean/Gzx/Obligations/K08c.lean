/-
  K08c (work package kfinish) — the Data Matrix module placement `DefaultPlacement` (datamatrix/encoder/default_placement.go):
  `GetBit / setBit / hasBit / module / utah / corner1-4 / Place`, regenerated from /repo on every run (`Gzx.Gen.K08bPlace`,
  translator kind `funcm` with the dmmirror subset) and proved to SIMULATE the reference program of ISO/IEC 16022 Annex F
  (`DMRef.placeState`, Ref/DMPlacement.lean): as long as the reference program neither leaves the mapping matrix nor runs out of
  codewords, the regenerated function does not panic and its `bits` array is the picture `K08c.paint` of the reference state
  (invariant `K08c.Inv`: same occupied cells, every assigned cell holds the bit of its codeword).  `k_place_eq` is the whole
  `Place()`: on the fresh array it returns `placeBits` = the reference mapping matrix `DMRef.mappingBits` read through `GetBit`
  (`placeBits_getBit`).  All theorems are for every matrix size; the side condition "the reference program stays inside" is the
  theorem `placement_total_injective` of Properties/C08 for the 30 sizes of Table 7.
-/
import Gzx.Gen.K08bPlace
import Gzx.KernelGuard
import Gzx.Proofs.K08c
namespace Gzx.Obligations.K08c
open Gzx Gzx.GoM Gzx.GoVal Gzx.DMRef Gzx.K08c

/-! ## `GetBit`, `setBit`, `hasBit` -/

when_kernel Gzx.Gen.K08bPlace.getBit in
/-- `GetBit(col, row)`: the checked read of cell `row*numcols+col`, compared with 1 -/
theorem k_getBit_eq (ncol : Nat) (B : List Int) (col row : Int) (c : Nat) (hc : row * (ncol : Int) + col = c) (hl : c < B.length) :
    Gen.K08bPlace.getBit ncol B col row = .ok (B[c] == 1) := by
  simp only [Gen.K08bPlace.getBit]
  rw [hc, idx_ofNat _ _ hl]; rfl

when_kernel Gzx.Gen.K08bPlace.hasBit in
/-- `hasBit(col, row)`: the cell is assigned (0 or 1, not -1) -/
theorem k_hasBit_eq (ncol : Nat) (B : List Int) (col row : Int) (c : Nat) (hc : row * (ncol : Int) + col = c) (hl : c < B.length) :
    Gen.K08bPlace.hasBit ncol B col row = .ok (decide (B[c] ≥ 0)) := by
  simp only [Gen.K08bPlace.hasBit]
  rw [hc, idx_ofNat _ _ hl]; rfl

when_kernel Gzx.Gen.K08bPlace.hasBit in
/-- a cell outside the array: index panic -/
theorem k_hasBit_oob (ncol : Nat) (B : List Int) (col row : Int)
    (h : row * (ncol : Int) + col < 0 ∨ (B.length : Int) ≤ row * (ncol : Int) + col) :
    Gen.K08bPlace.hasBit ncol B col row = .error oob := by
  simp only [Gen.K08bPlace.hasBit]
  rcases h with h | h
  · rw [idx_neg _ _ h]; rfl
  · rw [idx_ge _ _ h]; rfl

when_kernel Gzx.Gen.K08bPlace.setBit in
/-- `setBit(col, row, bit)`: the checked write of 1 / 0 -/
theorem k_setBit_eq (ncol : Nat) (B : List Int) (col row : Int) (bit : Bool) (c : Nat) (hc : row * (ncol : Int) + col = c)
    (hl : c < B.length) :
    Gen.K08bPlace.setBit ncol B col row bit = .ok (B.set c (if bit then 1 else 0)) := by
  simp only [Gen.K08bPlace.setBit]
  rw [hc, setIdx_nat _ _ _ hl]
  cases bit <;> rfl

/-! ## `module` -/

theorem tmod8_cast (n : Nat) : Int.tmod ((n : Int) + 4) 8 = (((n + 4) % 8 : Nat) : Int) := by
  rw [Int.tmod_eq_emod_of_nonneg (by omega)]; omega

theorem bit_mask (bit : Nat) (h1 : 1 ≤ bit) (h8 : bit ≤ 8) :
    wrap 8 (ishl 1 (wrap 64 (8 - (bit : Int)))) = ((1 <<< (8 - bit) : Nat) : Int) := by
  have e : (8 : Int) - (bit : Int) = ((8 - bit : Nat) : Int) := by omega
  have h64 : ((8 - bit : Nat) : Int) < 2 ^ 64 := by
    have : ((8 - bit : Nat) : Int) ≤ 8 := by omega
    have : (8 : Int) < 2 ^ 64 := by decide
    omega
  rw [e, wrap_of_lt 64 _ (by omega) h64, ishl_one, wrap_natCast]
  congr 1
  apply Nat.mod_eq_of_lt
  rw [Nat.one_shiftLeft]
  calc 2 ^ (8 - bit) ≤ 2 ^ 7 := Nat.pow_le_pow_right (by decide) (by omega)
    _ < 2 ^ 8 := by decide

when_kernel Gzx.Gen.K08bPlace.module in
/-- `module(row, col, pos, bit)`: the two wrap-around rules of Annex F, the checked read of `codewords[pos]`, the mask
    `1 << (8-bit)` and the checked write of the cell — one assignment of the reference program -/
theorem k_module_eq (cw : List Nat) (nrow ncol : Nat) (B : List Int) (row col : Int) (pos bit : Nat)
    (h1 : 1 ≤ bit) (h8 : bit ≤ 8) (hpos : pos < cw.length) (cell : Nat)
    (hc : cellOf nrow ncol (wrapRC nrow ncol row col).1 (wrapRC nrow ncol row col).2 = some cell) (hl : cell < B.length) :
    Gen.K08bPlace.module (bytes cw) nrow ncol B row col pos bit = .ok (B.set cell (bitVal cw (8 * pos + (bit - 1)))) := by
  simp only [Gen.K08bPlace.module, tmod8_cast]
  have hw : wrapRC nrow ncol row col =
      ((if (if row < 0 then (row + (nrow : Int), col + (4 - (((nrow + 4) % 8 : Nat) : Int))) else (row, col)).2 < 0 then
          ((if row < 0 then (row + (nrow : Int), col + (4 - (((nrow + 4) % 8 : Nat) : Int))) else (row, col)).1 +
              (4 - (((ncol + 4) % 8 : Nat) : Int)),
            (if row < 0 then (row + (nrow : Int), col + (4 - (((nrow + 4) % 8 : Nat) : Int))) else (row, col)).2 + (ncol : Int))
        else (if row < 0 then (row + (nrow : Int), col + (4 - (((nrow + 4) % 8 : Nat) : Int))) else (row, col)))) := rfl
  -- the kernel's two `if`s compute the same pair (components swapped in the second one)
  have hr : (if decide ((if decide (row < 0) = true then (row + (nrow : Int), col + (4 - (((nrow + 4) % 8 : Nat) : Int))) else (row, col)).2 < 0) = true
        then ((if decide (row < 0) = true then (row + (nrow : Int), col + (4 - (((nrow + 4) % 8 : Nat) : Int))) else (row, col)).1 +
                (4 - (((ncol + 4) % 8 : Nat) : Int)),
              (if decide (row < 0) = true then (row + (nrow : Int), col + (4 - (((nrow + 4) % 8 : Nat) : Int))) else (row, col)).2 +
                (ncol : Int))
        else ((if decide (row < 0) = true then (row + (nrow : Int), col + (4 - (((nrow + 4) % 8 : Nat) : Int))) else (row, col)).1,
              (if decide (row < 0) = true then (row + (nrow : Int), col + (4 - (((nrow + 4) % 8 : Nat) : Int))) else (row, col)).2)) =
      wrapRC nrow ncol row col := by
    rw [hw]
    by_cases hrow : row < 0 <;> simp only [hrow, decide_true, decide_false, if_true, if_false, Bool.false_eq_true]
    · by_cases hcol : col + (4 - (((nrow + 4) % 8 : Nat) : Int)) < 0 <;> simp [hcol]
    · by_cases hcol : col < 0 <;> simp [hcol]
  rw [hr, bytes, idx_bytes, List.getElem?_eq_getElem hpos]
  simp only [tryR_ok]
  rw [bit_mask bit h1 h8, iand_natCast, natCast_bne_zero,
    k_setBit_eq ncol B _ _ _ cell (cell_cast hc) hl]
  congr 2
  unfold bitVal
  have e1 : (8 * pos + (bit - 1)) / 8 = pos := by omega
  have e2 : 7 - (8 * pos + (bit - 1)) % 8 = 8 - bit := by omega
  rw [e1, e2, List.getD_eq_getElem?_getD, List.getElem?_eq_getElem hpos]
  simp

/-! ## `module`, `utah`, `corner1-4` simulate the reference program -/

variable {nrow ncol : Nat} {cw : List Nat}

when_kernel Gzx.Gen.K08bPlace.module in
/-- one assignment: `module` on related states yields related states (while the reference program is fine) -/
theorem module_sim {B : List Int} {st : PState} (hI : Inv nrow ncol cw B st) (pos bit : Nat) (h1 : 1 ≤ bit) (h8 : bit ≤ 8)
    (hlen : st.seq.length = 8 * pos + (bit - 1)) (row col : Int) (hg : Good cw.length (DMRef.module nrow ncol st row col)) :
    ∃ B', Gen.K08bPlace.module (bytes cw) nrow ncol B row col pos bit = .ok B' ∧
      Inv nrow ncol cw B' (DMRef.module nrow ncol st row col) ∧
      (DMRef.module nrow ncol st row col).seq.length = 8 * pos + bit := by
  rw [module_eq] at hg ⊢
  cases hc : cellOf nrow ncol (wrapRC nrow ncol row col).1 (wrapRC nrow ncol row col).2 with
  | none => rw [hc] at hg; exact absurd hg not_good_bad
  | some cell =>
    rw [hc] at hg
    have hl2 := hg.2
    simp only [List.length_cons] at hl2
    have hpos : pos < cw.length := by omega
    have hcl : cell < B.length := by rw [hI.len]; exact cell_lt hc
    refine ⟨_, k_module_eq cw nrow ncol B row col pos bit h1 h8 hpos cell hc hcl, ?_, ?_⟩
    · rw [← hlen]; exact inv_assign hI cell (cell_lt hc)
    · simp only [List.length_cons]; omega

when_kernel Gzx.Gen.K08bPlace.module in
/-- a run of `module` calls with consecutive bit numbers (what `utah` and the corner functions are) -/
def chainK (cws : List Int) (nrows ncols pos : Int) : List (Int × Int) → Int → List Int → Res (List Int)
  | [], _, B => .ok B
  | (r, c) :: rest, bit, B =>
    tryR (Gen.K08bPlace.module cws nrows ncols B r c pos bit) fun B' => chainK cws nrows ncols pos rest (bit + 1) B'

when_kernel Gzx.Gen.K08bPlace.module in
theorem chain_sim (pos : Nat) : ∀ (cells : List (Int × Int)) (bit : Nat) (B : List Int) (st : PState),
    Inv nrow ncol cw B st → 1 ≤ bit → bit - 1 + cells.length ≤ 8 → st.seq.length = 8 * pos + (bit - 1) →
    Good cw.length (moduleList nrow ncol st cells) →
    ∃ B', chainK (bytes cw) nrow ncol pos cells bit B = .ok B' ∧ Inv nrow ncol cw B' (moduleList nrow ncol st cells) ∧
      (moduleList nrow ncol st cells).seq.length = 8 * pos + (bit - 1) + cells.length := by
  intro cells
  induction cells with
  | nil => intro bit B st hI _ _ hlen _; exact ⟨B, rfl, hI, by simpa [moduleList] using hlen⟩
  | cons rc rest ih =>
    intro bit B st hI h1 h8 hlen hg
    obtain ⟨r, c⟩ := rc
    simp only [List.length_cons] at h8
    have hg1 : Good cw.length (DMRef.module nrow ncol st r c) := good_moduleList rest _ hg
    obtain ⟨B1, e1, I1, l1⟩ := module_sim hI pos bit h1 (by omega) hlen r c hg1
    obtain ⟨B2, e2, I2, l2⟩ := ih (bit + 1) B1 (DMRef.module nrow ncol st r c) I1 (by omega) (by omega)
      (by rw [l1]; omega) hg
    refine ⟨B2, ?_, I2, ?_⟩
    · simp only [chainK, e1, tryR_ok]
      rw [show ((bit : Int) + 1) = ((bit + 1 : Nat) : Int) by omega]
      exact e2
    · show (moduleList nrow ncol (DMRef.module nrow ncol st r c) rest).seq.length = _
      rw [l2]; simp only [List.length_cons]; omega

when_kernel Gzx.Gen.K08bPlace.utah in
theorem utah_chain (cws : List Int) (nrows ncols : Int) (B : List Int) (row col pos : Int) :
    Gen.K08bPlace.utah cws nrows ncols B row col pos = chainK cws nrows ncols pos (utahCells row col) 1 B := rfl

when_kernel Gzx.Gen.K08bPlace.corner1 in
theorem corner1_chain (cws : List Int) (B : List Int) (pos : Int) :
    Gen.K08bPlace.corner1 cws nrow ncol B pos = chainK cws nrow ncol pos (corner1Cells nrow ncol) 1 B := rfl
when_kernel Gzx.Gen.K08bPlace.corner2 in
theorem corner2_chain (cws : List Int) (B : List Int) (pos : Int) :
    Gen.K08bPlace.corner2 cws nrow ncol B pos = chainK cws nrow ncol pos (corner2Cells nrow ncol) 1 B := rfl
when_kernel Gzx.Gen.K08bPlace.corner3 in
theorem corner3_chain (cws : List Int) (B : List Int) (pos : Int) :
    Gen.K08bPlace.corner3 cws nrow ncol B pos = chainK cws nrow ncol pos (corner3Cells nrow ncol) 1 B := rfl
when_kernel Gzx.Gen.K08bPlace.corner4 in
theorem corner4_chain (cws : List Int) (B : List Int) (pos : Int) :
    Gen.K08bPlace.corner4 cws nrow ncol B pos = chainK cws nrow ncol pos (corner4Cells nrow ncol) 1 B := rfl

when_kernel Gzx.Gen.K08bPlace.module in
/-- a symbol character (eight `module` calls, bits 1..8, then `pos++`) placed under a guard -/
theorem char_sim {B : List Int} {st : PState} (hI : Inv nrow ncol cw B st) (pos : Nat) (hlen : st.seq.length = 8 * pos)
    (g : Bool) (cells : List (Int × Int)) (h8 : cells.length = 8) (K : Res (List Int))
    (hK : K = chainK (bytes cw) nrow ncol pos cells 1 B)
    (hg : Good cw.length (if g = true then moduleList nrow ncol st cells else st)) :
    ∃ B' pos', ((if g = true then tryC K fun t => Ctl.next (t, (pos : Int) + 1) else Ctl.next (B, (pos : Int)) :
          Ctl (List Int × Int) (List Int))) = .next (B', ((pos' : Nat) : Int)) ∧
      Inv nrow ncol cw B' (if g = true then moduleList nrow ncol st cells else st) ∧
      (if g = true then moduleList nrow ncol st cells else st).seq.length = 8 * pos' := by
  cases g with
  | false => exact ⟨B, pos, rfl, hI, hlen⟩
  | true =>
    simp only [if_true] at hg ⊢
    obtain ⟨B', e, I', l'⟩ := chain_sim pos cells 1 B st hI (Nat.le_refl 1) (by omega) (by simpa using hlen) hg
    refine ⟨B', pos + 1, ?_, I', by rw [l', h8]; omega⟩
    have e' : chainK (bytes cw) nrow ncol pos cells 1 B = .ok B' := e
    rw [hK, e']; simp only [tryC_ok]
    congr 2

/-! ## the two diagonal sweeps -/

when_kernel Gzx.Gen.K08bPlace.place in
/-- `if GUARD && !this.hasBit(col, row) { this.utah(row, col, pos); pos++ }` as the kernel runs it -/
def condUtah (cws : List Int) (nrows ncols : Int) (g : Bool) (B : List Int) (pos r c : Int) : Ctl (List Int × Int) (List Int) :=
  tryC ((if g then (tryR (Gen.K08bPlace.hasBit ncols B c r) fun t5 => Except.ok (!t5)) else Except.ok false : Res Bool)) fun t6 =>
  if t6 then tryC (Gen.K08bPlace.utah cws nrows ncols B r c pos) fun t7 => .next (t7, pos + 1) else .next (B, pos)

when_kernel Gzx.Gen.K08bPlace.place in
theorem condUtah_sim {B : List Int} {st : PState} (hI : Inv nrow ncol cw B st) (pos : Nat) (hlen : st.seq.length = 8 * pos)
    (g : Bool) (r c : Int) (hg : Good cw.length (if g = true then tryUtah nrow ncol st r c else st)) :
    ∃ B' pos', condUtah (bytes cw) nrow ncol g B pos r c = .next (B', ((pos' : Nat) : Int)) ∧
      Inv nrow ncol cw B' (if g = true then tryUtah nrow ncol st r c else st) ∧
      (if g = true then tryUtah nrow ncol st r c else st).seq.length = 8 * pos' := by
  cases g with
  | false => exact ⟨B, pos, rfl, hI, hlen⟩
  | true =>
    simp only [if_true] at hg ⊢
    obtain ⟨_, hoob⟩ := good_tryUtah hg
    have hocc : occupied nrow ncol st r c = ((occupied nrow ncol st r c).1, false) := by rw [← hoob]
    obtain ⟨h0, h1, ho⟩ := occupied_inside hocc
    have hcl : (r * (ncol : Int) + c).toNat < B.length := by
      rw [hI.len]
      have : ((nrow * ncol : Nat) : Int) = (nrow : Int) * (ncol : Int) := Int.natCast_mul _ _
      omega
    have hhas := k_hasBit_eq ncol B c r (r * (ncol : Int) + c).toNat (by omega) hcl
    have hb := hI.occ (r * (ncol : Int) + c).toNat (by rw [← hI.len]; exact hcl)
    rw [List.getD_eq_getElem?_getD, List.getElem?_eq_getElem hcl, Option.getD_some] at hb
    rw [tryUtah_eq] at hg ⊢
    simp only [hoob, Bool.false_eq_true, if_false] at hg ⊢
    unfold condUtah
    simp only [if_true, hhas, tryR_ok, tryC_ok, ← hb, ← ho]
    cases hoc : (occupied nrow ncol st r c).1 with
    | true =>
      simp only [hoc, if_true] at hg ⊢
      exact ⟨B, pos, rfl, hI, hlen⟩
    | false =>
      simp only [hoc, Bool.false_eq_true, if_false, Bool.not_false, if_true] at hg ⊢
      obtain ⟨B', pos', e, I', l'⟩ := char_sim hI pos hlen true (utahCells r c) rfl _
        (utah_chain (bytes cw) nrow ncol B r c pos) (by simpa using hg)
      simp only [if_true] at e I' l'
      exact ⟨B', pos', e, I', l'⟩

when_kernel Gzx.Gen.K08bPlace.place in
theorem body2_eq (cws : List Int) (nrows ncols : Int) (B : List Int) (pos r c : Int) :
    Gen.K08bPlace.place_body2 cws nrows ncols (B, pos, r, c) =
      (condUtah cws nrows ncols (decide (r < nrows) && decide (c ≥ 0)) B pos r c).thenC fun st =>
        if (decide (r - 2 < 0) || decide (c + 2 ≥ ncols)) then .brk (st.1, st.2, r - 2, c + 2) else .next (st.1, st.2, r - 2, c + 2) := by
  unfold Gen.K08bPlace.place_body2 condUtah
  simp only []
  generalize (if (decide (r < nrows) && decide (c ≥ 0)) = true then
    (tryR (Gen.K08bPlace.hasBit ncols B c r) fun t5 => Except.ok (!t5)) else Except.ok false : Res Bool) = X
  cases X <;> rfl

when_kernel Gzx.Gen.K08bPlace.place in
theorem body3_eq (cws : List Int) (nrows ncols : Int) (B : List Int) (pos r c : Int) :
    Gen.K08bPlace.place_body3 cws nrows ncols (B, pos, r, c) =
      (condUtah cws nrows ncols (decide (r ≥ 0) && decide (c < ncols)) B pos r c).thenC fun st =>
        if (decide (r + 2 ≥ nrows) || decide (c - 2 < 0)) then .brk (st.1, st.2, r + 2, c - 2) else .next (st.1, st.2, r + 2, c - 2) := by
  unfold Gen.K08bPlace.place_body3 condUtah
  simp only []
  generalize (if (decide (r ≥ 0) && decide (c < ncols)) = true then
    (tryR (Gen.K08bPlace.hasBit ncols B c r) fun t5 => Except.ok (!t5)) else Except.ok false : Res Bool) = X
  cases X <;> rfl

theorem ite_decide_and {α : Type} (p q : Prop) [Decidable p] [Decidable q] (a b : α) :
    (if p ∧ q then a else b) = (if (decide p && decide q) = true then a else b) := by
  by_cases hp : p <;> by_cases hq : q <;> simp [hp, hq]

when_kernel Gzx.Gen.K08bPlace.place in
/-- the upward sweep: the kernel's `for { … if row < 0 || col >= numcols { break } }` follows `DMRef.sweepUp` -/
theorem sweepUp_sim : ∀ (f kf : Nat) (st : PState) (r c : Int) (B : List Int) (pos : Nat),
    f < kf → Inv nrow ncol cw B st → st.seq.length = 8 * pos → Good cw.length (sweepUp nrow ncol f st r c).1 →
    ∃ B' pos', whileLoop (Gen.K08bPlace.place_body2 (bytes cw) nrow ncol) kf (B, ((pos : Nat) : Int), r, c) =
        .brk (B', ((pos' : Nat) : Int), (sweepUp nrow ncol f st r c).2.1, (sweepUp nrow ncol f st r c).2.2) ∧
      Inv nrow ncol cw B' (sweepUp nrow ncol f st r c).1 ∧ (sweepUp nrow ncol f st r c).1.seq.length = 8 * pos' := by
  intro f
  induction f with
  | zero => intro kf st r c B pos _ _ _ hg; exact absurd hg (by unfold sweepUp; exact not_good_bad)
  | succ f ih =>
    intro kf st r c B pos hkf hI hlen hg
    obtain ⟨kf, rfl⟩ : ∃ k, kf = k + 1 := ⟨kf - 1, by omega⟩
    rw [sweepUp_succ] at hg ⊢
    rw [whileLoop_succ, body2_eq]
    have hs1 : Good cw.length (if r < (nrow : Int) ∧ c ≥ 0 then tryUtah nrow ncol st r c else st) := by
      by_cases hc : r - 2 ≥ 0 ∧ c + 2 < (ncol : Int)
      · simp only [hc, and_self, if_true] at hg; exact good_sweepUp f _ _ _ hg
      · simp only [hc, if_false] at hg; exact hg
    rw [ite_decide_and] at hs1
    obtain ⟨B1, pos1, e1, I1, l1⟩ := condUtah_sim hI pos hlen _ r c hs1
    rw [e1]
    simp only [next_thenC]
    rw [← ite_decide_and] at I1 l1
    by_cases hc : r - 2 ≥ 0 ∧ c + 2 < (ncol : Int)
    · have hk : (decide (r - 2 < 0) || decide (c + 2 ≥ (ncol : Int))) = false := by
        rw [Bool.or_eq_false_iff]; constructor <;> simp <;> omega
      simp only [hc, and_self, if_true, hk, Bool.false_eq_true, if_false] at hg ⊢
      exact ih kf _ (r - 2) (c + 2) B1 pos1 (by omega) I1 l1 hg
    · have hk : (decide (r - 2 < 0) || decide (c + 2 ≥ (ncol : Int))) = true := by
        rw [Bool.or_eq_true]; simp only [decide_eq_true_eq]; omega
      simp only [hc, if_false, hk, if_true] at hg ⊢
      exact ⟨B1, pos1, rfl, I1, l1⟩

when_kernel Gzx.Gen.K08bPlace.place in
/-- the downward sweep follows `DMRef.sweepDown` -/
theorem sweepDown_sim : ∀ (f kf : Nat) (st : PState) (r c : Int) (B : List Int) (pos : Nat),
    f < kf → Inv nrow ncol cw B st → st.seq.length = 8 * pos → Good cw.length (sweepDown nrow ncol f st r c).1 →
    ∃ B' pos', whileLoop (Gen.K08bPlace.place_body3 (bytes cw) nrow ncol) kf (B, ((pos : Nat) : Int), r, c) =
        .brk (B', ((pos' : Nat) : Int), (sweepDown nrow ncol f st r c).2.1, (sweepDown nrow ncol f st r c).2.2) ∧
      Inv nrow ncol cw B' (sweepDown nrow ncol f st r c).1 ∧ (sweepDown nrow ncol f st r c).1.seq.length = 8 * pos' := by
  intro f
  induction f with
  | zero => intro kf st r c B pos _ _ _ hg; exact absurd hg (by unfold sweepDown; exact not_good_bad)
  | succ f ih =>
    intro kf st r c B pos hkf hI hlen hg
    obtain ⟨kf, rfl⟩ : ∃ k, kf = k + 1 := ⟨kf - 1, by omega⟩
    rw [sweepDown_succ] at hg ⊢
    rw [whileLoop_succ, body3_eq]
    have hs1 : Good cw.length (if r ≥ 0 ∧ c < (ncol : Int) then tryUtah nrow ncol st r c else st) := by
      by_cases hc : r + 2 < (nrow : Int) ∧ c - 2 ≥ 0
      · simp only [hc, and_self, if_true] at hg; exact good_sweepDown f _ _ _ hg
      · simp only [hc, if_false] at hg; exact hg
    rw [ite_decide_and] at hs1
    obtain ⟨B1, pos1, e1, I1, l1⟩ := condUtah_sim hI pos hlen _ r c hs1
    rw [e1]
    simp only [next_thenC]
    rw [← ite_decide_and] at I1 l1
    by_cases hc : r + 2 < (nrow : Int) ∧ c - 2 ≥ 0
    · have hk : (decide (r + 2 ≥ (nrow : Int)) || decide (c - 2 < 0)) = false := by
        rw [Bool.or_eq_false_iff]; constructor <;> simp <;> omega
      simp only [hc, and_self, if_true, hk, Bool.false_eq_true, if_false] at hg ⊢
      exact ih kf _ (r + 2) (c - 2) B1 pos1 (by omega) I1 l1 hg
    · have hk : (decide (r + 2 ≥ (nrow : Int)) || decide (c - 2 < 0)) = true := by
        rw [Bool.or_eq_true]; simp only [decide_eq_true_eq]; omega
      simp only [hc, if_false, hk, if_true] at hg ⊢
      exact ⟨B1, pos1, rfl, I1, l1⟩

/-! ## the outer loop and `Place` -/

theorem corner1Of_b (st : PState) (row col : Int) :
    corner1Of nrow ncol st row col =
      if ((row == (nrow : Int)) && (col == 0)) = true then moduleList nrow ncol st (corner1Cells nrow ncol) else st := by
  unfold corner1Of
  by_cases h1 : row = (nrow : Int) <;> by_cases h2 : col = 0 <;> simp [h1, h2]

theorem corner2Of_b (st : PState) (row col : Int) :
    corner2Of nrow ncol st row col =
      if (((row == (nrow : Int) - 2) && (col == 0)) && (Int.tmod (ncol : Int) 4 != 0)) = true then
        moduleList nrow ncol st (corner2Cells nrow ncol) else st := by
  unfold corner2Of
  have e : Int.tmod (ncol : Int) 4 = ((ncol % 4 : Nat) : Int) := by
    rw [show (4 : Int) = ((4 : Nat) : Int) from rfl, tmod_natCast]
  rw [e, natCast_bne_zero]
  by_cases h1 : row = (nrow : Int) - 2 <;> by_cases h2 : col = 0 <;> by_cases h3 : ncol % 4 = 0 <;> simp [h1, h2, h3]

theorem corner3Of_b (st : PState) (row col : Int) :
    corner3Of nrow ncol st row col =
      if (((row == (nrow : Int) - 2) && (col == 0)) && (Int.tmod (ncol : Int) 8 == 4)) = true then
        moduleList nrow ncol st (corner3Cells nrow ncol) else st := by
  unfold corner3Of
  have e : Int.tmod (ncol : Int) 8 = ((ncol % 8 : Nat) : Int) := by
    rw [show (8 : Int) = ((8 : Nat) : Int) from rfl, tmod_natCast]
  rw [e]
  have e4 : ((((ncol % 8 : Nat) : Int) == 4) : Bool) = decide (ncol % 8 = 4) := by
    by_cases h : ncol % 8 = 4
    · rw [h]; simp
    · have : ¬ ((ncol % 8 : Nat) : Int) = 4 := by omega
      rw [beq_eq_false_iff_ne.mpr this]; simp [h]
  rw [e4]
  by_cases h1 : row = (nrow : Int) - 2 <;> by_cases h2 : col = 0 <;> by_cases h3 : ncol % 8 = 4 <;> simp [h1, h2, h3]

theorem corner4Of_b (st : PState) (row col : Int) :
    corner4Of nrow ncol st row col =
      if (((row == (nrow : Int) + 4) && (col == 2)) && (Int.tmod (ncol : Int) 8 == 0)) = true then
        moduleList nrow ncol st (corner4Cells nrow ncol) else st := by
  unfold corner4Of
  have e : Int.tmod (ncol : Int) 8 = ((ncol % 8 : Nat) : Int) := by
    rw [show (8 : Int) = ((8 : Nat) : Int) from rfl, tmod_natCast]
  rw [e]
  have e4 : ((((ncol % 8 : Nat) : Int) == 0) : Bool) = decide (ncol % 8 = 0) := by
    by_cases h : ncol % 8 = 0
    · rw [h]; simp
    · have : ¬ ((ncol % 8 : Nat) : Int) = 0 := by omega
      rw [beq_eq_false_iff_ne.mpr this]; simp [h]
  rw [e4]
  by_cases h1 : row = (nrow : Int) + 4 <;> by_cases h2 : col = 2 <;> by_cases h3 : ncol % 8 = 0 <;> simp [h1, h2, h3]

when_kernel Gzx.Gen.K08bPlace.place in
/-- one round of the outer loop: corner cases, sweep up, sweep down, the exit test -/
theorem round_sim {B : List Int} {st : PState} (hI : Inv nrow ncol cw B st) (pos : Nat) (hlen : st.seq.length = 8 * pos)
    (row col : Int) (fuel : Nat) (hf : nrow + ncol < fuel) (hg : Good cw.length (roundOf nrow ncol st row col).1) :
    ∃ B' pos', Gen.K08bPlace.place_body1 fuel (bytes cw) nrow ncol (B, ((pos : Nat) : Int), row, col) =
        (if (roundOf nrow ncol st row col).2.1 + 3 < nrow ∨ (roundOf nrow ncol st row col).2.2 + 1 < ncol then
          Ctl.next (B', ((pos' : Nat) : Int), (roundOf nrow ncol st row col).2.1 + 3, (roundOf nrow ncol st row col).2.2 + 1)
        else Ctl.brk (B', ((pos' : Nat) : Int), (roundOf nrow ncol st row col).2.1 + 3, (roundOf nrow ncol st row col).2.2 + 1)) ∧
      Inv nrow ncol cw B' (roundOf nrow ncol st row col).1 ∧ (roundOf nrow ncol st row col).1.seq.length = 8 * pos' := by
  have gUp := good_roundOf hg
  have gC := good_sweepUp _ _ _ _ gUp
  rw [corners_eq] at gC
  have g4 := gC
  rw [corner4Of_b] at g4
  have g3 := good_ite_moduleList (p := _) g4
  have g3' := g3
  rw [corner3Of_b] at g3'
  have g2 := good_ite_moduleList (p := _) g3'
  have g2' := g2
  rw [corner2Of_b] at g2'
  have g1 := good_ite_moduleList (p := _) g2'
  rw [corner1Of_b] at g1
  obtain ⟨B1, p1, e1, I1, l1⟩ := char_sim hI pos hlen _ (corner1Cells nrow ncol) rfl _ (corner1_chain (bytes cw) B pos) g1
  rw [← corner1Of_b] at I1 l1
  obtain ⟨B2, p2, e2, I2, l2⟩ := char_sim I1 p1 l1 _ (corner2Cells nrow ncol) rfl _ (corner2_chain (bytes cw) B1 p1) g2'
  rw [← corner2Of_b] at I2 l2
  obtain ⟨B3, p3, e3, I3, l3⟩ := char_sim I2 p2 l2 _ (corner3Cells nrow ncol) rfl _ (corner3_chain (bytes cw) B2 p2) g3'
  rw [← corner3Of_b] at I3 l3
  obtain ⟨B4, p4, e4, I4, l4⟩ := char_sim I3 p3 l3 _ (corner4Cells nrow ncol) rfl _ (corner4_chain (bytes cw) B3 p3) g4
  rw [← corner4Of_b, ← corners_eq] at I4 l4
  obtain ⟨B5, p5, e5, I5, l5⟩ := sweepUp_sim (nrow + ncol) fuel _ row col B4 p4 hf I4 l4 gUp
  obtain ⟨B6, p6, e6, I6, l6⟩ := sweepDown_sim (nrow + ncol) fuel _ _ _ B5 p5 hf I5 l5 hg
  refine ⟨B6, p6, ?_, I6, l6⟩
  unfold Gen.K08bPlace.place_body1
  simp only []
  rw [e1]; simp only [next_thenC]
  rw [e2]; simp only [next_thenC]
  rw [e3]; simp only [next_thenC]
  rw [e4]; simp only [next_thenC]
  rw [e5]; simp only [brk_thenC]
  have e6' : whileLoop (Gen.K08bPlace.place_body3 (bytes cw) nrow ncol) fuel
      (B5, ((p5 : Nat) : Int), (sweepUp nrow ncol (nrow + ncol) (corners nrow ncol st row col) row col).2.1 + 1,
        (sweepUp nrow ncol (nrow + ncol) (corners nrow ncol st row col) row col).2.2 + 3) = _ := e6
  rw [e6']; simp only [brk_thenC]
  show (if (decide ((roundOf nrow ncol st row col).2.1 + 3 ≥ (nrow : Int)) &&
      decide ((roundOf nrow ncol st row col).2.2 + 1 ≥ (ncol : Int))) = true then _ else _) = _
  by_cases hc : (roundOf nrow ncol st row col).2.1 + 3 < nrow ∨ (roundOf nrow ncol st row col).2.2 + 1 < ncol
  · have hk : (decide ((roundOf nrow ncol st row col).2.1 + 3 ≥ (nrow : Int)) &&
        decide ((roundOf nrow ncol st row col).2.2 + 1 ≥ (ncol : Int))) = false := by
      rw [Bool.and_eq_false_iff]; simp only [decide_eq_false_iff_not]; omega
    simp only [hk, hc, Bool.false_eq_true, if_false, if_true]
    rfl
  · have hk : (decide ((roundOf nrow ncol st row col).2.1 + 3 ≥ (nrow : Int)) &&
        decide ((roundOf nrow ncol st row col).2.2 + 1 ≥ (ncol : Int))) = true := by
      rw [Bool.and_eq_true]; simp only [decide_eq_true_eq]; omega
    simp only [hk, hc, if_false, if_true]
    rfl

when_kernel Gzx.Gen.K08bPlace.place in
/-- the outer `for { … }` follows `DMRef.placeLoop` -/
theorem placeLoop_sim (fuel : Nat) (hfu : nrow + ncol < fuel) : ∀ (f kf : Nat) (st : PState) (row col : Int) (B : List Int) (pos : Nat),
    f < kf → Inv nrow ncol cw B st → st.seq.length = 8 * pos → Good cw.length (placeLoop nrow ncol f st row col) →
    ∃ B' pos' r' c', whileLoop (Gen.K08bPlace.place_body1 fuel (bytes cw) nrow ncol) kf (B, ((pos : Nat) : Int), row, col) =
        .brk (B', ((pos' : Nat) : Int), r', c') ∧ Inv nrow ncol cw B' (placeLoop nrow ncol f st row col) := by
  intro f
  induction f with
  | zero => intro kf st row col B pos _ _ _ hg; exact absurd hg (by unfold placeLoop; exact not_good_bad)
  | succ f ih =>
    intro kf st row col B pos hkf hI hlen hg
    obtain ⟨kf, rfl⟩ : ∃ k, kf = k + 1 := ⟨kf - 1, by omega⟩
    have hr := good_placeLoop (f + 1) st row col hg
    obtain ⟨B1, p1, e1, I1, l1⟩ := round_sim hI pos hlen row col fuel hfu hr
    rw [placeLoop_succ] at hg ⊢
    rw [whileLoop_succ, e1]
    by_cases hc : (roundOf nrow ncol st row col).2.1 + 3 < nrow ∨ (roundOf nrow ncol st row col).2.2 + 1 < ncol
    · simp only [hc, if_true] at hg ⊢
      exact ih kf _ _ _ B1 p1 (by omega) I1 l1 hg
    · simp only [hc, if_false] at hg ⊢
      exact ⟨B1, p1, _, _, rfl, I1⟩

/-- the `bits` array `Place()` leaves: every assigned cell holds its codeword bit (msb first, in the order of the reference
    program), unassigned cells hold -1, and when the lower right corner was left free its two dark cells are set -/
def placeBits (nrow ncol : Nat) (cw : List Nat) : List Int :=
  let B := paint cw (placeSeq nrow ncol) 0 (List.replicate (nrow * ncol) (-1))
  if fixedUsed nrow ncol then (B.set (nrow * ncol - 1) 1).set (nrow * ncol - ncol - 2) 1 else B

when_kernel Gzx.Gen.K08bPlace.place in
/-- **`DefaultPlacement.Place()`, Go source to ISO/IEC 16022 Annex F**: for every mapping-matrix size on which the reference
    placement program stays inside the matrix, and every codeword vector long enough for the characters it places, the
    regenerated `Place()` started on the fresh array (`NewDefaultPlacement`: all cells -1) does not panic and leaves exactly
    `placeBits` — the reference program's cells painted with the codeword bits, plus the fixed corner pattern.
    (`placement_total_injective`, Properties/C08: the side conditions hold for the 30 sizes of Table 7 with `8 x total` cells.) -/
theorem k_place_eq (nrow ncol : Nat) (cw : List Nat) (fuel : Nat) (h2r : 2 ≤ nrow) (h2c : 2 ≤ ncol)
    (hb : (placeState nrow ncol).bad = false) (hl : (placeState nrow ncol).seq.length ≤ 8 * cw.length)
    (hf : nrow + ncol < fuel) :
    Gen.K08bPlace.place fuel (bytes cw) nrow ncol (List.replicate (nrow * ncol) (-1)) = .ok (placeBits nrow ncol cw) := by
  have hg : Good cw.length (placeLoop nrow ncol (nrow + ncol) {} 4 0) := ⟨hb, hl⟩
  obtain ⟨B', pos', r', c', e, I'⟩ := placeLoop_sim (cw := cw) fuel hf (nrow + ncol) fuel {} 4 0
    (List.replicate (nrow * ncol) (-1)) 0 hf (inv_init nrow ncol cw) rfl hg
  unfold Gen.K08bPlace.place
  simp only []
  have e' : whileLoop (Gen.K08bPlace.place_body1 fuel (bytes cw) nrow ncol) fuel (List.replicate (nrow * ncol) (-1), 0, 4, 0) = _ := e
  rw [e']
  simp only [brk_thenR]
  have hmul : 2 * ncol ≤ nrow * ncol := Nat.mul_le_mul_right ncol h2r
  have hn : nrow * ncol - 1 < B'.length := by rw [I'.len]; omega
  have hn2 : nrow * ncol - ncol - 2 < B'.length := by rw [I'.len]; omega
  have hcell1 : ((nrow : Int) - 1) * (ncol : Int) + ((ncol : Int) - 1) = ((nrow * ncol - 1 : Nat) : Int) := by
    have : ((nrow * ncol : Nat) : Int) = (nrow : Int) * (ncol : Int) := Int.natCast_mul _ _
    rw [Int.sub_mul]; omega
  have hcell2 : ((nrow : Int) - 2) * (ncol : Int) + ((ncol : Int) - 2) = ((nrow * ncol - ncol - 2 : Nat) : Int) := by
    have : ((nrow * ncol : Nat) : Int) = (nrow : Int) * (ncol : Int) := Int.natCast_mul _ _
    rw [Int.sub_mul]; omega
  rw [k_hasBit_eq ncol B' _ _ _ hcell1 hn]
  simp only [tryR_ok]
  have hocc := I'.occ (nrow * ncol - 1) (by omega)
  rw [List.getD_eq_getElem?_getD, List.getElem?_eq_getElem hn, Option.getD_some] at hocc
  have hval : B' = paint cw (placeSeq nrow ncol) 0 (List.replicate (nrow * ncol) (-1)) := I'.val
  unfold placeBits fixedUsed
  simp only []
  rw [← hval, ← hocc]
  show (if (!(placeState nrow ncol).occ.testBit (nrow * ncol - 1)) = true then _ else _) = _
  cases ht : (placeState nrow ncol).occ.testBit (nrow * ncol - 1) with
  | true => simp
  | false =>
    simp only [Bool.not_false, if_true]
    rw [k_setBit_eq ncol B' _ _ true _ hcell1 hn]
    simp only [tryR_ok, if_true]
    rw [k_setBit_eq ncol _ _ _ true _ hcell2 (by simpa using hn2)]
    simp

when_kernel Gzx.Gen.K08bPlace.place in
/-- the picture of the final reference state satisfies the invariant (obtained through the simulation) -/
theorem place_inv (nrow ncol : Nat) (cw : List Nat) (hb : (placeState nrow ncol).bad = false)
    (hl : (placeState nrow ncol).seq.length ≤ 8 * cw.length) :
    Inv nrow ncol cw (paint cw (placeSeq nrow ncol) 0 (List.replicate (nrow * ncol) (-1))) (placeState nrow ncol) := by
  have hg : Good cw.length (placeLoop nrow ncol (nrow + ncol) {} 4 0) := ⟨hb, hl⟩
  obtain ⟨B', pos', r', c', _, I'⟩ := placeLoop_sim (cw := cw) (nrow + ncol + 1) (by omega) (nrow + ncol) (nrow + ncol + 1) {} 4 0
    (List.replicate (nrow * ncol) (-1)) 0 (by omega) (inv_init nrow ncol cw) rfl hg
  have hval : B' = paint cw (placeSeq nrow ncol) 0 (List.replicate (nrow * ncol) (-1)) := I'.val
  rw [← hval]; exact I'

when_kernel Gzx.Gen.K08bPlace.place in
/-- **what `GetBit` reads after `Place()` is the reference mapping matrix** `DMRef.mappingBits` (the matrix the C08 theorems
    `read_place_inv`, `encoder_matrix_conforms` … are about), cell by cell; `hfree`: the fixed pattern, when used, lies on
    unassigned cells (`SizeFacts.fixedFree`, checked for the 30 sizes) -/
theorem placeBits_getBit (nrow ncol : Nat) (cw : List Nat) (h2r : 2 ≤ nrow) (h2c : 2 ≤ ncol)
    (hb : (placeState nrow ncol).bad = false) (hl : (placeState nrow ncol).seq.length ≤ 8 * cw.length)
    (hfree : ∀ p ∈ fixedCells nrow ncol, (placeState nrow ncol).occ.testBit p.1 = false) (c : Nat) :
    ((placeBits nrow ncol cw).getD c (-1) == 1) = (mappingBits nrow ncol cw).getD c false := by
  have I := place_inv nrow ncol cw hb hl
  have hmul : 2 * ncol ≤ nrow * ncol := Nat.mul_le_mul_right ncol h2r
  have hps := paint_scatter cw (placeSeq nrow ncol) 0 (List.replicate (nrow * ncol) (-1)) (Array.replicate (nrow * ncol) false)
    (by simp) (by simpa [placeSeq] using hl)
    (by
      intro x
      simp only [List.getD_eq_getElem?_getD, Array.getD_eq_getD_getElem?]
      by_cases hx : x < nrow * ncol <;> simp [hx])
  simp only [List.drop_zero] at hps
  unfold placeBits mappingBits
  simp only []
  generalize hB : paint cw (placeSeq nrow ncol) 0 (List.replicate (nrow * ncol) (-1)) = B at hps I
  generalize hG : scatter (placeSeq nrow ncol) (allBits cw) (Array.replicate (nrow * ncol) false) = g at hps
  have hBl : B.length = nrow * ncol := I.len
  have hGl : g.size = nrow * ncol := by
    have : ∀ (cs : List Nat) (bs : List Bool) (a : Array Bool), (scatter cs bs a).size = a.size := by
      intro cs
      induction cs with
      | nil => intro bs a; simp [scatter]
      | cons x cs ih =>
        intro bs a
        cases bs with
        | nil => simp [scatter]
        | cons b bs => simp [scatter, ih]
    rw [← hG, this]; simp
  have hocc := I.occ
  by_cases hfu : fixedUsed nrow ncol = true
  · have hfc : fixedCells nrow ncol =
        [(nrow * ncol - ncol - 2, true), (nrow * ncol - ncol - 1, false), (nrow * ncol - 2, false), (nrow * ncol - 1, true)] := by
      unfold fixedCells; simp [hfu]
    have hf2 := hfree (nrow * ncol - ncol - 1, false) (by rw [hfc]; simp)
    have hf3 := hfree (nrow * ncol - 2, false) (by rw [hfc]; simp)
    have ho2 := hocc (nrow * ncol - ncol - 1) (by omega)
    have ho3 := hocc (nrow * ncol - 2) (by omega)
    rw [hf2] at ho2; rw [hf3] at ho3
    have hn2 : ¬ (B.getD (nrow * ncol - ncol - 1) (-1) ≥ 0) := by simpa using ho2.symm
    have hn3 : ¬ (B.getD (nrow * ncol - 2) (-1) ≥ 0) := by simpa using ho3.symm
    simp only [hfu, if_true, hfc, List.map_cons, List.map_nil, scatter]
    have hx := hps c
    clear hocc hf2 hf3 ho2 ho3 hfree hfc hps hB hG I hl hb hfu
    generalize nrow * ncol = n at *
    have hne2 : ¬ (B.getD (n - ncol - 1) (-1) = 1) := by omega
    have hne3 : ¬ (B.getD (n - 2) (-1) = 1) := by omega
    simp only [List.getD_eq_getElem?_getD, Array.getD_eq_getD_getElem?, List.getElem?_set, Array.getElem?_setIfInBounds,
      List.length_set, Array.size_setIfInBounds, hBl, hGl] at hx hne2 hne3 ⊢
    by_cases h4 : n - 1 = c
    · subst h4
      have e1 : ¬ (n - ncol - 2 = n - 1) := by omega
      have l1 : n - 1 < n := by omega
      simp [e1, l1]
    · by_cases h1 : n - ncol - 2 = c
      · subst h1
        have l1 : n - ncol - 2 < n := by omega
        have e2 : ¬ (n - 2 = n - ncol - 2) := by omega
        have e3 : ¬ (n - ncol - 1 = n - ncol - 2) := by omega
        simp [h4, l1, e2, e3]
      · by_cases h3 : n - 2 = c
        · subst h3
          have l1 : n - 2 < n := by omega
          simp [h4, h1, l1, hne3]
        · by_cases h2 : n - ncol - 1 = c
          · subst h2
            have l1 : n - ncol - 1 < n := by omega
            simp [h4, h1, h3, l1, hne2]
          · simp only [h4, h1, h2, h3, if_false]
            exact hx
  · have hfu' : fixedUsed nrow ncol = false := by simpa using hfu
    have hfc : fixedCells nrow ncol = [] := by unfold fixedCells; simp [hfu']
    simp only [hfu', Bool.false_eq_true, if_false, hfc, List.map_nil, scatter]
    exact hps c

-- non-vacuity: the 8x8 mapping matrix of the 10x10 symbol (8 codewords), fuel 17
when_kernel Gzx.Gen.K08bPlace.place in
example : Gen.K08bPlace.place 17 (bytes [142, 164, 186, 114, 25, 5, 88, 102]) 8 8 (List.replicate 64 (-1)) =
    .ok (placeBits 8 8 [142, 164, 186, 114, 25, 5, 88, 102]) := by decide +kernel
example : (placeState 8 8).bad = false ∧ (placeState 8 8).seq.length = 64 := by decide +kernel

end Gzx.Obligations.K08c
