/-
  K08cAll (work package kfinish) — `k_place_eq` / `placeBits_getBit` instantiated for the 30 ECC 200 sizes of ISO/IEC 16022
  Table 7: the side conditions ("the reference placement program stays inside the mapping matrix", "8 x total cells are
  assigned", "the fixed pattern lies on free cells") are the per-size kernel evaluations behind `placement_total_injective`
  (Properties/C08).  So for every size and every codeword vector of the symbol's length the regenerated `Place()` returns the
  reference mapping matrix.
-/
import Gzx.Obligations.K08c
import Gzx.Properties.C08
namespace Gzx.Obligations.K08cAll
open Gzx Gzx.GoM Gzx.DMRef Gzx.K08c Gzx.Obligations.K08c

theorem table7_dims : ∀ s ∈ table7, 2 ≤ s.mapRows ∧ 2 ≤ s.mapCols := by decide

when_kernel Gzx.Gen.K08bPlace.place in
/-- **`Place()` on every Table 7 size**: no panic, and `GetBit` of the result is `DMRef.mappingBits`, for every codeword vector
    of the symbol's total length and any fuel above `rows + cols` of the mapping matrix -/
theorem k_place_table7 : ∀ s ∈ table7, ∀ (cw : List Nat) (fuel : Nat), cw.length = s.total → s.mapRows + s.mapCols < fuel →
    Gen.K08bPlace.place fuel (bytes cw) s.mapRows s.mapCols (List.replicate (s.mapRows * s.mapCols) (-1)) =
        .ok (placeBits s.mapRows s.mapCols cw) ∧
      ∀ c, ((placeBits s.mapRows s.mapCols cw).getD c (-1) == 1) = (mappingBits s.mapRows s.mapCols cw).getD c false := by
  intro s hs cw fuel hlen hf
  have F := DMProofs.sizeFacts_of_check (Properties.C08.all_sizes_checked s hs)
  obtain ⟨h2r, h2c⟩ := table7_dims s hs
  have hl : (placeState s.mapRows s.mapCols).seq.length ≤ 8 * cw.length := by rw [F.len, hlen]; exact Nat.le_refl _
  exact ⟨k_place_eq s.mapRows s.mapCols cw fuel h2r h2c F.nobad hl hf,
    placeBits_getBit s.mapRows s.mapCols cw h2r h2c F.nobad hl (fun p hp => (F.fixedFree p hp).2)⟩

end Gzx.Obligations.K08cAll
